import Refine.Model.Comm
import Refine.Lemmas.Comm
import Refine.Lemmas.CommReduce
import Refine.Lemmas.CommSelect
import Refine.Lemmas.CommP2P
import Mathlib.Data.Int.Order.Basic

/-!
  C17 — communication primitives deliver every item exactly once.

  Every theorem is about the executable model `Refine.Model.Comm` (tied to `ref_mpi.c` /
  `ref_search_selection` by the `comm_*` correspondence streams) and holds for EVERY rank count
  (`blocks.length`, `w.length`, `ws.length` are arbitrary, 1 and 0 included) and every count vector
  (zeros included).  What MPI itself does (`mpiAlltoallv`, the tagged point-to-point matcher, `MPI_Reduce`, …)
  is the trusted specification of DESIGN.md section 4.

  Vocabulary (defined in `Refine/Lemmas/Comm*.lean`):
  * `a2aWorld blocks recv0` — rank `s` sends the items `blocks[s][r]` (each `n` scalars) to rank `r`;
    `column r blocks` is what rank `r` is sent, by source rank.
  * `blindOf pairs` — the `ref_mpi_blindsend` arguments for `(destination, item)` pairs; `bucket q pairs` the items
    addressed to `q` in their original order; `delivered r w` the items addressed to `r` by source rank, then
    original index.
  * `balanceIn ws` — rank `r` holds the items `ws[r]`; `balanced first last ws r` the `r`-th run of the
    concatenation, runs as long as the shares `shareNat total first last r`.
-/
namespace Refine.Props.C17
open Refine Refine.Model.Comm Refine.Lemmas.Comm

variable {α : Type}

/-! ## all-to-all -/

/-- `ref_mpi_alltoallv` (MPI variant): rank `r` receives the blocks addressed to it, concatenated in source-rank
    order; the status is ok on every rank.  Hypotheses: the type is known to `ref_type_mpi_type`, every item has `n`
    scalars, the receive buffers have the size the counts say, the element totals fit an `int`. -/
theorem alltoallv_spec (ty : RefType) (hty : ty.mpiOk = true) (maxTag : Int) (n : Nat)
    (blocks : List (List (List (List α)))) (recv0 : Nat → List α)
    (hitem : ∀ b ∈ blocks, ∀ blk ∈ b, ∀ it ∈ blk, it.length = n)
    (hrecv : ∀ r, r < blocks.length → ((recv0 r).length : Int) = (n : Int) * (countsI (column r blocks)).sum)
    (hsend : ∀ b ∈ blocks, (n : Int) * (countsI b).sum ≤ INT_MAX)
    (hrcv : ∀ r, r < blocks.length → (n : Int) * (countsI (column r blocks)).sum ≤ INT_MAX) :
    alltoallv false ty maxTag (n : Int) (a2aWorld blocks recv0)
      = some ((List.range blocks.length).map fun r => (Status.ok, ((column r blocks).flatten).flatten)) := by
  unfold alltoallv
  simp only [Bool.false_eq_true, if_false]
  exact alltoallvMpi_spec ty hty n blocks recv0 hitem hrecv hsend hrcv

/-- `ref_mpi_alltoallv_native` (`MPI_Irecv`/`MPI_Isend` with tag `n*receiver+sender`): same result, for the three
    types its `switch` knows, whenever `np*np` does not exceed the tag bound. No overflow guard is needed. -/
theorem alltoallv_native_spec (ty : RefType) (hty : ty.nativeOk = true) (maxTag : Int) (n : Nat)
    (blocks : List (List (List (List α)))) (recv0 : Nat → List α)
    (hmax : (blocks.length : Int) * blocks.length ≤ maxTag)
    (hsq : ∀ b ∈ blocks, b.length = blocks.length)
    (hitem : ∀ b ∈ blocks, ∀ blk ∈ b, ∀ it ∈ blk, it.length = n)
    (hrecv : ∀ r, r < blocks.length → ((recv0 r).length : Int) = (n : Int) * (countsI (column r blocks)).sum) :
    alltoallv true ty maxTag (n : Int) (a2aWorld blocks recv0)
      = some ((List.range blocks.length).map fun r => (Status.ok, ((column r blocks).flatten).flatten)) := by
  unfold alltoallv
  simp only [if_true]
  exact alltoallvNative_spec ty hty maxTag n blocks recv0 hmax hsq hitem hrecv

/-- both implementations give the same answer -/
theorem alltoallv_native_eq_mpi (ty : RefType) (hty : ty.nativeOk = true) (maxTag : Int) (n : Nat)
    (blocks : List (List (List (List α)))) (recv0 : Nat → List α)
    (hmax : (blocks.length : Int) * blocks.length ≤ maxTag)
    (hsq : ∀ b ∈ blocks, b.length = blocks.length)
    (hitem : ∀ b ∈ blocks, ∀ blk ∈ b, ∀ it ∈ blk, it.length = n)
    (hrecv : ∀ r, r < blocks.length → ((recv0 r).length : Int) = (n : Int) * (countsI (column r blocks)).sum)
    (hsend : ∀ b ∈ blocks, (n : Int) * (countsI b).sum ≤ INT_MAX)
    (hrcv : ∀ r, r < blocks.length → (n : Int) * (countsI (column r blocks)).sum ≤ INT_MAX) :
    alltoallv true ty maxTag (n : Int) (a2aWorld blocks recv0)
      = alltoallv false ty maxTag (n : Int) (a2aWorld blocks recv0) := by
  rw [alltoallv_native_spec ty hty maxTag n blocks recv0 hmax hsq hitem hrecv,
    alltoallv_spec ty (mpiOk_of_nativeOk hty) maxTag n blocks recv0 hitem hrecv hsend hrcv]

/-- the size loops of `ref_mpi_alltoallv` fail exactly on a negative size or an `n*size` outside `int` -/
theorem alltoallv_size_guard (n : Int) (xs : List Int) :
    sizeN n xs = none ↔ ∃ x ∈ xs, x < 0 ∨ OutOfInt (n * x) :=
  sizeN_eq_none_iff n xs

/-- the displacement loops fail exactly when one of the partial sums they form leaves `[INT_MIN, INT_MAX]`
    (the last size is never added) -/
theorem alltoallv_disp_guard (xs : List Int) :
    dispGuard 0 xs = none ↔ ∃ k, k + 1 < xs.length ∧ OutOfInt (0 + (xs.take (k + 1)).sum) :=
  dispGuard_eq_none_iff 0 xs

/-- when the guards pass the displacement array is the running sum of the element counts -/
theorem alltoallv_disp_value (xs : List Int) (hx : ∀ x ∈ xs, 0 ≤ x) (hs : xs.sum ≤ INT_MAX) :
    dispGuard 0 xs = some (displs xs) :=
  dispGuard_ok 0 xs (by omega) hx (by omega)

/-- the native tag `np * receiver + sender` identifies the (receiver, sender) pair -/
theorem native_tag_scheme (np r s r' s' : Nat) (hs : s < np) (hs' : s' < np)
    (h : np * r + s = np * r' + s') : r = r' ∧ s = s' :=
  native_tag_injective np r s r' s' hs hs' h

/-! ## blind send -/

/-- the bucket pack of `ref_mpi_blindsend`: from the `a_size` counts and `a_next` prefix sums the packed buffer is,
    destination by destination, the items addressed to it in their original order (stable) — for ANY initial
    contents `init` of `a_data`, so every slot is written (and, the number of writes being the number of slots,
    exactly once). -/
theorem bucket_pack_layout (ldim np : Nat) (pairs : List (Nat × List α)) (hd : ∀ x ∈ pairs, x.1 < np)
    (hi : ∀ x ∈ pairs, x.2.length = ldim) (init : List α) (hinit : init.length = ldim * pairs.length) :
    pack ldim (blindOf pairs).proc (blindOf pairs).send init (displs (countDest np (blindOf pairs).proc))
      = ((List.range np).map fun q => (bucket q pairs).flatten).flatten := by
  have := pack_init ldim np pairs hd hi init (by rw [bucket_total np pairs hd]; exact hinit)
  rw [List.flatMap_def] at this
  exact this

/-- the packed items are a permutation of the items handed in -/
theorem bucket_pack_perm (np : Nat) (pairs : List (Nat × List α)) (hd : ∀ x ∈ pairs, x.1 < np) :
    ((List.range np).flatMap fun q => bucket q pairs).Perm (pairs.map (·.2)) := by
  induction pairs with
  | nil =>
    have : (List.range np).flatMap (fun q => bucket q ([] : List (Nat × List α))) = [] := by
      simp [bucket]
    rw [this]; exact List.Perm.refl _
  | cons x rest ih =>
    obtain ⟨p, item⟩ := x
    have hp : p < np := hd (p, item) List.mem_cons_self
    have ih' := ih (fun x hx => hd x (List.mem_cons_of_mem _ hx))
    rw [range_split np p hp, List.flatMap_append, List.flatMap_cons] at ih' ⊢
    have hA : (List.range p).flatMap (fun q => bucket q ((p, item) :: rest))
        = (List.range p).flatMap (fun q => bucket q rest) := by
      apply flatMap_congr'
      intro q hq
      have : q ≠ p := by have := List.mem_range.mp hq; omega
      exact bucket_cons_ne p q this item rest
    have hB : (List.range' (p + 1) (np - p - 1)).flatMap (fun q => bucket q ((p, item) :: rest))
        = (List.range' (p + 1) (np - p - 1)).flatMap (fun q => bucket q rest) := by
      apply flatMap_congr'
      intro q hq
      have : q ≠ p := by have := (List.mem_range'_1.mp hq).1; omega
      exact bucket_cons_ne p q this item rest
    rw [hA, hB, bucket_cons_self, List.map_cons]
    simp only [List.cons_append]
    exact List.Perm.trans List.perm_middle (List.Perm.cons _ ih')

/-- `ref_mpi_blindsend`: rank `r` receives exactly the items addressed to it, each with its full payload, ordered by
    source rank and then by the source's order; `nrecv` is their number; the status is ok everywhere.  Both
    `ref_mpi_alltoallv` implementations.  (`np = 1` is the copy path.) -/
theorem blindsend_spec [Inhabited α] (native : Bool) (ty : RefType) (hty : ty.ild = true) (maxTag : Int)
    (ldim : Nat) (w : World (List (Nat × List α)))
    (hd : ∀ pairs ∈ w, ∀ x ∈ pairs, x.1 < w.length)
    (hi : ∀ pairs ∈ w, ∀ x ∈ pairs, x.2.length = ldim)
    (hnat : native = true → (w.length : Int) * w.length ≤ maxTag)
    (hsend : native = false → ∀ pairs ∈ w, (ldim : Int) * pairs.length ≤ INT_MAX)
    (hrecv : native = false → ∀ r, r < w.length → (ldim : Int) * (delivered r w).length ≤ INT_MAX) :
    blindsend native ty maxTag ldim (w.map blindOf)
      = some ((List.range w.length).map fun r =>
          (Status.ok, ((delivered r w).length : Int), (delivered r w).flatten)) :=
  Refine.Lemmas.Comm.blindsend_spec native ty hty maxTag ldim w hd hi hnat hsend hrecv

/-- nothing is lost, duplicated or misdelivered: what the ranks receive is, rank by rank, the sub-list of all
    `(destination, item)` pairs (source-rank order) with that destination -/
theorem blindsend_exactly_once (w : World (List (Nat × List α))) (r : Nat) :
    delivered r w = (w.flatten.filter fun x => x.1 == r).map (·.2) := by
  unfold delivered
  rw [bucket_flatMap]
  rfl

/-! ## balance -/

/-- `find_destination`: the item with global number `k` goes to the rank whose running share interval contains `k` -/
theorem find_destination_spec (cs : Nat → Nat) (np k r : Nat) (hk : k < prefSum cs np) (hr : r < np) :
    findDestination np (sharesI cs np) (k : Int) = (r : Int) ↔ prefSum cs r ≤ k ∧ k < prefSum cs (r + 1) :=
  findDestination_iff cs np k r hk hr

/-- `ref_mpi_balance` with `0 ≤ first ≤ last < np`: every rank returns ok with `nbalanced` items; the concatenation
    over the ranks is the original concatenation (same items, same order, same payload); ranks outside
    `[first, last]` get nothing; two active ranks differ by at most one item; the shares sum to the total. -/
theorem balance_spec [Inhabited α] (native : Bool) (ty : RefType) (hty : ty.ild = true) (maxTag : Int)
    (ldim : Nat) (first last : Nat) (ws : World (List (List α)))
    (hfl : first ≤ last) (hl : last < ws.length)
    (hi : ∀ its ∈ ws, ∀ it ∈ its, it.length = ldim)
    (hnat : native = true → (ws.length : Int) * ws.length ≤ maxTag)
    (hrange : native = false → (ldim : Int) * ws.flatten.length ≤ INT_MAX) :
    balance native ty maxTag ldim (first : Int) (last : Int) (balanceIn ws)
        = some ((List.range ws.length).map fun r =>
            (Status.ok, ((balanced first last ws r).length : Int), (balanced first last ws r).flatten))
      ∧ ((List.range ws.length).map (balanced first last ws)).flatten = ws.flatten
      ∧ (∀ r, r < ws.length → (r < first ∨ last < r) → balanced first last ws r = [])
      ∧ (∀ r q, first ≤ r → r ≤ last → first ≤ q → q ≤ last →
          (balanced first last ws r).length ≤ (balanced first last ws q).length + 1)
      ∧ ((List.range ws.length).map fun r => (balanced first last ws r).length).sum = ws.flatten.length := by
  have hflat : ((List.range ws.length).map (balanced first last ws)).flatten = ws.flatten := by
    rw [← List.flatMap_def]
    unfold balanced
    rw [chunks_flatMap (shareNat ws.flatten.length first last) ws.flatten ws.length,
      prefSum_shareNat_total _ first last ws.length hfl hl, List.take_length]
  refine ⟨balance_eq native ty hty maxTag ldim first last ws hfl hl hi hnat hrange, hflat, ?_, ?_, ?_⟩
  · intro r _ hout
    unfold balanced slice
    rw [shareNat_inactive _ first last r hout, List.take_zero]
  · intro r q h1 h2 h3 h4
    rw [balanced_length first last ws hfl hl r (by omega), balanced_length first last ws hfl hl q (by omega)]
    exact shareNat_active_diff _ first last r q ⟨h1, h2⟩ ⟨h3, h4⟩
  · have := congrArg List.length hflat
    rw [List.length_flatten, List.map_map] at this
    exact this

/-! ## gathers -/

/-- `ref_mpi_allgatherv`: every rank ends up with the concatenation of the local arrays in rank order -/
theorem allgatherv_spec (ty : RefType) (hty : ty.ild = true) (locals : World (List α)) (recv0 : Nat → List α)
    (hrecv : ∀ r, r < locals.length → (recv0 r).length = locals.flatten.length) :
    allgatherv ty (gathervWorld locals recv0) = some (locals.map fun _ => (Status.ok, locals.flatten)) :=
  allgatherv_eq ty hty locals recv0 hrecv

/-- `ref_mpi_allconcat`: every rank gets the total, the source rank of every item, and the concatenation -/
theorem allconcat_spec [Inhabited α] (ty : RefType) (hty : ty.id = true) (ldim : Nat)
    (ws : World (List (List α))) (hi : ∀ its ∈ ws, ∀ it ∈ its, it.length = ldim) :
    allconcat ty ldim (balanceIn ws)
      = some (ws.map fun _ =>
          (Status.ok, (ws.flatten.length : Int),
            (ws.mapIdx fun r its => List.replicate its.length (r : Int)).flatten, ws.flatten.flatten)) :=
  allconcat_eq ty hty ldim ws hi

/-- `ref_mpi_allgather`: every rank gets the vector of the ranks' scalars -/
theorem allgather_spec (ty : RefType) (hty : ty.ild = true) (w : World α) :
    allgather ty w = w.map fun _ => (Status.ok, w) := by
  have hmpi : ty.mpiOk = true := by cases ty <;> simp_all [RefType.ild, RefType.mpiOk]
  unfold allgather
  by_cases h : w.length ≤ 1
  · simp only [h, if_true, hty]
    match w, h with
    | [], _ => rfl
    | [x], _ => rfl
    | _ :: _ :: _, h => simp at h
  · simp only [h, if_false, hmpi, if_true]

/-- `ref_mpi_bcast` into buffers of exactly `n` elements: everybody holds rank 0's data -/
theorem bcast_spec (ty : RefType) (hmpi : ty.mpiOk = true) (n : Nat) (root : List α) (rest : World (List α))
    (hlen : ∀ d ∈ root :: rest, d.length = n) :
    bcast ty n (root :: rest) = (root :: rest).map fun _ => (Status.ok, root) := by
  cases rest with
  | nil => simp [bcast]
  | cons d ds => exact bcast_full ty hmpi n _ root (by simp) (by simp) hlen

/-- the rank-0 scatter loop (`ref_mpi_scatter_send` to every worker, `ref_mpi_scatter_recv` on the workers):
    the tags match and worker `p` receives exactly `chunks[p]`; rank 0 keeps `chunks[0]` -/
theorem scatter_spec [Inhabited α] (ty : RefType) (hty : ty.mpiOk = true) (maxTag : Int) (chunks : List (List α))
    (hmax : (chunks.length : Int) ≤ maxTag + 1) :
    scatter ty maxTag chunks = some (chunks.map fun c => (Status.ok, c)) :=
  scatter_eq ty hty maxTag chunks hmax

/-- the rank-0 gather loop (`ref_mpi_gather_send` on the workers, `ref_mpi_gather_recv` from every worker):
    rank 0 ends up with the concatenation in rank order -/
theorem gather_spec [Inhabited α] (ty : RefType) (hty : ty.mpiOk = true) (maxTag : Int) (c0 : List α)
    (cs : List (List α)) (hmax : ((c0 :: cs).length : Int) ≤ maxTag + 1) :
    gather ty maxTag (c0 :: cs)
      = some ((Status.ok, (c0 :: cs).flatten) :: cs.map fun _ => (Status.ok, [])) :=
  gather_eq ty hty maxTag c0 cs hmax

/-! ## reductions (exact for integers; floating-point sums are MPI's order and are not claimed) -/

/-- `ref_mpi_allsum` on integers: every rank gets the element-wise sum over the ranks -/
theorem allsum_spec (ty : RefType) (hty : ty.ild = true) (n : Nat) (w : World (List Int))
    (hlen : ∀ v ∈ w, v.length = n) :
    allsum (· + ·) ty n w = w.map fun _ => (Status.ok, vecSum n w) :=
  allsum_eq ty hty n w hlen

/-- `ref_mpi_min` on integers: rank 0 gets a least input -/
theorem min_spec (ty : RefType) (hty : ty.id = true) (x : Int × Int) (xs : List (Int × Int)) :
    ∃ m, (reduce1 (pickMin ltB) ty (x :: xs)).head? = some (Status.ok, m)
      ∧ m ∈ (x :: xs).map (·.1) ∧ ∀ v ∈ (x :: xs).map (·.1), m ≤ v :=
  min_eq ty hty x xs

/-- `ref_mpi_max` on integers: rank 0 gets a greatest input -/
theorem max_spec (ty : RefType) (hty : ty.id = true) (x : Int × Int) (xs : List (Int × Int)) :
    ∃ m, (reduce1 (pickMax ltB) ty (x :: xs)).head? = some (Status.ok, m)
      ∧ m ∈ (x :: xs).map (·.1) ∧ ∀ v ∈ (x :: xs).map (·.1), v ≤ m :=
  max_eq ty hty x xs

/-- `ref_mpi_allminwho` (`MPI_MINLOC`) in any linear order: per component, every rank gets the least value over the
    ranks and the LOWEST rank holding it -/
theorem allminwho_spec {γ : Type} [LinearOrder γ] (d : γ) (n : Nat) (v0 : List γ) (vs : List (List γ))
    (hlen : ∀ v ∈ v0 :: vs, v.length = n) :
    ∃ vals whos, allminwho ltB n (v0 :: vs) = (v0 :: vs).map (fun _ => (vals, whos))
      ∧ vals.length = n ∧ whos.length = n
      ∧ ∀ i, i < n →
          (∀ v ∈ v0 :: vs, vals.getD i d ≤ v.getD i d)
          ∧ ∃ t : Nat, whos.getD i 0 = (t : Int) ∧ t < (v0 :: vs).length
              ∧ ((v0 :: vs).getD t []).getD i d = vals.getD i d
              ∧ ∀ r, r < t → vals.getD i d < ((v0 :: vs).getD r []).getD i d :=
  allminwho_eq d n v0 vs hlen

/-! ## distributed k-th element (exact arithmetic: `α := ℝ`; rounding is modelled, not verified) -/

/-- `ref_search_selection`, bisection branch: after the 40 steps `low ≤ kth ≤ high` for every value `v` that a
    sorted copy may hold at `position`; the returned mid-point is an end of the bracket; the bracket is `2^-40` of
    the initial `[min, max]`. -/
theorem selection_bracket (w : World (List ℝ)) (position : Int) (v : ℝ) (hv : v ∈ w.flatten)
    (hK : IsKth w.flatten position v) :
    let s := selectionState w position
    s.1 ≤ v ∧ v ≤ s.2.1 ∧ (s.2.2 = s.1 ∨ s.2.2 = s.2.1)
      ∧ s.2.1 - s.1 = (worldMax w - worldMin w) / 2 ^ 40 :=
  selectionState_bracket w position v hv hK

/-- the value returned for `0 < position < N-1` is within `(max-min)/2^40` of the k-th element -/
theorem selection_value (w : World (List ℝ)) (position : Int) (v : ℝ) (hv : v ∈ w.flatten)
    (hK : IsKth w.flatten position v) (h0 : 0 < position)
    (h1 : position < isum (w.map fun xs => (xs.length : Int)) - 1) :
    |selection w position - v| ≤ (worldMax w - worldMin w) / 2 ^ 40 :=
  selection_close w position v hv hK h0 h1

/-- the early returns: `position ≤ 0` gives a lower bound of all elements, `position ≥ N-1` an upper bound -/
theorem selection_ends (w : World (List ℝ)) (position : Int) :
    (position ≤ 0 → selection w position = worldMin w ∧ ∀ x ∈ w.flatten, worldMin w ≤ x)
    ∧ (0 < position → position ≥ isum (w.map fun xs => (xs.length : Int)) - 1 →
        selection w position = worldMax w ∧ ∀ x ∈ w.flatten, x ≤ worldMax w) := by
  constructor
  · intro h
    exact ⟨by unfold selection; simp only [h, if_true], fun x hx => worldMin_le w x hx⟩
  · intro h0 h1
    have hn0 : ¬ position ≤ 0 := by omega
    exact ⟨by unfold selection; simp only [hn0, if_false, h1, if_true], fun x hx => le_worldMax w x hx⟩

/-! ## non-vacuity: concrete 3-rank worlds with an empty rank -/

/-- three ranks, rank 1 sends and receives nothing, `ldim = 2` -/
example :
    alltoallv false .int 100 2
        (a2aWorld [[[[1, 2]], [], [[3, 4], [5, 6]]], [[], [], []], [[[7, 8]], [], []]]
          (fun r => List.replicate ([4, 0, 4].getD r 0) 0))
      = some [(Status.ok, [1, 2, 7, 8]), (Status.ok, []), (Status.ok, [3, 4, 5, 6])] := by
  have := alltoallv_spec (α := Nat) .int rfl 100 2
    [[[[1, 2]], [], [[3, 4], [5, 6]]], [[], [], []], [[[7, 8]], [], []]]
    (fun r => List.replicate ([4, 0, 4].getD r 0) 0) (by decide) (by decide) (by decide) (by decide)
  exact this.trans (by decide)

/-- the same world through the native variant -/
example :
    alltoallv true .int 9 2
        (a2aWorld [[[[1, 2]], [], [[3, 4], [5, 6]]], [[], [], []], [[[7, 8]], [], []]]
          (fun r => List.replicate ([4, 0, 4].getD r 0) 0))
      = some [(Status.ok, [1, 2, 7, 8]), (Status.ok, []), (Status.ok, [3, 4, 5, 6])] := by
  have := alltoallv_native_spec (α := Nat) .int rfl 9 2
    [[[[1, 2]], [], [[3, 4], [5, 6]]], [[], [], []], [[[7, 8]], [], []]]
    (fun r => List.replicate ([4, 0, 4].getD r 0) 0) (by decide) (by decide) (by decide) (by decide)
  exact this.trans (by decide)

/-- blind send, 3 ranks, rank 1 empty: items go to their addressees in (source, index) order -/
example :
    blindsend false .int 100 1 ([[(1, [7]), (2, [8]), (1, [9])], [], [(0, [5]), (1, [6])]].map blindOf)
      = some [(Status.ok, 1, [5]), (Status.ok, 3, [7, 9, 6]), (Status.ok, 1, [8])] := by
  have := blindsend_spec (α := Nat) false .int rfl 100 1
    [[(1, [7]), (2, [8]), (1, [9])], [], [(0, [5]), (1, [6])]] (by decide) (by decide)
    (by intro h; cases h) (by intro _; decide) (by intro _; decide)
  exact this.trans (by decide)

/-- balance over ranks 1..2 of 3: 5 items become shares 0, 3, 2 and keep their order -/
example :
    balance true .int 9 1 1 2 (balanceIn [[[1], [2], [3], [4]], [], [[5]]])
      = some [(Status.ok, 0, []), (Status.ok, 3, [1, 2, 3]), (Status.ok, 2, [4, 5])] := by
  have := (balance_spec (α := Nat) true .int rfl 9 1 1 2 [[[1], [2], [3], [4]], [], [[5]]]
    (by decide) (by decide) (by decide) (by intro _; decide) (by intro h; cases h)).1
  exact this.trans (by decide)

/-- the guard trips on an overflowing product, on an overflowing partial sum, and not on the last block -/
example : sizeN 1073741824 [1, 2] = none ∧ dispGuard 0 [2147483647, 1, 5] = none
    ∧ dispGuard 0 [2147483646, 1, 5] = some [0, 2147483646, 2147483647] := by decide

/-- integer allsum on 3 ranks -/
example : allsum (· + ·) .long 2 [[1, 2], [0, 0], [-5, 7]]
    = [(Status.ok, [-4, 9]), (Status.ok, [-4, 9]), (Status.ok, [-4, 9])] := by
  have := allsum_spec .long rfl 2 [[1, 2], [0, 0], [-5, 7]] (by decide)
  exact this.trans (by decide)

/-- MINLOC keeps the lowest rank on a tie (ranks 1 and 2 both hold the minimum of component 0) -/
example : allminwho (ltB (γ := Int)) 1 [[3], [1], [1]] = [([1], [1]), ([1], [1]), ([1], [1])] := by decide

/-- scatter / gather on 3 ranks with an empty chunk -/
example : scatter .int 100 [[1], [], [2, 3]] = some [(Status.ok, [1]), (Status.ok, []), (Status.ok, [2, 3])]
    ∧ gather .int 100 [[1], [], [2, 3]] = some [(Status.ok, [1, 2, 3]), (Status.ok, []), (Status.ok, [])] := by
  decide

/-- `IsKth` is inhabited: 2 is the element at position 1 of {3, 1} ∪ {} ∪ {2} -/
example : IsKth ([[3, 1], [], [2]] : World (List ℝ)).flatten 1 2 := by
  unfold IsKth countLt countLeR
  norm_num [List.filter_cons]

end Refine.Props.C17
