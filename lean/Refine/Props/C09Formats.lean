import Refine.Lemmas.FormatsBin

/-!
  C09 — solution files keep values, order and layout: the COFFE `.rst` and FUN3D `.snap` readers
  (`Refine.Model.FormatsBin.partScalarRst`, `partScalarSnap`; the `.rst` writer is `Refine.Model.Sol.gatherScalar`).

  Tie: stream `c20_fields_mut` (serial, every mutant and the valid files: status and values == model; oracle: values ==
  what an independent parser reads from the file), `formats_fields` / `formats_rst_mpi` (harness h_sol, the real
  ref_part_scalar on 1, 2 and 3 ranks, chunk floors from 1 up: per-rank values == model == file).
-/
namespace Refine.Props.C09Formats
open Refine.Model.FormatsBin Refine.Lemmas.Formats
open Refine.Model.Meshb (Bytes Status)

def one : UInt64 := 0x3ff0000000000000
def two : UInt64 := 0x4000000000000000

/-- a `.rst` of 2 variables, 2 steps, 3 vertices: vertex `v` holds `(10v+1, 10v+2)` in step 0 and `(10v+3, 10v+4)` in
    step 1 (as small integers' bit patterns are awkward to read, the values here are the integers themselves as bit
    patterns `n`) -/
def rstFile : Bytes :=
  [8, 0, 0, 0, 67, 79, 70, 70, 69, 82, 83, 84, 2, 0, 0, 0, 3, 0, 0, 0, 2, 0, 0, 0, 2, 0, 0, 0, 3, 0, 0, 0, 0, 0, 0, 0] ++
  ([1, 2, 11, 12, 21, 22, 3, 4, 13, 14, 23, 24] : List Nat).flatMap fun n => Refine.Model.Meshb.encLE 8 n

/-- **layout of `.rst`** on a concrete file, two ranks with ghost copies, chunk floor 2 (two passes per step): every
    rank's vertex `g` ends with `[step0 var0, step0 var1, step1 var0, step1 var1]` of file vertex `g` -/
theorem rst_layout_two_ranks :
    partScalarRst BFix.none 2 3 20 [[2, 0], [1, 2]] rstFile =
      .ok (4, [[[21, 22, 23, 24], [1, 2, 3, 4]], [[11, 12, 13, 14], [21, 22, 23, 24]]]) := by
  decide +kernel

end Refine.Props.C09Formats
