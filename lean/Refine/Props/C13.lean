import Refine.Lemmas.NodeIds
import Refine.Model.MeshOps

/-!
  C13 — every accepted local operation keeps the mesh valid around the touched vertices; a rejected attempt
  leaves no trace.

  Models: `Refine/Model/MeshOps.lean` (cell groups, `splitEdge`, `collapseEdge`, `swapTriEdge`, the trial-vertex
  frame of `ref_split_pass`, `localValid`), `Refine/Model/NodeIds.lean` (the id state machine).  Tied to the C by
  the `meshops_fn` / `meshops_run` streams.
-/
namespace Refine.Props.C13
open Refine.Model.NodeIds Refine.Model.NodeIds.NodeIds Refine.Model.MeshOps

/-- **reject leaves no trace** (frame level): on every reject path of the modelled frame of `ref_split_pass`
    that is taken *before* `ref_split_edge` (checks failed / cavity not valid / edge not local), all three calls
    `next_global; add; remove` succeed, the attempt is reported as not accepted, the cell groups are literally
    unchanged, `NodeInv` still holds and the abstract id state (live map global ↦ slot, pool of reusable ids =
    unused list ∪ [new_n_global, ∞)) is the one before the attempt. -/
theorem trialFrame_reject_no_trace {m : Mesh} (h : NodeInv m.ids) (hp : PoolInv m.ids) (n0 n1 : Int)
    {d : Decision} (hd : d ≠ .split) :
    (trialFrame m n0 n1 d).1 = .ok ∧ (trialFrame m n0 n1 d).2.1 = false ∧
    (trialFrame m n0 n1 d).2.2.2.g = m.g ∧ NodeInv (trialFrame m n0 n1 d).2.2.2.ids ∧
    (trialFrame m n0 n1 d).2.2.2.ids.abs = m.ids.abs := by
  obtain ⟨h1, h2, h3, h4, h5⟩ := trial_roundtrip h hp
  cases d <;> first | exact absurd rfl hd | (simp [trialFrame, trialBegin, trialWithdraw, h1, h2, h3, h4, h5])

end Refine.Props.C13
