import Refine.Lemmas.NodeIds
import Refine.Lemmas.MeshOps
import Refine.Lemmas.MeshOpsReal
import Refine.Props.C14NodeCell
import Mathlib.Tactic.Abel

/-!
  C13 — every accepted local operation keeps the mesh valid around the touched vertices; a rejected attempt
  leaves no trace.

  Models: `Refine/Model/MeshOps.lean` (cell groups, `splitEdge`, `collapseEdge`, `swapTriEdge`, the trial-vertex
  frame of `ref_split_pass`, `localValid`), `Refine/Model/NodeIds.lean` (the id state machine).  Tied to the C by
  the `meshops_fn` / `meshops_run` streams.
-/
namespace Refine.Props.C13
open Refine.Model.NodeIds Refine.Model.NodeIds.NodeIds Refine.Model.MeshOps

/-- **reject leaves no trace** (frame level): on every reject path of the modelled frame of `ref_split_pass`
    that is taken *before* `ref_split_edge` (checks failed / cavity not valid / edge not local), all three calls
    `next_global; add; remove` succeed, the attempt is reported as not accepted, the cell groups are literally
    unchanged, `NodeInv` still holds and the abstract id state (live map global ↦ slot, pool of reusable ids =
    unused list ∪ [new_n_global, ∞)) is the one before the attempt. -/
theorem trialFrame_reject_no_trace {m : Mesh} (h : NodeInv m.ids) (hp : PoolInv m.ids) (n0 n1 : Int)
    {d : Decision} (hd : d ≠ .split) :
    (trialFrame m n0 n1 d).1 = .ok ∧ (trialFrame m n0 n1 d).2.1 = false ∧
    (trialFrame m n0 n1 d).2.2.2.g = m.g ∧ NodeInv (trialFrame m n0 n1 d).2.2.2.ids ∧
    (trialFrame m n0 n1 d).2.2.2.ids.abs = m.ids.abs := by
  obtain ⟨h1, h2, h3, h4, h5⟩ := trial_roundtrip h hp
  cases d <;> first | exact absurd rfl hd | (simp [trialFrame, trialBegin, trialWithdraw, h1, h2, h3, h4, h5])

/-! ## `ref_split_edge` -/

/-- one group of `ref_split_edge`: with at most `MAX_CELL_SPLIT` cells on the edge the status is
    `REF_SUCCESS` and the group becomes (a permutation of) "for every cell containing both end points the two
    cells with `node0 ↦ new` resp. `node1 ↦ new`, every other cell unchanged"; with more the status is
    `REF_INCREASE_LIMIT` and the group is untouched -/
theorem splitGroup_spec (np : Nat) (cs : List Cell) (n0 n1 new : Int) :
    ((cs.filter (has2 np n0 n1)).length ≤ MAX_CELL_SPLIT →
      (splitGroup np cs n0 n1 new).1 = .ok ∧ (splitGroup np cs n0 n1 new).2.Perm (splitSpec np n0 n1 new cs)) ∧
    (MAX_CELL_SPLIT < (cs.filter (has2 np n0 n1)).length →
      splitGroup np cs n0 n1 new = (.increase_limit, cs)) := by
  constructor
  · intro h
    have : ¬ (cs.filter (has2 np n0 n1)).length > MAX_CELL_SPLIT := by omega
    simp only [splitGroup, listWith2, this, if_false, ne_eq, not_true_eq_false, true_and]
    exact splitLoop_spec np n0 n1 new cs
  · intro h
    simp [splitGroup, listWith2, h]

/-- **splitEdge_spec**: `ref_split_edge` with every group within `MAX_CELL_SPLIT` succeeds and replaces, group by
    group (tet, tri, edg), every cell on the edge by its two halves; nothing else changes -/
theorem splitEdge_spec (g : Groups) (n0 n1 new : Int)
    (ht : (g.tet.filter (has2 4 n0 n1)).length ≤ MAX_CELL_SPLIT)
    (hr : (g.tri.filter (has2 3 n0 n1)).length ≤ MAX_CELL_SPLIT)
    (he : (g.edg.filter (has2 2 n0 n1)).length ≤ MAX_CELL_SPLIT) :
    (splitEdge g n0 n1 new).1 = .ok ∧
    (splitEdge g n0 n1 new).2.tet.Perm (splitSpec 4 n0 n1 new g.tet) ∧
    (splitEdge g n0 n1 new).2.tri.Perm (splitSpec 3 n0 n1 new g.tri) ∧
    (splitEdge g n0 n1 new).2.edg.Perm (splitSpec 2 n0 n1 new g.edg) := by
  obtain ⟨t1, t2⟩ := (splitGroup_spec 4 g.tet n0 n1 new).1 ht
  obtain ⟨r1, r2⟩ := (splitGroup_spec 3 g.tri n0 n1 new).1 hr
  obtain ⟨e1, e2⟩ := (splitGroup_spec 2 g.edg n0 n1 new).1 he
  simp only [splitEdge, t1, r1, e1, ne_eq, not_true_eq_false, if_false, true_and]
  exact ⟨t2, r2, e2⟩

/-- the only error `ref_split_pass` recovers from: more than `MAX_CELL_SPLIT` tets on the edge ↦
    `REF_INCREASE_LIMIT` before anything was changed -/
theorem splitEdge_tet_limit (g : Groups) (n0 n1 new : Int)
    (ht : MAX_CELL_SPLIT < (g.tet.filter (has2 4 n0 n1)).length) :
    splitEdge g n0 n1 new = (.increase_limit, g) := by
  simp [splitEdge, (splitGroup_spec 4 g.tet n0 n1 new).2 ht]

/-- cell counts: `+1` per split cell -/
theorem splitSpec_length (np : Nat) (n0 n1 new : Int) (cs : List Cell) :
    (splitSpec np n0 n1 new cs).length = cs.length + (cs.filter (has2 np n0 n1)).length := by
  induction cs with
  | nil => simp [splitSpec]
  | cons a t ih =>
    have : splitSpec np n0 n1 new (a :: t) = splitSpecCell np n0 n1 new a ++ splitSpec np n0 n1 new t := by
      simp [splitSpec]
    rw [this, List.length_append, ih]
    by_cases h : has2 np n0 n1 a = true
    · simp [splitSpecCell, h]; omega
    · have h' : has2 np n0 n1 a = false := by simpa using h
      simp [splitSpecCell, h']; omega

/-- ids inherited: both halves carry the id entry (everything after the `node_per` vertices) of the cell they
    split -/
theorem split_ids_inherited (np : Nat) (n0 n1 new : Int) (c : Cell) (h : np ≤ c.length) :
    (splitV0 np n0 new c).drop np = c.drop np ∧ (splitV1 np n0 n1 new c).drop np = c.drop np := by
  refine ⟨drop_subst np n0 new c h, ?_⟩
  unfold splitV1
  rw [drop_subst, drop_subst, drop_subst] <;> simp [length_subst, h]

/-- with a fresh `new` (not a vertex of the cell) the C's "undo" (`new ↦ node0`) restores the cell, so the
    node1 version is plainly `node1 ↦ new` -/
theorem splitV1_fresh (np : Nat) (n0 n1 new : Int) (c : Cell) (hf : new ∉ nodesOf np c) :
    splitV1 np n0 n1 new c = subst np n1 new c := Refine.Model.MeshOps.splitV1_fresh np n0 n1 new c hf

/-! ## `ref_collapse_edge` -/

/-- one group of `ref_collapse_edge` -/
theorem collapseGroup_spec (np : Nat) (cs : List Cell) (n0 n1 : Int) :
    ((cs.filter (has2 np n0 n1)).length ≤ MAX_CELL_COLLAPSE →
      (collapseGroup np cs n0 n1).1 = .ok ∧ (collapseGroup np cs n0 n1).2.Perm (collapseSpec np n0 n1 cs)) ∧
    (MAX_CELL_COLLAPSE < (cs.filter (has2 np n0 n1)).length →
      collapseGroup np cs n0 n1 = (.increase_limit, cs)) := by
  constructor
  · intro h
    have : ¬ (cs.filter (has2 np n0 n1)).length > MAX_CELL_COLLAPSE := by omega
    simp only [collapseGroup, listWith2, this, if_false, ne_eq, not_true_eq_false, replaceNode_eq_map, true_and]
    exact (removeLoop_spec (has2 np n0 n1) cs).map _
  · intro h
    simp [collapseGroup, listWith2, h]

/-- after the substitution `node1 ↦ node0` (`node0 ≠ node1`) no cell of the group references `node1` -/
theorem collapseSpec_unreferenced (np : Nat) (n0 n1 : Int) (hne : n0 ≠ n1) (cs : List Cell) :
    ∀ c ∈ collapseSpec np n0 n1 cs, n1 ∉ nodesOf np c := by
  intro c hc
  simp only [collapseSpec, List.mem_map, List.mem_filter] at hc
  obtain ⟨c0, _, rfl⟩ := hc
  rw [nodesOf_subst]
  intro hmem
  simp only [List.mem_map] at hmem
  obtain ⟨v, _, hv⟩ := hmem
  by_cases h : v = n1
  · simp only [h, if_true] at hv; exact hne hv
  · simp only [h, if_false] at hv

/-- **collapseEdge_subst**: with every group within `MAX_CELL_COLLAPSE` and `node1` a valid vertex,
    `ref_collapse_edge` succeeds; every group becomes "cells containing both removed, `node1 ↦ node0` in the
    rest"; `node1` is referenced by nothing (if `node0 ≠ node1`); the vertex is removed (`NodeInv` kept, slot no
    longer valid, every other slot untouched) and its global id sits on top of the unused list -/
theorem collapseEdge_subst {m : Mesh} (h : NodeInv m.ids) (n0 n1 : Int) (hv : m.ids.validSlot n1 = true)
    (ht : (m.g.tet.filter (has2 4 n0 n1)).length ≤ MAX_CELL_COLLAPSE)
    (hr : (m.g.tri.filter (has2 3 n0 n1)).length ≤ MAX_CELL_COLLAPSE)
    (he : (m.g.edg.filter (has2 2 n0 n1)).length ≤ MAX_CELL_COLLAPSE) :
    (collapseEdge m n0 n1).1 = .ok ∧
    (collapseEdge m n0 n1).2.g.tet.Perm (collapseSpec 4 n0 n1 m.g.tet) ∧
    (collapseEdge m n0 n1).2.g.tri.Perm (collapseSpec 3 n0 n1 m.g.tri) ∧
    (collapseEdge m n0 n1).2.g.edg.Perm (collapseSpec 2 n0 n1 m.g.edg) ∧
    (n0 ≠ n1 → unreferenced (collapseEdge m n0 n1).2.g [n1] = true) ∧
    NodeInv (collapseEdge m n0 n1).2.ids ∧
    (collapseEdge m n0 n1).2.ids.validSlot n1 = false ∧
    (∀ w : Nat, w ≠ n1.toNat →
      (collapseEdge m n0 n1).2.ids.global.getD w (-1) = m.ids.global.getD w (-1)) ∧
    (collapseEdge m n0 n1).2.ids.unusedStk = m.ids.global.getD n1.toNat (-1) :: m.ids.unusedStk := by
  obtain ⟨t1, t2⟩ := (collapseGroup_spec 4 m.g.tet n0 n1).1 ht
  obtain ⟨r1, r2⟩ := (collapseGroup_spec 3 m.g.tri n0 n1).1 hr
  obtain ⟨e1, e2⟩ := (collapseGroup_spec 2 m.g.edg n0 n1).1 he
  obtain ⟨k1, k2⟩ := remove_NodeInv h hv
  have hce : collapseEdge m n0 n1 = (.ok, ⟨(m.ids.remove n1).2,
      ⟨(collapseGroup 4 m.g.tet n0 n1).2, (collapseGroup 3 m.g.tri n0 n1).2, (collapseGroup 2 m.g.edg n0 n1).2⟩⟩) := by
    simp only [collapseEdge, t1, r1, e1, k1, ne_eq, not_true_eq_false, if_false]
  rw [hce]
  obtain ⟨f1, _, _, f4, _, _⟩ := remove_fields h hv
  refine ⟨rfl, t2, r2, e2, ?_, k2, ?_, fun w hw => remove_frame h hv hw, f4⟩
  · intro hne
    have u4 := collapseSpec_unreferenced 4 n0 n1 hne m.g.tet
    have u3 := collapseSpec_unreferenced 3 n0 n1 hne m.g.tri
    have u2 := collapseSpec_unreferenced 2 n0 n1 hne m.g.edg
    simp only [unreferenced, List.all_cons, List.all_nil, Bool.and_true, Bool.and_eq_true, List.all_eq_true,
      Bool.not_eq_eq_eq_not, Bool.not_true, List.contains_eq_mem, decide_eq_false_iff_not]
    exact ⟨⟨fun c hc => u4 c (t2.mem_iff.1 hc), fun c hc => u3 c (r2.mem_iff.1 hc)⟩,
      fun c hc => u2 c (e2.mem_iff.1 hc)⟩
  · obtain ⟨hn0, hg0⟩ := validSlot_iff.1 hv
    rw [Bool.eq_false_iff]
    intro hc
    obtain ⟨_, hc2⟩ := validSlot_iff.1 hc
    simp only at hc2
    rw [f1] at hc2
    have hlt := lt_length_of_getD_nonneg hg0
    have : (m.ids.global.set n1.toNat m.ids.blank).getD n1.toNat (-1) = m.ids.blank := by
      simp [List.getD_eq_getElem?_getD, hlt]
    rw [this] at hc2
    have hb : m.ids.blank < 0 := by
      obtain ⟨⟨l, hcn, _, _⟩, _⟩ := h.free
      exact hcn.head_neg
    omega

/-! ## exact-arithmetic volume of a split -/

open Refine Refine.Model.Geom in
/-- **split_vol**: for a tet without a repeated vertex on the split edge, `new` fresh and placed at
    `(1-w)*x(n0) + w*x(n1)` (`ref_node_interpolate_edge`), in exact arithmetic: the two halves have `(1-w)` resp.
    `w` times the volume, their sum is the old volume, and for `0 < w < 1` (the pass clamps `w` to `[0.05,0.95]`)
    each half of a positive tet is positive -/
theorem split_vol (xyz : Int → V3 ℝ) (n0 n1 new : Int) (w : ℝ) (v0 v1 v2 v3 : Int)
    (hnd : [v0, v1, v2, v3].Nodup) (h0 : n0 ∈ [v0, v1, v2, v3]) (h1 : n1 ∈ [v0, v1, v2, v3]) (hne : n0 ≠ n1)
    (hf : new ∉ [v0, v1, v2, v3]) (hx : xyz new = interpolateEdgeXyz (xyz n0) (xyz n1) w) :
    rowVol xyz (splitV0 4 n0 new [v0, v1, v2, v3]) + rowVol xyz (splitV1 4 n0 n1 new [v0, v1, v2, v3]) =
      rowVol xyz [v0, v1, v2, v3] ∧
    (0 < w → w < 1 → 0 < rowVol xyz [v0, v1, v2, v3] →
      0 < rowVol xyz (splitV0 4 n0 new [v0, v1, v2, v3]) ∧
      0 < rowVol xyz (splitV1 4 n0 n1 new [v0, v1, v2, v3])) := by
  obtain ⟨e0, e1⟩ := split_vol_cell xyz n0 n1 new w v0 v1 v2 v3 hnd h0 h1 hne hf hx
  rw [e0, e1]
  refine ⟨by ring, fun hw0 hw1 hv => ⟨?_, ?_⟩⟩
  · exact mul_pos (by linarith) hv
  · exact mul_pos hw0 hv

/-! ## `ref_swap_tri_edge` -/

/-- `ref_swap_tri_edge` when the edge has exactly the two triangles `t0`, `t1` and `ref_swap_node23` found the
    opposite vertices: the two triangles are removed, `(n1,n2,n3)` and `(n0,n3,n2)` are added with the id of `t0`,
    every other triangle, all tets and all edgs are untouched -/
theorem swapTriEdge_spec (g : Groups) (n0 n1 n2 n3 : Int) (t0 t1 : Cell)
    (hl : g.tri.filter (has2 3 n0 n1) = [t0, t1]) (hn : swapNode23 g.tri n0 n1 = (.ok, n2, n3)) :
    swapTriEdge g n0 n1 = (.ok, { g with tri :=
      [n1, n2, n3, t0.getD 3 (-1)] :: [n0, n3, n2, t0.getD 3 (-1)] :: (g.tri.erase t0).erase t1 }) := by
  simp [swapTriEdge, hn, listWith2, hl]

/-- id preserved: when `ref_swap_same_faceid` allows the swap of an edge with two triangles, both carry the same
    id (so both new triangles carry the id of both old ones) -/
theorem sameFaceid_ids (g : Groups) (n0 n1 : Int) (t0 t1 : Cell)
    (hl : g.tri.filter (has2 3 n0 n1) = [t0, t1]) (ha : sameFaceid g n0 n1 = (.ok, true)) :
    t0.getD 3 (-1) = t1.getD 3 (-1) := by
  unfold sameFaceid at ha
  split at ha
  · simp at ha
  · simp only [listWith2, hl, List.length_cons, List.length_nil] at ha
    simpa using ha

/-- boundary of a triangle `(a,b,c)` under an edge functional -/
def triBoundary {G : Type} [AddCommGroup G] (φ : Int → Int → G) (a b c : Int) : G := φ a b + φ b c + φ c a

/-- the boundary does not depend on which vertex the row starts with -/
theorem triBoundary_rot {G : Type} [AddCommGroup G] (φ : Int → Int → G) (a b c : Int) :
    triBoundary φ b c a = triBoundary φ a b c := by simp only [triBoundary]; abel

/-- **swapTri_conforming**: for every antisymmetric edge functional into an abelian group the signed boundary
    chain of the two new triangles equals that of the two old ones (the diagonal cancels in both pairs) -/
theorem swapTri_conforming {G : Type} [AddCommGroup G] (φ : Int → Int → G) (hanti : ∀ a b, φ b a = -φ a b)
    (n0 n1 n2 n3 : Int) :
    triBoundary φ n0 n3 n2 + triBoundary φ n1 n2 n3 = triBoundary φ n0 n1 n2 + triBoundary φ n1 n0 n3 := by
  simp only [triBoundary, hanti n0 n1, hanti n2 n3]
  abel

open Refine Refine.Model.Geom Refine.ScalarReal in
/-- **swapTri_area**: the signed area (z component of `ref_node_tri_normal`, the quantity whose sign
    `localValid` tests in 2-D) of the two new triangles adds up to that of the two old ones, in exact arithmetic -/
theorem swapTri_area (a b c d : V3 ℝ) :
    (triNormal a d c).z + (triNormal b c d).z = (triNormal a b c).z + (triNormal b a d).z := by
  simp only [triNormal, cross, V3.sub, sub_eq, mul_eq]
  ring

/-! ## histories -/

/-- no row of the group repeats a vertex -/
def NoRepeat (np : Nat) (cs : List Cell) : Prop := ∀ c ∈ cs, (nodesOf np c).Nodup

/-- `new` is referenced by no row of the group -/
def Fresh (np : Nat) (new : Int) (cs : List Cell) : Prop := ∀ c ∈ cs, new ∉ nodesOf np c

theorem subst_nodup (np : Nat) (old new : Int) (c : Cell) (hnd : (nodesOf np c).Nodup)
    (hf : new ∉ nodesOf np c ∨ old ∉ nodesOf np c) : (nodesOf np (subst np old new c)).Nodup := by
  rw [nodesOf_subst]
  apply List.Nodup.map_on _ hnd
  intro x hx y hy hxy
  by_cases h1 : x = old <;> by_cases h2 : y = old
  · rw [h1, h2]
  · simp only [h1, h2, if_true, if_false] at hxy
    rcases hf with hf | hf
    · exact absurd (hxy ▸ hy) hf
    · exact absurd (h1 ▸ hx) hf
  · simp only [h1, h2, if_true, if_false] at hxy
    rcases hf with hf | hf
    · exact absurd (hxy ▸ hx) hf
    · exact absurd (h2 ▸ hy) hf
  · simpa [h1, h2] using hxy

/-- a split with a fresh vertex creates no cell with a repeated vertex -/
theorem splitSpec_noRepeat (np : Nat) (n0 n1 new : Int) (cs : List Cell) (h : NoRepeat np cs)
    (hf : Fresh np new cs) : NoRepeat np (splitSpec np n0 n1 new cs) := by
  intro c hc
  simp only [splitSpec, List.mem_flatMap] at hc
  obtain ⟨c0, hc0, hc⟩ := hc
  unfold splitSpecCell at hc
  split at hc
  · simp only [List.mem_cons, List.not_mem_nil, or_false] at hc
    rcases hc with rfl | rfl
    · rw [Refine.Model.MeshOps.splitV1_fresh np n0 n1 new c0 (hf c0 hc0)]
      exact subst_nodup np n1 new c0 (h c0 hc0) (Or.inl (hf c0 hc0))
    · exact subst_nodup np n0 new c0 (h c0 hc0) (Or.inl (hf c0 hc0))
  · simp only [List.mem_cons, List.not_mem_nil, or_false] at hc
    rw [hc]; exact h c0 hc0

/-- a collapse creates no cell with a repeated vertex (cells containing both end points are removed first) -/
theorem collapseSpec_noRepeat (np : Nat) (n0 n1 : Int) (cs : List Cell) (h : NoRepeat np cs) :
    NoRepeat np (collapseSpec np n0 n1 cs) := by
  intro c hc
  simp only [collapseSpec, List.mem_map, List.mem_filter] at hc
  obtain ⟨c0, ⟨hc0, hnot⟩, rfl⟩ := hc
  apply subst_nodup np n1 n0 c0 (h c0 hc0)
  simp only [has2, Bool.not_eq_true', Bool.and_eq_false_iff, List.contains_eq_mem, decide_eq_false_iff_not] at hnot
  exact hnot

/-- guarded operations on the cell groups: a split is taken with a vertex referenced by no cell (what
    `ref_node_add` of a fresh id returns, given that cells reference valid slots only); every group within its limit -/
inductive GOp
  | split (n0 n1 new : Int)
  | collapse (n0 n1 : Int)

def NoRepeatG (g : Groups) : Prop := NoRepeat 4 g.tet ∧ NoRepeat 3 g.tri ∧ NoRepeat 2 g.edg

def gstep (g : Groups) : GOp → Groups
  | .split n0 n1 new =>
    if (g.tet.filter (has2 4 n0 n1)).length ≤ MAX_CELL_SPLIT ∧ (g.tri.filter (has2 3 n0 n1)).length ≤ MAX_CELL_SPLIT ∧
        (g.edg.filter (has2 2 n0 n1)).length ≤ MAX_CELL_SPLIT ∧
        g.tet.all (fun c => !(nodesOf 4 c).contains new) ∧ g.tri.all (fun c => !(nodesOf 3 c).contains new) ∧
        g.edg.all (fun c => !(nodesOf 2 c).contains new)
    then (splitEdge g n0 n1 new).2 else g
  | .collapse n0 n1 =>
    if (g.tet.filter (has2 4 n0 n1)).length ≤ MAX_CELL_COLLAPSE ∧
        (g.tri.filter (has2 3 n0 n1)).length ≤ MAX_CELL_COLLAPSE ∧
        (g.edg.filter (has2 2 n0 n1)).length ≤ MAX_CELL_COLLAPSE
    then ⟨(collapseGroup 4 g.tet n0 n1).2, (collapseGroup 3 g.tri n0 n1).2, (collapseGroup 2 g.edg n0 n1).2⟩ else g

theorem NoRepeat.perm {np : Nat} {a b : List Cell} (h : NoRepeat np b) (p : a.Perm b) : NoRepeat np a :=
  fun c hc => h c (p.mem_iff.1 hc)

theorem gstep_noRepeat {g : Groups} (h : NoRepeatG g) (o : GOp) : NoRepeatG (gstep g o) := by
  cases o with
  | split n0 n1 new =>
    simp only [gstep]
    split
    · rename_i hc
      obtain ⟨ht, hr, he, f4, f3, f2⟩ := hc
      obtain ⟨_, p4, p3, p2⟩ := splitEdge_spec g n0 n1 new ht hr he
      have fr : ∀ (np : Nat) (cs : List Cell), cs.all (fun c => !(nodesOf np c).contains new) = true →
          Fresh np new cs := by
        intro np cs hall c hc
        have := List.all_eq_true.1 hall c hc
        simpa using this
      exact ⟨(splitSpec_noRepeat 4 n0 n1 new _ h.1 (fr _ _ f4)).perm p4,
        (splitSpec_noRepeat 3 n0 n1 new _ h.2.1 (fr _ _ f3)).perm p3,
        (splitSpec_noRepeat 2 n0 n1 new _ h.2.2 (fr _ _ f2)).perm p2⟩
    · exact h
  | collapse n0 n1 =>
    simp only [gstep]
    split
    · rename_i hc
      obtain ⟨ht, hr, he⟩ := hc
      exact ⟨(collapseSpec_noRepeat 4 n0 n1 _ h.1).perm ((collapseGroup_spec 4 g.tet n0 n1).1 ht).2,
        (collapseSpec_noRepeat 3 n0 n1 _ h.2.1).perm ((collapseGroup_spec 3 g.tri n0 n1).1 hr).2,
        (collapseSpec_noRepeat 2 n0 n1 _ h.2.2).perm ((collapseGroup_spec 2 g.edg n0 n1).1 he).2⟩
    · exact h

/-- **history_noRepeat_partial**: along every sequence of guarded splits and collapses, after every prefix, no
    cell repeats a vertex (so the model of `ref_cell_list_with2` stays the model of the C).
    FULL STATEMENT (not proved): for every list of accepted modelled operations (split, collapse, swap) starting
    from a mesh in which every cell references valid vertices only, has no repeated vertex and the signed boundary
    chain `∂φ` vanishes for every alternating face functional `φ`, the same holds after every prefix.  Missing: the
    swap step (needs the case analysis of `ref_swap_node23`), "references valid vertices only" through the id state
    (needs `add` returns a previously invalid slot), and chain conformity of a 3-D split (`splitEdge_conforming`:
    `∂φ (splitEdge M) = ∂(φ pulled back along the split) M`, 12 position cases per tet) - the 2-D swap chain identity
    is `swapTri_conforming`. -/
theorem history_noRepeat_partial (ops : List GOp) (g : Groups) (h : NoRepeatG g) :
    ∀ k, NoRepeatG ((ops.take k).foldl gstep g) := by
  intro k
  generalize ops.take k = l
  induction l generalizing g with
  | nil => exact h
  | cons o rest ih => exact ih _ (gstep_noRepeat h o)

/-! ## non-vacuity -/

/-- an edge star: three tets around the edge (0,2) closed by ring vertices 3,4,5 would need six vertices; here
    two tets on the edge (0,2), two boundary triangles and an edg on it, over the id state `exState` of
    C14NodeCell (slots 0 and 2 live, global 1 on the unused list, slot 1 free) -/
def exGroups : Groups := ⟨[[0, 2, 3, 4], [2, 0, 3, 5], [3, 4, 5, 6]], [[0, 2, 4, 7], [2, 0, 5, 7], [3, 4, 5, 9]], [[0, 2, 11]]⟩
def exMesh : Mesh := ⟨Refine.Props.C14NodeCell.exState, exGroups⟩

/-- hypotheses of `trialFrame_reject_no_trace` are met by `exMesh`; here even the concrete state is restored -/
example : NodeInv exMesh.ids ∧ PoolInv exMesh.ids ∧
    (trialFrame exMesh 0 2 .rejectChecks).2.2.2 = exMesh ∧ (trialFrame exMesh 0 2 .rejectCavity).2.2.1 = 1 :=
  ⟨Refine.Props.C14NodeCell.node_inv_all_sequences [.add 0, .add 1, .add 2, .initNGlobal 3, .remove 1],
   Refine.Props.C14NodeCell.exState_pool, by decide, by decide⟩

/-- the accepted path on `exMesh`: the trial vertex gets the pooled global 1 and the freed slot 1, every cell on
    the edge (0,2) is split, ids 7 and 11 are inherited, the other cells are untouched -/
example : (trialFrame exMesh 0 2 .split).2.1 = true ∧ (trialFrame exMesh 0 2 .split).2.2.1 = 1 ∧
    (trialFrame exMesh 0 2 .split).2.2.2.g.tet.Perm [[1, 2, 3, 4], [0, 1, 3, 4], [2, 1, 3, 5], [1, 0, 3, 5], [3, 4, 5, 6]] ∧
    (trialFrame exMesh 0 2 .split).2.2.2.g.edg.Perm [[0, 1, 11], [1, 2, 11]] := by
  refine ⟨by decide, by decide, ?_, ?_⟩ <;> decide

/-- `splitEdge_spec` / `collapseEdge_subst` / `swapTriEdge_spec` hypotheses on concrete states -/
example : (exGroups.tet.filter (has2 4 0 2)).length = 2 ∧ (collapseEdge exMesh 0 2).1 = .ok ∧
    (collapseEdge exMesh 0 2).2.g.tet = [[3, 4, 5, 6]] ∧ (collapseEdge exMesh 0 2).2.ids.unusedStk = [2, 1] := by
  decide

/-- `history_noRepeat_partial`: the start invariant holds of `exGroups` and the guard of a split with the unreferenced
    vertex 1 is met (the step is not the identity) -/
example : NoRepeatG exGroups ∧ (gstep exGroups (.split 0 2 1)).tet.length = 5 ∧
    (gstep (gstep exGroups (.split 0 2 1)) (.collapse 3 4)).tet.length = 2 := by
  refine ⟨?_, by decide, by decide⟩
  unfold NoRepeatG NoRepeat
  decide

def exTris : Groups := ⟨[], [[5, 6, 7, 1], [6, 5, 8, 1], [7, 6, 9, 1]], []⟩
example : swapNode23 exTris.tri 5 6 = (.ok, 7, 8) ∧ sameFaceid exTris 5 6 = (.ok, true) ∧
    (swapTriEdge exTris 5 6).2.tri = [[6, 7, 8, 1], [5, 8, 7, 1], [7, 6, 9, 1]] := by decide

end Refine.Props.C13
