import Refine.Lemmas.PartMeshbClauses

/-!
  C06 for the PARALLEL libMeshb reader (`ref_part_by_extension` → `ref_part_meshb`, model
  `Refine.Model.PartMeshb`): the world every `refmpi` command starts from satisfies the distributed-mesh invariant.

  Hypotheses of the two headline theorems, on what rank 0 accepted (`parseWith … = ok p`):
  `1 ≤ nnode < 2^31` (vertex indices are `REF_INT`) and, per cell group, no two cells with the same SET of vertices
  (`Distinct`: `ref_cell_add_many_global` looks a cell up with `ref_cell_with` and silently drops a second cell on
  the same vertices — with duplicates in the file two ranks can end with different copies, so the invariant really
  needs this).  Everything else (vertex indices in range, record sizes, blocks) is what acceptance implies
  (`Props/C20PartMeshb.lean`).  Rank count `np ≥ 1`, chunk constant `cm`, byte string: arbitrary.
-/
namespace Refine.Props.C06Part
open Refine.Model.Meshb Refine.Model.PartMeshb Refine.Lemmas.PartMeshb
open Refine.Model.Dist
open Refine.Gen.PartMacros

/-- the closed form behind both theorems: the reader succeeds and leaves the world `FinalP` -/
theorem partRead_closed_form (cfg : Cfg) (np cm : Nat) (hnp : 1 ≤ np) (bs : Bytes) (p : Parsed)
    (h : parseWith cfg np cm bs = .ok p) (hN : 1 ≤ p.nnode) (hN31 : p.nnode < 2 ^ 31)
    (hd : ∀ g ∈ cellInfos.zip p.groups, Distinct g.1 g.2.flatten) :
    ParsedOK np p ∧ ∃ w, partReadWith cfg np cm bs = .ok w ∧ FinalP np p p.cad w := by
  have hp := parsedOK_of_parse hnp h hN hN31 hd
  obtain ⟨w, hw, hF⟩ := distribute_ok hnp hp
  exact ⟨hp, w, by simp [partReadWith, h, hw], hF⟩

/-- **routing complete**: every cell record of the file is delivered exactly once by the reading loop — to the rank
    that owns its FIRST vertex, whatever the chunk size — and after `ref_migrate_shufflin_cell` rank `r` holds, in this
    order, those cells and then, by source rank, the cells delivered elsewhere that have a vertex of `r`; hence rank `r`
    holds the (stored form of the) file cell `c0` ⇔ some vertex of `c0` is owned by `r`. -/
theorem partCell_routing_complete (cfg : Cfg) (np cm : Nat) (hnp : 1 ≤ np) (bs : Bytes) (p : Parsed)
    (h : parseWith cfg np cm bs = .ok p) (hN : 1 ≤ p.nnode) (hN31 : p.nnode < 2 ^ 31)
    (hd : ∀ g ∈ cellInfos.zip p.groups, Distinct g.1 g.2.flatten) :
    ∃ w, partReadWith cfg np cm bs = .ok w ∧ w.length = np ∧
      ∀ r, r < np → ∀ j ci, cellInfos[j]? = some ci →
        (w.getD r default).group j =
          ((fileGroup p j).filter fun c => destOf p.nnode np c == (r : Int)).map (norm ci) ++
          ((List.range np).flatMap fun s => if s = r then [] else
            (((fileGroup p j).filter fun c => destOf p.nnode np c == (s : Int)).filter
              (touches p.nnode np ci r))).map (norm ci) ∧
        ∀ c0 ∈ fileGroup p j,
          (norm ci c0 ∈ (w.getD r default).group j ↔
            ∃ v ∈ c0.take ci.nodePer, ref_part_implicit p.nnode (np : Int) v = (r : Int)) := by
  obtain ⟨hp, w, hw, hF⟩ := partRead_closed_form cfg np cm hnp bs p h hN hN31 hd
  refine ⟨w, hw, hF.len, ?_⟩
  intro r hr j ci hci
  constructor
  · rw [hF.grp r hr j]
    unfold finalGroup fileGroup
    rw [hci]
    cases h2 : p.groups[j]? with
    | none => simp [List.getD_eq_getElem?_getD, h2]
    | some chs =>
      simp only [List.getD_eq_getElem?_getD, h2, Option.getD_some]
      rw [finalRaw, List.map_append]
      rfl
  · intro c0 hc0
    obtain ⟨hok, hdist⟩ := fileGroup_ok hp j ci hci c0 hc0
    rw [hF.grp r hr j, mem_finalGroup hnp hp j r hr]
    constructor
    · rintro ⟨ci', hci', c1, hc1, hn, ht⟩
      rw [hci] at hci'
      injection hci' with hci'
      subst hci'
      have : c0 = c1 := List.inj_on_of_nodup_map hdist.2 hc0 hc1 hn
      subst this
      exact (touches_iff _ _ _ _ _).1 ht
    · intro hv
      exact ⟨ci, hci, c0, hc0, rfl, (touches_iff _ _ _ _ _).2 hv⟩

/-- **readPartition_spec**: the state right after the parallel read satisfies the distributed-mesh invariant
    `distInv` of `Refine.Model.Dist` — all seven clauses: every vertex has exactly one owner, the
    `ref_part_implicit` block owner, which stores it as owned; rank `r` stores cell `c` iff some vertex of `c` has
    `part = r`; stored vertices = owned ∪ vertices of stored cells; a ghost carries the owner's coordinates bit for bit;
    the cell owner (`ref_cell_part`) is one rank, which stores the cell; owned vertices are `0 … nnode-1`, each once,
    `n_global = nnode` on every rank, owned cells are the distinct cells, each once. -/
theorem readPartition_spec (cfg : Cfg) (np cm : Nat) (hnp : 1 ≤ np) (bs : Bytes) (p : Parsed)
    (h : parseWith cfg np cm bs = .ok p) (hN : 1 ≤ p.nnode) (hN31 : p.nnode < 2 ^ 31)
    (hd : ∀ g ∈ cellInfos.zip p.groups, Distinct g.1 g.2.flatten) :
    ∃ w, partReadWith cfg np cm bs = .ok w ∧ distInv (toDist w) = true := by
  obtain ⟨hp, w, hw, hF⟩ := partRead_closed_form cfg np cm hnp bs p h hN hN31 hd
  refine ⟨w, hw, ?_⟩
  unfold distInv
  rw [clauseLocal_part hnp hp hF, clauseOwner_part hnp hF, clauseCells_part hnp hp hF, clauseVerts_part hnp hp hF,
    clauseGhost_part hnp hF, clauseCellOwner_part hnp hp hF, clauseCounts_part hnp hp hF]
  rfl

/-! ### non-vacuity -/

instance (ci : CellInfo) (cs : List Cell) : Decidable (Distinct ci cs) := by unfold Distinct; infer_instance

/-- 7 vertices (blocks 3,2,2 on 3 ranks), one tet, two triangles, two edges — all among the vertices 0..4 — a geometry
    record, two CAD bytes: rank 2 (vertices 5,6) ends with NO cell -/
def threeRankFile : Bytes :=
  [1, 0, 0, 0, 2, 0, 0, 0, 3, 0, 0, 0, 20, 0, 0, 0, 3, 0, 0, 0, 4, 0, 0, 0, 228, 0, 0, 0, 7, 0, 0, 0, 0, 0, 0,
   0, 0, 0, 0, 0, 0, 0, 0, 0, 0, 0, 0, 0, 0, 0, 0, 0, 0, 0, 0, 128, 1, 0, 0, 0, 0, 0, 0, 0, 0, 0, 240, 63, 0,
   0, 0, 0, 0, 0, 224, 63, 0, 0, 0, 0, 0, 0, 240, 191, 1, 0, 0, 0, 0, 0, 0, 0, 0, 0, 0, 64, 0, 0, 0, 0, 0, 0,
   240, 63, 0, 0, 0, 0, 0, 0, 0, 192, 1, 0, 0, 0, 0, 0, 0, 0, 0, 0, 8, 64, 0, 0, 0, 0, 0, 0, 248, 63, 0, 0, 0,
   0, 0, 0, 8, 192, 1, 0, 0, 0, 0, 0, 0, 0, 0, 0, 16, 64, 0, 0, 0, 0, 0, 0, 0, 64, 0, 0, 0, 0, 0, 0, 16, 192,
   1, 0, 0, 0, 0, 0, 0, 0, 0, 0, 20, 64, 0, 0, 0, 0, 0, 0, 4, 64, 0, 0, 0, 0, 0, 0, 20, 192, 1, 0, 0, 0, 0, 0,
   0, 0, 0, 0, 24, 64, 0, 0, 0, 0, 0, 0, 8, 64, 0, 0, 0, 0, 0, 0, 24, 192, 1, 0, 0, 0, 5, 0, 0, 0, 8, 1, 0, 0,
   2, 0, 0, 0, 1, 0, 0, 0, 2, 0, 0, 0, 7, 0, 0, 0, 5, 0, 0, 0, 4, 0, 0, 0, 8, 0, 0, 0, 6, 0, 0, 0, 52, 1, 0, 0,
   2, 0, 0, 0, 1, 0, 0, 0, 2, 0, 0, 0, 3, 0, 0, 0, 5, 0, 0, 0, 5, 0, 0, 0, 4, 0, 0, 0, 3, 0, 0, 0, 6, 0, 0, 0,
   8, 0, 0, 0, 84, 1, 0, 0, 1, 0, 0, 0, 1, 0, 0, 0, 2, 0, 0, 0, 3, 0, 0, 0, 4, 0, 0, 0, 0, 0, 0, 0, 41, 0, 0,
   0, 120, 1, 0, 0, 1, 0, 0, 0, 2, 0, 0, 0, 4, 0, 0, 0, 0, 0, 0, 0, 0, 0, 224, 63, 0, 0, 0, 0, 0, 0, 16, 64,
   126, 0, 0, 0, 134, 1, 0, 0, 2, 0, 0, 0, 9, 8, 54, 0, 0, 0, 0, 0, 0, 0]

/-- the hypotheses of the theorems hold of this file on 3 ranks … -/
example : ∃ p, parseWith Cfg.current 3 chunkConst threeRankFile = .ok p ∧ 1 ≤ p.nnode ∧ p.nnode < 2 ^ 31 ∧
    ∀ g ∈ cellInfos.zip p.groups, Distinct g.1 g.2.flatten := by
  have : (match parseWith Cfg.current 3 chunkConst threeRankFile with
    | .ok p => decide (1 ≤ p.nnode ∧ p.nnode < 2 ^ 31 ∧ ∀ g ∈ cellInfos.zip p.groups, Distinct g.1 g.2.flatten)
    | .error _ => false) = true := by decide +kernel
  cases hp : parseWith Cfg.current 3 chunkConst threeRankFile with
  | error e => simp [hp] at this
  | ok p => exact ⟨p, rfl, by simpa [hp] using this⟩

/-- … the mesh has tets + triangles + edges, rank 2 holds no cell (and rank 0, 1 do), and the invariant holds
    (here by evaluation; `readPartition_spec` proves it for every file) -/
example : (partRead 3 threeRankFile).toOption.map
    (fun w => (w.map fun st => st.cells.map List.length, distInv (toDist w))) =
    some ([[1, 0, 0, 2, 0, 0, 0, 0, 1, 0, 0, 0, 0, 0, 0, 0], [1, 0, 0, 1, 0, 0, 0, 0, 1, 0, 0, 0, 0, 0, 0, 0],
           [0, 0, 0, 0, 0, 0, 0, 0, 0, 0, 0, 0, 0, 0, 0, 0]], true) := by decide +kernel

end Refine.Props.C06Part
