import Refine.Lemmas.FormatsText
import Refine.Lemmas.FormatsC20
import Refine.Model.FormatsMapbc

/-!
  C20 — malformed input is rejected cleanly: the TEXT mesh readers, `.r8.ugrid`, the field readers `.rst` / `.snap` /
  `.plt` and the `.mapbc` readers (work package `formats`).

  The models (`Refine.Model.Formats`, `FormatsBin`, `FormatsMapbc`) mirror the validation logic of the C readers as they
  are in /repo (`Fix.current = Fix.none`, `BFix.current = BFix.none`); they are tied by the streams `c20_formats_mut`,
  `c20_fields_mut`, `formats_mapbc` (C status and dump = model on every mutant the model gives a status for).

  * ASCII `.ugrid` (index test in /repo since 6682479): `ugrid_accepted_counts_fit`, `ugrid_accepted_indices_in_range`
    hold at full strength.
  * `.tri`, `.fgrid`, `.surf`, `.su2`, `.msh`, `.grid`, `.r8.ugrid` never compare a vertex index with the vertex count:
    `*_index_counterexample` (finding import-vertex-index-unchecked); with the test of the proposed repair
    (`Fix.index`, `BFix.r8`) `*_fixed_accepted_indices_in_range`.
  * `.msh` reads keywords with `fscanf("%s")` into `char line[1024]`: `msh_token_counterexample` (finding
    msh-token-buffer-overflow).
  * `.tri` / `.fgrid` add the declared number of vertices before they read one: `prealloc_counterexample`.
  * `.r8.ugrid` forms its record length in `int`: `r8_record_counterexample`.
  * `.rst`, `.snap`, `.plt` size allocations and bound loops by header fields alone: `rst_*_counterexample`,
    `snap_fields_counterexample`, `plt_numpts_counterexample`; with the repairs `rst_fixed_accepted_counts_fit`,
    `snap_fixed_fields_fit`, `plt_fixed_points_fit`.
  * `.mapbc`: every buffer is filled by a bounded `fgets`; `mapbc_walls_spec` — the wall set handed to `ref distance`
    (C12) is exactly the ids whose last line carries a viscous code.
-/
namespace Refine.Props.C20Formats
open Refine.Model.Formats Refine.Model.FormatsBin Refine.Model.FormatsMapbc Refine.Lemmas.Formats
open Refine.Model.Meshb (Bytes Status Vertex)
open Refine.Model.Ugrid (Kind ofHex)

/-! ### witness files (the same tokens / bytes are replayed against the real readers by the `c20_formats_*` /
    `c20_fields_*` streams; checks/c20.py compares the texts) -/

/-- 3 vertices, one triangle (1,2,4): vertex 4 of 3 -/
def triIndexFile : List Tok := [.int 3, .int 1, .nl, .num 0x0000000000000000, .num 0x0000000000000000, .num 0x0000000000000000, .nl, .num 0x3ff0000000000000, .num 0x0000000000000000, .num 0x0000000000000000, .nl, .num 0x0000000000000000, .num 0x3ff0000000000000, .num 0x0000000000000000, .nl, .int 1, .int 2, .int 4, .nl, .int 7, .nl]
/-- 4 vertices, one tet (1,2,3,5) -/
def fgridIndexFile : List Tok := [.int 4, .int 0, .int 1, .nl, .num 0x0000000000000000, .nl, .num 0x3ff0000000000000, .nl, .num 0x0000000000000000, .nl, .num 0x0000000000000000, .nl, .num 0x0000000000000000, .nl, .num 0x0000000000000000, .nl, .num 0x3ff0000000000000, .nl, .num 0x0000000000000000, .nl, .num 0x0000000000000000, .nl, .num 0x0000000000000000, .nl, .num 0x0000000000000000, .nl, .num 0x3ff0000000000000, .nl, .int 1, .int 2, .int 3, .int 5, .nl]
/-- 3 vertices, one triangle (1,2,4) -/
def surfIndexFile : List Tok := [.int 1, .int 0, .int 3, .nl, .num 0x0000000000000000, .num 0x0000000000000000, .num 0x0000000000000000, .nl, .num 0x3ff0000000000000, .num 0x0000000000000000, .num 0x0000000000000000, .num 0x3ff0000000000000, .nl, .num 0x0000000000000000, .num 0x3ff0000000000000, .num 0x0000000000000000, .nl, .int 1, .int 2, .int 4, .int 7, .int 0, .int 1, .nl]
/-- 4 points, one tet (0,1,2,4): point 4 of 0..3 -/
def su2IndexFile : List Tok := [.word "NDIME=", .int 3, .nl, .word "NPOIN=", .int 4, .nl, .num 0x0000000000000000, .num 0x0000000000000000, .num 0x0000000000000000, .nl, .num 0x3ff0000000000000, .num 0x0000000000000000, .num 0x0000000000000000, .nl, .num 0x0000000000000000, .num 0x3ff0000000000000, .num 0x0000000000000000, .nl, .num 0x0000000000000000, .num 0x0000000000000000, .num 0x3ff0000000000000, .nl, .word "NELEM=", .int 1, .nl, .int 10, .int 0, .int 1, .int 2, .int 4, .nl, .word "NMARK=", .int 0, .nl]
/-- 4 nodes, one tet (1,2,3,5) -/
def mshIndexFile : List Tok := [.word "$MeshFormat", .nl, .num 0x4010666666666666, .int 0, .int 8, .nl, .word "$EndMeshFormat", .nl, .word "$Nodes", .nl, .int 1, .int 4, .int 1, .int 4, .nl, .int 3, .int 1, .int 0, .int 4, .nl, .int 1, .nl, .int 2, .nl, .int 3, .nl, .int 4, .nl, .num 0x0000000000000000, .num 0x0000000000000000, .num 0x0000000000000000, .nl, .num 0x3ff0000000000000, .num 0x0000000000000000, .num 0x0000000000000000, .nl, .num 0x0000000000000000, .num 0x3ff0000000000000, .num 0x0000000000000000, .nl, .num 0x0000000000000000, .num 0x0000000000000000, .num 0x3ff0000000000000, .nl, .word "$EndNodes", .nl, .word "$Elements", .nl, .int 1, .int 1, .int 1, .int 1, .nl, .int 3, .int 1, .int 4, .int 1, .nl, .int 1, .int 1, .int 2, .int 3, .int 5, .nl, .word "$EndElements", .nl]
/-- 3 vertices, one triangle (1,2,4), no boundary -/
def gridIndexFile : List Tok := [.int 3, .int 1, .int 0, .nl, .num 0x0000000000000000, .num 0x0000000000000000, .nl, .num 0x3ff0000000000000, .num 0x0000000000000000, .nl, .num 0x0000000000000000, .num 0x3ff0000000000000, .nl, .int 1, .int 2, .int 4, .nl, .int 0, .nl]
/-- a file that is one 1024-character piece -/
def mshTokenFile : List Tok := [.word (String.ofList (List.replicate 1024 'A')), .nl]
/-- 2 500 000 vertices declared in a 12-byte file -/
def triPreallocFile : List Tok := [.int 2500000, .int 0, .nl]
/-- the same for `.fgrid` -/
def fgridPreallocFile : List Tok := [.int 2500000, .int 0, .int 0, .nl]
/-- `.r8.ugrid` header declaring 2^30 vertices -/
def r8RecordFile : Bytes := [0, 0, 0, 28, 64, 0, 0, 0, 0, 0, 0, 0, 0, 0, 0, 0, 0, 0, 0, 1, 0, 0, 0, 0, 0, 0, 0, 0, 0, 0, 0, 0, 0, 0, 0, 28, 0, 0, 0, 0, 0, 0, 0, 0, 0, 0, 0, 0, 0, 0, 0, 0, 0, 0, 0, 0, 0, 0, 0, 0, 0, 0, 0, 0, 63, 240, 0, 0, 0, 0, 0, 0, 0, 0, 0, 0, 0, 0, 0, 0, 0, 0, 0, 0, 0, 0, 0, 0, 0, 0, 0, 0, 0, 0, 0, 0, 63, 240, 0, 0, 0, 0, 0, 0, 0, 0, 0, 0, 0, 0, 0, 0, 0, 0, 0, 0, 0, 0, 0, 0, 0, 0, 0, 0, 0, 0, 0, 0, 63, 240, 0, 0, 0, 0, 0, 0, 0, 0, 0, 1, 0, 0, 0, 2, 0, 0, 0, 3, 0, 0, 0, 4, 0, 0, 0, 112]
/-- `.r8.ugrid`: 4 vertices, one tet (1,2,3,5) -/
def r8IndexFile : Bytes := [0, 0, 0, 28, 0, 0, 0, 4, 0, 0, 0, 0, 0, 0, 0, 0, 0, 0, 0, 1, 0, 0, 0, 0, 0, 0, 0, 0, 0, 0, 0, 0, 0, 0, 0, 28, 0, 0, 0, 112, 0, 0, 0, 0, 0, 0, 0, 0, 0, 0, 0, 0, 0, 0, 0, 0, 0, 0, 0, 0, 0, 0, 0, 0, 63, 240, 0, 0, 0, 0, 0, 0, 0, 0, 0, 0, 0, 0, 0, 0, 0, 0, 0, 0, 0, 0, 0, 0, 0, 0, 0, 0, 0, 0, 0, 0, 63, 240, 0, 0, 0, 0, 0, 0, 0, 0, 0, 0, 0, 0, 0, 0, 0, 0, 0, 0, 0, 0, 0, 0, 0, 0, 0, 0, 0, 0, 0, 0, 63, 240, 0, 0, 0, 0, 0, 0, 0, 0, 0, 1, 0, 0, 0, 2, 0, 0, 0, 3, 0, 0, 0, 5, 0, 0, 0, 112]
/-- `.rst` header: 1 variable, 2 steps, dof = 10^8 (36 bytes) -/
def rstDofFile : Bytes := [8, 0, 0, 0, 67, 79, 70, 70, 69, 82, 83, 84, 2, 0, 0, 0, 3, 0, 0, 0, 1, 0, 0, 0, 2, 0, 0, 0, 0, 225, 245, 5, 0, 0, 0, 0]
/-- `.rst`: 2^30 variables, 2 steps -/
def rstLdimFile : Bytes := [8, 0, 0, 0, 67, 79, 70, 70, 69, 82, 83, 84, 2, 0, 0, 0, 3, 0, 0, 0, 0, 0, 0, 64, 2, 0, 0, 0, 4, 0, 0, 0, 0, 0, 0, 0, 0, 0, 0, 0, 0, 0, 240, 63, 0, 0, 0, 0, 0, 0, 240, 63, 0, 0, 0, 0, 0, 0, 240, 63, 0, 0, 0, 0, 0, 0, 240, 63, 0, 0, 0, 0, 0, 0, 240, 63, 0, 0, 0, 0, 0, 0, 240, 63, 0, 0, 0, 0, 0, 0, 240, 63, 0, 0, 0, 0, 0, 0, 240, 63]
/-- `.rst`: 50000 variables, dof 100000 -/
def rstChunkFile : Bytes := [8, 0, 0, 0, 67, 79, 70, 70, 69, 82, 83, 84, 2, 0, 0, 0, 3, 0, 0, 0, 80, 195, 0, 0, 2, 0, 0, 0, 160, 134, 1, 0, 0, 0, 0, 0, 0, 0, 0, 0, 0, 0, 240, 63, 0, 0, 0, 0, 0, 0, 240, 63, 0, 0, 0, 0, 0, 0, 240, 63, 0, 0, 0, 0, 0, 0, 240, 63, 0, 0, 0, 0, 0, 0, 240, 63, 0, 0, 0, 0, 0, 0, 240, 63, 0, 0, 0, 0, 0, 0, 240, 63, 0, 0, 0, 0, 0, 0, 240, 63]
/-- `.rst`: no variables, 2^31-1 steps, dof 4 -/
def rstIdleFile : Bytes := [8, 0, 0, 0, 67, 79, 70, 70, 69, 82, 83, 84, 2, 0, 0, 0, 3, 0, 0, 0, 0, 0, 0, 0, 255, 255, 255, 127, 4, 0, 0, 0, 0, 0, 0, 0, 0, 0, 0, 0, 0, 0, 240, 63, 0, 0, 0, 0, 0, 0, 240, 63, 0, 0, 0, 0, 0, 0, 240, 63, 0, 0, 0, 0, 0, 0, 240, 63, 0, 0, 0, 0, 0, 0, 240, 63, 0, 0, 0, 0, 0, 0, 240, 63, 0, 0, 0, 0, 0, 0, 240, 63, 0, 0, 0, 0, 0, 0, 240, 63]
/-- `.snap` version 2 declaring 2·10^8 fields (16 bytes) -/
def snapFieldsFile : Bytes := [2, 0, 0, 0, 0, 0, 0, 0, 0, 194, 235, 11, 0, 0, 0, 0]
/-- `.plt`: 4 variables, one triangle zone declaring 2^30 points -/
def pltNumptsFile : Bytes := [35, 33, 84, 68, 86, 49, 49, 50, 1, 0, 0, 0, 0, 0, 0, 0, 116, 0, 0, 0, 0, 0, 0, 0, 4, 0, 0, 0, 118, 0, 0, 0, 48, 0, 0, 0, 0, 0, 0, 0, 118, 0, 0, 0, 49, 0, 0, 0, 0, 0, 0, 0, 118, 0, 0, 0, 50, 0, 0, 0, 0, 0, 0, 0, 118, 0, 0, 0, 51, 0, 0, 0, 0, 0, 0, 0, 0, 128, 149, 67, 122, 0, 0, 0, 0, 0, 0, 0, 255, 255, 255, 255, 255, 255, 255, 255, 0, 0, 0, 0, 0, 0, 0, 0, 255, 255, 255, 255, 2, 0, 0, 0, 0, 0, 0, 0, 0, 0, 0, 0, 0, 0, 0, 0, 0, 0, 0, 64, 1, 0, 0, 0, 0, 0, 0, 0, 0, 0, 0, 0, 0, 0, 0, 0, 0, 0, 0, 0, 0, 128, 178, 67, 0, 128, 149, 67, 2, 0, 0, 0, 2, 0, 0, 0, 2, 0, 0, 0, 2, 0, 0, 0, 0, 0, 0, 0, 0, 0, 0, 0, 255, 255, 255, 255, 0, 0, 0, 0, 0, 0, 0, 0, 0, 0, 0, 0, 0, 0, 0, 0, 0, 0, 0, 0, 0, 0, 0, 0, 0, 0, 0, 0, 0, 0, 0, 0, 0, 0, 0, 0, 0, 0, 0, 0, 0, 0, 0, 0, 0, 0, 0, 0, 0, 0, 0, 0, 0, 0, 0, 0, 0, 0, 0, 0, 0, 0, 0, 0, 0, 0, 0, 0, 0, 0, 0, 0, 0, 0, 0, 0, 0, 0, 0, 0, 0, 0, 0, 0, 0, 0, 0, 0, 0, 0, 0, 0, 0, 0, 240, 63, 1, 0, 0, 0, 1, 0, 0, 0, 1, 0, 0, 0]
/-- a well-formed one-field version-2 `.snap` for a one-vertex grid (52 bytes) -/
def snapOkFile : Bytes := [2, 0, 0, 0, 0, 0, 0, 0, 1, 0, 0, 0, 0, 0, 0, 0, 0, 0, 0, 0, 0, 0, 0, 0, 20, 0, 0, 0, 0, 0, 0, 0, 1, 0, 0, 0, 0, 0, 0, 0, 255, 255, 255, 255, 0, 0, 0, 0, 0, 0, 240, 63]

/-! ### ASCII `.ugrid` -/

/-- the reader models are total functions: every token list is accepted or mapped to a status -/
theorem ugrid_decode_total (ts : List Tok) :
    (∃ m, decodeUgridTxt ts = .ok m) ∨ (∃ e, decodeUgridTxt ts = .error e) := by
  cases h : decodeUgridTxt ts with
  | ok m => exact .inl ⟨m, rfl⟩
  | error e => exact .inr ⟨e, rfl⟩

/-- what an accepted ASCII `.ugrid` guarantees (ref_import_ugrid as in /repo since 6682479) -/
theorem ugrid_ok {ts : List Tok} {m : TMesh} (h : decodeUgridTxt ts = .ok m) :
    ∃ hdr r, rdDs 7 ts = .ok (hdr, r) ∧ m.nodes.length = cnt (hdr.getD 0 0) ∧
      m.tri.length = cnt (hdr.getD 1 0) ∧ m.qua.length = cnt (hdr.getD 2 0) ∧ m.tet.length = cnt (hdr.getD 3 0) ∧
      m.pyr.length = cnt (hdr.getD 4 0) ∧ m.pri.length = cnt (hdr.getD 5 0) ∧ m.hex.length = cnt (hdr.getD 6 0) ∧
      m.edg = [] ∧
      (∀ c ∈ m.tri, nodesIn 3 0 (hdr.getD 0 0) c) ∧ (∀ c ∈ m.qua, nodesIn 4 0 (hdr.getD 0 0) c) ∧
      (∀ c ∈ m.tet, nodesIn 4 0 (hdr.getD 0 0) c) ∧ (∀ c ∈ m.pyr, nodesIn 5 0 (hdr.getD 0 0) c) ∧
      (∀ c ∈ m.pri, nodesIn 6 0 (hdr.getD 0 0) c) ∧ (∀ c ∈ m.hex, nodesIn 8 0 (hdr.getD 0 0) c) := by
  unfold decodeUgridTxt at h
  split at h; · cases h
  rename_i hdr ts1 h0
  simp only at h
  split at h; · cases h
  rename_i nodes ts2 h1
  split at h; · cases h
  rename_i tri ts3 h2
  split at h; · cases h
  rename_i qua ts4 h3
  split at h; · cases h
  rename_i tid ts5 h4
  split at h; · cases h
  rename_i qid ts6 h5
  split at h; · cases h
  rename_i tet ts7 h6
  split at h; · cases h
  rename_i pyr ts8 h7
  split at h; · cases h
  rename_i pri ts9 h8
  split at h; · cases h
  rename_i hex ts10 h9
  simp only [Except.ok.injEq] at h
  subst h
  obtain ⟨l2, _, c2⟩ := rdCells1_ok h2
  obtain ⟨l3, _, c3⟩ := rdCells1_ok h3
  obtain ⟨l6, _, c6⟩ := rdCells1_ok h6
  obtain ⟨l7, _, c7⟩ := rdCells1_ok h7
  obtain ⟨l8, _, c8⟩ := rdCells1_ok h8
  obtain ⟨l9, _, c9⟩ := rdCells1_ok h9
  exact ⟨hdr, ts1, h0, rdVerts3_length h1, by simp [setIds_length, l2], by simp [setIds_length, l3], l6, l7, l8, l9, rfl,
    setIds_nodes (c2 rfl), setIds_nodes (c3 rfl), c6 rfl, c7 rfl, c8 rfl, c9 rfl⟩

/-- **accepted_counts_fit**, ASCII `.ugrid`: an accepted file holds every record it declares — the mesh has exactly the
    declared numbers of vertices, triangles, quads, tets, pyramids, prisms and hexes, each converted from the token
    stream by a checked `fscanf` (a count the file does not back ends in REF_FAILURE at the first missing number;
    nothing is sized by a count alone: the vertex and cell arrays grow as the records arrive) -/
theorem ugrid_accepted_counts_fit {ts : List Tok} {m : TMesh} (h : decodeUgridTxt ts = .ok m) :
    ∃ hdr r, rdDs 7 ts = .ok (hdr, r) ∧ m.nodes.length = cnt (hdr.getD 0 0) ∧
      m.tri.length = cnt (hdr.getD 1 0) ∧ m.qua.length = cnt (hdr.getD 2 0) ∧ m.tet.length = cnt (hdr.getD 3 0) ∧
      m.pyr.length = cnt (hdr.getD 4 0) ∧ m.pri.length = cnt (hdr.getD 5 0) ∧ m.hex.length = cnt (hdr.getD 6 0) := by
  obtain ⟨hdr, r, h0, a, b, c, d, e, f, g, _⟩ := ugrid_ok h
  exact ⟨hdr, r, h0, a, b, c, d, e, f, g⟩

/-- **accepted_indices_in_range**, ASCII `.ugrid`: every vertex index of every accepted cell is in `[0, nnode)` -/
theorem ugrid_accepted_indices_in_range {ts : List Tok} {m : TMesh} (h : decodeUgridTxt ts = .ok m) :
    indicesInRange m = true := by
  obtain ⟨hdr, r, _, hn, _, _, _, _, _, _, he, c1, c2, c3, c4, c5, c6⟩ := ugrid_ok h
  exact inRange_of_kinds hn (by rw [he]; exact none_in) c1 c2 c3 c4 c5 c6

/-! ### `.tri`, `.fgrid`, `.surf`, `.grid` -/

theorem tri_decode_total (fx : Fix) (ts : List Tok) :
    (∃ m, decodeTri fx ts = .ok m) ∨ (∃ e, decodeTri fx ts = .error e) := by
  cases h : decodeTri fx ts with
  | ok m => exact .inl ⟨m, rfl⟩
  | error e => exact .inr ⟨e, rfl⟩

/-- `.tri` with the index test of the proposed repair: accepted ⇒ declared counts read, indices in range -/
theorem tri_fixed_accepted_indices_in_range {fx : Fix} (hfx : fx.index = true) {ts : List Tok} {m : TMesh}
    (h : decodeTri fx ts = .ok m) :
    (∃ hdr r, rdDs 2 ts = .ok (hdr, r) ∧ m.nodes.length = cnt (hdr.getD 0 0) ∧ m.tri.length = cnt (hdr.getD 1 0)) ∧
    indicesInRange m = true := by
  unfold decodeTri at h
  split at h; · cases h
  rename_i hdr ts1 h0
  simp only at h
  split at h; · cases h
  split at h; · cases h
  rename_i nodes ts2 h1
  split at h; · cases h
  rename_i tri ts3 h2
  split at h; · cases h
  rename_i tid ts4 h3
  simp only [Except.ok.injEq] at h
  subst h
  obtain ⟨l2, _, c2⟩ := rdCells1_ok h2
  have hn := rdVerts3_length h1
  refine ⟨⟨hdr, ts1, h0, hn, by simp [setIds_length, l2]⟩, ?_⟩
  exact inRange_of_kinds (nnode := hdr.getD 0 0) hn none_in (setIds_nodes (c2 hfx)) none_in none_in none_in none_in none_in

/-- `.tri` as it is in /repo: vertex 4 of 3 is accepted (finding import-vertex-index-unchecked) -/
theorem tri_index_counterexample :
    (∃ m, decodeTri Fix.none triIndexFile = .ok m ∧ indicesInRange m = false) ∧
    decodeTri Fix.all triIndexFile = .error (.st .failure) := by
  have h1 : (match decodeTri Fix.none triIndexFile with
      | .ok m => !indicesInRange m | .error _ => false) = true := by decide +kernel
  refine ⟨?_, by decide +kernel⟩
  cases hd : decodeTri Fix.none triIndexFile with
  | error e => simp [hd] at h1
  | ok m => exact ⟨m, rfl, by simpa [hd] using h1⟩

theorem fgrid_decode_total (fx : Fix) (ts : List Tok) :
    (∃ m, decodeFgrid fx ts = .ok m) ∨ (∃ e, decodeFgrid fx ts = .error e) := by
  cases h : decodeFgrid fx ts with
  | ok m => exact .inl ⟨m, rfl⟩
  | error e => exact .inr ⟨e, rfl⟩

/-- `.fgrid` with the index test of the proposed repair -/
theorem fgrid_fixed_accepted_indices_in_range {fx : Fix} (hfx : fx.index = true) {ts : List Tok} {m : TMesh}
    (h : decodeFgrid fx ts = .ok m) :
    (∃ hdr r, rdDs 3 ts = .ok (hdr, r) ∧ m.nodes.length = cnt (hdr.getD 0 0) ∧ m.tri.length = cnt (hdr.getD 1 0) ∧
      m.tet.length = cnt (hdr.getD 2 0)) ∧ indicesInRange m = true := by
  unfold decodeFgrid at h
  split at h; · cases h
  rename_i hdr ts1 h0
  simp only at h
  split at h; · cases h
  split at h; · cases h
  rename_i f ts2 h1
  split at h; · cases h
  rename_i tri ts3 h2
  split at h; · cases h
  rename_i tid ts4 h3
  split at h; · cases h
  rename_i tet ts5 h4
  simp only [Except.ok.injEq] at h
  subst h
  obtain ⟨l2, _, c2⟩ := rdCells1_ok h2
  obtain ⟨l4, _, c4⟩ := rdCells1_ok h4
  have hn := vertsOfColumns_length (cnt (hdr.getD 0 0)) f
  refine ⟨⟨hdr, ts1, h0, hn, by simp [setIds_length, l2], l4⟩, ?_⟩
  exact inRange_of_kinds (nnode := hdr.getD 0 0) hn none_in (setIds_nodes (c2 hfx)) none_in (c4 hfx) none_in none_in none_in

theorem surf_decode_total (fx : Fix) (ts : List Tok) :
    (∃ m, decodeSurf fx ts = .ok m) ∨ (∃ e, decodeSurf fx ts = .error e) := by
  cases h : decodeSurf fx ts with
  | ok m => exact .inl ⟨m, rfl⟩
  | error e => exact .inr ⟨e, rfl⟩

/-- `.surf` with the index test of the proposed repair -/
theorem surf_fixed_accepted_indices_in_range {fx : Fix} (hfx : fx.index = true) {ts : List Tok} {m : TMesh}
    (h : decodeSurf fx ts = .ok m) :
    (∃ hdr r, rdDs 3 ts = .ok (hdr, r) ∧ m.nodes.length = cnt (hdr.getD 2 0) ∧ m.tri.length = cnt (hdr.getD 0 0) ∧
      m.qua.length = cnt (hdr.getD 1 0)) ∧ indicesInRange m = true := by
  unfold decodeSurf at h
  split at h; · cases h
  rename_i hdr ts1 h0
  simp only at h
  split at h; · cases h
  rename_i nodes ts2 h1
  split at h; · cases h
  rename_i tri ts3 h2
  split at h; · cases h
  rename_i qua ts4 h3
  simp only [Except.ok.injEq] at h
  subst h
  obtain ⟨l2, _, c2⟩ := rdCells1_ok h2
  obtain ⟨l3, _, c3⟩ := rdCells1_ok h3
  have hn := rdVertsSurf_length h1
  refine ⟨⟨hdr, ts1, h0, hn, l2, l3⟩, ?_⟩
  exact inRange_of_kinds (nnode := hdr.getD 2 0) hn none_in (c2 hfx) (c3 hfx) none_in none_in none_in none_in

theorem fgrid_index_counterexample :
    (∃ m, decodeFgrid Fix.none fgridIndexFile = .ok m ∧ indicesInRange m = false) ∧
    decodeFgrid Fix.all fgridIndexFile = .error (.st .failure) := by
  have h1 : (match decodeFgrid Fix.none fgridIndexFile with
      | .ok m => !indicesInRange m | .error _ => false) = true := by decide +kernel
  refine ⟨?_, by decide +kernel⟩
  cases hd : decodeFgrid Fix.none fgridIndexFile with
  | error e => simp [hd] at h1
  | ok m => exact ⟨m, rfl, by simpa [hd] using h1⟩

theorem surf_index_counterexample :
    (∃ m, decodeSurf Fix.none surfIndexFile = .ok m ∧ indicesInRange m = false) ∧
    decodeSurf Fix.all surfIndexFile = .error (.st .failure) := by
  have h1 : (match decodeSurf Fix.none surfIndexFile with
      | .ok m => !indicesInRange m | .error _ => false) = true := by decide +kernel
  refine ⟨?_, by decide +kernel⟩
  cases hd : decodeSurf Fix.none surfIndexFile with
  | error e => simp [hd] at h1
  | ok m => exact ⟨m, rfl, by simpa [hd] using h1⟩

theorem su2_index_counterexample :
    (∃ m, decodeSu2 Fix.none su2IndexFile = .ok m ∧ indicesInRange m = false) ∧
    decodeSu2 Fix.all su2IndexFile = .error (.st .failure) := by
  have h1 : (match decodeSu2 Fix.none su2IndexFile with
      | .ok m => !indicesInRange m | .error _ => false) = true := by decide +kernel
  refine ⟨?_, by decide +kernel⟩
  cases hd : decodeSu2 Fix.none su2IndexFile with
  | error e => simp [hd] at h1
  | ok m => exact ⟨m, rfl, by simpa [hd] using h1⟩

theorem msh_index_counterexample :
    (∃ m, decodeMsh Fix.none mshIndexFile = .ok m ∧ indicesInRange m = false) ∧
    decodeMsh Fix.all mshIndexFile = .error (.st .failure) := by
  have h1 : (match decodeMsh Fix.none mshIndexFile with
      | .ok m => !indicesInRange m | .error _ => false) = true := by decide +kernel
  refine ⟨?_, by decide +kernel⟩
  cases hd : decodeMsh Fix.none mshIndexFile with
  | error e => simp [hd] at h1
  | ok m => exact ⟨m, rfl, by simpa [hd] using h1⟩

theorem grid_index_counterexample :
    (∃ m, decodeGrid Fix.none gridIndexFile = .ok m ∧ indicesInRange m = false) ∧
    decodeGrid Fix.all gridIndexFile = .error (.st .failure) := by
  have h1 : (match decodeGrid Fix.none gridIndexFile with
      | .ok m => !indicesInRange m | .error _ => false) = true := by decide +kernel
  refine ⟨?_, by decide +kernel⟩
  cases hd : decodeGrid Fix.none gridIndexFile with
  | error e => simp [hd] at h1
  | ok m => exact ⟨m, rfl, by simpa [hd] using h1⟩

/-- `.tri` / `.fgrid`: the vertices are added before anything is read: 2 500 000 declared vertices in a 12-byte file are
    allocated and initialised (finding tri-fgrid-vertices-allocated-before-read); when a vertex is added as it is read the
    same files end in REF_FAILURE at the first missing coordinate -/
theorem prealloc_counterexample :
    decodeTri Fix.none triPreallocFile = .error .bloat ∧ decodeFgrid Fix.none fgridPreallocFile = .error .bloat ∧
    decodeTri Fix.all triPreallocFile = .error (.st .failure) ∧
    decodeFgrid Fix.all fgridPreallocFile = .error (.st .failure) := by
  decide +kernel

/-! ### totality of the remaining reader models -/

theorem su2_decode_total (fx : Fix) (ts : List Tok) :
    (∃ m, decodeSu2 fx ts = .ok m) ∨ (∃ e, decodeSu2 fx ts = .error e) := by
  cases h : decodeSu2 fx ts with
  | ok m => exact .inl ⟨m, rfl⟩
  | error e => exact .inr ⟨e, rfl⟩

theorem msh_decode_total (fx : Fix) (ts : List Tok) :
    (∃ m, decodeMsh fx ts = .ok m) ∨ (∃ e, decodeMsh fx ts = .error e) := by
  cases h : decodeMsh fx ts with
  | ok m => exact .inl ⟨m, rfl⟩
  | error e => exact .inr ⟨e, rfl⟩

theorem grid_decode_total (fx : Fix) (ts : List Tok) :
    (∃ m, decodeGrid fx ts = .ok m) ∨ (∃ e, decodeGrid fx ts = .error e) := by
  cases h : decodeGrid fx ts with
  | ok m => exact .inl ⟨m, rfl⟩
  | error e => exact .inr ⟨e, rfl⟩

theorem fields_decode_total (fx : BFix) (floor : Int) (n nodeMax : Nat) (ranks : List (List Nat)) (bs : Bytes) :
    ((∃ r, partScalarRst fx floor n nodeMax ranks bs = .ok r) ∨ (∃ e, partScalarRst fx floor n nodeMax ranks bs = .error e)) ∧
    ((∃ r, partScalarSnap fx floor n nodeMax ranks bs = .ok r) ∨ (∃ e, partScalarSnap fx floor n nodeMax ranks bs = .error e)) ∧
    ((∃ r, partScalarPlt fx nodeMax bs = .ok r) ∨ (∃ e, partScalarPlt fx nodeMax bs = .error e)) := by
  refine ⟨?_, ?_, ?_⟩
  · cases h : partScalarRst fx floor n nodeMax ranks bs with
    | ok m => exact .inl ⟨m, rfl⟩
    | error e => exact .inr ⟨e, rfl⟩
  · cases h : partScalarSnap fx floor n nodeMax ranks bs with
    | ok m => exact .inl ⟨m, rfl⟩
    | error e => exact .inr ⟨e, rfl⟩
  · cases h : partScalarPlt fx nodeMax bs with
    | ok m => exact .inl ⟨m, rfl⟩
    | error e => exact .inr ⟨e, rfl⟩

/-! ### `.r8.ugrid` -/

theorem r8_decode_total (fx : BFix) (bs : Bytes) :
    (∃ m, decodeR8 fx bs = .ok m) ∨ (∃ e, decodeR8 fx bs = .error e) := by
  cases h : decodeR8 fx bs with
  | ok m => exact .inl ⟨m, rfl⟩
  | error e => exact .inr ⟨e, rfl⟩

/-- `.r8.ugrid`: `nnode * 3 * 8` in `int` with 2^30 declared vertices (finding r8-ugrid-record-size-overflow); formed in
    `long` the same header is refused: the record marker does not match -/
theorem r8_record_counterexample :
    decodeR8 BFix.none r8RecordFile = .error .undefined ∧ decodeR8 BFix.all r8RecordFile = .error .failure := by
  decide +kernel

theorem r8_index_counterexample :
    (∃ m, decodeR8 BFix.none r8IndexFile = .ok m ∧ indicesInRange m = false) ∧
    decodeR8 BFix.all r8IndexFile = .error .failure := by
  have h1 : (match decodeR8 BFix.none r8IndexFile with
      | .ok m => !indicesInRange m | .error _ => false) = true := by decide +kernel
  refine ⟨?_, by decide +kernel⟩
  cases hd : decodeR8 BFix.none r8IndexFile with
  | error e => simp [hd] at h1
  | ok m => exact ⟨m, rfl, by simpa [hd] using h1⟩

/-! ### `.rst`, `.snap`, `.plt` -/

/-- the four `.rst` witnesses on a 4-vertex grid, one rank (finding rst-header-counts-trusted): `dof` = 10^8 sizes and
    initialises 800 MB before the first read; `variables * steps` and `variables * chunk` leave `int`; without variables
    the vertex loop runs `steps × dof` = 8.6e9 times reading nothing.  With the header tested against the bytes present
    all four are REF_FAILURE. -/
theorem rst_counterexample :
    partScalarRst BFix.none 100000 4 20 [[0, 1, 2, 3]] rstDofFile = .error .bloat ∧
    partScalarRst BFix.none 100000 4 20 [[0, 1, 2, 3]] rstLdimFile = .error (.st .undefined) ∧
    partScalarRst BFix.none 100000 4 20 [[0, 1, 2, 3]] rstChunkFile = .error (.st .undefined) ∧
    partScalarRst BFix.none 100000 4 20 [[0, 1, 2, 3]] rstIdleFile = .error (.st .diverge) ∧
    partScalarRst BFix.all 100000 4 20 [[0, 1, 2, 3]] rstDofFile = .error (.st .failure) ∧
    partScalarRst BFix.all 100000 4 20 [[0, 1, 2, 3]] rstLdimFile = .error (.st .failure) ∧
    partScalarRst BFix.all 100000 4 20 [[0, 1, 2, 3]] rstChunkFile = .error (.st .failure) ∧
    (∃ r, partScalarRst BFix.all 100000 4 20 [[0, 1, 2, 3]] rstIdleFile = .ok (0, r)) := by
  refine ⟨by decide +kernel, by decide +kernel, by decide +kernel, by decide +kernel, by decide +kernel, by decide +kernel,
    by decide +kernel, ⟨[[[], [], [], []]], by decide +kernel⟩⟩

/-- `.snap`: 2·10^8 declared fields: `ldim * ref_node_max` leaves `int` (finding snap-field-count-trusted) -/
theorem snap_fields_counterexample :
    partScalarSnap BFix.none 100000 4 20 [[0, 1, 2, 3]] snapFieldsFile = .error (.st .undefined) ∧
    partScalarSnap BFix.all 100000 4 20 [[0, 1, 2, 3]] snapFieldsFile = .error (.st .failure) := by
  decide +kernel

/-- `.plt`: a zone declaring 2^30 points with 4 variables: `nvar * nnode` leaves `int` (finding plt-zone-size-trusted) -/
theorem plt_numpts_counterexample :
    partScalarPlt BFix.none 20 pltNumptsFile = .error (.st .undefined) ∧
    partScalarPlt BFix.all 20 pltNumptsFile = .error (.st .failure) := by
  decide +kernel

/-- `.snap` on two or more ranks: the vertex count of a field is broadcast as a 4-byte integer into an 8-byte variable
    (finding snap-nnode-bcast-as-int): the model has no status — the ranks leave the collective sequence -/
theorem snap_bcast_counterexample :
    partScalarSnap BFix.none 100000 1 20 [[0], []] snapOkFile = .error (.st .undefined) ∧
    partScalarSnap BFix.none 100000 1 20 [[0]] snapOkFile = .ok (1, [[[0x3ff0000000000000]]]) ∧
    partScalarSnap BFix.all 100000 1 20 [[0], []] snapOkFile = .ok (1, [[[0x3ff0000000000000]], []]) := by
  decide +kernel

/-- `.r8.ugrid` with the index test of the proposed repair: accepted ⇒ exactly the declared vertices, indices in range -/
theorem r8_fixed_accepted_indices_in_range {fx : BFix} (hfx : fx.r8 = true) {bs : Bytes} {m : TMesh}
    (h : decodeR8 fx bs = .ok m) : indicesInRange m = true := by
  unfold decodeR8 at h
  split at h; · cases h
  rename_i rec0 s0 h0
  split at h; · cases h
  split at h; · cases h
  rename_i hdr s1 h1
  split at h; · cases h
  rename_i rec1 s2 h2
  split at h; · cases h
  split at h; · cases h
  rename_i rec2 s3 h3
  simp only at h
  split at h; · cases h
  split at h; · cases h
  split at h; · cases h
  rename_i nodes s4 h4
  split at h; · cases h
  rename_i tri s5 h5
  split at h; · cases h
  rename_i qua s6 h6
  split at h; · cases h
  rename_i tid s7 h7
  split at h; · cases h
  rename_i qid s8 h8
  split at h; · cases h
  rename_i tet s9 h9
  split at h; · cases h
  rename_i pyr s10 h10
  split at h; · cases h
  rename_i pri s11 h11
  split at h; · cases h
  rename_i hex s12 h12
  split at h; · cases h
  rename_i rec3 s13 h13
  split at h; · cases h
  simp only [Except.ok.injEq] at h
  subst h
  have hn := (Refine.Lemmas.Ugrid.rdVerts_len h4).1
  have c5 := (r8Cells_ok h5).2 hfx
  have c6 := (r8Cells_ok h6).2 hfx
  have c9 := (r8Cells_ok h9).2 hfx
  have c10 := (r8Cells_ok h10).2 hfx
  have c11 := (r8Cells_ok h11).2 hfx
  have c12 := (r8Cells_ok h12).2 hfx
  exact inRange_of_kinds (nnode := hdr.getD 0 0) hn none_in (setIds_nodes c5) (setIds_nodes c6) c9 c10 c11 c12

/-- **accepted_counts_fit**, `.rst` with the proposed header test: an accepted read has no negative count, at least one
    step, and — when there are variables — `variables × steps × dof` doubles after the header -/
theorem rst_fixed_accepted_counts_fit {fx : BFix} (hfx : fx.rst = true) {floor : Int} {n nodeMax : Nat}
    {ranks : List (List Nat)} {bs : Bytes} {r : Int × List (List Refine.Model.Sol.Row)}
    (h : partScalarRst fx floor n nodeMax ranks bs = .ok r) :
    ∃ hd s, rstHeader bs = .ok (hd, s) ∧ 0 ≤ hd.variables ∧ 1 ≤ hd.steps ∧ 0 ≤ hd.dof ∧ (n : Int) ≤ hd.dof ∧
      (hd.variables = 0 ∨ hd.variables * hd.steps * hd.dof * 8 ≤ (s.length : Int)) := by
  unfold partScalarRst at h
  split at h; · cases h
  rename_i hd ldim chunk s hp
  unfold rstPlan at hp
  split at hp; · cases hp
  rename_i hd' s' hh
  rw [hfx] at hp
  simp only [true_and] at hp
  split at hp; · cases hp
  rename_i hfit
  split at hp; · cases hp
  rename_i hdof
  split at hp; · cases hp
  split at hp; · cases hp
  split at hp; · cases hp
  split at hp; · cases hp
  simp only [Except.ok.injEq, Prod.mk.injEq] at hp
  obtain ⟨rfl, _, _, rfl⟩ := hp
  have hfit' : rstCountsFit hd' (s'.length : Int) = true := by simpa using hfit
  unfold rstCountsFit at hfit'
  simp only [Bool.and_eq_true, Bool.or_eq_true, decide_eq_true_eq, beq_iff_eq] at hfit'
  obtain ⟨⟨hv, hs, hd0⟩, hrest⟩ := hfit'
  refine ⟨hd', s', hh, hv, hs, hd0, by omega, ?_⟩
  rcases hrest with h0 | ⟨⟨h1, h2⟩, h3⟩
  · exact .inl h0
  · right
    by_cases hvz : hd'.variables = 0
    · rw [hvz]; simp
    · have hvpos : 0 < hd'.variables := by omega
      have hspos : 0 < hd'.steps := by omega
      have e1 := mul_le_of_le_ediv hspos h3
      have e2 := mul_le_of_le_ediv hvpos (le_trans e1 (le_refl _))
      have e3 : hd'.dof * hd'.steps * hd'.variables * 8 ≤ (s'.length : Int) / 8 * 8 := by
        have := Int.mul_le_mul_of_nonneg_right e2 (by norm_num : (0 : Int) ≤ 8)
        simpa using this
      have e4 : (s'.length : Int) / 8 * 8 ≤ (s'.length : Int) := Int.ediv_mul_le _ (by norm_num)
      have e5 : hd'.variables * hd'.steps * hd'.dof * 8 = hd'.dof * hd'.steps * hd'.variables * 8 := by ring
      omega

/-- `.snap` with the proposed test: the declared number of fields is covered by the bytes present (a field needs more
    than 8 bytes) and is what `ldim` holds -/
theorem snap_fixed_fields_fit {fx : BFix} (hfx : fx.snap = true) {nodeMax : Nat} {bs : Bytes} {ver : Nat} {ldim : Int}
    {s : Bytes} (h : snapPlan fx nodeMax bs = .ok (ver, ldim, s)) (hlen : bs.length < 2 ^ 34) :
    0 ≤ ldim ∧ ldim * 8 ≤ (s.length : Int) := by
  unfold snapPlan at h
  split at h; · cases h
  rename_i v s1 h1
  split at h; · cases h
  split at h; · cases h
  rename_i nf s2 h2
  rw [hfx] at h
  simp only [true_and] at h
  split at h; · cases h
  rename_i hfit
  split at h; · cases h
  simp only [Except.ok.injEq, Prod.mk.injEq] at h
  obtain ⟨_, rfl, rfl⟩ := h
  have hnf : nf ≤ s2.length / 8 := by simpa using hfit
  have hs2 : s2.length ≤ bs.length := by
    obtain ⟨a1, e1, l1, _⟩ := Refine.Lemmas.Codec.rdU_ok h1
    obtain ⟨a2, e2, l2, _⟩ := Refine.Lemmas.Codec.rdU_ok h2
    rw [e1, e2]
    simp only [List.length_append]
    omega
  have hsmall : nf < 2 ^ 31 := by omega
  have hw : Refine.Model.Meshb.wrap32 (nf : Int) = nf :=
    Refine.Lemmas.Codec.wrap32_of_int32 (by unfold Refine.Model.Meshb.int32; constructor <;> omega)
  rw [hw]
  constructor
  · omega
  · have := Nat.div_mul_le_self s2.length 8
    omega

/-! ### `.msh`: the keyword buffer -/

/-- finding msh-token-buffer-overflow: the witness file is one 1024-character piece -/
theorem msh_token_counterexample : decodeMsh Fix.none mshTokenFile = .error (.st .undefined) :=
  msh_long_token _ (by rw [String.length_ofList, List.length_replicate])

/-- with `%1023s` the conversion never overruns the buffer, whatever the file holds -/
theorem msh_fixed_token_safe (fx : Fix) (h : fx.token = true) (ts : List Tok) :
    scanS fx ts ≠ .error (.st .undefined) := by
  unfold scanS
  split
  · simp
  · split
    · split <;> simp
    · simp

/-! ### `.mapbc` -/

theorem mapbc_decode_total (ts : List Tok) :
    (∃ d, readMapbc ts = .ok d) ∨ (∃ e, readMapbc ts = .error e) := by
  cases h : readMapbc ts with
  | ok m => exact .inl ⟨m, rfl⟩
  | error e => exact .inr ⟨e, rfl⟩

/-- **accepted_counts_fit**, `.mapbc`: an accepted map holds the declared number of `id type` lines (a count the file does
    not back — missing lines, 2^31-1, 10^10 — ends in REF_FAILURE at the first missing number; names are read by a
    bounded `fgets` and never stored) -/
theorem mapbc_accepted_counts_fit {ts : List Tok} {es : List (Int × Int)} (h : mapbcPairs ts = .ok es) :
    ∃ l rest n, firstLine ts [] = some (l, rest) ∧ lineD l = .ok n ∧ es.length = cnt n := by
  unfold mapbcPairs at h
  split at h; · cases h
  rename_i l rest hf
  split at h; · cases h
  split at h; · cases h
  rename_i n hn
  exact ⟨l, rest, n, hf, hn, mapbcEntries_length h⟩

/-- **mapbc_walls_spec** (what C12 relies on): the boundaries `ref distance` measures from are exactly the ids whose LAST
    line in the map carries one of the viscous codes of `ref_phys_wall_distance_bc` -/
theorem mapbc_walls_spec {ts : List Tok} {d : List (Int × Int)} (h : readMapbc ts = .ok d) :
    ∃ es, mapbcPairs ts = .ok es ∧ ∀ id, id ∈ walls d ↔ ∃ c, lastCode es id = some c ∧ isWall c = true := by
  unfold readMapbc at h
  split at h; · cases h
  rename_i es hes
  simp only [Except.ok.injEq] at h
  refine ⟨es, hes, fun id => ?_⟩
  have hsorted : Sorted d := by rw [← h]; exact fold_sorted es (d := []) trivial
  have hlook : ∀ k, lookup d k = lastCode es k := by
    intro k
    rw [← h, lookup_fold]
    simp [lookup]
  unfold walls
  simp only [List.mem_map, List.mem_filter]
  constructor
  · rintro ⟨⟨k, v⟩, ⟨hin, hw⟩, rfl⟩
    exact ⟨v, by rw [← hlook]; exact (mem_iff_lookup hsorted k v).mp hin, hw⟩
  · rintro ⟨c, hc, hw⟩
    exact ⟨(id, c), ⟨(mem_iff_lookup hsorted id c).mpr (by rw [hlook]; exact hc), hw⟩, rfl⟩

/-- non-vacuity: a three-line map with a repeated id; boundary 2 is a wall (code 4000 on its last line), 7 is not -/
example : readMapbc [.int 3, .nl, .int 2, .int 5000, .word "farfield", .nl, .int 7, .int 3000, .word "inflow", .nl,
    .int 2, .int 4000, .word "wall", .nl] = .ok [(2, 4000), (7, 3000)] ∧ walls [(2, 4000), (7, 3000)] = [2] := by
  decide +kernel

/-- **no hazard in the `.mapbc` reader**: 5000-character names, a declared count of 2^31-1 or 10^10, missing lines, words
    where numbers belong — every malformed map is refused with REF_FAILURE (or is outside the token abstraction:
    `fgets` lines longer than the buffer, `%d` applied to a `%.17g` text); the model has no `undefined`, `bloat`, `null`
    or `diverge` outcome for it -/
theorem mapbc_no_hazard {ts : List Tok} {e : Err} (h : readMapbc ts = .error e) : Benign e := by
  unfold readMapbc at h
  split at h
  · rename_i e' he
    cases h
    unfold mapbcPairs at he
    split at he
    · cases he; exact .inl rfl
    · split at he
      · cases he; exact .inr rfl
      · split at he
        · rename_i e'' hl; cases he; exact lineD_err hl
        · exact mapbcEntries_err he
  · cases h

end Refine.Props.C20Formats
