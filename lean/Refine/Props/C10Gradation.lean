import Refine.Lemmas.Gradation
import Refine.Lemmas.GradationEx
import Refine.Lemmas.MetricLimit2
import Refine.Props.C10

/-!
  C10, the gradation part — the edge sweeps `ref_metric_metric_space_gradation`,
  `ref_metric_mixed_space_gradation` and the relaxation loop of `ref_metric_gradation_at_complexity`.

  All theorems are about the executable model `Refine/Model/Gradation.lean` (bit-compared with the C through
  `refdrv gradation` / `harness/h_gradation.c`) at the lawful real instance: exact arithmetic; rounding is
  modelled (the `Float` instance), not verified.

  Eigen-decomposition hypotheses.  `ref_matrix_intersect` goes through two `ref_matrix_diag_m` calls whose QL
  iteration stops on a threshold; `Props/C16` therefore states its intersect theorems under
  `InnerExact m1 m2 s is d1 d2` (both inner decompositions succeeded and are exact).  A sweep makes many such calls
  on intermediate values, so the hypothesis here is a predicate that walks the *same* fold as the executable sweep
  and asks `CallExact m1 m2 := ∃ s is d1 d2, InnerExact m1 m2 s is d1 d2` for exactly the write-back calls
  `intersect(metric[node], limited, metric[node])` that are made (`FoldExact`, `SweepsExact`, `MixedFoldExact`,
  `GacLoopOk`); nothing is assumed about calls that are not made, about the inner `limited` calls, or about
  `diagM` in general.  A refused call (`continue` / skipped end) leaves the field as it is.

  (1) `gradationSweep_ge_input`, `mixedSweep_ge_input`: after any number of sweeps over ANY edge list every
      vertex tensor dominates its input in the Loewner order — gradation only refines.
  (2) `gradationSweep_spd`, `mixedSweep_spd`: hence SPD input fields stay SPD.
  (3) `limitMS_spd`, `limitMS_le`: for `r ≥ 1` the limit metric is a positive multiple `≤ 1` of the neighbour's
      metric (the coded factor `(1 + sqrt(eᵀMe)·log r)^-2`).
  (4) `gradationSweep_twod_embed`: the embedding block after the sweep returns embedded tensors, keeps SPD, and
      keeps dominance over an embedded input.
  (6) `limitAspectRatio2_spd_embedded`, `limitAspectRatio2_field_embedded`: the 2-D aspect-ratio limiter.
  (7) `localScale_exponent_dim`, `localScale_det3`, `localScale_det2`, `lp_front_spd`, `lpChain_complexity`: the Lp
      exponent matches the dimension; the stages of `ref_metric_lp` after the reconstruction.
  (5) `gacLoop_spd`, `gacLoop_embedded`, `gradation_at_complexity_final`: through any number of relaxations the
      field stays SPD (and embedded in 2-D); the function ends with the `setComplexity` block, so by
      `Props/C10.setComplexity_exact` the output complexity equals the target, whatever the relaxations did.
-/
namespace Refine.Props.C10Gradation
open Refine Refine.Scalar Refine.ScalarReal Refine.Model.Matrix Refine.Model.Metric Refine.Model.Gradation
open Refine.Model.Recon (Cell)
open Refine.Model.Geom (V3)

/-! ### (1), (2) metric-space gradation -/

/-- **gradation only refines.**  After `k` calls of `ref_metric_metric_space_gradation` over any edge list, every
    vertex tensor dominates the tensor the vertex had at entry: `xᵀ M' x ≥ xᵀ M x` for all x. -/
theorem gradationSweep_ge_input (xyz : List (V3 ℝ)) (r : ℝ) (edges : List (Nat × Nat)) (k : Nat) (metric : List (M6 ℝ))
    (H : SweepsExact xyz r edges k metric) :
    (msSweeps xyz r edges k metric).length = metric.length ∧
    ∀ i (x : Vec3 ℝ), vtMv (mAt metric i) x ≤ vtMv (mAt (msSweeps xyz r edges k metric) i) x := by
  suffices h : FieldLe metric (msSweeps xyz r edges k metric) from ⟨h.1.symm, fun i x => h.2 i x⟩
  induction k generalizing metric with
  | zero => exact FieldLe.refl _
  | succ k ih =>
    unfold msSweeps
    have h1 : FieldLe metric (msSweep xyz r edges metric) := msFold_ge edges metric H.1
    exact h1.trans (ih _ H.2)

/-- **SPD is kept.**  If every input tensor is SPD then after any number of sweeps over any edge list every
    tensor is SPD. -/
theorem gradationSweep_spd (xyz : List (V3 ℝ)) (r : ℝ) (edges : List (Nat × Nat)) (k : Nat) (metric : List (M6 ℝ))
    (H : SweepsExact xyz r edges k metric) (hspd : ∀ m ∈ metric, SPD m) :
    ∀ m ∈ msSweeps xyz r edges k metric, SPD m := by
  have h := gradationSweep_ge_input xyz r edges k metric H
  exact FieldLe.spd ⟨h.1.symm, fun i x => h.2 i x⟩ hspd

/-- the same for the function as called (`ref_edge` list of the grid, one call) -/
theorem metricSpaceGradation_spd_ge (xyz : List (V3 ℝ)) (cells : List Cell) (metric : List (M6 ℝ)) (r : ℝ)
    (H : FoldExact xyz (Real.log r) metric metric (edgeList cells)) (hspd : ∀ m ∈ metric, SPD m) :
    (∀ m ∈ metricSpaceGradation xyz cells metric r, SPD m) ∧
    ∀ i (x : Vec3 ℝ), vtMv (mAt metric i) x ≤ vtMv (mAt (metricSpaceGradation xyz cells metric r) i) x := by
  have H1 : SweepsExact xyz r (edgeList cells) 1 metric := ⟨H, trivial⟩
  exact ⟨gradationSweep_spd xyz r (edgeList cells) 1 metric H1 hspd,
         (gradationSweep_ge_input xyz r (edgeList cells) 1 metric H1).2⟩

/-! ### (3) the limit metric -/

/-- the coded enlargement factor is in `(0, 1]` for `r ≥ 1` -/
theorem enlarge_pos_le_one {r ratio : ℝ} (hr : 1 ≤ r) (hratio : 0 ≤ ratio) :
    0 < (1 + ratio * Real.log r) ^ ((-2 : ℤ) : ℝ) ∧ (1 + ratio * Real.log r) ^ ((-2 : ℤ) : ℝ) ≤ 1 := by
  have hl : 0 ≤ Real.log r := Real.log_nonneg hr
  have hb : 1 ≤ 1 + ratio * Real.log r := by nlinarith [mul_nonneg hratio hl]
  refine ⟨Real.rpow_pos_of_pos (by linarith) _, ?_⟩
  apply Real.rpow_le_one_of_one_le_of_nonpos hb
  norm_num

/-- for `r ≥ 1` the limit metric of an SPD neighbour is SPD ("positive scaling of SPD is SPD") -/
theorem limitMS_spd {r : ℝ} (hr : 1 ≤ r) {m : M6 ℝ} (dir : Vec3 ℝ) (h : SPD m) : SPD (limitMS (Real.log r) m dir) := by
  unfold limitMS sqrtVtMv
  simp only [pow_eq, add_eq, mul_eq, one_eq, sqrt_eq, ofInt_eq]
  exact scaleM_spd (enlarge_pos_le_one hr (Real.sqrt_nonneg _)).1 h

/-- for `r ≥ 1` the limit metric is no finer than the neighbour's metric: the neighbour's size may grow with distance -/
theorem limitMS_le {r : ℝ} (hr : 1 ≤ r) {m : M6 ℝ} (dir : Vec3 ℝ) (h : SPD m) (x : Vec3 ℝ) :
    vtMv (limitMS (Real.log r) m dir) x ≤ vtMv m x := by
  unfold limitMS sqrtVtMv
  simp only [pow_eq, add_eq, mul_eq, one_eq, sqrt_eq, ofInt_eq]
  rw [vtMv_scaleM]
  have hq : 0 ≤ vtMv m x := by
    by_cases hx : x.x ≠ 0 ∨ x.y ≠ 0 ∨ x.z ≠ 0
    · exact (h x hx).le
    · simp only [not_or, not_not] at hx
      obtain ⟨h1, h2, h3⟩ := hx
      simp only [vtMv, mul_eq, add_eq, h1, h2, h3]
      norm_num
  have := (enlarge_pos_le_one hr (Real.sqrt_nonneg (vtMv m dir))).2
  nlinarith

/-! ### (1), (2) mixed-space gradation -/

/-- exactness along `k` consecutive calls of the mixed-space sweep -/
def MixedSweepsExact (xyz : List (V3 ℝ)) (r t : ℝ) (edges : List (Nat × Nat)) : Nat → List (M6 ℝ) → Prop
  | 0, _ => True
  | k + 1, metric =>
    MixedFoldExact xyz (Real.log (mixedR r)) (mixedT t) metric metric edges ∧
    ∀ metric1, mixedSweep xyz r t edges metric = .ok metric1 → MixedSweepsExact xyz r t edges k metric1

/-- the mixed-space sweep only refines, for any edge list and any number of calls -/
theorem mixedSweep_ge_input (xyz : List (V3 ℝ)) (r t : ℝ) (edges : List (Nat × Nat)) (k : Nat) (metric out : List (M6 ℝ))
    (H : MixedSweepsExact xyz r t edges k metric) (h : mixedSweeps xyz r t edges k metric = .ok out) :
    out.length = metric.length ∧ ∀ i (x : Vec3 ℝ), vtMv (mAt metric i) x ≤ vtMv (mAt out i) x := by
  suffices hh : FieldLe metric out from ⟨hh.1.symm, fun i x => hh.2 i x⟩
  induction k generalizing metric with
  | zero =>
    unfold mixedSweeps at h
    injection h with h
    subst h
    exact FieldLe.refl _
  | succ k ih =>
    unfold mixedSweeps at h
    cases h1 : mixedSweep xyz r t edges metric with
    | error e => rw [h1] at h; cases h
    | ok metric1 =>
      rw [h1] at h
      have g1 : FieldLe metric metric1 := mixedFold_ge edges metric metric1 H.1 h1
      exact g1.trans (ih metric1 (H.2 metric1 h1) h)

/-- the mixed-space sweep keeps SPD -/
theorem mixedSweep_spd (xyz : List (V3 ℝ)) (r t : ℝ) (edges : List (Nat × Nat)) (k : Nat) (metric out : List (M6 ℝ))
    (H : MixedSweepsExact xyz r t edges k metric) (h : mixedSweeps xyz r t edges k metric = .ok out)
    (hspd : ∀ m ∈ metric, SPD m) : ∀ m ∈ out, SPD m := by
  have hh := mixedSweep_ge_input xyz r t edges k metric out H h
  exact FieldLe.spd ⟨hh.1.symm, fun i x => hh.2 i x⟩ hspd

/-! ### (4) the planar embedding after the sweep -/

/-- the embedding block that follows every sweep in `ref_metric_gradation_at_complexity` (2-D grids): every tensor
    is embedded (`m13 = m23 = 0`, `m33 = 1` exactly), SPD is kept, and dominance over an embedded input is kept -/
theorem gradationSweep_twod_embed (metric swept : List (M6 ℝ)) :
    (∀ m ∈ reEmbed true swept, IsEmbedded m) ∧
    ((∀ m ∈ swept, SPD m) → ∀ m ∈ reEmbed true swept, SPD m) ∧
    ((∀ m ∈ metric, IsEmbedded m) → FieldLe metric swept → FieldLe metric (reEmbed true swept)) := by
  unfold reEmbed embed2d
  simp only [if_true]
  refine ⟨?_, ?_, ?_⟩
  · intro m hm
    obtain ⟨m0, _, rfl⟩ := List.mem_map.mp hm
    exact twodM_embedded m0
  · intro hs m hm
    obtain ⟨m0, hm0, rfl⟩ := List.mem_map.mp hm
    exact twodM_spd (hs m0 hm0)
  · intro he hle
    exact fieldLe_map_twodM he hle

/-- in 3-D the block is the identity -/
theorem reEmbed_false (swept : List (M6 ℝ)) : reEmbed false swept = swept := by
  unfold reEmbed; simp

/-! ### (5) the relaxation loop and the final rescale -/

/-- exactness for the sweep selected by `gradation` (`< 1`: mixed-space with its defaults; else metric-space) -/
def GacSweepExact (xyz : List (V3 ℝ)) (edges : List (Nat × Nat)) (gradation : ℝ) (metric : List (M6 ℝ)) : Prop :=
  if Scalar.lt gradation (Scalar.one : ℝ) = true then
    MixedFoldExact xyz (Real.log (mixedR (Scalar.ofInt (-1)))) (mixedT (Scalar.ofInt (-1))) metric metric edges
  else FoldExact xyz (Real.log gradation) metric metric edges

/-- the hypotheses along `n` relaxations: a positive current complexity at each rescale (so that the factor is
    positive) and exactness of the write-back calls of each sweep — walking the same loop as `gacLoop` -/
def GacLoopOk (twod : Bool) (owned : Nat → Bool) (xyz : List (V3 ℝ)) (cells : List Cell) (edges : List (Nat × Nat))
    (gradation target : ℝ) : Nat → List (M6 ℝ) → Prop
  | 0, _ => True
  | n + 1, metric =>
    0 < complexity owned xyz metric cells ∧
    (∀ scaled, setComplexity twod owned xyz metric cells target = .ok scaled → GacSweepExact xyz edges gradation scaled) ∧
    (∀ metric1, gacRelax twod owned xyz cells edges gradation target metric = .ok metric1 →
      GacLoopOk twod owned xyz cells edges gradation target n metric1)

theorem gacSweep_ge {xyz : List (V3 ℝ)} {edges : List (Nat × Nat)} {gradation : ℝ} {metric out : List (M6 ℝ)}
    (H : GacSweepExact xyz edges gradation metric) (h : gacSweep xyz edges gradation metric = .ok out) :
    FieldLe metric out := by
  unfold gacSweep at h
  unfold GacSweepExact at H
  by_cases hg : Scalar.lt gradation (Scalar.one : ℝ) = true
  · rw [if_pos hg] at h H
    exact mixedFold_ge edges metric out H h
  · rw [if_neg hg] at h H
    injection h with h
    subst h
    exact msFold_ge edges metric H

/-- one relaxation (rescale, sweep, embedding) keeps SPD -/
theorem gacRelax_spd (twod : Bool) (owned : Nat → Bool) (xyz : List (V3 ℝ)) (cells : List Cell) (edges : List (Nat × Nat))
    (gradation target : ℝ) (metric out : List (M6 ℝ)) (ht : 0 < target)
    (hc : 0 < complexity owned xyz metric cells)
    (H : ∀ scaled, setComplexity twod owned xyz metric cells target = .ok scaled → GacSweepExact xyz edges gradation scaled)
    (h : gacRelax twod owned xyz cells edges gradation target metric = .ok out)
    (hspd : ∀ m ∈ metric, SPD m) : ∀ m ∈ out, SPD m := by
  unfold gacRelax at h
  cases h1 : setComplexity twod owned xyz metric cells target with
  | error e => rw [h1] at h; cases h
  | ok scaled =>
    rw [h1] at h
    dsimp only at h
    cases h2 : gacSweep xyz edges gradation scaled with
    | error e => rw [h2] at h; cases h
    | ok swept =>
      rw [h2] at h
      injection h with h
      subst h
      have s1 : ∀ m ∈ scaled, SPD m := Refine.Props.C10.setComplexity_spd twod owned xyz metric scaled cells target h1 hc ht hspd
      have s2 : ∀ m ∈ swept, SPD m := FieldLe.spd (gacSweep_ge (H scaled h1) h2) s1
      cases twod with
      | false => rw [reEmbed_false]; exact s2
      | true => exact (gradationSweep_twod_embed [] swept).2.1 s2

/-- **through any number of relaxations the field stays SPD** -/
theorem gacLoop_spd (twod : Bool) (owned : Nat → Bool) (xyz : List (V3 ℝ)) (cells : List Cell) (edges : List (Nat × Nat))
    (gradation target : ℝ) (n : Nat) (metric g : List (M6 ℝ)) (ht : 0 < target)
    (H : GacLoopOk twod owned xyz cells edges gradation target n metric)
    (h : gacLoop twod owned xyz cells edges gradation target n metric = .ok g)
    (hspd : ∀ m ∈ metric, SPD m) : ∀ m ∈ g, SPD m := by
  induction n generalizing metric with
  | zero =>
    unfold gacLoop at h
    injection h with h
    subst h
    exact hspd
  | succ n ih =>
    unfold gacLoop at h
    cases h1 : gacRelax twod owned xyz cells edges gradation target metric with
    | error e => rw [h1] at h; cases h
    | ok metric1 =>
      rw [h1] at h
      exact ih metric1 (H.2.2 metric1 h1) h
        (gacRelax_spd twod owned xyz cells edges gradation target metric metric1 ht H.1 H.2.1 h1 hspd)

/-- one relaxation on a 2-D grid returns embedded tensors (the embedding block is its last statement) -/
theorem gacRelax_embedded (owned : Nat → Bool) (xyz : List (V3 ℝ)) (cells : List Cell) (edges : List (Nat × Nat))
    (gradation target : ℝ) (metric out : List (M6 ℝ))
    (h : gacRelax true owned xyz cells edges gradation target metric = .ok out) : ∀ m ∈ out, IsEmbedded m := by
  unfold gacRelax at h
  cases h1 : setComplexity true owned xyz metric cells target with
  | error e => rw [h1] at h; cases h
  | ok scaled =>
    rw [h1] at h
    dsimp only at h
    cases h2 : gacSweep xyz edges gradation scaled with
    | error e => rw [h2] at h; cases h
    | ok swept =>
      rw [h2] at h
      injection h with h
      subst h
      exact (gradationSweep_twod_embed [] swept).1

/-- on a 2-D grid the loop returns embedded tensors from an embedded input (after at least one relaxation: from any input) -/
theorem gacLoop_embedded (owned : Nat → Bool) (xyz : List (V3 ℝ)) (cells : List Cell) (edges : List (Nat × Nat))
    (gradation target : ℝ) (n : Nat) (metric g : List (M6 ℝ))
    (h : gacLoop true owned xyz cells edges gradation target n metric = .ok g)
    (hemb : ∀ m ∈ metric, IsEmbedded m) : ∀ m ∈ g, IsEmbedded m := by
  induction n generalizing metric with
  | zero =>
    unfold gacLoop at h
    injection h with h
    subst h
    exact hemb
  | succ n ih =>
    unfold gacLoop at h
    cases h1 : gacRelax true owned xyz cells edges gradation target metric with
    | error e => rw [h1] at h; cases h
    | ok metric1 =>
      rw [h1] at h
      exact ih metric1 h (gacRelax_embedded owned xyz cells edges gradation target metric metric1 h1)

/-- what a successful `ref_metric_gradation_at_complexity` is: some field `g` left by the relaxations, then `setComplexity` -/
theorem gradationAtComplexity_split {twod : Bool} {owned : Nat → Bool} {xyz : List (V3 ℝ)} {cells : List Cell}
    {edges : List (Nat × Nat)} {n : Nat} {gradation target : ℝ} {metric out : List (M6 ℝ)}
    (h : gradationAtComplexityWith twod owned xyz cells edges n gradation target metric = .ok out) :
    ∃ g, gacLoop twod owned xyz cells edges gradation target n metric = .ok g ∧
         setComplexity twod owned xyz g cells target = .ok out := by
  unfold gradationAtComplexityWith at h
  cases h1 : gacLoop twod owned xyz cells edges gradation target n metric with
  | error e => rw [h1] at h; cases h
  | ok g => rw [h1] at h; exact ⟨g, rfl, h⟩

/-- **the requested complexity is met.**  Whatever the relaxations did (any edge list, any number `n` of them, in
    particular the 20 of the C over the `ref_edge` list), the last step is the `setComplexity` block, so the returned
    field has complexity exactly `target`, and on a 2-D grid every tensor is embedded.  Hypotheses: positive target;
    the field `g` left by the relaxations has positive complexity; the exponent matches the quadrature (`hdim`);
    in 2-D the input is embedded (needed only for `n = 0`). -/
theorem gradation_at_complexity_final (twod : Bool) (owned : Nat → Bool) (xyz : List (V3 ℝ)) (cells : List Cell)
    (edges : List (Nat × Nat)) (n : Nat) (gradation target : ℝ) (metric out : List (M6 ℝ))
    (h : gradationAtComplexityWith twod owned xyz cells edges n gradation target metric = .ok out)
    (ht : 0 < target)
    (hc : ∀ g, gacLoop twod owned xyz cells edges gradation target n metric = .ok g → 0 < complexity owned xyz g cells)
    (hdim : twod = !(haveVolCells owned cells))
    (hemb : twod = true → ∀ m ∈ metric, IsEmbedded m) :
    complexity owned xyz out cells = target ∧ (twod = true → ∀ m ∈ out, IsEmbedded m) := by
  obtain ⟨g, hg, hs⟩ := gradationAtComplexity_split h
  refine Refine.Props.C10.gradation_final_rescale_exact twod owned xyz g out cells target hs (hc g hg) ht hdim ?_
  intro htw
  subst htw
  exact gacLoop_embedded owned xyz cells edges gradation target n metric g hg (hemb rfl)

/-- the same for the function as called by `ref_metric_lp`: 20 relaxations over the `ref_edge` list -/
theorem gradationAtComplexity_final (twod : Bool) (owned : Nat → Bool) (xyz : List (V3 ℝ)) (cells : List Cell)
    (gradation target : ℝ) (metric out : List (M6 ℝ))
    (h : gradationAtComplexity twod owned xyz cells gradation target metric = .ok out)
    (ht : 0 < target)
    (hc : ∀ g, gacLoop twod owned xyz cells (edgeList cells) gradation target 20 metric = .ok g →
      0 < complexity owned xyz g cells)
    (hdim : twod = !(haveVolCells owned cells))
    (hemb : twod = true → ∀ m ∈ metric, IsEmbedded m) :
    complexity owned xyz out cells = target ∧ (twod = true → ∀ m ∈ out, IsEmbedded m) :=
  gradation_at_complexity_final twod owned xyz cells (edgeList cells) 20 gradation target metric out h ht hc hdim hemb

/-- **the output of `ref_metric_gradation_at_complexity` is SPD** at every vertex, given an SPD input, a positive target,
    positive complexities at the rescales and exact write-back decompositions along the loop -/
theorem gradation_at_complexity_spd (twod : Bool) (owned : Nat → Bool) (xyz : List (V3 ℝ)) (cells : List Cell)
    (edges : List (Nat × Nat)) (n : Nat) (gradation target : ℝ) (metric out : List (M6 ℝ))
    (h : gradationAtComplexityWith twod owned xyz cells edges n gradation target metric = .ok out)
    (ht : 0 < target)
    (H : GacLoopOk twod owned xyz cells edges gradation target n metric)
    (hc : ∀ g, gacLoop twod owned xyz cells edges gradation target n metric = .ok g → 0 < complexity owned xyz g cells)
    (hspd : ∀ m ∈ metric, SPD m) : ∀ m ∈ out, SPD m := by
  obtain ⟨g, hg, hs⟩ := gradationAtComplexity_split h
  exact Refine.Props.C10.setComplexity_spd twod owned xyz g out cells target hs (hc g hg) ht
    (gacLoop_spd twod owned xyz cells edges gradation target n metric g ht H hg hspd)

/-- the error exits of `ref_metric_gradation_at_complexity` at the final block: `div_zero` exactly when
    `target / current` fails `ref_math_divisible` -/
theorem gradation_at_complexity_div_zero (twod : Bool) (owned : Nat → Bool) (xyz : List (V3 ℝ)) (cells : List Cell)
    (edges : List (Nat × Nat)) (n : Nat) (gradation target : ℝ) (metric g : List (M6 ℝ))
    (hg : gacLoop twod owned xyz cells edges gradation target n metric = .ok g) :
    (∃ out, gradationAtComplexityWith twod owned xyz cells edges n gradation target metric = .ok out) ∨
    (gradationAtComplexityWith twod owned xyz cells edges n gradation target metric = .error .div_zero ∧
      Scalar.divisible target (complexity owned xyz g cells) = false) := by
  unfold gradationAtComplexityWith
  rw [hg]
  exact Refine.Props.C10.setComplexity_div_zero twod owned xyz g cells target

/-! ### (6) the 2-D aspect-ratio limiter (`ref_metric_limit_aspect_ratio`, `ref_grid_twod` branch) -/

/-- one vertex: the result is embedded, and SPD when the larger in-plane eigenvalue and the out-of-plane eigenvalue
    returned by `ref_matrix_diag_m` + `ref_matrix_descending_eig_twod` are positive -/
theorem limitAspectRatio2_spd_embedded {ar2 : ℝ} (har : 0 < ar2) {m out : M6 ℝ} {d d' : Eig12 ℝ} (hd : diagM m = .ok d)
    (hs : descendingEigTwod d = .ok d') (hmax : 0 < max d'.l1 d'.l0) (hz : 0 < d'.l2)
    (h : limitArNode2 ar2 m = .ok out) : SPD out ∧ IsEmbedded out :=
  limitArNode2_spd_embedded har hd hs hmax hz h

/-- one vertex, unconditionally: whatever the decomposition returned, a successful 2-D limiter ends with `twod_m` -/
theorem limitArNode2_embedded {ar2 : ℝ} {m out : M6 ℝ} (h : limitArNode2 ar2 m = .ok out) : IsEmbedded out := by
  unfold limitArNode2 at h
  cases hd : diagM m with
  | error e => rw [hd] at h; cases h
  | ok d =>
    rw [hd] at h
    dsimp only at h
    cases hs : descendingEigTwod d with
    | error e => rw [hs] at h; cases h
    | ok d' =>
      rw [hs] at h
      dsimp only at h
      split_ifs at h
      injection h with h
      subst h
      exact twodM_embedded _

/-- the whole field: after a successful 2-D `ref_metric_limit_aspect_ratio` every vertex tensor is embedded -/
theorem limitAspectRatio2_field_embedded (ar : ℝ) (metric out : List (M6 ℝ))
    (h : limitAspectRatio true ar metric = .ok out) : ∀ m ∈ out, IsEmbedded m := by
  unfold limitAspectRatio at h
  simp only [if_true] at h
  exact mapM6_all (fun m o hm => limitArNode2_embedded hm) metric out h

/-! ### (7) the Lp normalisation exponent and the stages of `ref_metric_lp` -/

/-- `exponent = -1.0 / (2 * p_norm + dimension)` with dimension 2 on `ref_grid_twod` grids, else 3 -/
theorem localScale_exponent_dim (twod : Bool) (p : Int) :
    (localScaleExponent twod p : ℝ) = -1 / (2 * (p : ℝ) + (if twod then 2 else 3)) :=
  localScaleExponent_eq twod p

/-- the exponent matches the dimension, 3-D: the coded determinant of the normalised tensor is `det^(2p/(2p+3))` -/
theorem localScale_det3 (p : Int) (m : M6 ℝ) (hd : 0 < detM m) :
    detM (localScaleNode (localScaleExponent false p) m) = (detM m) ^ ((2 * (p : ℝ)) / (2 * (p : ℝ) + 3)) :=
  localScaleNode_det3 p m hd

/-- the exponent matches the dimension, 2-D (embedding re-imposed as the C does): `det^(2p/(2p+2))` -/
theorem localScale_det2 (p : Int) (hp : p ≠ -1) (m : M6 ℝ) (he : IsEmbedded m) (hd : 0 < detM m) :
    detM (twodM (localScaleNode (localScaleExponent true p) m)) = (detM m) ^ ((2 * (p : ℝ)) / (2 * (p : ℝ) + 2)) :=
  localScaleNode_det2 p hp m he hd

/-- Hessian → eigenvalue floor → Lp normalisation: SPD at every vertex whatever the reconstructed Hessian was -/
theorem lp_front_spd (twod : Bool) (p : Int) (xyz : List (V3 ℝ)) (cells : List Cell) (hessian floored : List (M6 ℝ))
    (h : roundoffLimit xyz cells hessian = .ok floored) : ∀ m ∈ localScale twod p floored, SPD m :=
  Refine.Props.C10.localScale_spd twod p floored (Refine.Props.C10.roundoffLimit_spd xyz cells hessian floored h)

/-- what a successful run of the stages of `ref_metric_lp` after the reconstruction is -/
theorem lpChain_split {twod : Bool} {owned : Nat → Bool} {xyz : List (V3 ℝ)} {cells : List Cell} {p : Int}
    {gradation ar target : ℝ} {hessian out : List (M6 ℝ)}
    (h : lpChain twod owned xyz cells p gradation ar target hessian = .ok out) :
    ∃ floored limited, roundoffLimit xyz cells hessian = .ok floored ∧
      limitAspectRatio twod ar (localScale twod p floored) = .ok limited ∧
      gradationAtComplexity twod owned xyz cells gradation target limited = .ok out := by
  unfold lpChain at h
  cases h1 : roundoffLimit xyz cells hessian with
  | error e => rw [h1] at h; cases h
  | ok floored =>
    rw [h1] at h
    dsimp only at h
    cases h2 : limitAspectRatio twod ar (localScale twod p floored) with
    | error e => rw [h2] at h; cases h
    | ok limited =>
      rw [h2] at h
      exact ⟨floored, limited, rfl, h2, h⟩

/-- **the multiscale chain meets the requested complexity**: for any Hessian field, norm power, gradation and
    aspect-ratio limit, a successful run returns a field of complexity exactly `target`, embedded on a 2-D grid
    (the embedding of the limiter's output is proved, not assumed).  Hypothesis `hc`: the field left by the 20
    relaxations has positive complexity. -/
theorem lpChain_complexity (twod : Bool) (owned : Nat → Bool) (xyz : List (V3 ℝ)) (cells : List Cell) (p : Int)
    (gradation ar target : ℝ) (hessian out : List (M6 ℝ))
    (h : lpChain twod owned xyz cells p gradation ar target hessian = .ok out) (ht : 0 < target)
    (hc : ∀ limited g, gacLoop twod owned xyz cells (edgeList cells) gradation target 20 limited = .ok g →
      0 < complexity owned xyz g cells)
    (hdim : twod = !(haveVolCells owned cells)) :
    complexity owned xyz out cells = target ∧ (twod = true → ∀ m ∈ out, IsEmbedded m) := by
  obtain ⟨floored, limited, _, h2, h3⟩ := lpChain_split h
  refine gradationAtComplexity_final twod owned xyz cells gradation target limited out h3 ht (hc limited) hdim ?_
  intro htw
  subst htw
  exact limitAspectRatio2_field_embedded ar _ limited h2

/-- non-vacuity of the 2-D limiter theorem: diag(4, 9, 1) with `ar² = 4`: the frame is reordered to (9, 4 | 1), the
    limit is 9/4, both in-plane eigenvalues already exceed it -/
example : ∃ out, limitArNode2 (4 : ℝ) ⟨4, 0, 0, 9, 0, 1⟩ = .ok out ∧ SPD out ∧ IsEmbedded out := by
  have hd := diagM_diagonal' 4 9 1
  have hs : descendingEigTwod (⟨4, 9, 1, 1, 0, 0, 0, 1, 0, 0, 0, 1⟩ : Eig12 ℝ) = .ok ⟨9, 4, 1, 0, 1, 0, 1, 0, 0, 0, 0, 1⟩ := by
    unfold descendingEigTwod
    simp only [Scalar.bgt, cabs_eq, mul_eq, add_eq, zero_eq, one_eq, ofInt_eq]
    norm_num [swap01, swap02, swap12, Scalar.lt]
  have hg : Scalar.divisible (max (4 : ℝ) 9) 4 = true := by rw [divisible_iff]; norm_num
  have : ∃ out, limitArNode2 (4 : ℝ) ⟨4, 0, 0, 9, 0, 1⟩ = .ok out := by
    unfold limitArNode2
    rw [hd]
    dsimp only
    rw [hs]
    simp only [cmax_eq, div_eq, hg, Bool.not_true, Bool.false_eq_true, if_false]
    exact ⟨_, rfl⟩
  obtain ⟨out, ho⟩ := this
  exact ⟨out, ho, limitAspectRatio2_spd_embedded (by norm_num) hd hs (by norm_num) (by norm_num) ho⟩

/-- non-vacuity of `localScale_det3`: the identity has coded determinant 1 -/
example (p : Int) : detM (localScaleNode (localScaleExponent false p) (⟨1, 0, 0, 1, 0, 1⟩ : M6 ℝ)) = 1 := by
  rw [localScale_det3 p _ (by rw [Refine.Props.C10.detM_identity]; norm_num), Refine.Props.C10.detM_identity, Real.one_rpow]

/-! ### non-vacuity: two vertices, one edge, `r = 1`, tensors diag(4,9,1) and diag(1,36,1/4) -/

/-- the hypotheses of the sweep theorems hold on a concrete field where gradation is active: after one sweep with
    `r = 1` both vertices carry the intersection diag(4, 36, 1) -/
example : SweepsExact exXyz 1 [(0, 1)] 1 exField ∧ msSweeps exXyz 1 [(0, 1)] 1 exField = [exBoth, exBoth] :=
  ⟨exSweepsExact, exSweep_value⟩

/-- hence the conclusions, on that field -/
example (x : Vec3 ℝ) : vtMv exA x ≤ vtMv exBoth x ∧ vtMv exB x ≤ vtMv exBoth x := by
  have h := (gradationSweep_ge_input exXyz 1 [(0, 1)] 1 exField exSweepsExact).2
  rw [exSweep_value] at h
  exact ⟨h 0 x, h 1 x⟩

/-- `gradation_at_complexity_final` with zero relaxations is `setComplexity_exact`; with `n` relaxations its
    hypotheses are those of the loop: the unit-tet instance of `Props/C10` meets them for `n = 0` -/
example : ∃ out, gradationAtComplexityWith false (fun _ => true) [(⟨0, 0, 0⟩ : V3 ℝ), ⟨1, 0, 0⟩, ⟨0, 1, 0⟩, ⟨0, 0, 1⟩]
      [⟨.tet, [0, 1, 2, 3]⟩] [] 0 (3 / 2) 5
      [⟨1, 0, 0, 1, 0, 1⟩, ⟨1, 0, 0, 1, 0, 1⟩, ⟨1, 0, 0, 1, 0, 1⟩, ⟨1, 0, 0, 1, 0, 1⟩] = .ok out ∧
    complexity (fun _ => true) [(⟨0, 0, 0⟩ : V3 ℝ), ⟨1, 0, 0⟩, ⟨0, 1, 0⟩, ⟨0, 0, 1⟩] out [⟨.tet, [0, 1, 2, 3]⟩] = 5 := by
  have hc := Refine.Props.C10.complexity_unit_tet
  obtain ⟨out, ho⟩ := Refine.Props.C10.setComplexity_ok false (fun _ => true)
    [(⟨0, 0, 0⟩ : V3 ℝ), ⟨1, 0, 0⟩, ⟨0, 1, 0⟩, ⟨0, 0, 1⟩]
    [⟨1, 0, 0, 1, 0, 1⟩, ⟨1, 0, 0, 1, 0, 1⟩, ⟨1, 0, 0, 1, 0, 1⟩, ⟨1, 0, 0, 1, 0, 1⟩]
    [⟨.tet, [0, 1, 2, 3]⟩] 5 (by rw [hc]; norm_num) (by norm_num) (by rw [hc]; norm_num)
  have hw : gradationAtComplexityWith false (fun _ => true) [(⟨0, 0, 0⟩ : V3 ℝ), ⟨1, 0, 0⟩, ⟨0, 1, 0⟩, ⟨0, 0, 1⟩]
      [⟨.tet, [0, 1, 2, 3]⟩] [] 0 (3 / 2) 5
      [⟨1, 0, 0, 1, 0, 1⟩, ⟨1, 0, 0, 1, 0, 1⟩, ⟨1, 0, 0, 1, 0, 1⟩, ⟨1, 0, 0, 1, 0, 1⟩] = .ok out := by
    unfold gradationAtComplexityWith gacLoop
    exact ho
  refine ⟨out, hw, (gradation_at_complexity_final _ _ _ _ _ _ _ _ _ _ hw (by norm_num) ?_ ?_ (by intro h; cases h)).1⟩
  · intro g hg
    unfold gacLoop at hg
    injection hg with hg
    subst hg
    rw [hc]; norm_num
  · simp [haveVolCells, isVol]

end Refine.Props.C10Gradation
