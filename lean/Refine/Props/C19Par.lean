import Refine.Lemmas.ReconParHess
import Refine.Lemmas.ReconParKexact
import Refine.Lemmas.ReconParCounter
import Refine.Lemmas.ReconParCells
import Refine.Lemmas.ReconParSigned
import Refine.Lemmas.ReconParCloud
import Refine.Props.C19
import Refine.Props.C19Kexact

/-!
  C19, parallel part: the reconstruction does not depend on the PARTITION.

  All theorems are about the SPMD model `Refine/Model/ReconPar.lean` — the functions `refdrv reconpar` executes and
  `harness/h_reconpar.c` compares bit for bit with the real `ref_recon.c` on np = 1..4 MPI ranks — instantiated at the
  real numbers, for EVERY number of ranks and EVERY distribution satisfying the distributed invariant `DistOK`:

  * `WorldOK` (structure): a rank lists a global once; `part` has one entry per stored vertex; the part of a ghost is a
    rank that stores the vertex as an owned vertex (clause (i) of `distInv`); the exchange buffers fit an `int`;
  * `inRange`, `wf`: stored vertices are vertices of the global mesh, stored cells use stored vertices;
  * `complete` — clause (ii) of `distInv`, the one that matters: every cell incident to an OWNED vertex is stored on
    the owner's rank (stated on the sub-simplices the C visits: the stored simplices around the vertex, renamed to
    global ids, are as a multiset the global simplices around it).

  Exact arithmetic.  In floating point the ORDER in which the cells around a vertex are accumulated differs between
  ranks (each rank walks its own cell list), so the owned values agree with the serial ones only up to the rounding
  of a reordered sum (the tie compares the real code on np ranks with the model run on the SAME local orders bit for
  bit, and the real code on np ranks with the real code on one rank to 1e-10·scale); ghost copies are bitwise copies
  of the owner's value in floating point too (`ghostRows_spec` is about the data movement only).
-/
namespace Refine.Props.C19Par
open Refine Refine.Model.Geom Refine.Model.Recon Refine.Model.ReconPar Refine.ScalarReal Refine.GeomReal
open Refine.ReconReal Refine.ReconParGhost Refine.ReconParMesh Refine.ReconParHess Refine.ReconParKexact
open Refine.ReconParCounter Refine.ReconParCells Refine.ReconParExtrap Refine.ReconParSigned Refine.ReconParCloud
open Refine.Model.Comm (World RefType)
open Refine.Model.Kexact (Item KSt grow kexactNode kexactWithAux layerLoop)

/-! ### clause (ii) -/

/-- **clause (ii) of the distributed invariant, at the cell level, gives `DistOK.complete`**: if the cells stored on a
    rank that are incident to the stored vertex `i`, renamed to global ids, are — as a multiset — the cells of the
    global mesh incident to that vertex (every cell around it is stored on this rank, once), then the stored
    sub-simplices around it (the C's tet decomposition of pyramids / prisms / hexes in 3-D, the triangle split of
    quads in 2-D) are the global ones.  `CellWF`: a cell has as many vertices as its kind says -/
theorem complete_of_cells_stored (twod : Bool) (gcells : List Cell) (r : Rank) (i : Nat)
    (hL : ∀ c ∈ r.cells, CellWF c) (hG : ∀ c ∈ gcells, CellWF c)
    (h : ((r.cells.map (globCell r.l2g)).filter (cellTouches (gOf r.l2g i))).Perm
      (gcells.filter (cellTouches (gOf r.l2g i)))) :
    CompleteAt twod gcells r i :=
  completeAt_of_cells twod gcells r i hL hG h

/-! ### L2 projection -/

/-- **owned vertices, before any exchange**: on a rank whose stored cells include every cell around the stored
    vertex `i`, the local L2 projection at `i` is the serial L2 projection of the global mesh at that vertex — the
    same sums, for ANY scalar field -/
theorem l2grad_owned_eq_serial (twod : Bool) (gxyz : List (V3 ℝ)) (gs : List ℝ) (gcells : List Cell) (r : Rank)
    (hnd : r.l2g.Nodup)
    (hwf : if twod then TrisWF r.l2g.length (allTris r.cells) else TetsWF r.l2g.length (allTets r.cells))
    (i : Nat) (hi : i < r.l2g.length) (hg : gOf r.l2g i < gxyz.length) (hc : CompleteAt twod gcells r i) :
    (l2gradLocal twod gxyz r (r.restrict 0 gs)).2[i]? = (l2grad twod gxyz gs gcells).2[gOf r.l2g i]? :=
  l2gradLocal_owned twod gxyz gs gcells r hnd hwf i hi hg hc

/-- **`ref_recon_l2_projection_grad` is partition independent.**  For every rank count and every distribution
    satisfying `DistOK`, for every scalar field given consistently on the ranks: the call completes and every stored
    copy — owned or ghost — of every vertex holds the serial L2 gradient of the global mesh at that vertex; in
    particular the gathered field is the serial field -/
theorem l2grad_partition_independent (twod : Bool) (gxyz : List (V3 ℝ)) (gs : List ℝ) (gcells : List Cell)
    (w : World Rank) (hw : DistOK twod gxyz.length gcells w) (s : World (List ℝ)) (hs : Consistent 0 w s gs) :
    ∃ st, l2gradPar twod gxyz w s = some (st, w.map fun r => r.restrict V3.zero (l2grad twod gxyz gs gcells).2) :=
  l2gradPar_eq_serial twod gxyz gs gcells w hw s hs

/-- **`ref_recon_l2_projection_hessian` is partition independent** — BECAUSE the projected gradient is refreshed
    (`ref_node_ghost_dbl`) before each of its components is projected again: all four projections see fields that are
    consistent across the ranks.  (Without the intermediate refresh the statement is false:
    `l2hessian_single_exchange_differs`.) -/
theorem l2hessian_partition_independent (twod : Bool) (gxyz : List (V3 ℝ)) (gs : List ℝ) (gcells : List Cell)
    (w : World Rank) (hw : DistOK twod gxyz.length gcells w) (s : World (List ℝ)) (hs : Consistent 0 w s gs) :
    l2hessianPar twod gxyz w s = some (w.map fun r => r.restrict z6 (l2hessian twod gxyz gs gcells)) :=
  l2hessianPar_eq_serial twod gxyz gs gcells w hw s hs

/-- linear fields on a distributed 3-D mesh: when the serial projection is exact at every vertex (see
    `C19.l2gradTets_linear_pos`: positive accumulated weights), every stored copy on every rank is exactly `g` -/
theorem l2grad_linear_exact_par (gxyz : List (V3 ℝ)) (gs : List ℝ) (gcells : List Cell) (w : World Rank)
    (hw : DistOK false gxyz.length gcells w) (s : World (List ℝ)) (hs : Consistent 0 w s gs) (α : ℝ) (g : V3 ℝ)
    (hlin : ∀ t ∈ allTets gcells, LinearOnTet gxyz gs α g t)
    (hpos : ∀ t ∈ allTets gcells, (tetContrib gxyz gs t).st = St.ok → 0 < (tetContrib gxyz gs t).w)
    (hx : |g.x| < (10 : ℝ) ^ (20 : ℤ)) (hy : |g.y| < (10 : ℝ) ^ (20 : ℤ)) (hz : |g.z| < (10 : ℝ) ^ (20 : ℤ))
    (htouch : ∀ i, i < gxyz.length →
      ∃ t ∈ allTets gcells, (tetContrib gxyz gs t).st = St.ok ∧ i ∈ [t.n0, t.n1, t.n2, t.n3]) :
    ∃ st, l2gradPar false gxyz w s = some (st, w.map fun r => r.l2g.map fun _ => g) := by
  obtain ⟨st, h⟩ := l2grad_partition_independent false gxyz gs gcells w hw s hs
  refine ⟨st, ?_⟩
  rw [h]
  congr 2
  apply List.map_congr_left
  intro r hr
  unfold Rank.restrict
  apply List.map_congr_left
  intro k hk
  have hk' : k < gxyz.length := hw.inRange r hr k hk
  have := Refine.Props.C19.l2gradTets_linear_pos gxyz gs (allTets gcells) α g hlin hpos hx hy hz k hk' (htouch k hk')
  simp only [l2grad, Bool.false_eq_true, if_false, List.getD_eq_getElem?_getD, this, Option.getD_some]

/-- the L2 Hessian of a linear field vanishes at every stored vertex of every rank (3-D; first projection exact) -/
theorem l2hessian_linear_zero_par (gxyz : List (V3 ℝ)) (gs : List ℝ) (gcells : List Cell) (w : World Rank)
    (hw : DistOK false gxyz.length gcells w) (s : World (List ℝ)) (hs : Consistent 0 w s gs) (g : V3 ℝ)
    (hwf : TetsWF gxyz.length (allTets gcells))
    (hfirst : ∀ i, i < gxyz.length → (l2grad false gxyz gs gcells).2[i]? = some g) :
    l2hessianPar false gxyz w s = some (w.map fun r => r.l2g.map fun _ => z6) := by
  rw [l2hessian_partition_independent false gxyz gs gcells w hw s hs,
    Refine.Props.C19.l2hessian_mixed_linear gxyz gs gcells g hwf hfirst]
  congr 1
  apply List.map_congr_left
  intro r hr
  unfold Rank.restrict
  apply List.map_congr_left
  intro k hk
  have hk' : k < gxyz.length := hw.inRange r hr k hk
  simp [List.getD_eq_getElem?_getD, List.getElem?_replicate, hk', z6]

/-- … and in 2-D -/
theorem l2hessian_linear_zero_par_2d (gxyz : List (V3 ℝ)) (gs : List ℝ) (gcells : List Cell) (w : World Rank)
    (hw : DistOK true gxyz.length gcells w) (s : World (List ℝ)) (hs : Consistent 0 w s gs) (g : V3 ℝ)
    (hwf : TrisWF gxyz.length (allTris gcells))
    (hfirst : ∀ i, i < gxyz.length → (l2grad true gxyz gs gcells).2[i]? = some g) :
    l2hessianPar true gxyz w s = some (w.map fun r => r.l2g.map fun _ => z6) := by
  rw [l2hessian_partition_independent true gxyz gs gcells w hw s hs,
    Refine.Props.C19.l2hessian2d_linear gxyz gs gcells g hwf hfirst]
  congr 1
  apply List.map_congr_left
  intro r hr
  unfold Rank.restrict
  apply List.map_congr_left
  intro k hk
  have hk' : k < gxyz.length := hw.inRange r hr k hk
  simp [List.getD_eq_getElem?_getD, List.getElem?_replicate, hk', z6]

/-! ### the boundary replacement (`ref_recon_signed_hessian`, L2 branch) -/

/-- `ref_recon_extrapolate_zeroth` on a distributed mesh, any `ldim ≤ 6`, any input arrays of the right shape, any
    number of passes: the call completes (every refresh of `replace` and `recon` goes through) and a vertex that its
    OWNER does not flag (`Keep`: the owner's `replace` row at entry is all false) is never touched — every stored copy,
    owned or ghost, ends unflagged and with the owner's row at entry (`Good`) -/
theorem extrapolate_zeroth_keeps_unflagged (w : World Rank) (hw : WorldOK w) (ldim : Nat) (hl : ldim ≤ 6)
    (recon0 : World (List (List ℝ))) (replace0 : World (List (List Bool)))
    (hR0 : RowsOK ldim w recon0) (hP0 : RowsOK ldim w replace0) :
    ∃ R' P', extrapolateZeroth w ldim recon0 replace0 = some (R', P') ∧ Good w ldim recon0 replace0 R' P' :=
  extrapolateZeroth_keeps w hw ldim hl recon0 replace0 hR0 hP0

/-- **away from the boundary-extrapolation layer `ref_recon_signed_hessian(.., REF_RECON_L2PROJECTION)` is partition
    independent**: on every world satisfying `DistOK` the call completes, and every stored copy — owned or ghost — of
    every vertex that its owner does not flag for replacement (mask of the stored boundary faces / segments after the
    orphan filter, `replaceMask`) holds the serial L2 Hessian of the global mesh at that vertex.  (The flagged
    vertices — the boundary layer — receive in-place averages that depend on the local numbering and on the
    partition: tied bit for bit, excluded by the property.) -/
theorem signed_hessian_interior_partition_independent (twod : Bool) (gxyz : List (V3 ℝ)) (gs : List ℝ)
    (gcells : List Cell) (w : World Rank) (hw : DistOK twod gxyz.length gcells w) (s : World (List ℝ))
    (hs : Consistent 0 w s gs) :
    ∃ out, signedHessianL2Par twod gxyz w s = some out ∧
      ∀ (me : Nat) (r : Rank) (i p : Nat), w[me]? = some r → r.part[i]? = some p →
        Keep w (w.map (replaceMask twod 6)) 6 me i →
        (out.getD me []).getD i z6 = (l2hessian twod gxyz gs gcells).getD (gOf r.l2g i) z6 :=
  signedHessianL2Par_interior twod gxyz gs gcells w hw s hs

/-! ### k-exact clouds

  FULL STATEMENT (`kexact_cloud_partition_independent`, NOT proved in full): on a world satisfying `DistOK` (with
  clause (ii) for the tets / triangles `ref_recon_kexact_gradient_hessian` looks at), after
  `ref_recon_local_immediate_cloud` and `ref_recon_ghost_cloud` (`ghostCloud`) the one-layer cloud of EVERY stored
  vertex `v` (owned or ghost) is, as a list sorted by global id of `(global id, xyz, value)`, the serial one-layer cloud
  `(oneLayer gxyz gs (kxCells twod gcells))[v]`; hence for an owned vertex the cloud after one growth
  (`ref_recon_grow_cloud_one_layer`, the stencil of the first `ref_recon_kexact_with_aux` attempt) is the serial one,
  and the gradient / Hessian returned at every vertex whose first attempt is accepted are the serial ones.
  Clouds grown MORE than once are NOT partition independent in the C: a pivot that is not stored on the rank is
  skipped (`REF_NOT_FOUND` → `continue`), so a vertex that needs 3 or more layers may see a smaller stencil on a
  partitioned mesh (its result is then still exact on quadratic fields whenever the solve succeeds:
  `C19Kexact.kexact_quadratic_exact`).
  PROVED: (a) the owner's cloud (`kexact_one_layer_owned_eq_serial`): with every tet / triangle around an owned
  vertex stored on the rank, `ref_recon_local_immediate_cloud` on the local mesh, keyed by global id, gives literally
  the list the serial code builds on the global mesh — `ref_cloud_store` keeps the cloud strictly sorted by global id
  and an entry's payload is a function of its id, so the cloud is determined by the SET of vertices sharing a cell with
  the vertex, whatever the cell order, the local numbering and the multiplicity of the stores; (b) the step from
  clouds to results (`kexact_cloud_partition_independent_partial`): if the rank's cloud table agrees with the serial
  table at the vertex and at every entry of the vertex's one-layer cloud, then the once-grown clouds are equal and,
  when the first attempt is accepted, so are gradient and Hessian — bit for bit the same stencil in the same
  (global-id) order, so this part holds in floating point as well; for clouds that hold the same points under
  different ids, `C19Kexact.kexact_perm` / `lsq_row_order_independent` give equality of the results in exact arithmetic.
  MISSING: that `ghostCloud` (the `alltoall` / `alltoallv` sequence of `ref_recon_ghost_cloud`, modelled literally)
  delivers to every GHOST vertex exactly its owner's cloud — needed for the entries of an owned vertex's cloud that
  are ghosts on its rank.  It is tied: op `cloud1` of stream `reconpar` prints the one-layer cloud of every stored
  vertex (owned and ghost) of every rank from the real code, compared with the model bit for bit and by the Python
  oracle with the vertices sharing a cell with it in the global mesh. -/

/-- **the one-layer cloud of an owned vertex does not depend on the partition**: as a list of
    `(global id, xyz, value)` sorted by global id it is the serial cloud of the global mesh.  `hcomp` is clause (ii)
    for the cells the k-exact path looks at (tets, or triangles in 2-D) -/
theorem kexact_one_layer_owned_eq_serial (twod : Bool) (gxyz : List (V3 ℝ)) (gs : List ℝ) (gcells : List Cell)
    (r : Rank) (me i : Nat) (hnd : r.l2g.Nodup) (hi : i < r.l2g.length) (hown : r.owned me i = true)
    (hwf : ∀ cell ∈ kxCells twod r.cells, ∀ v ∈ cell, v < r.l2g.length)
    (hgr : ∀ k, k < r.l2g.length → gOf r.l2g k < gxyz.length)
    (hcomp : (((kxCells twod r.cells).map (·.map (gOf r.l2g))).filter (·.contains (gOf r.l2g i))).Perm
      ((kxCells twod gcells).filter (·.contains (gOf r.l2g i)))) :
    (localClouds twod gxyz me r (r.restrict 0 gs))[i]? =
      (Refine.Model.Kexact.oneLayer gxyz gs (kxCells twod gcells))[gOf r.l2g i]? :=
  localCloud_owned_eq_serial twod gxyz gs gcells r me i hnd hi hown hwf hgr hcomp

/-- `ref_recon_grow_cloud_one_layer` asks the cloud table only at the ids in the cloud -/
theorem grow_partition_independent (layerW layerS : Int → List (Item ℝ)) (c : List (Item ℝ))
    (h : ∀ it ∈ c, layerW it.g = layerS it.g) : grow layerW c = grow layerS c :=
  grow_congr layerW layerS c h

/-- from clouds to results (see the block comment above): the cloud of the first attempt and, when that attempt is
    accepted (`REF_SUCCESS`, or `REF_NOT_FOUND` = isolated vertex), the gradient and Hessian at the vertex do not
    depend on the partition -/
theorem kexact_cloud_partition_independent_partial (twod : Bool) (layerW layerS : Int → List (Item ℝ)) (c : Int)
    (h0 : layerW c = layerS c) (h1 : ∀ it ∈ layerS c, layerW it.g = layerS it.g) :
    grow layerW (layerW c) = grow layerS (layerS c) ∧
    (((kexactWithAux c (grow layerS (layerS c)) twod).1 = KSt.ok ∨
      (kexactWithAux c (grow layerS (layerS c)) twod).1 = KSt.notFound) →
      kexactNode layerW c twod = kexactNode layerS c twod) :=
  ⟨grow_first layerW layerS c h0 h1, kexactNode_first twod layerW layerS c h0 h1⟩

/-! ### the counter-statement and non-vacuity: a 2-rank and a 3-rank world (one rank empty)

  Two tets sharing the face (v1,v2,v3): `A = (v0,v1,v2,v3)` the unit tet, `B = (v1,v2,v3,v4)`, `v4 = (1,1,1)`
  (`cxyz`, `cCells`); the quadratic field `1 + 2x + 3y + 4z + (xy + yz + zx)/3` (`cfld` = 1, 3, 4, 5, 11).
  `exWorld2`: rank 0 owns `v0` only and stores tet `A` with three ghosts, rank 1 owns `v1..v4` and stores both tets in a
  shuffled local numbering with `v0` as a ghost; `exWorld3` adds a rank that stores nothing. -/

/-- both worlds satisfy the distributed invariant `DistOK` -/
theorem exWorlds_ok : DistOK false cxyz.length cCells exWorld2 ∧ DistOK false cxyz.length cCells exWorld3 :=
  ⟨exWorld2_ok, exWorld3_ok⟩

/-- **the intermediate refresh is necessary** (this pins the seeded change `C19_l2_hessian_single_ghost_exchange`):
    on the 2-rank world, for the quadratic field, at the vertex `v0` OWNED by rank 0 and adjacent to the partition
    boundary (all its neighbours belong to rank 1), the L2 Hessian as coded — gradient refreshed before it is
    projected again — is the serial one, every entry `1/3`; with the four projections local and one refresh of the
    assembled Hessian at the end (`l2hessianSingleExchange`) the same vertex gets the ZERO Hessian: an O(1) error in
    the interior of the domain that depends on the partition, although linear fields stay exact -/
theorem l2hessian_single_exchange_differs :
    (∃ H, l2hessianPar false cxyz exWorld2 (exWorld2.map fun r => r.restrict 0 cfld) = some H ∧
      (H.getD 0 []).getD 0 z6 = ⟨1 / 3, 1 / 3, 1 / 3, 1 / 3, 1 / 3, 1 / 3⟩) ∧
    (∃ H', l2hessianSingleExchange false cxyz exWorld2 (exWorld2.map fun r => r.restrict 0 cfld) = some H' ∧
      (H'.getD 0 []).getD 0 z6 = z6) := by
  refine ⟨⟨_, l2hessian_partition_independent false cxyz cfld cCells exWorld2 exWorld2_ok _ rfl, ?_⟩,
    single_exchange_v0⟩
  have h := serial_hessian_v0
  have hl : 0 < (l2hessian false cxyz cfld cCells).length := by
    by_contra hcon
    rw [List.getElem?_eq_none (by omega)] at h
    exact absurd h (by simp)
  rw [List.getElem?_eq_getElem hl, Option.some.injEq] at h
  simp [exWorld2, exRank0, Rank.restrict, List.getD_eq_getElem?_getD, List.getElem?_eq_getElem hl, h]

/-- the 3-rank world (rank 2 stores nothing) meets the hypotheses of the partition-independence theorems, for any
    coordinates and any field -/
example (gxyz : List (V3 ℝ)) (h : gxyz.length = 5) (gs : List ℝ) :
    l2hessianPar false gxyz exWorld3 (exWorld3.map fun r => r.restrict 0 gs) =
      some (exWorld3.map fun r => r.restrict z6 (l2hessian false gxyz gs cCells)) :=
  l2hessian_partition_independent false gxyz gs cCells exWorld3 (h ▸ exWorld3_ok) _ rfl

/-- `Keep` is met: the example worlds store no boundary triangle, so no vertex is flagged and every stored entry is
    kept (e.g. the ghost copy of `v1` on rank 0, owned by rank 1) -/
example : Keep exWorld3 (exWorld3.map (replaceMask false 6)) 6 0 1 := by
  intro r p hr hp
  obtain rfl : exRank0 = r := by simpa [exWorld3] using hr
  obtain rfl : 1 = p := by simpa [exRank0] using hp
  refine ⟨fun h => absurd h (by decide), fun _ ro j hro hj _ => ?_⟩
  obtain rfl : exRank1 = ro := by simpa [exWorld3] using hro
  have hj' : j = 0 := by
    match j, hj with
    | 0, _ => rfl
    | 1, hj => simp [exRank0, exRank1] at hj
    | 2, hj => simp [exRank0, exRank1] at hj
    | 3, hj => simp [exRank0, exRank1] at hj
    | 4, hj => simp [exRank0, exRank1] at hj
    | k + 5, hj => simp [exRank0, exRank1] at hj
  subst hj'
  decide

/-- the hypotheses of `kexact_one_layer_owned_eq_serial` hold at the vertex `v1` owned by rank 1 of the example world
    (stored there under local index 0, both tets around it stored in a shuffled numbering) -/
example (gxyz : List (V3 ℝ)) (h : gxyz.length = 5) (gs : List ℝ) :
    (localClouds false gxyz 1 exRank1 (exRank1.restrict 0 gs))[0]? =
      (Refine.Model.Kexact.oneLayer gxyz gs (kxCells false cCells))[1]? :=
  kexact_one_layer_owned_eq_serial false gxyz gs cCells exRank1 1 0 (by decide) (by decide) (by decide)
    (by decide) (by intro k hk; rw [h]; revert k; decide) (by decide)

end Refine.Props.C19Par
