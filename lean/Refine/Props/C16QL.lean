import Refine.Props.C16
import Refine.Lemmas.MatrixQL4

/-!
  C16, `diagM_similarity`: the eigenvalue half of `ref_matrix_diag_m` (model `diagM`), over ℝ.

  A QL state `(d, e, f, Q)` in row `l` stands for the matrix `Q (T + f·P_{≥l}) Qᵀ` (`QL.reprMat l`, `T` = the
  symmetric tridiagonal `(d, e)` with the finished rows' sub-diagonal entries left out, `P_{≥l}` = the rows that still
  carry the accumulated shift).  Every inner step of the `ql transformation` loop is a Givens similarity of the
  full 3x3 matrix with the bulge stored explicitly; every sweep (shift + rotations + tql2's closing recurrence)
  keeps `reprMat`; the loop, the row and the routine follow by induction.  The convergence test is a threshold:
  an entry `e` that passes it is dropped although it is not 0, so in exact arithmetic
      `m = Q diag(d) Qᵀ + resid`,   `resid` = the (at most three) dropped entries, each of size ≤ the tolerance
  of the test (`1.0e-14 * tst1`), each between the two vectors it coupled when it was dropped — and
  `m = Q diag(d) Qᵀ` when the dropped entries were exactly 0.
-/
namespace Refine.Props.C16QL
open Refine Refine.Model.Matrix Refine.ScalarReal
open _root_.Matrix

/-! ### one rotation, one sweep, the loop, the row -/

/-- every inner step `i` (the body of `for (ii = 0; ii < mml; ii++)`: g, h, r, `e[i+1] = s*r`, s, c, p, `d[i+1]`
    and the rotation of vectors i, i+1) is a plane rotation `G` with `c² + s² = 1` applied as `Q' = Q G` -/
theorem ql_rotation_is_givens (w : Sweep ℝ) :
    (w.st.e1 ≠ 0 → (innerStep 1 w).c * (innerStep 1 w).c + (innerStep 1 w).s * (innerStep 1 w).s = 1 ∧
      (innerStep 1 w).st.d.V = w.st.d.V * G12 (innerStep 1 w).c (innerStep 1 w).s) ∧
    (w.st.e0 ≠ 0 → (innerStep 0 w).c * (innerStep 0 w).c + (innerStep 0 w).s * (innerStep 0 w).s = 1 ∧
      (innerStep 0 w).st.d.V = w.st.d.V * G01 (innerStep 0 w).c (innerStep 0 w).s) :=
  ⟨fun he => ⟨(innerStep_rot 1 w he).1, innerStep1_V w⟩, fun he => ⟨(innerStep_rot 0 w he).1, innerStep0_V w⟩⟩

/-- … and a similarity `M' = Gᵀ M G` of the full symmetric 3x3 matrix `M` the loop locals stand for (bulge at
    (i-1, i+1) included: `Sweep.mat0` in row 0, `Sweep.mat1` in row 1), so `Q M Qᵀ` (`Sweep.W0/W1`) is kept -/
theorem ql_rotation_similarity (w : Sweep ℝ) :
    (w.st.e1 ≠ 0 → (innerStep 1 w).W0 1 = w.W0 2 ∧ (innerStep 1 w).W1 1 = w.W1 2) ∧
    (w.st.e0 ≠ 0 → (innerStep 0 w).W0 0 = w.W0 1) :=
  ⟨fun he => ⟨innerStep1_W0 w he, innerStep1_W1 w he⟩, fun he => innerStep0_W0 w he⟩

/-- tql2's closing recurrence `p = -s*s2*c3*el1*e[l]/dl1` is the `p` left by the loop, because the shift makes the
    leading 2x2 block singular (`a * b = e0²`): two rotations, and one rotation (where it is 0) -/
theorem ql_closing_recurrence (a b e0 e1 d2 r1 r2 : ℝ) (hab : a * b = e0 * e0) (hb : b ≠ 0) (hr1 : r1 ≠ 0)
    (hr2 : r2 ≠ 0) :
    -(e0 / r2) * (e1 / r1) * 1 * e1 * e0 / b =
      (d2 / r1 * b - e1 / r1 * (1 * e1)) / r2 * a - e0 / r2 * (d2 / r1 * e0) ∧
    b / r2 * a - e0 / r2 * (1 * e0) = 0 :=
  ⟨close_two a b e0 e1 d2 r1 r2 hab hb hr1 hr2, close_one a b e0 r2 hab hr2⟩

/-- every sweep (form shift, rotations, closing assignments) of a 3x3 problem is an exact orthogonal similarity:
    block 0..1 (once `e[1]`, which passed the test, is dropped; it is overwritten by 0), block 1..2, and the
    two-rotation sweep over the full block 0..2.  The one-rotation sweeps annihilate `e[l]` exactly. -/
theorem ql_sweep_similarity (st : QL ℝ) :
    (st.e0 ≠ 0 → (sweep 0 1 st).reprMat 0 = ({ st with e1 := 0 } : QL ℝ).reprMat 0 ∧
      (sweep 0 1 st).e0 = 0 ∧ (sweep 0 1 st).e1 = 0) ∧
    (st.e1 ≠ 0 → (sweep 1 2 st).reprMat 1 = st.reprMat 1 ∧ (sweep 1 2 st).e1 = 0 ∧ (sweep 1 2 st).e0 = st.e0) ∧
    (st.e0 ≠ 0 → st.e1 ≠ 0 → (sweep 0 2 st).reprMat 0 = st.reprMat 0) :=
  ⟨sweep01_repr st, sweep12_repr st, sweep02_repr st⟩

/-- the `do … while` loop of row l over the block l..mm, any number of sweeps (fuel = the 30-sweep cap): exact
    similarity, ends with an `e[l]` that passes the test, `tst1` untouched -/
theorem ql_loop_similarity (fuel l mm : Nat) (hl : l < mm) (hm : mm ≤ 2) (st st' : QL ℝ) (h : QLInv l mm st)
    (hq : qlLoop fuel l mm st = .ok st') :
    st'.reprMat l = (dropE mm st).reprMat l ∧ st'.isSmall l = true ∧ st'.tst1 = st.tst1 :=
  qlLoop_repr fuel l mm hl hm st st' h hq

/-- one trip of the row loop: the represented matrix loses exactly the entries the convergence test dropped —
    `rowEps` when the block is chosen, `e[l]` when the row is finished — each bounded by the tolerance -/
theorem ql_row_similarity (l : Nat) (hl : l ≤ 2) (st st' : QL ℝ) (ho : Orthonormal st.d) (ht : 0 ≤ st.tst1)
    (h : rowStep l st = .ok st') :
    st.reprMat l = st'.reprMat (l + 1) + dropMat st.d 0 (rowEps l st) +
        dropMat st'.d (if l = 0 then st'.e0 else 0) (if l = 1 then st'.e1 else 0) ∧
      |rowEps l st| ≤ st'.tol ∧ |st'.getE l| ≤ st'.tol ∧ st.tst1 ≤ st'.tst1 := by
  obtain ⟨ε, a, b, c, d, e⟩ := rowStep_repr l hl st st' ho ht h
  rw [← c]; exact ⟨a, b, d, e⟩

/-! ### the routine -/

/-- `diagM_similarity`.  Whenever `ref_matrix_diag_m` returns REF_SUCCESS with the system `d` (values and vectors Q):
    `m = Q diag(d) Qᵀ + resid` entry by entry, where `resid` (`DiagRun.resid`) is the sum of the three dropped
    sub-diagonal entries `eps0` (e[1] when row 0 chose the block 0..1), `eps1` (e[0] when row 0 finished), `eps2`
    (e[1] when row 1 finished), each placed between the two vectors it coupled at that moment and each bounded by
    the tolerance of the convergence test at the end of the run (`QL.tol`: `1.0e-14 * tst1`, resp. `1.0e-14` for
    the absolute variant of the test) -/
theorem diagM_similarity (m : M6 ℝ) (d : Eig12 ℝ) (h : diagM m = .ok d) :
    ∃ r : DiagRun m d, m = formM d + r.resid ∧ |r.eps0| ≤ r.tol ∧ |r.eps1| ≤ r.tol ∧ |r.eps2| ≤ r.tol := by
  obtain ⟨r⟩ := diagM_run m d h
  exact ⟨r, r.eq_add_resid, r.facts.b0, r.facts.b1, r.facts.b2⟩

/-- the residual is small in the operator norm: the quadratic forms of `m` and of `Q diag(d) Qᵀ` differ by at most
    `3 · tol · |x|²` for every x -/
theorem diagM_residual_bound (m : M6 ℝ) (d : Eig12 ℝ) (r : DiagRun m d) (x : Vec3 ℝ) :
    |vtMv m x - vtMv (formM d) x| ≤ 3 * r.tol * (x.x * x.x + x.y * x.y + x.z * x.z) := by
  have he := r.eq_add_resid
  have F := r.facts
  have hv : vtMv m x - vtMv (formM d) x = vtMv r.resid x := by
    conv_lhs => rw [he, vtMv_add]
    ring
  rw [hv]
  unfold DiagRun.resid
  rw [vtMv_add, vtMv_add]
  have n0 : 0 ≤ x.x * x.x + x.y * x.y + x.z * x.z := by
    nlinarith [mul_self_nonneg x.x, mul_self_nonneg x.y, mul_self_nonneg x.z]
  have l0 := vtMv_offDiag_le F.o0 0 r.eps0 x
  have l1 := vtMv_offDiag_le F.o1 r.eps1 0 x
  have l2 := vtMv_offDiag_le F.o2 0 r.eps2 x
  rw [abs_zero] at l0 l1 l2
  have a1 := abs_add_le (vtMv (offDiag (rot0 m).d 0 r.eps0) x + vtMv (offDiag r.st1.d r.eps1 0) x)
    (vtMv (offDiag r.st2.d 0 r.eps2) x)
  have a2 := abs_add_le (vtMv (offDiag (rot0 m).d 0 r.eps0) x) (vtMv (offDiag r.st1.d r.eps1 0) x)
  have b0 := mul_le_mul_of_nonneg_right F.b0 n0
  have b1 := mul_le_mul_of_nonneg_right F.b1 n0
  have b2 := mul_le_mul_of_nonneg_right F.b2 n0
  linarith

/-- the clean corollary: when the entries the convergence test dropped were exactly zero, the decomposition is exact -/
theorem diagM_similarity_exact (m : M6 ℝ) (d : Eig12 ℝ) (r : DiagRun m d)
    (h0 : r.eps0 = 0) (h1 : r.eps1 = 0) (h2 : r.eps2 = 0) : formM d = m ∧ IsEigSys d m :=
  ⟨(r.isEigSys h0 h1 h2).2, r.isEigSys h0 h1 h2⟩

/-- which entries these are: `eps1`, `eps2` are what is left in `e[0]`, `e[1]` when the routine returns (rows 1, 2 do
    not touch `e[0]`, row 2 does not touch `e[1]`); `eps0` is 0 or the `e[1]` of the first rotation, which the first
    inner step of row 0 overwrites -/
theorem diagM_dropped_entries (m : M6 ℝ) (d : Eig12 ℝ) (r : DiagRun m d) :
    r.eps1 = r.st3.e0 ∧ r.eps2 = r.st3.e1 ∧ (r.eps0 = 0 ∨ r.eps0 = (rot0 m).e1) := by
  refine ⟨r.eps1_eq, r.eps2_eq, ?_⟩
  unfold DiagRun.eps0 rowEps
  split_ifs
  · right; rfl
  · left; rfl

/-- `e_final = 0 → Q diag(d) Qᵀ = m`: if the sub-diagonal entries left in `e[0]`, `e[1]` at return are exactly 0 (and
    the e[1] possibly dropped when row 0 chose its block was 0), the decomposition is exact -/
theorem diagM_similarity_efinal (m : M6 ℝ) (d : Eig12 ℝ) (r : DiagRun m d)
    (h0 : r.eps0 = 0) (he0 : r.st3.e0 = 0) (he1 : r.st3.e1 = 0) : formM d = m :=
  (r.isEigSys h0 (r.eps1_eq.trans he0) (r.eps2_eq.trans he1)).2

/-- `ZeroResidual m d` (= `diagM m` returned `d` and nothing non-zero was dropped) discharges the `IsEigSys`
    hypothesis of the theorems of `Props/C16.lean` -/
theorem zeroResidual_isEigSys {m : M6 ℝ} {d : Eig12 ℝ} (h : ZeroResidual m d) : diagM m = .ok d ∧ IsEigSys d m := by
  obtain ⟨r, h0, h1, h2⟩ := h
  exact ⟨r.diagM_eq, r.isEigSys h0 h1 h2⟩

/-- positive definiteness without any exactness hypothesis: if `ref_matrix_diag_m` returns eigenvalues that all exceed
    three times the tolerance of its convergence test, the input matrix is positive definite -/
theorem diagM_spd_of_margin (m : M6 ℝ) (d : Eig12 ℝ) (r : DiagRun m d)
    (h0 : 3 * r.tol < d.l0) (h1 : 3 * r.tol < d.l1) (h2 : 3 * r.tol < d.l2)
    (x : Vec3 ℝ) (hx : x.x ≠ 0 ∨ x.y ≠ 0 ∨ x.z ≠ 0) : 0 < vtMv m x := by
  have hb := diagM_residual_bound m d r x
  have ho := C16.diagM_orthonormal m d r.diagM_eq
  have hq := C16.formM_quadratic_form d x
  have hp := ho.parseval x
  set u := d.x0 * x.x + d.y0 * x.y + d.z0 * x.z
  set v := d.x1 * x.x + d.y1 * x.y + d.z1 * x.z
  set w := d.x2 * x.x + d.y2 * x.y + d.z2 * x.z
  have npos : 0 < x.x * x.x + x.y * x.y + x.z * x.z := by
    rcases hx with h | h | h <;> nlinarith [mul_self_pos.mpr h, mul_self_nonneg x.x, mul_self_nonneg x.y, mul_self_nonneg x.z]
  have su := sq_nonneg u
  have sv := sq_nonneg v
  have sw := sq_nonneg w
  have key : 3 * r.tol * (u ^ 2 + v ^ 2 + w ^ 2) < d.l0 * u ^ 2 + d.l1 * v ^ 2 + d.l2 * w ^ 2 := by
    have p0 := sub_pos.mpr h0
    have p1 := sub_pos.mpr h1
    have p2 := sub_pos.mpr h2
    have hA := mul_nonneg p0.le su
    have hB := mul_nonneg p1.le sv
    have hC := mul_nonneg p2.le sw
    by_contra hcon
    rw [not_lt] at hcon
    have hsum : (d.l0 - 3 * r.tol) * u ^ 2 + (d.l1 - 3 * r.tol) * v ^ 2 + (d.l2 - 3 * r.tol) * w ^ 2 ≤ 0 := by
      linarith
    have zA : (d.l0 - 3 * r.tol) * u ^ 2 = 0 := by linarith
    have zB : (d.l1 - 3 * r.tol) * v ^ 2 = 0 := by linarith
    have zC : (d.l2 - 3 * r.tol) * w ^ 2 = 0 := by linarith
    have eA : u ^ 2 = 0 := (mul_eq_zero.mp zA).resolve_left p0.ne'
    have eB : v ^ 2 = 0 := (mul_eq_zero.mp zB).resolve_left p1.ne'
    have eC : w ^ 2 = 0 := (mul_eq_zero.mp zC).resolve_left p2.ne'
    rw [eA, eB, eC] at hp
    linarith
  rw [hp, ← hq] at key
  have := (abs_le.mp hb).1
  linarith

/-! ### the matrix functions with the exactness hypothesis discharged by the run itself -/

/-- `exp_m (log_m m) = m` for positive eigenvalues, when the two inner runs dropped nothing non-zero -/
theorem exp_log_zeroResidual (m lg : M6 ℝ) (d d' : Eig12 ℝ) (z1 : ZeroResidual m d)
    (hpos : 0 < d.l0 ∧ 0 < d.l1 ∧ 0 < d.l2) (hl : logM m = .ok lg) (z2 : ZeroResidual lg d') : expM lg = .ok m :=
  C16.exp_log m lg d d' (zeroResidual_isEigSys z1).1 (zeroResidual_isEigSys z1).2 hpos hl
    (zeroResidual_isEigSys z2).1 (zeroResidual_isEigSys z2).2

/-- `log_m (exp_m m) = m`, when the two inner runs dropped nothing non-zero -/
theorem log_exp_zeroResidual (m ex : M6 ℝ) (d d' : Eig12 ℝ) (z1 : ZeroResidual m d)
    (hx : expM m = .ok ex) (z2 : ZeroResidual ex d') : logM ex = .ok m :=
  C16.log_exp m ex d d' (zeroResidual_isEigSys z1).1 (zeroResidual_isEigSys z1).2 hx
    (zeroResidual_isEigSys z2).1 (zeroResidual_isEigSys z2).2

/-- `sqrt_m`: `s² = m`, `s · is = is · s = 1`, when the inner run dropped nothing non-zero -/
theorem sqrt_zeroResidual (m s is : M6 ℝ) (d : Eig12 ℝ) (z : ZeroResidual m d) (h : sqrtM m = .ok (s, is)) :
    s.toMat * s.toMat = m.toMat ∧ s.toMat * is.toMat = 1 ∧ is.toMat * s.toMat = 1 :=
  (C16.sqrtM_spec m s is d (zeroResidual_isEigSys z).1 (zeroResidual_isEigSys z).2 h).2

/-- the hypotheses of the intersect / bound theorems of `Props/C16.lean` (`InnerExact`), from the runs themselves -/
theorem innerExact_of_zeroResidual {m1 m2 s is : M6 ℝ} {d1 d2 : Eig12 ℝ} (z1 : ZeroResidual m1 d1)
    (hs : sqrtM m1 = .ok (s, is)) (z2 : ZeroResidual (multM0M1M0 is m2) d2) : C16.InnerExact m1 m2 s is d1 d2 :=
  ⟨(zeroResidual_isEigSys z1).1, (zeroResidual_isEigSys z1).2, hs, (zeroResidual_isEigSys z2).1,
    (zeroResidual_isEigSys z2).2⟩

/-- the class of inputs on which exactness is proved outright: tridiagonal form with e[1] = 0 (every 2-D embedded
    matrix `m13 = m23 = 0`, and e.g. every `m23 = 0, m22 = m33`) and an e[0] that does not pass the test at the start -/
theorem diagM_exact_block2 (m : M6 ℝ) (he1 : (rot0 m).e1 = 0) (hs : (tstUpd 0 (rot0 m)).isSmall 0 = false) :
    ∃ d, ZeroResidual m d ∧ diagM m = .ok d ∧ IsEigSys d m := by
  obtain ⟨d, z⟩ := zeroResidual_block2 m he1 hs
  exact ⟨d, z, zeroResidual_isEigSys z⟩

/-! ### ordering, positive definiteness -/

/-- `ref_matrix_descending_eig` only permutes (value, vector) pairs: `form_m` of the result is `form_m` of the input
    (no hypothesis on `d`) -/
theorem descendingEig_formM (d : Eig12 ℝ) : formM (descendingEig d) = formM d := by
  have s01 : ∀ d : Eig12 ℝ, formM (swap01 d) = formM d := by
    intro d; apply M6.ext' <;> simp only [formM, swap01, mul_eq, add_eq] <;> ring
  have s02 : ∀ d : Eig12 ℝ, formM (swap02 d) = formM d := by
    intro d; apply M6.ext' <;> simp only [formM, swap02, mul_eq, add_eq] <;> ring
  have s12 : ∀ d : Eig12 ℝ, formM (swap12 d) = formM d := by
    intro d; apply M6.ext' <;> simp only [formM, swap12, mul_eq, add_eq] <;> ring
  unfold descendingEig
  dsimp only
  split_ifs <;> simp only [s01, s02, s12]

/-- `form_m` of an orthonormal system with positive values is positive definite: `xᵀ M x = Σ l_k (v_k·x)² > 0` -/
theorem formM_spd (d : Eig12 ℝ) (ho : Orthonormal d) (hpos : 0 < d.l0 ∧ 0 < d.l1 ∧ 0 < d.l2)
    (x : Vec3 ℝ) (hx : x.x ≠ 0 ∨ x.y ≠ 0 ∨ x.z ≠ 0) : 0 < vtMv (formM d) x :=
  vtMv_formM_pos d ho hpos x hx

/-! ### non-vacuity -/

/-- `diagM_similarity`, `diagM_similarity_exact`, `ZeroResidual`: the non-diagonal matrix [[1,3,4],[3,2,0],[4,0,2]]
    goes through the first rotation (L = 5) and one genuine QL sweep, nothing non-zero is dropped, and the returned
    system reconstructs it exactly -/
example : ∃ d, ZeroResidual (⟨1, 3, 4, 2, 0, 2⟩ : M6 ℝ) d ∧ diagM ⟨1, 3, 4, 2, 0, 2⟩ = .ok d ∧
    formM d = ⟨1, 3, 4, 2, 0, 2⟩ := by
  obtain ⟨d, z, h, e⟩ := diagM_exact_block2 (⟨1, 3, 4, 2, 0, 2⟩ : M6 ℝ) (by rw [rot0_example345]) example345_not_small
  exact ⟨d, z, h, e.2⟩

/-- `log_exp_zeroResidual`, `exp_log_zeroResidual`, `sqrt_zeroResidual`: the hypotheses hold for diagonal matrices -/
example : logM (⟨Real.exp (-1), 0, 0, Real.exp 0, 0, Real.exp 7⟩ : M6 ℝ) = .ok ⟨-1, 0, 0, 0, 0, 7⟩ :=
  log_exp_zeroResidual ⟨-1, 0, 0, 0, 0, 7⟩ _ _ _ (zeroResidual_diag (-1) 0 7) (C16.expM_diag (-1) 0 7)
    (zeroResidual_diag (Real.exp (-1)) (Real.exp 0) (Real.exp 7))

example : expM (⟨Real.log 2, 0, 0, Real.log 3, 0, Real.log 5⟩ : M6 ℝ) = .ok ⟨2, 0, 0, 3, 0, 5⟩ :=
  exp_log_zeroResidual ⟨2, 0, 0, 3, 0, 5⟩ _ _ _ (zeroResidual_diag 2 3 5) ⟨by norm_num, by norm_num, by norm_num⟩
    (C16.logM_diag 2 3 5) (zeroResidual_diag (Real.log 2) (Real.log 3) (Real.log 5))

/-- `innerExact_of_zeroResidual`: A = diag(4, 9, 1), B = diag(1, 36, 1/4) -/
example : C16.InnerExact (⟨4, 0, 0, 9, 0, 1⟩ : M6 ℝ) ⟨1, 0, 0, 36, 0, 1 / 4⟩ ⟨2, 0, 0, 3, 0, 1⟩ ⟨1 / 2, 0, 0, 1 / 3, 0, 1⟩
    ⟨4, 9, 1, 1, 0, 0, 0, 1, 0, 0, 0, 1⟩ ⟨1 / 2 * 1 * (1 / 2), 1 / 3 * 36 * (1 / 3), 1 * (1 / 4) * 1, 1, 0, 0, 0, 1, 0, 0, 0, 1⟩ :=
  innerExact_of_zeroResidual (zeroResidual_diag 4 9 1) C16.sqrtM_diag491
    (by rw [multM0M1M0_diag]; exact zeroResidual_diag _ _ _)

/-- `ql_sweep_similarity` / `ql_rotation_similarity`: the hypotheses `e[0] ≠ 0`, `e[1] ≠ 0` of the two-rotation sweep
    are met, e.g. by the tridiagonal state of [[2,1,0],[1,3,1],[0,1,4]] -/
example : (sweep 0 2 ({ d := ⟨2, 3, 4, 1, 0, 0, 0, 1, 0, 0, 0, 1⟩, e0 := 1, e1 := 1, e2 := 0, f := 0, tst1 := 3 } : QL ℝ)).reprMat 0 =
    ({ d := ⟨2, 3, 4, 1, 0, 0, 0, 1, 0, 0, 0, 1⟩, e0 := 1, e1 := 1, e2 := 0, f := 0, tst1 := 3 } : QL ℝ).reprMat 0 :=
  (ql_sweep_similarity _).2.2 one_ne_zero one_ne_zero

end Refine.Props.C16QL
