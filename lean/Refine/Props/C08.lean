import Refine.Lemmas.CodecRoundtrip

/-!
  C08 — mesh files round-trip (binary libMeshb `.meshb`, versions 2, 3, 4).

  Model: `Refine/Model/Meshb.lean` — `encodeMeshb` = `ref_export_meshb`, `decodeMeshb` =
  `ref_import_meshb_header` + `ref_import_meshb_jump` + `ref_import_meshb`; tied to the C by the streams
  `meshb_write` (C writer bytes = `encodeMeshb` bytes) and `meshb_read` (C reader dump = `decodeMeshb`).
  Cell kinds covered: all 16 groups of `ref_grid` (edg ed2 ed3 tri tr2 tr3 qua qu2 tet pyr pri hex te2 py2
  pr2 he2), keywords and node counts from the generated tables; vertex coordinates, cell vertices and
  ids, geometry-association records (types 0/1/2 with `gref` carried as a double) and the CAD byte blob.
  Not covered here: ugrid/su2/msh/fgrid formats, the parallel reader/writer (`ref_part`, `ref_gather`),
  `ref_grid_inward_boundary_orientation` (applied by `ref_import_by_extension` after the reader).
-/
namespace Refine.Props.C08
open Refine.Model.Meshb Refine.Lemmas.Codec Refine.Gen

/-- **read(write(M)) = M**: the reader in /repo recovers every well-formed mesh from the bytes the
    writer produces, for meshb versions 2, 3 and 4 (`WellFormed` lists the conditions; it includes
    `v ∈ {2,3,4}`).  Vertex coordinates are bit patterns, so "identical coordinates" is literal. -/
theorem roundtrip_meshb (v : Nat) (m : MeshFile) (wf : WellFormed Cfg.faithful v m) :
    decodeMeshb (encodeMeshb v m) = .ok m :=
  roundtrip_meshb_with wf

/-- the reader with the C20 checks added still accepts everything the writer produces
    (here `WellFormed` also asks for vertex indices below the vertex count) -/
theorem roundtrip_meshb_fixed (v : Nat) (m : MeshFile) (wf : WellFormed Cfg.fixed v m) :
    decodeMeshbFixed (encodeMeshb v m) = .ok m :=
  roundtrip_meshb_with wf

/-- the `next_position` the writer computes *by formula* for each keyword equals the true offset of
    the following keyword, wherever the section starts: the `REIS(next_position, ftell)` checks of
    `ref_export_meshb` and `ref_import_meshb` can never fire on writer output -/
theorem offsets_exact (cfg : Cfg) (v : Nat) (m : MeshFile) (wf : WellFormed cfg v m) (pos : Nat) :
    ∀ s ∈ sections v m, pos + s.declLen = pos + (s.bytes v pos).length := by
  intro s hs
  have := (master_exact wf _ (sections_mem.1 hs)).1
  rw [Sec.bytes_length, this]

/-- consequently the keyword chain of a written file starts at byte 8 and each link points at the next
    keyword: the header scan finds every section at its true offset -/
theorem header_finds_sections (cfg : Cfg) (v : Nat) (m : MeshFile) (wf : WellFormed cfg v m) :
    ∃ kp, header cfg (encodeMeshb v m) = .ok (v, kp) := by
  obtain ⟨kp, h, _⟩ := file_facts wf
  exact ⟨kp, h⟩

/-- pyramid vertex shuffles (generated from the C): the import and export shuffles are mutually
    inverse, so are the parallel reader's and writer's, and serial and parallel sides agree -/
theorem pyrPerm_inverse :
    (∀ a b c d e : Int, permute PyrPerm.importMeshb (permute PyrPerm.exportMeshb [a, b, c, d, e]) = [a, b, c, d, e]) ∧
    (∀ a b c d e : Int, permute PyrPerm.exportMeshb (permute PyrPerm.importMeshb [a, b, c, d, e]) = [a, b, c, d, e]) ∧
    (∀ a b c d e : Int, permute PyrPerm.partMeshb (permute PyrPerm.gatherCell0 [a, b, c, d, e]) = [a, b, c, d, e]) ∧
    PyrPerm.exportMeshb = PyrPerm.gatherCell0 ∧ PyrPerm.gatherCell0 = PyrPerm.gatherCell1 ∧
    PyrPerm.importMeshb = PyrPerm.partMeshb := by
  refine ⟨?_, ?_, ?_, by decide, by decide, by decide⟩ <;> intros <;> rfl

/-- the file order of a pyramid is libMeshb's: base quadrilateral = refine's quad face (0,3,4,1), apex =
    refine's node 2 (the one node not on the quad face of the generated face table) -/
theorem pyr_file_order_is_libmeshb :
    PyrPerm.exportMeshb = [0, 3, 4, 1, 2] ∧
    (CellTables.pyr.f2n.filter fun f => f.getD 0 0 != f.getD 3 0).any
      (fun f => f == [0, 3, 4, 1] || f == [3, 4, 1, 0] || f == [4, 1, 0, 3] || f == [1, 0, 3, 4] ||
                f == [0, 1, 4, 3] || f == [1, 4, 3, 0] || f == [4, 3, 0, 1] || f == [3, 0, 1, 4]) = true := by
  decide

/-- the 16 cell keywords, the fixed keywords and `End` are pairwise distinct and below
    `REF_IMPORT_MESHB_LAST_KEYWORD`, so `key_pos[]` never confuses two sections -/
theorem keywords_distinct :
    ([3, 4] ++ cellInfos.map CellInfo.kw ++ [40, 41, 42] ++ [126] ++ [54]).Nodup ∧
    ∀ k ∈ [3, 4] ++ cellInfos.map CellInfo.kw ++ [40, 41, 42] ++ [126] ++ [54], k < CodecConsts.lastKeyword := by
  decide

/-! ### non-vacuity: a concrete mesh with a pyramid, a triangle with a negative id, geometry records of all
    three types and a CAD blob satisfies `WellFormed` for every version -/

def sampleMesh : MeshFile :=
  { twod := false
    nodes := [⟨0, 0, 0⟩, ⟨0x3ff0000000000000, 0, 0⟩, ⟨0, 0x3ff0000000000000, 0⟩,
              ⟨0, 0, 0x3ff0000000000000⟩, ⟨0x3ff0000000000000, 0x3ff0000000000000, 0xbff0000000000000⟩]
    cells := [[[0, 1, 7]], [], [], [[0, 1, 2, -3]], [], [], [], [], [[0, 1, 2, 3]], [[0, 1, 4, 2, 3]],
              [], [], [], [], [], []]
    geoms := [⟨0, 5, 5, 0, 0, 0⟩, ⟨1, 2, 9, 1, 0x3fe0000000000000, 0⟩,
              ⟨2, -4, 2147483647, 2, 0x3fd0000000000000, 0x3fe8000000000000⟩]
    cad := [0, 255, 16] }

example : WellFormed Cfg.faithful 2 sampleMesh ∧ WellFormed Cfg.fixed 3 sampleMesh ∧
    WellFormed Cfg.faithful 4 sampleMesh := by
  refine ⟨?_, ?_, ?_⟩ <;>
  exact
    { version := by decide, nodes_pos := by decide, nodes_lt := by decide, twod_z := by decide,
      cells_len := by decide, cells_lt := by decide,
      cell_ok := by unfold CellOK NodeOK int32; decide,
      geoms_sorted := by decide,
      geom_ok := by unfold GeomOK NodeOK int32; decide,
      geoms_nodup := by decide, geoms_lt := by decide, cad_lt := by decide, cad_cap := by decide,
      size_fits := by unfold posFits; decide +kernel }

example : decodeMeshb (encodeMeshb 3 sampleMesh) = .ok sampleMesh := by decide +kernel

end Refine.Props.C08
