import Refine.Props.C08Gather

/-!
  C07 — results do not depend on the number of ranks: the parallel libMeshb writer `ref_gather_meshb`
  (model `Refine.Model.GatherMeshb.gatherMeshb`, tie: stream `gathermeshb`, see Props/C08Gather.lean).

  `Stores part G GG d`: the distributed mesh `d` holds the global mesh (cells `G k` of group `k`, association records `GG`)
  under the partition `part` by the storage rule of the distributed invariant (a rank stores a cell iff it owns one of its
  vertices, knows the true part of the vertices of its cells, holds the association records of the vertices it stores).
-/
namespace Refine.Props.C07GatherMeshb
open Refine.Model.Meshb Refine.Model.Par Refine.Model.GatherMeshb Refine.Lemmas.Par Refine.Lemmas.GatherMeshb
open Refine.Lemmas.Codec Refine.Gen Refine.Props.C08Gather

/-- the file does not depend on the reduce byte limit (chunk size), as long as the chunk is ≥ 1 -/
theorem gatherMeshb_chunk_independent (add : UInt64 → UInt64 → UInt64) (rbl rbl' mv : Int) (d : Dist)
    (hnp : d.ranks ≠ []) (hN : 0 < d.nglobal) (hrbl : rbl ≤ 0 ∨ 32 ≤ rbl) (hrbl' : rbl' ≤ 0 ∨ 32 ≤ rbl')
    (honce : ∀ g, g < d.nglobal → ownerCount (d.ranks.map nodeView) g = 1)
    (hsum : SumExact add d) (hs : Shaped d) :
    gatherMeshb add rbl mv d = gatherMeshb add rbl' mv d := by
  rw [gatherMeshb_eq_encode add rbl mv d hnp hN hrbl honce hsum hs,
    gatherMeshb_eq_encode add rbl' mv d hnp hN hrbl' honce hsum hs]

/-- the distributed mesh `d` stores the global mesh (`G k` = cells of group `k`, `GG` = association records) under the
    partition `part` by the storage rule -/
structure Stores (part : Nat → Nat) (G : Nat → List GCell) (GG : List LGeom) (d : Dist) : Prop where
  cells : ∀ k, k < 16 → ∀ p ∈ d.ranks.zipIdx, Consistent part (G k) p.2 (cellView k p.1)
  cells_ne : ∀ k, k < 16 → ∀ c ∈ G k, c.nodes ≠ []
  cells_range : ∀ k, k < 16 → ∀ c ∈ G k, ∀ g ∈ c.nodes, part g < d.ranks.length
  geoms : ∀ p ∈ d.ranks.zipIdx, GeomConsistent part GG p.2 p.1
  geoms_range : ∀ g ∈ GG, part g.node < d.ranks.length

/-- per group: the gathered cells are the global cells up to order -/
theorem cells_perm (part : Nat → Nat) (G : Nat → List GCell) (GG : List LGeom) (d : Dist)
    (hst : Stores part G GG d) :
    ∀ p ∈ cellInfos.zipIdx, ((gatherCell (d.ranks.map (cellView p.2))).map (packCell p.1)).Perm
      ((G p.2).map (packCell p.1)) := by
  intro p hp
  have hk : p.2 < 16 := by
    have := List.snd_lt_of_mem_zipIdx hp
    simpa [cellInfos, CellTables.all, MeshbKeywords.keywords] using this
  have hcons : ∀ r v, (d.ranks.map (cellView p.2))[r]? = some v → Consistent part (G p.2) r v := by
    intro r v hv
    rw [List.getElem?_map] at hv
    cases hr : d.ranks[r]? with
    | none => simp [hr] at hv
    | some rk =>
      simp only [hr, Option.map_some, Option.some.injEq] at hv
      subst hv
      exact hst.cells p.2 hk (rk, r) (List.mem_zipIdx_iff_getElem?.2 hr)
  have h := Refine.Props.C07Gather.gather_cell_once part (G p.2) (d.ranks.map (cellView p.2)) hcons
    (hst.cells_ne p.2 hk) (by simpa using hst.cells_range p.2 hk)
  exact h.1.map _

/-- **gatherMeshb_content** — what is in the file, in terms of the GLOBAL mesh alone: every cell of every group exactly once
    (as a multiset of records with vertex order and id), every association record of every type exactly once with its own
    (vertex, id, gref, parameters), for every rank count and partition. -/
theorem gatherMeshb_content (part : Nat → Nat) (G : Nat → List GCell) (GG : List LGeom) (d : Dist)
    (hst : Stores part G GG d) :
    List.Forall₂ List.Perm (globalMesh d).cells (cellInfos.zipIdx.map fun p => (G p.2).map (packCell p.1)) ∧
    (∀ t, t ≤ 2 → (geomsOf t (globalMesh d).geoms).Perm ((GG.filter fun g => g.type == t).map toRec)) := by
  constructor
  · show List.Forall₂ List.Perm (gatheredCells d) _
    unfold gatheredCells
    rw [List.forall₂_map_left_iff, List.forall₂_map_right_iff, List.forall₂_same]
    exact cells_perm part G GG d hst
  · intro t ht
    show (geomsOf t (gatheredGeoms d)).Perm _
    rw [geomsOf_gathered d t ht]
    exact (ownedGeomsFrom_all part GG t d.ranks
      (fun r rk hr => hst.geoms (rk, r) (List.mem_zipIdx_iff_getElem?.2 hr)) hst.geoms_range).map _

/-- **gatherMeshb_np_independent** — two distributions (different rank counts, partitions, ghost layers, local orders, reduce
    byte limits) of the same global mesh give files whose content is the same: the same ordered list of vertices bit for
    bit, the same multiset of cells per group, the same multiset of association records per type, the same CAD bytes
    (what C07 states for the writer). -/
theorem gatherMeshb_np_independent (part part' : Nat → Nat) (G : Nat → List GCell) (GG : List LGeom) (d d' : Dist)
    (hst : Stores part G GG d) (hst' : Stores part' G GG d')
    (htwod : d.twod = d'.twod) (hNN : d.nglobal = d'.nglobal)
    (hsame : ∀ g, g < d.nglobal →
      payloadAt vzero (d.ranks.map nodeView) g = payloadAt vzero (d'.ranks.map nodeView) g)
    (hcad : cadOf d.ranks = cadOf d'.ranks) :
    (globalMesh d).twod = (globalMesh d').twod ∧ (globalMesh d).nodes = (globalMesh d').nodes ∧
    List.Forall₂ List.Perm (globalMesh d).cells (globalMesh d').cells ∧
    (∀ t, t ≤ 2 → (geomsOf t (globalMesh d).geoms).Perm (geomsOf t (globalMesh d').geoms)) ∧
    (globalMesh d).cad = (globalMesh d').cad := by
  obtain ⟨_, g1⟩ := gatherMeshb_content part G GG d hst
  obtain ⟨_, g2⟩ := gatherMeshb_content part' G GG d' hst'
  refine ⟨htwod, ?_, ?_, fun t ht => (g1 t ht).trans (g2 t ht).symm, hcad⟩
  · show gatheredNodes d = gatheredNodes d'
    unfold gatheredNodes
    rw [← hNN, ← htwod]
    apply List.map_congr_left
    intro g hg
    rw [hsame g (List.mem_range.1 hg)]
  · show List.Forall₂ List.Perm (gatheredCells d) (gatheredCells d')
    unfold gatheredCells
    rw [List.forall₂_map_left_iff, List.forall₂_map_right_iff, List.forall₂_same]
    intro p hp
    exact (cells_perm part G GG d hst p hp).trans (cells_perm part' G GG d' hst' p hp).symm

/-! ### non-vacuity: the 3-rank world of Props/C08Gather.lean and the same global mesh on one rank -/

example : Stores part3 G3 GG3 d3 :=
  { cells := by decide, cells_ne := by decide, cells_range := by decide, geoms := by decide, geoms_range := by decide }

/-- the same global mesh on ONE rank (what `ref` itself writes): same vertices, same cells and records up to order -/
def d1 : Dist :=
  { twod := false, nglobal := 7,
    ranks := [⟨(List.range 7).map fun g => ⟨g, 0, xyz3 g⟩, groups3 [edg3] [tri3] [pyr3], [gA, gB, gC, gD], [1, 2, 255]⟩] }

example : Stores (fun _ => 0) G3 GG3 d1 :=
  { cells := by decide, cells_ne := by decide, cells_range := by decide, geoms := by decide, geoms_range := by decide }

example : (globalMesh d3).nodes = (globalMesh d1).nodes ∧
    List.Forall₂ List.Perm (globalMesh d3).cells (globalMesh d1).cells ∧
    (∀ t, t ≤ 2 → (geomsOf t (globalMesh d3).geoms).Perm (geomsOf t (globalMesh d1).geoms)) := by
  have h := gatherMeshb_np_independent part3 (fun _ => 0) G3 GG3 d3 d1
    { cells := by decide, cells_ne := by decide, cells_range := by decide, geoms := by decide, geoms_range := by decide }
    { cells := by decide, cells_ne := by decide, cells_range := by decide, geoms := by decide, geoms_range := by decide }
    rfl rfl (by decide) (by decide)
  exact ⟨h.2.1, h.2.2.1, h.2.2.2.1⟩

end Refine.Props.C07GatherMeshb
