import Refine.Model.Quality
import Refine.Lemmas.ScalarReal
import Refine.Lemmas.GeomReal
import Refine.Lemmas.QualityReal
import Refine.Lemmas.QualityDeriv
import Refine.Lemmas.QualityExample
import Refine.Props.C15
import Mathlib.Tactic.Ring
import Mathlib.Tactic.Linarith
import Mathlib.Tactic.SplitIfs

/-!
  C15, quality part: theorems about the executable model of `ref_node_{tet,tri}_{epic,jac}_quality` and
  `..._dquality_dnode0` (`Model/Quality.lean`, bit-compared with the C by stream `quality`), at `α := ℝ`.
-/
namespace Refine.Props.C15Quality
open Refine Refine.Model.Geom Refine.Model.Quality Refine.ScalarReal Refine.GeomReal Refine.QualityReal
open Refine.QualityDeriv Refine.Props.C15 Refine.QualityExample
open Filter Topology

/-! ### value consistency: the quality returned together with the derivative IS the plain quality
    (the C keeps two copies of each formula; the tie binds each copy to its model, these theorems bind the models) -/

/-- `ref_node_tet_epic_dquality_dnode0` returns the quality of `ref_node_tet_epic_quality` -/
theorem tet_epic_dquality_value (minVol : ℝ) (n0 n1 n2 n3 : QNode ℝ) :
    (tetEpicDquality minVol n0 n1 n2 n3).1 = tetEpicQuality minVol n0 n1 n2 n3 := by
  unfold tetEpicDquality tetEpicQuality
  simp only [dratio_value, Refine.Props.C15.tetDvol_value]
  split
  · rfl
  · split <;> rfl

/-- `ref_node_tet_jac_dquality_dnode0` returns the quality (and the status) of `ref_node_tet_jac_quality` -/
theorem tet_jac_dquality_value (minVol : ℝ) (n0 n1 n2 n3 : QNode ℝ) :
    (tetJacDquality minVol n0 n1 n2 n3).map Prod.fst = tetJacQuality minVol n0 n1 n2 n3 := by
  unfold tetJacDquality tetJacQuality
  simp only [Refine.Props.C15.tetDvol_value]
  by_cases hv : (tetVol n0.x n1.x n2.x n3.x <=. minVol) = true
  · simp only [hv, if_true]
    rfl
  · simp only [hv, Bool.false_eq_true, if_false]
    cases Model.Matrix.expM (toMx (avg4 n0.l n1.l n2.l n3.l)) with
    | error e => rfl
    | ok mx =>
      simp only []
      cases Model.Matrix.jacobM mx with
      | error e => rfl
      | ok j =>
        simp only []
        exact map_fst_ite _ _ _ _ _

/-- `ref_node_tet_dquality_dnode0` agrees with `ref_node_tet_quality` for every selector value -/
theorem tet_dquality_value (sel : QSel) (minVol : ℝ) (n0 n1 n2 n3 : QNode ℝ) :
    (tetDquality sel minVol n0 n1 n2 n3).map Prod.fst = tetQuality sel minVol n0 n1 n2 n3 := by
  cases sel
  · simp only [tetDquality, tetQuality, Except.map, tet_epic_dquality_value]
  · exact tet_jac_dquality_value minVol n0 n1 n2 n3
  · rfl

/-- `ref_node_tri_epic_dquality_dnode0` returns the quality of `ref_node_tri_epic_quality` -/
theorem tri_epic_dquality_value (n0 n1 n2 : QNode ℝ) :
    (triEpicDquality n0 n1 n2).1 = triEpicQuality n0 n1 n2 := by
  unfold triEpicDquality triEpicQuality
  simp only [dratio_value, triDarea_value]
  split <;> rfl

/-- `ref_node_tri_jac_dquality_dnode0` returns the quality (and the status) of `ref_node_tri_jac_quality`,
    whatever the caller's `d_quality` array held -/
theorem tri_jac_dquality_value (dq0 : V3 ℝ) (n0 n1 n2 : QNode ℝ) :
    (triJacDquality dq0 n0 n1 n2).map Prod.fst = triJacQuality n0 n1 n2 := by
  unfold triJacDquality triJacQuality
  dsimp only []
  cases Model.Matrix.expM (toMx (avg3 n0.l n1.l n2.l)) with
  | error e => rfl
  | ok mx =>
    simp only []
    cases Model.Matrix.jacobM mx with
    | error e => rfl
    | ok j =>
      simp only []
      exact map_fst_ite _ _ _ _ _

/-- `ref_node_tri_dquality_dnode0` agrees with `ref_node_tri_quality` for every selector value -/
theorem tri_dquality_value (sel : QSel) (dq0 : V3 ℝ) (n0 n1 n2 : QNode ℝ) :
    (triDquality sel dq0 n0 n1 n2).map Prod.fst = triQuality sel n0 n1 n2 := by
  cases sel
  · simp only [triDquality, triQuality, Except.map, tri_epic_dquality_value]
  · exact tri_jac_dquality_value dq0 n0 n1 n2
  · rfl

/-! ### derivative exactness (jac tet): the pieces are exact polynomials, the combination is the derivative -/

/-- `Σ eᵀ M e` over the six edges is an exact quadratic in the position of node 0: the coded `d_l2`
    (`-d_e0 - d_e1 - d_e2` of `ref_matrix_vt_m_v_deriv`) is its linear term, the remainder is `3 δᵀMδ`
    (three edges move).  Together with `tetVol_affine0` (Props/C15: the volume is affine, `d_volume` exact)
    every ingredient of the coded gradient is exact, for every displacement `δ`. -/
theorem tetJacL2_expand (m : M6 ℝ) (x0 x1 x2 x3 δ : V3 ℝ) :
    tetJacL2 m (vadd x0 δ) x1 x2 x3 =
      tetJacL2 m x0 x1 x2 x3 + vdot (tetJacDL2 m x0 x1 x2 x3) δ + 3 * vtMv m δ :=
  tetJacL2_expand_aux m x0 x1 x2 x3 δ

/-- on its smooth branch (`volume > min_volume`, `exp_m`/`jacob_m` succeed, `num/l2` divisible)
    `ref_node_tet_jac_quality` returns `tetJacSmooth`: `36/3^(1/3) · (√det M̄ · vol)^(2/3) / Σ eᵀM̄e` -/
theorem tetJacQuality_smooth (minVol : ℝ) (n0 n1 n2 n3 : QNode ℝ) (mx : Model.Matrix.M6 ℝ)
    (j : Model.Matrix.M33 ℝ)
    (hexp : Model.Matrix.expM (toMx (avg4 n0.l n1.l n2.l n3.l)) = .ok mx)
    (hjac : Model.Matrix.jacobM mx = .ok j)
    (hvol : minVol < tetVol n0.x n1.x n2.x n3.x)
    (hdiv : Scalar.divisible ((Real.sqrt (Model.Matrix.detM mx) * tetVol n0.x n1.x n2.x n3.x) ^ ((2 : ℝ) / 3))
              (tetJacL2 (ofMx mx) n0.x n1.x n2.x n3.x) = true) :
    tetJacQuality minVol n0 n1 n2 n3 = .ok (tetJacSmooth mx n0.x n1.x n2.x n3.x) := by
  have hv : (tetVol n0.x n1.x n2.x n3.x <=. minVol) = false := (le_false_iff _ _).mpr hvol
  unfold tetJacQuality
  simp only [hv, hexp, hjac, Bool.false_eq_true, if_false, sqrt_eq, mul_eq, pow_eq, twoThirds_eq, hdiv, if_true,
    div_eq, tetJacSmooth]

/-- the gradient returned by `ref_node_tet_jac_dquality_dnode0` on the smooth branch IS the derivative of the
    quality with respect to the position of node 0 (vertex metrics fixed): for every direction `δ`, the function
    `t ↦ quality(x0 + t δ)` has derivative `d · δ` at `t = 0` (Mathlib `HasDerivAt`).
    `hvim` (`√det · vol ≠ 0`) holds whenever the averaged metric is positive definite, since `vol > min_volume`. -/
theorem tetJacDquality_hasDerivAt (minVol : ℝ) (n0 n1 n2 n3 : QNode ℝ) (mx : Model.Matrix.M6 ℝ)
    (j : Model.Matrix.M33 ℝ) (q : ℝ) (d δ : V3 ℝ)
    (hexp : Model.Matrix.expM (toMx (avg4 n0.l n1.l n2.l n3.l)) = .ok mx)
    (hjac : Model.Matrix.jacobM mx = .ok j)
    (hvol : minVol < tetVol n0.x n1.x n2.x n3.x)
    (hdiv : Scalar.divisible ((Real.sqrt (Model.Matrix.detM mx) * tetVol n0.x n1.x n2.x n3.x) ^ ((2 : ℝ) / 3))
              (tetJacL2 (ofMx mx) n0.x n1.x n2.x n3.x) = true)
    (hvim : Real.sqrt (Model.Matrix.detM mx) * tetVol n0.x n1.x n2.x n3.x ≠ 0)
    (h : tetJacDquality minVol n0 n1 n2 n3 = .ok (q, d)) :
    HasDerivAt (fun t => tetJacSmooth mx (line n0.x δ t) n1.x n2.x n3.x) (vdot d δ) 0 := by
  have hv : (tetVol n0.x n1.x n2.x n3.x <=. minVol) = false := (le_false_iff _ _).mpr hvol
  have hl2 : tetJacL2 (ofMx mx) n0.x n1.x n2.x n3.x ≠ 0 := divisible_ne_zero hdiv
  unfold tetJacDquality at h
  simp only [Refine.Props.C15.tetDvol_value, hv, hexp, hjac, Bool.false_eq_true, if_false, sqrt_eq, mul_eq, pow_eq,
    twoThirds_eq, hdiv, if_true, div_eq, Except.ok.injEq, Prod.mk.injEq] at h
  obtain ⟨_, hd⟩ := h
  subst hd
  have hV := tetVol_line n0.x n1.x n2.x n3.x δ
  have hL := tetJacL2_line (ofMx mx) n0.x n1.x n2.x n3.x δ
  have hV0 : tetVol (line n0.x δ 0) n1.x n2.x n3.x = tetVol n0.x n1.x n2.x n3.x := by rw [line_zero]
  have hL0 : tetJacL2 (ofMx mx) (line n0.x δ 0) n1.x n2.x n3.x = tetJacL2 (ofMx mx) n0.x n1.x n2.x n3.x := by
    rw [line_zero]
  have key := hasDerivAt_meanRatio (c36 : ℝ) (Real.sqrt (Model.Matrix.detM mx))
    (fun t => tetVol (line n0.x δ t) n1.x n2.x n3.x) (fun t => tetJacL2 (ofMx mx) (line n0.x δ t) n1.x n2.x n3.x)
    _ _ 0 hV hL (by simpa only [hV0] using hvim) (by simpa only [hL0] using hl2)
  simp only [hV0, hL0] at key
  refine HasDerivAt.congr_deriv key ?_
  simp only [vdot, tetJacDL2, negThird_eq, sub_eq, mul_eq, neg_eq, div_eq]
  field_simp
  ring

/-- … and therefore of the MODEL FUNCTION `tetJacQuality` itself (the transcription of `ref_node_tet_jac_quality`
    that the tie compares with the C): the branch conditions are open, so near `t = 0` the plain quality follows the
    smooth formula, and `t ↦ quality(node 0 at x0 + t δ)` has derivative `d · δ` at `0`, where `d` is what
    `ref_node_tet_jac_dquality_dnode0` returns.  This is the statement "the analytic derivative used by the smoother
    agrees with finite differences" in the limit. -/
theorem tetJacQuality_hasDerivAt (minVol : ℝ) (n0 n1 n2 n3 : QNode ℝ) (mx : Model.Matrix.M6 ℝ)
    (j : Model.Matrix.M33 ℝ) (q : ℝ) (d δ : V3 ℝ)
    (hexp : Model.Matrix.expM (toMx (avg4 n0.l n1.l n2.l n3.l)) = .ok mx)
    (hjac : Model.Matrix.jacobM mx = .ok j)
    (hvol : minVol < tetVol n0.x n1.x n2.x n3.x)
    (hdiv : Scalar.divisible ((Real.sqrt (Model.Matrix.detM mx) * tetVol n0.x n1.x n2.x n3.x) ^ ((2 : ℝ) / 3))
              (tetJacL2 (ofMx mx) n0.x n1.x n2.x n3.x) = true)
    (hvim : Real.sqrt (Model.Matrix.detM mx) * tetVol n0.x n1.x n2.x n3.x ≠ 0)
    (h : tetJacDquality minVol n0 n1 n2 n3 = .ok (q, d)) :
    HasDerivAt (fun t => qval (tetJacQuality minVol (n0.moved δ t) n1 n2 n3)) (vdot d δ) 0 := by
  have hsm := tetJacDquality_hasDerivAt minVol n0 n1 n2 n3 mx j q d δ hexp hjac hvol hdiv hvim h
  refine hsm.congr_of_eventuallyEq ?_
  have hV := (tetVol_line n0.x n1.x n2.x n3.x δ).continuousAt
  have hL := (tetJacL2_line (ofMx mx) n0.x n1.x n2.x n3.x δ).continuousAt
  have hV0 : tetVol (line n0.x δ 0) n1.x n2.x n3.x = tetVol n0.x n1.x n2.x n3.x := by rw [line_zero]
  have hL0 : tetJacL2 (ofMx mx) (line n0.x δ 0) n1.x n2.x n3.x = tetJacL2 (ofMx mx) n0.x n1.x n2.x n3.x := by
    rw [line_zero]
  have e1 : ∀ᶠ t in 𝓝 (0 : ℝ), minVol < tetVol (line n0.x δ t) n1.x n2.x n3.x :=
    continuousAt_const.eventually_lt hV (by rw [hV0]; exact hvol)
  have hnum : ContinuousAt (fun t => |(Real.sqrt (Model.Matrix.detM mx) * tetVol (line n0.x δ t) n1.x n2.x n3.x) ^
      ((2 : ℝ) / 3)|) 0 :=
    ((continuousAt_const.mul hV).rpow_const (Or.inr (by norm_num))).abs
  have hden : ContinuousAt (fun t => (10 : ℝ) ^ (20 : ℤ) * |tetJacL2 (ofMx mx) (line n0.x δ t) n1.x n2.x n3.x|) 0 :=
    continuousAt_const.mul hL.abs
  have e2 : ∀ᶠ t in 𝓝 (0 : ℝ),
      |(Real.sqrt (Model.Matrix.detM mx) * tetVol (line n0.x δ t) n1.x n2.x n3.x) ^ ((2 : ℝ) / 3)| <
        (10 : ℝ) ^ (20 : ℤ) * |tetJacL2 (ofMx mx) (line n0.x δ t) n1.x n2.x n3.x| := by
    refine hnum.eventually_lt hden ?_
    simp only [hV0, hL0]
    exact (divisible_iff' _ _).mp hdiv
  filter_upwards [e1, e2] with t ht1 ht2
  have := tetJacQuality_smooth minVol (n0.moved δ t) n1 n2 n3 mx j hexp hjac ht1 ((divisible_iff' _ _).mpr ht2)
  rw [this]
  rfl

/-- non-vacuity of `tetJacQuality_smooth` / `tetJacDquality_hasDerivAt`: a tet with four different vertex
    metrics (and four different stored log-metrics) on which the smooth branch is taken -/
example : ∃ q d, tetJacDquality (0 : ℝ) ex0 ex1 ex2 ex3 = .ok (q, d) ∧
    ∀ δ, HasDerivAt (fun t => qval (tetJacQuality 0 (ex0.moved δ t) ex1 ex2 ex3)) (vdot d δ) 0 := by
  obtain ⟨j, hj⟩ := ex_jac
  have hvim : Real.sqrt (Model.Matrix.detM (⟨1, 0, 0, 1, 0, 1⟩ : Model.Matrix.M6 ℝ)) *
      tetVol ex0.x ex1.x ex2.x ex3.x ≠ 0 := by
    rw [ex_det, ex_vol]; simp
  have hvol : (0 : ℝ) < tetVol ex0.x ex1.x ex2.x ex3.x := by rw [ex_vol]; norm_num
  have hdiv : Scalar.divisible ((Real.sqrt (Model.Matrix.detM (⟨1, 0, 0, 1, 0, 1⟩ : Model.Matrix.M6 ℝ)) *
      tetVol ex0.x ex1.x ex2.x ex3.x) ^ ((2 : ℝ) / 3))
      (tetJacL2 (ofMx (⟨1, 0, 0, 1, 0, 1⟩ : Model.Matrix.M6 ℝ)) ex0.x ex1.x ex2.x ex3.x) = true := by
    rw [ex_det, ex_vol, ex_l2, divisible_iff']
    have h1 : ((Real.sqrt 1 * (1 / 6 : ℝ)) ^ ((2 : ℝ) / 3)) ≤ 1 := by
      rw [Real.sqrt_one, one_mul]
      exact Real.rpow_le_one (by norm_num) (by norm_num) (by norm_num)
    have h0 : 0 ≤ ((Real.sqrt 1 * (1 / 6 : ℝ)) ^ ((2 : ℝ) / 3)) := by positivity
    rw [abs_of_nonneg h0]
    have : (1 : ℝ) < (10 : ℝ) ^ (20 : ℤ) * |(9 : ℝ)| := by
      rw [abs_of_pos (by norm_num : (0 : ℝ) < 9)]
      have : (1 : ℝ) ≤ (10 : ℝ) ^ (20 : ℤ) := one_le_zpow₀ (by norm_num) (by norm_num)
      linarith
    linarith
  have hval := tet_jac_dquality_value (0 : ℝ) ex0 ex1 ex2 ex3
  rw [tetJacQuality_smooth 0 ex0 ex1 ex2 ex3 _ j ex_exp hj hvol hdiv] at hval
  cases hq : tetJacDquality (0 : ℝ) ex0 ex1 ex2 ex3 with
  | error e => rw [hq] at hval; simp [Except.map] at hval
  | ok qd =>
    obtain ⟨q, d⟩ := qd
    exact ⟨q, d, rfl, fun δ =>
      tetJacQuality_hasDerivAt 0 ex0 ex1 ex2 ex3 _ j q d δ ex_exp hj hvol hdiv hvim hq⟩

/-! ### symmetry: even permutations of the vertices (the smoother passes the smoothed node first) -/

/-- EPIC tet quality is unchanged by the 3-cycle (0 1 2) … -/
theorem tet_epic_quality_cycle012 (mv : ℝ) (n0 n1 n2 n3 : QNode ℝ) :
    tetEpicQuality mv n1 n2 n0 n3 = tetEpicQuality mv n0 n1 n2 n3 := by
  rw [tetEpicQuality_eq, tetEpicQuality_eq, tetVol_cycle012,
    ratio_symm n1.x n0.x n1.m n0.m, ratio_symm n2.x n0.x n2.m n0.m]
  congr 1
  · simp only [min_assoc, min_left_comm, min_comm]
  · ring

/-- … and by the 3-cycle (1 2 3); the two generate all twelve even permutations -/
theorem tet_epic_quality_cycle123 (mv : ℝ) (n0 n1 n2 n3 : QNode ℝ) :
    tetEpicQuality mv n0 n2 n3 n1 = tetEpicQuality mv n0 n1 n2 n3 := by
  rw [tetEpicQuality_eq, tetEpicQuality_eq, tetVol_cycle123,
    ratio_symm n2.x n1.x n2.m n1.m, ratio_symm n3.x n1.x n3.m n1.m]
  congr 1
  · simp only [min_assoc, min_left_comm, min_comm]
  · ring

/-- JAC tet quality (status included) is unchanged by the 3-cycle (0 1 2) … -/
theorem tet_jac_quality_cycle012 (mv : ℝ) (n0 n1 n2 n3 : QNode ℝ) :
    tetJacQuality mv n1 n2 n0 n3 = tetJacQuality mv n0 n1 n2 n3 := by
  unfold tetJacQuality
  simp only [tetVol_cycle012, avg4_cycle012, tetJacL2_cycle012]

/-- … and by (1 2 3): all even permutations (the mean of the four log-metrics, the volume and `Σ eᵀMe` are symmetric) -/
theorem tet_jac_quality_cycle123 (mv : ℝ) (n0 n1 n2 n3 : QNode ℝ) :
    tetJacQuality mv n0 n2 n3 n1 = tetJacQuality mv n0 n1 n2 n3 := by
  unfold tetJacQuality
  simp only [tetVol_cycle123, avg4_cycle123, tetJacL2_cycle123]

/-- EPIC triangle quality is unchanged by cyclic (= even) permutations of the vertices -/
theorem tri_epic_quality_cycle (n0 n1 n2 : QNode ℝ) :
    triEpicQuality n1 n2 n0 = triEpicQuality n0 n1 n2 := by
  unfold triEpicQuality
  simp only [triArea_cycle, cmin_eq, ratio_symm n1.x n0.x n1.m n0.m, ratio_symm n2.x n0.x n2.m n0.m, mul_eq, add_eq]
  have hm : min (min (detOf n1.m) (detOf n2.m)) (detOf n0.m) = min (min (detOf n0.m) (detOf n1.m)) (detOf n2.m) := by
    simp only [min_assoc, min_comm, min_left_comm]
  have hs : ratioGeometric n1.x n2.x n1.m n2.m * ratioGeometric n1.x n2.x n1.m n2.m +
      ratioGeometric n0.x n1.x n0.m n1.m * ratioGeometric n0.x n1.x n0.m n1.m +
      ratioGeometric n0.x n2.x n0.m n2.m * ratioGeometric n0.x n2.x n0.m n2.m =
      ratioGeometric n0.x n1.x n0.m n1.m * ratioGeometric n0.x n1.x n0.m n1.m +
      ratioGeometric n0.x n2.x n0.m n2.m * ratioGeometric n0.x n2.x n0.m n2.m +
      ratioGeometric n1.x n2.x n1.m n2.m * ratioGeometric n1.x n2.x n1.m n2.m := by ring
  rw [hm, hs]

/-- JAC triangle quality (status included) is unchanged by cyclic permutations of the vertices -/
theorem tri_jac_quality_cycle (n0 n1 n2 : QNode ℝ) : triJacQuality n1 n2 n0 = triJacQuality n0 n1 n2 := by
  rw [triJacQuality_eq, triJacQuality_eq]
  simp only [avg3_cycle, triJacNN_cycle, triJacL2_cycle]


/-! ### derivative exactness (jac triangle) -/

/-- `n·n` (squared normal of the mapped triangle) is an exact quadratic in the position of node 0 with the coded
    bracket `2 n·dn` as linear term -/
theorem triJacNN_expand (J : J9 ℝ) (x0 x1 x2 δ : V3 ℝ) :
    triJacNN J (vadd x0 δ) x1 x2 = triJacNN J x0 x1 x2 + vdot (triJacDNN J x0 x1 x2) δ + triJacNNq J x1 x2 δ :=
  triJacNN_expand_aux J x0 x1 x2 δ

/-- the sum of squared mapped edge lengths is an exact quadratic in node 0 with the coded `dl2` as linear term -/
theorem triJacL2_expand (J : J9 ℝ) (x0 x1 x2 δ : V3 ℝ) :
    triJacL2 J (vadd x0 δ) x1 x2 =
      triJacL2 J x0 x1 x2 + vdot (triJacDL2 J x0 x1 x2) δ + 2 * vdot (vectMult J δ) (vectMult J δ) :=
  triJacL2_expand_aux J x0 x1 x2 δ

/-- on its smooth branch `ref_node_tri_jac_quality` returns `4√3 · (½|n|) / Σ|e|²` of the triangle mapped by `jac` -/
theorem triJacQuality_smooth (n0 n1 n2 : QNode ℝ) (mx : Model.Matrix.M6 ℝ) (jm : Model.Matrix.M33 ℝ)
    (hexp : Model.Matrix.expM (toMx (avg3 n0.l n1.l n2.l)) = .ok mx)
    (hjac : Model.Matrix.jacobM mx = .ok jm)
    (hdiv : Scalar.divisible ((1 / 2 : ℝ) * Real.sqrt (triJacNN (J9.ofM33 jm) n0.x n1.x n2.x))
              (triJacL2 (J9.ofM33 jm) n0.x n1.x n2.x) = true) :
    triJacQuality n0 n1 n2 =
      .ok ((cTriJac : ℝ) * ((1 / 2 : ℝ) * Real.sqrt (triJacNN (J9.ofM33 jm) n0.x n1.x n2.x) /
        triJacL2 (J9.ofM33 jm) n0.x n1.x n2.x)) := by
  rw [triJacQuality_eq, hexp]
  simp only [hjac, triJacTail, half_eq, mul_eq, sqrt_eq, div_eq, hdiv, if_true]

/-- the gradient returned by `ref_node_tri_jac_dquality_dnode0` is the derivative of the MODEL FUNCTION `triJacQuality`
    with respect to the position of node 0 (`HasDerivAt` along every line), on the smooth branch (non-degenerate mapped
    triangle, divisible quotient).  In the other branch the C leaves `d_quality` untouched (`dq0`), see Model/Quality. -/
theorem triJacQuality_hasDerivAt (dq0 : V3 ℝ) (n0 n1 n2 : QNode ℝ) (mx : Model.Matrix.M6 ℝ)
    (jm : Model.Matrix.M33 ℝ) (q : ℝ) (d δ : V3 ℝ)
    (hexp : Model.Matrix.expM (toMx (avg3 n0.l n1.l n2.l)) = .ok mx)
    (hjac : Model.Matrix.jacobM mx = .ok jm)
    (hnn : 0 < triJacNN (J9.ofM33 jm) n0.x n1.x n2.x)
    (hdiv : Scalar.divisible ((1 / 2 : ℝ) * Real.sqrt (triJacNN (J9.ofM33 jm) n0.x n1.x n2.x))
              (triJacL2 (J9.ofM33 jm) n0.x n1.x n2.x) = true)
    (h : triJacDquality dq0 n0 n1 n2 = .ok (q, d)) :
    HasDerivAt (fun t => qval (triJacQuality (n0.moved δ t) n1 n2)) (vdot d δ) 0 := by
  set J := J9.ofM33 jm with hJ
  have hl2 : triJacL2 J n0.x n1.x n2.x ≠ 0 := divisible_ne_zero hdiv
  have hN := triJacNN_line J n0.x n1.x n2.x δ
  have hL := triJacL2_line J n0.x n1.x n2.x δ
  have hN0 : triJacNN J (line n0.x δ 0) n1.x n2.x = triJacNN J n0.x n1.x n2.x := by rw [line_zero]
  have hL0 : triJacL2 J (line n0.x δ 0) n1.x n2.x = triJacL2 J n0.x n1.x n2.x := by rw [line_zero]
  -- the smooth formula has the coded derivative
  have key := hasDerivAt_triRatio (cTriJac : ℝ) (fun t => triJacNN J (line n0.x δ t) n1.x n2.x)
    (fun t => triJacL2 J (line n0.x δ t) n1.x n2.x) _ _ 0 hN hL (by simpa only [hN0] using hnn)
    (by simpa only [hL0] using hl2)
  simp only [hN0, hL0] at key
  have hd : vdot d δ = (cTriJac : ℝ) * ((1 / 2 : ℝ) * (1 / 2) / Real.sqrt (triJacNN J n0.x n1.x n2.x) *
      vdot (triJacDNN J n0.x n1.x n2.x) δ * triJacL2 J n0.x n1.x n2.x -
      (1 / 2 : ℝ) * Real.sqrt (triJacNN J n0.x n1.x n2.x) * vdot (triJacDL2 J n0.x n1.x n2.x) δ) /
      triJacL2 J n0.x n1.x n2.x / triJacL2 J n0.x n1.x n2.x := by
    have hdivm : Scalar.divisible (half *. Scalar.sqrt (triJacNN J n0.x n1.x n2.x)) (triJacL2 J n0.x n1.x n2.x) = true := by
      simpa only [half_eq, mul_eq, sqrt_eq] using hdiv
    have hform : triJacDquality dq0 n0 n1 n2 = .ok
        (cTriJac *. ((half *. Scalar.sqrt (triJacNN J n0.x n1.x n2.x)) /. triJacL2 J n0.x n1.x n2.x),
         ⟨cTriJac *. ((half *. half /. Scalar.sqrt (triJacNN J n0.x n1.x n2.x) *. (triJacDNN J n0.x n1.x n2.x).x) *.
              triJacL2 J n0.x n1.x n2.x -. (half *. Scalar.sqrt (triJacNN J n0.x n1.x n2.x)) *.
              (triJacDL2 J n0.x n1.x n2.x).x) /. triJacL2 J n0.x n1.x n2.x /. triJacL2 J n0.x n1.x n2.x,
          cTriJac *. ((half *. half /. Scalar.sqrt (triJacNN J n0.x n1.x n2.x) *. (triJacDNN J n0.x n1.x n2.x).y) *.
              triJacL2 J n0.x n1.x n2.x -. (half *. Scalar.sqrt (triJacNN J n0.x n1.x n2.x)) *.
              (triJacDL2 J n0.x n1.x n2.x).y) /. triJacL2 J n0.x n1.x n2.x /. triJacL2 J n0.x n1.x n2.x,
          cTriJac *. ((half *. half /. Scalar.sqrt (triJacNN J n0.x n1.x n2.x) *. (triJacDNN J n0.x n1.x n2.x).z) *.
              triJacL2 J n0.x n1.x n2.x -. (half *. Scalar.sqrt (triJacNN J n0.x n1.x n2.x)) *.
              (triJacDL2 J n0.x n1.x n2.x).z) /. triJacL2 J n0.x n1.x n2.x /. triJacL2 J n0.x n1.x n2.x⟩) := by
      unfold triJacDquality
      simp only [hexp, hjac]
      change (if Scalar.divisible (half *. Scalar.sqrt (triJacNN J n0.x n1.x n2.x)) (triJacL2 J n0.x n1.x n2.x) = true
        then _ else _) = _
      rw [if_pos hdivm]
      rfl
    rw [hform] at h
    simp only [Except.ok.injEq, Prod.mk.injEq] at h
    obtain ⟨_, hdd⟩ := h
    subst hdd
    have hs : Real.sqrt (triJacNN J n0.x n1.x n2.x) ≠ 0 := (Real.sqrt_pos.mpr hnn).ne'
    simp only [vdot, half_eq, sqrt_eq, mul_eq, div_eq, sub_eq]
    field_simp
    ring
  rw [hd]
  refine key.congr_of_eventuallyEq ?_
  have hnumc : ContinuousAt (fun t => |(1 / 2 : ℝ) * Real.sqrt (triJacNN J (line n0.x δ t) n1.x n2.x)|) 0 :=
    (continuousAt_const.mul (Real.continuous_sqrt.continuousAt.comp hN.continuousAt)).abs
  have hdenc : ContinuousAt (fun t => (10 : ℝ) ^ (20 : ℤ) * |triJacL2 J (line n0.x δ t) n1.x n2.x|) 0 :=
    continuousAt_const.mul hL.continuousAt.abs
  have e2 : ∀ᶠ t in 𝓝 (0 : ℝ), |(1 / 2 : ℝ) * Real.sqrt (triJacNN J (line n0.x δ t) n1.x n2.x)| <
      (10 : ℝ) ^ (20 : ℤ) * |triJacL2 J (line n0.x δ t) n1.x n2.x| := by
    refine hnumc.eventually_lt hdenc ?_
    simp only [hN0, hL0]
    exact (divisible_iff' _ _).mp hdiv
  filter_upwards [e2] with t ht
  have := triJacQuality_smooth (n0.moved δ t) n1 n2 mx jm hexp hjac ((divisible_iff' _ _).mpr ht)
  rw [this]
  rfl

/-! ### derivative of the epic tet quality: the combination is the formal derivative -/

/-- on its smooth branch `ref_node_tet_epic_quality` returns `tetEpicSmooth` at the position of node 0 -/
theorem tetEpicQuality_smooth (minVol : ℝ) (n0 n1 n2 n3 : QNode ℝ)
    (hvol : minVol < tetVol n0.x n1.x n2.x n3.x)
    (hdiv : Scalar.divisible
      ((Real.sqrt (min (min (min (detOf n0.m) (detOf n1.m)) (detOf n2.m)) (detOf n3.m)) *
          tetVol n0.x n1.x n2.x n3.x) ^ ((2 : ℝ) / 3))
      (ratioGeometric n0.x n1.x n0.m n1.m ^ 2 + ratioGeometric n0.x n2.x n0.m n2.m ^ 2 +
       ratioGeometric n0.x n3.x n0.m n3.m ^ 2 + ratioGeometric n1.x n2.x n1.m n2.m ^ 2 +
       ratioGeometric n1.x n3.x n1.m n3.m ^ 2 + ratioGeometric n2.x n3.x n2.m n3.m ^ 2) = true) :
    tetEpicQuality minVol n0 n1 n2 n3 = tetEpicSmooth n0 n1 n2 n3 n0.x := by
  have hv : (tetVol n0.x n1.x n2.x n3.x <=. minVol) = false := (le_false_iff _ _).mpr hvol
  rw [tetEpicQuality_eq]
  unfold epicTail tetEpicSmooth
  simp only [hv, Bool.false_eq_true, if_false, sqrt_eq, mul_eq, pow_eq, twoThirds_eq, div_eq, hdiv, if_true]

/-- PARTIAL.  Full statement: the gradient returned by `ref_node_tet_epic_dquality_dnode0` is the derivative of
    `tetEpicQuality` with respect to node 0.  Proved here: the volume part is exact (`tetVol_affine0`) and the
    power / sum-of-squares / quotient combination coded in the C is the formal derivative, GIVEN that the three
    edge-length gradients returned by `ref_node_dratio_dnode0` are the derivatives of `ref_node_ratio` along the line
    (hypotheses `H1 H2 H3`).  Missing: `HasDerivAt` for `ratioGeometric` itself (logarithmic mean of the two end-point
    lengths with its `< 1e-12` and `|r-1| < 1e-12` branches); that routine is tied bit for bit and its gradient is
    compared with finite differences by stream `geom_kernels`. -/
theorem tet_epic_dquality_hasDerivAt_partial (minVol : ℝ) (n0 n1 n2 n3 : QNode ℝ) (δ : V3 ℝ)
    (hvol : minVol < tetVol n0.x n1.x n2.x n3.x)
    (hdiv : Scalar.divisible
      ((Real.sqrt (min (min (min (detOf n0.m) (detOf n1.m)) (detOf n2.m)) (detOf n3.m)) *
          tetVol n0.x n1.x n2.x n3.x) ^ ((2 : ℝ) / 3))
      (ratioGeometric n0.x n1.x n0.m n1.m ^ 2 + ratioGeometric n0.x n2.x n0.m n2.m ^ 2 +
       ratioGeometric n0.x n3.x n0.m n3.m ^ 2 + ratioGeometric n1.x n2.x n1.m n2.m ^ 2 +
       ratioGeometric n1.x n3.x n1.m n3.m ^ 2 + ratioGeometric n2.x n3.x n2.m n3.m ^ 2) = true)
    (hvim : Real.sqrt (min (min (min (detOf n0.m) (detOf n1.m)) (detOf n2.m)) (detOf n3.m)) *
          tetVol n0.x n1.x n2.x n3.x ≠ 0)
    (H1 : HasDerivAt (fun t => ratioGeometric (line n0.x δ t) n1.x n0.m n1.m)
            (vdot (dratioGeometric n0.x n1.x n0.m n1.m).2 δ) 0)
    (H2 : HasDerivAt (fun t => ratioGeometric (line n0.x δ t) n2.x n0.m n2.m)
            (vdot (dratioGeometric n0.x n2.x n0.m n2.m).2 δ) 0)
    (H3 : HasDerivAt (fun t => ratioGeometric (line n0.x δ t) n3.x n0.m n3.m)
            (vdot (dratioGeometric n0.x n3.x n0.m n3.m).2 δ) 0) :
    HasDerivAt (fun t => tetEpicSmooth n0 n1 n2 n3 (line n0.x δ t))
      (vdot (tetEpicDquality minVol n0 n1 n2 n3).2 δ) 0 := by
  have hv : (tetVol n0.x n1.x n2.x n3.x <=. minVol) = false := (le_false_iff _ _).mpr hvol
  have hden := divisible_ne_zero hdiv
  have hV := tetVol_line n0.x n1.x n2.x n3.x δ
  have hV0 : tetVol (line n0.x δ 0) n1.x n2.x n3.x = tetVol n0.x n1.x n2.x n3.x := by rw [line_zero]
  have hD := hasDerivAt_sumsq _ _ _ _ _ _ (ratioGeometric n1.x n2.x n1.m n2.m ^ 2)
      (ratioGeometric n1.x n3.x n1.m n3.m ^ 2) (ratioGeometric n2.x n3.x n2.m n3.m ^ 2) 0 H1 H2 H3
  have key := hasDerivAt_meanRatio (c36 : ℝ)
    (Real.sqrt (min (min (min (detOf n0.m) (detOf n1.m)) (detOf n2.m)) (detOf n3.m)))
    (fun t => tetVol (line n0.x δ t) n1.x n2.x n3.x) _ _ _ 0 hV hD (by simpa only [hV0] using hvim)
    (by simpa only [line_zero] using hden)
  simp only [line_zero] at key
  unfold tetEpicDquality
  simp only [dratio_value, tetDvol_value, hv, Bool.false_eq_true, if_false, cmin_eq, sqrt_eq, mul_eq, pow_eq,
    twoThirds_eq, negThird_eq, add_eq, div_eq, sub_eq, lit2_eq]
  have hdiv' := hdiv
  simp only [pow_two] at hdiv'
  rw [if_pos hdiv']
  refine HasDerivAt.congr_deriv key ?_
  simp only [vdot]
  field_simp
  ring


end Refine.Props.C15Quality
