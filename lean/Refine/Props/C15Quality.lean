import Refine.Model.Quality
import Refine.Lemmas.ScalarReal
import Refine.Lemmas.GeomReal
import Refine.Lemmas.QualityReal
import Refine.Props.C15
import Mathlib.Tactic.Ring
import Mathlib.Tactic.Linarith
import Mathlib.Tactic.SplitIfs

/-!
  C15, quality part: theorems about the executable model of `ref_node_{tet,tri}_{epic,jac}_quality` and
  `..._dquality_dnode0` (`Model/Quality.lean`, bit-compared with the C by stream `quality`), at `α := ℝ`.
-/
namespace Refine.Props.C15Quality
open Refine Refine.Model.Geom Refine.Model.Quality Refine.ScalarReal Refine.GeomReal Refine.QualityReal

/-! ### value consistency: the quality returned together with the derivative IS the plain quality
    (the C keeps two copies of each formula; the tie binds each copy to its model, these theorems bind the models) -/

/-- `ref_node_tet_epic_dquality_dnode0` returns the quality of `ref_node_tet_epic_quality` -/
theorem tet_epic_dquality_value (minVol : ℝ) (n0 n1 n2 n3 : QNode ℝ) :
    (tetEpicDquality minVol n0 n1 n2 n3).1 = tetEpicQuality minVol n0 n1 n2 n3 := by
  unfold tetEpicDquality tetEpicQuality
  simp only [dratio_value, Refine.Props.C15.tetDvol_value]
  split
  · rfl
  · split <;> rfl

/-- `ref_node_tet_jac_dquality_dnode0` returns the quality (and the status) of `ref_node_tet_jac_quality` -/
theorem tet_jac_dquality_value (minVol : ℝ) (n0 n1 n2 n3 : QNode ℝ) :
    (tetJacDquality minVol n0 n1 n2 n3).map Prod.fst = tetJacQuality minVol n0 n1 n2 n3 := by
  unfold tetJacDquality tetJacQuality
  simp only [Refine.Props.C15.tetDvol_value]
  by_cases hv : (tetVol n0.x n1.x n2.x n3.x <=. minVol) = true
  · simp only [hv, if_true]
    rfl
  · simp only [hv, Bool.false_eq_true, if_false]
    cases Model.Matrix.expM (toMx (avg4 n0.l n1.l n2.l n3.l)) with
    | error e => rfl
    | ok mx =>
      simp only []
      cases Model.Matrix.jacobM mx with
      | error e => rfl
      | ok j =>
        simp only []
        exact map_fst_ite _ _ _ _ _

/-- `ref_node_tet_dquality_dnode0` agrees with `ref_node_tet_quality` for every selector value -/
theorem tet_dquality_value (sel : QSel) (minVol : ℝ) (n0 n1 n2 n3 : QNode ℝ) :
    (tetDquality sel minVol n0 n1 n2 n3).map Prod.fst = tetQuality sel minVol n0 n1 n2 n3 := by
  cases sel
  · simp only [tetDquality, tetQuality, Except.map, tet_epic_dquality_value]
  · exact tet_jac_dquality_value minVol n0 n1 n2 n3
  · rfl

/-- `ref_node_tri_epic_dquality_dnode0` returns the quality of `ref_node_tri_epic_quality` -/
theorem tri_epic_dquality_value (n0 n1 n2 : QNode ℝ) :
    (triEpicDquality n0 n1 n2).1 = triEpicQuality n0 n1 n2 := by
  unfold triEpicDquality triEpicQuality
  simp only [dratio_value, triDarea_value]
  split <;> rfl

/-- `ref_node_tri_jac_dquality_dnode0` returns the quality (and the status) of `ref_node_tri_jac_quality`,
    whatever the caller's `d_quality` array held -/
theorem tri_jac_dquality_value (dq0 : V3 ℝ) (n0 n1 n2 : QNode ℝ) :
    (triJacDquality dq0 n0 n1 n2).map Prod.fst = triJacQuality n0 n1 n2 := by
  unfold triJacDquality triJacQuality
  dsimp only []
  cases Model.Matrix.expM (toMx (avg3 n0.l n1.l n2.l)) with
  | error e => rfl
  | ok mx =>
    simp only []
    cases Model.Matrix.jacobM mx with
    | error e => rfl
    | ok j =>
      simp only []
      exact map_fst_ite _ _ _ _ _

/-- `ref_node_tri_dquality_dnode0` agrees with `ref_node_tri_quality` for every selector value -/
theorem tri_dquality_value (sel : QSel) (dq0 : V3 ℝ) (n0 n1 n2 : QNode ℝ) :
    (triDquality sel dq0 n0 n1 n2).map Prod.fst = triQuality sel n0 n1 n2 := by
  cases sel
  · simp only [triDquality, triQuality, Except.map, tri_epic_dquality_value]
  · exact tri_jac_dquality_value dq0 n0 n1 n2
  · rfl

end Refine.Props.C15Quality
