import Refine.Lemmas.CodecC20

/-!
  C20 — malformed input is rejected cleanly: obligations on the reader models.

  `decodeMeshb`, `decodeSolb`, `decodeMetricSolb` are the *faithful* models of the readers as they were in
  /repo before the `fix:` commits 084384d, 92cf05c, ee7a30e.
  `decodeMeshbFixed` … are the same readers with the three checks those commits added (`Cfg.fixed`), and are
  what /repo runs now (`Cfg.current = Cfg.fixed`; tied by the `c20_*_mut` streams: C status and grid dump =
  model status and dump on every mutant):
    * header scan: a hop is accepted only if `next_position > position` or `next_position = 0`;
    * cell / geometry records: `0 ≤ vertex index < nnode`, else `REF_INVALID`;
    * .solb: `0 ≤ count < 2^31` and `count · ldim · 8` bytes left in the file, else `REF_FAILURE`.
  Where the faithful reader lacks the check the obligation is false of it: the `*_counterexample`
  theorems prove the negation on a concrete small file (the same bytes are replayed against the real
  reader by `./check C20`, streams `c20_hang`, `c20_index`, `c20_count`).  The positive statements are
  proved for the fixed variants; after a fix in /repo only `Cfg.current` (Model/Meshb.lean) changes.
-/
namespace Refine.Props.C20
open Refine.Model.Meshb Refine.Model.Solb Refine.Lemmas.Codec

/-! ### witness files -/

/-- code 1, version 2; keyword 3 whose `next_position` is 8, its own offset; dim 3 (20 bytes) -/
def hangFile : Bytes := ofHex "0100000002000000030000000800000003000000"

/-- one vertex, one edge (1,3): vertex index 2 of 1 (92 bytes) -/
def indexFile : Bytes := ofHex
  "0100000002000000030000001400000003000000040000003c00000001000000000000000000000000000000000000000000000000000000010000000500000054000000010000000100000003000000010000003600000000000000"

/-- the replay file: the same with edge (1, 50000002) -/
def indexCrashFile : Bytes := ofHex
  "0100000002000000030000001400000003000000040000003c00000001000000000000000000000000000000000000000000000000000000010000000500000054000000010000000100000082f0fa02010000003600000000000000"

/-- edge (1, 2^31-1): `100 + MAX(0, node - orig)` overflows `int` in `ref_adj_add` -/
def indexUbFile : Bytes := ofHex
  "0100000002000000030000001400000003000000040000003c000000010000000000000000000000000000000000000000000000000000000100000005000000540000000100000001000000ffffff7f010000003600000000000000"

/-- .solb version 2 declaring 60 000 000 vertices, one value present (56 bytes) -/
def solbAllocFile : Bytes := ofHex
  "01000000020000000300000014000000030000003e00000030000000008793030100000001000000000000000000f03f3600000000000000"

/-- .solb version 4 declaring 2^32 vertices (72 bytes) -/
def solbLoopFile : Bytes := ofHex
  "0100000004000000030000001800000000000000030000003e0000003c0000000000000000000000010000000100000001000000000000000000f03f360000000000000000000000"

/-! ### totality -/

/-- the reader models are total functions (explicit fuel, structural recursion): every byte string is
    either accepted or mapped to a status; `diverge`/`undefined` mark the inputs on which the C itself
    does not return / has undefined behaviour -/
theorem decode_total (cfg : Cfg) (bs : Bytes) :
    (∃ m, decodeMeshbWith cfg bs = .ok m) ∨ (∃ e, decodeMeshbWith cfg bs = .error e) := by
  cases h : decodeMeshbWith cfg bs with
  | ok m => exact .inl ⟨m, rfl⟩
  | error e => exact .inr ⟨e, rfl⟩

/-! ### header scan -/

/-- FAITHFUL reader: the header scan of `ref_import_meshb_header` does **not** make progress on every
    hop — on `hangFile` it revisits offset 8 forever; the model exhausts its `length + 1` hops. -/
theorem header_progress_counterexample :
    decodeMeshb hangFile = .error .diverge ∧
    headerHops Cfg.faithful 2 hangFile 4 8 = [8, 8, 8, 8] := by decide +kernel

/-- the same scan serves the .solb readers -/
theorem header_progress_counterexample_solb :
    decodeSolb 1 hangFile = .error .diverge ∧ decodeMetricSolb 1 hangFile = .error .diverge := by
  decide +kernel

/-- FIXED reader: every hop of the header scan moves strictly forward -/
theorem header_progress (v : Nat) (bs : Bytes) (fuel : Nat) (start : Int) :
    (headerHops Cfg.fixed v bs fuel start).Pairwise (· < ·) :=
  headerHops_fixed_chain v bs fuel start

/-- FIXED reader: the `length + 1` hops always suffice — the scan returns on every input -/
theorem header_scan_returns (bs : Bytes) : header Cfg.fixed bs ≠ .error .diverge :=
  header_fixed_ne_diverge bs

example : decodeMeshbFixed hangFile = .error .failure := by decide +kernel

/-! ### vertex indices -/

/-- FAITHFUL reader: a file is accepted although an edge refers to vertex 2 of 1 (`ref_adj_add` only
    rejects negative vertices) -/
theorem accepted_indices_in_range_counterexample :
    ∃ m, decodeMeshb indexFile = .ok m ∧ indicesInRange m = false := by
  have h : (match decodeMeshb indexFile with | .ok m => !indicesInRange m | .error _ => false) = true := by
    decide +kernel
  cases hd : decodeMeshb indexFile with
  | error e => simp [hd] at h
  | ok m => exact ⟨m, rfl, by simpa [hd] using h⟩

/-- … with any size of index: the replay file (vertex 50 000 001 of 1) is accepted too, and for a
    vertex within 100 of `INT_MAX` the C has undefined behaviour in `ref_adj_add` -/
theorem accepted_indices_in_range_counterexample_replay :
    (∃ m, decodeMeshb indexCrashFile = .ok m ∧ indicesInRange m = false) ∧
    decodeMeshb indexUbFile = .error .undefined := by
  have h : (match decodeMeshb indexCrashFile with | .ok m => !indicesInRange m | .error _ => false) = true := by
    decide +kernel
  refine ⟨?_, by decide +kernel⟩
  cases hd : decodeMeshb indexCrashFile with
  | error e => simp [hd] at h
  | ok m => exact ⟨m, rfl, by simpa [hd] using h⟩

/-- FIXED reader: every vertex index of every accepted cell and geometry record is in `[0, nnode)` -/
theorem accepted_indices_in_range (bs : Bytes) (m : MeshFile)
    (h : decodeMeshbFixed bs = .ok m) : indicesInRange m = true :=
  fixed_indices_in_range bs m h

example : decodeMeshbFixed indexFile = .error .invalid := by decide +kernel

/-! ### declared counts -/

/-- FAITHFUL and FIXED meshb reader: an accepted file contains every record it declares — the decoded
    vertex, cell and CAD-byte counts times their record sizes fit in the file (all `fread`s of
    `ref_import_meshb` are checked, so a short file is `REF_FAILURE`) -/
theorem accepted_counts_fit (cfg : Cfg) (bs : Bytes) (m : MeshFile)
    (h : decodeMeshbWith cfg bs = .ok m) :
    m.nodes.length * 12 ≤ bs.length ∧
    (∀ p ∈ cellInfos.zip m.cells, p.2.length * (4 * (p.1.nodePer + 1)) ≤ bs.length) ∧
    m.cad.length ≤ bs.length :=
  meshb_counts_fit cfg bs m h

/-- FAITHFUL .solb reader: the data block is sized and initialised from the declared count *before*
    any value is read: a 56-byte file makes `ref_part_scalar_solb` request 480 000 000 bytes
    (and then fail on the first short `fread`) -/
theorem solb_alloc_bounded_counterexample :
    solbAllocFile.length = 56 ∧ scalarAlloc Cfg.faithful 1 solbAllocFile = 480000000 ∧
    decodeSolb 1 solbAllocFile = .error .failure := by decide +kernel

/-- FAITHFUL .solb reader: a declared count of 2^32 (version 4) truncates to `chunk = 0`;
    the `while (nnode_read < nnode)` loop never advances -/
theorem solb_loop_progress_counterexample : decodeSolb 1 solbLoopFile = .error .diverge := by
  decide +kernel

/-- FIXED .solb reader: whatever is allocated for the data block is covered by bytes present in the file -/
theorem solb_alloc_bounded (n : Nat) (bs : Bytes) : scalarAlloc Cfg.fixed n bs ≤ (bs.length : Int) :=
  scalarAlloc_fixed_le n bs

/-- a 60-byte version-4 .solb: `SolAtVertices` with 2^31-1 vertices and zero solution types -/
def solbIdleFile : Bytes :=
  [0x01,0,0,0, 0x04,0,0,0, 0x03,0,0,0, 0x18,0,0,0,0,0,0,0, 0x03,0,0,0,
   0x3e,0,0,0, 0x30,0,0,0,0,0,0,0, 0xff,0xff,0xff,0x7f,0,0,0,0, 0,0,0,0,
   0x36,0,0,0, 0,0,0,0,0,0,0,0]

/-- reader as of ee7a30e (declared count checked against `count × ldim × 8` bytes only): with zero solution
    types the stride is 0, every count up to INT_MAX passes, and the per-vertex loop runs 2^31-1 times
    on a 60-byte file without reading anything (found by stream `c20_count`, thorough tier; repaired by
    54a1e7c) -/
theorem solb_idle_loop_counterexample :
    solbIdleFile.length = 60 ∧
    scalarIdleIterations { Cfg.fixed with checkFields := false } 1 solbIdleFile = 2147483647 := by
  decide +kernel

/-- FIXED .solb reader (as /repo runs now): the per-vertex loop never runs without data behind it (for a
    section that declares no field it is skipped) ... -/
theorem solb_idle_bounded (n : Nat) (bs : Bytes) : scalarIdleIterations Cfg.fixed n bs = 0 :=
  scalarIdle_fixed_zero n bs

/-- ... and when it runs (`ldim ≥ 1`) the declared count, i.e. the number of loop iterations, is at most
    `file size / 8` -/
theorem solb_loop_bounded (n : Nat) (bs : Bytes) (dim : Nat) (next nnode : Int) (ldim : Nat) (s : Bytes)
    (hp : scalarPlan Cfg.fixed n bs = .ok (dim, next, nnode, ldim, s)) (hl : 0 < ldim) :
    nnode * 8 ≤ (bs.length : Int) :=
  scalarLoop_fixed_le hp hl

/-- the zero-field file is still accepted (refine reads back what it writes for `ldim = 0`) -/
example : decodeSolbFixed 1 solbIdleFile = .ok (0, [[]]) := by decide +kernel

example : decodeSolbFixed 1 solbAllocFile = .error .failure ∧ decodeSolbFixed 1 solbLoopFile = .error .failure := by
  decide +kernel

end Refine.Props.C20
