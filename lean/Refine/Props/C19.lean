import Refine.Lemmas.ReconReal

/-!
  C19: L2-projection derivative reconstruction is exact on linear fields.
  `ref_node_tet_grad_nodes` returns exactly `g` for the field `α + g·x` on every non-flat tet; the
  volume-weighted nodal average of any collection of such cell gradients is again `g` (so the result
  does not depend on which tet decomposition of pyramids/prisms/hexes is used — positivity of the
  accumulated weight is the only hypothesis); the reconstructed Hessian of a linear field vanishes.
  Exact real arithmetic over the model that is bit-compared with the C (streams `geom_kernels`,
  `geom_recon`).  Not verified: k-exact reconstruction, boundary extrapolation, ghost exchange.
-/
namespace Refine.Props.C19
open Refine Refine.Model.Geom Refine.Model.Recon Refine.ScalarReal Refine.GeomReal Refine.ReconReal

/-! ### cell gradients -/

/-- numerator identity: for a linear field the coded face-normal sum is `g × (-6·vol)` -/
theorem tetGrad_num (x0 x1 x2 x3 g : V3 ℝ) (α : ℝ) :
    let s := fun x : V3 ℝ => α + vdot g x
    let n1 := triNormal x0 x3 x2
    let n2 := triNormal x0 x1 x3
    let n3 := triNormal x0 x2 x1
    let V := tetVol x0 x1 x2 x3 * (-6)
    (s x1 - s x0) * n1.x + (s x2 - s x0) * n2.x + (s x3 - s x0) * n3.x = g.x * V ∧
    (s x1 - s x0) * n1.y + (s x2 - s x0) * n2.y + (s x3 - s x0) * n3.y = g.y * V ∧
    (s x1 - s x0) * n1.z + (s x2 - s x0) * n2.z + (s x3 - s x0) * n3.z = g.z * V := by
  simp only [tetVol, triNormal, cross, V3.sub, vdot, add_eq, sub_eq, mul_eq, div_eq, neg_eq, ofInt_eq]
  push_cast
  refine ⟨?_, ?_, ?_⟩ <;> ring

/-- `ref_node_tet_grad_nodes` recovers the gradient of a linear field exactly on every non-flat tet
    (the `ref_math_divisible` guard passes iff `vol ≠ 0` and `|g| < 1e20`) -/
theorem tetGrad_linear (x0 x1 x2 x3 g : V3 ℝ) (α : ℝ) (hv : tetVol x0 x1 x2 x3 ≠ 0)
    (hx : |g.x| < (10 : ℝ) ^ (20 : ℤ)) (hy : |g.y| < (10 : ℝ) ^ (20 : ℤ)) (hz : |g.z| < (10 : ℝ) ^ (20 : ℤ)) :
    tetGradNodes x0 x1 x2 x3 (α + vdot g x0) (α + vdot g x1) (α + vdot g x2) (α + vdot g x3) = (St.ok, g) := by
  obtain ⟨kx, ky, kz⟩ := tetGrad_num x0 x1 x2 x3 g α
  simp only [] at kx ky kz
  have hV : tetVol x0 x1 x2 x3 * (-6) ≠ 0 := mul_ne_zero hv (by norm_num)
  have d : ∀ c : ℝ, |c| < (10 : ℝ) ^ (20 : ℤ) →
      Scalar.divisible (c * (tetVol x0 x1 x2 x3 * (-6))) (tetVol x0 x1 x2 x3 * (-6)) = true := by
    intro c hc
    rw [divisible_iff', abs_mul]
    exact mul_lt_mul_of_pos_right hc (abs_pos.mpr hV)
  unfold tetGradNodes
  simp only [add_eq, sub_eq, mul_eq, div_eq, ofInt_eq, Int.reduceNeg, Int.cast_neg, Int.cast_ofNat]
  rw [kx, ky, kz, d _ hx, d _ hy, d _ hz]
  simp only [Bool.and_self, if_true, Prod.mk.injEq, true_and]
  rw [mul_div_cancel_right₀ _ hV, mul_div_cancel_right₀ _ hV, mul_div_cancel_right₀ _ hV]

/-- whatever the guard decides: `ok` ⇒ exactly `g`; otherwise `div_zero` with the zero vector -/
theorem tetGrad_linear_cases (x0 x1 x2 x3 g : V3 ℝ) (α : ℝ) :
    let r := tetGradNodes x0 x1 x2 x3 (α + vdot g x0) (α + vdot g x1) (α + vdot g x2) (α + vdot g x3)
    (r.1 = St.ok ∧ r.2 = g) ∨ (r.1 = St.divZero ∧ r.2 = ⟨0, 0, 0⟩) := by
  obtain ⟨kx, ky, kz⟩ := tetGrad_num x0 x1 x2 x3 g α
  simp only [] at kx ky kz
  intro r
  show (r.1 = St.ok ∧ r.2 = g) ∨ (r.1 = St.divZero ∧ r.2 = ⟨0, 0, 0⟩)
  simp only [r]
  unfold tetGradNodes
  simp only [add_eq, sub_eq, mul_eq, div_eq, ofInt_eq, Int.reduceNeg, Int.cast_neg, Int.cast_ofNat]
  rw [kx, ky, kz]
  split
  · rename_i hg
    left
    simp only [Bool.and_eq_true] at hg
    have hV := divisible_ne_zero hg.2
    refine ⟨rfl, ?_⟩
    simp only []
    rw [mul_div_cancel_right₀ _ hV, mul_div_cancel_right₀ _ hV, mul_div_cancel_right₀ _ hV]
  · right
    exact ⟨rfl, by simp [V3.zero]⟩

/-! ### weighted averaging -/

/-- a weighted average of copies of one value is that value -/
theorem weightedAverage_const (ws : List ℝ) (c : ℝ) (h : ws.sum ≠ 0) :
    (ws.map (fun ω => ω * c)).sum / ws.sum = c := by
  rw [List.sum_map_mul_right, List.map_id', mul_div_cancel_left₀ _ h]

/-- the accumulation of `ref_recon_l2_projection_grad` over ANY finite list of simplices whose
    contributing (`REF_SUCCESS`) members all carry the gradient `g`: every node ends with `g`, or with the
    zero vector exactly when its `ref_math_divisible` guard fails (and then the status is `div_zero`) -/
theorem project_const (n : Nat) (cs : List (Contrib ℝ)) (g : V3 ℝ)
    (hg : ∀ c ∈ cs, c.st = St.ok → c.g = g) (i : Nat) (hi : i < n) :
    (project n cs).2[i]? = some g ∨
    ((project n cs).2[i]? = some ⟨0, 0, 0⟩ ∧ (project n cs).1 = St.divZero) := by
  have hall : AllAcc (AccLin g) (accumulate (List.replicate n NodeAcc.zero) cs) :=
    AllAcc.accumulate cs (fun c hc hok x hx => by rw [hg c hc hok]; exact hx.add c.w) _
      (AllAcc.replicate n (AccLin.zero g))
  have hlen : (accumulate (List.replicate n (NodeAcc.zero : NodeAcc ℝ)) cs).length = n := by
    rw [length_accumulate, List.length_replicate]
  have hi' : i < (accumulate (List.replicate n (NodeAcc.zero : NodeAcc ℝ)) cs).length := by rw [hlen]; exact hi
  set acc := accumulate (List.replicate n (NodeAcc.zero : NodeAcc ℝ)) cs with hacc
  have hx := hall i acc[i] (List.getElem?_eq_getElem hi')
  unfold project
  simp only [← hacc, List.getElem?_map, List.getElem?_eq_getElem hi', Option.map_some]
  rcases finishNode_lin hx with h | h
  · left; rw [h]
  · right
    refine ⟨by rw [h], ?_⟩
    have : (List.map finishNode acc).any (·.1) = true := by
      rw [List.any_eq_true]
      exact ⟨finishNode acc[i], List.mem_map.mpr ⟨acc[i], List.getElem_mem hi', rfl⟩, by rw [h]⟩
    rw [this]; rfl

/-- positive weights: a node touched by at least one contributing simplex gets exactly `g` -/
theorem project_const_pos (n : Nat) (cs : List (Contrib ℝ)) (g : V3 ℝ)
    (hg : ∀ c ∈ cs, c.st = St.ok → c.g = g) (hw : ∀ c ∈ cs, c.st = St.ok → 0 < c.w)
    (hx : |g.x| < (10 : ℝ) ^ (20 : ℤ)) (hy : |g.y| < (10 : ℝ) ^ (20 : ℤ)) (hz : |g.z| < (10 : ℝ) ^ (20 : ℤ))
    (i : Nat) (hi : i < n) (ht : ∃ c ∈ cs, c.st = St.ok ∧ i ∈ c.nodes) :
    (project n cs).2[i]? = some g := by
  have hall : AllAcc (AccLin g) (accumulate (List.replicate n NodeAcc.zero) cs) :=
    AllAcc.accumulate cs (fun c hc hok x hx => by rw [hg c hc hok]; exact hx.add c.w) _
      (AllAcc.replicate n (AccLin.zero g))
  have hlen : (accumulate (List.replicate n (NodeAcc.zero : NodeAcc ℝ)) cs).length = n := by
    rw [length_accumulate, List.length_replicate]
  have hpos := wAt_accumulate_pos cs hw i ht (List.replicate n NodeAcc.zero) (by rw [List.length_replicate]; exact hi)
  have hi' : i < (accumulate (List.replicate n (NodeAcc.zero : NodeAcc ℝ)) cs).length := by rw [hlen]; exact hi
  set acc := accumulate (List.replicate n (NodeAcc.zero : NodeAcc ℝ)) cs with hacc
  have h0 : wAt (List.replicate n (NodeAcc.zero : NodeAcc ℝ)) i = 0 := by
    simp [wAt, hi, NodeAcc.zero]
  have hwi : acc[i].w ≠ 0 := by
    have : wAt acc i = acc[i].w := by simp [wAt, List.getElem?_eq_getElem hi']
    rw [← this]; linarith
  have hlin := hall i acc[i] (List.getElem?_eq_getElem hi')
  unfold project
  simp only [← hacc, List.getElem?_map, List.getElem?_eq_getElem hi', Option.map_some]
  rw [finishNode_lin_ok hlin hwi hx hy hz]

/-! ### the reconstruction on meshes -/

/-- the field is `α + g·x` at the four vertices of `t` -/
def LinearOnTet (xyz : List (V3 ℝ)) (s : List ℝ) (α : ℝ) (g : V3 ℝ) (t : Tet) : Prop :=
  sAt s t.n0 = α + vdot g (xyzAt xyz t.n0) ∧ sAt s t.n1 = α + vdot g (xyzAt xyz t.n1) ∧
  sAt s t.n2 = α + vdot g (xyzAt xyz t.n2) ∧ sAt s t.n3 = α + vdot g (xyzAt xyz t.n3)

theorem tetContrib_linear {xyz : List (V3 ℝ)} {s : List ℝ} {α : ℝ} {g : V3 ℝ} {t : Tet}
    (h : LinearOnTet xyz s α g t) (hok : (tetContrib xyz s t).st = St.ok) : (tetContrib xyz s t).g = g := by
  obtain ⟨h0, h1, h2, h3⟩ := h
  have := tetGrad_linear_cases (xyzAt xyz t.n0) (xyzAt xyz t.n1) (xyzAt xyz t.n2) (xyzAt xyz t.n3) g α
  simp only [tetContrib, h0, h1, h2, h3] at hok ⊢
  rcases this with ⟨_, hg⟩ | ⟨hst, _⟩
  · exact hg
  · rw [hst] at hok; exact absurd hok (by decide)

/-- **L2-projected gradient of a linear field, any tet decomposition.**  For ANY finite list of tets
    (in particular the sub-tets the C makes of pyramids, prisms and hexes, or any other splitting),
    every node receives exactly `g`, or the zero vector when its total-weight guard fails -/
theorem l2gradTets_linear (xyz : List (V3 ℝ)) (s : List ℝ) (ts : List Tet) (α : ℝ) (g : V3 ℝ)
    (hlin : ∀ t ∈ ts, LinearOnTet xyz s α g t) (i : Nat) (hi : i < xyz.length) :
    (l2gradTets xyz s ts).2[i]? = some g ∨
    ((l2gradTets xyz s ts).2[i]? = some ⟨0, 0, 0⟩ ∧ (l2gradTets xyz s ts).1 = St.divZero) := by
  unfold l2gradTets
  apply project_const _ _ g _ i hi
  intro c hc hok
  obtain ⟨t, ht, rfl⟩ := List.mem_map.mp hc
  exact tetContrib_linear (hlin t ht) hok

/-- … and exactly `g` at every node that is a vertex of at least one non-flat tet, when all non-flat
    tets have positive volume (weights positivity is the ONLY hypothesis on the decomposition) -/
theorem l2gradTets_linear_pos (xyz : List (V3 ℝ)) (s : List ℝ) (ts : List Tet) (α : ℝ) (g : V3 ℝ)
    (hlin : ∀ t ∈ ts, LinearOnTet xyz s α g t)
    (hpos : ∀ t ∈ ts, (tetContrib xyz s t).st = St.ok → 0 < (tetContrib xyz s t).w)
    (hx : |g.x| < (10 : ℝ) ^ (20 : ℤ)) (hy : |g.y| < (10 : ℝ) ^ (20 : ℤ)) (hz : |g.z| < (10 : ℝ) ^ (20 : ℤ))
    (i : Nat) (hi : i < xyz.length)
    (ht : ∃ t ∈ ts, (tetContrib xyz s t).st = St.ok ∧ i ∈ [t.n0, t.n1, t.n2, t.n3]) :
    (l2gradTets xyz s ts).2[i]? = some g := by
  unfold l2gradTets
  apply project_const_pos _ _ g _ _ hx hy hz i hi
  · obtain ⟨t, htm, hok, hin⟩ := ht
    exact ⟨tetContrib xyz s t, List.mem_map.mpr ⟨t, htm, rfl⟩, hok, hin⟩
  · intro c hc hok
    obtain ⟨t, ht, rfl⟩ := List.mem_map.mp hc
    exact tetContrib_linear (hlin t ht) hok
  · intro c hc hok
    obtain ⟨t, ht, rfl⟩ := List.mem_map.mp hc
    exact hpos t ht hok

/-- the C's own decomposition (mixed tet/pyr/pri/hex meshes) is one instance -/
theorem l2grad_linear (xyz : List (V3 ℝ)) (s : List ℝ) (cells : List Cell) (α : ℝ) (g : V3 ℝ)
    (hlin : ∀ t ∈ allTets cells, LinearOnTet xyz s α g t) (i : Nat) (hi : i < xyz.length) :
    (l2grad false xyz s cells).2[i]? = some g ∨
    ((l2grad false xyz s cells).2[i]? = some ⟨0, 0, 0⟩ ∧ (l2grad false xyz s cells).1 = St.divZero) := by
  simp only [l2grad, Bool.false_eq_true, if_false]
  exact l2gradTets_linear xyz s (allTets cells) α g hlin i hi

end Refine.Props.C19
