import Refine.Lemmas.ReconReal

/-!
  C19: L2-projection derivative reconstruction is exact on linear fields.
  `ref_node_tet_grad_nodes` returns exactly `g` for the field `α + g·x` on every non-flat tet; the
  volume-weighted nodal average of any collection of such cell gradients is again `g` (so the result
  does not depend on which tet decomposition of pyramids/prisms/hexes is used — positivity of the
  accumulated weight is the only hypothesis); the reconstructed Hessian of a linear field vanishes.
  Exact real arithmetic over the model that is bit-compared with the C (streams `geom_kernels`,
  `geom_recon`).  Not verified: k-exact reconstruction, boundary extrapolation, ghost exchange.
-/
namespace Refine.Props.C19
open Refine Refine.Model.Geom Refine.Model.Recon Refine.ScalarReal Refine.GeomReal Refine.ReconReal

/-! ### cell gradients -/

/-- numerator identity: for a linear field the coded face-normal sum is `g × (-6·vol)` -/
theorem tetGrad_num (x0 x1 x2 x3 g : V3 ℝ) (α : ℝ) :
    let s := fun x : V3 ℝ => α + vdot g x
    let n1 := triNormal x0 x3 x2
    let n2 := triNormal x0 x1 x3
    let n3 := triNormal x0 x2 x1
    let V := tetVol x0 x1 x2 x3 * (-6)
    (s x1 - s x0) * n1.x + (s x2 - s x0) * n2.x + (s x3 - s x0) * n3.x = g.x * V ∧
    (s x1 - s x0) * n1.y + (s x2 - s x0) * n2.y + (s x3 - s x0) * n3.y = g.y * V ∧
    (s x1 - s x0) * n1.z + (s x2 - s x0) * n2.z + (s x3 - s x0) * n3.z = g.z * V := by
  simp only [tetVol, triNormal, cross, V3.sub, vdot, add_eq, sub_eq, mul_eq, div_eq, neg_eq, ofInt_eq]
  push_cast
  refine ⟨?_, ?_, ?_⟩ <;> ring

/-- `ref_node_tet_grad_nodes` recovers the gradient of a linear field exactly on every non-flat tet
    (the `ref_math_divisible` guard passes iff `vol ≠ 0` and `|g| < 1e20`) -/
theorem tetGrad_linear (x0 x1 x2 x3 g : V3 ℝ) (α : ℝ) (hv : tetVol x0 x1 x2 x3 ≠ 0)
    (hx : |g.x| < (10 : ℝ) ^ (20 : ℤ)) (hy : |g.y| < (10 : ℝ) ^ (20 : ℤ)) (hz : |g.z| < (10 : ℝ) ^ (20 : ℤ)) :
    tetGradNodes x0 x1 x2 x3 (α + vdot g x0) (α + vdot g x1) (α + vdot g x2) (α + vdot g x3) = (St.ok, g) := by
  obtain ⟨kx, ky, kz⟩ := tetGrad_num x0 x1 x2 x3 g α
  simp only [] at kx ky kz
  have hV : tetVol x0 x1 x2 x3 * (-6) ≠ 0 := mul_ne_zero hv (by norm_num)
  have d : ∀ c : ℝ, |c| < (10 : ℝ) ^ (20 : ℤ) →
      Scalar.divisible (c * (tetVol x0 x1 x2 x3 * (-6))) (tetVol x0 x1 x2 x3 * (-6)) = true := by
    intro c hc
    rw [divisible_iff', abs_mul]
    exact mul_lt_mul_of_pos_right hc (abs_pos.mpr hV)
  unfold tetGradNodes
  simp only [add_eq, sub_eq, mul_eq, div_eq, ofInt_eq, Int.reduceNeg, Int.cast_neg, Int.cast_ofNat]
  rw [kx, ky, kz, d _ hx, d _ hy, d _ hz]
  simp only [Bool.and_self, if_true, Prod.mk.injEq, true_and]
  rw [mul_div_cancel_right₀ _ hV, mul_div_cancel_right₀ _ hV, mul_div_cancel_right₀ _ hV]

/-- whatever the guard decides: `ok` ⇒ exactly `g`; otherwise `div_zero` with the zero vector -/
theorem tetGrad_linear_cases (x0 x1 x2 x3 g : V3 ℝ) (α : ℝ) :
    let r := tetGradNodes x0 x1 x2 x3 (α + vdot g x0) (α + vdot g x1) (α + vdot g x2) (α + vdot g x3)
    (r.1 = St.ok ∧ r.2 = g) ∨ (r.1 = St.divZero ∧ r.2 = ⟨0, 0, 0⟩) := by
  obtain ⟨kx, ky, kz⟩ := tetGrad_num x0 x1 x2 x3 g α
  simp only [] at kx ky kz
  intro r
  show (r.1 = St.ok ∧ r.2 = g) ∨ (r.1 = St.divZero ∧ r.2 = ⟨0, 0, 0⟩)
  simp only [r]
  unfold tetGradNodes
  simp only [add_eq, sub_eq, mul_eq, div_eq, ofInt_eq, Int.reduceNeg, Int.cast_neg, Int.cast_ofNat]
  rw [kx, ky, kz]
  split
  · rename_i hg
    left
    simp only [Bool.and_eq_true] at hg
    have hV := divisible_ne_zero hg.2
    refine ⟨rfl, ?_⟩
    simp only []
    rw [mul_div_cancel_right₀ _ hV, mul_div_cancel_right₀ _ hV, mul_div_cancel_right₀ _ hV]
  · right
    exact ⟨rfl, by simp [V3.zero]⟩

/-- `ref_node_tri_grad_nodes` (square-root normalisations and all) returns, for a linear field on ANY
    non-degenerate triangle in space, exactly the component of `g` tangent to the triangle:
    `g - (g·n) n / (n·n)` with `n` the triangle normal -/
theorem triGrad_linear {x0 x1 x2 g G : V3 ℝ} (α : ℝ)
    (h : triGradNodes x0 x1 x2 (α + vdot g x0) (α + vdot g x1) (α + vdot g x2) = (St.ok, G)) :
    G = vadd g (vsmul (-(vdot g (triNormal x0 x1 x2) / vdot (triNormal x0 x1 x2) (triNormal x0 x1 x2)))
          (triNormal x0 x1 x2)) := by
  unfold triGradNodes at h
  simp only [] at h
  split at h
  · rename_i norm01 hn1
    split at h
    · rename_i norm02 hn2
      split at h
      · rename_i u1 hu1
        split at h
        · rename_i u2 hu2
          split at h
          · rename_i hg
            obtain ⟨hL1, rfl⟩ := normalize_ok hn1
            obtain ⟨hL2, rfl⟩ := normalize_ok hn2
            set e1 := x1.sub x0 with he1
            set e2 := x2.sub x0 with he2
            set L1 := Real.sqrt (vdot e1 e1) with hL1d
            set L2 := Real.sqrt (vdot e2 e2) with hL2d
            have hu1' : Refine.Model.Geom.normalize (altVec e1 e2 L2) = (St.ok, u1) := hu1
            have hu2' : Refine.Model.Geom.normalize (altVec e2 e1 L1) = (St.ok, u2) := hu2
            obtain ⟨hh1, rfl⟩ := normalize_ok hu1'
            obtain ⟨hh2, rfl⟩ := normalize_ok hu2'
            set p1 := altVec e1 e2 L2 with hp1
            set p2 := altVec e2 e1 L1 with hp2
            set h1 := Real.sqrt (vdot p1 p1) with hh1d
            set h2 := Real.sqrt (vdot p2 p2) with hh2d
            have sL1 : L1 * L1 = vdot e1 e1 := Real.mul_self_sqrt (vdot_self_nonneg e1)
            have sL2 : L2 * L2 = vdot e2 e2 := Real.mul_self_sqrt (vdot_self_nonneg e2)
            have sh1 : h1 * h1 = vdot p1 p1 := Real.mul_self_sqrt (vdot_self_nonneg p1)
            have sh2 : h2 * h2 = vdot p2 p2 := Real.mul_self_sqrt (vdot_self_nonneg p2)
            have hN1 : vdot p1 p1 * vdot e2 e2 = vdot (cross e1 e2) (cross e1 e2) := altVec_norm e1 e2 L2 sL2 hL2
            have hN2' : vdot p2 p2 * vdot e1 e1 = vdot (cross e2 e1) (cross e2 e1) := altVec_norm e2 e1 L1 sL1 hL1
            have hcr : vdot (cross e2 e1) (cross e2 e1) = vdot (cross e1 e2) (cross e1 e2) := by
              simp only [vdot, cross, sub_eq, mul_eq]; ring
            have hN2 : vdot p2 p2 * vdot e1 e1 = vdot (cross e1 e2) (cross e1 e2) := hN2'.trans hcr
            set N := vdot (cross e1 e2) (cross e1 e2) with hNd
            have hA : triArea x0 x1 x2 *. lit2 = Real.sqrt N := by
              simp only [triArea, triNormal, dot_eq, mul_eq, sqrt_eq, half_eq, lit2_eq, ← he1, ← he2, ← hNd]; ring
            have hA1 : Real.sqrt N = h1 * L2 := by
              rw [← hN1, Real.sqrt_mul (vdot_self_nonneg p1)]
            have hA2 : Real.sqrt N = h2 * L1 := by
              rw [← hN2, Real.sqrt_mul (vdot_self_nonneg p2)]
            have hd1 : α + vdot g x1 -. (α + vdot g x0) = vdot g e1 := by
              simp only [he1, V3.sub, vdot, sub_eq]; ring
            have hd2 : α + vdot g x2 -. (α + vdot g x0) = vdot g e2 := by
              simp only [he2, V3.sub, vdot, sub_eq]; ring
            have hNne : N ≠ 0 := by
              rw [← hN1]; exact mul_ne_zero (by rw [← sh1]; exact mul_ne_zero hh1 hh1)
                (by rw [← sL2]; exact mul_ne_zero hL2 hL2)
            obtain ⟨ax, ay, az⟩ := altVec_scaled e1 e2 L2 sL2 hL2
            obtain ⟨bx, by', bz⟩ := altVec_scaled e2 e1 L1 sL1 hL1
            obtain ⟨tx, ty, tz⟩ := tangent_identity e1 e2 g
            have hD : vdot e2 e1 = vdot e1 e2 := by simp only [vdot]; ring
            simp only [Prod.mk.injEq, true_and] at h
            rw [← h]
            simp only [hA, hd1, hd2, mul_eq, add_eq, div_eq, sqrt_eq, dot_eq, ← hL1d, ← hL2d]
            have hn : triNormal x0 x1 x2 = cross e1 e2 := rfl
            rw [hn]
            ext <;> simp only [vadd, vsmul]
            · rw [tri_comp _ _ p1.x p2.x h1 h2 L1 L2 _ _ _ _ N _ sh1 sh2 sL1 sL2 hN1 hN2 hA1 hA2 hh1 hh2 hL1 hL2,
                ax, bx, hD, tx]
              clear_value N; subst hNd; field_simp; ring
            · rw [tri_comp _ _ p1.y p2.y h1 h2 L1 L2 _ _ _ _ N _ sh1 sh2 sL1 sL2 hN1 hN2 hA1 hA2 hh1 hh2 hL1 hL2,
                ay, by', hD, ty]
              clear_value N; subst hNd; field_simp; ring
            · rw [tri_comp _ _ p1.z p2.z h1 h2 L1 L2 _ _ _ _ N _ sh1 sh2 sL1 sL2 hN1 hN2 hA1 hA2 hh1 hh2 hL1 hL2,
                az, bz, hD, tz]
              clear_value N; subst hNd; field_simp; ring
          · simp at h
        · rename_i st w hne hc
          simp only [Prod.mk.injEq] at h
          exact absurd h.1 hne
      · rename_i st w hne hc
        simp only [Prod.mk.injEq] at h
        exact absurd h.1 hne
    · rename_i st w hne hc
      simp only [Prod.mk.injEq] at h
      exact absurd h.1 hne
  · rename_i st w hne hc
    simp only [Prod.mk.injEq] at h
    exact absurd h.1 hne

/-- 2-D / in-plane case: when `g` lies in the triangle's plane the coded gradient is exactly `g` -/
theorem triGrad_linear_inplane {x0 x1 x2 g G : V3 ℝ} (α : ℝ) (hn : vdot g (triNormal x0 x1 x2) = 0)
    (h : triGradNodes x0 x1 x2 (α + vdot g x0) (α + vdot g x1) (α + vdot g x2) = (St.ok, G)) : G = g := by
  rw [triGrad_linear α h, hn]
  ext <;> simp [vadd, vsmul]

/-! ### weighted averaging -/

/-- a weighted average of copies of one value is that value -/
theorem weightedAverage_const (ws : List ℝ) (c : ℝ) (h : ws.sum ≠ 0) :
    (ws.map (fun ω => ω * c)).sum / ws.sum = c := by
  rw [List.sum_map_mul_right, List.map_id', mul_div_cancel_left₀ _ h]

/-- the accumulation of `ref_recon_l2_projection_grad` over ANY finite list of simplices whose
    contributing (`REF_SUCCESS`) members all carry the gradient `g`: every node ends with `g`, or with the
    zero vector exactly when its `ref_math_divisible` guard fails (and then the status is `div_zero`) -/
theorem project_const (n : Nat) (cs : List (Contrib ℝ)) (g : V3 ℝ)
    (hg : ∀ c ∈ cs, c.st = St.ok → c.g = g) (i : Nat) (hi : i < n) :
    (project n cs).2[i]? = some g ∨
    ((project n cs).2[i]? = some ⟨0, 0, 0⟩ ∧ (project n cs).1 = St.divZero) := by
  have hall : AllAcc (AccLin g) (accumulate (List.replicate n NodeAcc.zero) cs) :=
    AllAcc.accumulate cs (fun c hc hok x hx => by rw [hg c hc hok]; exact hx.add c.w) _
      (AllAcc.replicate n (AccLin.zero g))
  have hlen : (accumulate (List.replicate n (NodeAcc.zero : NodeAcc ℝ)) cs).length = n := by
    rw [length_accumulate, List.length_replicate]
  have hi' : i < (accumulate (List.replicate n (NodeAcc.zero : NodeAcc ℝ)) cs).length := by rw [hlen]; exact hi
  set acc := accumulate (List.replicate n (NodeAcc.zero : NodeAcc ℝ)) cs with hacc
  have hx := hall i acc[i] (List.getElem?_eq_getElem hi')
  unfold project
  simp only [← hacc, List.getElem?_map, List.getElem?_eq_getElem hi', Option.map_some]
  rcases finishNode_lin hx with h | h
  · left; rw [h]
  · right
    refine ⟨by rw [h], ?_⟩
    have : (List.map finishNode acc).any (·.1) = true := by
      rw [List.any_eq_true]
      exact ⟨finishNode acc[i], List.mem_map.mpr ⟨acc[i], List.getElem_mem hi', rfl⟩, by rw [h]⟩
    rw [this]; rfl

/-- positive weights: a node touched by at least one contributing simplex gets exactly `g` -/
theorem project_const_pos (n : Nat) (cs : List (Contrib ℝ)) (g : V3 ℝ)
    (hg : ∀ c ∈ cs, c.st = St.ok → c.g = g) (hw : ∀ c ∈ cs, c.st = St.ok → 0 < c.w)
    (hx : |g.x| < (10 : ℝ) ^ (20 : ℤ)) (hy : |g.y| < (10 : ℝ) ^ (20 : ℤ)) (hz : |g.z| < (10 : ℝ) ^ (20 : ℤ))
    (i : Nat) (hi : i < n) (ht : ∃ c ∈ cs, c.st = St.ok ∧ i ∈ c.nodes) :
    (project n cs).2[i]? = some g := by
  have hall : AllAcc (AccLin g) (accumulate (List.replicate n NodeAcc.zero) cs) :=
    AllAcc.accumulate cs (fun c hc hok x hx => by rw [hg c hc hok]; exact hx.add c.w) _
      (AllAcc.replicate n (AccLin.zero g))
  have hlen : (accumulate (List.replicate n (NodeAcc.zero : NodeAcc ℝ)) cs).length = n := by
    rw [length_accumulate, List.length_replicate]
  have hpos := wAt_accumulate_pos cs hw i ht (List.replicate n NodeAcc.zero) (by rw [List.length_replicate]; exact hi)
  have hi' : i < (accumulate (List.replicate n (NodeAcc.zero : NodeAcc ℝ)) cs).length := by rw [hlen]; exact hi
  set acc := accumulate (List.replicate n (NodeAcc.zero : NodeAcc ℝ)) cs with hacc
  have h0 : wAt (List.replicate n (NodeAcc.zero : NodeAcc ℝ)) i = 0 := by
    simp [wAt, hi, NodeAcc.zero]
  have hwi : acc[i].w ≠ 0 := by
    have : wAt acc i = acc[i].w := by simp [wAt, List.getElem?_eq_getElem hi']
    rw [← this]; linarith
  have hlin := hall i acc[i] (List.getElem?_eq_getElem hi')
  unfold project
  simp only [← hacc, List.getElem?_map, List.getElem?_eq_getElem hi', Option.map_some]
  rw [finishNode_lin_ok hlin hwi hx hy hz]

/-! ### the reconstruction on meshes -/

theorem tetContrib_linear {xyz : List (V3 ℝ)} {s : List ℝ} {α : ℝ} {g : V3 ℝ} {t : Tet}
    (h : LinearOnTet xyz s α g t) (hok : (tetContrib xyz s t).st = St.ok) : (tetContrib xyz s t).g = g := by
  obtain ⟨h0, h1, h2, h3⟩ := h
  have := tetGrad_linear_cases (xyzAt xyz t.n0) (xyzAt xyz t.n1) (xyzAt xyz t.n2) (xyzAt xyz t.n3) g α
  simp only [tetContrib, h0, h1, h2, h3] at hok ⊢
  rcases this with ⟨_, hg⟩ | ⟨hst, _⟩
  · exact hg
  · rw [hst] at hok; exact absurd hok (by decide)

/-- **L2-projected gradient of a linear field, any tet decomposition.**  For ANY finite list of tets
    (in particular the sub-tets the C makes of pyramids, prisms and hexes, or any other splitting),
    every node receives exactly `g`, or the zero vector when its total-weight guard fails -/
theorem l2gradTets_linear (xyz : List (V3 ℝ)) (s : List ℝ) (ts : List Tet) (α : ℝ) (g : V3 ℝ)
    (hlin : ∀ t ∈ ts, LinearOnTet xyz s α g t) (i : Nat) (hi : i < xyz.length) :
    (l2gradTets xyz s ts).2[i]? = some g ∨
    ((l2gradTets xyz s ts).2[i]? = some ⟨0, 0, 0⟩ ∧ (l2gradTets xyz s ts).1 = St.divZero) := by
  unfold l2gradTets
  apply project_const _ _ g _ i hi
  intro c hc hok
  obtain ⟨t, ht, rfl⟩ := List.mem_map.mp hc
  exact tetContrib_linear (hlin t ht) hok

/-- … and exactly `g` at every node that is a vertex of at least one non-flat tet, when all non-flat
    tets have positive volume (weights positivity is the ONLY hypothesis on the decomposition) -/
theorem l2gradTets_linear_pos (xyz : List (V3 ℝ)) (s : List ℝ) (ts : List Tet) (α : ℝ) (g : V3 ℝ)
    (hlin : ∀ t ∈ ts, LinearOnTet xyz s α g t)
    (hpos : ∀ t ∈ ts, (tetContrib xyz s t).st = St.ok → 0 < (tetContrib xyz s t).w)
    (hx : |g.x| < (10 : ℝ) ^ (20 : ℤ)) (hy : |g.y| < (10 : ℝ) ^ (20 : ℤ)) (hz : |g.z| < (10 : ℝ) ^ (20 : ℤ))
    (i : Nat) (hi : i < xyz.length)
    (ht : ∃ t ∈ ts, (tetContrib xyz s t).st = St.ok ∧ i ∈ [t.n0, t.n1, t.n2, t.n3]) :
    (l2gradTets xyz s ts).2[i]? = some g := by
  unfold l2gradTets
  apply project_const_pos _ _ g _ _ hx hy hz i hi
  · obtain ⟨t, htm, hok, hin⟩ := ht
    exact ⟨tetContrib xyz s t, List.mem_map.mpr ⟨t, htm, rfl⟩, hok, hin⟩
  · intro c hc hok
    obtain ⟨t, ht, rfl⟩ := List.mem_map.mp hc
    exact tetContrib_linear (hlin t ht) hok
  · intro c hc hok
    obtain ⟨t, ht, rfl⟩ := List.mem_map.mp hc
    exact hpos t ht hok

/-- the C's own decomposition (mixed tet/pyr/pri/hex meshes) is one instance -/
theorem l2grad_linear (xyz : List (V3 ℝ)) (s : List ℝ) (cells : List Cell) (α : ℝ) (g : V3 ℝ)
    (hlin : ∀ t ∈ allTets cells, LinearOnTet xyz s α g t) (i : Nat) (hi : i < xyz.length) :
    (l2grad false xyz s cells).2[i]? = some g ∨
    ((l2grad false xyz s cells).2[i]? = some ⟨0, 0, 0⟩ ∧ (l2grad false xyz s cells).1 = St.divZero) := by
  simp only [l2grad, Bool.false_eq_true, if_false]
  exact l2gradTets_linear xyz s (allTets cells) α g hlin i hi

/-- projecting a constant field gives the zero gradient at every node, unconditionally -/
theorem l2gradTets_const (xyz : List (V3 ℝ)) (ts : List Tet) (c : ℝ) (hwf : TetsWF xyz.length ts) :
    (l2gradTets xyz (List.replicate xyz.length c) ts).2 = List.replicate xyz.length ⟨0, 0, 0⟩ := by
  apply eq_replicate_of_getElem? _ _ _ (by unfold l2gradTets; exact length_project _ _)
  intro i hi
  have hlin : ∀ t ∈ ts, LinearOnTet xyz (List.replicate xyz.length c) c ⟨0, 0, 0⟩ t := by
    intro t ht
    obtain ⟨h0, h1, h2, h3⟩ := hwf t ht
    simp only [LinearOnTet, sAt, vdot, zero_mul, add_zero, List.getD_eq_getElem?_getD, List.getElem?_replicate,
      h0, h1, h2, h3, if_true, Option.getD_some, and_self]
  rcases l2gradTets_linear xyz _ ts c ⟨0, 0, 0⟩ hlin i hi with h | ⟨h, _⟩ <;> exact h

/-- **the L2-reconstructed Hessian of a linear field vanishes**: once the first projection returns `g`
    at every node (see `l2gradTets_linear_pos`), projecting each (constant) gradient component gives 0 -/
theorem l2hessian_linear (xyz : List (V3 ℝ)) (s : List ℝ) (ts : List Tet) (g : V3 ℝ)
    (hwf : TetsWF xyz.length ts)
    (hfirst : ∀ i, i < xyz.length → (l2gradTets xyz s ts).2[i]? = some g) :
    hessianOf (fun f => l2gradTets xyz f ts) s = List.replicate xyz.length ⟨0, 0, 0, 0, 0, 0⟩ := by
  apply hessianOf_zero _ _ g
  · exact eq_replicate_of_getElem? _ _ _ (by unfold l2gradTets; exact length_project _ _) hfirst
  · intro c; exact l2gradTets_const xyz ts c hwf


/-! ### 2-D meshes (triangles; quads are split into two triangles by the C) -/

theorem triContrib_linear {xyz : List (V3 ℝ)} {s : List ℝ} {α : ℝ} {g : V3 ℝ} {t : Tri}
    (h : LinearOnTri xyz s α g t)
    (hn : vdot g (triNormal (xyzAt xyz t.n0) (xyzAt xyz t.n1) (xyzAt xyz t.n2)) = 0)
    (hok : (triContrib xyz s t).st = St.ok) : (triContrib xyz s t).g = g := by
  obtain ⟨h0, h1, h2⟩ := h
  simp only [triContrib, h0, h1, h2] at hok ⊢
  exact triGrad_linear_inplane α hn (Prod.ext hok rfl)

/-- L2-projected gradient of a linear field on any list of triangles whose planes contain `g`
    (2-D meshes: `z` constant, `g.z = 0`): every node gets `g`, or zero when its guard fails -/
theorem l2gradTris_linear (xyz : List (V3 ℝ)) (s : List ℝ) (ts : List Tri) (α : ℝ) (g : V3 ℝ)
    (hlin : ∀ t ∈ ts, LinearOnTri xyz s α g t)
    (hplane : ∀ t ∈ ts, vdot g (triNormal (xyzAt xyz t.n0) (xyzAt xyz t.n1) (xyzAt xyz t.n2)) = 0)
    (i : Nat) (hi : i < xyz.length) :
    (l2gradTris xyz s ts).2[i]? = some g ∨
    ((l2gradTris xyz s ts).2[i]? = some ⟨0, 0, 0⟩ ∧ (l2gradTris xyz s ts).1 = St.divZero) := by
  unfold l2gradTris
  apply project_const _ _ g _ i hi
  intro c hc hok
  obtain ⟨t, ht, rfl⟩ := List.mem_map.mp hc
  exact triContrib_linear (hlin t ht) (hplane t ht) hok

/-- areas are non-negative by construction (`0.5·sqrt`), so in 2-D a node touched by a contributing
    triangle of non-zero area always gets exactly `g` -/
theorem l2gradTris_linear_pos (xyz : List (V3 ℝ)) (s : List ℝ) (ts : List Tri) (α : ℝ) (g : V3 ℝ)
    (hlin : ∀ t ∈ ts, LinearOnTri xyz s α g t)
    (hplane : ∀ t ∈ ts, vdot g (triNormal (xyzAt xyz t.n0) (xyzAt xyz t.n1) (xyzAt xyz t.n2)) = 0)
    (hpos : ∀ t ∈ ts, (triContrib xyz s t).st = St.ok → 0 < (triContrib xyz s t).w)
    (hx : |g.x| < (10 : ℝ) ^ (20 : ℤ)) (hy : |g.y| < (10 : ℝ) ^ (20 : ℤ)) (hz : |g.z| < (10 : ℝ) ^ (20 : ℤ))
    (i : Nat) (hi : i < xyz.length)
    (ht : ∃ t ∈ ts, (triContrib xyz s t).st = St.ok ∧ i ∈ [t.n0, t.n1, t.n2]) :
    (l2gradTris xyz s ts).2[i]? = some g := by
  unfold l2gradTris
  apply project_const_pos _ _ g _ _ hx hy hz i hi
  · obtain ⟨t, htm, hok, hin⟩ := ht
    exact ⟨triContrib xyz s t, List.mem_map.mpr ⟨t, htm, rfl⟩, hok, hin⟩
  · intro c hc hok
    obtain ⟨t, ht, rfl⟩ := List.mem_map.mp hc
    exact triContrib_linear (hlin t ht) (hplane t ht) hok
  · intro c hc hok
    obtain ⟨t, ht, rfl⟩ := List.mem_map.mp hc
    exact hpos t ht hok

theorem l2gradTris_const (xyz : List (V3 ℝ)) (ts : List Tri) (c : ℝ) (hwf : TrisWF xyz.length ts) :
    (l2gradTris xyz (List.replicate xyz.length c) ts).2 = List.replicate xyz.length ⟨0, 0, 0⟩ := by
  apply eq_replicate_of_getElem? _ _ _ (by unfold l2gradTris; exact length_project _ _)
  intro i hi
  have hlin : ∀ t ∈ ts, LinearOnTri xyz (List.replicate xyz.length c) c ⟨0, 0, 0⟩ t := by
    intro t ht
    obtain ⟨h0, h1, h2⟩ := hwf t ht
    simp only [LinearOnTri, sAt, vdot, zero_mul, add_zero, List.getD_eq_getElem?_getD, List.getElem?_replicate,
      h0, h1, h2, if_true, Option.getD_some, and_self]
  rcases l2gradTris_linear xyz _ ts c ⟨0, 0, 0⟩ hlin (by intro t _; simp [vdot]) i hi with h | ⟨h, _⟩ <;> exact h

/-- 2-D Hessian of a linear field vanishes -/
theorem l2hessianTris_linear (xyz : List (V3 ℝ)) (s : List ℝ) (ts : List Tri) (g : V3 ℝ)
    (hwf : TrisWF xyz.length ts)
    (hfirst : ∀ i, i < xyz.length → (l2gradTris xyz s ts).2[i]? = some g) :
    hessianOf (fun f => l2gradTris xyz f ts) s = List.replicate xyz.length ⟨0, 0, 0, 0, 0, 0⟩ := by
  apply hessianOf_zero _ _ g
  · exact eq_replicate_of_getElem? _ _ _ (by unfold l2gradTris; exact length_project _ _) hfirst
  · intro c; exact l2gradTris_const xyz ts c hwf

/-- the C's entry points on mixed meshes are instances (3-D: `allTets cells`; 2-D: `allTris cells`) -/
theorem l2hessian_mixed_linear (xyz : List (V3 ℝ)) (s : List ℝ) (cells : List Cell) (g : V3 ℝ)
    (hwf : TetsWF xyz.length (allTets cells))
    (hfirst : ∀ i, i < xyz.length → (l2grad false xyz s cells).2[i]? = some g) :
    l2hessian false xyz s cells = List.replicate xyz.length ⟨0, 0, 0, 0, 0, 0⟩ := by
  have e : (fun f => l2grad false xyz f cells) = (fun f => l2gradTets xyz f (allTets cells)) := by
    funext f; simp only [l2grad, Bool.false_eq_true, if_false]
  unfold l2hessian
  rw [e]
  apply l2hessian_linear xyz s (allTets cells) g hwf
  intro i hi
  have := hfirst i hi
  simpa only [l2grad, Bool.false_eq_true, if_false] using this

theorem l2grad2d_linear (xyz : List (V3 ℝ)) (s : List ℝ) (cells : List Cell) (α : ℝ) (g : V3 ℝ)
    (hlin : ∀ t ∈ allTris cells, LinearOnTri xyz s α g t)
    (hplane : ∀ t ∈ allTris cells, vdot g (triNormal (xyzAt xyz t.n0) (xyzAt xyz t.n1) (xyzAt xyz t.n2)) = 0)
    (i : Nat) (hi : i < xyz.length) :
    (l2grad true xyz s cells).2[i]? = some g ∨
    ((l2grad true xyz s cells).2[i]? = some ⟨0, 0, 0⟩ ∧ (l2grad true xyz s cells).1 = St.divZero) := by
  simp only [l2grad, if_true]
  exact l2gradTris_linear xyz s (allTris cells) α g hlin hplane i hi

theorem l2hessian2d_linear (xyz : List (V3 ℝ)) (s : List ℝ) (cells : List Cell) (g : V3 ℝ)
    (hwf : TrisWF xyz.length (allTris cells))
    (hfirst : ∀ i, i < xyz.length → (l2grad true xyz s cells).2[i]? = some g) :
    l2hessian true xyz s cells = List.replicate xyz.length ⟨0, 0, 0, 0, 0, 0⟩ := by
  have e : (fun f => l2grad true xyz f cells) = (fun f => l2gradTris xyz f (allTris cells)) := by
    funext f; simp only [l2grad, if_true]
  unfold l2hessian
  rw [e]
  apply l2hessianTris_linear xyz s (allTris cells) g hwf
  intro i hi
  have := hfirst i hi
  simpa only [l2grad, if_true] using this

/-! ### non-vacuity -/

example : tetVol (⟨0, 0, 0⟩ : V3 ℝ) ⟨1, 0, 0⟩ ⟨0, 1, 0⟩ ⟨0, 0, 1⟩ ≠ 0 := by
  simp only [tetVol, add_eq, sub_eq, mul_eq, div_eq, neg_eq, ofInt_eq]; norm_num

/-- hypotheses of `l2gradTets_linear_pos` and `l2hessian_linear` are satisfiable: one unit tet,
    field `1 + 2x + 3y + 4z` — every node gets `(2,3,4)` and the Hessian is zero -/
example :
    let xyz : List (V3 ℝ) := [⟨0, 0, 0⟩, ⟨1, 0, 0⟩, ⟨0, 1, 0⟩, ⟨0, 0, 1⟩]
    let s : List ℝ := [1, 3, 4, 5]
    (∀ i, i < xyz.length → (l2gradTets xyz s [⟨0, 1, 2, 3⟩]).2[i]? = some ⟨2, 3, 4⟩) ∧
    hessianOf (fun f => l2gradTets xyz f [⟨0, 1, 2, 3⟩]) s = List.replicate 4 ⟨0, 0, 0, 0, 0, 0⟩ := by
  intro xyz s
  have hlin : ∀ t ∈ [(⟨0, 1, 2, 3⟩ : Tet)], LinearOnTet xyz s 1 ⟨2, 3, 4⟩ t := by
    intro t ht
    simp only [List.mem_singleton] at ht
    subst ht
    simp only [LinearOnTet, sAt, xyzAt, xyz, s, vdot, List.getD_eq_getElem?_getD]
    norm_num
  have hv : tetVol (⟨0, 0, 0⟩ : V3 ℝ) ⟨1, 0, 0⟩ ⟨0, 1, 0⟩ ⟨0, 0, 1⟩ = 1 / 6 := by
    simp only [tetVol, add_eq, sub_eq, mul_eq, div_eq, neg_eq, ofInt_eq]; norm_num
  have hok : (tetContrib xyz s ⟨0, 1, 2, 3⟩).st = St.ok ∧ 0 < (tetContrib xyz s ⟨0, 1, 2, 3⟩).w := by
    have := tetGrad_linear (⟨0, 0, 0⟩ : V3 ℝ) ⟨1, 0, 0⟩ ⟨0, 1, 0⟩ ⟨0, 0, 1⟩ ⟨2, 3, 4⟩ 1 (by rw [hv]; norm_num)
      (by norm_num) (by norm_num) (by norm_num)
    constructor
    · simp only [tetContrib, sAt, xyzAt, xyz, s, List.getD_eq_getElem?_getD]
      norm_num [vdot] at this ⊢
      rw [this]
    · simp only [tetContrib, xyzAt, xyz, List.getD_eq_getElem?_getD]
      norm_num
      rw [hv]; norm_num
  have hfirst : ∀ i, i < xyz.length → (l2gradTets xyz s [⟨0, 1, 2, 3⟩]).2[i]? = some ⟨2, 3, 4⟩ := by
    intro i hi
    apply l2gradTets_linear_pos xyz s _ 1 ⟨2, 3, 4⟩ hlin
    · intro t ht _
      simp only [List.mem_singleton] at ht
      subst ht
      exact hok.2
    · norm_num
    · norm_num
    · norm_num
    · exact hi
    · refine ⟨⟨0, 1, 2, 3⟩, List.mem_singleton.mpr rfl, hok.1, ?_⟩
      simp only [xyz, List.length] at hi
      simp only [List.mem_cons, List.not_mem_nil, or_false]
      omega
  refine ⟨hfirst, ?_⟩
  have := l2hessian_linear xyz s [⟨0, 1, 2, 3⟩] ⟨2, 3, 4⟩
    (by intro t ht; simp only [List.mem_singleton] at ht; subst ht; simp [xyz]) hfirst
  simpa [xyz] using this

/-- `triGrad_linear`'s hypothesis (status `ok`) holds on the unit right triangle, field `1 + 2x + 3y + 7z`:
    the result is the tangential part `(2,3,0)` -/
example : triGradNodes (⟨0, 0, 0⟩ : V3 ℝ) ⟨1, 0, 0⟩ ⟨0, 1, 0⟩ 1 3 4 = (St.ok, ⟨2, 3, 0⟩) := by
  have n1 : Refine.Model.Geom.normalize (⟨1, 0, 0⟩ : V3 ℝ) = (St.ok, ⟨1, 0, 0⟩) := by
    unfold Refine.Model.Geom.normalize
    simp only [dot, add_eq, sub_eq, mul_eq, div_eq, sqrt_eq, cabs_eq, lit1_eq]
    have e : (eps13 : ℝ) = 1 * (10 : ℝ) ^ (-13 : ℤ) := by simp [eps13]
    norm_num [divisible_iff', lt_iff, e]
  have n2 : Refine.Model.Geom.normalize (⟨0, 1, 0⟩ : V3 ℝ) = (St.ok, ⟨0, 1, 0⟩) := by
    unfold Refine.Model.Geom.normalize
    simp only [dot, add_eq, sub_eq, mul_eq, div_eq, sqrt_eq, cabs_eq, lit1_eq]
    have e : (eps13 : ℝ) = 1 * (10 : ℝ) ^ (-13 : ℤ) := by simp [eps13]
    norm_num [divisible_iff', lt_iff, e]
  unfold triGradNodes
  simp only [V3.sub, sub_eq, sub_zero]
  rw [n1, n2]
  simp only [dot, add_eq, mul_eq, mul_zero, mul_one, add_zero, zero_add, sub_zero]
  rw [n1, n2]
  simp only [triArea, triNormal, cross, V3.sub, dot, add_eq, sub_eq, mul_eq, div_eq, sqrt_eq, half_eq, lit2_eq]
  norm_num [divisible_iff']

end Refine.Props.C19
