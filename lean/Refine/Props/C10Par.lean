import Refine.Lemmas.ReconParRoundoff
import Refine.Lemmas.ReconParRadii

/-!
  C10, parallel part: `ref_recon_roundoff_limit` on a distributed mesh (the floor step of the multiscale pipeline,
  `Refine.Model.ReconPar.roundoffLimitPar`, compared with the real function on np = 1..3 ranks by stream
  `reconpar_roundoff`).  Same convention as `Props/C10.lean`: the floor theorem needs only the orthonormal frame of
  `ref_matrix_diag_m` (proved unconditionally in C16), not an exact decomposition, so no `IsEigSys` hypothesis is left.
-/
namespace Refine.Props.C10Par
open Refine Refine.Model.Geom Refine.Model.ReconPar Refine.ScalarReal Refine.ReconParGhost Refine.ReconParRoundoff
open Refine.Model.Comm (World RefType)
open Refine.Model.Metric (roundoffLimit radii SPD)
open Refine.ReconParMesh Refine.ReconParCells Refine.ReconParRadii

/-- **after `ref_recon_roundoff_limit` every tensor held by every rank — owned or ghost — is positive definite**, for
    every rank count, every distribution satisfying the structural invariant `WorldOK`, every reconstructed Hessian
    field (indefinite, singular, zero) and whatever the per-rank radii are: when the floor step succeeds on every rank
    the refresh completes (first clause) and the result is SPD everywhere (second clause) -/
theorem roundoffLimitPar_spd (gxyz : List (V3 ℝ)) (w : World Rank) (hw : WorldOK w)
    (recon : World (List (M6 ℝ))) (hlen : recon.length = w.length)
    (hshape : ∀ (me : Nat) (r : Rank) (m : List (M6 ℝ)), w[me]? = some r → recon[me]? = some m →
      m.length = r.l2g.length) :
    roundoffLimitPar gxyz w recon ≠ .ok none ∧
    ∀ out, roundoffLimitPar gxyz w recon = .ok (some out) →
      out.length = w.length ∧ ∀ o ∈ out, ∀ m ∈ o, SPD (toMat m) := by
  unfold roundoffLimitPar
  set loc := List.zipWith (fun (r : Rank) (m : List (M6 ℝ)) =>
    roundoffLimit (r.xyz gxyz) r.cells (m.map toMat)) w recon with hloc
  cases hseq : sequenceE loc with
  | error e =>
    simp only [hseq]
    exact ⟨by simp, by intro out h; simp at h⟩
  | ok ms =>
    simp only [hseq]
    have hl := sequenceE_ok loc ms hseq
    have hmslen : ms.length = w.length := by
      have : loc.length = ms.length := by rw [hl]; simp
      rw [← this, hloc]; simp [hlen]
    -- every rank's result: right length, all SPD
    have hms : ∀ (me : Nat) (r : Rank) (x : List (Refine.Model.Matrix.M6 ℝ)), w[me]? = some r → ms[me]? = some x →
        x.length = r.l2g.length ∧ ∀ t ∈ x, SPD t := by
      intro me r x hr hx
      have hme : me < recon.length := by
        rw [hlen]
        by_contra hcon
        rw [List.getElem?_eq_none (by omega)] at hr
        exact absurd hr (by simp)
      have hm := getElem?_of_lt recon hme
      have h1 : loc[me]? = some (roundoffLimit (r.xyz gxyz) r.cells (recon[me].map toMat)) := by
        simp [hloc, List.getElem?_zipWith, hr, hm]
      rw [hl, List.getElem?_map, hx, Option.map_some, Option.some.injEq] at h1
      refine ⟨?_, Refine.Props.C10.roundoffLimit_spd _ _ _ _ h1.symm⟩
      have := go_length _ _ _ h1.symm
      rw [this, radii_length, List.length_map, hshape me r _ hr hm]
      simp [Rank.xyz]
    set rows : World (List (List ℝ)) := ((ms.map (·.map ofMat)).map (·.map m6row)) with hrowsdef
    have hrowsget : ∀ (me : Nat) (x : List (Refine.Model.Matrix.M6 ℝ)), ms[me]? = some x →
        rows[me]? = some ((x.map ofMat).map m6row) := by
      intro me x hx
      simp [hrowsdef, hx]
    have hrows : RowsOK 6 w rows := by
      refine ⟨by simp [hrowsdef, hmslen], ?_⟩
      intro me r rw hr hrw
      have hme : me < ms.length := by
        rw [hmslen]
        by_contra hcon
        rw [List.getElem?_eq_none (by omega)] at hr
        exact absurd hr (by simp)
      have hx := getElem?_of_lt ms hme
      rw [hrowsget me _ hx] at hrw
      obtain rfl := Option.some.inj hrw
      refine ⟨by rw [List.length_map, List.length_map]; exact (hms me r _ hr hx).1, ?_⟩
      intro y hy
      obtain ⟨v, _, rfl⟩ := List.mem_map.mp hy
      rfl
    obtain ⟨out0, hout, houtlen, hspec⟩ :=
      @ghostRows_spec ℝ Scalar.instInhabited RefType.dbl rfl 6 (le_refl 6) w rows hw hrows
    have hg : ghostM6 w (ms.map (·.map ofMat)) = some (out0.map (·.map rowM6)) := by
      unfold ghostM6
      rw [← hrowsdef, hout]; rfl
    simp only [hg]
    refine ⟨by simp, ?_⟩
    intro out h
    simp only [Except.ok.injEq, Option.some.injEq] at h
    subst h
    refine ⟨by simp [houtlen], ?_⟩
    intro o ho m hm
    obtain ⟨o0, ho0, rfl⟩ := List.mem_map.mp ho
    obtain ⟨row, hrow, rfl⟩ := List.mem_map.mp hm
    obtain ⟨me, hme, rfl⟩ := List.getElem_of_mem ho0
    obtain ⟨i, hi, rfl⟩ := List.getElem_of_mem hrow
    have hmew : me < w.length := houtlen ▸ hme
    have hr := getElem?_of_lt w hmew
    have hmems : me < ms.length := hmslen ▸ hmew
    have hx := getElem?_of_lt ms hmems
    obtain ⟨o', ho', holen, hval⟩ := hspec me w[me] _ hr (hrowsget me _ hx)
    rw [getElem?_of_lt out0 hme, Option.some.injEq] at ho'
    subst ho'
    have hrm : w[me] ∈ w := List.getElem_mem hmew
    have hil : i < w[me].l2g.length := holen ▸ hi
    have hpl : i < w[me].part.length := by rw [hw.partLen _ hrm]; exact hil
    obtain ⟨hown, hghost⟩ := hval i _ (getElem?_of_lt _ hpl)
    -- the row is `m6row (ofMat t)` of an SPD `t` of some rank
    have key : ∀ (k : Nat) (rk : Rank) (xk : List (Refine.Model.Matrix.M6 ℝ)) (j : Nat), w[k]? = some rk →
        ms[k]? = some xk → out0[me][i]? = ((xk.map ofMat).map m6row)[j]? → SPD (toMat (rowM6 out0[me][i])) := by
      intro k rk xk j hrk hxk he
      rw [getElem?_of_lt _ hi] at he
      have hj : j < xk.length := by
        by_contra hcon
        rw [List.getElem?_eq_none (by simp; omega)] at he
        exact absurd he (by simp)
      rw [List.getElem?_map, List.getElem?_map, getElem?_of_lt _ hj, Option.map_some, Option.map_some,
        Option.some.injEq] at he
      rw [he, Refine.ReconParRoundoff.rowM6_m6row, toMat_ofMat]
      exact (hms k rk xk hrk hxk).2 _ (List.getElem_mem hj)
    by_cases hp : w[me].part[i] = me
    · exact key me _ _ i hr hx (hown hp)
    · obtain ⟨ro, j, hro, hj, _⟩ := hw.owner me _ hr i _ (getElem?_of_lt _ hpl) hp
      have hpk : w[me].part[i] < ms.length := by
        rw [hmslen]
        by_contra hcon
        rw [List.getElem?_eq_none (by omega)] at hro
        exact absurd hro (by simp)
      have hxo := getElem?_of_lt ms hpk
      exact key _ ro _ j hro hxo (hghost hp ro j _ hro hj (hrowsget _ _ hxo))

/-- **the eigenvalue floor does not depend on the partition**: at a stored vertex all of whose cells are stored on
    the rank (clause (ii) of the distributed invariant at the cell level: every owned vertex) the radius
    `ref_recon_roundoff_limit` computes from the rank's own edges — the shortest edge at the vertex, `-1` when there
    is none — is the radius of the global mesh, whatever the order in which the rank walks its cells (a minimum is
    exact in floating point too).  A floor taken from a rank-local mesh size would break this (mutation caught by the
    oracle of stream `reconpar_roundoff`). -/
theorem roundoff_radius_partition_independent (gxyz : List (V3 ℝ)) (gcells : List Refine.Model.Recon.Cell) (r : Rank)
    (i : Nat) (hnd : r.l2g.Nodup) (hi : i < r.l2g.length) (hg : gOf r.l2g i < gxyz.length)
    (hL : ∀ c ∈ r.cells, CellWF c) (hG : ∀ c ∈ gcells, CellWF c)
    (hnodes : ∀ c ∈ r.cells, ∀ v ∈ c.nodes, v < r.l2g.length)
    (h : ((r.cells.map (globCell r.l2g)).filter (cellTouches (gOf r.l2g i))).Perm
      (gcells.filter (cellTouches (gOf r.l2g i)))) :
    (radii (r.xyz gxyz) r.cells)[i]? = (radii gxyz gcells)[gOf r.l2g i]? :=
  radii_local_eq_global gxyz gcells r i hnd hi hg hL hG hnodes h

/-- … with its hypotheses met at the vertex `v1` owned by rank 1 of a 2-rank world (two tets, local numbering
    shuffled): both tets around it are stored -/
example (gxyz : List (V3 ℝ)) (hlen : gxyz.length = 5) :
    (radii ((⟨[1, 2, 3, 4, 0], [1, 1, 1, 1, 0],
        [⟨.tet, [0, 1, 2, 3]⟩, ⟨.tet, [4, 0, 1, 2]⟩], []⟩ : Rank).xyz gxyz)
      [⟨.tet, [0, 1, 2, 3]⟩, ⟨.tet, [4, 0, 1, 2]⟩])[0]? =
    (radii gxyz [⟨.tet, [0, 1, 2, 3]⟩, ⟨.tet, [1, 2, 3, 4]⟩])[1]? :=
  roundoff_radius_partition_independent gxyz [⟨.tet, [0, 1, 2, 3]⟩, ⟨.tet, [1, 2, 3, 4]⟩]
    ⟨[1, 2, 3, 4, 0], [1, 1, 1, 1, 0], [⟨.tet, [0, 1, 2, 3]⟩, ⟨.tet, [4, 0, 1, 2]⟩], []⟩ 0
    (by decide) (by decide) (by rw [hlen]; decide) (by intro c hc; simp at hc; rcases hc with rfl | rfl <;> rfl)
    (by intro c hc; simp at hc; rcases hc with rfl | rfl <;> rfl)
    (by decide)
    (by
      show List.Perm [(⟨.tet, [1, 2, 3, 4]⟩ : Refine.Model.Recon.Cell), ⟨.tet, [0, 1, 2, 3]⟩]
        [⟨.tet, [0, 1, 2, 3]⟩, ⟨.tet, [1, 2, 3, 4]⟩]
      exact List.Perm.swap _ _ _)

/-! ### non-vacuity -/

/-- a 2-rank world: each rank owns one end of a segment and stores the other end as a ghost -/
def exW : World Rank := [⟨[0, 1], [0, 1], [], [(0, 1)]⟩, ⟨[1, 0], [1, 0], [], [(0, 1)]⟩]

/-- the structural hypotheses of `roundoffLimitPar_spd` hold for it, with any Hessian field of the right shape -/
example : WorldOK exW ∧
    ∀ a b c d : M6 ℝ, ([[a, b], [c, d]] : World (List (M6 ℝ))).length = exW.length ∧
      ∀ (me : Nat) (r : Rank) (m : List (M6 ℝ)), exW[me]? = some r → [[a, b], [c, d]][me]? = some m →
        m.length = r.l2g.length := by
  refine ⟨⟨?_, ?_, ?_, by decide⟩, ?_⟩
  · intro r hr
    simp only [exW, List.mem_cons, List.not_mem_nil, or_false] at hr
    rcases hr with rfl | rfl <;> decide
  · intro r hr
    simp only [exW, List.mem_cons, List.not_mem_nil, or_false] at hr
    rcases hr with rfl | rfl <;> rfl
  · intro me r hr i p hp hne
    match me, hr with
    | 0, hr =>
      obtain rfl : (⟨[0, 1], [0, 1], [], [(0, 1)]⟩ : Rank) = r := by simpa [exW] using hr
      match i, hp with
      | 0, hp => simp at hp; omega
      | 1, hp => obtain rfl : 1 = p := by simpa using hp
                 exact ⟨⟨[1, 0], [1, 0], [], [(0, 1)]⟩, 0, rfl, rfl, rfl⟩
      | k + 2, hp => simp at hp
    | 1, hr =>
      obtain rfl : (⟨[1, 0], [1, 0], [], [(0, 1)]⟩ : Rank) = r := by simpa [exW] using hr
      match i, hp with
      | 0, hp => simp at hp; omega
      | 1, hp => obtain rfl : 0 = p := by simpa using hp
                 exact ⟨⟨[0, 1], [0, 1], [], [(0, 1)]⟩, 0, rfl, rfl, rfl⟩
      | k + 2, hp => simp at hp
    | k + 2, hr => simp [exW] at hr
  · intro a b c d
    refine ⟨rfl, ?_⟩
    intro me r m hr hm
    match me, hr, hm with
    | 0, hr, hm =>
      obtain rfl : (⟨[0, 1], [0, 1], [], [(0, 1)]⟩ : Rank) = r := by simpa [exW] using hr
      obtain rfl : [a, b] = m := by simpa using hm
      rfl
    | 1, hr, hm =>
      obtain rfl : (⟨[1, 0], [1, 0], [], [(0, 1)]⟩ : Rank) = r := by simpa [exW] using hr
      obtain rfl : [c, d] = m := by simpa using hm
      rfl
    | k + 2, hr, _ => simp [exW] at hr

end Refine.Props.C10Par
