import Refine.Model.Dist
import Refine.Lemmas.DistGhostFull

/-!
  C06 — ghost refresh (`ref_node_ghost_int / _glob / _dbl`), full strength.

  `ghostRefresh_spec` is about the executable model `Refine.Model.Dist.ghost` (the literal `alltoall` of the
  bucket sizes, `alltoallv` of the requested globals, owner-side `ref_node_local` lookup, reply `alltoallv`, store
  loop; tied to `ref_node.c` by the `dist_fn` ghost ops) and holds for EVERY rank count (0 and 1 included) and every
  `ldim` (0 included).  The two `ref_mpi_alltoallv` calls are discharged with `C17.alltoallv_spec`; what MPI itself
  does is the trusted specification of DESIGN.md section 4.  Proof: `Refine/Lemmas/DistGhostFull.lean`.

  Vocabulary (`Refine/Lemmas/DistGhostFull.lean`):
  * `ownerVals w nd = (lookupVals (w.getD nd.part.toNat []) nd.glob).getD []` — what rank `nd.part` holds for
    the global `nd.glob`;
  * `nGhosts r nodes = #{nd ∈ nodes ∣ nd.part ≠ r}` — `a_total` of rank `r`;
  * `nRequests w r = ∑ s, #{nd ∈ w[s] ∣ nd.part ≠ s ∧ nd.part = r}` — `b_total` of rank `r`.
-/
namespace Refine.Props.C06Ghost
open Refine.Model.Dist Refine.Model.Comm Refine.Lemmas.DistGhostFull

/-- **ghost refresh**: `ref_node_ghost_*` completes on every rank and afterwards every ghost entry (`part ≠ rank`)
    carries the values its owner (rank `part`) holds for that global, while every owned entry, every global and every
    part is what it was.  Hypotheses:
    * `hty` — the type is one `ref_type_mpi_type` knows (else `ref_mpi_alltoallv` returns `REF_IMPLEMENT`);
    * `hnd` — a rank lists a global once (`ref_node_local` is a function);
    * `hown` — the part of every ghost is a rank in range that stores that global with `ldim` values (otherwise the
      owner's `ref_node_local` fails with `REF_NOT_FOUND` and the other ranks block: the model returns `none`; a part
      outside `[0, np)` indexes `a_size` out of bounds in the C);
    * `hsz` — `a_total` and `b_total` of every rank, times `max 1 ldim`, fit an `int`: the guards
      `ref_math_int_multipliable / _addable` of the two `ref_mpi_alltoallv` calls (the first moves one `REF_GLOB`
      per item, the second `ldim` scalars).  The C takes this path when `a_total, b_total < REF_INT_MAX / ldim`
      (which divides by `ldim`: `ldim ≥ 1` there; the model has no division and the theorem covers `ldim = 0`, where
      nothing is stored but empty lists).
    With `w.length ≤ 1` `ghost` returns the world as it is (`!ref_mpi_para`), and `hown` leaves no ghosts, so the
    right-hand side is `w`. -/
theorem ghostRefresh_spec {β : Type} [Inhabited β] (ty : RefType) (hty : ty.mpiOk = true) (ldim : Nat)
    (w : World (List (GNode β)))
    (hnd : ∀ nodes ∈ w, (nodes.map (·.glob)).Nodup)
    (hown : ∀ r (hr : r < w.length), ∀ nd ∈ w[r], nd.part ≠ (r : Int) →
        0 ≤ nd.part ∧ nd.part.toNat < w.length ∧
        ∃ od ∈ w.getD nd.part.toNat [], od.glob = nd.glob ∧ od.vals.length = ldim)
    (hsz : ∀ r (hr : r < w.length),
        ((max 1 ldim : Nat) : Int) * (nGhosts r w[r] : Int) ≤ INT_MAX ∧
        ((max 1 ldim : Nat) : Int) * (nRequests w r : Int) ≤ INT_MAX) :
    ghost ty ldim w = some (w.mapIdx fun r nodes =>
      nodes.map fun nd => if nd.part = (r : Int) then nd else { nd with vals := ownerVals w nd }) :=
  ghost_full ty hty ldim w hnd hown hsz

/-- the refresh touches nothing but ghost values: the world keeps its ranks, every rank keeps its `(global, part)`
    list position by position, and every owned entry (`part = rank`) is literally unchanged -/
theorem ghostRefresh_owned_unchanged {β : Type} [Inhabited β] (ty : RefType) (hty : ty.mpiOk = true) (ldim : Nat)
    (w : World (List (GNode β)))
    (hnd : ∀ nodes ∈ w, (nodes.map (·.glob)).Nodup)
    (hown : ∀ r (hr : r < w.length), ∀ nd ∈ w[r], nd.part ≠ (r : Int) →
        0 ≤ nd.part ∧ nd.part.toNat < w.length ∧
        ∃ od ∈ w.getD nd.part.toNat [], od.glob = nd.glob ∧ od.vals.length = ldim)
    (hsz : ∀ r (hr : r < w.length),
        ((max 1 ldim : Nat) : Int) * (nGhosts r w[r] : Int) ≤ INT_MAX ∧
        ((max 1 ldim : Nat) : Int) * (nRequests w r : Int) ≤ INT_MAX) :
    ∃ w', ghost ty ldim w = some w' ∧ w'.length = w.length ∧
      ∀ r (hr : r < w.length),
        ((w'.getD r []).map fun nd => (nd.glob, nd.part)) = (w[r].map fun nd => (nd.glob, nd.part)) ∧
        ∀ i (hi : i < w[r].length), w[r][i].part = (r : Int) → (w'.getD r [])[i]? = some w[r][i] :=
  ⟨refreshed w, ghost_full ty hty ldim w hnd hown hsz, refreshed_length w, fun r hr => refreshed_owned w r hr⟩

/-- clause (iv) of the distributed-mesh invariant holds after the refresh: when, in addition, the owner's copy of
    every ghost is an owned entry (`howned`: all copies agree on `part`), then in the RESULT world every ghost entry of
    every rank carries exactly the values of the entry with the same global on the rank its `part` names (which are
    also the values that rank held before the call) -/
theorem ghostRefresh_ghost_eq_owner {β : Type} [Inhabited β] (ty : RefType) (hty : ty.mpiOk = true) (ldim : Nat)
    (w : World (List (GNode β)))
    (hnd : ∀ nodes ∈ w, (nodes.map (·.glob)).Nodup)
    (hown : ∀ r (hr : r < w.length), ∀ nd ∈ w[r], nd.part ≠ (r : Int) →
        0 ≤ nd.part ∧ nd.part.toNat < w.length ∧
        ∃ od ∈ w.getD nd.part.toNat [], od.glob = nd.glob ∧ od.vals.length = ldim)
    (howned : ∀ r (hr : r < w.length), ∀ nd ∈ w[r], nd.part ≠ (r : Int) →
        ∀ od ∈ w.getD nd.part.toNat [], od.glob = nd.glob → od.part = nd.part)
    (hsz : ∀ r (hr : r < w.length),
        ((max 1 ldim : Nat) : Int) * (nGhosts r w[r] : Int) ≤ INT_MAX ∧
        ((max 1 ldim : Nat) : Int) * (nRequests w r : Int) ≤ INT_MAX) :
    ∃ w', ghost ty ldim w = some w' ∧
      ∀ r, r < w.length → ∀ nd ∈ w'.getD r [], nd.part ≠ (r : Int) →
        lookupVals (w'.getD nd.part.toNat []) nd.glob = some nd.vals ∧
        lookupVals (w.getD nd.part.toNat []) nd.glob = some nd.vals :=
  ⟨refreshed w, ghost_full ty hty ldim w hnd hown hsz,
    fun r hr nd hmem hp => refreshed_ghost w hnd hown howned r hr nd hmem hp⟩

/-! ## non-vacuity: the 3-rank world of `Props/C06.lean` -/

/-- the hypotheses of `ghostRefresh_spec` hold on a concrete 3-rank world with ghosts on every rank, and the
    equation evaluated in `Props/C06.lean` follows from the theorem (the last step evaluates the right-hand side of
    the theorem only, not `ghost`) -/
example : ghost RefType.int 2
    [[⟨1, 0, [10, 11]⟩, ⟨4, 1, [0, 0]⟩, ⟨7, 2, [0, 0]⟩], [⟨4, 1, [40, 41]⟩, ⟨1, 0, [5, 5]⟩],
     [⟨7, 2, [70, 71]⟩, ⟨4, 1, [9, 9]⟩]]
  = some [[⟨1, 0, [10, 11]⟩, ⟨4, 1, [40, 41]⟩, ⟨7, 2, [70, 71]⟩], [⟨4, 1, [40, 41]⟩, ⟨1, 0, [10, 11]⟩],
          [⟨7, 2, [70, 71]⟩, ⟨4, 1, [40, 41]⟩]] := by
  have h := ghostRefresh_spec (β := Nat) RefType.int rfl 2
    [[⟨1, 0, [10, 11]⟩, ⟨4, 1, [0, 0]⟩, ⟨7, 2, [0, 0]⟩], [⟨4, 1, [40, 41]⟩, ⟨1, 0, [5, 5]⟩],
     [⟨7, 2, [70, 71]⟩, ⟨4, 1, [9, 9]⟩]]
    (by decide) (by decide) (by decide)
  rw [h]
  decide

/-- the extra hypothesis of `ghostRefresh_ghost_eq_owner` holds there too -/
example :
    let w : World (List (GNode Int)) :=
      [[⟨1, 0, [10, 11]⟩, ⟨4, 1, [0, 0]⟩, ⟨7, 2, [0, 0]⟩], [⟨4, 1, [40, 41]⟩, ⟨1, 0, [5, 5]⟩],
       [⟨7, 2, [70, 71]⟩, ⟨4, 1, [9, 9]⟩]]
    ∀ r (hr : r < w.length), ∀ nd ∈ w[r], nd.part ≠ (r : Int) →
      ∀ od ∈ w.getD nd.part.toNat [], od.glob = nd.glob → od.part = nd.part := by
  decide

/-- one rank, `ldim = 0`: the statement is not vacuous at the edges either -/
example : ghost RefType.dbl 0 [[(⟨3, 0, []⟩ : GNode Int), ⟨5, 0, []⟩]] = some [[⟨3, 0, []⟩, ⟨5, 0, []⟩]] := by
  have h := ghostRefresh_spec (β := Int) RefType.dbl rfl 0 [[⟨3, 0, []⟩, ⟨5, 0, []⟩]]
    (by decide) (by decide) (by decide)
  rw [h]
  decide

end Refine.Props.C06Ghost
