import Refine.Lemmas.InterpLocateStages
import Refine.Props.C11Search

/-!
  C11 / C18, the staged donor search `ref_interp_locate` (`ref_interp.c`) with the walking agents of `ref_agents.c`, on any
  number of ranks.  Every theorem is about the executable SPMD model `Refine.Model.InterpLocate` — the functions
  `Drivers/InterpLocate.lean` runs and `harness/h_interplocate.c` bit-compares with the C at np = 1, 2, 3 — at `α := ℝ`
  (exact arithmetic; rounding is modelled, not verified).  The tolerances, comparison operators, loop bounds and pack
  orders the statements depend on are regenerated from the C text on every run (`Gen/InterpConsts.lean`): a change of one of
  them breaks the proof that uses it.

  * `locate_accepts_only_inside`   every receptor vertex located by stage 1 (geometry-node seeds) or stage 2 (walking
       agents, whatever ranks they crossed) has all four stored weights `≥ inside = -1e-12`.  This is what the seed
       acceptance test and `ref_interp_bary_inside` are for; it fails if the seed test reads the `bound` tolerance.
  * `locate_all_slots_written`     every located vertex (any stage) has all four slots of `ref_interp->bary` WRITTEN by the
       stage that located it, and for a 2-D donor the fourth one is `0.0` (C18: no result depends on uninitialised memory,
       for this structure).
  * `agent_migrate_roundtrip`, `agent_migrate_delivery`   `ref_agents_migrate` delivers every agent to its destination with
       mode, home, node, part, seed, global, step, target point and all four weights unchanged (via `blindsend_spec`).
  * `arbitration_picks_global_best`, `arbitration_largest_min_weight`, `arbitration_partition_independent`   stage 3: the
       rank that sends the cell is the lowest rank among those whose best candidate has the largest min weight; the value
       does not depend on how the candidates are split over ranks.
-/
namespace Refine.Props.C11Locate
open Refine Refine.Model.Geom Refine.Model.Search Refine.Model.Interp Refine.Model.InterpLocate Refine.Model.Comm
open Refine.Lemmas.InterpLocate Refine.Lemmas.Interp Refine.ScalarReal Refine.Gen

/-- all four slots written, each `≥ t` -/
def SlotsGe (t : ℝ) (s : Slots ℝ) : Prop :=
  ∃ w0 w1 w2 w3, s = ⟨some w0, some w1, some w2, some w3⟩ ∧ t ≤ w0 ∧ t ≤ w1 ∧ t ≤ w2 ∧ t ≤ w3

/-- `ref_interp->inside` is `-1e-12` -/
theorem insideTol_eq : (insideTol : ℝ) = -(1e-12) := by
  simp only [insideTol, lit, InterpConsts.inside, ofDec_eq]
  norm_num

theorem insideTol_nonpos : (insideTol : ℝ) ≤ 0 := by rw [insideTol_eq]; norm_num

/-! ### stage 1 and stage 2 accept only weights `≥ inside` -/

/-- the seed acceptance test of `ref_interp_geom_nodes`, as the C text has it (`>` against the member `inside`) -/
theorem geomAccept_inside (s : Slots ℝ) (h : geomAccept s = true) : SlotsGe insideTol s := by
  obtain ⟨s0, s1, s2, s3⟩ := s
  simp only [geomAccept, InterpConsts.geomAcceptStrict, geomTol, InterpConsts.geomAcceptUsesInside, if_true, Slots.all,
    Bool.and_eq_true] at h
  obtain ⟨⟨⟨h0, h1⟩, h2⟩, h3⟩ := h
  cases s0 with
  | none => simp at h0
  | some w0 =>
  cases s1 with
  | none => simp at h1
  | some w1 =>
  cases s2 with
  | none => simp at h2
  | some w2 =>
  cases s3 with
  | none => simp at h3
  | some w3 =>
    simp only [Option.map_some, Option.getD_some, lt_iff] at h0 h1 h2 h3
    exact ⟨w0, w1, w2, w3, rfl, h0.le, h1.le, h2.le, h3.le⟩

/-- `ref_interp_bary_inside`, as the C text has it (`>=` against the member `inside`) -/
theorem walkInside_inside (b : B4 ℝ) (h : walkInside b = true) :
    insideTol ≤ b.b0 ∧ insideTol ≤ b.b1 ∧ insideTol ≤ b.b2 ∧ insideTol ≤ b.b3 := by
  simp only [walkInside, InterpConsts.insideMacroStrict, walkTol, InterpConsts.insideMacroUsesInside, if_true,
    Bool.false_eq_true, if_false, Bool.and_eq_true, le_iff] at h
  exact ⟨h.1.1.1, h.1.1.2, h.1.2, h.2⟩

/-- what an `ENCLOSING` agent carries -/
theorem walk_store_inside (twod : Bool) (b : B4 ℝ) (s0 : Slots ℝ) (h : walkInside b = true) :
    SlotsGe insideTol (Slots.copyN InterpConsts.walkCopy s0 (storeBary twod Slots.unwritten b)) := by
  obtain ⟨h0, h1, h2, h3⟩ := walkInside_inside b h
  rw [walkCopy_eq, copyN_four]
  cases twod with
  | true =>
    rw [storeBary_twod]
    exact ⟨b.b0, b.b1, b.b2, lit0, rfl, h0, h1, h2, by simpa using insideTol_nonpos⟩
  | false =>
    rw [storeBary_3d]
    exact ⟨b.b0, b.b1, b.b2, b.b3, rfl, h0, h1, h2, h3⟩

/-- **`ref_interp_locate` accepts only inside.**  Start from what `ref_interp_create` leaves on every rank (nothing located,
    no agent; `seeds` = local receptor size and `rand` state per rank) and let `ref_interp_locate` succeed.  Then every
    receptor vertex that was located by stage 1 (a geometry-node seed: best cell around the NEAREST donor corner) or by
    stage 2 (a walking agent, on whatever rank it ended) has all four weight slots written and each weight `≥ inside`
    (`-1e-12`): its stored cell encloses it up to the `inside` tolerance.  Any number of ranks, any partition, any donor
    and receptor, any `rand()` sequence. -/
theorem locate_accepts_only_inside (dw : World (DonorR ℝ)) (ss : World (Search ℝ)) (rw : World (RecvR ℝ))
    (fuzz fuzz' : ℝ) (seeds : List (Nat × Nat)) (w' : World (RankSt ℝ))
    (h : locate dw ss rw fuzz (seeds.map fun q => RankSt.create q.1 q.2) = .ok (w', fuzz')) :
    ∀ st ∈ w', ∀ i, (st.stage.getD i 0 = 1 ∨ st.stage.getD i 0 = 2) → SlotsGe insideTol (st.baryOf i) := by
  have hg := good_locate (P := SlotsGe insideTol) (P3 := fun _ => True) (good_create seeds)
    (fun dr _ b hacc => geomAccept_inside _ hacc)
    (fun dr _ b s0 hin => walk_store_inside dr.d.twod b s0 hin)
    (fun _ _ _ => trivial) h
  intro st hst i hi
  exact ((hg st hst).nodes i).1 hi

/-- the min of the four stored weights of such a vertex is `≥ inside` -/
theorem locate_min_weight_inside (dw : World (DonorR ℝ)) (ss : World (Search ℝ)) (rw : World (RecvR ℝ))
    (fuzz fuzz' : ℝ) (seeds : List (Nat × Nat)) (w' : World (RankSt ℝ))
    (h : locate dw ss rw fuzz (seeds.map fun q => RankSt.create q.1 q.2) = .ok (w', fuzz'))
    (st : RankSt ℝ) (hst : st ∈ w') (i : Nat) (hi : st.stage.getD i 0 = 1 ∨ st.stage.getD i 0 = 2) :
    ∃ b : B4 ℝ, st.baryOf i = ⟨some b.b0, some b.b1, some b.b2, some b.b3⟩ ∧ insideTol ≤ minBary4 b := by
  obtain ⟨w0, w1, w2, w3, hs, h0, h1, h2, h3⟩ := locate_accepts_only_inside dw ss rw fuzz fuzz' seeds w' h st hst i hi
  refine ⟨⟨w0, w1, w2, w3⟩, hs, ?_⟩
  simp only [minBary4, cmin_eq]
  exact le_min (le_min h0 h1) (le_min h2 h3)

/-! ### every slot is written -/

/-- all four slots written; for a 2-D donor the fourth is `0.0` -/
def Written (twod : Bool) (s : Slots ℝ) : Prop := s.written = true ∧ (twod = true → s.s3 = some (lit0 : ℝ))

theorem written_storeBary (twod : Bool) (b : B4 ℝ) : Written twod (storeBary twod Slots.unwritten b) := by
  cases twod with
  | true => rw [storeBary_twod]; exact ⟨rfl, fun _ => rfl⟩
  | false => rw [storeBary_3d]; exact ⟨rfl, fun h => by cases h⟩

/-- **No located vertex has an unwritten weight slot.**  After a successful `ref_interp_locate` from the state
    `ref_interp_create` leaves (every slot of `ref_interp->bary` never written), every receptor vertex that has been located
    — by a geometry seed, a walking agent or the tree fall-back — has all four slots written by the stage that located it;
    for a 2-D donor the fourth slot is `0.0`.  (`ref_interp_scalar` / `ref_metric_interpolate` read all four.) -/
theorem locate_all_slots_written (twod : Bool) (dw : World (DonorR ℝ)) (htw : ∀ dr ∈ dw, dr.d.twod = twod)
    (ss : World (Search ℝ)) (rw : World (RecvR ℝ)) (fuzz fuzz' : ℝ) (seeds : List (Nat × Nat)) (w' : World (RankSt ℝ))
    (h : locate dw ss rw fuzz (seeds.map fun q => RankSt.create q.1 q.2) = .ok (w', fuzz')) :
    ∀ st ∈ w', ∀ i, st.stage.getD i 0 = 1 ∨ st.stage.getD i 0 = 2 ∨ st.stage.getD i 0 = 3 →
      (st.baryOf i).written = true ∧ (twod = true → (st.baryOf i).s3 = some (lit0 : ℝ)) := by
  have hg := good_locate (P := Written twod) (P3 := Written twod) (good_create seeds)
    (fun dr hdr b _ => by rw [htw dr hdr]; exact written_storeBary twod b)
    (fun dr hdr b s0 _ => by rw [walkCopy_eq, copyN_four, htw dr hdr]; exact written_storeBary twod b)
    (fun dr hdr b => by
      rw [htw dr hdr]
      cases twod with
      | true => exact ⟨rfl, fun _ => rfl⟩
      | false => exact ⟨rfl, fun h => by cases h⟩) h
  intro st hst i hi
  rcases hi with hi | hi | hi
  · exact ((hg st hst).nodes i).1 (Or.inl hi)
  · exact ((hg st hst).nodes i).1 (Or.inr hi)
  · exact ((hg st hst).nodes i).2 hi

/-! ### migration of the walking agents -/

/-- **`ref_agents_migrate` round trip, one agent**: the three send records (`n_ints = 6` integers in the order of the C
    text, `n_globs = 1` global, `n_dbls = 7` doubles = xyz + four weights) unpack to the agent that was packed: node,
    cell seed, part, home, mode, global, step count, target point and ALL FOUR weights -/
theorem agent_migrate_roundtrip (a : AgentP ℝ) :
    unpackAgent (packAgent a).1 (packAgent a).2.1 (packAgent a).2.2 = some a := unpack_pack a

/-- **`ref_agents_migrate`, every rank** (through `blindsend_spec`, Props/C17, for the three blind sends): when the
    migration succeeds, rank `r` keeps its agents whose destination is `r` (the others are removed by increasing slot) and
    appends, in (source rank, slot) order, exactly the agents of the world whose destination is `r`, each unchanged -/
theorem agent_migrate_delivery (w w' : World (Agents ℝ)) (h : migrate w = .ok w') :
    w' = (staysOf w).zipIdx.map fun q => (deliveredG q.2 (outPairs w)).foldl (fun a ag => (a.push ag).2) q.1 :=
  migrate_ok w h

/-- in particular no agent is lost in the sense of altered: every agent after the migration is an agent from before -/
theorem agent_migrate_no_alteration (w w' : World (Agents ℝ)) (h : migrate w = .ok w') (a' : Agents ℝ) (ha : a' ∈ w')
    (p : Nat × AgentP ℝ) (hp : p ∈ a'.act) : ∃ a ∈ w, ∃ q ∈ a.act, q.2 = p.2 := migrate_mem h ha hp

/-! ### stage 3: arbitration between the ranks -/

theorem lt_fun_eq : (fun (a b : ℝ) => a <. b) = Refine.Lemmas.Comm.ltB := by
  funext a b
  rfl

/-- **Arbitration picks the global best.**  Every rank proposes, for each of the `total` targets, the negated min weight
    of its best candidate (`1e20` if it has none).  `ref_mpi_allminwho` gives every rank the same `(vals, whos)`; for each
    target `k` the chosen rank `t = whos[k]` proposes the least value — i.e. its candidate has the LARGEST min weight among
    all ranks' candidates — and every lower rank proposes a strictly larger value (ties go to the lowest rank). -/
theorem arbitration_picks_global_best (p0 : List (ℝ × Int)) (ps : World (List (ℝ × Int))) (total : Nat)
    (hlen : ∀ l ∈ p0 :: ps, l.length = total) :
    ∃ vals whos, allminwho (fun (a b : ℝ) => a <. b) total ((p0 :: ps).map fun l => l.map (·.1)) =
        (p0 :: ps).map (fun _ => (vals, whos)) ∧
      ∀ k, k < total → ∃ t : Nat, whos.getD k 0 = (t : Int) ∧ t < (p0 :: ps).length ∧
        (((p0 :: ps).getD t []).map (·.1)).getD k 0 = vals.getD k 0 ∧
        (∀ l ∈ p0 :: ps, vals.getD k 0 ≤ (l.map (·.1)).getD k 0) ∧
        (∀ r, r < t → vals.getD k 0 < (((p0 :: ps).getD r []).map (·.1)).getD k 0) := by
  rw [lt_fun_eq]
  have hlen' : ∀ v ∈ (p0.map (·.1)) :: ps.map (fun l => l.map (·.1)), v.length = total := by
    intro v hv
    rcases List.mem_cons.mp hv with rfl | hv
    · simpa using hlen p0 List.mem_cons_self
    · obtain ⟨l, hl, rfl⟩ := List.mem_map.mp hv
      simpa using hlen l (List.mem_cons_of_mem _ hl)
  obtain ⟨vals, whos, heq, _, _, hall⟩ :=
    Refine.Props.C17.allminwho_spec (0 : ℝ) total (p0.map (·.1)) (ps.map fun l => l.map (·.1)) hlen'
  refine ⟨vals, whos, ?_, ?_⟩
  · simp only [List.map_cons] at heq ⊢
    rw [heq]
    simp only [List.map_map]
    rfl
  · intro k hk
    obtain ⟨hle, t, ht, htl, hval, hlow⟩ := hall k hk
    have hmapD : ∀ r, ((p0.map (·.1)) :: ps.map (fun l => l.map (·.1))).getD r [] =
        (((p0 :: ps).getD r []).map (·.1)) := by
      intro r
      have : (p0.map (·.1)) :: ps.map (fun l => l.map (·.1)) = (p0 :: ps).map fun l => l.map (·.1) := by simp
      rw [this]
      simp only [List.getD_eq_getElem?_getD, List.getElem?_map]
      cases (p0 :: ps)[r]? <;> simp
    refine ⟨t, ht, by simpa using htl, ?_, ?_, ?_⟩
    · rw [← hmapD]; exact hval
    · intro l hl
      apply hle
      rcases List.mem_cons.mp hl with rfl | hl
      · exact List.mem_cons_self
      · exact List.mem_cons_of_mem _ (List.mem_map.mpr ⟨l, hl, rfl⟩)
    · intro r hr
      rw [← hmapD]; exact hlow r hr

/-- what one rank proposes: the negated `MIN(MIN(b0,b1),MIN(b2,b3))` of the candidate `ref_interp_enclosing_*_in_list`
    selects, and that candidate has the largest min weight among the rank's candidates -/
theorem propose_spec (dr : DonorR ℝ) (s : Search ℝ) (fuzz : ℝ) (x : V3 ℝ) (v : ℝ) (c : Int) (n : Nat)
    (hne : ∀ c ∈ s.touching x fuzz, c ≠ refEmpty) (h : propose dr s fuzz x = .ok ((v, c), n)) (hc : c ≠ refEmpty) :
    ∃ b, enclosingInList dr.d (s.touching x fuzz) x = (.ok, c, b) ∧ v = -(minBary4 b) ∧
      ∀ c' ∈ s.touching x fuzz, ∀ m, OkMin dr.d x c' m → m ≤ minBary dr.d.twod b := by
  unfold propose at h
  simp only at h
  split at h
  · simp only [Except.ok.injEq, Prod.mk.injEq] at h
    exact absurd h.1.2.symm hc
  · split at h
    · rename_i c0 b hsel
      simp only [Except.ok.injEq, Prod.mk.injEq] at h
      obtain ⟨⟨hv, rfl⟩, _⟩ := h
      have hcn : (c0 != refEmpty) = true := by simpa using hc
      rw [if_pos hcn] at hv
      refine ⟨b, hsel, by rw [← hv]; rfl, ?_⟩
      exact (Refine.Props.C11Search.inList_max_min dr.d _ x c0 b hne hsel).2.2
    · cases h

/-- **The winner's candidate has the largest min weight of all candidates of all ranks**: if rank `t` proposes a value no
    larger than rank `r`'s, and both proposals come from cells, then every candidate of rank `r` has a min weight (clamped
    at the 4th stored slot, which is `0` for a 2-D donor) no larger than that of the cell rank `t` sends -/
theorem arbitration_largest_min_weight (dt dr : DonorR ℝ) (st sr : Search ℝ) (fuzz : ℝ) (x : V3 ℝ)
    (vt vr : ℝ) (ct cr : Int) (nt nr : Nat)
    (hnet : ∀ c ∈ st.touching x fuzz, c ≠ refEmpty) (hner : ∀ c ∈ sr.touching x fuzz, c ≠ refEmpty)
    (ht : propose dt st fuzz x = .ok ((vt, ct), nt)) (hr : propose dr sr fuzz x = .ok ((vr, cr), nr))
    (hct : ct ≠ refEmpty) (hcr : cr ≠ refEmpty) (hle : vt ≤ vr) :
    ∃ bt br, enclosingInList dt.d (st.touching x fuzz) x = (.ok, ct, bt) ∧
      enclosingInList dr.d (sr.touching x fuzz) x = (.ok, cr, br) ∧ minBary4 br ≤ minBary4 bt := by
  obtain ⟨bt, h1, hvt, _⟩ := propose_spec dt st fuzz x vt ct nt hnet ht hct
  obtain ⟨br, h2, hvr, _⟩ := propose_spec dr sr fuzz x vr cr nr hner hr hcr
  refine ⟨bt, br, h1, h2, ?_⟩
  rw [hvt, hvr] at hle
  linarith

/-- **Independence of the number of ranks and of the partition.**  Two runs (any two rank counts, any two partitions of
    the donor) in which the SET of values proposed for target `k` is the same — e.g. the same candidate cells, split
    differently over the ranks — agree on the winning value: it is the least proposed value, whoever proposes it. -/
theorem arbitration_partition_independent (p0 q0 : List (ℝ × Int)) (ps qs : World (List (ℝ × Int))) (total : Nat)
    (hp : ∀ l ∈ p0 :: ps, l.length = total) (hq : ∀ l ∈ q0 :: qs, l.length = total)
    (vals vals' : List ℝ) (whos whos' : List Int)
    (h1 : allminwho (fun (a b : ℝ) => a <. b) total ((p0 :: ps).map fun l => l.map (·.1)) =
      (p0 :: ps).map (fun _ => (vals, whos)))
    (h2 : allminwho (fun (a b : ℝ) => a <. b) total ((q0 :: qs).map fun l => l.map (·.1)) =
      (q0 :: qs).map (fun _ => (vals', whos')))
    (k : Nat) (hk : k < total)
    (hsame : ∀ v : ℝ, (∃ l ∈ p0 :: ps, (l.map (·.1)).getD k 0 = v) ↔ (∃ l ∈ q0 :: qs, (l.map (·.1)).getD k 0 = v)) :
    vals.getD k 0 = vals'.getD k 0 := by
  obtain ⟨v1, w1, e1, hall1⟩ := arbitration_picks_global_best p0 ps total hp
  obtain ⟨v2, w2, e2, hall2⟩ := arbitration_picks_global_best q0 qs total hq
  rw [e1] at h1
  rw [e2] at h2
  simp only [List.map_cons, List.cons.injEq, Prod.mk.injEq] at h1 h2
  obtain ⟨⟨rfl, rfl⟩, _⟩ := h1
  obtain ⟨⟨rfl, rfl⟩, _⟩ := h2
  obtain ⟨t1, _, ht1, hv1, hle1, _⟩ := hall1 k hk
  obtain ⟨t2, _, ht2, hv2, hle2, _⟩ := hall2 k hk
  -- the winner of each run proposes a value that the other run also has
  have m1 : (p0 :: ps).getD t1 [] ∈ p0 :: ps := by
    rw [List.getD_eq_getElem?_getD, List.getElem?_eq_getElem ht1]
    exact List.getElem_mem _
  have m2 : (q0 :: qs).getD t2 [] ∈ q0 :: qs := by
    rw [List.getD_eq_getElem?_getD, List.getElem?_eq_getElem ht2]
    exact List.getElem_mem _
  obtain ⟨l2, hl2, hl2v⟩ := (hsame _).mp ⟨_, m1, hv1⟩
  obtain ⟨l1, hl1, hl1v⟩ := (hsame _).mpr ⟨_, m2, hv2⟩
  have a1 := hle2 l2 hl2
  have a2 := hle1 l1 hl1
  rw [hl2v] at a1
  rw [hl1v] at a2
  exact le_antisymm a2 a1

end Refine.Props.C11Locate
