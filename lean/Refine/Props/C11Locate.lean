import Refine.Lemmas.InterpLocateStages
import Refine.Lemmas.InterpLocateGeoStages
import Refine.Lemmas.InterpLocateEx
import Refine.Lemmas.InterpLocateReal
import Refine.Props.C11Search

/-!
  C11 / C18, the staged donor search `ref_interp_locate` (`ref_interp.c`) with the walking agents of `ref_agents.c`, on any
  number of ranks.  Every theorem is about the executable SPMD model `Refine.Model.InterpLocate` — the functions
  `Drivers/InterpLocate.lean` runs and `harness/h_interplocate.c` bit-compares with the C at np = 1, 2, 3 — at `α := ℝ`
  (exact arithmetic; rounding is modelled, not verified).  The tolerances, comparison operators, loop bounds and pack
  orders the statements depend on are regenerated from the C text on every run (`Gen/InterpConsts.lean`): a change of one of
  them breaks the proof that uses it.

  * `locate_accepts_only_inside`   every receptor vertex located by stage 1 (geometry-node seeds) or stage 2 (walking
       agents, whatever ranks they crossed) has all four stored weights `≥ inside = -1e-12`.  This is what the seed
       acceptance test and `ref_interp_bary_inside` are for; it fails if the seed test reads the `bound` tolerance.
  * `locate_all_slots_written`     every located vertex (any stage) has all four slots of `ref_interp->bary` WRITTEN by the
       stage that located it, and for a 2-D donor the fourth one is `0.0` (C18: no result depends on uninitialised memory,
       for this structure).
  * `agent_migrate_roundtrip`, `agent_migrate_delivery`   `ref_agents_migrate` delivers every agent to its destination with
       mode, home, node, part, seed, global, step, target point and all four weights unchanged (via `blindsend_spec`).
  * `arbitration_picks_global_best`, `arbitration_largest_min_weight`, `arbitration_partition_independent`   stage 3: the
       rank that sends the cell is the lowest rank among those whose best candidate has the largest min weight; the value
       does not depend on how the candidates are split over ranks.
-/
namespace Refine.Props.C11Locate
open Refine Refine.Model.Geom Refine.Model.Search Refine.Model.Interp Refine.Model.InterpLocate Refine.Model.Comm
open Refine.Lemmas.InterpLocate Refine.Lemmas.Interp Refine.ScalarReal Refine.Gen Refine.GeomReal

/-! ### the constants of the C text -/

/-- **The constants the model was validated with are the constants of the C text.**  `Gen/InterpConsts.lean` is rewritten
    from `ref_interp.c` / `ref_agents.c` on every run; the executable model reads every one of them, the theorems below
    depend on some.  This obligation pins them all: tolerances (`inside = -1e-12`, `bound = -0.1`, seeds tested with `>`
    against `inside`, `ref_interp_bary_inside` with `>=` against `inside`), `search_fuzz = 1e-12`, `donor_scale = 2`,
    the walk limit 215, 12 tree tries with `fuzz *= 10`, the four copy loops of 4 slots, `MAX_NODE_LIST = 200`, the agent
    array (10 slots, growth `MAX(5000, 1.5 max)`), and the migration record (6 integers in the order mode, home, node, part,
    seed, step; 1 global; 7 doubles = 3 coordinates + 4 weights at offset 3, send buffer initialised with 0.0).
    A change of any of them in the C text is a change of what was tied and proved: it is flagged here, whatever else it
    breaks. -/
theorem constants_of_the_c_text :
    InterpConsts.inside = (-1, -12) ∧ InterpConsts.bound = (-1, -1) ∧ InterpConsts.searchFuzz = (1, -12) ∧
    InterpConsts.donorScale = (2, 0) ∧ InterpConsts.insideMacroStrict = false ∧ InterpConsts.insideMacroUsesInside = true ∧
    InterpConsts.geomAcceptStrict = true ∧ InterpConsts.geomAcceptUsesInside = true ∧
    InterpConsts.bestDistInit = (1, 20) ∧ InterpConsts.bestBaryNone = (1, 20) ∧ InterpConsts.candidateInit = (-999, 0) ∧
    InterpConsts.geomCopy = 4 ∧ InterpConsts.walkCopy = 4 ∧ InterpConsts.processCopy = 4 ∧ InterpConsts.treeCopy = 4 ∧
    InterpConsts.walkLimit = 215 ∧ InterpConsts.locateTries = 12 ∧ InterpConsts.fuzzGrow = (1, 1) ∧
    InterpConsts.maxNodeList = 200 ∧ InterpConsts.agentsMax0 = 10 ∧ InterpConsts.agentsChunkMin = 5000 ∧
    InterpConsts.agentsGrowNum = 15 ∧ InterpConsts.agentsGrowDen = 10 ∧
    InterpConsts.nInts = 6 ∧ InterpConsts.nGlobs = 1 ∧ InterpConsts.nDbls = 7 ∧
    InterpConsts.packInts = ["mode", "home", "node", "part", "seed", "step"] ∧
    InterpConsts.unpackInts = ["mode", "home", "node", "part", "seed", "step"] ∧
    InterpConsts.packXyz = 3 ∧ InterpConsts.packBary = 4 ∧ InterpConsts.packBaryOffset = 3 ∧
    InterpConsts.unpackXyz = 3 ∧ InterpConsts.unpackBary = 4 ∧ InterpConsts.unpackBaryOffset = 3 ∧
    InterpConsts.sendDblInit = (0, 0) := by
  decide

/-! ### stage 1 and stage 2 accept only weights `≥ inside` -/

/-- the seed acceptance test of `ref_interp_geom_nodes`, as the C text has it (`>` against the member `inside`) -/
theorem geomAccept_inside (s : Slots ℝ) (h : geomAccept s = true) : SlotsGe insideTol s := by
  obtain ⟨s0, s1, s2, s3⟩ := s
  simp only [geomAccept, InterpConsts.geomAcceptStrict, geomTol, InterpConsts.geomAcceptUsesInside, if_true, Slots.all,
    Bool.and_eq_true] at h
  obtain ⟨⟨⟨h0, h1⟩, h2⟩, h3⟩ := h
  cases s0 with
  | none => simp at h0
  | some w0 =>
  cases s1 with
  | none => simp at h1
  | some w1 =>
  cases s2 with
  | none => simp at h2
  | some w2 =>
  cases s3 with
  | none => simp at h3
  | some w3 =>
    simp only [Option.map_some, Option.getD_some, lt_iff] at h0 h1 h2 h3
    exact ⟨w0, w1, w2, w3, rfl, h0.le, h1.le, h2.le, h3.le⟩

/-- `ref_interp_bary_inside`, as the C text has it (`>=` against the member `inside`) -/
theorem walkInside_inside (b : B4 ℝ) (h : walkInside b = true) :
    insideTol ≤ b.b0 ∧ insideTol ≤ b.b1 ∧ insideTol ≤ b.b2 ∧ insideTol ≤ b.b3 := by
  simp only [walkInside, InterpConsts.insideMacroStrict, walkTol, InterpConsts.insideMacroUsesInside, if_true,
    Bool.false_eq_true, if_false, Bool.and_eq_true, le_iff] at h
  exact ⟨h.1.1.1, h.1.1.2, h.1.2, h.2⟩

/-- what an `ENCLOSING` agent carries -/
theorem walk_store_inside (twod : Bool) (b : B4 ℝ) (s0 : Slots ℝ) (h : walkInside b = true) :
    SlotsGe insideTol (Slots.copyN InterpConsts.walkCopy s0 (storeBary twod Slots.unwritten b)) := by
  obtain ⟨h0, h1, h2, h3⟩ := walkInside_inside b h
  rw [walkCopy_eq, copyN_four]
  cases twod with
  | true =>
    rw [storeBary_twod]
    exact ⟨b.b0, b.b1, b.b2, lit0, rfl, h0, h1, h2, by simpa using insideTol_nonpos⟩
  | false =>
    rw [storeBary_3d]
    exact ⟨b.b0, b.b1, b.b2, b.b3, rfl, h0, h1, h2, h3⟩

/-- **`ref_interp_locate` accepts only inside.**  Start from what `ref_interp_create` leaves on every rank (nothing located,
    no agent; `seeds` = local receptor size and `rand` state per rank) and let `ref_interp_locate` succeed.  Then every
    receptor vertex that was located by stage 1 (a geometry-node seed: best cell around the NEAREST donor corner) or by
    stage 2 (a walking agent, on whatever rank it ended) has all four weight slots written and each weight `≥ inside`
    (`-1e-12`): its stored cell encloses it up to the `inside` tolerance.  Any number of ranks, any partition, any donor
    and receptor, any `rand()` sequence. -/
theorem locate_accepts_only_inside (dw : World (DonorR ℝ)) (ss : World (Search ℝ)) (rw : World (RecvR ℝ))
    (fuzz fuzz' : ℝ) (seeds : List (Nat × Nat)) (w' : World (RankSt ℝ))
    (h : locate dw ss rw fuzz (seeds.map fun q => RankSt.create q.1 q.2) = .ok (w', fuzz')) :
    ∀ st ∈ w', ∀ i, (st.stage.getD i 0 = 1 ∨ st.stage.getD i 0 = 2) → SlotsGe insideTol (st.baryOf i) := by
  have hg := good_locate (P := SlotsGe insideTol) (P3 := fun _ => True) (good_create seeds)
    (fun dr _ b hacc => geomAccept_inside _ hacc)
    (fun dr _ b s0 hin => walk_store_inside dr.d.twod b s0 hin)
    (fun _ _ _ => trivial) h
  intro st hst i hi
  exact ((hg st hst).nodes i).1 hi

/-- the min of the four stored weights of such a vertex is `≥ inside` -/
theorem locate_min_weight_inside (dw : World (DonorR ℝ)) (ss : World (Search ℝ)) (rw : World (RecvR ℝ))
    (fuzz fuzz' : ℝ) (seeds : List (Nat × Nat)) (w' : World (RankSt ℝ))
    (h : locate dw ss rw fuzz (seeds.map fun q => RankSt.create q.1 q.2) = .ok (w', fuzz'))
    (st : RankSt ℝ) (hst : st ∈ w') (i : Nat) (hi : st.stage.getD i 0 = 1 ∨ st.stage.getD i 0 = 2) :
    ∃ b : B4 ℝ, st.baryOf i = ⟨some b.b0, some b.b1, some b.b2, some b.b3⟩ ∧ insideTol ≤ minBary4 b := by
  obtain ⟨w0, w1, w2, w3, hs, h0, h1, h2, h3⟩ := locate_accepts_only_inside dw ss rw fuzz fuzz' seeds w' h st hst i hi
  refine ⟨⟨w0, w1, w2, w3⟩, hs, ?_⟩
  simp only [minBary4, cmin_eq]
  exact le_min (le_min h0 h1) (le_min h2 h3)

/-! ### every slot is written -/

/-- **No located vertex has an unwritten weight slot.**  After a successful `ref_interp_locate` from the state
    `ref_interp_create` leaves (every slot of `ref_interp->bary` never written), every receptor vertex that has been located
    — by a geometry seed, a walking agent or the tree fall-back — has all four slots written by the stage that located it;
    for a 2-D donor the fourth slot is `0.0`.  (`ref_interp_scalar` / `ref_metric_interpolate` read all four.) -/
theorem locate_all_slots_written (twod : Bool) (dw : World (DonorR ℝ)) (htw : ∀ dr ∈ dw, dr.d.twod = twod)
    (ss : World (Search ℝ)) (rw : World (RecvR ℝ)) (fuzz fuzz' : ℝ) (seeds : List (Nat × Nat)) (w' : World (RankSt ℝ))
    (h : locate dw ss rw fuzz (seeds.map fun q => RankSt.create q.1 q.2) = .ok (w', fuzz')) :
    ∀ st ∈ w', ∀ i, st.stage.getD i 0 = 1 ∨ st.stage.getD i 0 = 2 ∨ st.stage.getD i 0 = 3 →
      (st.baryOf i).written = true ∧ (twod = true → (st.baryOf i).s3 = some (lit0 : ℝ)) := by
  have hg := good_locate (P := Written twod) (P3 := Written twod) (good_create seeds)
    (fun dr hdr b _ => by rw [htw dr hdr]; exact written_storeBary twod b)
    (fun dr hdr b s0 _ => by rw [walkCopy_eq, copyN_four, htw dr hdr]; exact written_storeBary twod b)
    (fun dr hdr b => by
      rw [htw dr hdr]
      cases twod with
      | true => exact ⟨rfl, fun _ => rfl⟩
      | false => exact ⟨rfl, fun h => by cases h⟩) h
  intro st hst i hi
  rcases hi with hi | hi | hi
  · exact ((hg st hst).nodes i).1 (Or.inl hi)
  · exact ((hg st hst).nodes i).1 (Or.inr hi)
  · exact ((hg st hst).nodes i).2 hi

/-! ### migration of the walking agents -/

/-- **`ref_agents_migrate` round trip, one agent**: the three send records (`n_ints = 6` integers in the order of the C
    text, `n_globs = 1` global, `n_dbls = 7` doubles = xyz + four weights) unpack to the agent that was packed: node,
    cell seed, part, home, mode, global, step count, target point and ALL FOUR weights -/
theorem agent_migrate_roundtrip (a : AgentP ℝ) :
    unpackAgent (packAgent a).1 (packAgent a).2.1 (packAgent a).2.2 = some a := unpack_pack a

/-- **`ref_agents_migrate`, every rank** (through `blindsend_spec`, Props/C17, for the three blind sends): when the
    migration succeeds, rank `r` keeps its agents whose destination is `r` (the others are removed by increasing slot) and
    appends, in (source rank, slot) order, exactly the agents of the world whose destination is `r`, each unchanged -/
theorem agent_migrate_delivery (w w' : World (Agents ℝ)) (h : migrate w = .ok w') :
    w' = (staysOf w).zipIdx.map fun q => (deliveredG q.2 (outPairs w)).foldl (fun a ag => (a.push ag).2) q.1 :=
  migrate_ok w h

/-- in particular no agent is lost in the sense of altered: every agent after the migration is an agent from before -/
theorem agent_migrate_no_alteration (w w' : World (Agents ℝ)) (h : migrate w = .ok w') (a' : Agents ℝ) (ha : a' ∈ w')
    (p : Nat × AgentP ℝ) (hp : p ∈ a'.act) : ∃ a ∈ w, ∃ q ∈ a.act, q.2 = p.2 := migrate_mem h ha hp

/-- **`ref_agents_migrate` succeeds**: when the destination of every leaving agent is a rank and at most `INT_MAX / 7`
    agents leave in total, the three blind sends go through (`blindsend_spec`) and the result is the delivery above -/
theorem agent_migrate_total (w : World (Agents ℝ))
    (hdest : ∀ l ∈ (w.mapIdx fun r a => leaving r a), ∀ p ∈ l, 0 ≤ p.2.dest ∧ p.2.dest < (w.length : Int))
    (hsz : (7 : Int) * ((outPairs w).flatten.length : Nat) ≤ INT_MAX) :
    migrate w = .ok ((staysOf w).zipIdx.map fun q =>
      (deliveredG q.2 (outPairs w)).foldl (fun a ag => (a.push ag).2) q.1) := migrate_eq w hdest hsz

/-! ### stage 3: arbitration between the ranks -/

/-- **Arbitration picks the global best.**  Every rank proposes, for each of the `total` targets, the negated min weight
    of its best candidate (`1e20` if it has none).  `ref_mpi_allminwho` gives every rank the same `(vals, whos)`; for each
    target `k` the chosen rank `t = whos[k]` proposes the least value — i.e. its candidate has the LARGEST min weight among
    all ranks' candidates — and every lower rank proposes a strictly larger value (ties go to the lowest rank). -/
theorem arbitration_picks_global_best (p0 : List (ℝ × Int)) (ps : World (List (ℝ × Int))) (total : Nat)
    (hlen : ∀ l ∈ p0 :: ps, l.length = total) :
    ∃ vals whos, allminwho (fun (a b : ℝ) => a <. b) total ((p0 :: ps).map fun l => l.map (·.1)) =
        (p0 :: ps).map (fun _ => (vals, whos)) ∧
      ∀ k, k < total → ∃ t : Nat, whos.getD k 0 = (t : Int) ∧ t < (p0 :: ps).length ∧
        (((p0 :: ps).getD t []).map (·.1)).getD k 0 = vals.getD k 0 ∧
        (∀ l ∈ p0 :: ps, vals.getD k 0 ≤ (l.map (·.1)).getD k 0) ∧
        (∀ r, r < t → vals.getD k 0 < (((p0 :: ps).getD r []).map (·.1)).getD k 0) := by
  rw [lt_fun_eq]
  have hlen' : ∀ v ∈ (p0.map (·.1)) :: ps.map (fun l => l.map (·.1)), v.length = total := by
    intro v hv
    rcases List.mem_cons.mp hv with rfl | hv
    · simpa using hlen p0 List.mem_cons_self
    · obtain ⟨l, hl, rfl⟩ := List.mem_map.mp hv
      simpa using hlen l (List.mem_cons_of_mem _ hl)
  obtain ⟨vals, whos, heq, _, _, hall⟩ :=
    Refine.Props.C17.allminwho_spec (0 : ℝ) total (p0.map (·.1)) (ps.map fun l => l.map (·.1)) hlen'
  refine ⟨vals, whos, ?_, ?_⟩
  · simp only [List.map_cons] at heq ⊢
    rw [heq]
    simp only [List.map_map]
    rfl
  · intro k hk
    obtain ⟨hle, t, ht, htl, hval, hlow⟩ := hall k hk
    have hmapD : ∀ r, ((p0.map (·.1)) :: ps.map (fun l => l.map (·.1))).getD r [] =
        (((p0 :: ps).getD r []).map (·.1)) := by
      intro r
      have : (p0.map (·.1)) :: ps.map (fun l => l.map (·.1)) = (p0 :: ps).map fun l => l.map (·.1) := by simp
      rw [this]
      simp only [List.getD_eq_getElem?_getD, List.getElem?_map]
      cases (p0 :: ps)[r]? <;> simp
    refine ⟨t, ht, by simpa using htl, ?_, ?_, ?_⟩
    · rw [← hmapD]; exact hval
    · intro l hl
      apply hle
      rcases List.mem_cons.mp hl with rfl | hl
      · exact List.mem_cons_self
      · exact List.mem_cons_of_mem _ (List.mem_map.mpr ⟨l, hl, rfl⟩)
    · intro r hr
      rw [← hmapD]; exact hlow r hr

/-- what one rank proposes: the negated `MIN(MIN(b0,b1),MIN(b2,b3))` of the candidate `ref_interp_enclosing_*_in_list`
    selects, and that candidate has the largest min weight among the rank's candidates -/
theorem propose_spec (dr : DonorR ℝ) (s : Search ℝ) (fuzz : ℝ) (x : V3 ℝ) (v : ℝ) (c : Int) (n : Nat)
    (hne : ∀ c ∈ s.touching x fuzz, c ≠ refEmpty) (h : propose dr s fuzz x = .ok ((v, c), n)) (hc : c ≠ refEmpty) :
    ∃ b, enclosingInList dr.d (s.touching x fuzz) x = (.ok, c, b) ∧ v = -(minBary4 b) ∧
      ∀ c' ∈ s.touching x fuzz, ∀ m, OkMin dr.d x c' m → m ≤ minBary dr.d.twod b := by
  unfold propose at h
  simp only at h
  split at h
  · simp only [Except.ok.injEq, Prod.mk.injEq] at h
    exact absurd h.1.2.symm hc
  · split at h
    · rename_i c0 b hsel
      simp only [Except.ok.injEq, Prod.mk.injEq] at h
      obtain ⟨⟨hv, rfl⟩, _⟩ := h
      have hcn : (c0 != refEmpty) = true := by simpa using hc
      rw [if_pos hcn] at hv
      refine ⟨b, hsel, by rw [← hv]; rfl, ?_⟩
      exact (Refine.Props.C11Search.inList_max_min dr.d _ x c0 b hne hsel).2.2
    · cases h

/-- **The winner's candidate has the largest min weight of all candidates of all ranks**: if rank `t` proposes a value no
    larger than rank `r`'s, and both proposals come from cells, then every candidate of rank `r` has a min weight (clamped
    at the 4th stored slot, which is `0` for a 2-D donor) no larger than that of the cell rank `t` sends -/
theorem arbitration_largest_min_weight (dt dr : DonorR ℝ) (st sr : Search ℝ) (fuzz : ℝ) (x : V3 ℝ)
    (vt vr : ℝ) (ct cr : Int) (nt nr : Nat)
    (hnet : ∀ c ∈ st.touching x fuzz, c ≠ refEmpty) (hner : ∀ c ∈ sr.touching x fuzz, c ≠ refEmpty)
    (ht : propose dt st fuzz x = .ok ((vt, ct), nt)) (hr : propose dr sr fuzz x = .ok ((vr, cr), nr))
    (hct : ct ≠ refEmpty) (hcr : cr ≠ refEmpty) (hle : vt ≤ vr) :
    ∃ bt br, enclosingInList dt.d (st.touching x fuzz) x = (.ok, ct, bt) ∧
      enclosingInList dr.d (sr.touching x fuzz) x = (.ok, cr, br) ∧ minBary4 br ≤ minBary4 bt := by
  obtain ⟨bt, h1, hvt, _⟩ := propose_spec dt st fuzz x vt ct nt hnet ht hct
  obtain ⟨br, h2, hvr, _⟩ := propose_spec dr sr fuzz x vr cr nr hner hr hcr
  refine ⟨bt, br, h1, h2, ?_⟩
  rw [hvt, hvr] at hle
  linarith

/-- **Independence of the number of ranks and of the partition.**  Two runs (any two rank counts, any two partitions of
    the donor) in which the SET of values proposed for target `k` is the same — e.g. the same candidate cells, split
    differently over the ranks — agree on the winning value: it is the least proposed value, whoever proposes it. -/
theorem arbitration_partition_independent (p0 q0 : List (ℝ × Int)) (ps qs : World (List (ℝ × Int))) (total : Nat)
    (hp : ∀ l ∈ p0 :: ps, l.length = total) (hq : ∀ l ∈ q0 :: qs, l.length = total)
    (vals vals' : List ℝ) (whos whos' : List Int)
    (h1 : allminwho (fun (a b : ℝ) => a <. b) total ((p0 :: ps).map fun l => l.map (·.1)) =
      (p0 :: ps).map (fun _ => (vals, whos)))
    (h2 : allminwho (fun (a b : ℝ) => a <. b) total ((q0 :: qs).map fun l => l.map (·.1)) =
      (q0 :: qs).map (fun _ => (vals', whos')))
    (k : Nat) (hk : k < total)
    (hsame : ∀ v : ℝ, (∃ l ∈ p0 :: ps, (l.map (·.1)).getD k 0 = v) ↔ (∃ l ∈ q0 :: qs, (l.map (·.1)).getD k 0 = v)) :
    vals.getD k 0 = vals'.getD k 0 := by
  obtain ⟨v1, w1, e1, hall1⟩ := arbitration_picks_global_best p0 ps total hp
  obtain ⟨v2, w2, e2, hall2⟩ := arbitration_picks_global_best q0 qs total hq
  rw [e1] at h1
  rw [e2] at h2
  simp only [List.map_cons, List.cons.injEq, Prod.mk.injEq] at h1 h2
  obtain ⟨⟨rfl, rfl⟩, _⟩ := h1
  obtain ⟨⟨rfl, rfl⟩, _⟩ := h2
  obtain ⟨t1, _, ht1, hv1, hle1, _⟩ := hall1 k hk
  obtain ⟨t2, _, ht2, hv2, hle2, _⟩ := hall2 k hk
  -- the winner of each run proposes a value that the other run also has
  have m1 : (p0 :: ps).getD t1 [] ∈ p0 :: ps := by
    rw [List.getD_eq_getElem?_getD, List.getElem?_eq_getElem ht1]
    exact List.getElem_mem _
  have m2 : (q0 :: qs).getD t2 [] ∈ q0 :: qs := by
    rw [List.getD_eq_getElem?_getD, List.getElem?_eq_getElem ht2]
    exact List.getElem_mem _
  obtain ⟨l2, hl2, hl2v⟩ := (hsame _).mp ⟨_, m1, hv1⟩
  obtain ⟨l1, hl1, hl1v⟩ := (hsame _).mpr ⟨_, m2, hv2⟩
  have a1 := hle2 l2 hl2
  have a2 := hle1 l1 hl1
  rw [hl2v] at a1
  rw [hl1v] at a2
  exact le_antisymm a2 a1

/-! ### what is stored are the weights of the vertex' own position -/

/-- **The stored weights belong to the vertex.**  Hypotheses on the input only: cell ids are not `REF_EMPTY`, a ghost copy
    of a receptor vertex has the coordinates of its owner's copy, and the four worlds have one entry per rank.  Then after a
    successful `ref_interp_locate`, for every receptor vertex `i` of every rank `r` that has been located (any stage):
    the stored cell is not `REF_EMPTY`, the stored part `p` is a rank, the stored cell is a cell of rank `p`'s donor, and
    the four stored slots are exactly what the C stores for the barycentric weights of THE VERTEX' OWN POSITION
    `rw[r].pt i` in that cell — whatever ranks the walking agent crossed, whichever rank proposed the tree candidate. -/
theorem locate_stored_weights (dw : World (DonorR ℝ)) (ss : World (Search ℝ)) (rw : World (RecvR ℝ))
    (fuzz fuzz' : ℝ) (seeds : List (Nat × Nat)) (w' : World (RankSt ℝ))
    (hid : CellIdsOK dw) (hgh : GhostOK rw) (hdl : dw.length = rw.length) (hsl : ss.length = rw.length)
    (hsd : seeds.length = rw.length)
    (h : locate dw ss rw fuzz (seeds.map fun q => RankSt.create q.1 q.2) = .ok (w', fuzz'))
    (r : Nat) (st : RankSt ℝ) (rc : RecvR ℝ) (hst : w'[r]? = some st) (hrc : rw[r]? = some rc)
    (i : Nat) (hi : st.stage.getD i 0 ≠ 0) :
    st.cellOf i ≠ refEmpty ∧ 0 ≤ st.part.getD i refEmpty ∧
      ∃ dr n, dw[(st.part.getD i refEmpty).toNat]? = some dr ∧ dr.d.cellAt (st.cellOf i) = some n ∧
        st.baryOf i = storeBary dr.d.twod Slots.unwritten (baryOf dr.d n (rc.pt i)).2 := by
  have hg := goodWG_locate hid hgh hdl hsl (goodWG_create seeds hsd) h
  have hgood := hg.2 r st rc hst hrc
  obtain ⟨hp, dr, hdr, n, hn, hb⟩ := hgood.nodes i hi
  exact ⟨hgood.located i hi, hp, dr, n, hdr, hn, hb⟩

/-! ### linear exactness, end to end -/

/-- **Clipping costs at most `4 ε` of the spread.**  Weights that sum to one and are each `≥ -ε` (what stage 1 and stage 2
    accept with `ε = 1e-12`): the clipped, renormalised combination of any four values differs from the unclipped one by at
    most `4 ε M`, `M` a bound on the deviation of the four values from the unclipped combination. -/
theorem clip_error_bound (o w f : B4 ℝ) (ε M : ℝ) (hε : 0 ≤ ε) (hM : 0 ≤ M)
    (hsum : o.b0 + o.b1 + o.b2 + o.b3 = 1)
    (h0 : -ε ≤ o.b0) (h1 : -ε ≤ o.b1) (h2 : -ε ≤ o.b2) (h3 : -ε ≤ o.b3)
    (hc : clipBary4 o = (St.ok, w))
    (F : ℝ) (hF : o.b0 * f.b0 + o.b1 * f.b1 + o.b2 * f.b2 + o.b3 * f.b3 = F)
    (d0 : |f.b0 - F| ≤ M) (d1 : |f.b1 - F| ≤ M) (d2 : |f.b2 - F| ≤ M) (d3 : |f.b3 - F| ≤ M) :
    |w.b0 * f.b0 + w.b1 * f.b1 + w.b2 * f.b2 + w.b3 * f.b3 - F| ≤ 4 * ε * M := by
  obtain ⟨hS, rfl⟩ := clipBary4_ok_form hc
  simp only
  set n0 := max 0 o.b0 - o.b0 with hn0
  set n1 := max 0 o.b1 - o.b1 with hn1
  set n2 := max 0 o.b2 - o.b2 with hn2
  set n3 := max 0 o.b3 - o.b3 with hn3
  have b0 : 0 ≤ n0 ∧ n0 ≤ ε := by
    rw [hn0]; constructor
    · linarith [le_max_right 0 o.b0]
    · rcases le_total 0 o.b0 with hh | hh
      · rw [max_eq_right hh]; linarith
      · rw [max_eq_left hh]; linarith
  have b1 : 0 ≤ n1 ∧ n1 ≤ ε := by
    rw [hn1]; constructor
    · linarith [le_max_right 0 o.b1]
    · rcases le_total 0 o.b1 with hh | hh
      · rw [max_eq_right hh]; linarith
      · rw [max_eq_left hh]; linarith
  have b2 : 0 ≤ n2 ∧ n2 ≤ ε := by
    rw [hn2]; constructor
    · linarith [le_max_right 0 o.b2]
    · rcases le_total 0 o.b2 with hh | hh
      · rw [max_eq_right hh]; linarith
      · rw [max_eq_left hh]; linarith
  have b3 : 0 ≤ n3 ∧ n3 ≤ ε := by
    rw [hn3]; constructor
    · linarith [le_max_right 0 o.b3]
    · rcases le_total 0 o.b3 with hh | hh
      · rw [max_eq_right hh]; linarith
      · rw [max_eq_left hh]; linarith
  set S := max 0 o.b0 + max 0 o.b1 + max 0 o.b2 + max 0 o.b3 with hSdef
  have hS1 : 1 ≤ S := by
    have : S = 1 + (n0 + n1 + n2 + n3) := by rw [hSdef, hn0, hn1, hn2, hn3]; linarith
    rw [this]; linarith [b0.1, b1.1, b2.1, b3.1]
  have hSpos : 0 < S := by linarith
  -- the difference is the negative parts against the deviations, over S
  have key : max 0 o.b0 / S * f.b0 + max 0 o.b1 / S * f.b1 + max 0 o.b2 / S * f.b2 + max 0 o.b3 / S * f.b3 - F =
      (n0 * (f.b0 - F) + n1 * (f.b1 - F) + n2 * (f.b2 - F) + n3 * (f.b3 - F)) / S := by
    field_simp
    rw [hn0, hn1, hn2, hn3, hSdef]
    linear_combination hF - F * hsum
  rw [key, abs_div, abs_of_pos hSpos]
  have e0 := abs_le.mp d0
  have e1 := abs_le.mp d1
  have e2 := abs_le.mp d2
  have e3 := abs_le.mp d3
  have hnum : |n0 * (f.b0 - F) + n1 * (f.b1 - F) + n2 * (f.b2 - F) + n3 * (f.b3 - F)| ≤ 4 * ε * M := by
    rw [abs_le]
    have p0 : |n0 * (f.b0 - F)| ≤ ε * M := by
      rw [abs_mul, abs_of_nonneg b0.1]; exact mul_le_mul b0.2 d0 (abs_nonneg _) hε
    have p1 : |n1 * (f.b1 - F)| ≤ ε * M := by
      rw [abs_mul, abs_of_nonneg b1.1]; exact mul_le_mul b1.2 d1 (abs_nonneg _) hε
    have p2 : |n2 * (f.b2 - F)| ≤ ε * M := by
      rw [abs_mul, abs_of_nonneg b2.1]; exact mul_le_mul b2.2 d2 (abs_nonneg _) hε
    have p3 : |n3 * (f.b3 - F)| ≤ ε * M := by
      rw [abs_mul, abs_of_nonneg b3.1]; exact mul_le_mul b3.2 d3 (abs_nonneg _) hε
    have q0 := abs_le.mp p0
    have q1 := abs_le.mp p1
    have q2 := abs_le.mp p2
    have q3 := abs_le.mp p3
    constructor <;> linarith
  have hnn : 0 ≤ 4 * ε * M := by positivity
  calc |n0 * (f.b0 - F) + n1 * (f.b1 - F) + n2 * (f.b2 - F) + n3 * (f.b3 - F)| / S
      ≤ 4 * ε * M / S := div_le_div_of_nonneg_right hnum hSpos.le
    _ ≤ 4 * ε * M := div_le_self hnn hS1

/-- **`ref_interp_locate` + `ref_interp_scalar` is linearly exact, whichever stage located the vertex** (tetrahedral
    donors, exact arithmetic).  Under the input hypotheses of `locate_stored_weights`, take a located receptor vertex `i` of
    rank `r`, at position `x`; let `n` be its stored cell (a cell of rank `part`'s donor) and suppose `ref_node_bary4` of `x`
    in it succeeds with weights `b`.  Then the four stored slots are `b`, and for every field `α + g·p` linear in space:
    * if the stored cell encloses the vertex (all `b ≥ 0` — what the tree stage guarantees for a vertex inside the donor
      domain: `tree_linear_exact_inside`), `ref_interp_scalar` returns EXACTLY `α + g·x`;
    * if the vertex was located by a geometry seed or a walk (stage 1 / 2), every value `ref_interp_scalar` returns is
      within `4 · 1e-12 · M` of `α + g·x`, `M` bounding `|g·(pₖ - x)|` over the four cell vertices: round-off size. -/
theorem locate_linear_exact (dw : World (DonorR ℝ)) (ss : World (Search ℝ)) (rw : World (RecvR ℝ))
    (fuzz fuzz' : ℝ) (seeds : List (Nat × Nat)) (w' : World (RankSt ℝ))
    (hid : CellIdsOK dw) (hgh : GhostOK rw) (hdl : dw.length = rw.length) (hsl : ss.length = rw.length)
    (hsd : seeds.length = rw.length) (h3d : ∀ dr ∈ dw, dr.d.twod = false)
    (h : locate dw ss rw fuzz (seeds.map fun q => RankSt.create q.1 q.2) = .ok (w', fuzz'))
    (r : Nat) (st : RankSt ℝ) (rc : RecvR ℝ) (hst : w'[r]? = some st) (hrc : rw[r]? = some rc)
    (i : Nat) (hi : st.stage.getD i 0 ≠ 0) (α : ℝ) (g : V3 ℝ) :
    ∃ dr n, dw[(st.part.getD i refEmpty).toNat]? = some dr ∧ dr.d.cellAt (st.cellOf i) = some n ∧
      ∀ b : B4 ℝ, baryOf dr.d n (rc.pt i) = (St.ok, b) →
        st.baryOf i = ⟨some b.b0, some b.b1, some b.b2, some b.b3⟩ ∧
        (0 ≤ b.b0 → 0 ≤ b.b1 → 0 ≤ b.b2 → 0 ≤ b.b3 →
          interpScalar 4 b ⟨α + vdot g (dr.d.pt n.n0), α + vdot g (dr.d.pt n.n1), α + vdot g (dr.d.pt n.n2),
            α + vdot g (dr.d.pt n.n3)⟩ = (St.ok, α + vdot g (rc.pt i))) ∧
        ((st.stage.getD i 0 = 1 ∨ st.stage.getD i 0 = 2) → ∀ (M v : ℝ), 0 ≤ M →
          |vdot g (dr.d.pt n.n0) - vdot g (rc.pt i)| ≤ M → |vdot g (dr.d.pt n.n1) - vdot g (rc.pt i)| ≤ M →
          |vdot g (dr.d.pt n.n2) - vdot g (rc.pt i)| ≤ M → |vdot g (dr.d.pt n.n3) - vdot g (rc.pt i)| ≤ M →
          interpScalar 4 b ⟨α + vdot g (dr.d.pt n.n0), α + vdot g (dr.d.pt n.n1), α + vdot g (dr.d.pt n.n2),
            α + vdot g (dr.d.pt n.n3)⟩ = (St.ok, v) →
          |v - (α + vdot g (rc.pt i))| ≤ 4 * (1e-12) * M) := by
  obtain ⟨_, _, dr, n, hdr, hn, hb⟩ := locate_stored_weights dw ss rw fuzz fuzz' seeds w' hid hgh hdl hsl hsd h r st rc hst hrc i hi
  have h3 : dr.d.twod = false := h3d dr (List.mem_of_getElem? hdr)
  refine ⟨dr, n, hdr, hn, ?_⟩
  intro b hbo
  have hslots : st.baryOf i = ⟨some b.b0, some b.b1, some b.b2, some b.b3⟩ := by
    rw [hb, hbo, h3, storeBary_3d]
  have hb4 : bary4 (dr.d.pt n.n0) (dr.d.pt n.n1) (dr.d.pt n.n2) (dr.d.pt n.n3) (rc.pt i) = (St.ok, b) := by
    rw [← baryOf_3d h3]; exact hbo
  refine ⟨hslots, ?_, ?_⟩
  · intro p0 p1 p2 p3
    exact Refine.Props.C11.interp_linear_inside α hb4 p0 p1 p2 p3
  · intro h12 M v hM m0 m1 m2 m3 hv
    -- the stored weights are `≥ inside`
    obtain ⟨w0, w1, w2, w3, hs, g0, g1, g2, g3⟩ :=
      locate_accepts_only_inside dw ss rw fuzz fuzz' seeds w' h st (List.mem_of_getElem? hst) i h12
    rw [hslots] at hs
    simp only [Slots.mk.injEq, Option.some.injEq] at hs
    obtain ⟨rfl, rfl, rfl, rfl⟩ := hs
    rw [insideTol_eq] at g0 g1 g2 g3
    have hsum := Refine.Props.C15.bary4_sum hb4
    have hrep := Refine.Props.C15.bary4_reproduce hb4
    have hF := Refine.Props.C11.convex_linear b.b0 b.b1 b.b2 b.b3 α g _ _ _ _ _ hsum hrep
    unfold interpScalar at hv
    split at hv
    · rename_i w hc
      simp only [isFinite_eq, if_true, Prod.mk.injEq, true_and, lit0_eq, add_eq, mul_eq, zero_add] at hv
      have hbound := clip_error_bound b w ⟨α + vdot g (dr.d.pt n.n0), α + vdot g (dr.d.pt n.n1), α + vdot g (dr.d.pt n.n2),
        α + vdot g (dr.d.pt n.n3)⟩ (1e-12) M (by norm_num) hM hsum g0 g1 g2 g3 hc (α + vdot g (rc.pt i)) hF
        (by simpa using m0) (by simpa using m1) (by simpa using m2) (by simpa using m3)
      rw [← hv]
      simpa using hbound
    · rename_i st' w hne hc
      simp only [Prod.mk.injEq] at hv
      exact absurd hv.1 hne

/-! ### non-vacuity -/

section NonVacuity
open Refine.Lemmas.InterpLocate.Ex

/-- the hypothesis of `locate_accepts_only_inside` / `locate_all_slots_written` is met by the 2-D world of
    `Lemmas/InterpLocateEx.lean` (one donor triangle, one receptor corner at (1/4, 1/4)): `ref_interp_locate` succeeds and
    the vertex is located by STAGE 1, so the conclusion speaks about an actual stored cell -/
example : locate [dr0] [s0] [rc0] (1e-12 : ℝ) ([(1, 1)].map fun q => RankSt.create q.1 q.2) = .ok ([st1], 1e-12) ∧
    st1.stage.getD 0 0 = 1 := ⟨locate1, rfl⟩

example : SlotsGe insideTol (st1.baryOf 0) :=
  locate_accepts_only_inside [dr0] [s0] [rc0] 1e-12 1e-12 [(1, 1)] [st1] locate1 st1 (by simp) 0 (Or.inl rfl)

/-- ... and the stored slots are the ones the model computes: (1/2, 1/4, 1/4) and the explicit 0 in the 4th slot -/
example : st1.baryOf 0 = ⟨some 2⁻¹, some 4⁻¹, some 4⁻¹, some 0⟩ := rfl

example : (st1.baryOf 0).written = true ∧ (st1.baryOf 0).s3 = some (lit0 : ℝ) := by
  have := locate_all_slots_written true [dr0] (by intro dr hdr; simp only [List.mem_singleton] at hdr; subst hdr; rfl)
    [s0] [rc0] 1e-12 1e-12 [(1, 1)] [st1] locate1 st1 (by simp) 0 (Or.inl rfl)
  exact ⟨this.1, this.2 rfl⟩

/-- the input hypotheses of `locate_stored_weights` hold for that world, so its conclusion is about a real run -/
example : ∃ dr n, [dr0][(st1.part.getD 0 refEmpty).toNat]? = some dr ∧ dr.d.cellAt (st1.cellOf 0) = some n ∧
    st1.baryOf 0 = storeBary dr.d.twod Slots.unwritten (baryOf dr.d n (rc0.pt 0)).2 := by
  obtain ⟨_, _, dr, n, h1, h2, h3⟩ := locate_stored_weights [dr0] [s0] [rc0] 1e-12 1e-12 [(1, 1)] [st1] cellIds1 ghost1
    rfl rfl rfl locate1 0 st1 rc0 rfl rfl 0 (by simp [st1])
  exact ⟨dr, n, h1, h2, h3⟩

/-- the 3-D world (unit tet, receptor corner at the centroid) meets every hypothesis of `locate_linear_exact`; the
    vertex is enclosed (weights 1/4 each), so every linear field is interpolated exactly there -/
example (α : ℝ) (g : V3 ℝ) :
    interpScalar 4 (⟨4⁻¹, 4⁻¹, 4⁻¹, 4⁻¹⟩ : B4 ℝ)
      ⟨α + vdot g (dr3.d.pt 0), α + vdot g (dr3.d.pt 1), α + vdot g (dr3.d.pt 2), α + vdot g (dr3.d.pt 3)⟩ =
      (St.ok, α + vdot g (rc3.pt 0)) := by
  obtain ⟨dr, n, hdr, hn, hall⟩ := locate_linear_exact [dr3] [s0] [rc3] 1e-12 1e-12 [(1, 1)] [st3] cellIds3 ghost3 rfl rfl rfl
    (by intro dr hdr; simp only [List.mem_singleton] at hdr; subst hdr; rfl) locate3 0 st3 rc3 rfl rfl 0 (by simp [st3]) α g
  have e1 : dr = dr3 := by simpa [st3, refEmpty] using hdr.symm
  subst e1
  have e2 : n = ⟨0, 1, 2, 3⟩ := by
    have : dr3.d.cellAt (st3.cellOf 0) = some ⟨0, 1, 2, 3⟩ := cell3
    rw [this] at hn
    exact (Option.some.inj hn).symm
  subst e2
  have hb : baryOf dr3.d ⟨0, 1, 2, 3⟩ (rc3.pt 0) = (St.ok, ⟨4⁻¹, 4⁻¹, 4⁻¹, 4⁻¹⟩) := bary_q3
  exact (hall _ hb).2.1 (by norm_num) (by norm_num) (by norm_num) (by norm_num)

/-- **A receptor corner just outside the one-ring of the nearest donor corner.**  The donor corner cell is the triangle
    (0,0) (1,0) (0,1); a receptor corner at (21/40, 21/40) has weights (-1/20, 21/40, 21/40) in it: 5 % past its far edge,
    although it may lie well inside the donor domain.  The seed test of the C text (`> inside`) REJECTS it — the vertex is
    left to the walk / tree stages — while every weight passes the `bound` tolerance (-0.1): a seed test reading `bound`
    would store this cell (the seeded change `C11_geom_nodes_seed_accepts_bound`). -/
example : geomAccept (storeBary true Slots.unwritten (⟨-(1 / 20), 21 / 40, 21 / 40, 0⟩ : B4 ℝ)) = false ∧
    (boundTol : ℝ) < -(1 / 20) ∧ (boundTol : ℝ) < 21 / 40 ∧ (boundTol : ℝ) < 0 := by
  refine ⟨?_, ?_, ?_, ?_⟩
  · rw [storeBary_twod]
    have h1 : ((insideTol : ℝ) <. -(1 / 20 : ℝ)) = false := by
      rw [lt_false_iff, insideTol_eq]; norm_num
    simp only [geomAccept, InterpConsts.geomAcceptStrict, geomTol, InterpConsts.geomAcceptUsesInside, if_true, Slots.all,
      Option.map_some, Option.getD_some, h1, Bool.false_and]
  all_goals
    simp only [boundTol, lit, InterpConsts.bound, ofDec_eq]
    norm_num

/-- ... while a receptor corner inside the corner cell, or ON its far edge (weight exactly 0), is accepted -/
example : geomAccept (storeBary true Slots.unwritten (⟨1 / 2, 1 / 4, 1 / 4, 0⟩ : B4 ℝ)) = true ∧
    geomAccept (storeBary true Slots.unwritten (⟨0, 1 / 4, 3 / 4, 0⟩ : B4 ℝ)) = true := by
  constructor <;>
  · rw [storeBary_twod]
    simp only [geomAccept, InterpConsts.geomAcceptStrict, geomTol, InterpConsts.geomAcceptUsesInside, if_true, Slots.all,
      Option.map_some, Option.getD_some, insideTol, lit, InterpConsts.inside, ofDec_eq, Bool.and_eq_true, lt_iff,
      lit0_eq]
    norm_num

/-- an `ENCLOSING` agent on rank 1 that has to go home to rank 0 with four non-trivial weights -/
noncomputable def agHome : AgentP ℝ :=
  ⟨.enclosing, 0, 3, 1, 7, refEmpty, 5, ⟨1, 2, 3⟩, ⟨some 4⁻¹, some 4⁻¹, some 4⁻¹, some 4⁻¹⟩⟩

/-- the hypotheses of `agent_migrate_total` hold on a two-rank world in which rank 1 ships that agent home: the migration
    succeeds, rank 0 ends up with the agent — all four weights included — and rank 1 with an empty slot 0 -/
example : migrate [Agents.create, (Agents.create.push agHome).2] =
    .ok [(Agents.create.push agHome).2, { (Agents.create : Agents ℝ) with freed := [0], fresh := 1 }] := by
  have hl : ∀ l ∈ ([Agents.create, (Agents.create.push agHome).2] : World (Agents ℝ)).mapIdx (fun r a => leaving r a),
      ∀ p ∈ l, 0 ≤ p.2.dest ∧ p.2.dest < ((2 : Nat) : Int) := by
    intro l hl p hp
    simp [List.mapIdx, List.mapIdx.go, leaving, Agents.create, Agents.push, Agents.alloc, Agents.insertSorted,
      InterpConsts.agentsMax0, AgentP.dest, agHome] at hl
    rcases hl with rfl | rfl
    · cases hp
    · simp only [List.mem_singleton] at hp
      subst hp
      simp [AgentP.dest]
  rw [agent_migrate_total _ hl (by
    simp [outPairs, List.mapIdx, List.mapIdx.go, leaving, Agents.create, Agents.push, Agents.alloc, Agents.insertSorted,
      InterpConsts.agentsMax0, AgentP.dest, agHome, INT_MAX])]
  simp [staysOf, outPairs, deliveredG, pick, List.mapIdx, List.mapIdx.go, leaving, Agents.create, Agents.push, Agents.alloc,
    Agents.insertSorted, Agents.remove, InterpConsts.agentsMax0, AgentP.dest, agHome, List.zipIdx]

/-- three ranks propose `-0.2`, `-0.5`, `-0.5` for one target (negated min weights 0.2, 0.5, 0.5): rank 1 — the lowest rank
    with the largest min weight — is chosen on every rank -/
example : allminwho (fun (a b : ℝ) => a <. b) 1 ([[(-(1/5 : ℝ), (3 : Int))], [(-(1/2), 4)], [(-(1/2), 9)]].map fun l => l.map (·.1)) =
    [([-(1/2)], [1]), ([-(1/2)], [1]), ([-(1/2)], [1])] := by
  simp [allminwho, mpiReduce, minloc, writeAt, List.mapIdx, List.mapIdx.go]
  norm_num

end NonVacuity

end Refine.Props.C11Locate
