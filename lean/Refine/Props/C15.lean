import Refine.Model.CellTopo

/-!
  C15 (table part): the per-cell-type edge and face tables describe a closed,
  consistently oriented cell boundary.  The tables are *generated* from
  `ref_cell_initialize` on every run; these theorems are re-checked against them.
-/
namespace Refine.Props.C15
open Refine.Gen.CellTables Refine.Model.CellTopo

/-- every one of the 16 cell types has tables of the declared shape, entries in range -/
theorem tables_shapes : all.all shapesOk = true := by decide

/-- 3-D cells (linear and quadratic share the tables): each directed face side occurs once,
    its reverse occurs once — the face cycle boundary is closed and coherently oriented -/
theorem faces_close : volumeTypes.all closedOriented = true := by decide

/-- every edge of a 3-D cell lies in exactly two faces -/
theorem each_edge_two_faces : volumeTypes.all eachEdgeTwoFaces = true := by decide

/-- every face side of a 3-D cell is one of its table edges, and edges are pairwise distinct -/
theorem sides_are_edges : volumeTypes.all (fun c => sidesAreEdges c && edgesDistinct c) = true := by decide

/-- Euler characteristic 2 for every 3-D cell -/
theorem euler_two : volumeTypes.all euler2 = true := by decide

/-- 2-D elements: the edge table is one closed cycle consistent with the face row -/
theorem surface_edge_cycle : surfaceTypes.all (fun c => edgeCycle c && sidesAreEdges c) = true := by decide

/-- quadratic types share the linear tables -/
theorem quadratic_share_linear :
    te2.e2n = tet.e2n ∧ te2.f2n = tet.f2n ∧ py2.e2n = pyr.e2n ∧ py2.f2n = pyr.f2n ∧
    pr2.e2n = pri.e2n ∧ pr2.f2n = pri.f2n ∧ he2.e2n = hex.e2n ∧ he2.f2n = hex.f2n := by decide

/-- the tet face opposite node `i` is face `i` (used by the cavity and validation code) -/
theorem tet_face_opposite :
    (List.range 4).all (fun i => match tet.f2n[i]? with
      | some f => !(faceNodes f).contains i && (faceNodes f).length == 3
      | none => false) = true := by decide

end Refine.Props.C15
