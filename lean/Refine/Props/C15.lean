import Refine.Model.CellTopo
import Refine.Lemmas.GeomReal

/-!
  C15 (table part): the per-cell-type edge and face tables describe a closed,
  consistently oriented cell boundary.  The tables are *generated* from
  `ref_cell_initialize` on every run; these theorems are re-checked against them.
-/
namespace Refine.Props.C15
open Refine.Gen.CellTables Refine.Model.CellTopo

/-- every one of the 16 cell types has tables of the declared shape, entries in range -/
theorem tables_shapes : all.all shapesOk = true := by decide

/-- 3-D cells (linear and quadratic share the tables): each directed face side occurs once,
    its reverse occurs once — the face cycle boundary is closed and coherently oriented -/
theorem faces_close : volumeTypes.all closedOriented = true := by decide

/-- every edge of a 3-D cell lies in exactly two faces -/
theorem each_edge_two_faces : volumeTypes.all eachEdgeTwoFaces = true := by decide

/-- every face side of a 3-D cell is one of its table edges, and edges are pairwise distinct -/
theorem sides_are_edges : volumeTypes.all (fun c => sidesAreEdges c && edgesDistinct c) = true := by decide

/-- Euler characteristic 2 for every 3-D cell -/
theorem euler_two : volumeTypes.all euler2 = true := by decide

/-- 2-D elements: the edge table is one closed cycle consistent with the face row -/
theorem surface_edge_cycle : surfaceTypes.all (fun c => edgeCycle c && sidesAreEdges c) = true := by decide

/-- quadratic types share the linear tables -/
theorem quadratic_share_linear :
    te2.e2n = tet.e2n ∧ te2.f2n = tet.f2n ∧ py2.e2n = pyr.e2n ∧ py2.f2n = pyr.f2n ∧
    pr2.e2n = pri.e2n ∧ pr2.f2n = pri.f2n ∧ he2.e2n = hex.e2n ∧ he2.f2n = hex.f2n := by decide

/-- the tet face opposite node `i` is face `i` (used by the cavity and validation code) -/
theorem tet_face_opposite :
    (List.range 4).all (fun i => match tet.f2n[i]? with
      | some f => !(faceNodes f).contains i && (faceNodes f).length == 3
      | none => false) = true := by decide


/-! ## Geometric measures (L4 Geom), exact real arithmetic.
    The model functions are the ones bit-compared with the C (`Drivers/Geom.lean`, stream `geom_*`);
    rounding is modelled, not verified. -/
section Measures
open Refine Refine.Model.Geom Refine.ScalarReal Refine.GeomReal

/-- the coded formula is the signed determinant `det[b-a, c-a, d-a] / 6` -/
theorem tetVol_eq_det (a b c d : V3 ℝ) :
    tetVol a b c d =
      ((b.x - a.x) * ((c.y - a.y) * (d.z - a.z) - (c.z - a.z) * (d.y - a.y))
     - (b.y - a.y) * ((c.x - a.x) * (d.z - a.z) - (c.z - a.z) * (d.x - a.x))
     + (b.z - a.z) * ((c.x - a.x) * (d.y - a.y) - (c.y - a.y) * (d.x - a.x))) / 6 := by
  simp only [tetVol, add_eq, sub_eq, mul_eq, div_eq, neg_eq, ofInt_eq]
  push_cast; ring

/-- `ref_node_bary4`'s sub-determinant is `-6 ×` the volume -/
theorem tetDet_eq (a b c d : V3 ℝ) : tetDet a b c d = -6 * tetVol a b c d := by
  simp only [tetDet, tetVol, add_eq, sub_eq, mul_eq, div_eq, neg_eq, ofInt_eq]
  push_cast; ring

/-- odd permutations of the vertices negate the volume -/
theorem tetVol_swap01 (a b c d : V3 ℝ) : tetVol b a c d = - tetVol a b c d := by
  simp only [tetVol, add_eq, sub_eq, mul_eq, div_eq, neg_eq, ofInt_eq]; push_cast; ring
theorem tetVol_swap12 (a b c d : V3 ℝ) : tetVol a c b d = - tetVol a b c d := by
  simp only [tetVol, add_eq, sub_eq, mul_eq, div_eq, neg_eq, ofInt_eq]; push_cast; ring
theorem tetVol_swap23 (a b c d : V3 ℝ) : tetVol a b d c = - tetVol a b c d := by
  simp only [tetVol, add_eq, sub_eq, mul_eq, div_eq, neg_eq, ofInt_eq]; push_cast; ring
theorem tetVol_swap02 (a b c d : V3 ℝ) : tetVol c b a d = - tetVol a b c d := by
  simp only [tetVol, add_eq, sub_eq, mul_eq, div_eq, neg_eq, ofInt_eq]; push_cast; ring
theorem tetVol_swap03 (a b c d : V3 ℝ) : tetVol d b c a = - tetVol a b c d := by
  simp only [tetVol, add_eq, sub_eq, mul_eq, div_eq, neg_eq, ofInt_eq]; push_cast; ring
theorem tetVol_swap13 (a b c d : V3 ℝ) : tetVol a d c b = - tetVol a b c d := by
  simp only [tetVol, add_eq, sub_eq, mul_eq, div_eq, neg_eq, ofInt_eq]; push_cast; ring

/-- even permutations (the 3-cycles generate them) fix the volume -/
theorem tetVol_cycle012 (a b c d : V3 ℝ) : tetVol b c a d = tetVol a b c d := by
  simp only [tetVol, add_eq, sub_eq, mul_eq, div_eq, neg_eq, ofInt_eq]; push_cast; ring
theorem tetVol_cycle123 (a b c d : V3 ℝ) : tetVol a c d b = tetVol a b c d := by
  simp only [tetVol, add_eq, sub_eq, mul_eq, div_eq, neg_eq, ofInt_eq]; push_cast; ring
theorem tetVol_double_swap (a b c d : V3 ℝ) : tetVol b a d c = tetVol a b c d := by
  simp only [tetVol, add_eq, sub_eq, mul_eq, div_eq, neg_eq, ofInt_eq]; push_cast; ring

/-- a repeated vertex gives zero volume (flat cell) -/
theorem tetVol_degenerate (a c d : V3 ℝ) : tetVol a a c d = 0 := by
  simp only [tetVol, add_eq, sub_eq, mul_eq, div_eq, neg_eq, ofInt_eq]; push_cast; ring

/-- the cone identity behind cavity volume conservation: for every apex `p` the four faces of the
    tet (rows of `tet.f2n`) coned to `p` sum to the tet -/
theorem tetVol_cone4 (a b c d p : V3 ℝ) :
    tetVol a b c d = tetVol p b c d + tetVol a p c d + tetVol a b p d + tetVol a b c p := by
  simp only [tetVol, add_eq, sub_eq, mul_eq, div_eq, neg_eq, ofInt_eq]; push_cast; ring

/-- volume is affine in vertex 0: the coded derivative `ref_node_tet_dvol_dnode0` is EXACTLY the
    finite difference, for every displacement `δ` (no limit involved) -/
theorem tetVol_affine0 (a b c d δ : V3 ℝ) :
    tetVol (vadd a δ) b c d = tetVol a b c d + vdot (tetDvolDnode0 a b c d).2 δ := by
  simp only [tetDvolDnode0, tetVol, vadd, vdot, add_eq, sub_eq, mul_eq, div_eq, neg_eq, ofInt_eq, lit6_eq]
  push_cast; ring

/-- … and its value component is the volume -/
theorem tetDvol_value (a b c d : V3 ℝ) : (tetDvolDnode0 a b c d).1 = tetVol a b c d := rfl

/-- splitting an edge `a–b` at `m = (1-t)a + t b` splits the volume in the same ratio -/
theorem tetVol_split (a b c d : V3 ℝ) (t : ℝ) :
    tetVol (vadd (vsmul (1 - t) a) (vsmul t b)) b c d = (1 - t) * tetVol a b c d ∧
    tetVol a (vadd (vsmul (1 - t) a) (vsmul t b)) c d = t * tetVol a b c d := by
  constructor <;>
  · simp only [tetVol, vadd, vsmul, add_eq, sub_eq, mul_eq, div_eq, neg_eq, ofInt_eq]; push_cast; ring

/-- triangle normal: swapping two vertices negates it, cyclic shifts fix it -/
theorem triNormal_swap12 (a b c : V3 ℝ) : triNormal a c b = vsmul (-1) (triNormal a b c) := by
  simp only [triNormal, cross, V3.sub, vsmul, sub_eq, mul_eq]
  ext <;> ring
theorem triNormal_swap01 (a b c : V3 ℝ) : triNormal b a c = vsmul (-1) (triNormal a b c) := by
  simp only [triNormal, cross, V3.sub, vsmul, sub_eq, mul_eq]
  ext <;> ring
theorem triNormal_cycle (a b c : V3 ℝ) : triNormal b c a = triNormal a b c := by
  simp only [triNormal, cross, V3.sub, sub_eq, mul_eq]
  ext <;> ring

/-- the area is `|n|/2`, non-negative and invariant under every permutation of the vertices -/
theorem triArea_eq (a b c : V3 ℝ) :
    triArea a b c = Real.sqrt (vdot (triNormal a b c) (triNormal a b c)) / 2 := by
  simp only [triArea, dot_eq, mul_eq, sqrt_eq, half_eq]; ring
theorem triArea_nonneg (a b c : V3 ℝ) : 0 ≤ triArea a b c := by
  rw [triArea_eq]; positivity
theorem triArea_swap12 (a b c : V3 ℝ) : triArea a c b = triArea a b c := by
  rw [triArea_eq, triArea_eq, triNormal_swap12]; simp only [vdot, vsmul]; ring_nf
theorem triArea_swap01 (a b c : V3 ℝ) : triArea b a c = triArea a b c := by
  rw [triArea_eq, triArea_eq, triNormal_swap01]; simp only [vdot, vsmul]; ring_nf
theorem triArea_cycle (a b c : V3 ℝ) : triArea b c a = triArea a b c := by
  rw [triArea_eq, triArea_eq, triNormal_cycle]

/-- 2-D orientation flips with the vertex order (strictly: not both orders are valid) -/
theorem triTwodOrientation_swap (a b c : V3 ℝ) :
    triTwodOrientation a b c = true → triTwodOrientation a c b = false := by
  unfold triTwodOrientation
  rw [triNormal_swap12 a b c]
  simp only [lit0_eq, lt_iff, vsmul]
  intro h
  rw [Bool.eq_false_iff]; simp only [ne_eq, lt_iff]; linarith


/-! ### quadratic form `vᵀ M v` and its coded derivatives -/

/-- exact second-order expansion: the coded derivative `ref_matrix_vt_m_v_deriv` is the linear term -/
theorem vtMv_expand (M : M6 ℝ) (v δ : V3 ℝ) :
    vtMv M (vadd v δ) = vtMv M v + vdot (vtMvDeriv M v).2 δ + vtMv M δ := by
  simp only [vtMv, vtMvDeriv, vadd, vdot, add_eq, mul_eq]; ring

theorem vtMvDeriv_value (M : M6 ℝ) (v : V3 ℝ) : (vtMvDeriv M v).1 = vtMv M v := rfl
theorem sqrtVtMvDeriv_value (M : M6 ℝ) (v : V3 ℝ) : (sqrtVtMvDeriv M v).1 = sqrtVtMv M v := rfl

/-- `sqrtVtMv² = vtMv` on the non-negative cone -/
theorem sqrtVtMv_sq (M : M6 ℝ) (v : V3 ℝ) (h : 0 ≤ vtMv M v) : sqrtVtMv M v * sqrtVtMv M v = vtMv M v := by
  simp only [sqrtVtMv, sqrt_eq]; exact Real.mul_self_sqrt h

/-- chain rule, exactly as coded: `2·√(vᵀMv) · d(√(vᵀMv)) = d(vᵀMv)` whenever the length is non-zero -/
theorem sqrtVtMv_chain (M : M6 ℝ) (v : V3 ℝ) (h : sqrtVtMv M v ≠ 0) :
    vsmul (2 * sqrtVtMv M v) (sqrtVtMvDeriv M v).2 = (vtMvDeriv M v).2 := by
  simp only [sqrtVtMv, sqrt_eq] at h
  simp only [sqrtVtMvDeriv, vtMvDeriv, sqrtVtMv, vsmul, add_eq, mul_eq, div_eq, sqrt_eq, half_eq]
  ext <;> (simp only []; field_simp; ring)

/-! ### barycentric coordinates -/

/-- `ref_node_bary4`, success branch: the weights sum to one … -/
theorem bary4_sum {a b c d p : V3 ℝ} {w : B4 ℝ} (h : bary4 a b c d p = (St.ok, w)) :
    w.b0 + w.b1 + w.b2 + w.b3 = 1 := by
  unfold bary4 at h
  simp only [] at h
  split at h
  · rename_i hg
    simp only [Bool.and_eq_true] at hg
    have ht := divisible_ne_zero hg.2
    simp only [Prod.mk.injEq, true_and] at h
    subst h
    simp only [add_eq, div_eq] at ht ⊢
    field_simp
  · simp at h

/-- … and reproduce the query point: `Σ wᵢ xᵢ = p` (inside or outside the tet) -/
theorem bary4_reproduce {a b c d p : V3 ℝ} {w : B4 ℝ} (h : bary4 a b c d p = (St.ok, w)) :
    vadd (vadd (vadd (vsmul w.b0 a) (vsmul w.b1 b)) (vsmul w.b2 c)) (vsmul w.b3 d) = p := by
  unfold bary4 at h
  simp only [] at h
  split at h
  · rename_i hg
    simp only [Bool.and_eq_true] at hg
    have ht := divisible_ne_zero hg.2
    simp only [Prod.mk.injEq, true_and] at h
    subst h
    obtain ⟨kx, ky, kz⟩ := bary4_mom a b c d p
    simp only [add_eq, div_eq] at ht ⊢
    ext <;> simp only [vadd, vsmul]
    · exact wsum4 _ _ _ _ _ _ _ _ _ _ ht kx
    · exact wsum4 _ _ _ _ _ _ _ _ _ _ ht ky
    · exact wsum4 _ _ _ _ _ _ _ _ _ _ ht kz
  · simp at h

/-- the success guard implies a non-flat tet -/
theorem bary4_ok_vol_ne_zero {a b c d p : V3 ℝ} {w : B4 ℝ} (h : bary4 a b c d p = (St.ok, w)) :
    tetVol a b c d ≠ 0 := by
  unfold bary4 at h
  simp only [] at h
  split at h
  · rename_i hg
    simp only [Bool.and_eq_true] at hg
    have ht := divisible_ne_zero hg.2
    intro hv
    apply ht
    have := tetVol_cone4 a b c d p
    simp only [add_eq, tetDet_eq]
    linarith
  · simp at h

/-- `ref_node_bary4`, `REF_DIV_ZERO` branch: what the C returns is `-1` at one vertex, `0` elsewhere
    (a walking direction, NOT a point of the simplex) -/
theorem bary4_divZero {a b c d p : V3 ℝ} {w : B4 ℝ} (h : bary4 a b c d p = (St.divZero, w)) :
    w = ⟨-1, 0, 0, 0⟩ ∨ w = ⟨0, -1, 0, 0⟩ ∨ w = ⟨0, 0, -1, 0⟩ ∨ w = ⟨0, 0, 0, -1⟩ := by
  unfold bary4 at h
  simp only [] at h
  split at h
  · simp at h
  · simp only [Prod.mk.injEq, true_and] at h
    subst h
    simp only [lit0_eq, ofInt_eq, Int.reduceNeg, Int.cast_neg, Int.cast_one]
    split_ifs <;> simp_all

/-- `ref_node_bary3` (2-D, uses x and y only): weights sum to one … -/
theorem bary3_sum {x0 x1 x2 p : V3 ℝ} {w : B3 ℝ} (h : bary3 x0 x1 x2 p = (St.ok, w)) :
    w.b0 + w.b1 + w.b2 = 1 := by
  unfold bary3 at h
  simp only [] at h
  split at h
  · rename_i hg
    simp only [Bool.and_eq_true] at hg
    have ht := divisible_ne_zero hg.2
    simp only [Prod.mk.injEq, true_and] at h
    subst h
    simp only [add_eq, div_eq] at ht ⊢
    field_simp
  · simp at h

/-- … and reproduce the query point in the plane (its z is ignored by the C) -/
theorem bary3_reproduce {x0 x1 x2 p : V3 ℝ} {w : B3 ℝ} (h : bary3 x0 x1 x2 p = (St.ok, w)) :
    w.b0 * x0.x + w.b1 * x1.x + w.b2 * x2.x = p.x ∧ w.b0 * x0.y + w.b1 * x1.y + w.b2 * x2.y = p.y := by
  unfold bary3 at h
  simp only [] at h
  split at h
  · rename_i hg
    simp only [Bool.and_eq_true] at hg
    have ht := divisible_ne_zero hg.2
    simp only [Prod.mk.injEq, true_and] at h
    subst h
    simp only [add_eq, div_eq] at ht ⊢
    constructor
    · apply wsum3 _ _ _ _ _ _ _ _ ht
      simp only [triNormal, cross, V3.sub, sub_eq, mul_eq]; ring
    · apply wsum3 _ _ _ _ _ _ _ _ ht
      simp only [triNormal, cross, V3.sub, sub_eq, mul_eq]; ring
  · simp at h

/-- `ref_node_bary3` / `bary3d`, `REF_DIV_ZERO` branch: all-zero weights -/
theorem bary3_divZero {x0 x1 x2 p : V3 ℝ} {w : B3 ℝ} (h : bary3 x0 x1 x2 p = (St.divZero, w)) :
    w = ⟨0, 0, 0⟩ := by
  unfold bary3 at h
  simp only [] at h
  split at h
  · simp at h
  · simp only [Prod.mk.injEq, true_and, lit0_eq] at h
    exact h.symm

/-- the raw `bary3d` weights do not change when the query point moves along the triangle normal by
    ANY amount … -/
theorem bary3dRaw_shift (x0 x1 x2 q : V3 ℝ) (s : ℝ) :
    bary3dRaw x0 x1 x2 (vadd q (vsmul s (triNormal x0 x1 x2))) = bary3dRaw x0 x1 x2 q := by
  simp only [bary3dRaw, triNormal, cross, dot, V3.sub, vadd, vsmul, add_eq, sub_eq, mul_eq]
  congr 1 <;> ring

/-- … so in EXACT arithmetic the projection step of `ref_node_bary3d` does not change the raw weights, whichever
    branch of its division guard is taken (in floating point the amount matters: before the repair in /repo the
    offset was not divided by `n·n` and cancelled catastrophically for large triangles) -/
theorem bary3d_raw_eq (x0 x1 x2 p : V3 ℝ) :
    bary3dRaw x0 x1 x2 (bary3dPoint x0 x1 x2 p) = bary3dRaw x0 x1 x2 p := by
  obtain ⟨s, hs⟩ := bary3dPoint_eq x0 x1 x2 p
  rw [hs, bary3dRaw_shift]

theorem bary3d_sum {x0 x1 x2 p : V3 ℝ} {w : B3 ℝ} (h : bary3d x0 x1 x2 p = (St.ok, w)) :
    w.b0 + w.b1 + w.b2 = 1 := by
  unfold bary3d at h
  simp only [] at h
  split at h
  · rename_i hg
    simp only [Bool.and_eq_true] at hg
    have ht := divisible_ne_zero hg.2
    simp only [Prod.mk.injEq, true_and] at h
    subst h
    simp only [add_eq, div_eq] at ht ⊢
    field_simp
  · simp at h

/-- `ref_node_bary3d` reproduces the ORTHOGONAL projection of the query point onto the triangle's plane -/
theorem bary3d_reproduce {x0 x1 x2 p : V3 ℝ} {w : B3 ℝ} (h : bary3d x0 x1 x2 p = (St.ok, w)) :
    vadd (vadd (vsmul w.b0 x0) (vsmul w.b1 x1)) (vsmul w.b2 x2) =
      vadd p (vsmul (-(vdot (V3.sub p x0) (triNormal x0 x1 x2) /
                       vdot (triNormal x0 x1 x2) (triNormal x0 x1 x2))) (triNormal x0 x1 x2)) := by
  unfold bary3d at h
  simp only [] at h
  split at h
  · rename_i hg
    simp only [Bool.and_eq_true] at hg
    have ht := divisible_ne_zero hg.2
    simp only [Prod.mk.injEq, true_and] at h
    subst h
    rw [bary3d_raw_eq] at ht ⊢
    simp only [add_eq, div_eq] at ht ⊢
    have hT := bary3dRaw_total x0 x1 x2 p
    rw [hT] at ht ⊢
    obtain ⟨kx, ky, kz⟩ := bary3dRaw_mom x0 x1 x2 p
    ext <;> simp only [vadd, vsmul]
    · exact wsum3 _ _ _ _ _ _ _ _ ht (kx.trans (proj_aux _ _ _ _ ht))
    · exact wsum3 _ _ _ _ _ _ _ _ ht (ky.trans (proj_aux _ _ _ _ ht))
    · exact wsum3 _ _ _ _ _ _ _ _ ht (kz.trans (proj_aux _ _ _ _ ht))
  · simp at h

/-! ### edge length in the metric (geometric formula) -/

/-- edge length in the metric is symmetric in its end points -/
theorem ratio_symm (x0 x1 : V3 ℝ) (m0 m1 : M6 ℝ) :
    ratioGeometric x0 x1 m0 m1 = ratioGeometric x1 x0 m1 m0 := by
  unfold ratioGeometric
  simp only []
  rw [ratioDegenerate_sub_comm x1 x0, sqrtVtMv_sub_comm m0 x1 x0, sqrtVtMv_sub_comm m1 x1 x0]
  generalize sqrtVtMv m0 (V3.sub x0 x1) = r0
  generalize sqrtVtMv m1 (V3.sub x0 x1) = r1
  simp only [cmin_eq, cmax_eq, min_comm r1 r0, max_comm r1 r0, Bool.or_comm (r1 <. eps12), add_eq,
    add_comm r1 r0]

/-- edge length scales linearly with metric size (`M ↦ s²M`), as long as the scaled and unscaled
    end-point lengths stay on the same side of the C's `1.0e-12` cut-off (here: `s ≥ 1`, lengths ≥ 1e-12).
    Full statement (all `s > 0`) is FALSE for the code as written: below the cut-off the C returns
    `MIN(ratio0, ratio1)` instead of the logarithmic mean. -/
theorem ratio_scale (s : ℝ) (hs : 1 ≤ s) (x0 x1 : V3 ℝ) (m0 m1 : M6 ℝ)
    (h0 : (eps12 : ℝ) ≤ sqrtVtMv m0 (V3.sub x1 x0)) (h1 : (eps12 : ℝ) ≤ sqrtVtMv m1 (V3.sub x1 x0)) :
    ratioGeometric x0 x1 (scaleM (s ^ 2) m0) (scaleM (s ^ 2) m1) = s * ratioGeometric x0 x1 m0 m1 := by
  have hs0 : 0 ≤ s := by linarith
  have hspos : 0 < s := by linarith
  unfold ratioGeometric
  simp only []
  rw [sqrtVtMv_scale s hs0, sqrtVtMv_scale s hs0]
  generalize sqrtVtMv m0 (V3.sub x1 x0) = r0 at h0 ⊢
  generalize sqrtVtMv m1 (V3.sub x1 x0) = r1 at h1 ⊢
  have he := eps12_pos
  have hr0 : 0 < r0 := lt_of_lt_of_le he h0
  have hr1 : 0 < r1 := lt_of_lt_of_le he h1
  by_cases hd : ratioDegenerate (V3.sub x1 x0) = true
  · simp only [hd, if_true, lit0_eq, mul_zero]
  · simp only [hd]
    have f0 : (r0 <. (eps12 : ℝ)) = false := (lt_false_iff _ _).mpr h0
    have f1 : (r1 <. (eps12 : ℝ)) = false := (lt_false_iff _ _).mpr h1
    have g0 : (s * r0 <. (eps12 : ℝ)) = false := (lt_false_iff _ _).mpr (by nlinarith)
    have g1 : (s * r1 <. (eps12 : ℝ)) = false := (lt_false_iff _ _).mpr (by nlinarith)
    simp only [f0, f1, g0, g1, Bool.or_false, Bool.false_eq_true, if_false, cmin_eq, cmax_eq,
      ← mul_min_of_nonneg _ _ hs0, ← mul_max_of_nonneg _ _ hs0, div_eq, mul_eq, sub_eq, add_eq, log_eq,
      lit1_eq, half_eq]
    rw [mul_div_mul_left _ _ (ne_of_gt hspos)]
    split
    · ring
    · ring

/-- a zero-length edge has length zero in every metric (the `ref_math_divisible` guard) -/
theorem ratio_same_point (x : V3 ℝ) (m0 m1 : M6 ℝ) : ratioGeometric x x m0 m1 = 0 := by
  unfold ratioGeometric
  have : ratioDegenerate (V3.sub x x) = true := by
    simp only [ratioDegenerate, V3.sub, sub_eq, sub_self, Bool.or_eq_true, Bool.not_eq_true']
    left; left
    rw [Bool.eq_false_iff, ne_eq, divisible_iff']
    simp only [dot, add_eq, mul_eq, mul_zero, add_zero, sqrt_eq, Real.sqrt_zero, abs_zero, lt_self_iff_false,
      not_false_eq_true]
  simp only [this, if_true, lit0_eq]

/-- coordinate part of `ref_node_interpolate_edge`: the new node is the convex combination -/
theorem interpolateEdge_eq (x0 x1 : V3 ℝ) (w : ℝ) :
    interpolateEdgeXyz x0 x1 w = vadd (vsmul (1 - w) x0) (vsmul w x1) := by
  simp only [interpolateEdgeXyz, vadd, vsmul, add_eq, sub_eq, mul_eq, lit1_eq]

/-! ### non-vacuity: concrete states that satisfy the hypotheses above -/

example : tetVol (⟨0, 0, 0⟩ : V3 ℝ) ⟨1, 0, 0⟩ ⟨0, 1, 0⟩ ⟨0, 0, 1⟩ = 1 / 6 := by
  simp only [tetVol, add_eq, sub_eq, mul_eq, div_eq, neg_eq, ofInt_eq]; norm_num

example : bary4 (⟨0, 0, 0⟩ : V3 ℝ) ⟨1, 0, 0⟩ ⟨0, 1, 0⟩ ⟨0, 0, 1⟩ ⟨1/4, 1/4, 1/4⟩ = (St.ok, ⟨1/4, 1/4, 1/4, 1/4⟩) := by
  unfold bary4
  simp only [tetDet, add_eq, sub_eq, mul_eq, div_eq]
  norm_num [divisible_iff']

/-- a point outside the tet: still reproduced, with a negative weight -/
example : bary4 (⟨0, 0, 0⟩ : V3 ℝ) ⟨1, 0, 0⟩ ⟨0, 1, 0⟩ ⟨0, 0, 1⟩ ⟨2, 0, 0⟩ = (St.ok, ⟨-1, 2, 0, 0⟩) := by
  unfold bary4
  simp only [tetDet, add_eq, sub_eq, mul_eq, div_eq]
  norm_num [divisible_iff']

/-- the `div_zero` branch is reachable: a flat tet -/
example : (bary4 (⟨0, 0, 0⟩ : V3 ℝ) ⟨1, 0, 0⟩ ⟨2, 0, 0⟩ ⟨3, 0, 0⟩ ⟨1, 1, 1⟩).1 = St.divZero := by
  unfold bary4
  simp only [tetDet, add_eq, sub_eq, mul_eq, div_eq]
  norm_num [divisible_iff']

example : bary3 (⟨0, 0, 0⟩ : V3 ℝ) ⟨1, 0, 0⟩ ⟨0, 1, 0⟩ ⟨1/4, 1/2, 7⟩ = (St.ok, ⟨1/4, 1/4, 1/2⟩) := by
  unfold bary3
  simp only [triNormal, cross, V3.sub, add_eq, sub_eq, mul_eq, div_eq]
  norm_num [divisible_iff']

example : bary3d (⟨0, 0, 0⟩ : V3 ℝ) ⟨2, 0, 0⟩ ⟨0, 2, 0⟩ ⟨1/2, 1, 7⟩ = (St.ok, ⟨1/4, 1/4, 1/2⟩) := by
  unfold bary3d
  simp only [bary3dRaw, bary3dPoint, dot, triNormal, cross, V3.sub, add_eq, sub_eq, mul_eq, div_eq]
  norm_num [divisible_iff']

/-- hypotheses of `sqrtVtMv_chain` / `ratio_scale`: identity metric, unit edge -/
example : sqrtVtMv (⟨1, 0, 0, 1, 0, 1⟩ : M6 ℝ) (V3.sub ⟨1, 0, 0⟩ ⟨0, 0, 0⟩) = 1 := by
  simp only [sqrtVtMv, vtMv, V3.sub, add_eq, sub_eq, mul_eq, sqrt_eq]; norm_num

example : (eps12 : ℝ) ≤ 1 := by
  simp only [eps12, ofDec_eq]; norm_num

example : ratioGeometric (⟨0, 0, 0⟩ : V3 ℝ) ⟨1, 0, 0⟩ ⟨1, 0, 0, 1, 0, 1⟩ ⟨1, 0, 0, 1, 0, 1⟩ = 1 := by
  unfold ratioGeometric ratioDegenerate
  simp only [sqrtVtMv, vtMv, dot, V3.sub, add_eq, sub_eq, mul_eq, div_eq, sqrt_eq, lit0_eq, lit1_eq, half_eq,
    cmin_eq, cmax_eq, cabs_eq]
  have e : (eps12 : ℝ) = 1 * (10 : ℝ) ^ (-12 : ℤ) := by simp [eps12]
  norm_num [divisible_iff', lt_iff, e]

end Measures

end Refine.Props.C15
