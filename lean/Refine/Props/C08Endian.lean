import Refine.Model.Endian

/-!
  C08 (byte order): the byte-swap macros of `ref_endian.h` — regenerated from the header on every
  run — are the full byte reversal, so a big-endian UGRID integer/double written by refine is what
  the published layout says, and reading is the inverse of writing.
-/
namespace Refine.Props.C08Endian
open Refine.Gen.Endian Refine.Model.Endian

/-- the three macros are exactly the byte reversal of their width -/
theorem swap_macros_are_reversal :
    swap_int = [3, 2, 1, 0] ∧ swap_long = [7, 6, 5, 4, 3, 2, 1, 0] ∧ swap_dbl = [7, 6, 5, 4, 3, 2, 1, 0] := by
  decide

theorem leBytes_length (w n : Nat) : (leBytes w n).length = w := by
  induction w generalizing n with
  | zero => rfl
  | succ w ih => simp [leBytes, ih]

/-- a reversal permutation applied to a list of that length reverses it -/
theorem applyPerm_int_reverse (b0 b1 b2 b3 : UInt8) :
    applyPerm swap_int [b0, b1, b2, b3] = [b0, b1, b2, b3].reverse := by
  simp [applyPerm, swap_int]

theorem applyPerm_long_reverse (b0 b1 b2 b3 b4 b5 b6 b7 : UInt8) :
    applyPerm swap_long [b0, b1, b2, b3, b4, b5, b6, b7] = [b0, b1, b2, b3, b4, b5, b6, b7].reverse := by
  simp [applyPerm, swap_long]

theorem applyPerm_dbl_reverse (b0 b1 b2 b3 b4 b5 b6 b7 : UInt8) :
    applyPerm swap_dbl [b0, b1, b2, b3, b4, b5, b6, b7] = [b0, b1, b2, b3, b4, b5, b6, b7].reverse := by
  simp [applyPerm, swap_dbl]

theorem list8 (l : List UInt8) (h : l.length = 8) :
    ∃ b0 b1 b2 b3 b4 b5 b6 b7, l = [b0, b1, b2, b3, b4, b5, b6, b7] := by
  match l, h with
  | [b0, b1, b2, b3, b4, b5, b6, b7], _ => exact ⟨b0, b1, b2, b3, b4, b5, b6, b7, rfl⟩

theorem list4 (l : List UInt8) (h : l.length = 4) :
    ∃ b0 b1 b2 b3, l = [b0, b1, b2, b3] := by
  match l, h with
  | [b0, b1, b2, b3], _ => exact ⟨b0, b1, b2, b3, rfl⟩

/-- writing: the in-memory (little-endian, x86) 64-bit value swapped by `SWAP_LONG` is its big-endian
    encoding — for EVERY value, in particular ids ≥ 2^24 whose bytes 3 and 4 differ -/
theorem swap_long_writes_big_endian (n : Nat) :
    applyPerm swap_long (leBytes 8 n) = beBytes 8 n := by
  obtain ⟨b0, b1, b2, b3, b4, b5, b6, b7, h⟩ := list8 (leBytes 8 n) (leBytes_length 8 n)
  rw [beBytes, h, applyPerm_long_reverse]

theorem swap_int_writes_big_endian (n : Nat) :
    applyPerm swap_int (leBytes 4 n) = beBytes 4 n := by
  obtain ⟨b0, b1, b2, b3, h⟩ := list4 (leBytes 4 n) (leBytes_length 4 n)
  rw [beBytes, h, applyPerm_int_reverse]

theorem swap_dbl_writes_big_endian (bits : Nat) :
    applyPerm swap_dbl (leBytes 8 bits) = beBytes 8 bits := by
  obtain ⟨b0, b1, b2, b3, b4, b5, b6, b7, h⟩ := list8 (leBytes 8 bits) (leBytes_length 8 bits)
  rw [beBytes, h, applyPerm_dbl_reverse]

/-- reading is the inverse of writing -/
theorem swap_long_involutive (b0 b1 b2 b3 b4 b5 b6 b7 : UInt8) :
    applyPerm swap_long (applyPerm swap_long [b0, b1, b2, b3, b4, b5, b6, b7]) = [b0, b1, b2, b3, b4, b5, b6, b7] := by
  simp [applyPerm, swap_long]

theorem ofLeBytes_leBytes (w n : Nat) (h : n < 256 ^ w) : ofLeBytes (leBytes w n) = n := by
  induction w generalizing n with
  | zero => simp at h; subst h; rfl
  | succ w ih =>
    have h1 : n / 256 < 256 ^ w := by
      rw [Nat.div_lt_iff_lt_mul (by decide)]; rw [Nat.pow_succ] at h; exact h
    simp only [leBytes, ofLeBytes, ih _ h1]
    have : (UInt8.ofNat (n % 256)).toNat = n % 256 := by
      simp [UInt8.toNat_ofNat']
    rw [this]; omega

/-- non-vacuity: the id of the seeded regression, 20000001 = 0x01312D01, has bytes 3 ≠ 4 -/
example : beBytes 8 20000001 = [0, 0, 0, 0, 1, 49, 45, 1] := by decide

end Refine.Props.C08Endian
