import Refine.Lemmas.GatherMeshbOnce
import Refine.Props.C08
import Refine.Props.C07Gather

/-!
  C08 / C07 — the PARALLEL libMeshb writer `ref_gather_meshb` (src/ref_gather.c), which every `refmpi` command and
  `ref` itself (one rank) write meshes with.

  Model: `Refine.Model.GatherMeshb.gatherMeshb` — an SPMD function of the list of per-rank states (vertices with global id,
  part and coordinate bit patterns; the 16 cell groups; geometry association records; CAD bytes), the reduce byte limit
  and the requested meshb version; byte exact, tied to the C by the stream `gathermeshb` (harness h_gathermeshb, np = 1..5,
  the bytes of the file the real `ref_gather_by_extension` writes = the model's bytes).

  `globalMesh d` (Lemmas/GatherMeshb.lean) is the mesh in the file: vertices by global id, the cells of each group in
  (emitting rank, local order) order, the records of each type in (emitting rank, local order) order, rank 0's CAD bytes.

  Hypotheses, all stated where used:  `d.ranks ≠ []` (np ≥ 1), `0 < nglobal`, `rbl ≤ 0 ∨ 32 ≤ rbl` (chunk ≥ 1, see
  `C07Gather.chunk_positive`), every global id owned by exactly one rank (clause (i) of the distributed invariant),
  `SumExact` (the coordinates that are summed with the `0.0` padding are unchanged by it: every double except `-0.0` and
  signalling NaNs), `Shaped` (cells have `node_per` vertices, association ids are `REF_INT`).  For the statements about the
  content: `Par.Consistent` per cell group and `GeomConsistent` (the storage rule: clauses (ii), (iii), (v) of the distributed
  invariant for cells, the same rule for association records).
-/
namespace Refine.Props.C08Gather
open Refine.Model.Meshb Refine.Model.Par Refine.Model.GatherMeshb Refine.Lemmas.Par Refine.Lemmas.GatherMeshb
open Refine.Lemmas.Codec Refine.Gen

/-- `0.0 + x = x = x + 0.0` on bit patterns -/
def Neutral (add : UInt64 → UInt64 → UInt64) (x : UInt64) : Prop := add 0 x = x ∧ add x 0 = x

/-- the `MPI_SUM` padding of ref_gather_node does not change what is summed: `0.0 + 0.0 = 0.0`, and every coordinate of every
    OWNED vertex copy is neutral against `0.0` -/
structure SumExact (add : UInt64 → UInt64 → UInt64) (d : Dist) : Prop where
  zero : add 0 0 = 0
  owned : ∀ (r : Nat) (rk : Rank), d.ranks[r]? = some rk → ∀ nd ∈ rk.nodes, nd.part = r →
    Neutral add nd.payload.x ∧ Neutral add nd.payload.y ∧ Neutral add nd.payload.z

/-- **gatherMeshb_eq_encode** — for every rank count ≥ 1, every distribution that owns each vertex once, every reduce byte
    limit that gives a chunk ≥ 1 and every requested version: the bytes rank 0 writes are exactly the serial writer's
    bytes (`encodeMeshb`, the model of ref_export_meshb) for the gathered mesh. -/
theorem gatherMeshb_eq_encode (add : UInt64 → UInt64 → UInt64) (rbl mv : Int) (d : Dist)
    (hnp : d.ranks ≠ []) (hN : 0 < d.nglobal) (hrbl : rbl ≤ 0 ∨ 32 ≤ rbl)
    (honce : ∀ g, g < d.nglobal → ownerCount (d.ranks.map nodeView) g = 1)
    (hsum : SumExact add d) (hs : Shaped d) :
    gatherMeshb add rbl mv d = .ok (encodeMeshb (versionOf mv d.nglobal) (globalMesh d)) := by
  have hw : d.ranks.map nodeView ≠ [] := by
    intro h; exact hnp (List.map_eq_nil_iff.1 h)
  have hchunk : 1 ≤ chunkOf d.nglobal (d.ranks.map nodeView).length rbl :=
    (Refine.Props.C07Gather.chunk_positive _ _ rbl).mpr hrbl
  have h00 : vadd add vzero vzero = vzero := by
    simp [vadd, vzero, hsum.zero]
  have hp : ∀ g, g < d.nglobal → ∀ p, firstOwnerFrom g 0 (d.ranks.map nodeView) = some p →
      vadd add vzero p = p ∧ vadd add p vzero = p := by
    intro g _ p hfo
    obtain ⟨i, v, nd, h1, h2, _, h4, h5⟩ := firstOwnerFrom_mem g 0 _ p hfo
    rw [List.getElem?_map] at h1
    cases hr : d.ranks[i]? with
    | none => simp [hr] at h1
    | some rk =>
      simp only [hr, Option.map_some, Option.some.injEq] at h1
      subst h1
      obtain ⟨⟨x1, x2⟩, ⟨y1, y2⟩, ⟨z1, z2⟩⟩ := hsum.owned i rk hr nd h2 (by omega)
      subst h5
      constructor
      · simp only [vadd, vzero]; rw [x1, y1, z1]
      · simp only [vadd, vzero]; rw [x2, y2, z2]
  have hnode := gatherNodeChunked_once_pt (vadd add) vzero h00 (d.ranks.map nodeView) hw d.nglobal _ hchunk honce hp
  unfold gatherMeshb gatherNode
  simp only [hnode]
  rw [show (List.range d.nglobal).map (payloadAt vzero (d.ranks.map nodeView)) = writtenNodes d from rfl,
    fileBytes_eq _ d hN hs]
  rfl

/-- **gatherMeshb_roundtrip** — the serial reader (the model of ref_import_meshb, as in /repo) reads the parallel writer's
    file back to the gathered mesh (uses `C08.roundtrip_meshb`; `WellFormed` of the gathered mesh: 32-bit counts and ids,
    association records with distinct (vertex, type, id), file size within the position width of the version) -/
theorem gatherMeshb_roundtrip (add : UInt64 → UInt64 → UInt64) (rbl mv : Int) (d : Dist)
    (hnp : d.ranks ≠ []) (hN : 0 < d.nglobal) (hrbl : rbl ≤ 0 ∨ 32 ≤ rbl)
    (honce : ∀ g, g < d.nglobal → ownerCount (d.ranks.map nodeView) g = 1)
    (hsum : SumExact add d) (hs : Shaped d)
    (wf : WellFormed Cfg.faithful (versionOf mv d.nglobal) (globalMesh d)) :
    ∃ bytes, gatherMeshb add rbl mv d = .ok bytes ∧ decodeMeshb bytes = .ok (globalMesh d) :=
  ⟨_, gatherMeshb_eq_encode add rbl mv d hnp hN hrbl honce hsum hs, Refine.Props.C08.roundtrip_meshb _ _ wf⟩

/-- **pyramid_reorderings** — the two copies of the pyramid re-ordering in ref_gather_cell (own cells / received cells,
    both regenerated from the C on every run) are the same permutation, it is the serial writer's, and the readers'
    (ref_part_meshb_cell, ref_import_meshb) invert it; in the model: both record builders produce the same record for every
    pyramid, and the reader's `recordNodes` gives the cell's vertices back in refine's order. -/
theorem pyramid_reorderings :
    PyrPerm.gatherCell0 = PyrPerm.gatherCell1 ∧ PyrPerm.gatherCell0 = PyrPerm.exportMeshb ∧
    GatherMeshb.alwaysId = true ∧
    (∀ a b c e f : Int, permute PyrPerm.partMeshb (permute PyrPerm.gatherCell0 [a, b, c, e, f]) = [a, b, c, e, f]) ∧
    (∀ a b c e f : Int, permute PyrPerm.partMeshb (permute PyrPerm.gatherCell1 [a, b, c, e, f]) = [a, b, c, e, f]) ∧
    (∀ a b c e f : Int, permute PyrPerm.importMeshb (permute PyrPerm.gatherCell0 [a, b, c, e, f]) = [a, b, c, e, f]) ∧
    (∀ a b c e f : Int, permute PyrPerm.importMeshb (permute PyrPerm.gatherCell1 [a, b, c, e, f]) = [a, b, c, e, f]) ∧
    (∀ ci ∈ cellInfos, ci.isPyr = true → ∀ c : GCell, c.nodes.length = ci.nodePer →
      cellRecordOwn ci c = cellRecordRecv ci (packCell ci c) ∧
      recordNodes ci (cellRecordOwn ci c) = c.nodes.map fun (g : Nat) => (g : Int)) := by
  refine ⟨by decide, by decide, by decide, ?_, ?_, ?_, ?_, ?_⟩
  · intros; rfl
  · intros; rfl
  · intros; rfl
  · intros; rfl
  · intro ci hci hpyr c hlen
    have hf := cellInfos_facts ci hci hpyr
    refine ⟨by rw [cellRecordOwn_eq ci c hlen, cellRecordRecv_eq], ?_⟩
    rw [cellRecordOwn_eq ci c hlen]
    unfold recordNodes cellRecord
    rw [packCell_take ci c hlen, hpyr]
    simp only [if_true]
    have h5 : c.nodes.length = 5 := by rw [hlen, hf.1]
    match hn : c.nodes, h5 with
    | [a, b, e, f, g], _ =>
      simp only [List.map_cons, List.map_nil, hf.1]
      simp [permute, PyrPerm.exportMeshb, PyrPerm.importMeshb]

/-- **geom_writers_agree** — the two copies of the association-record writer in ref_gather_geom (rank 0's own records /
    records received from a worker as `node_id[3]`, `param[2]`) write the same bytes for every record whose id is a
    `REF_INT`, namely the serial writer's record `encGeom` of the record's own (vertex, id, parameters, gref). -/
theorem geom_writers_agree (v : Nat) (g : LGeom) (hid : int32 g.id) :
    encGeomRecv v g.type (packGeom g.type g) = encGeomOwn v g.type g ∧
    encGeomOwn v g.type g = encGeom v g.type (toRec g) ∧
    (toRec g).id = g.id ∧ (toRec g).node = (g.node : Int) ∧
    (0 < g.type → (toRec g).gref = g.gref ∧ (toRec g).p0 = g.p0) ∧ (1 < g.type → (toRec g).p1 = g.p1) := by
  have hw : wrap32 g.id = g.id := by
    unfold wrap32
    exact toSigned_ofSigned (bits := 32) (by norm_num) (by simpa [int32] using hid)
  refine ⟨by rw [encGeomRecv_eq v g hw, encGeomOwn_eq], encGeomOwn_eq v g, rfl, rfl, ?_, ?_⟩
  · intro h; simp [toRec, h]
  · intro h; simp [toRec, h]

/-- the worker message of ref_gather_geom (`node_id[k + 3 * i]`): the column rank 0 reads the vertex / id / gref from is the
    column the packing loop of the worker wrote it to (all six column indices regenerated from the C) -/
theorem geom_message_columns :
    GatherMeshb.recvNodeCol = GatherMeshb.packNodeCol ∧ GatherMeshb.recvIdCol = GatherMeshb.packIdCol ∧
    GatherMeshb.recvGrefCol = GatherMeshb.packGrefCol ∧
    [GatherMeshb.packNodeCol, GatherMeshb.packIdCol, GatherMeshb.packGrefCol].Nodup ∧
    GatherMeshb.packNodeCol < 3 ∧ GatherMeshb.packIdCol < 3 ∧ GatherMeshb.packGrefCol < 3 := by decide

/-- the literal flags ref_gather_meshb passes to ref_gather_cell are the ones the model assumes (regenerated from the C) -/
theorem gather_cell_flags :
    GatherMeshb.alwaysId = true ∧ GatherMeshb.faceidInsteadOfC2n = false ∧ GatherMeshb.selectFaceid = false ∧
    GatherMeshb.pad = false ∧ GatherMeshb.swapEndian = false := by decide

/-! ### non-vacuity: 3 ranks; the pyramid and the association records with gref ≠ id (one negative) are owned by rank 2 -/

/-- an `add` with the neutrality IEEE addition has on everything except `-0.0` / signalling NaN -/
def addZ (a b : UInt64) : UInt64 := if a = 0 then b else if b = 0 then a else a + b

theorem addZ_neutral (x : UInt64) : Neutral addZ x := by
  unfold Neutral addZ
  constructor
  · simp
  · by_cases h : x = 0 <;> simp [h]

def one : UInt64 := 0x3ff0000000000000
def half : UInt64 := 0x3fe0000000000000

/-- vertices 0,1,2 on rank 2, vertices 3,4 on rank 1, vertices 5,6 on rank 0 -/
def part3 : Nat → Nat := fun g => [2, 2, 2, 1, 1, 0, 0].getD g 0

def xyz3 (g : Nat) : Vertex := ⟨UInt64.ofNat g * 0x10000000000000 + one, if g % 2 = 0 then half else 0, one⟩

def nd3 (g : Nat) : Node Vertex := ⟨g, part3 g, xyz3 g⟩

def pyr3 : GCell := ⟨[0, 1, 4, 2, 3], 0⟩
def tri3 : GCell := ⟨[5, 6, 3], 7⟩
def edg3 : GCell := ⟨[5, 6], -4⟩

def gA : LGeom := ⟨0, 0, 9, 9, 0, 0⟩
def gB : LGeom := ⟨1, 1, 3, -7, half, 0⟩
def gC : LGeom := ⟨2, 1, 5, 2147483647, half, one⟩
def gD : LGeom := ⟨1, 5, 2, 11, one, 0⟩

def groups3 (edg tri pyr : List GCell) : List (List GCell) :=
  [edg, [], [], tri, [], [], [], [], [], pyr, [], [], [], [], [], []]

def d3 : Dist :=
  { twod := false, nglobal := 7,
    ranks := [⟨[nd3 5, nd3 6, nd3 3], groups3 [edg3] [tri3] [], [gD], [1, 2, 255]⟩,
              ⟨[nd3 3, nd3 4, nd3 5, nd3 6, nd3 0, nd3 1, nd3 2], groups3 [] [tri3] [pyr3], [gC, gD, gA, gB], []⟩,
              ⟨[nd3 2, nd3 0, nd3 1, nd3 3, nd3 4], groups3 [] [] [pyr3], [gB, gA, gC], [9]⟩] }

def G3 (k : Nat) : List GCell := (groups3 [edg3] [tri3] [pyr3]).getD k []
def GG3 : List LGeom := [gA, gB, gC, gD]

example : ∀ g, g < 7 → ownerCount (d3.ranks.map nodeView) g = 1 := by decide
example : Shaped d3 := ⟨by decide, by decide⟩
example : SumExact addZ d3 :=
  ⟨by decide, fun _ _ _ nd _ _ => ⟨addZ_neutral _, addZ_neutral _, addZ_neutral _⟩⟩

/-- the whole file: np = 3, two chunks per …, version 3 -/
example : gatherMeshb addZ 64 3 d3 = .ok (encodeMeshb 3 (globalMesh d3)) :=
  gatherMeshb_eq_encode addZ 64 3 d3 (by decide) (by decide) (by decide) (by decide)
    ⟨by decide, fun _ _ _ nd _ _ => ⟨addZ_neutral _, addZ_neutral _, addZ_neutral _⟩⟩ ⟨by decide, by decide⟩

/-- rank 2's pyramid and rank 2's records (negative gref, gref ≠ id) are in the gathered mesh with their own values -/
example : (globalMesh d3).cells.getD 9 [] = [[0, 1, 4, 2, 3]] ∧ (globalMesh d3).cells.getD 3 [] = [[5, 6, 3, 7]] ∧
    (globalMesh d3).geoms = [⟨0, 9, 9, 0, 0, 0⟩, ⟨1, 2, 11, 5, one, 0⟩, ⟨1, 3, -7, 1, half, 0⟩,
      ⟨2, 5, 2147483647, 1, half, one⟩] ∧ (globalMesh d3).cad = [1, 2, 255] := by decide

example : WellFormed Cfg.faithful 3 (globalMesh d3) :=
  { version := by decide, nodes_pos := by decide, nodes_lt := by decide, twod_z := by decide,
    cells_len := by decide, cells_lt := by decide,
    cell_ok := by unfold CellOK NodeOK int32; decide,
    geoms_sorted := by decide,
    geom_ok := by unfold GeomOK NodeOK int32; decide,
    geoms_nodup := by decide, geoms_lt := by decide, cad_lt := by decide, cad_cap := by decide,
    size_fits := by unfold posFits; decide +kernel }


end Refine.Props.C08Gather
