import Refine.Lemmas.UgridOwner

/-!
  C08 — mesh files round-trip: the binary AFLR3 UGRID family (`.lb8.ugrid`, `.b8.ugrid`, `.lb8l.ugrid`, `.b8l.ugrid`,
  `.lb8.ugrid64`, `.b8.ugrid64`), serial and parallel readers and writers (`Refine.Model.Ugrid`).

  All statements are for every flavour (byte order × integer width), every well-formed mesh (`WellFormed`: cells have
  their `size_per` entries, node indices in `[0, nnode)`, tags and counts within `REF_INT`, `nnode < 2^27`), every
  rank count ≥ 1 and every chunk size ≥ 1.  The generated files (`Refine.Gen.Endian`, `Refine.Gen.UgridOffsets`,
  `Refine.Gen.UgridFlavours`, `Refine.Gen.CellTables`, `Refine.Gen.PartMacros`) are re-read from /repo on every run, so
  the section offsets, seek positions, swap macros, `node_per` and dispatcher tables below are what the C says today.
-/
namespace Refine.Props.C08Ugrid
open Refine.Gen Refine.Model.Ugrid Refine.Lemmas.Ugrid
open Refine.Model.Meshb (Bytes Status Vertex Cfg int32 wrap32)

/-! ### serial writer → serial reader -/

/-- **roundtrip_ugrid**: what `ref_export_bin_ugrid` writes, `ref_import_bin_ugrid` reads back as the same mesh with the
    boundary faces in the writer's order (increasing tag, file order inside a tag) -/
theorem roundtrip_ugrid (fl : Flavor) (m : UMesh) (hw : WellFormed m = true) :
    decodeUgrid fl (encodeUgrid fl m) = .ok (normalize m) :=
  decode_encodeRaw ugridCfg rfl _ (by decide) fl (normalize m) (wf_normalize hw)

/-- … and exactly the same mesh when its boundary faces are already in tag order -/
theorem roundtrip_ugrid_sorted (fl : Flavor) (m : UMesh) (hw : WellFormed m = true) (hs : FacesSorted m) :
    decodeUgrid fl (encodeUgrid fl m) = .ok m := by
  rw [roundtrip_ugrid fl m hw, normalize_of_sorted m hs]

/-- the writer's reordering keeps every cell: vertices and volume cells untouched, triangles and quads permuted into
    non-decreasing tag order; writing again changes nothing -/
theorem normalize_spec (m : UMesh) :
    (normalize m).nodes = m.nodes ∧ (normalize m).tet = m.tet ∧ (normalize m).pyr = m.pyr ∧
    (normalize m).pri = m.pri ∧ (normalize m).hex = m.hex ∧
    (normalize m).tri.Perm m.tri ∧ (normalize m).qua.Perm m.qua ∧ FacesSorted (normalize m) ∧
    normalize (normalize m) = normalize m :=
  ⟨rfl, rfl, rfl, rfl, rfl, sortFaces_perm .tri m.tri, sortFaces_perm .qua m.qua,
    ⟨sortFaces_sorted .tri m.tri, sortFaces_sorted .qua m.qua⟩, normalize_idem m⟩

/-- the reader's block size (`MIN(1000000, ncell)` in the C) does not matter: any chunk size ≥ 1, and also the reader
    legacy variant without the index check of 6682479 (`ugridCfgLegacy`), returns the same mesh -/
theorem roundtrip_ugrid_any_chunk (cfg : Cfg) (hc : cfg.allocCap = 2 ^ 30) (chunk : Nat) (h1 : 1 ≤ chunk) (fl : Flavor)
    (m : UMesh) (hw : WellFormed m = true) :
    decodeUgridChunked cfg chunk fl (encodeUgrid fl m) = .ok (normalize m) :=
  decode_encodeRaw cfg hc chunk h1 fl (normalize m) (wf_normalize hw)

/-! ### section offsets of the parallel reader -/

/-- **offsets_exact**: each section offset that `ref_part_bin_ugrid` computes (expressions regenerated from the C into
    `Refine.Gen.UgridOffsets`), evaluated on the seven counts of the file, is the byte position of that section in the
    writer's output — the sum of the sizes of the sections before it (2 tri connectivity, 3 quad connectivity, 4 tri
    tags, 5 quad tags, 6 tet, 7 pyramid, 8 prism, 9 hex) -/
theorem offsets_exact (fl : Flavor) (m : UMesh) (hw : WellFormed m = true) :
    offsetsOf .tri (UgridOffsets.ibyte fl.fat) (hdrOf m) =
      (((sectionStart fl m 2 : Nat) : Int), ((sectionStart fl m 4 : Nat) : Int)) ∧
    offsetsOf .qua (UgridOffsets.ibyte fl.fat) (hdrOf m) =
      (((sectionStart fl m 3 : Nat) : Int), ((sectionStart fl m 5 : Nat) : Int)) ∧
    (offsetsOf .tet (UgridOffsets.ibyte fl.fat) (hdrOf m)).1 = ((sectionStart fl m 6 : Nat) : Int) ∧
    (offsetsOf .pyr (UgridOffsets.ibyte fl.fat) (hdrOf m)).1 = ((sectionStart fl m 7 : Nat) : Int) ∧
    (offsetsOf .pri (UgridOffsets.ibyte fl.fat) (hdrOf m)).1 = ((sectionStart fl m 8 : Nat) : Int) ∧
    (offsetsOf .hex (UgridOffsets.ibyte fl.fat) (hdrOf m)).1 = ((sectionStart fl m 9 : Nat) : Int) := by
  have := offsets_raw fl (normalize m) (wf_normalize hw)
  rw [hdrOf_normalize] at this
  exact this

/-- the header both readers see is the seven counts, and the file is exactly the ten sections -/
theorem header_and_size (fl : Flavor) (m : UMesh) (hw : WellFormed m = true) :
    rdHeaderPart fl (encodeUgrid fl m) = .ok (hdrOf m, (encodeUgrid fl m).drop (7 * fl.ibytes)) ∧
    (encodeUgrid fl m).length = sectionStart fl m 10 := by
  constructor
  · have hraw : encodeUgrid fl m = secHeader fl (normalize m) ++ (encodeUgrid fl m).drop (7 * fl.ibytes) := by
      have : encodeUgrid fl m = secHeader fl (normalize m) ++
          ((sectionsRaw fl (normalize m)).drop 1).flatten := by
        simp [encodeUgrid, encodeRaw, sectionsRaw]
      conv_rhs => rw [this, ← secHeader_length fl (normalize m), List.drop_left]
      exact this
    have := rdHeaderPart_raw fl (normalize m) (wf_normalize hw) ((encodeUgrid fl m).drop (7 * fl.ibytes))
    rw [← hraw, hdrOf_normalize] at this
    exact this
  · simp [sectionStart, sections, encodeUgrid, encodeRaw, sectionsRaw]

/-- the positions `ref_part_bin_ugrid_pack_cell` seeks to (both integer widths; expressions regenerated from the C):
    `ncell_read` cells into the connectivity block, `ncell_read` tags into the tag block -/
theorem seek_exact (fl : Flavor) (connOff faceOff : Int) (k : Kind) (ncellRead : Nat) :
    (if fl.fat then UgridOffsets.seek_conn_fat connOff faceOff (UgridOffsets.pack_ibyte fl.fat) k.nodePer ncellRead
     else UgridOffsets.seek_conn_thin connOff faceOff (UgridOffsets.pack_ibyte fl.fat) k.nodePer ncellRead) =
      connOff + ((ncellRead * (k.nodePer * fl.ibytes) : Nat) : Int) ∧
    (if fl.fat then UgridOffsets.seek_tag_fat connOff faceOff (UgridOffsets.pack_ibyte fl.fat) k.nodePer ncellRead
     else UgridOffsets.seek_tag_thin connOff faceOff (UgridOffsets.pack_ibyte fl.fat) k.nodePer ncellRead) =
      faceOff + ((ncellRead * fl.ibytes : Nat) : Int) := by
  rw [seekC_eq, seekT_eq]
  constructor <;> (push_cast; ring)

/-! ### parallel reader = serial reader -/

/-- **part_read_eq_serial**: `ref_part_bin_ugrid` on the writer's output — seeking to the generated offsets, reading each
    section in chunks of ANY size ≥ 1 (up to what the 1 GiB allocator cap allows), on ANY number of ranks ≥ 1 (that an
    `int` holds) — holds
    the vertices of the file and, per kind, the cells of the file in file order, minus later cells over an already
    stored node set (`ref_cell_add_many_global`) -/
theorem part_read_chunk_independent (fl : Flavor) (m : UMesh) (hw : WellFormed m = true) (np : Nat) (hnp : 1 ≤ np)
    (hnp2 : np < 2 ^ 31) (chunk : Nat) (h1 : 1 ≤ chunk) (h2 : 72 * chunk ≤ 2 ^ 30) :
    partRead fl np (some chunk) (encodeUgrid fl m) =
      .ok { nnode := m.nodes.length, np := np, nodes := m.nodes,
            cells := Kind.all.map fun k => dedupCells k ((normalize m).get k) [] } :=
  partRead_encodeRaw ugridCfg rfl fl (normalize m) (wf_normalize hw) np hnp hnp2 chunk h1 h2

/-- cells of one kind have pairwise different node sets (every valid mesh; a two-sided baffle is the exception) -/
def DistinctCells (m : UMesh) : Prop := ∀ k : Kind, ((m.get k).map (nodeSet k)).Nodup

theorem distinct_normalize {m : UMesh} (h : DistinctCells m) : DistinctCells (normalize m) := by
  intro k
  have := h k
  cases k <;> simp only [normalize, UMesh.get] at this ⊢
  · exact ((sortFaces_perm .tri m.tri).map _).nodup_iff.2 this
  · exact ((sortFaces_perm .qua m.qua).map _).nodup_iff.2 this
  · exact this
  · exact this
  · exact this
  · exact this

/-- … so for such a mesh the parallel reader holds exactly the mesh the serial reader returns, for every rank count
    and chunk size -/
theorem part_read_eq_serial (fl : Flavor) (m : UMesh) (hw : WellFormed m = true) (hd : DistinctCells m) (np : Nat)
    (hnp : 1 ≤ np) (hnp2 : np < 2 ^ 31) (chunk : Nat) (h1 : 1 ≤ chunk) (h2 : 72 * chunk ≤ 2 ^ 30) :
    (partRead fl np (some chunk) (encodeUgrid fl m)).map PartMesh.toMesh = decodeUgrid fl (encodeUgrid fl m) := by
  rw [part_read_chunk_independent fl m hw np hnp hnp2 chunk h1 h2, roundtrip_ugrid fl m hw]
  have hdn := distinct_normalize hd
  simp only [Except.map, PartMesh.toMesh, Kind.all, List.map_cons, List.map_nil, List.getD_cons_zero,
    List.getD_cons_succ]
  rw [dedupCells_of_nodup _ _ (hdn .tri), dedupCells_of_nodup _ _ (hdn .qua), dedupCells_of_nodup _ _ (hdn .tet),
    dedupCells_of_nodup _ _ (hdn .pyr), dedupCells_of_nodup _ _ (hdn .pri), dedupCells_of_nodup _ _ (hdn .hex)]
  rfl

/-- the chunk the C actually uses, `MAX(1000000, (REF_INT)(ncell / nproc))` (regenerated), is covered for sections of
    up to 10^7 cells -/
theorem part_chunk_in_range (ncell : Nat) (np : Nat) (hnp : 1 ≤ np) (hn : ncell ≤ 10 ^ 7) :
    1 ≤ (UgridOffsets.part_chunk wrap32 (ncell : Int) (np : Int)).toNat ∧
    72 * (UgridOffsets.part_chunk wrap32 (ncell : Int) (np : Int)).toNat ≤ 2 ^ 30 := by
  unfold UgridOffsets.part_chunk
  have hq : Int.tdiv (ncell : Int) (np : Int) = ((ncell / np : Nat) : Int) := by
    rw [Int.tdiv_eq_ediv_of_nonneg (by omega)]; rfl
  have hle : ncell / np ≤ ncell := Nat.div_le_self _ _
  rw [hq]
  generalize ncell / np = q at *
  have hw : wrap32 (q : Int) = (q : Int) :=
    Refine.Lemmas.Codec.wrap32_of_int32 (by unfold int32; constructor <;> omega)
  rw [hw]
  constructor <;> omega

/-- with the C's own chunk size -/
theorem part_read_default_chunk (fl : Flavor) (m : UMesh) (hw : WellFormed m = true) (np : Nat) (hnp : 1 ≤ np)
    (hnp2 : np < 2 ^ 31) (hsz : ∀ k : Kind, (m.get k).length ≤ 10 ^ 7) :
    partRead fl np none (encodeUgrid fl m) =
      .ok { nnode := m.nodes.length, np := np, nodes := m.nodes,
            cells := Kind.all.map fun k => dedupCells k ((normalize m).get k) [] } := by
  have hwn := wf_normalize hw
  have hsec : ∀ k : Kind, partSection ugridCfg fl (encodeUgrid fl m) np none (hdrOf (normalize m)) k =
      .ok (dedupCells k ((normalize m).get k) []) := by
    intro k
    have hlen : ((normalize m).get k).length = (m.get k).length := by
      cases k <;> simp [normalize, UMesh.get, sortFaces_length]
    obtain ⟨c1, c2⟩ := part_chunk_in_range ((normalize m).get k).length np hnp (by rw [hlen]; exact hsz k)
    have := partSection_raw ugridCfg rfl fl (normalize m) hwn np hnp _ c1 c2 k
    rw [← this]
    unfold partSection
    rw [hdrOf_getD]
    rfl
  have hall : ∀ ks : List Kind, partSections ugridCfg fl (encodeUgrid fl m) np none (hdrOf (normalize m)) ks =
      .ok (ks.map fun k => dedupCells k ((normalize m).get k) []) := by
    intro ks
    induction ks with
    | nil => rfl
    | cons k ks ih => simp only [partSections, hsec k, ih, List.map_cons]
  have hp := part_read_chunk_independent fl m hw np hnp hnp2 1 (le_refl _) (by norm_num)
  unfold partRead partReadWith at hp ⊢
  obtain ⟨hh, _⟩ := header_and_size fl m hw
  rw [hh] at hp ⊢
  rw [← hdrOf_normalize] at hp ⊢
  simp only [hdrOf_getD0] at hp ⊢
  have hsmall : partHeaderHazard np (hdrOf (normalize m)) = false := partHeaderHazard_wf _ hwn np hnp2
  rw [hsmall] at hp ⊢
  simp only [Bool.false_eq_true, if_false] at hp ⊢
  cases hv : rdVerts fl (((normalize m).nodes.length : Int)).toNat ((encodeUgrid fl m).drop (7 * fl.ibytes)) with
  | error e => rw [hv] at hp; simp at hp
  | ok p =>
    obtain ⟨nodes, rest⟩ := p
    rw [hv] at hp
    simp only at hp ⊢
    rw [hall]
    cases hs : partSections ugridCfg fl (encodeUgrid fl m) np (some 1) (hdrOf (normalize m)) Kind.all with
    | error e => rw [hs] at hp; simp at hp
    | ok cells =>
      rw [hs] at hp
      simp only [Except.ok.injEq, PartMesh.mk.injEq] at hp ⊢
      exact ⟨hp.1, hp.2.1, hp.2.2.1, trivial⟩

/-! ### who holds a cell after the parallel read -/

/-- every stored cell is owned (`ref_cell_part`: part of its smallest global) by exactly one rank: the owned lists of
    the ranks `0..np-1`, concatenated, are the stored cells up to order — the gathered global cell multiset is the
    file's; and both the rank that receives the cell first (implicit part of its first node) and the owner store it -/
theorem part_read_ownership (pm : PartMesh) (hnp : 1 ≤ pm.np) (k : Kind) (cs : List (List Int)) :
    ((List.range pm.np).flatMap fun r => pm.ownedBy k cs r).Perm cs ∧
    ∀ c ∈ cs, c.take k.nodePer ≠ [] →
      pm.storedOn k (pm.firstDest c) c = true ∧ pm.storedOn k (pm.ownerOf k c) c = true ∧
      pm.firstDest c < pm.np ∧ pm.ownerOf k c < pm.np :=
  ⟨owned_partition pm k cs (fun c _ => ownerOf_lt pm hnp k c),
   fun c _ hne => ⟨firstDest_stores pm k c hne, owner_stores pm k c hne, partOf_lt pm hnp _, ownerOf_lt pm hnp k c⟩⟩

/-! ### node order, dispatch, parallel writer -/

/-- UGRID keeps refine's node order for every kind: no pyramid or prism shuffle in any of the four binary UGRID
    functions (counted in the C text on every run), the pyramid shuffle of ref_gather_cell is switched off by the
    `always_id = 0` that ref_gather_bin_ugrid passes; so export∘import, part∘gather, … are the identity on node order.
    The four `*_by_extension` dispatchers map the six suffixes to the same (byte order, width). -/
theorem ugrid_keeps_node_order :
    UgridFlavours.importShuffles = 0 ∧ UgridFlavours.exportShuffles = 0 ∧ UgridFlavours.partShuffles = 0 ∧
    UgridFlavours.gatherShuffles = 0 ∧ UgridFlavours.gatherAlwaysId = false ∧
    UgridFlavours.gatherSelectsFaceid = false ∧ UgridFlavours.exportFaceidSweeps = 4 ∧
    UgridFlavours.importTable = UgridFlavours.exportTable ∧ UgridFlavours.partTable = UgridFlavours.exportTable ∧
    UgridFlavours.gatherTable = UgridFlavours.exportTable ∧
    UgridFlavours.exportTable = [(".lb8.ugrid", false, false), (".b8.ugrid", true, false), (".lb8l.ugrid", false, true),
      (".b8l.ugrid", true, true), (".lb8.ugrid64", false, true), (".b8.ugrid64", true, true)] ∧
    UgridOffsets.order = Kind.all.map Kind.name ∧ UgridOffsets.dest_node = 0 := by decide

/-- `node_per` and the tag column per kind, as regenerated from ref_cell_initialize -/
theorem kind_table :
    Kind.all.map (fun k => (k.name, k.nodePer, k.hasTag)) =
      [("tri", 3, true), ("qua", 4, true), ("tet", 4, false), ("pyr", 5, false), ("pri", 6, false),
       ("hex", 8, false)] := by decide

/-- **gather = export**: the parallel writer lays the gathered mesh out exactly as the serial writer lays out a mesh —
    same sections, widths, byte order, 1-based indices — except that it does not sort the boundary faces -/
theorem gather_eq_export (fl : Flavor) (m : UMesh) :
    gatherUgrid fl m = encodeRaw fl m ∧ encodeUgrid fl m = gatherUgrid fl (normalize m) ∧
    (FacesSorted m → gatherUgrid fl m = encodeUgrid fl m) := by
  have h : gatherUgrid fl m = encodeRaw fl m := by
    unfold gatherUgrid
    have a : UgridFlavours.gatherSelectsFaceid = false := by decide
    have b : UgridFlavours.gatherAlwaysId = false := by decide
    simp [a, b]
  have h' : gatherUgrid fl (normalize m) = encodeRaw fl (normalize m) := by
    unfold gatherUgrid
    have a : UgridFlavours.gatherSelectsFaceid = false := by decide
    have b : UgridFlavours.gatherAlwaysId = false := by decide
    simp [a, b]
  refine ⟨h, by rw [h']; rfl, fun hs => ?_⟩
  rw [h]; unfold encodeUgrid; rw [normalize_of_sorted m hs]

/-- what the parallel writer writes, both readers read back as the gathered mesh (cell order kept) -/
theorem roundtrip_gather (fl : Flavor) (m : UMesh) (hw : WellFormed m = true) (np : Nat) (hnp : 1 ≤ np)
    (hnp2 : np < 2 ^ 31) (chunk : Nat) (h1 : 1 ≤ chunk) (h2 : 72 * chunk ≤ 2 ^ 30) :
    decodeUgrid fl (gatherUgrid fl m) = .ok m ∧
    partRead fl np (some chunk) (gatherUgrid fl m) =
      .ok { nnode := m.nodes.length, np := np, nodes := m.nodes,
            cells := Kind.all.map fun k => dedupCells k (m.get k) [] } := by
  rw [(gather_eq_export fl m).1]
  exact ⟨decode_encodeRaw ugridCfg rfl _ (by decide) fl m hw, partRead_encodeRaw ugridCfg rfl fl m hw np hnp hnp2 chunk h1 h2⟩

/-! ### non-vacuity -/

/-- six vertices; one cell of every kind, boundary faces NOT in tag order, a large and a negative tag -/
def sample : UMesh :=
  { nodes := (List.range 9).map fun i => ⟨UInt64.ofNat i, 0x3ff0000000000000, 0x8000000000000000⟩,
    tri := [[0, 1, 2, 20000001], [1, 2, 3, -7]], qua := [[0, 1, 2, 3, 5]], tet := [[4, 5, 6, 7]],
    pyr := [[4, 5, 6, 7, 8]], pri := [[3, 4, 5, 6, 7, 8]], hex := [[1, 2, 3, 4, 5, 6, 7, 8]] }

example : WellFormed sample = true ∧ DistinctCells sample ∧ ¬ FacesSorted sample := by
  refine ⟨by decide, ?_, ?_⟩
  · intro k; cases k <;> decide
  · unfold FacesSorted; decide

/-- the theorems apply to it, for every flavour, 5 ranks and chunks of 1 cell -/
example (fl : Flavor) :
    decodeUgrid fl (encodeUgrid fl sample) = .ok (normalize sample) ∧
    (partRead fl 5 (some 1) (encodeUgrid fl sample)).map PartMesh.toMesh = decodeUgrid fl (encodeUgrid fl sample) :=
  ⟨roundtrip_ugrid fl sample (by decide),
   part_read_eq_serial fl sample (by decide) (by intro k; cases k <;> decide) 5 (by decide) (by decide) 1 (by decide)
     (by decide)⟩

end Refine.Props.C08Ugrid
