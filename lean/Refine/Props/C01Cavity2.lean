import Refine.Lemmas.Cavity2Collapse
import Refine.Lemmas.Cavity2Conf
import Refine.Lemmas.Cavity2SwapChain
import Refine.Props.C01

/-!
  C01 / C13 — the cavity operator with boundary triangles, the enlarge loops and the form functions
  (`src/ref_cavity.c`; model `Refine/Model/Cavity2.lean` on top of `Refine/Model/Cavity.lean`; tied by the streams
  `cavity2_*`).

  Part 1 (this section): BOUNDARY BOOKKEEPING.  `ledgerVal φ c = Σ_{live faces} φ − Σ_{live segs} φ(s0,s1,seg node)`.
  `LedgerEq φ g c : ledgerVal φ c = Σ_{listed tets} ∂φ − Σ_{listed tris} φ` is the chain identity
  `F − cone(∂S) = ∂T − S` under which `ref_cavity_replace` keeps the signed boundary of the mesh INCLUDING its
  boundary tris.  It is (i) maintained by every successful 3-D `ref_cavity_insert_seg` up to the faces
  `ref_cavity_remove_seg_add_tets` skips (`insertSeg_ledger`), (ii) decidable on a concrete cavity
  (`ledgerOkAt`, evaluated by the run-level driver on every `cavity_replace begin` record; sound:
  `ledgerOkAt_ledgerEq`), (iii) established by the form functions on a conforming grid (Part 3).
-/
namespace Refine.Props.C01Cavity2
open Refine.Model.Cavity Refine.Model.Cavity2 Refine.Lemmas.Cavity Refine.Lemmas.Cavity2 Refine.Props.C01

variable {G : Type} [AddCommGroup G] {α : Type}

/-! ## 1. boundary bookkeeping -/

/-- **insertSeg_ledger** (`ref_cavity_insert_seg` with tets listed and state unknown — the guard under which
    `ref_cavity_add_seg_face` / `ref_cavity_remove_seg_face` / `ref_cavity_remove_seg_add_tets` act).  A successful
    call either flags the cavity (`boundary_constrained`: the reversed seg carries another face id;
    `partition_constrained`: a ghost tet around the seg), or there is a list `new` of live tets appended to `tet_list`
    with: `ledgerVal` grows by the faces of `new` that are NOT one of the two tris on the seg (`keptFaces`), the seg
    chain grows by `ψ(s)` for every antisymmetric `ψ`, and nothing else changes. -/
theorem insertSeg_ledger {φ : Int → Int → Int → G} {ψ : Int → Int → G} (hφ : Alt φ) (hd : Diag φ) (hψ : Alt2 ψ)
    (g : Grid α) (c c' : Cav) (s : Seg) (hf : SlotsInv c.faces) (hsg : SlotsInv c.segs)
    (htl : c.tetList ≠ []) (hst : c.state = .unknown) (h : insertSeg g c s = (.ok, c')) :
    c'.state ≠ .unknown ∨ ∃ new, SegStep φ ψ g c c' s new :=
  insertSeg3_spec hφ hd hψ g c c' s hf hsg ⟨htl, hst⟩ h

/-- a seg cancels only against the reversed seg WITH THE SAME face id: otherwise the cavity is flagged and
    `ref_cavity_replace` refuses it -/
theorem insertSeg_id_mismatch (g : Grid α) (c : Cav) (s old : Seg) (i : Nat)
    (hfind : findSegAux s.n0 s.n1 c.segs.rows 0 = some (i, true)) (hold : c.segs.rows.getD i none = some old)
    (hid : s.id ≠ old.id) :
    insertSeg g c s = (.ok, { c with state := .boundary_constrained }) := by
  unfold insertSeg
  rw [hfind]
  simp only [hold, hid, ne_eq, not_false_eq_true, if_true]

/-- **replace_conforming_boundary.**  Face verification passed + ledger equation ⇒ for every alternating `φ`
    vanishing on repeated nodes, (new tets − new boundary tris) has the signed boundary of
    (removed tets − removed boundary tris). -/
theorem replace_conforming_boundary {φ : Int → Int → Int → G} (hφ : Alt φ) (hd : Diag φ) (g : Grid α) (c : Cav)
    (hnd : ∀ f ∈ c.validFaces, Nondeg f) (hv : VerifyPassed c) (hl : LedgerEq φ g c) :
    ((newTets c).map fun t => faceSum φ (tetFaces t)).sum - ((newTris c).map fun t => φ t.n0 t.n1 t.n2).sum =
      (c.tetList.map (tetBd φ g)).sum - (c.triList.map (triVal φ g)).sum :=
  replace_chain_boundary hφ hd g c hnd (verifyPassed_loop hv) hl

/-- **ledgerOkAt_ledgerEq**: the executable check (signed multiplicity of every unordered face in
    `live faces + listed tris` against `cone of the unattached live segs + faces of the listed tets` is zero) gives the
    ledger equation for every `G`, `φ`. -/
theorem ledgerOkAt_ledgerEq {φ : Int → Int → Int → G} (hφ : Alt φ) (hd : Diag φ) (g : Grid α) (c : Cav)
    (h : ledgerOkAt g c = true) : LedgerEq φ g c :=
  ledgerOkAt_sound hφ hd g c h

/-- **replace_ids_from_segs**: every boundary tri `ref_cavity_replace` creates takes its first two nodes and its face
    id from a live seg (the third node is the seg node). -/
theorem replace_ids_from_segs (c : Cav) :
    ∀ t ∈ newTris c, ∃ s ∈ c.validSegs, t.id = s.id ∧ t.n0 = s.n0 ∧ t.n1 = s.n1 ∧ t.n2 = c.segNode := by
  intro t ht
  simp only [newTris, List.mem_filterMap] at ht
  obtain ⟨s, hs, hst⟩ := ht
  unfold newTriOf at hst
  split at hst
  · cases hst
  · simp only [Option.some.injEq] at hst; subst hst; exact ⟨s, hs, rfl, rfl, rfl, rfl⟩

/-! ### the boundary patch: vector area -/

section areavec
open Refine Refine.Model.Geom Refine.ScalarReal

/-- the three components of `ref_node_tri_normal` (twice the area vector) of the triangle `(x a, x b, p)` -/
noncomputable def coneNx (x : Int → V3 ℝ) (p : V3 ℝ) (a b : Int) : ℝ := (triNormal (x a) (x b) p).x
noncomputable def coneNy (x : Int → V3 ℝ) (p : V3 ℝ) (a b : Int) : ℝ := (triNormal (x a) (x b) p).y
noncomputable def coneNz (x : Int → V3 ℝ) (p : V3 ℝ) (a b : Int) : ℝ := (triNormal (x a) (x b) p).z

theorem coneNx_alt (x : Int → V3 ℝ) (p : V3 ℝ) : Alt2 (coneNx x p) := by
  refine ⟨fun a b => ?_, fun a => ?_⟩ <;>
  · simp only [coneNx, triNormal, cross, V3.sub, sub_eq, mul_eq]; ring
theorem coneNy_alt (x : Int → V3 ℝ) (p : V3 ℝ) : Alt2 (coneNy x p) := by
  refine ⟨fun a b => ?_, fun a => ?_⟩ <;>
  · simp only [coneNy, triNormal, cross, V3.sub, sub_eq, mul_eq]; ring
theorem coneNz_alt (x : Int → V3 ℝ) (p : V3 ℝ) : Alt2 (coneNz x p) := by
  refine ⟨fun a b => ?_, fun a => ?_⟩ <;>
  · simp only [coneNz, triNormal, cross, V3.sub, sub_eq, mul_eq]; ring

theorem triBd_coneNx (x : Int → V3 ℝ) (p : V3 ℝ) (t : Tri) :
    triBd (coneNx x p) t = (triNormal (x t.n0) (x t.n1) (x t.n2)).x := by
  rw [triBd_eq]; simp only [coneNx, triNormal, cross, V3.sub, sub_eq, mul_eq]; ring
theorem triBd_coneNy (x : Int → V3 ℝ) (p : V3 ℝ) (t : Tri) :
    triBd (coneNy x p) t = (triNormal (x t.n0) (x t.n1) (x t.n2)).y := by
  rw [triBd_eq]; simp only [coneNy, triNormal, cross, V3.sub, sub_eq, mul_eq]; ring
theorem triBd_coneNz (x : Int → V3 ℝ) (p : V3 ℝ) (t : Tri) :
    triBd (coneNz x p) t = (triNormal (x t.n0) (x t.n1) (x t.n2)).z := by
  rw [triBd_eq]; simp only [coneNz, triNormal, cross, V3.sub, sub_eq, mul_eq]; ring

/-- one component of the area statement -/
theorem area_component (ψ : Int → Int → ℝ) (hψ : Alt2 ψ) (N : Tri → ℝ) (hN : ∀ t, triBd ψ t = N t) (g : Grid α)
    (c : Cav)
    (hchain : ∀ χ : Int → Int → ℝ, Alt2 χ → segSum χ c.validSegs = (c.triList.map (triBdAt χ g)).sum) :
    ((newTris c).map N).sum =
      (c.triList.map fun cell => match g.tris.get? cell with | some t => N t | none => 0).sum := by
  have := replace_conforming_2d hψ g c hchain
  have e1 : (newTris c).map (triBd ψ) = (newTris c).map N := List.map_congr_left (fun t _ => hN t)
  have e2 : c.triList.map (triBdAt ψ g) =
      c.triList.map fun cell => match g.tris.get? cell with | some t => N t | none => 0 := by
    apply List.map_congr_left
    intro cell _
    unfold triBdAt
    cases g.tris.get? cell with
    | none => rfl
    | some t => exact hN t
  rw [e1, e2] at this
  exact this

/-- **replace_area_vector.**  When the live segs are the signed boundary of the listed boundary tris (for every
    antisymmetric edge cochain — the seg chain `insertSeg_ledger` tracks), the boundary tris `ref_cavity_replace`
    creates have exactly the VECTOR area of the tris it removes: each component of `Σ ref_node_tri_normal` is
    conserved, in exact arithmetic, for any position of the seg node and any shape of the patch.  On a planar patch
    this is the conservation of the (signed) patch area. -/
theorem replace_area_vector (x : Int → V3 ℝ) (g : Grid α) (c : Cav)
    (hchain : ∀ χ : Int → Int → ℝ, Alt2 χ → segSum χ c.validSegs = (c.triList.map (triBdAt χ g)).sum) :
    ((newTris c).map fun t => (triNormal (x t.n0) (x t.n1) (x t.n2)).x).sum =
      (c.triList.map fun cell => match g.tris.get? cell with
        | some t => (triNormal (x t.n0) (x t.n1) (x t.n2)).x | none => 0).sum ∧
    ((newTris c).map fun t => (triNormal (x t.n0) (x t.n1) (x t.n2)).y).sum =
      (c.triList.map fun cell => match g.tris.get? cell with
        | some t => (triNormal (x t.n0) (x t.n1) (x t.n2)).y | none => 0).sum ∧
    ((newTris c).map fun t => (triNormal (x t.n0) (x t.n1) (x t.n2)).z).sum =
      (c.triList.map fun cell => match g.tris.get? cell with
        | some t => (triNormal (x t.n0) (x t.n1) (x t.n2)).z | none => 0).sum := by
  have p : V3 ℝ := x 0
  exact ⟨area_component (coneNx x p) (coneNx_alt x p) _ (triBd_coneNx x p) g c hchain,
    area_component (coneNy x p) (coneNy_alt x p) _ (triBd_coneNy x p) g c hchain,
    area_component (coneNz x p) (coneNz_alt x p) _ (triBd_coneNz x p) g c hchain⟩

end areavec

/-! ### grid level -/

theorem removed_tri_sum (φ : Int → Int → Int → G) (g : Grid α) (cells : List Int) (rs : List Tri)
    (h : List.Forall₂ (fun cell t => g.tris.get? cell = some t) cells rs) :
    (rs.map fun t => φ t.n0 t.n1 t.n2).sum = (cells.map (triVal φ g)).sum := by
  induction h with
  | nil => simp
  | cons hab _ ih => simp only [List.map_cons, List.sum_cons, ih, triVal, hab]

/-- one cavity operation with boundary tris: a cavity `c` whose live faces are non-degenerate, whose listed cells are
    live, which satisfies the ledger equation for every coefficient group, and which `ref_cavity_replace` accepts
    (state visible, both manifold verifications passed, all node checks passed) -/
def CavStep2 (g g' : Grid α) : Prop :=
  ∃ c c', (∀ f ∈ c.validFaces, Nondeg f) ∧
    (∀ cell ∈ c.tetList, ∃ t, g.tets.get? cell = some t) ∧
    (∀ cell ∈ c.triList, ∃ t, g.tris.get? cell = some t) ∧
    (∀ (H : Type) [AddCommGroup H] (χ : Int → Int → Int → H), Alt χ → Diag χ → LedgerEq χ g c) ∧
    replace g c = (.ok, c', g')

/-- **replace_mesh_conforming_boundary.**  One cavity operation with boundary tris keeps
    `meshBd φ = Σ_tets ∂φ − Σ_tris φ`, keeps the grid invariant, and every tri of the new grid is an old tri or
    carries the face id of a live seg of the cavity. -/
theorem replace_mesh_conforming_boundary {φ : Int → Int → Int → G} (hφ : Alt φ) (hd : Diag φ)
    (g g' : Grid α) (hok : GridOK g) (hstep : CavStep2 g g') :
    GridOK g' ∧ meshBd φ g' = meshBd φ g := by
  obtain ⟨c, c', hnd, hlt, hls, hled, hrep⟩ := hstep
  obtain ⟨_, hvis, hvf, _, _⟩ := replace_ok g g' c c' hrep
  have hv : VerifyPassed c := ⟨hvf, by rw [hvis]; decide⟩
  obtain ⟨hinv', rt, rs, frt, frs, pt, ps, hback⟩ := replace_grid_multiset g g' c c' hok.inv hrep hlt hls
  have hchain := replace_conforming_boundary hφ hd g c hnd hv (hled G φ hφ hd)
  have hrt := removed_sum φ g c.tetList rt frt
  have hrs := removed_tri_sum φ g c.triList rs frs
  have hsumt := (pt.map fun t => faceSum φ (tetFaces t)).sum_eq
  have hsums := (ps.map fun t => φ t.n0 t.n1 t.n2).sum_eq
  simp only [List.map_append, List.sum_append] at hsumt hsums
  refine ⟨⟨hinv', ?_⟩, ?_⟩
  · intro cell t ht
    rcases hback cell t ht with h0 | h0
    · exact hok.nondeg cell t h0
    · simp only [newTets, List.mem_filterMap] at h0
      obtain ⟨f, hf, hft⟩ := h0
      unfold newTetOf at hft
      split at hft
      · cases hft
      · next hhas =>
        simp only [Option.some.injEq] at hft; subst hft
        obtain ⟨h01, h12, h20⟩ := hnd f hf
        simp only [Face.has, Bool.or_eq_true, beq_iff_eq, not_or] at hhas
        exact ⟨h01, fun e => h20 e.symm, fun e => hhas.1.1 e.symm, h12, fun e => hhas.1.2 e.symm,
          fun e => hhas.2 e.symm⟩
  · unfold meshBd tetsBd
    rw [hrt] at hsumt
    rw [hrs] at hsums
    -- tets' = new + tets − T ;  tris' = newtris + tris − S
    have e1 : (g'.tets.valid.map fun t => faceSum φ (tetFaces t)).sum =
        ((newTets c).map fun t => faceSum φ (tetFaces t)).sum +
          (g.tets.valid.map fun t => faceSum φ (tetFaces t)).sum - (c.tetList.map (tetBd φ g)).sum := by
      rw [← hsumt]; abel
    have e2 : (g'.tris.valid.map fun t => φ t.n0 t.n1 t.n2).sum =
        ((newTris c).map fun t => φ t.n0 t.n1 t.n2).sum + (g.tris.valid.map fun t => φ t.n0 t.n1 t.n2).sum -
          (c.triList.map (triVal φ g)).sum := by
      rw [← hsums]; abel
    rw [e1, e2]
    have := hchain
    rw [sub_eq_iff_eq_add] at this
    rw [this]; abel

/-- a finite history of cavity operations with boundary tris -/
inductive CavHistory2 : Grid α → Grid α → Prop
  | nil (g : Grid α) : CavHistory2 g g
  | cons {g g1 g2 : Grid α} : CavStep2 g g1 → CavHistory2 g1 g2 → CavHistory2 g g2

/-- **cavity_history_conforming_boundary.**  Any chain of accepted cavity replacements — tets AND boundary tris —
    preserves the signed boundary chain of the mesh including its boundary triangles, for every alternating `φ`
    vanishing on repeated nodes, into every abelian group.  In particular a conforming mesh (`meshBd φ = 0`) stays
    conforming. -/
theorem cavity_history_conforming_boundary {φ : Int → Int → Int → G} (hφ : Alt φ) (hd : Diag φ)
    (g g' : Grid α) (hok : GridOK g) (hist : CavHistory2 g g') :
    GridOK g' ∧ meshBd φ g' = meshBd φ g := by
  induction hist with
  | nil g => exact ⟨hok, rfl⟩
  | cons hstep _ ih =>
    obtain ⟨hok1, hm1⟩ := replace_mesh_conforming_boundary hφ hd _ _ hok hstep
    obtain ⟨hok2, hm2⟩ := ih hok1
    exact ⟨hok2, hm2.trans hm1⟩

/-- **replace_tris_ids**: after an accepted replacement every live boundary tri is an old one or carries the face id
    of a live seg of the cavity; no other face id appears. -/
theorem replace_tris_ids (g g' : Grid α) (c c' : Cav) (hinv : GridInv g) (h : replace g c = (.ok, c', g'))
    (hlt : ∀ cell ∈ c.tetList, ∃ t, g.tets.get? cell = some t)
    (hls : ∀ cell ∈ c.triList, ∃ t, g.tris.get? cell = some t) :
    ∀ t ∈ g'.tris.valid, t ∈ g.tris.valid ∨ ∃ s ∈ c.validSegs, t.id = s.id := by
  obtain ⟨_, rt, rs, _, _, _, ps, _⟩ := replace_grid_multiset g g' c c' hinv h hlt hls
  intro t ht
  have := ps.subset (List.mem_append_right _ ht)
  rcases List.mem_append.mp this with h1 | h1
  · obtain ⟨s, hs, hid, _⟩ := replace_ids_from_segs c t h1
    exact Or.inr ⟨s, hs, hid⟩
  · exact Or.inl h1


/-- **certified_step**: the executable certificate `certOk` (listed cells live, live faces non-degenerate, ledger
    check) — evaluated by the drivers on every cavity the real code hands to `ref_cavity_replace` — turns an accepted
    replacement into a `CavStep2`, i.e. into a step of `cavity_history_conforming_boundary`. -/
theorem certified_step (g g' : Grid α) (c c' : Cav) (hc : certOk g c = true) (h : replace g c = (.ok, c', g')) :
    CavStep2 g g' := by
  simp only [certOk, Bool.and_eq_true, List.all_eq_true] at hc
  obtain ⟨⟨⟨h1, h2⟩, h3⟩, h4⟩ := hc
  refine ⟨c, c', ?_, ?_, ?_, ?_, h⟩
  · intro f hf
    have := h3 f hf
    simp only [Face.nondeg, Bool.and_eq_true, bne_iff_ne, ne_eq] at this
    exact ⟨this.1.1, this.1.2, this.2⟩
  · intro cell hcell
    exact Option.isSome_iff_exists.mp (h1 cell hcell)
  · intro cell hcell
    exact Option.isSome_iff_exists.mp (h2 cell hcell)
  · intro H _ χ hχ hd
    exact ledgerOkAt_sound hχ hd g c h4

/-- **certified_ids** ("the set of face ids does not grow; new boundary tris inherit the id of a removed one"): with
    the executable clause `segIdsOk` (every live seg carries the id of a listed boundary tri), after an accepted
    replacement every live boundary tri is an old one or has the face id of a boundary tri that was removed.
    (`_partial` with respect to "the SET of face ids is unchanged": that no id disappears is not a property of the
    cavity operator — a patch reduced to the removed tris would lose its id — and is left to the callers' guards.) -/
theorem certified_ids_partial (g g' : Grid α) (c c' : Cav) (hinv : GridInv g) (hc : certOk g c = true)
    (hids : segIdsOk g c = true) (h : replace g c = (.ok, c', g')) :
    ∀ t ∈ g'.tris.valid, t ∈ g.tris.valid ∨
      ∃ cell ∈ c.triList, ∃ r, g.tris.get? cell = some r ∧ r.id = t.id := by
  simp only [certOk, Bool.and_eq_true, List.all_eq_true] at hc
  obtain ⟨⟨⟨h1, h2⟩, _⟩, _⟩ := hc
  have hlt : ∀ cell ∈ c.tetList, ∃ t, g.tets.get? cell = some t :=
    fun cell hcell => Option.isSome_iff_exists.mp (h1 cell hcell)
  have hls : ∀ cell ∈ c.triList, ∃ t, g.tris.get? cell = some t :=
    fun cell hcell => Option.isSome_iff_exists.mp (h2 cell hcell)
  intro t ht
  rcases replace_tris_ids g g' c c' hinv h hlt hls t ht with h0 | ⟨s, hs, hid⟩
  · exact Or.inl h0
  · right
    simp only [segIdsOk, List.all_eq_true, List.any_eq_true, beq_iff_eq] at hids
    obtain ⟨r, hr, hrid⟩ := hids s hs
    simp only [listedTris, List.mem_filterMap] at hr
    obtain ⟨cell, hcell, hget⟩ := hr
    exact ⟨cell, hcell, r, hget, by rw [hrid, hid]⟩

/-! ## 2. the enlarge loops

`ref_cavity_enlarge_visible` has no iteration cap in the C (`while (keep_growing)`).  The model runs it with two
budgets, `visBudget g = (number of tet slots of the grid) + 1` sweeps and as many cavity-changing enlarge calls per
sweep, and reports `Res.fuel` if one runs out and `Res.hang` if a sweep asks for growth but leaves the cavity as it
was (the C spins forever on such a state). -/

/-- the cavities the loops are about: consistent blank chains, listed cells live and listed once -/
abbrev CavOK (g : Grid α) (c : Cav) : Prop := CavInv g c

/-- a fresh cavity (`ref_cavity_create` + `ref_cavity_form_empty`) is fine -/
theorem cavOK_fresh (g : Grid α) (node : Int) : CavOK g (emptyCav node) :=
  ⟨SlotsInv.create 10, SlotsInv.create 10, (by intro cell h; cases h), List.nodup_nil,
    (by intro cell h; cases h), List.nodup_nil⟩

section loops
variable [Refine.Scalar α]

omit [Refine.Scalar α] in
theorem cavInv_state {g : Grid α} {c : Cav} (h : CavInv g c) (st : CState) : CavInv g { c with state := st } :=
  ⟨h.finv, h.sinv, h.tetsLive, h.tetsNodup, h.trisLive, h.trisNodup⟩

/-- **enlargeVisible_terminates** (b): on a cavity whose lists are duplicate free and live, the modelled
    `ref_cavity_enlarge_visible` never runs out of its budgets — at most `#tet slots − |tet_list| + 1` sweeps, each
    with at most that many cavity-changing enlarge calls, because every such call lists a new live tet.  What remains
    is a normal return or `hang`. -/
theorem enlargeVisible_terminates (g : Grid α) (c : Cav) (hinv : CavOK g c) (c' : Cav) :
    enlargeVisible g c ≠ .fuel c' := by
  have hφ : Alt (fun _ _ _ => (0 : Int)) := ⟨fun _ _ _ => rfl, fun _ _ _ => by simp⟩
  unfold enlargeVisible
  split
  · simp
  · split
    · simp
    · rcases verifyFaceManifold_cases c with hv | hv | hv <;> rw [hv] <;> simp only []
      · have hnf := visLoop_no_fuel hφ g (visBudget g) (visBudget g) c hinv (by simp [visBudget])
          (by simp only [visBudget]; omega) c'
        split
        · next r hr => intro e; subst e; exact hnf hr
        · split <;> simp
      · have hnf := visLoop_no_fuel hφ g (visBudget g) (visBudget g) { c with state := .inconsistent }
          (cavInv_state hinv _) (by simp [visBudget]) (by simp only [visBudget]; omega) c'
        split
        · next r hr => intro e; subst e; exact hnf hr
        · split <;> simp
      · simp

/-- **enlargeConforming_terminates** (b, boundary loop): on a cavity that lists tets (the 3-D case) and whose lists
    are duplicate free and live, the modelled `ref_cavity_enlarge_conforming` never runs out of its budgets
    (`#tri slots + 1` sweeps, as many cavity-changing `enlarge_seg` calls per sweep): every such call lists a new live
    boundary tri — whatever the conformity predicate `conf` (`ref_cavity_conforming`, CAD) answers. -/
theorem enlargeConforming_terminates (g : Grid α) (conf : Cav → Seg → Bool) (c : Cav) (hinv : CavOK g c)
    (htl : c.tetList ≠ []) (c' : Cav) : enlargeConforming g conf c ≠ .fuel c' := by
  unfold enlargeConforming
  split
  · simp
  · split
    · simp
    · split
      · simp
      · rcases verifySegManifold_cases c with hv | hv | hv <;> rw [hv] <;> simp only []
        · have hnf := confLoop_no_fuel g conf (confBudget g) (confBudget g) c hinv htl (by simp [confBudget])
            (by simp only [confBudget]; omega) c'
          split
          · next r hr => intro e; subst e; exact hnf hr
          · split <;> simp
        · have hnf := confLoop_no_fuel g conf (confBudget g) (confBudget g) { c with state := .inconsistent }
            (cavInv_state hinv _) htl (by simp [confBudget]) (by simp only [confBudget]; omega) c'
          split
          · next r hr => intro e; subst e; exact hnf hr
          · split <;> simp
        · simp

/-- what a `VISIBLE` verdict of `ref_cavity_enlarge_visible` carries -/
structure VisibleOutcome (g : Grid α) (c c' : Cav) : Prop where
  inv : CavOK g c'
  verified : VerifyPassed c'
  manifold : cavManifold g c' = true
  /-- (c) every tet `ref_cavity_replace` will create passed `ref_cavity_visible`: nodes valid, volume not `<= min_volume` -/
  positive : ∀ t ∈ newTets c', ∃ v, tetVolAt g t.n0 t.n1 t.n2 t.n3 = some v ∧ (v <=. (minVolume : α)) = false
  /-- (a) the cavity grew by whole tets only: seg side untouched, `tet_list` extended -/
  same : c'.segs = c.segs ∧ c'.node = c.node ∧ c'.surfNode = c.surfNode ∧ c'.triList = c.triList
  grew : ∃ new, c'.tetList = c.tetList ++ new

omit [Refine.Scalar α] in
theorem cavManifold_state (g : Grid α) (c : Cav) (st : CState) : cavManifold g { c with state := st } = cavManifold g c := rfl

theorem faceVisible_positive (g : Grid α) (c : Cav) (f : Face) (h : faceVisible g c f = some true) :
    ∃ v, tetVolAt g f.n0 f.n1 f.n2 c.node = some v ∧ (v <=. (minVolume : α)) = false := by
  unfold faceVisible at h
  cases hv : tetVolAt g f.n0 f.n1 f.n2 c.node with
  | none => rw [hv] at h; cases h
  | some v =>
    rw [hv] at h
    simp only [Option.some.injEq, Bool.not_eq_true'] at h
    exact ⟨v, rfl, h⟩

/-- **enlargeVisible_visible** (a)+(c): if `ref_cavity_enlarge_visible`, called on a cavity in state unknown, returns
    `REF_SUCCESS` with the cavity `VISIBLE`, then the final face verification passed, `ref_cavity_manifold` said yes,
    every would-be tet has `ref_node_tet_vol > min_volume` (as the modelled predicate decides it), and the ledger
    equation and the non-degeneracy of the live faces were carried along every step — so
    `replace_conforming_boundary` applies to whatever cavity the loop ended with. -/
theorem enlargeVisible_visible {φ : Int → Int → Int → G} (hφ : Alt φ) (g : Grid α) (c c' : Cav)
    (hinv : CavOK g c) (h0 : c.state = .unknown) (h : enlargeVisible g c = .ret .ok c') (hvis : c'.state = .visible) :
    VisibleOutcome g c c' ∧ (LedgerEq φ g c → LedgerEq φ g c') ∧
    ((∀ cell t, g.tets.get? cell = some t → TetNondeg t) → (∀ f ∈ c.validFaces, Nondeg f) →
      ∀ f ∈ c'.validFaces, Nondeg f) := by
  -- the part after the initial verification, for a cavity `c0` that differs from `c` in its state only
  have tail : ∀ c0 : Cav, CavInv g c0 → c0.state ≠ .visible →
      (match visLoop g (visBudget g) (visBudget g) c0 with
        | .inl r => r
        | .inr c1 =>
          if !(cavManifold g c1) then Res.ret .ok { c1 with state := .manifold_constrained } else
          let r := verifyFaceManifold { c1 with state := .visible }
          Res.ret r.1 r.2) = Res.ret .ok c' →
      ∃ c1, TetStep φ g c0 c1 ∧ cavManifold g c1 = true ∧ c' = { c1 with state := .visible } ∧
        verifyFaceManifold c' = (.ok, c') ∧ scanVis g c1 c1.faces.rows 0 false = .none false := by
    intro c0 hi0 hs0 hm
    split at hm
    · next r hr =>
      subst hm
      exact absurd hvis (visLoop_ret_state hφ g _ _ c0 hi0.finv hs0 _ _ hr)
    · next c1 hr =>
      obtain ⟨hstep, _, hsc⟩ := visLoop_done hφ g _ _ c0 c1 hi0.finv hr
      split at hm
      · simp only [Res.ret.injEq, true_and] at hm; subst hm; simp at hvis
      · next hman =>
        simp only [Res.ret.injEq] at hm
        obtain ⟨hm1, hm2⟩ := hm
        have hman' : cavManifold g c1 = true := by simpa using hman
        rcases verifyFaceManifold_cases { c1 with state := .visible } with hv | hv | hv
        · rw [hv] at hm2; simp only at hm2; subst hm2
          exact ⟨c1, hstep, hman', rfl, hv, hsc⟩
        · rw [hv] at hm2; simp only at hm2; subst hm2; simp at hvis
        · rw [hv] at hm1; simp at hm1
  unfold enlargeVisible at h
  split at h
  · simp only [Res.ret.injEq] at h; exact absurd h.1 (by decide)
  · rw [if_neg (by simp [h0])] at h
    -- both outcomes of the initial verification leave the lists alone
    have fin : ∀ c0 : Cav, CavInv g c0 → c0.state ≠ .visible → c0.faces = c.faces → c0.segs = c.segs →
        c0.node = c.node → c0.surfNode = c.surfNode → c0.tetList = c.tetList → c0.triList = c.triList →
        (∃ c1, TetStep φ g c0 c1 ∧ cavManifold g c1 = true ∧ c' = { c1 with state := .visible } ∧
          verifyFaceManifold c' = (.ok, c') ∧ scanVis g c1 c1.faces.rows 0 false = .none false) →
        VisibleOutcome g c c' ∧ (LedgerEq φ g c → LedgerEq φ g c') ∧
        ((∀ cell t, g.tets.get? cell = some t → TetNondeg t) → (∀ f ∈ c.validFaces, Nondeg f) →
          ∀ f ∈ c'.validFaces, Nondeg f) := by
      intro c0 hi0 _ ef es en esf et etr ⟨c1, hstep, hman, hc', hver, hsc⟩
      subst hc'
      obtain ⟨new, t1, _, _, _, _, _, _⟩ := hstep.grow
      obtain ⟨a1, a2, a3, a4⟩ := hstep.same
      have hi1 : CavInv g c1 := hi0.of_step hstep
      refine ⟨⟨cavInv_state hi1 _, ⟨hver, by simp⟩, by rw [cavManifold_state]; exact hman, ?_,
        ⟨a1.trans es, a2.trans en, a3.trans esf, a4.trans etr⟩, ⟨new, by rw [← et]; exact t1⟩⟩, ?_, ?_⟩
      · intro t ht
        simp only [newTets, Cav.validFaces, List.mem_filterMap] at ht
        obtain ⟨f, hf, hft⟩ := ht
        unfold newTetOf at hft
        split at hft
        · cases hft
        · next hhas =>
          simp only [Option.some.injEq] at hft; subst hft
          have hmem : some f ∈ c1.faces.rows := by
            simp only [Slots.valid, List.reduceOption, List.mem_filterMap, id] at hf
            obtain ⟨a, ha, rfl⟩ := hf
            exact ha
          have := scanVis_none_false g c1 c1.faces.rows 0 hsc f hmem (by simpa using hhas)
          exact faceVisible_positive g c1 f this
      · intro hl
        have hl0 : LedgerEq φ g c0 := by
          unfold LedgerEq ledgerVal at hl ⊢
          simp only [Cav.validSegs, Cav.segNode, ef, es, en, esf, et, etr] at hl ⊢
          exact hl
        exact hstep.ledger hl0
      · intro hg hnd
        have hnd0 : ∀ f ∈ c0.validFaces, Nondeg f := by
          intro f hf; exact hnd f (by simpa [Cav.validFaces, ef] using hf)
        exact hstep.faceNd hg hnd0
    rcases verifyFaceManifold_cases c with hv | hv | hv <;> rw [hv] at h <;> simp only [] at h
    · exact fin c hinv (by rw [h0]; decide) rfl rfl rfl rfl rfl rfl (tail c hinv (by rw [h0]; decide) h)
    · exact fin { c with state := .inconsistent } (cavInv_state hinv _) (by simp) rfl rfl rfl rfl rfl rfl
        (tail _ (cavInv_state hinv _) (by simp) h)
    · simp only [Res.ret.injEq] at h; exact absurd h.1 (by decide)

/-- **enlargeVisible_step** (Part 2 ⇒ Part 1): a cavity that satisfied the hypotheses of Part 1 before
    `ref_cavity_enlarge_visible` and comes back ok + `VISIBLE`, and which `ref_cavity_replace` then accepts, is a
    `CavStep2` — so the history theorem covers it. -/
theorem enlargeVisible_step (g g' : Grid α) (c c' c'' : Cav) (hok : GridOK g) (hinv : CavOK g c)
    (h0 : c.state = .unknown) (hnd : ∀ f ∈ c.validFaces, Nondeg f)
    (hled : ∀ (H : Type) [AddCommGroup H] (χ : Int → Int → Int → H), Alt χ → Diag χ → LedgerEq χ g c)
    (h : enlargeVisible g c = .ret .ok c') (hvis : c'.state = .visible)
    (hrep : replace g c' = (.ok, c'', g')) : CavStep2 g g' := by
  have hφ0 : Alt (fun _ _ _ => (0 : Int)) := ⟨fun _ _ _ => rfl, fun _ _ _ => by simp⟩
  obtain ⟨out, _, hnd'⟩ := enlargeVisible_visible hφ0 g c c' hinv h0 h hvis
  refine ⟨c', c'', hnd' hok.nondeg hnd, out.inv.tetsLive, out.inv.trisLive, ?_, hrep⟩
  intro H _ χ hχ hd
  exact (enlargeVisible_visible hχ g c c' hinv h0 h hvis).2.1 (hled H χ hχ hd)

end loops


/-! ## 3. the form functions under the history theorem -/

/-- the input of an a-priori statement: a grid with consistent blank chains and adjacency, non-degenerate tets,
    whose signed boundary chain (tets minus boundary tris) vanishes for every alternating `φ` — a conforming mesh -/
structure MeshConf (g : Grid α) : Prop where
  ok : GridOK g
  tetsOrder : OrderOK g.tets
  trisOrder : OrderOK g.tris
  conf : ∀ (H : Type) [AddCommGroup H] (χ : Int → Int → Int → H), Alt χ → meshBd χ g = 0

/-- **formEdgeSwap_ledger** (`ref_cavity_form_edge_swap`, the 3-D edge swap = cavity of the tets around an edge + the
    chosen node, with the two boundary tris and the four segs when the edge is on the boundary).  On a conforming grid,
    if the call returns ok with the state still unknown (anything else — `PARTITION_CONSTRAINED`, `INCONSISTENT`,
    `BOUNDARY_CONSTRAINED`, an error status — blocks `ref_cavity_replace`), at least one tet is around the edge and no
    tet beyond those was pulled in by a cancelling seg, then the cavity lists exactly the tets and tris around the edge
    and satisfies the ledger equation: face list = boundary of the tet set, the faces through the edge cancelled
    against each other and against the two boundary tris, the cone of the four segs added. -/
theorem formEdgeSwap_ledger {φ : Int → Int → Int → G} (hφ : Alt φ) (hd : Diag φ) (g : Grid α) (hg : MeshConf g)
    (n0 n1 node : Int) (c' : Cav) (h : formEdgeSwap g Cav.create n0 n1 node = (.ok, c')) (hs : c'.state = .unknown)
    (hne : g.tets.having2 Tet.nodes n0 n1 ≠ [])
    (hextra : c'.tetList = (g.tets.having2 Tet.nodes n0 n1).map fun p => (p.1 : Int)) :
    EdgeFormed φ g n0 n1 c' ∧ LedgerEq φ g c' := by
  have hf := formEdgeSwap_formed hφ hd g n0 n1 node c' h hs hne hextra
  exact ⟨hf, hf.ledgerEq (edgeMatched_of_conforming hφ g n0 n1 hg.tetsOrder hg.trisOrder (hg.conf G))⟩

/-- **formEdgeSplit_ledger** (`ref_cavity_form_edge_split`: the tets around the edge, the one or two boundary tris on
    it, the sides of those tris other than the edge as segs — plus the two explicit half-edge segs when there is one
    tri only).  Same statement as for the swap: on a conforming grid a call that returns ok / state unknown and pulled
    no further tet in leaves a cavity that lists exactly the cells around the edge and satisfies the ledger equation. -/
theorem formEdgeSplit_ledger {φ : Int → Int → Int → G} (hφ : Alt φ) (hd : Diag φ) (g : Grid α) (hg : MeshConf g)
    (n0 n1 newNode : Int) (c' : Cav) (h : formEdgeSplit g Cav.create n0 n1 newNode = (.ok, c'))
    (hs : c'.state = .unknown) (hne : g.tets.having2 Tet.nodes n0 n1 ≠ [])
    (hextra : c'.tetList = (g.tets.having2 Tet.nodes n0 n1).map fun p => (p.1 : Int)) :
    EdgeFormed φ g n0 n1 c' ∧ LedgerEq φ g c' := by
  have hf := formEdgeSplit_formed hφ hd g n0 n1 newNode c' h hs hne hextra
  exact ⟨hf, hf.ledgerEq (edgeMatched_of_conforming hφ g n0 n1 hg.tetsOrder hg.trisOrder (hg.conf G))⟩

/-- **swap_area_conserved** (the boundary edge swap, planar-patch case and beyond): for the cavity
    `ref_cavity_form_edge_swap` leaves on a boundary edge whose two tris have three distinct valid nodes each, the four
    segs `(n0,n3) (n3,n1) (n1,n2) (n2,n0)` are the signed boundary of the two listed tris (`ref_swap_node23`), hence
    the two boundary tris `ref_cavity_replace` creates have exactly the vector area of the two it removes — each
    component of `Σ ref_node_tri_normal`, exact arithmetic, any node positions. -/
theorem swap_area_conserved (x : Int → Refine.Model.Geom.V3 ℝ) (g : Grid α) (n0 n1 node : Int) (hne01 : n0 ≠ n1)
    (hgood : ∀ p ∈ g.tris.having2 Tri.nodes n0 n1, TriGood p.2)
    (c' : Cav) (h : formEdgeSwap g Cav.create n0 n1 node = (.ok, c')) (hs : c'.state = .unknown)
    (hne : g.tets.having2 Tet.nodes n0 n1 ≠ [])
    (hextra : c'.tetList = (g.tets.having2 Tet.nodes n0 n1).map fun p => (p.1 : Int)) :
    ((newTris c').map fun t => (Refine.Model.Geom.triNormal (x t.n0) (x t.n1) (x t.n2)).x).sum =
      (c'.triList.map fun cell => match g.tris.get? cell with
        | some t => (Refine.Model.Geom.triNormal (x t.n0) (x t.n1) (x t.n2)).x | none => 0).sum ∧
    ((newTris c').map fun t => (Refine.Model.Geom.triNormal (x t.n0) (x t.n1) (x t.n2)).y).sum =
      (c'.triList.map fun cell => match g.tris.get? cell with
        | some t => (Refine.Model.Geom.triNormal (x t.n0) (x t.n1) (x t.n2)).y | none => 0).sum ∧
    ((newTris c').map fun t => (Refine.Model.Geom.triNormal (x t.n0) (x t.n1) (x t.n2)).z).sum =
      (c'.triList.map fun cell => match g.tris.get? cell with
        | some t => (Refine.Model.Geom.triNormal (x t.n0) (x t.n1) (x t.n2)).z | none => 0).sum :=
  replace_area_vector x g c'
    (fun χ hχ => formEdgeSwap_segchain hχ g n0 n1 node hne01 hgood c' h hs hne hextra)

section swappipe
variable [Refine.Scalar α]

theorem checkVisible_frame (g : Grid α) (c : Cav) :
    (checkVisible g c).2.faces = c.faces ∧ (checkVisible g c).2.segs = c.segs ∧ (checkVisible g c).2.node = c.node ∧
    (checkVisible g c).2.surfNode = c.surfNode ∧ (checkVisible g c).2.tetList = c.tetList ∧
    (checkVisible g c).2.triList = c.triList := by
  unfold checkVisible
  split
  · exact ⟨rfl, rfl, rfl, rfl, rfl, rfl⟩
  · split
    · exact ⟨rfl, rfl, rfl, rfl, rfl, rfl⟩
    · split <;> exact ⟨rfl, rfl, rfl, rfl, rfl, rfl⟩

/-- **swap_accept_conforming**: the whole pipeline of `ref_cavity_swap_tet_pass` for the chosen candidate —
    `form_edge_swap → check_visible → replace` — on a conforming grid: if `ref_cavity_replace` accepts, the step is a
    `CavStep2`, the new grid is again conforming (`meshBd χ = 0` for every alternating `χ` vanishing on repeated
    nodes) and keeps the grid invariant.  (`hnd`: the live faces are non-degenerate — part of the executable
    certificate `certOk`.) -/
theorem swap_accept_conforming (g g' : Grid α) (hg : MeshConf g) (n0 n1 node : Int) (c1 c3 : Cav)
    (h : formEdgeSwap g Cav.create n0 n1 node = (.ok, c1)) (hs : c1.state = .unknown)
    (hne : g.tets.having2 Tet.nodes n0 n1 ≠ [])
    (hextra : c1.tetList = (g.tets.having2 Tet.nodes n0 n1).map fun p => (p.1 : Int))
    (hnd : ∀ f ∈ c1.validFaces, Nondeg f)
    (hrep : replace g (checkVisible g c1).2 = (.ok, c3, g')) :
    CavStep2 g g' ∧ GridOK g' ∧
    ∀ (H : Type) [AddCommGroup H] (χ : Int → Int → Int → H), Alt χ → Diag χ → meshBd χ g' = 0 := by
  obtain ⟨e1, e2, e3, e4, e5, e6⟩ := checkVisible_frame g c1
  have hstep : CavStep2 g g' := by
    refine ⟨(checkVisible g c1).2, c3, ?_, ?_, ?_, ?_, hrep⟩
    · intro f hf; exact hnd f (by simpa [Cav.validFaces, e1] using hf)
    · intro cell hc
      rw [e5, hextra] at hc
      obtain ⟨p, hp, rfl⟩ := List.mem_map.mp hc
      exact ⟨p.2, having2_get g.tets Tet.nodes n0 n1 p hp⟩
    · intro cell hc
      have hφ0 : Alt (fun _ _ _ => (0 : Int)) := ⟨fun _ _ _ => rfl, fun _ _ _ => by simp⟩
      have hd0 : Diag (fun _ _ _ => (0 : Int)) := fun _ _ => rfl
      have hf := (formEdgeSwap_ledger hφ0 hd0 g hg n0 n1 node c1 h hs hne hextra).1
      rw [e6, hf.tris] at hc
      obtain ⟨p, hp, rfl⟩ := List.mem_map.mp hc
      exact ⟨p.2, having2_get g.tris Tri.nodes n0 n1 p hp⟩
    · intro H _ χ hχ hd
      have hl := (formEdgeSwap_ledger hχ hd g hg n0 n1 node c1 h hs hne hextra).2
      unfold LedgerEq ledgerVal at hl ⊢
      simp only [Cav.validSegs, Cav.segNode, e1, e2, e3, e4, e5, e6] at hl ⊢
      exact hl
  refine ⟨hstep, ?_, ?_⟩
  · have hφ0 : Alt (fun _ _ _ => (0 : Int)) := ⟨fun _ _ _ => rfl, fun _ _ _ => by simp⟩
    exact (replace_mesh_conforming_boundary hφ0 (fun _ _ => rfl) g g' hg.ok hstep).1
  · intro H _ χ hχ hd
    rw [(replace_mesh_conforming_boundary hχ hd g g' hg.ok hstep).2]
    exact hg.conf H χ hχ

end swappipe


/-- what the collapse statements need of the two vertex balls: distinct ends, at least one tet at `n0`, and
    adjacency walks that list each cell once -/
structure BallLists (g : Grid α) (n0 n1 : Int) : Prop where
  ne : n0 ≠ n1
  some : g.tets.having Tet.nodes n0 ≠ []
  t0 : ((g.tets.having Tet.nodes n0).map (·.1)).Nodup
  t1 : ((g.tets.having Tet.nodes n1).map (·.1)).Nodup
  s0 : ((g.tris.having Tri.nodes n0).map (·.1)).Nodup
  s1 : ((g.tris.having Tri.nodes n1).map (·.1)).Nodup

/-- **formEdgeCollapse_ledger** (`ref_cavity_form_edge_collapse`).  On a conforming grid, if the call returns ok with
    the state still unknown and no tet beyond the balls of the two ends was pulled in by a cancelling seg, the cavity
    lists the ball of `n0` followed by the rest of the ball of `n1` (tets and boundary tris), its lists are duplicate
    free and live, and it satisfies the ledger equation: the faces the loops skip (those containing the kept node, all
    faces of the tets that hold both ends) cancel against each other and against the listed boundary tris. -/
theorem formEdgeCollapse_ledger {φ : Int → Int → Int → G} (hφ : Alt φ) (hd : Diag φ) (g : Grid α) (hg : MeshConf g)
    (n0 n1 : Int) (hb : BallLists g n0 n1) (c' : Cav) (h : formEdgeCollapse g Cav.create n0 n1 = (.ok, c'))
    (hs : c'.state = .unknown)
    (hextra : c'.tetList =
      ((ballA g.tets Tet.nodes n0) ++ (ballB g.tets Tet.nodes n0 n1)).map fun p => (p.1 : Int)) :
    BallFormed φ g n0 n1 c' ∧ CavOK g c' ∧ LedgerEq φ g c' := by
  have hf := formEdgeCollapse_formed hφ hd g n0 n1 c' h hs hb.some hb.t0 hb.t1 hb.s0 hb.s1 hextra
  exact ⟨hf, hf.cavInv hb.t0 hb.t1 hb.s0 hb.s1,
    hf.ledgerEq (ballMatched_of_conforming hφ g n0 n1 hb.ne hg.tetsOrder hg.trisOrder (hg.conf G))⟩

section collapsepipe
variable [Refine.Scalar α]

/-- **collapse_accept_conforming**: the cavity fall-back of `ref_collapse_to_remove_node1` —
    `form_edge_collapse → enlarge_visible → (ratio, change) → replace` — on a conforming grid: if the enlarge loop
    comes back ok + `VISIBLE` and `ref_cavity_replace` accepts, the step is a `CavStep2`, the new grid is conforming
    again and keeps the grid invariant, whatever cavity the loop ended with.  (`hnd`: the live faces after the form
    call are non-degenerate — part of `certOk`; the acceptance tests only decide WHETHER replace is called.) -/
theorem collapse_accept_conforming (g g' : Grid α) (hg : MeshConf g) (n0 n1 : Int) (hb : BallLists g n0 n1)
    (c1 c2 c3 : Cav) (h : formEdgeCollapse g Cav.create n0 n1 = (.ok, c1)) (hs : c1.state = .unknown)
    (hextra : c1.tetList =
      ((ballA g.tets Tet.nodes n0) ++ (ballB g.tets Tet.nodes n0 n1)).map fun p => (p.1 : Int))
    (hnd : ∀ f ∈ c1.validFaces, Nondeg f)
    (he : enlargeVisible g c1 = .ret .ok c2) (hvis : c2.state = .visible)
    (hrep : replace g c2 = (.ok, c3, g')) :
    CavStep2 g g' ∧ GridOK g' ∧
    ∀ (H : Type) [AddCommGroup H] (χ : Int → Int → Int → H), Alt χ → Diag χ → meshBd χ g' = 0 := by
  have hφ0 : Alt (fun _ _ _ => (0 : Int)) := ⟨fun _ _ _ => rfl, fun _ _ _ => by simp⟩
  have hd0 : Diag (fun _ _ _ => (0 : Int)) := fun _ _ => rfl
  have hinv := (formEdgeCollapse_ledger hφ0 hd0 g hg n0 n1 hb c1 h hs hextra).2.1
  have hstep : CavStep2 g g' :=
    enlargeVisible_step g g' c1 c2 c3 hg.ok hinv hs hnd
      (fun H _ χ hχ hd => (formEdgeCollapse_ledger hχ hd g hg n0 n1 hb c1 h hs hextra).2.2) he hvis hrep
  refine ⟨hstep, (replace_mesh_conforming_boundary hφ0 hd0 g g' hg.ok hstep).1, ?_⟩
  intro H _ χ hχ hd
  rw [(replace_mesh_conforming_boundary hχ hd g g' hg.ok hstep).2]
  exact hg.conf H χ hχ

end collapsepipe

/-! ### non-vacuity: an 8-tet star around an interior edge, and a boundary edge with two tris -/

/-- build a grid from points (all owned), tets and tris -/
def mkGrid (pts : List (Refine.Model.Geom.V3 Int)) (tets : List Tet) (tris : List Tri) : Grid Int :=
  let g : Grid Int := pts.foldl (fun g p => (g.addNode ⟨p, true⟩).1) Grid.create
  let g := tets.foldl (fun g t => { g with tets := (g.tets.add t).1 }) g
  tris.foldl (fun g t => { g with tris := (g.tris.add t).1 }) g

/-- edge 0-1 along z, ring 2..9 on an octagon at mid height: 8 tets `(0,1,r_k,r_k+1)`, 16 outer boundary tris -/
def star8 : Grid Int :=
  mkGrid [⟨0, 0, 0⟩, ⟨0, 0, 12⟩, ⟨12, 0, 6⟩, ⟨9, 9, 6⟩, ⟨0, 12, 6⟩, ⟨-9, 9, 6⟩, ⟨-12, 0, 6⟩, ⟨-9, -9, 6⟩, ⟨0, -12, 6⟩,
      ⟨9, -9, 6⟩]
    ((List.range 8).map fun k => ⟨0, 1, (2 + k : Nat), (2 + (k + 1) % 8 : Nat)⟩)
    ((List.range 8).flatMap fun k =>
      [⟨1, (2 + (k + 1) % 8 : Nat), (2 + k : Nat), 5⟩, ⟨0, (2 + k : Nat), (2 + (k + 1) % 8 : Nat), 5⟩])

/-- boundary edge 0-1: open fan of 4 tets over the half ring 2..6, the two boundary tris `(0,1,2)`, `(0,6,1)` on the
    edge with face id 7, 8 outer tris with face id 5 -/
def fan4 : Grid Int :=
  mkGrid [⟨0, 0, 0⟩, ⟨0, 0, 12⟩, ⟨12, 0, 6⟩, ⟨9, 9, 6⟩, ⟨0, 12, 6⟩, ⟨-9, 9, 6⟩, ⟨-12, 0, 6⟩]
    ((List.range 4).map fun k => ⟨0, 1, (2 + k : Nat), (3 + k : Nat)⟩)
    ([⟨0, 1, 2, 7⟩, ⟨0, 6, 1, 7⟩] ++ (List.range 4).flatMap fun k =>
      [⟨1, (3 + k : Nat), (2 + k : Nat), 5⟩, ⟨0, (2 + k : Nat), (3 + k : Nat), 5⟩])

theorem gridOK_of_valid (g : Grid Int) (h1 : SlotsInv g.tets.slots) (h2 : SlotsInv g.tris.slots)
    (h3 : ∀ t ∈ g.tets.valid, TetNondeg t) : GridOK g :=
  ⟨⟨h1, h2⟩, fun cell t h => h3 t (get?_mem_valid g.tets cell t () h)⟩

instance (f : Face) : Decidable (Nondeg f) := by unfold Nondeg; infer_instance
instance {β : Type} [DecidableEq β] (s : Cells β) : Decidable (OrderOK s) := by unfold OrderOK; infer_instance

theorem star8_conf : MeshConf star8 :=
  ⟨gridOK_of_valid star8 (by decide +kernel) (by decide +kernel) (by decide), by decide, by decide,
    fun _ _ χ hχ => meshBd_zero_of_orient hχ star8 (by decide)⟩

theorem fan4_conf : MeshConf fan4 :=
  ⟨gridOK_of_valid fan4 (by decide +kernel) (by decide +kernel) (by decide), by decide, by decide,
    fun _ _ χ hχ => meshBd_zero_of_orient hχ fan4 (by decide)⟩


/-- hypotheses of `formEdgeSwap_ledger`, `swap_accept_conforming`, `certified_step`: the 8-tet star, swap of the
    interior edge 0-1 from node 2 — status ok, state unknown, 8 tets listed, certificate ok, visible, replace accepted
    (8 tets out, 12 in) -/
example :
    (formEdgeSwap star8 Cav.create 0 1 2).1 = .ok ∧ (formEdgeSwap star8 Cav.create 0 1 2).2.state = .unknown ∧
    star8.tets.having2 Tet.nodes 0 1 ≠ [] ∧
    (formEdgeSwap star8 Cav.create 0 1 2).2.tetList = (star8.tets.having2 Tet.nodes 0 1).map (fun p => (p.1 : Int)) ∧
    (∀ f ∈ (formEdgeSwap star8 Cav.create 0 1 2).2.validFaces, Nondeg f) ∧
    certOk star8 (formEdgeSwap star8 Cav.create 0 1 2).2 = true ∧
    (@replace Int star8 (@checkVisible Int intScalar star8 (formEdgeSwap star8 Cav.create 0 1 2).2).2).1 = .ok ∧
    (@replace Int star8 (@checkVisible Int intScalar star8 (formEdgeSwap star8 Cav.create 0 1 2).2).2).2.2.tets.valid.length
      = 12 := by
  decide +kernel

/-- the boundary edge with two tris, swap from node 4: the two boundary tris are listed, four segs (two attached to
    the seg node 2), certificate ok, replace accepted: 4 tets out, 6 in; tris `(0,1,2)`, `(0,6,1)` out,
    `(0,6,2)`, `(6,1,2)` in with the inherited face id 7 -/
example :
    (formEdgeSwap fan4 Cav.create 0 1 4).1 = .ok ∧ (formEdgeSwap fan4 Cav.create 0 1 4).2.state = .unknown ∧
    (formEdgeSwap fan4 Cav.create 0 1 4).2.triList.length = 2 ∧
    (formEdgeSwap fan4 Cav.create 0 1 4).2.validSegs.length = 4 ∧
    (formEdgeSwap fan4 Cav.create 0 1 4).2.tetList = (fan4.tets.having2 Tet.nodes 0 1).map (fun p => (p.1 : Int)) ∧
    (∀ f ∈ (formEdgeSwap fan4 Cav.create 0 1 4).2.validFaces, Nondeg f) ∧
    certOk fan4 (formEdgeSwap fan4 Cav.create 0 1 4).2 = true ∧
    (@replace Int fan4 (@checkVisible Int intScalar fan4 (formEdgeSwap fan4 Cav.create 0 1 4).2).2).1 = .ok ∧
    newTris (formEdgeSwap fan4 Cav.create 0 1 4).2 = [⟨0, 6, 2, 7⟩, ⟨6, 1, 2, 7⟩] := by
  decide +kernel


/-! ## 2(d) / C13. rejected ⇒ no trace

In the model `ref_cavity_form_*`, `ref_cavity_enlarge_*`, `ref_cavity_check_visible`, the acceptance tests and
`ref_cavity_free` cannot touch the grid: they produce a cavity (private lists) and read the grid; only
`ref_cavity_replace` returns a grid.  That the C has the same shape is what the tie checks (structural grid hash
before `ref_cavity_create` / after `ref_cavity_free` on every path that does not reach `replace`).  What is proved
here is the logic of the callers: the grid they hand back differs from the one they got only through a
`ref_cavity_replace` of a cavity that is `VISIBLE` and passed the caller's acceptance test. -/

/-- **replace_requires_visible**: `ref_cavity_replace` on a cavity in any state other than `VISIBLE` fails at its first
    test and returns the grid (cells, node validity, free lists: the whole value) and the cavity untouched -/
theorem replace_requires_visible (g : Grid α) (c : Cav) (h : c.state ≠ .visible) :
    replace g c = (.failure, c, g) := by
  unfold replace
  rw [if_pos h]

/-- an inconsistent face or seg list blocks `ref_cavity_replace` as well (the grid is returned untouched) -/
theorem replace_inconsistent_no_trace (g : Grid α) (c : Cav) (h : ¬ VerifyPassed c) :
    (replace g c).2.2 = g := by
  unfold replace
  split
  · rfl
  · rcases verifyFaceManifold_cases c with hf | hf | hf <;> rw [hf] <;> simp only []
    · -- the face verification returned the cavity unchanged: then it was `inconsistent` already
      by_cases hs : c.state = .inconsistent
      · rcases verifySegManifold_cases c with hw | hw | hw <;> rw [hw] <;> simp only []
        · rw [if_pos (by rw [hs]; decide)]
        · rw [if_pos (by decide)]
      · exact absurd ⟨hf, hs⟩ h
    · have : verifySegManifold { c with state := .inconsistent } = (.ok, { c with state := .inconsistent }) := by
        unfold verifySegManifold; simp
      rw [this]; simp only []
      rw [if_pos (by decide)]

section callers
variable [Refine.Scalar α]

/-- **cavity_reject_no_trace (collapse path)**: the grid `ref_collapse_to_remove_node1`'s cavity fall-back hands back is
    the one it got, unless a cavity in state `VISIBLE` that passed `ref_cavity_ratio` and
    `min_add > collapse_quality_absolute` was given to `ref_cavity_replace`. -/
theorem collapseCavityPath_no_trace (g g' : Grid α) (nd : Refine.Model.Collapse.Nodes α) (a : Adapt α) (n0 n1 : Int)
    (s : Refine.Model.Cavity.St) (rep : Bool) (h : collapseCavityPath g nd a n0 n1 = (s, rep, g')) :
    g' = g ∨ ∃ c minDel minAdd, c.state = .visible ∧ cavRatio nd a.postMin a.postMax c = true ∧
      cavChange g nd minVolume c = (.ok, minDel, minAdd) ∧ (a.collapseQualityAbsolute <. minAdd) = true ∧
      g' = (replace g c).2.2 ∧ rep = ((replace g c).1 == .ok) := by
  unfold collapseCavityPath at h
  split at h
  · split at h
    · simp only [Prod.mk.injEq] at h; exact Or.inl h.2.2.symm
    · split at h
      · next c hc =>
        split at h
        · simp only [Prod.mk.injEq] at h; exact Or.inl h.2.2.symm
        · next hvis =>
          split at h
          · next minDel minAdd hch =>
            split at h
            · next hacc =>
              simp only [Prod.mk.injEq] at h
              simp only [Bool.and_eq_true] at hacc
              exact Or.inr ⟨c, minDel, minAdd, by simpa using hvis, hacc.1, hch, hacc.2, h.2.2.symm, h.2.1.symm⟩
            · simp only [Prod.mk.injEq] at h; exact Or.inl h.2.2.symm
          · simp only [Prod.mk.injEq] at h; exact Or.inl h.2.2.symm
      · simp only [Prod.mk.injEq] at h; exact Or.inl h.2.2.symm
      · simp only [Prod.mk.injEq] at h; exact Or.inl h.2.2.symm
  · simp only [Prod.mk.injEq] at h; exact Or.inl h.2.2.symm

/-- **cavity_reject_no_trace (split path)**: same for the `try_cavity` branch of `ref_split_pass` -/
theorem splitCavityPath_no_trace (g g' : Grid α) (nd : Refine.Model.Collapse.Nodes α) (a : Adapt α)
    (conf : Cav → Seg → Bool) (hasEdge : Bool) (n0 n1 newNode : Int) (s : Refine.Model.Cavity.St) (rep : Bool)
    (h : splitCavityPath g nd a conf hasEdge n0 n1 newNode = (s, rep, g')) :
    g' = g ∨ ∃ c minDel minAdd, c.state = .visible ∧ (cavRatio nd a.postMin a.postMax c || hasEdge) = true ∧
      cavChange g nd minVolume c = (.ok, minDel, minAdd) ∧ (a.splitQualityAbsolute <. minAdd) = true ∧
      g' = (replace g c).2.2 ∧ rep = ((replace g c).1 == .ok) := by
  unfold splitCavityPath at h
  split at h
  · simp only at h
    split at h
    · simp only [Prod.mk.injEq] at h; exact Or.inl h.2.2.symm
    · next c hc =>
      split at h
      · simp only [Prod.mk.injEq] at h; exact Or.inl h.2.2.symm
      · next hvis =>
        split at h
        · next minDel minAdd hch =>
          split at h
          · next hacc =>
            simp only [Prod.mk.injEq] at h
            simp only [Bool.and_eq_true] at hacc
            exact Or.inr ⟨c, minDel, minAdd, by simpa using hvis, hacc.1, hch, hacc.2, h.2.2.symm, h.2.1.symm⟩
          · simp only [Prod.mk.injEq] at h; exact Or.inl h.2.2.symm
        · simp only [Prod.mk.injEq] at h; exact Or.inl h.2.2.symm
  · simp only [Prod.mk.injEq] at h; exact Or.inl h.2.2.symm

/-! ## 4. acceptance tests (logic only; the numbers are `Float`-tied) -/

/-- **swapTetTrial_accepts**: a candidate of `ref_cavity_swap_tet_pass` enters the `best` competition only if its
    cavity formed ok, is not `INCONSISTENT`, `ref_cavity_check_visible` made it `VISIBLE`, `ref_cavity_ratio` allowed
    it and `ref_cavity_change` reported `min_add − min_del > 0.0001`; the value it competes with is `min_add`. -/
theorem swapTetTrial_accepts (g : Grid α) (nd : Refine.Model.Collapse.Nodes α) (a : Adapt α) (n0 n1 n2 : Int)
    (s : Refine.Model.Cavity.St) (q : α) (h : swapTetTrial g nd a n0 n1 n2 = (s, some q)) :
    s = .ok ∧ ∃ c0 c minDel, formEdgeSwap g Cav.create n0 n1 n2 = (.ok, c0) ∧ c0.state ≠ .inconsistent ∧
      checkVisible g c0 = (.ok, c) ∧ c.state = .visible ∧ cavRatio nd a.postMin a.postMax c = true ∧
      cavChange g nd minVolume c = (.ok, minDel, q) ∧ (Scalar.ofDec 1 (-4) <. (q -. minDel)) = true := by
  unfold swapTetTrial at h
  split at h
  · next c0 hf =>
    split at h
    · simp at h
    · next hinc =>
      split at h
      · next c hv =>
        split at h
        · simp at h
        · next hvis =>
          split at h
          · simp at h
          · next hr =>
            split at h
            · next minDel minAdd hch =>
              split at h
              · next hgt =>
                simp only [Prod.mk.injEq, Option.some.injEq] at h
                obtain ⟨rfl, rfl⟩ := h
                exact ⟨rfl, c0, c, minDel, hf, hinc, hv, by simpa using hvis, by simpa using hr, hch, hgt⟩
              · simp at h
            · simp at h
      · simp at h
  · simp at h

/-- the grid after the body of `ref_cavity_swap_tet_pass` for one tet is the input grid unless a best candidate was
    chosen, and then it is `ref_cavity_replace` of the re-formed, re-checked cavity of that candidate -/
theorem swapTetCell_no_trace (g g' : Grid α) (nd : Refine.Model.Collapse.Nodes α) (a : Adapt α)
    (gate : Int → Int → Bool) (t : Tet) (s : Refine.Model.Cavity.St) (h : swapTetCell g nd a gate t = (s, g')) :
    g' = g ∨ ∃ e0 e1 e2 c0 c, swapTetBest g nd a gate t = (.ok, some (e0, e1, e2)) ∧
      formEdgeSwap g Cav.create e0 e1 e2 = (.ok, c0) ∧ checkVisible g c0 = (.ok, c) ∧ g' = (replace g c).2.2 := by
  unfold swapTetCell at h
  split at h
  · simp only [Prod.mk.injEq] at h; exact Or.inl h.2.symm
  · next e0 e1 e2 hb =>
    split at h
    · next c0 hf =>
      split at h
      · next c hv =>
        simp only [Prod.mk.injEq] at h
        exact Or.inr ⟨e0, e1, e2, c0, c, hb, hf, hv, h.2.symm⟩
      · simp only [Prod.mk.injEq] at h; exact Or.inl h.2.symm
    · simp only [Prod.mk.injEq] at h; exact Or.inl h.2.symm
  · simp only [Prod.mk.injEq] at h; exact Or.inl h.2.symm

end callers

section ratioreal
open Refine.ScalarReal

/-- **cavRatio_band** (over ℝ): `ref_cavity_ratio` allows the cavity iff every edge from the cavity node to a node of
    a live, unattached face has its metric length inside `[post_min_ratio, post_max_ratio]` -/
theorem cavRatio_band (nd : Refine.Model.Collapse.Nodes ℝ) (lo hi : ℝ) (c : Cav) :
    cavRatio nd lo hi c = true ↔
      ∀ f ∈ c.validFaces, f.has c.node = false → ∀ v ∈ Face.nodes f,
        lo ≤ Refine.Model.Collapse.nodeRatio nd c.node.toNat v.toNat ∧
        Refine.Model.Collapse.nodeRatio nd c.node.toNat v.toNat ≤ hi := by
  unfold cavRatio
  simp only [List.all_eq_true, Bool.or_eq_true, Bool.not_eq_true', Bool.or_eq_false_iff]
  constructor
  · intro h f hf hatt v hv
    rcases h f hf with h1 | h1
    · rw [h1] at hatt; cases hatt
    · have := h1 v hv
      rw [lt_false_iff, lt_false_iff] at this
      exact this
  · intro h f hf
    by_cases hatt : f.has c.node = true
    · exact Or.inl hatt
    · right
      intro v hv
      have := h f hf (by simpa using hatt) v hv
      rw [lt_false_iff, lt_false_iff]
      exact this

end ratioreal

end Refine.Props.C01Cavity2
