import Refine.Lemmas.Cavity2Replace
import Refine.Props.C01

/-!
  C01 / C13 — the cavity operator with boundary triangles, the enlarge loops and the form functions
  (`src/ref_cavity.c`; model `Refine/Model/Cavity2.lean` on top of `Refine/Model/Cavity.lean`; tied by the streams
  `cavity2_*`).

  Part 1 (this section): BOUNDARY BOOKKEEPING.  `ledgerVal φ c = Σ_{live faces} φ − Σ_{live segs} φ(s0,s1,seg node)`.
  `LedgerEq φ g c : ledgerVal φ c = Σ_{listed tets} ∂φ − Σ_{listed tris} φ` is the chain identity
  `F − cone(∂S) = ∂T − S` under which `ref_cavity_replace` keeps the signed boundary of the mesh INCLUDING its
  boundary tris.  It is (i) maintained by every successful 3-D `ref_cavity_insert_seg` up to the faces
  `ref_cavity_remove_seg_add_tets` skips (`insertSeg_ledger`), (ii) decidable on a concrete cavity
  (`ledgerOkAt`, evaluated by the run-level driver on every `cavity_replace begin` record; sound:
  `ledgerOkAt_ledgerEq`), (iii) established by the form functions on a conforming grid (Part 3).
-/
namespace Refine.Props.C01Cavity2
open Refine.Model.Cavity Refine.Model.Cavity2 Refine.Lemmas.Cavity Refine.Lemmas.Cavity2 Refine.Props.C01

variable {G : Type} [AddCommGroup G] {α : Type}

/-! ## 1. boundary bookkeeping -/

/-- **insertSeg_ledger** (`ref_cavity_insert_seg` with tets listed and state unknown — the guard under which
    `ref_cavity_add_seg_face` / `ref_cavity_remove_seg_face` / `ref_cavity_remove_seg_add_tets` act).  A successful
    call either flags the cavity (`boundary_constrained`: the reversed seg carries another face id;
    `partition_constrained`: a ghost tet around the seg), or there is a list `new` of live tets appended to `tet_list`
    with: `ledgerVal` grows by the faces of `new` that are NOT one of the two tris on the seg (`keptFaces`), the seg
    chain grows by `ψ(s)` for every antisymmetric `ψ`, and nothing else changes. -/
theorem insertSeg_ledger {φ : Int → Int → Int → G} {ψ : Int → Int → G} (hφ : Alt φ) (hd : Diag φ) (hψ : Alt2 ψ)
    (g : Grid α) (c c' : Cav) (s : Seg) (hf : SlotsInv c.faces) (hsg : SlotsInv c.segs)
    (htl : c.tetList ≠ []) (hst : c.state = .unknown) (h : insertSeg g c s = (.ok, c')) :
    c'.state ≠ .unknown ∨ ∃ new, SegStep φ ψ g c c' s new :=
  insertSeg3_spec hφ hd hψ g c c' s hf hsg ⟨htl, hst⟩ h

/-- a seg cancels only against the reversed seg WITH THE SAME face id: otherwise the cavity is flagged and
    `ref_cavity_replace` refuses it -/
theorem insertSeg_id_mismatch (g : Grid α) (c : Cav) (s old : Seg) (i : Nat)
    (hfind : findSegAux s.n0 s.n1 c.segs.rows 0 = some (i, true)) (hold : c.segs.rows.getD i none = some old)
    (hid : s.id ≠ old.id) :
    insertSeg g c s = (.ok, { c with state := .boundary_constrained }) := by
  unfold insertSeg
  rw [hfind]
  simp only [hold, hid, ne_eq, not_false_eq_true, if_true]

/-- **replace_conforming_boundary.**  Face verification passed + ledger equation ⇒ for every alternating `φ`
    vanishing on repeated nodes, (new tets − new boundary tris) has the signed boundary of
    (removed tets − removed boundary tris). -/
theorem replace_conforming_boundary {φ : Int → Int → Int → G} (hφ : Alt φ) (hd : Diag φ) (g : Grid α) (c : Cav)
    (hnd : ∀ f ∈ c.validFaces, Nondeg f) (hv : VerifyPassed c) (hl : LedgerEq φ g c) :
    ((newTets c).map fun t => faceSum φ (tetFaces t)).sum - ((newTris c).map fun t => φ t.n0 t.n1 t.n2).sum =
      (c.tetList.map (tetBd φ g)).sum - (c.triList.map (triVal φ g)).sum :=
  replace_chain_boundary hφ hd g c hnd (verifyPassed_loop hv) hl

/-- **ledgerOkAt_ledgerEq**: the executable check (signed multiplicity of every unordered face in
    `live faces + listed tris` against `cone of the unattached live segs + faces of the listed tets` is zero) gives the
    ledger equation for every `G`, `φ`. -/
theorem ledgerOkAt_ledgerEq {φ : Int → Int → Int → G} (hφ : Alt φ) (hd : Diag φ) (g : Grid α) (c : Cav)
    (h : ledgerOkAt g c = true) : LedgerEq φ g c :=
  ledgerOkAt_sound hφ hd g c h

/-- **replace_ids_from_segs**: every boundary tri `ref_cavity_replace` creates takes its first two nodes and its face
    id from a live seg (the third node is the seg node). -/
theorem replace_ids_from_segs (c : Cav) :
    ∀ t ∈ newTris c, ∃ s ∈ c.validSegs, t.id = s.id ∧ t.n0 = s.n0 ∧ t.n1 = s.n1 ∧ t.n2 = c.segNode := by
  intro t ht
  simp only [newTris, List.mem_filterMap] at ht
  obtain ⟨s, hs, hst⟩ := ht
  unfold newTriOf at hst
  split at hst
  · cases hst
  · simp only [Option.some.injEq] at hst; subst hst; exact ⟨s, hs, rfl, rfl, rfl, rfl⟩

/-! ### grid level -/

theorem removed_tri_sum (φ : Int → Int → Int → G) (g : Grid α) (cells : List Int) (rs : List Tri)
    (h : List.Forall₂ (fun cell t => g.tris.get? cell = some t) cells rs) :
    (rs.map fun t => φ t.n0 t.n1 t.n2).sum = (cells.map (triVal φ g)).sum := by
  induction h with
  | nil => simp
  | cons hab _ ih => simp only [List.map_cons, List.sum_cons, ih, triVal, hab]

/-- one cavity operation with boundary tris: a cavity `c` whose live faces are non-degenerate, whose listed cells are
    live, which satisfies the ledger equation for every coefficient group, and which `ref_cavity_replace` accepts
    (state visible, both manifold verifications passed, all node checks passed) -/
def CavStep2 (g g' : Grid α) : Prop :=
  ∃ c c', (∀ f ∈ c.validFaces, Nondeg f) ∧
    (∀ cell ∈ c.tetList, ∃ t, g.tets.get? cell = some t) ∧
    (∀ cell ∈ c.triList, ∃ t, g.tris.get? cell = some t) ∧
    (∀ (H : Type) [AddCommGroup H] (χ : Int → Int → Int → H), Alt χ → Diag χ → LedgerEq χ g c) ∧
    replace g c = (.ok, c', g')

/-- **replace_mesh_conforming_boundary.**  One cavity operation with boundary tris keeps
    `meshBd φ = Σ_tets ∂φ − Σ_tris φ`, keeps the grid invariant, and every tri of the new grid is an old tri or
    carries the face id of a live seg of the cavity. -/
theorem replace_mesh_conforming_boundary {φ : Int → Int → Int → G} (hφ : Alt φ) (hd : Diag φ)
    (g g' : Grid α) (hok : GridOK g) (hstep : CavStep2 g g') :
    GridOK g' ∧ meshBd φ g' = meshBd φ g := by
  obtain ⟨c, c', hnd, hlt, hls, hled, hrep⟩ := hstep
  obtain ⟨_, hvis, hvf, _, _⟩ := replace_ok g g' c c' hrep
  have hv : VerifyPassed c := ⟨hvf, by rw [hvis]; decide⟩
  obtain ⟨hinv', rt, rs, frt, frs, pt, ps, hback⟩ := replace_grid_multiset g g' c c' hok.inv hrep hlt hls
  have hchain := replace_conforming_boundary hφ hd g c hnd hv (hled G φ hφ hd)
  have hrt := removed_sum φ g c.tetList rt frt
  have hrs := removed_tri_sum φ g c.triList rs frs
  have hsumt := (pt.map fun t => faceSum φ (tetFaces t)).sum_eq
  have hsums := (ps.map fun t => φ t.n0 t.n1 t.n2).sum_eq
  simp only [List.map_append, List.sum_append] at hsumt hsums
  refine ⟨⟨hinv', ?_⟩, ?_⟩
  · intro cell t ht
    rcases hback cell t ht with h0 | h0
    · exact hok.nondeg cell t h0
    · simp only [newTets, List.mem_filterMap] at h0
      obtain ⟨f, hf, hft⟩ := h0
      unfold newTetOf at hft
      split at hft
      · cases hft
      · next hhas =>
        simp only [Option.some.injEq] at hft; subst hft
        obtain ⟨h01, h12, h20⟩ := hnd f hf
        simp only [Face.has, Bool.or_eq_true, beq_iff_eq, not_or] at hhas
        exact ⟨h01, fun e => h20 e.symm, fun e => hhas.1.1 e.symm, h12, fun e => hhas.1.2 e.symm,
          fun e => hhas.2 e.symm⟩
  · unfold meshBd tetsBd
    rw [hrt] at hsumt
    rw [hrs] at hsums
    -- tets' = new + tets − T ;  tris' = newtris + tris − S
    have e1 : (g'.tets.valid.map fun t => faceSum φ (tetFaces t)).sum =
        ((newTets c).map fun t => faceSum φ (tetFaces t)).sum +
          (g.tets.valid.map fun t => faceSum φ (tetFaces t)).sum - (c.tetList.map (tetBd φ g)).sum := by
      rw [← hsumt]; abel
    have e2 : (g'.tris.valid.map fun t => φ t.n0 t.n1 t.n2).sum =
        ((newTris c).map fun t => φ t.n0 t.n1 t.n2).sum + (g.tris.valid.map fun t => φ t.n0 t.n1 t.n2).sum -
          (c.triList.map (triVal φ g)).sum := by
      rw [← hsums]; abel
    rw [e1, e2]
    have := hchain
    rw [sub_eq_iff_eq_add] at this
    rw [this]; abel

/-- a finite history of cavity operations with boundary tris -/
inductive CavHistory2 : Grid α → Grid α → Prop
  | nil (g : Grid α) : CavHistory2 g g
  | cons {g g1 g2 : Grid α} : CavStep2 g g1 → CavHistory2 g1 g2 → CavHistory2 g g2

/-- **cavity_history_conforming_boundary.**  Any chain of accepted cavity replacements — tets AND boundary tris —
    preserves the signed boundary chain of the mesh including its boundary triangles, for every alternating `φ`
    vanishing on repeated nodes, into every abelian group.  In particular a conforming mesh (`meshBd φ = 0`) stays
    conforming. -/
theorem cavity_history_conforming_boundary {φ : Int → Int → Int → G} (hφ : Alt φ) (hd : Diag φ)
    (g g' : Grid α) (hok : GridOK g) (hist : CavHistory2 g g') :
    GridOK g' ∧ meshBd φ g' = meshBd φ g := by
  induction hist with
  | nil g => exact ⟨hok, rfl⟩
  | cons hstep _ ih =>
    obtain ⟨hok1, hm1⟩ := replace_mesh_conforming_boundary hφ hd _ _ hok hstep
    obtain ⟨hok2, hm2⟩ := ih hok1
    exact ⟨hok2, hm2.trans hm1⟩

/-- **replace_tris_ids**: after an accepted replacement every live boundary tri is an old one or carries the face id
    of a live seg of the cavity; no other face id appears. -/
theorem replace_tris_ids (g g' : Grid α) (c c' : Cav) (hinv : GridInv g) (h : replace g c = (.ok, c', g'))
    (hlt : ∀ cell ∈ c.tetList, ∃ t, g.tets.get? cell = some t)
    (hls : ∀ cell ∈ c.triList, ∃ t, g.tris.get? cell = some t) :
    ∀ t ∈ g'.tris.valid, t ∈ g.tris.valid ∨ ∃ s ∈ c.validSegs, t.id = s.id := by
  obtain ⟨_, rt, rs, _, _, _, ps, _⟩ := replace_grid_multiset g g' c c' hinv h hlt hls
  intro t ht
  have := ps.subset (List.mem_append_right _ ht)
  rcases List.mem_append.mp this with h1 | h1
  · obtain ⟨s, hs, hid, _⟩ := replace_ids_from_segs c t h1
    exact Or.inr ⟨s, hs, hid⟩
  · exact Or.inl h1

end Refine.Props.C01Cavity2
