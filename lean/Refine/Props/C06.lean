import Refine.Model.Dist
import Refine.Lemmas.Dist
import Refine.Lemmas.DistSync
import Refine.Lemmas.DistGhost

/-!
  C06 — distributed-mesh invariants at sync points.

  Theorems about the executable model `Refine.Model.Dist` (tied to `ref_node.c`, `ref_cell.c` by the `dist_fn`
  stream and to real `ref_part / ref_migrate / ref_adapt / ref_grid_pack` runs by the `dist_run` stream).

  Vocabulary (`Refine/Lemmas/Dist.lean`): `elim U g = g - #{u ∈ U ∣ u < g}`; `shiftId old off g` the fresh-id
  shift of one rank; `IdWorld` / `IdInv` the abstract pre-state of `ref_node_synchronize_globals` and the id
  invariant; `IdWorld.newId w r g = elim (all shifted unused) (shiftId old (off r) g)`.

  `sync_bijection` is the headline: the loop-by-loop world-level model `syncGlobals` equals the closed form on
  every world satisfying `SyncInv` (proof of the unrolling: `Refine/Lemmas/DistSync.lean`, using C17's
  `allgather_spec` / `allgatherv_spec` for the collectives), and the closed form is a monotone bijection onto
  `[0,N)` (`newId_bijection`).
-/
namespace Refine.Props.C06
open Refine.Model.Dist Refine.Model.NodeIds Refine.Lemmas.Dist Refine.Lemmas.DistSync

/-! ## global-id synchronisation -/

/-- `ref_node_eliminate_unused_offset` (the literal two-pointer walk): on a non-decreasing id list and a sorted
    unused list every id is lowered by the number of unused ids below it. -/
theorem eliminate_offset_spec (gs U : List Int) (hU : U.Pairwise (· ≤ ·)) (hg : gs.Pairwise (· ≤ ·)) :
    elimOffset gs U = gs.map (elim U) :=
  elimOffset_eq_map gs U hU hg

/-- elimination by active-part slices = elimination by the union: a rank's sorted ids `gs` offset by slice `A`
    and then by slice `B` (whose entries were themselves offset by `A` while waiting, as the loop of
    `ref_node_eliminate_unused_globals` does) equal one elimination by the sorted union of `A` and `B`. -/
theorem elim_slices (gs A B : List Int) (hA : A.Pairwise (· ≤ ·)) (hB : B.Pairwise (· ≤ ·))
    (hg : gs.Pairwise (· ≤ ·)) (hn : (A ++ B).Nodup) (hdis : ∀ g ∈ gs, g ∉ A ++ B) :
    elimOffset (elimOffset gs A) (elimOffset B A) = elimOffset gs (sortGlob (A ++ B)) :=
  elimOffset_slices gs A B hA hB hg hn hdis

example : elimOffset (elimOffset [1, 4, 6, 9] [0, 2]) (elimOffset [5, 7] [0, 2])
    = elimOffset [1, 4, 6, 9] (sortGlob ([0, 2] ++ [5, 7])) ∧
    elimOffset [1, 4, 6, 9] (sortGlob ([0, 2] ++ [5, 7])) = [0, 2, 3, 5] := by decide +kernel

/-- `ref_node_eliminate_active_parts` returns a non-empty slice inside the rank range (the slice loop terminates
    and never skips a rank) -/
theorem active_parts_progress (counts : List Int) (chunk : Int) (a0 : Nat) (h : a0 < counts.length) :
    a0 < (activeParts counts chunk a0).1 ∧ (activeParts counts chunk a0).1 ≤ counts.length :=
  activeParts_progress counts chunk a0 h

/-- Under the id invariant the map old id ↦ new id is strictly monotone on every rank, gives the same new id to a
    shared (old) id on every rank, orders fresh ids after shared ones and by rank, lands in `[0, N)` and is onto
    `[0, N)` where `N = old_n_global + Σ fresh − #unused` is the `n_global` every rank ends with. -/
theorem newId_bijection (w : IdWorld) (h : IdInv w) :
    (∀ r g g', g ∈ w.liveOf r → g' ∈ w.liveOf r → g < g' → w.newId r g < w.newId r g') ∧
    (∀ r q g, g < w.old → w.newId r g = w.newId q g) ∧
    (∀ r q g g', g ∈ w.liveOf r → g' ∈ w.liveOf q → g < w.old → w.old ≤ g' → w.newId r g < w.newId q g') ∧
    (∀ r q g g', r < q → g ∈ w.liveOf r → g' ∈ w.liveOf q → w.old ≤ g → w.old ≤ g' →
        w.newId r g < w.newId q g') ∧
    (∀ r g, g ∈ w.liveOf r → 0 ≤ w.newId r g ∧ w.newId r g < w.N) ∧
    (∀ k, 0 ≤ k → k < w.N → ∃ r g, g ∈ w.liveOf r ∧ w.newId r g = k) := by
  refine ⟨?_, ?_, ?_, ?_, ?_, ?_⟩
  · intro r g g' hg _ hlt
    exact elim_strictMono _ h.unused_nodup _ _ (h.live_not_unused r g hg)
      (shiftId_strictMono _ _ (off_nonneg w r) g g' hlt)
  · intro r q g hg
    unfold IdWorld.newId shiftId
    have : ¬ g ≥ w.old := by omega
    simp [this]
  · intro r q g g' hg _ hlo hhi
    apply elim_strictMono _ h.unused_nodup _ _ (h.live_not_unused r g hg)
    have := off_nonneg w q
    unfold shiftId
    have h1 : ¬ g ≥ w.old := by omega
    have h2 : g' ≥ w.old := hhi
    simp only [h1, h2, if_false, if_true]
    omega
  · intro r q g g' hrq hg hg' hlo hhi
    apply elim_strictMono _ h.unused_nodup _ _ (h.live_not_unused r g hg)
    exact shift_disjoint w.old w.kOf r q hrq g g' ⟨hlo, (h.live_range r g hg).2⟩ ⟨hhi, (h.live_range q g' hg').2⟩
  · intro r g hg
    have hr := shifted_range w h r g hg
    exact ⟨elim_nonneg _ h.unused_nodup (fun u hu => (h.unused_range u hu).1) _ hr.1,
           elim_lt _ w.M h.unused_nodup (fun u hu => (h.unused_range u hu).2) _ (h.live_not_unused r g hg) hr.2⟩
  · intro k hk0 hk
    have hM : 0 ≤ w.M := by
      have := h.old_nonneg
      unfold IdWorld.M; omega
    obtain ⟨x, hx0, hxM, hxU, hxk⟩ := elim_surj _ w.M hM h.unused_nodup h.unused_range k hk0 hk
    obtain ⟨r, g, hg, hgx⟩ := h.covered x hx0 hxM hxU
    exact ⟨r, g, hg, by unfold IdWorld.newId; rw [hgx]; exact hxk⟩

/-! non-vacuity: a 3-rank world (shared ids 0..5, rank 0 has 2 fresh ids, rank 2 has 1; ids 1 and 4 unused on
    rank 0, the second fresh id of rank 0 was returned to its unused list) -/
def exIdWorld : IdWorld :=
  { old := 6, k := [2, 0, 1], live := [[0, 2, 6], [2, 3, 5], [0, 5, 6]], unused := [[1, 4, 7], [], []] }

example : exIdWorld.shiftedUnused = [1, 4, 7] ∧ exIdWorld.N = 6 := by decide +kernel

theorem exIdInv : IdInv exIdWorld := by
  have hU : exIdWorld.shiftedUnused = [1, 4, 7] := by decide +kernel
  have hM : exIdWorld.M = 9 := by decide +kernel
  have hl : ∀ r, exIdWorld.liveOf r = [[0, 2, 6], [2, 3, 5], [0, 5, 6]].getD r [] := fun _ => rfl
  refine ⟨by decide, ?_, by rw [hU]; decide, ?_, ?_, ?_⟩
  · intro r g hg
    rw [hl] at hg
    match r with
    | 0 => simp at hg; rcases hg with rfl | rfl | rfl <;> decide
    | 1 => simp at hg; rcases hg with rfl | rfl | rfl <;> decide
    | 2 => simp at hg; rcases hg with rfl | rfl | rfl <;> decide
    | n + 3 => simp at hg
  · rw [hU, hM]; intro u hu; simp at hu; rcases hu with rfl | rfl | rfl <;> decide
  · intro r g hg
    rw [hl] at hg
    rw [hU]
    match r with
    | 0 => simp at hg; rcases hg with rfl | rfl | rfl <;> decide +kernel
    | 1 => simp at hg; rcases hg with rfl | rfl | rfl <;> decide +kernel
    | 2 => simp at hg; rcases hg with rfl | rfl | rfl <;> decide +kernel
    | n + 3 => simp at hg
  · rw [hU, hM]
    intro x h0 h9 hx
    simp at hx
    have : x = 0 ∨ x = 2 ∨ x = 3 ∨ x = 5 ∨ x = 6 ∨ x = 8 := by omega
    rcases this with rfl | rfl | rfl | rfl | rfl | rfl
    · exact ⟨0, 0, by decide, by decide +kernel⟩
    · exact ⟨0, 2, by decide, by decide +kernel⟩
    · exact ⟨1, 3, by decide, by decide +kernel⟩
    · exact ⟨1, 5, by decide, by decide +kernel⟩
    · exact ⟨0, 6, by decide, by decide +kernel⟩
    · exact ⟨2, 6, by decide, by decide +kernel⟩

/-- the literal world-level model on the same 3-rank world (per rank: `global[]`, the sorted pairs, the unused
    array): the tables it produces are the `newId` tables, `n_global = N = 6` and no unused ids remain -/
def mkIds (old new : Int) (glob : List Int) (sorted : List (Int × Nat)) (unused : List Int) : NodeIds :=
  { n := sorted.length, blank := -1, global := glob, part := [], sorted := sorted, unusedStk := unused.reverse,
    maxUnused := 0, oldN := old, newN := new }

def exWorld : List NodeIds :=
  [mkIds 6 8 [6, 0, 2] [(0, 1), (2, 2), (6, 0)] [1, 4, 7],
   mkIds 6 6 [2, 5, -1, 3] [(2, 0), (3, 3), (5, 1)] [],
   mkIds 6 7 [0, 5, 6] [(0, 0), (5, 1), (6, 2)] []]

example : (syncGlobals exWorld).map liveTable
      = [[(0, exIdWorld.newId 0 6), (1, exIdWorld.newId 0 0), (2, exIdWorld.newId 0 2)],
         [(0, exIdWorld.newId 1 2), (1, exIdWorld.newId 1 5), (3, exIdWorld.newId 1 3)],
         [(0, exIdWorld.newId 2 0), (1, exIdWorld.newId 2 5), (2, exIdWorld.newId 2 6)]]
    ∧ (syncGlobals exWorld).map (fun s => (s.oldN, s.newN, s.nUnused)) = [(6, 6, 0), (6, 6, 0), (6, 6, 0)]
    ∧ exIdWorld.N = 6 := by decide +kernel

/-- **sync_bijection** (C06 headline, full strength).  For every world of per-rank id states `w` satisfying
    `SyncInv old w` — every rank has `old_n_global = old ≤ new_n_global`, `sorted_global` is non-decreasing, and the
    abstraction `absWorld old w` (fresh-id counts, live ids, unused ids) satisfies the id invariant `IdInv` — the
    loop-by-loop model of `ref_node_synchronize_globals` (allgather of fresh counts, shift, sort, allgather of
    unused counts, slice loop with allgatherv and the two-pointer walks, write-back) ends on every rank `r` in the
    closed-form state `finalRank`: `sorted_global[i] = newId r (old sorted_global[i])`, no unused ids,
    `old_n_global = new_n_global = N`; and `newId` is strictly monotone on every rank, identical on every rank for
    a shared id, orders fresh ids after shared ones and by rank (so it is injective on vertices), lands in `[0,N)`
    and is onto `[0,N)`. -/
theorem sync_bijection (old : Int) (w : List NodeIds) (h : SyncInv old w) :
    syncGlobals w = w.mapIdx (fun r s => finalRank (absWorld old w) r s) ∧
    (∀ r g g', g ∈ (absWorld old w).liveOf r → g' ∈ (absWorld old w).liveOf r → g < g' →
        (absWorld old w).newId r g < (absWorld old w).newId r g') ∧
    (∀ r q g, g < old → (absWorld old w).newId r g = (absWorld old w).newId q g) ∧
    (∀ r q g g', g ∈ (absWorld old w).liveOf r → g' ∈ (absWorld old w).liveOf q → g < old → old ≤ g' →
        (absWorld old w).newId r g < (absWorld old w).newId q g') ∧
    (∀ r q g g', r < q → g ∈ (absWorld old w).liveOf r → g' ∈ (absWorld old w).liveOf q → old ≤ g → old ≤ g' →
        (absWorld old w).newId r g < (absWorld old w).newId q g') ∧
    (∀ r g, g ∈ (absWorld old w).liveOf r →
        0 ≤ (absWorld old w).newId r g ∧ (absWorld old w).newId r g < (absWorld old w).N) ∧
    (∀ k, 0 ≤ k → k < (absWorld old w).N →
        ∃ r g, g ∈ (absWorld old w).liveOf r ∧ (absWorld old w).newId r g = k) :=
  ⟨syncGlobals_eq old w h, newId_bijection (absWorld old w) h.inv⟩

/-- what the caller reads after the call: on rank `r` every live slot `l` (paired with its old id `g` in the
    sorted arrays, the slots of the sorted arrays being distinct and inside `global[]`) holds `newId r g`; the
    unused list is empty and both counters equal `N` -/
theorem sync_table (old : Int) (w : List NodeIds) (h : SyncInv old w) (r : Nat) (hr : r < w.length)
    (hnd : ((w[r]).sorted.map (·.2)).Nodup) (g : Int) (l : Nat) (hm : (g, l) ∈ (w[r]).sorted)
    (hl : l < (w[r]).global.length) :
    ((syncGlobals w)[r]'(by rw [syncGlobals_eq old w h]; simpa using hr)).global.getD l (-1)
        = (absWorld old w).newId r g ∧
    ((syncGlobals w)[r]'(by rw [syncGlobals_eq old w h]; simpa using hr)).unusedStk = [] ∧
    ((syncGlobals w)[r]'(by rw [syncGlobals_eq old w h]; simpa using hr)).oldN = (absWorld old w).N ∧
    ((syncGlobals w)[r]'(by rw [syncGlobals_eq old w h]; simpa using hr)).newN = (absWorld old w).N := by
  have heq := syncGlobals_eq old w h
  have hget : (syncGlobals w)[r]'(by rw [heq]; simpa using hr) = finalRank (absWorld old w) r (w[r]) := by
    simp only [heq, List.getElem_mapIdx]
  rw [hget]
  refine ⟨?_, rfl, rfl, rfl⟩
  unfold finalRank
  simp only []
  apply writeBack_getD
  · rw [List.map_map]; exact hnd
  · exact List.mem_map.mpr ⟨(g, l), hm, rfl⟩
  · simpa using hl

/-- non-vacuity: the 3-rank world `exWorld` above satisfies the hypotheses of `sync_bijection` -/
example : SyncInv 6 exWorld := by
  refine ⟨by decide, by decide, by decide, ?_⟩
  have : absWorld 6 exWorld = exIdWorld := rfl
  rw [this]
  exact exIdInv

/-! ## cell owner -/

theorem cellPartNodeGo_spec (gs : List Int) : ∀ (pre : List Int) (small : Int) (best : Nat),
    best < pre.length → pre.getD best 0 = small → (∀ x ∈ pre, small ≤ x) →
    cellPartNodeGo gs pre.length small best < (pre ++ gs).length ∧
    ∀ x ∈ pre ++ gs, (pre ++ gs).getD (cellPartNodeGo gs pre.length small best) 0 ≤ x := by
  induction gs with
  | nil =>
    intro pre small best hb hs hmin
    simp only [cellPartNodeGo, List.append_nil]
    exact ⟨hb, fun x hx => by rw [hs]; exact hmin x hx⟩
  | cons g gs ih =>
    intro pre small best hb hs hmin
    have hlen : (pre ++ [g]).length = pre.length + 1 := by simp
    have happ : pre ++ g :: gs = (pre ++ [g]) ++ gs := by simp
    unfold cellPartNodeGo
    split
    · rename_i hlt
      have := ih (pre ++ [g]) g pre.length (by simp) (by simp [List.getD_eq_getElem?_getD])
        (by intro x hx; rcases List.mem_append.mp hx with hx | hx
            · have := hmin x hx; omega
            · simp at hx; omega)
      rw [hlen] at this; rw [happ]; exact this
    · rename_i hge
      have := ih (pre ++ [g]) small best (by simp; omega)
        (by rw [List.getD_eq_getElem?_getD, List.getElem?_append_left hb, ← List.getD_eq_getElem?_getD]; exact hs)
        (by intro x hx; rcases List.mem_append.mp hx with hx | hx
            · exact hmin x hx
            · simp at hx; omega)
      rw [hlen] at this; rw [happ]; exact this

/-- `ref_cell_part_cell_node` picks a vertex of the cell whose global id is the smallest -/
theorem cellPartNode_min (gs : List Int) (hne : gs ≠ []) :
    cellPartNode gs < gs.length ∧ ∀ x ∈ gs, gs.getD (cellPartNode gs) 0 ≤ x := by
  match gs, hne with
  | g :: rest, _ =>
    have := cellPartNodeGo_spec rest [g] g 0 (by simp) (by simp) (by simp)
    simpa [cellPartNode] using this

/-- `cellOwner` well-defined: the owner of a cell is the `part` of one of its vertices, that vertex has the
    smallest global id of the cell, and nothing else enters — so (next theorem) every rank that stores the
    cell computes the same owner: exactly one owner. -/
theorem cellOwner_unique (verts : List (Int × Int)) (hne : verts ≠ []) :
    ∃ v ∈ verts, cellOwner verts = v.2 ∧ ∀ u ∈ verts, v.1 ≤ u.1 := by
  have hne' : verts.map (·.1) ≠ [] := by simpa using hne
  obtain ⟨hlt, hmin⟩ := cellPartNode_min (verts.map (·.1)) hne'
  rw [List.length_map] at hlt
  refine ⟨verts[cellPartNode (verts.map (·.1))], List.getElem_mem hlt, ?_, ?_⟩
  · unfold cellOwner
    rw [List.getD_eq_getElem?_getD, List.getElem?_eq_getElem hlt]; rfl
  · intro u hu
    have := hmin u.1 (List.mem_map_of_mem hu)
    rw [List.getD_eq_getElem?_getD, List.getElem?_eq_getElem (by simpa using hlt)] at this
    simpa using this

/-- two ranks that agree on the `part` of the cell's vertices (clause (i) of `distInv`) compute the same owner -/
theorem cellOwner_agree (s t : RankState) (c : DCell) (h : ∀ g ∈ c.nodes, s.partOf g = t.partOf g) :
    s.ownerOf c = t.ownerOf c := by
  unfold RankState.ownerOf RankState.cellVerts
  congr 1
  apply List.map_congr_left
  intro g hg
  rw [h g hg]

example : cellOwner [(7, 0), (3, 2), (9, 1), (5, 1)] = 2 ∧ cellPartNode [7, 3, 9, 5] = 1 := by decide

/-! ## ghost refresh

  FULL STATEMENT (`ghostRefresh_spec`, NOT proved): for every world `w` of at least two ranks in which every rank
  lists each global once, every ghost entry's `part` is a rank that holds that global with `ldim` values, and the
  bucket sizes fit an `int`: `ghost ty ldim w = some w'` with
  `w'[r] = w[r].map fun nd => if nd.part = r then nd else { nd with vals := the vals of nd.glob on rank nd.part }`.
  PROVED: the store loop at the end of `ref_node_ghost_*` (`ghostRefresh_spec_partial`): the literal
  `foldl storeVals` over the received `(global, values)` pairs gives every named entry exactly the received values
  and leaves every other entry — all owned ones — unchanged.
  MISSING: that the `alltoall` of bucket sizes and the two `alltoallv` calls hand rank `r` exactly the pairs
  `(g, values of g on its owner)` of its ghosts (to be derived from `C17.alltoallv_spec`); that part is tied by the
  `dist_fn` ghost ops (diff + python oracle) and by clause (iv) of `distInv` on every dumped state after
  `ref_node_ghost_real`. -/
theorem ghostRefresh_spec_partial {β : Type} (ps : List (Int × List β)) (nodes : List (GNode β))
    (hnd : (nodes.map (·.glob)).Nodup) (hps : (ps.map (·.1)).Nodup) :
    ps.foldl (fun ns gi => storeVals ns gi.1 gi.2) nodes
      = nodes.map fun nd => match ps.find? (fun gv => gv.1 == nd.glob) with
          | some gv => { nd with vals := gv.2 }
          | none => nd :=
  Refine.Lemmas.DistGhost.foldl_storeVals ps nodes hnd hps

example : [(4, [40, 41]), (7, [70, 71])].foldl (fun ns gi => storeVals ns gi.1 gi.2)
      [(⟨1, 0, [10, 11]⟩ : GNode Int), ⟨4, 1, [0, 0]⟩, ⟨7, 2, [0, 0]⟩]
    = [⟨1, 0, [10, 11]⟩, ⟨4, 1, [40, 41]⟩, ⟨7, 2, [70, 71]⟩] := by decide +kernel

/-- the literal model of `ref_node_ghost_int` (alltoall of the bucket sizes, alltoallv of the requested globals,
    reply alltoallv, store) on a concrete 3-rank world: afterwards every ghost entry equals the owner's entry and the
    owned entries are unchanged -/
example : ghost Refine.Model.Comm.RefType.int 2
    [[⟨1, 0, [10, 11]⟩, ⟨4, 1, [0, 0]⟩, ⟨7, 2, [0, 0]⟩], [⟨4, 1, [40, 41]⟩, ⟨1, 0, [5, 5]⟩],
     [⟨7, 2, [70, 71]⟩, ⟨4, 1, [9, 9]⟩]]
  = some [[⟨1, 0, [10, 11]⟩, ⟨4, 1, [40, 41]⟩, ⟨7, 2, [70, 71]⟩], [⟨4, 1, [40, 41]⟩, ⟨1, 0, [10, 11]⟩],
          [⟨7, 2, [70, 71]⟩, ⟨4, 1, [40, 41]⟩]] := by decide +kernel

/-! ## counts -/

theorem nodupB_nodup {α : Type} [DecidableEq α] : ∀ (l : List α), nodupB l = true → l.Nodup := by
  intro l
  induction l with
  | nil => intro _; exact List.nodup_nil
  | cons x xs ih =>
    intro h
    simp only [nodupB, Bool.and_eq_true, Bool.not_eq_true', List.contains_eq_mem, decide_eq_false_iff_not] at h
    exact List.nodup_cons.mpr ⟨h.1, ih h.2⟩

/-- **counts_sum**: in every world satisfying `distInv` the owned vertices of the ranks, summed, are pairwise
    distinct global ids, the cells attributed to each rank by `cellOwner`, summed, are pairwise distinct and as
    many as there are distinct cells; and once the ids are synchronised the summed owned-vertex count equals
    `n_global` on every rank and the owned ids are exactly `0 … n_global-1`. -/
theorem counts_sum (w : List RankState) (h : distInv w = true) :
    (w.zipIdx.map fun sr => (sr.1.ownedNodes sr.2).length).sum = (ownedGlobals w).length ∧
    (ownedGlobals w).Nodup ∧
    (w.zipIdx.map fun sr => (sr.1.ownedCells sr.2).length).sum = (allCells w).length ∧
    (ownedCellsAll w).Nodup ∧
    (synced w = true →
      (∀ s ∈ w, s.newN = ((w.zipIdx.map fun sr => (sr.1.ownedNodes sr.2).length).sum : Nat)) ∧
      sortGlob (ownedGlobals w) = (List.range (ownedGlobals w).length).map fun (i : Nat) => (i : Int)) := by
  have hc : clauseCounts w = true := by
    unfold distInv at h
    simp only [Bool.and_eq_true] at h
    exact h.2
  unfold clauseCounts at hc
  simp only [Bool.and_eq_true, Bool.or_eq_true, Bool.not_eq_true', beq_iff_eq, List.all_eq_true] at hc
  obtain ⟨⟨⟨hn1, hn2⟩, hlen⟩, hsync⟩ := hc
  have hsum1 : (w.zipIdx.map fun sr => (sr.1.ownedNodes sr.2).length).sum = (ownedGlobals w).length := by
    simp only [ownedGlobals, List.length_flatten, List.map_map]
    congr 1; apply List.map_congr_left; intro sr _; simp
  have hsum2 : (w.zipIdx.map fun sr => (sr.1.ownedCells sr.2).length).sum = (ownedCellsAll w).length := by
    simp only [ownedCellsAll, List.length_flatten, List.map_map]
    congr 1
  refine ⟨hsum1, nodupB_nodup _ hn1, by rw [hsum2, hlen], nodupB_nodup _ hn2, ?_⟩
  intro hs
  rcases hsync with hns | hsy
  · rw [hs] at hns; exact absurd hns (by simp)
  · refine ⟨?_, hsy.2⟩
    intro s hsm
    rw [hsum1]
    exact hsy.1 s hsm

/-- non-vacuity: a 2-rank world (two tets sharing a face, vertices 0,1 owned by rank 0 and 2,3,4 by rank 1, both tets
    stored on both ranks; a boundary triangle touching only rank 1's vertices is stored there only) satisfies `distInv` and is synchronised -/
def exDist : List RankState :=
  [{ nodes := [⟨0, 0, [10]⟩, ⟨1, 0, [11]⟩, ⟨2, 1, [12]⟩, ⟨3, 1, [13]⟩, ⟨4, 1, [14]⟩],
     cells := [⟨8, [0, 1, 2, 3], 0⟩, ⟨8, [1, 2, 4, 3], 0⟩], oldN := 5, newN := 5, nUnused := 0 },
   { nodes := [⟨2, 1, [12]⟩, ⟨3, 1, [13]⟩, ⟨4, 1, [14]⟩, ⟨0, 0, [10]⟩, ⟨1, 0, [11]⟩],
     cells := [⟨8, [0, 1, 2, 3], 0⟩, ⟨8, [1, 2, 4, 3], 0⟩, ⟨3, [2, 3, 4], 7⟩], oldN := 5, newN := 5, nUnused := 0 }]

example : distInv exDist = true ∧ synced exDist = true ∧ (ownedGlobals exDist).length = 5 ∧
    (allCells exDist).length = 3 := by decide +kernel

end Refine.Props.C06
