import Refine.Model.Dist

namespace Refine.Props.C06
open Refine.Model.Dist

/-- placeholder, replaced below -/
theorem cellPartNode_nil : cellPartNode [] = 0 := rfl

end Refine.Props.C06
