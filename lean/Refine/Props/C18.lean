import Refine.Props.C12
import Refine.Props.C14

/-!
  C18 — reproducibility: the part of "same inputs ⇒ same output" that is logic.

  refine's only source of randomness is the never-seeded libc `rand()` stream, consumed by
  `ref_sort_shuffle` (the insertion order of the wall-distance / interpolation search trees) and by the
  RCB partitioner.  Reproducibility of a run therefore has three ingredients:

  (1) the results that consume the `rand()` stream do not depend on it — proved here for the wall
      distance: for ANY two insertion orders of the same wall elements the tree search returns the same
      value (`wallDistance_tri_order_independent`, `wallDistance_seg_order_independent`), and
      `ref_sort_shuffle` returns a permutation whatever `rand()` returns (`shuffle_any_rand_same_elements`);
  (2) message passing is a function of the data, not of arrival order — C17's theorems (every primitive
      equals its sequential specification for every rank count) plus the generated side condition that no
      wildcard receive exists in the sources (`Refine.Gen.SideConds`, obligation in Props/C04);
  (3) no result depends on uninitialised memory — NOT expressible in a pure model: a Lean function has no
      heap.  This part is only exercised (repeated CLI runs under different `MALLOC_PERTURB_` fill bytes and
      address-space layouts must produce byte-identical files: stream `cli_repro`), never proved.

  The theorems are stated in exact real arithmetic over the executable search model that the `search_*`
  streams compare bit-for-bit with the C (`Float` instance).
-/
namespace Refine.Props.C18
open Refine Refine.Model.Geom Refine.Model.Search Refine.ScalarReal Refine.Lemmas.Search
open Refine.Model.Sort

/-- a value that is a lower bound of `d0` and of every candidate and is attained by one of them is
    determined by the SET of candidates -/
theorem min_char_unique {ι : Type} (f : ι → ℝ) (l1 l2 : List ι) (d0 v1 v2 : ℝ)
    (hmem : ∀ c, c ∈ l1 ↔ c ∈ l2)
    (h1a : v1 ≤ d0) (h1b : ∀ c ∈ l1, v1 ≤ f c) (h1c : v1 = d0 ∨ ∃ c ∈ l1, v1 = f c)
    (h2a : v2 ≤ d0) (h2b : ∀ c ∈ l2, v2 ≤ f c) (h2c : v2 = d0 ∨ ∃ c ∈ l2, v2 = f c) :
    v1 = v2 := by
  apply le_antisymm
  · rcases h2c with h | ⟨c, hc, h⟩
    · rw [h]; exact h1a
    · rw [h]; exact h1b c ((hmem c).2 hc)
  · rcases h1c with h | ⟨c, hc, h⟩
    · rw [h]; exact h2a
    · rw [h]; exact h2b c ((hmem c).1 hc)

/-- **wall distance does not depend on the insertion order of the search tree (3-D walls)**: build the
    tree from the same wall triangles in two different orders (two different `rand()` streams fed to
    `ref_sort_shuffle`); every query returns the same distance. -/
theorem wallDistance_tri_order_independent (ncell : Int) (tris : Int → V3 ℝ × V3 ℝ × V3 ℝ)
    (perm1 perm2 : List Int) (hp : perm1.Perm perm2) (s1 s2 : Search ℝ)
    (hw1 : wallBuild ncell (fun c => [(tris c).1, (tris c).2.1, (tris c).2.2]) perm1 = (.ok, some s1))
    (hw2 : wallBuild ncell (fun c => [(tris c).1, (tris c).2.1, (tris c).2.2]) perm2 = (.ok, some s2))
    (x : V3 ℝ) (d0 : ℝ) :
    s1.nearestTri tris x d0 = s2.nearestTri tris x d0 := by
  obtain ⟨a1, b1, c1⟩ := Refine.Props.C12.wallDistance_tri_exact ncell tris perm1 s1 hw1 x d0
  obtain ⟨a2, b2, c2⟩ := Refine.Props.C12.wallDistance_tri_exact ncell tris perm2 s2 hw2 x d0
  exact min_char_unique (fun c => dist2tri (tris c).1 (tris c).2.1 (tris c).2.2 x) perm1 perm2 d0 _ _
    (fun c => hp.mem_iff) a1 b1 c1 a2 b2 c2

/-- the same for 2-D walls (boundary segments) -/
theorem wallDistance_seg_order_independent (ncell : Int) (segs : Int → V3 ℝ × V3 ℝ)
    (perm1 perm2 : List Int) (hp : perm1.Perm perm2) (s1 s2 : Search ℝ)
    (hw1 : wallBuild ncell (fun c => [(segs c).1, (segs c).2]) perm1 = (.ok, some s1))
    (hw2 : wallBuild ncell (fun c => [(segs c).1, (segs c).2]) perm2 = (.ok, some s2))
    (x : V3 ℝ) (d0 : ℝ) :
    s1.nearestSeg segs x d0 = s2.nearestSeg segs x d0 := by
  obtain ⟨a1, b1, c1⟩ := Refine.Props.C12.wallDistance_seg_exact ncell segs perm1 s1 hw1 x d0
  obtain ⟨a2, b2, c2⟩ := Refine.Props.C12.wallDistance_seg_exact ncell segs perm2 s2 hw2 x d0
  exact min_char_unique (fun c => dist2seg (segs c).1 (segs c).2 x) perm1 perm2 d0 _ _
    (fun c => hp.mem_iff) a1 b1 c1 a2 b2 c2

/-- `ref_sort_shuffle` under two different `rand()` streams: the two orders are permutations of each
    other (so the hypothesis `perm1.Perm perm2` above is met by whatever `rand()` returns) -/
theorem shuffle_any_rand_same_elements (n : Nat) (rands1 rands2 : List Nat) :
    (shuffle n rands1).Perm (shuffle n rands2) :=
  (Refine.Props.C14.shuffle_is_perm n rands1).trans (Refine.Props.C14.shuffle_is_perm n rands2).symm

/-- non-vacuity: two different `rand()` streams do give two different insertion orders -/
example : shuffle 5 [3, 7, 100, 2] ≠ shuffle 5 [1, 1, 1, 1] := by decide

end Refine.Props.C18
