import Refine.Lemmas.SolbRoundtrip

/-!
  C09 — solution and metric files (`.solb`) keep values, order and layout.

  Model: `Refine/Model/Solb.lean` — `encodeSolb`/`encodeMetricSolb` = `ref_gather_node_scalar_solb` /
  `ref_gather_node_metric_solb` (one rank), `decodeSolb`/`decodeMetricSolb` = `ref_part_scalar_solb` /
  `ref_part_metric_solb`; tied by the streams `solb_write` and `solb_read` (values are position-tagged bit
  patterns, so any permutation of vertices or components shows).  Row `g` of the file belongs to the vertex
  with global id `g`; the driver applies the local ↔ global map of the op, the model is about the file.
-/
namespace Refine.Props.C09
open Refine.Model.Meshb Refine.Model.Solb Refine.Lemmas.Codec Refine.Gen

/-- **scalar/vector fields, every `ldim`**: reading what the writer wrote gives back `ldim` and every value
    bit for bit, in vertex order, for meshb versions 2, 3, 4, in 2-D and 3-D -/
theorem roundtrip_solb (v : Nat) (s : SolFile) (ok : SolOK Cfg.faithful v s) :
    decodeSolb s.rows.length (encodeSolb v s) = .ok (s.ldim, s.rows) :=
  roundtrip_solb_with ok

/-- also with the C20 count check added to the reader -/
theorem roundtrip_solb_fixed (v : Nat) (s : SolFile) (ok : SolOK Cfg.fixed v s) :
    decodeSolbFixed s.rows.length (encodeSolb v s) = .ok (s.ldim, s.rows) :=
  roundtrip_solb_with ok

/-- **metric tensors**: the six (3-D) or three (2-D) stored components come back in the slots they were
    taken from -/
theorem roundtrip_metric (v : Nat) (twod : Bool) (ms : List (List UInt64)) (ok : MetricOK Cfg.faithful v twod ms) :
    decodeMetricSolb ms.length (encodeMetricSolb v twod ms) = .ok ms :=
  roundtrip_metric_with ok

/-- the slot permutation between memory (m11,m12,m13,m22,m23,m33) and file is an involution, and the
    reader uses the same table as the writer (both translated from the C) -/
theorem metricOrder_involutive :
    MetricOrder.write3.map (fun k => MetricOrder.write3.getD k 0) = [0, 1, 2, 3, 4, 5] ∧
    MetricOrder.read3 = MetricOrder.write3 ∧ MetricOrder.read2 = MetricOrder.write2 := by decide

/-- the file order is libMeshb's symmetric-matrix order (xx,xy,yy,xz,yz,zz) resp. (xx,xy,yy):
    with memory slots named (m11,m12,m13,m22,m23,m33) = (xx,xy,xz,yy,yz,zz) -/
theorem metricOrder_is_libmeshb :
    MetricOrder.write3.map (fun k => ["xx", "xy", "xz", "yy", "yz", "zz"].getD k "") =
      ["xx", "xy", "yy", "xz", "yz", "zz"] ∧
    MetricOrder.write2.map (fun k => ["xx", "xy", "xz", "yy", "yz", "zz"].getD k "") = ["xx", "xy", "yy"] ∧
    MetricOrder.fill2 = [(2, false), (4, false), (5, true)] := by decide

/-- on values: file position k of a 3-D metric holds … -/
theorem metric_file_layout (a b c d e f : UInt64) :
    metricToFile false [a, b, c, d, e, f] = [a, b, d, c, e, f] ∧
    metricToFile true [a, b, c, d, e, f] = [a, b, d] ∧
    metricFromFile false [a, b, d, c, e, f] = [a, b, c, d, e, f] ∧
    metricFromFile true [a, b, d] = [a, b, 0, d, 0, 0x3ff0000000000000] := by
  refine ⟨rfl, rfl, ?_, ?_⟩ <;>
    simp [metricFromFile, MetricOrder.read3, MetricOrder.read2, MetricOrder.fill2, List.idxOf?, List.findIdx?,
      List.range, List.range.loop, List.findIdx?.go]

/-! ### non-vacuity -/

def sampleField : SolFile :=
  { twod := false, ldim := 3,
    rows := [[0x3ff0000000000000, 0x4000000000000000, 0x4008000000000000],
             [0x4010000000000000, 0x7ff0000000000000, 0x8000000000000000]] }

example : SolOK Cfg.faithful 2 sampleField ∧ SolOK Cfg.fixed 4 sampleField := by
  refine ⟨?_, ?_⟩ <;>
  exact { version := by decide, rows_len := by decide, count_lt := by decide, ldim_lt := by decide,
          prod_lt := by decide, cap := by decide, size_fits := by unfold posFits; decide +kernel }

def sampleMetric : List (List UInt64) :=
  [[0x3ff0000000000000, 0x3fb999999999999a, 0, 0x4000000000000000, 0, 0x3ff0000000000000]]

example : MetricOK Cfg.faithful 3 true sampleMetric ∧ MetricOK Cfg.faithful 3 false sampleMetric := by
  refine ⟨?_, ?_⟩ <;>
  exact { version := by decide, len6 := by decide, twod_fill := by decide, count_lt := by decide,
          cap := by decide, size_fits := by unfold posFits; decide +kernel }

example : decodeSolb 2 (encodeSolb 3 sampleField) = .ok (3, sampleField.rows) := by decide +kernel

end Refine.Props.C09
