import Refine.Lemmas.MetricScale
import Refine.Lemmas.MetricSpd
import Refine.Lemmas.MetricRank
import Mathlib.Analysis.SpecialFunctions.Pow.Real

/-!
  C10 — the multiscale metric is well formed and meets the requested complexity.

  All theorems are about the executable model `Refine/Model/Metric.lean` (bit-compared with the C through
  `refdrv metric` / `harness/h_metric.c`) instantiated at the lawful real instance: they hold in exact
  arithmetic; rounding is modelled (the `Float` instance), not verified.

  (a) `setComplexity_exact`: the coded rescale `m ← m · (target/current)^(2/3)` (exponent 1 and the re-imposed
      embedding in 2-D) yields a field whose coded complexity integral is *exactly* `target`, for any mesh,
      any ownership mask, any metric field — the `det > 0` filter and the `ref_math_divisible` guards of
      `ref_matrix_det_m` included (they are invariant under positive scaling).  The same block ends
      `ref_metric_gradation_at_complexity`, so whatever the 20 relaxation sweeps do, the final field meets the
      target (`gradation_final_rescale_exact`).
  (b) SPD is preserved stage by stage: positive scaling, Lp normalisation, the eigenvalue floor, the
      aspect-ratio limit, the 2-D embedding; `ref_matrix_intersect` (gradation) is `Props/C16.intersect_spd`.
  (c) the sum over ranks of the owned-vertex quadratures is the serial integral (`complexity_rank_sum`).
-/
namespace Refine.Props.C10
open Refine Refine.Scalar Refine.ScalarReal Refine.Model.Matrix Refine.Model.Metric
open Refine.Model.Recon (Cell CellKind Tet Tri)
open Refine.Model.Geom (V3)

/-! ### (a) the complexity identity -/

/-- positive homogeneity, 3-D: scaling every vertex metric by `s > 0` multiplies the coded complexity integral
    by `s^(3/2)` (= `sqrt(s³)`), for any mesh and any field -/
theorem complexity_homogeneous3 (owned : Nat → Bool) (xyz : List (V3 ℝ)) (metric : List (M6 ℝ)) (cells : List Cell)
    (s : ℝ) (hs : 0 < s) :
    complexity owned xyz (metric.map (rescaleNode false s)) cells =
      Real.sqrt (s ^ 3) * complexity owned xyz metric cells :=
  complexity_map _ _ owned xyz metric (scalesDensity_rescale3 metric s hs) cells

/-- positive homogeneity, 2-D: scaling the 2x2 blocks of an embedded field by `s > 0` (embedding re-imposed)
    multiplies the coded complexity integral by `s` -/
theorem complexity_homogeneous2 (owned : Nat → Bool) (xyz : List (V3 ℝ)) (metric : List (M6 ℝ)) (cells : List Cell)
    (s : ℝ) (hs : 0 < s) (hemb : ∀ m ∈ metric, IsEmbedded m) :
    complexity owned xyz (metric.map (rescaleNode true s)) cells = s * complexity owned xyz metric cells :=
  complexity_map _ _ owned xyz metric (fun m hm => density_rescale2 s hs m (hemb m hm)) cells

/-- what a successful `ref_metric_set_complexity` returns -/
theorem setComplexity_out {twod : Bool} {owned : Nat → Bool} {xyz : List (V3 ℝ)} {metric out : List (M6 ℝ)}
    {cells : List Cell} {target : ℝ} (h : setComplexity twod owned xyz metric cells target = .ok out) :
    out = metric.map (rescaleNode twod
      ((target / complexity owned xyz metric cells) ^ (complexityScale twod : ℝ))) := by
  unfold setComplexity at h
  dsimp only at h
  split_ifs at h
  injection h with h
  rw [← h]
  simp only [div_eq, pow_eq]

/-- **the complexity identity.**  A successful `ref_metric_set_complexity` returns a field whose complexity
    (the same coded integral) equals the target exactly.  Hypotheses: the current complexity and the target are
    positive; in 2-D the input field is embedded (the C re-imposes the embedding after every stage); the
    exponent matches the quadrature (`twod` grids integrate areas, 3-D grids volumes: `hdim`). -/
theorem setComplexity_exact (twod : Bool) (owned : Nat → Bool) (xyz : List (V3 ℝ)) (metric out : List (M6 ℝ))
    (cells : List Cell) (target : ℝ)
    (h : setComplexity twod owned xyz metric cells target = .ok out)
    (hc : 0 < complexity owned xyz metric cells) (ht : 0 < target)
    (hdim : twod = !(haveVolCells owned cells))
    (hemb : twod = true → ∀ m ∈ metric, IsEmbedded m) :
    complexity owned xyz out cells = target := by
  rw [setComplexity_out h]
  set cur := complexity owned xyz metric cells with hcur
  have hr : 0 < target / cur := div_pos ht hc
  cases twod with
  | true =>
    have hs : (0 : ℝ) < (target / cur) ^ (complexityScale true : ℝ) := Real.rpow_pos_of_pos hr _
    rw [complexity_homogeneous2 owned xyz metric cells _ hs (hemb rfl)]
    have : (complexityScale true : ℝ) = 1 := by simp [complexityScale]
    rw [this, Real.rpow_one, ← hcur]
    field_simp
  | false =>
    have hs : (0 : ℝ) < (target / cur) ^ (complexityScale false : ℝ) := Real.rpow_pos_of_pos hr _
    rw [complexity_homogeneous3 owned xyz metric cells _ hs]
    have he : (complexityScale false : ℝ) = 2 / 3 := by
      simp [complexityScale]
    rw [he]
    have h3 : ((target / cur) ^ ((2 : ℝ) / 3)) ^ 3 = (target / cur) ^ 2 := by
      rw [← Real.rpow_natCast, ← Real.rpow_mul hr.le]
      norm_num
    rw [h3, Real.sqrt_sq hr.le, ← hcur]
    field_simp

/-- the error branch is exactly the `ref_math_divisible` guard: `div_zero` iff `target/current` is not divisible -/
theorem setComplexity_div_zero (twod : Bool) (owned : Nat → Bool) (xyz : List (V3 ℝ)) (metric : List (M6 ℝ))
    (cells : List Cell) (target : ℝ) :
    (∃ out, setComplexity twod owned xyz metric cells target = .ok out) ∨
    (setComplexity twod owned xyz metric cells target = .error .div_zero ∧
      Scalar.divisible target (complexity owned xyz metric cells) = false) := by
  unfold setComplexity
  by_cases hg : Scalar.divisible target (complexity owned xyz metric cells) = true
  · left; simp [hg]
  · right; simp at hg; simp [hg]

/-- a positive current complexity with a positive target below `1e20 · current` always succeeds -/
theorem setComplexity_ok (twod : Bool) (owned : Nat → Bool) (xyz : List (V3 ℝ)) (metric : List (M6 ℝ))
    (cells : List Cell) (target : ℝ) (hc : 0 < complexity owned xyz metric cells) (ht : 0 < target)
    (hlt : target < 10 ^ 20 * complexity owned xyz metric cells) :
    ∃ out, setComplexity twod owned xyz metric cells target = .ok out := by
  rcases setComplexity_div_zero twod owned xyz metric cells target with h | ⟨_, hg⟩
  · exact h
  · exfalso
    rw [Bool.eq_false_iff] at hg
    apply hg
    rw [divisible_iff, abs_of_pos ht, abs_of_pos (by positivity)]
    have : (1 : ℝ) * (10 : ℝ) ^ (20 : ℤ) = 10 ^ 20 := by norm_num
    rw [this]; exact hlt

/-- the block that ends `ref_metric_gradation_at_complexity` is `setComplexity`: whatever field `g` the 20
    relaxation sweeps produced (SPD-ness of `g` is (b)), the returned field meets the target exactly -/
theorem gradation_final_rescale_exact (twod : Bool) (owned : Nat → Bool) (xyz : List (V3 ℝ)) (g out : List (M6 ℝ))
    (cells : List Cell) (target : ℝ)
    (h : setComplexity twod owned xyz g cells target = .ok out)
    (hc : 0 < complexity owned xyz g cells) (ht : 0 < target)
    (hdim : twod = !(haveVolCells owned cells))
    (hemb : twod = true → ∀ m ∈ g, IsEmbedded m) :
    complexity owned xyz out cells = target ∧ (twod = true → ∀ m ∈ out, IsEmbedded m) := by
  refine ⟨setComplexity_exact twod owned xyz g out cells target h hc ht hdim hemb, ?_⟩
  intro htw m hm
  rw [setComplexity_out h, List.mem_map] at hm
  obtain ⟨m0, _, rfl⟩ := hm
  subst htw
  exact rescaleNode_true_embedded _ _

/-! ### (b) positive definiteness, stage by stage (`SPD m` : `xᵀ m x > 0` for all `x ≠ 0`) -/

/-- scaling by a positive factor keeps SPD -/
theorem scale_spd {m : M6 ℝ} {s : ℝ} (hs : 0 < s) (h : SPD m) : SPD (scaleM m s) := scaleM_spd hs h

/-- the planar embedding `m13 = m23 = 0, m33 = 1` of a tensor with a positive definite 2x2 block is SPD and
    embedded -/
theorem embed2d_spd {m : M6 ℝ} (h : ∀ x y : ℝ, (x ≠ 0 ∨ y ≠ 0) → 0 < vtMv m ⟨x, y, 0⟩) :
    SPD (embed2d m) ∧ IsEmbedded (embed2d m) := ⟨twodM_spd_of_block h, twodM_embedded m⟩

/-- every stage that ends with the embedding block leaves embedded tensors (`m13 = m23 = 0`, `m33 = 1` exactly) -/
theorem rescale_embedded (s : ℝ) (m : M6 ℝ) : IsEmbedded (rescaleNode true s m) := rescaleNode_true_embedded s m

/-- `ref_metric_set_complexity` keeps every vertex tensor SPD (3-D and 2-D) -/
theorem setComplexity_spd (twod : Bool) (owned : Nat → Bool) (xyz : List (V3 ℝ)) (metric out : List (M6 ℝ))
    (cells : List Cell) (target : ℝ)
    (h : setComplexity twod owned xyz metric cells target = .ok out)
    (hc : 0 < complexity owned xyz metric cells) (ht : 0 < target) (hspd : ∀ m ∈ metric, SPD m) :
    ∀ m ∈ out, SPD m := by
  intro m hm
  rw [setComplexity_out h, List.mem_map] at hm
  obtain ⟨m0, hm0, rfl⟩ := hm
  exact rescaleNode_spd twod (Real.rpow_pos_of_pos (div_pos ht hc) _) (hspd m0 hm0)

/-- `ref_metric_local_scale` (Lp normalisation) keeps every vertex tensor SPD, for every norm power -/
theorem localScale_spd (twod : Bool) (p : Int) (metric : List (M6 ℝ)) (hspd : ∀ m ∈ metric, SPD m) :
    ∀ m ∈ localScale twod p metric, SPD m := by
  intro m hm
  unfold localScale at hm
  cases twod
  · simp only [Bool.false_eq_true, if_false, List.mem_map] at hm
    obtain ⟨m0, hm0, rfl⟩ := hm
    exact localScaleNode_spd _ (hspd m0 hm0)
  · simp only [if_true, List.mem_map] at hm
    obtain ⟨m1, ⟨m2, ⟨m3, hm3, rfl⟩, rfl⟩, rfl⟩ := hm
    exact twodM_spd (localScaleNode_spd _ (twodM_spd (hspd m3 hm3)))

/-- in 2-D the Lp normalisation returns embedded tensors -/
theorem localScale_embedded (p : Int) (metric : List (M6 ℝ)) : ∀ m ∈ localScale true p metric, IsEmbedded m := by
  intro m hm
  unfold localScale at hm
  simp only [if_true, List.mem_map] at hm
  obtain ⟨m1, _, rfl⟩ := hm
  exact twodM_embedded m1

/-- eigenvalue floor of `ref_recon_roundoff_limit`, one vertex: SPD whatever the reconstructed Hessian was
    (indefinite, singular, zero) — needs only the proved orthonormality of `ref_matrix_diag_m`'s frame -/
theorem roundoffNode_spd {radius : ℝ} {m out : M6 ℝ} (h : roundoffNode radius m = .ok out) : SPD out :=
  Refine.Model.Metric.roundoffNode_spd h

theorem roundoffLimit_go_spd (rs : List ℝ) (ms out : List (M6 ℝ)) (h : roundoffLimit.go rs ms = .ok out) :
    ∀ m ∈ out, SPD m := by
  induction rs generalizing ms out with
  | nil =>
    unfold roundoffLimit.go at h
    injection h with h; subst h; intro m hm; cases hm
  | cons r rs ih =>
    cases ms with
    | nil => unfold roundoffLimit.go at h; injection h with h; subst h; intro m hm; cases hm
    | cons m0 ms =>
      unfold roundoffLimit.go at h
      cases hn : roundoffNode r m0 with
      | error e => rw [hn] at h; cases h
      | ok x =>
        rw [hn] at h
        cases hg : roundoffLimit.go rs ms with
        | error e => rw [hg] at h; cases h
        | ok xs =>
          rw [hg] at h
          injection h with h; subst h
          intro m hm
          rcases List.mem_cons.mp hm with rfl | hm
          · exact roundoffNode_spd hn
          · exact ih ms xs hg m hm

/-- **after `ref_recon_roundoff_limit` every vertex tensor is SPD**, for any reconstructed Hessian field and any mesh -/
theorem roundoffLimit_spd (xyz : List (V3 ℝ)) (cells : List Cell) (metric out : List (M6 ℝ))
    (h : roundoffLimit xyz cells metric = .ok out) : ∀ m ∈ out, SPD m :=
  roundoffLimit_go_spd _ _ _ h

/-- the absolute-value step returns a positive semi-definite tensor, definite when no eigenvalue vanished -/
theorem absHessian_psd {m out : M6 ℝ} (h : absHessianNode m = .ok out) : PSD out := absHessianNode_psd h

theorem absHessian_spd {m out : M6 ℝ} {d : Eig12 ℝ} (hd : diagM m = .ok d)
    (hne : d.l0 ≠ 0 ∧ d.l1 ≠ 0 ∧ d.l2 ≠ 0) (h : absHessianNode m = .ok out) : SPD out :=
  absHessianNode_spd hd hne h

/-- aspect-ratio limit (3-D), one vertex: SPD as soon as the largest returned eigenvalue is positive -/
theorem limitAspectRatio_spd {ar2 : ℝ} (har : 0 < ar2) {m out : M6 ℝ} {d : Eig12 ℝ} (hd : diagM m = .ok d)
    (hmax : 0 < max d.l2 (max d.l1 d.l0)) (h : limitArNode3 ar2 m = .ok out) : SPD out :=
  limitArNode3_spd har hd hmax h

/-- the coded `aspect_ratio2` is positive for every finite argument (`ar² ` above 0.9999, else `1e12`) -/
theorem aspectRatio2_pos (ar : ℝ) : 0 < aspectRatio2 ar := by
  unfold aspectRatio2
  simp only [ofDec_eq, mul_eq]
  split_ifs with h
  · rw [lt_iff] at h
    have : (0 : ℝ) < ar := lt_trans (by norm_num) h
    positivity
  · norm_num

/-! ### (c) ranks -/

/-- **rank independence of the integral.**  For any assignment of vertices to `np` ranks, the sum over ranks of
    the owned-vertex quadratures (what `ref_mpi_allsum` adds up) is the serial integral. -/
theorem complexity_rank_sum (np : Nat) (owner : Nat → Nat) (hown : ∀ n, owner n < np) (hv : Bool)
    (xyz : List (V3 ℝ)) (metric : List (M6 ℝ)) (cells : List Cell) :
    (Finset.range np).sum (fun r => complexityLocal hv (fun n => owner n == r) xyz metric cells) =
      complexityLocal hv (fun _ => true) xyz metric cells := by
  rw [complexityLocal_rank_partial]
  congr 1
  funext n
  simp [hown n]

/-! ### non-vacuity -/

theorem detM_identity : detM (⟨1, 0, 0, 1, 0, 1⟩ : M6 ℝ) = 1 := by
  unfold detM detGen3 mFull
  have g0 : Scalar.divisible (0 : ℝ) 1 = true := by rw [divisible_iff]; norm_num
  simp only [Vec3.axmy, one_eq, zero_eq, mul_eq, sub_eq, div_eq, g0, Bool.not_true, Bool.false_eq_true, if_false]
  have g1 : Scalar.divisible ((0 : ℝ) - 0 / 1 * 0) (1 - 0 / 1 * 0) = true := by rw [divisible_iff]; norm_num
  simp only [g1, Bool.not_true, Bool.false_eq_true, if_false]
  norm_num

theorem density_identity : density (⟨1, 0, 0, 1, 0, 1⟩ : M6 ℝ) = 1 := by
  unfold density; rw [detM_identity]; simp

/-- one tet of volume 1/6 carrying the identity metric at its four vertices has complexity 1/6 -/
theorem complexity_unit_tet :
    complexity (fun _ => true) [(⟨0, 0, 0⟩ : V3 ℝ), ⟨1, 0, 0⟩, ⟨0, 1, 0⟩, ⟨0, 0, 1⟩]
      [⟨1, 0, 0, 1, 0, 1⟩, ⟨1, 0, 0, 1, 0, 1⟩, ⟨1, 0, 0, 1, 0, 1⟩, ⟨1, 0, 0, 1, 0, 1⟩]
      [⟨.tet, [0, 1, 2, 3]⟩] = 1 / 6 := by
  unfold complexity complexityLocal
  have hv : haveVolCells (fun _ => true) [(⟨.tet, [0, 1, 2, 3]⟩ : Cell)] = true := by
    simp [haveVolCells, isVol]
  rw [hv]
  have ht : allTets [(⟨.tet, [0, 1, 2, 3]⟩ : Cell)] = [⟨0, 1, 2, 3⟩] := by decide
  rw [ht]
  simp only [if_true, List.foldl_cons, List.foldl_nil, subTetComplexity, nodeTerm_eq, mAt,
    Refine.Model.Recon.xyzAt, Refine.Model.Geom.tetVol, List.getD_cons_zero, List.getD_cons_succ, density_identity,
    zero_eq, mul_eq, sub_eq, add_eq, neg_eq, div_eq, ofInt_eq]
  norm_num

/-- `setComplexity_exact` is not vacuous: on the unit tet with identity metrics and target 5 the call succeeds
    and the returned field has complexity exactly 5 -/
example : ∃ out, setComplexity false (fun _ => true) [(⟨0, 0, 0⟩ : V3 ℝ), ⟨1, 0, 0⟩, ⟨0, 1, 0⟩, ⟨0, 0, 1⟩]
      [⟨1, 0, 0, 1, 0, 1⟩, ⟨1, 0, 0, 1, 0, 1⟩, ⟨1, 0, 0, 1, 0, 1⟩, ⟨1, 0, 0, 1, 0, 1⟩]
      [⟨.tet, [0, 1, 2, 3]⟩] 5 = .ok out ∧
    complexity (fun _ => true) [(⟨0, 0, 0⟩ : V3 ℝ), ⟨1, 0, 0⟩, ⟨0, 1, 0⟩, ⟨0, 0, 1⟩] out [⟨.tet, [0, 1, 2, 3]⟩] = 5 := by
  have hc := complexity_unit_tet
  obtain ⟨out, ho⟩ := setComplexity_ok false (fun _ => true) [(⟨0, 0, 0⟩ : V3 ℝ), ⟨1, 0, 0⟩, ⟨0, 1, 0⟩, ⟨0, 0, 1⟩]
    [⟨1, 0, 0, 1, 0, 1⟩, ⟨1, 0, 0, 1, 0, 1⟩, ⟨1, 0, 0, 1, 0, 1⟩, ⟨1, 0, 0, 1, 0, 1⟩]
    [⟨.tet, [0, 1, 2, 3]⟩] 5 (by rw [hc]; norm_num) (by norm_num) (by rw [hc]; norm_num)
  refine ⟨out, ho, setComplexity_exact _ _ _ _ _ _ _ ho (by rw [hc]; norm_num) (by norm_num) ?_ (by intro h; cases h)⟩
  simp [haveVolCells, isVol]

/-- the identity is SPD, so the SPD-preservation theorems apply to a real state -/
example : SPD (⟨1, 0, 0, 1, 0, 1⟩ : M6 ℝ) := by
  intro x hx
  simp only [vtMv, mul_eq, add_eq]
  rcases hx with h | h | h
  · nlinarith [mul_self_pos.mpr h, mul_self_nonneg x.y, mul_self_nonneg x.z]
  · nlinarith [mul_self_pos.mpr h, mul_self_nonneg x.x, mul_self_nonneg x.z]
  · nlinarith [mul_self_pos.mpr h, mul_self_nonneg x.x, mul_self_nonneg x.y]

/-- the eigenvalue floor makes the ZERO Hessian positive definite (radius 1: floor 4e-12) -/
example : ∃ out, roundoffNode (1 : ℝ) ⟨0, 0, 0, 0, 0, 0⟩ = .ok out ∧ SPD out := by
  have hd := diagM_diagonal' 0 0 0
  have hg : Scalar.divisible ((4 : ℝ) * (1 * 10 ^ (-12 : ℤ))) (1 * 1) = true := by rw [divisible_iff]; norm_num
  have : ∃ out, roundoffNode (1 : ℝ) ⟨0, 0, 0, 0, 0, 0⟩ = .ok out := by
    unfold roundoffNode floorEigNode
    simp only [mul_eq, div_eq, ofInt_eq, ofDec_eq, Int.cast_ofNat, Int.cast_one, hg, Bool.not_true,
      Bool.false_eq_true, if_false, hd]
    exact ⟨_, rfl⟩
  obtain ⟨out, ho⟩ := this
  exact ⟨out, ho, roundoffNode_spd ho⟩

/-- two ranks: vertices 0,1 on rank 0 and 2,3 on rank 1 — the two partial integrals add up to the serial one -/
example (hv : Bool) (xyz : List (V3 ℝ)) (metric : List (M6 ℝ)) (cells : List Cell) :
    complexityLocal hv (fun n => (if n < 2 then 0 else 1) == 0) xyz metric cells +
    complexityLocal hv (fun n => (if n < 2 then 0 else 1) == 1) xyz metric cells =
    complexityLocal hv (fun _ => true) xyz metric cells := by
  have := complexity_rank_sum 2 (fun n => if n < 2 then 0 else 1) (by intro n; split_ifs <;> omega) hv xyz metric cells
  rw [Finset.sum_range_succ, Finset.sum_range_one] at this
  exact this

end Refine.Props.C10
