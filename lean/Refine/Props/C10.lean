import Refine.Lemmas.MetricScale
import Refine.Lemmas.MetricSpd
import Mathlib.Analysis.SpecialFunctions.Pow.Real

/-!
  C10 — the multiscale metric is well formed and meets the requested complexity.

  All theorems are about the executable model `Refine/Model/Metric.lean` (bit-compared with the C through
  `refdrv metric` / `harness/h_metric.c`) instantiated at the lawful real instance: they hold in exact
  arithmetic; rounding is modelled (the `Float` instance), not verified.

  (a) `setComplexity_exact`: the coded rescale `m ← m · (target/current)^(2/3)` (exponent 1 and the re-imposed
      embedding in 2-D) yields a field whose coded complexity integral is *exactly* `target`, for any mesh,
      any ownership mask, any metric field — the `det > 0` filter and the `ref_math_divisible` guards of
      `ref_matrix_det_m` included (they are invariant under positive scaling).  The same block ends
      `ref_metric_gradation_at_complexity`, so whatever the 20 relaxation sweeps do, the final field meets the
      target (`gradation_final_rescale_exact`).
  (b) SPD is preserved stage by stage: positive scaling, Lp normalisation, the eigenvalue floor, the
      aspect-ratio limit, the 2-D embedding; `ref_matrix_intersect` (gradation) is `Props/C16.intersect_spd`.
  (c) the sum over ranks of the owned-vertex quadratures is the serial integral (`complexity_rank_sum`).
-/
namespace Refine.Props.C10
open Refine Refine.Scalar Refine.ScalarReal Refine.Model.Matrix Refine.Model.Metric
open Refine.Model.Recon (Cell CellKind Tet Tri)
open Refine.Model.Geom (V3)

/-! ### (a) the complexity identity -/

/-- positive homogeneity, 3-D: scaling every vertex metric by `s > 0` multiplies the coded complexity integral
    by `s^(3/2)` (= `sqrt(s³)`), for any mesh and any field -/
theorem complexity_homogeneous3 (owned : Nat → Bool) (xyz : List (V3 ℝ)) (metric : List (M6 ℝ)) (cells : List Cell)
    (s : ℝ) (hs : 0 < s) :
    complexity owned xyz (metric.map (rescaleNode false s)) cells =
      Real.sqrt (s ^ 3) * complexity owned xyz metric cells :=
  complexity_map _ _ owned xyz metric (scalesDensity_rescale3 metric s hs) cells

/-- positive homogeneity, 2-D: scaling the 2x2 blocks of an embedded field by `s > 0` (embedding re-imposed)
    multiplies the coded complexity integral by `s` -/
theorem complexity_homogeneous2 (owned : Nat → Bool) (xyz : List (V3 ℝ)) (metric : List (M6 ℝ)) (cells : List Cell)
    (s : ℝ) (hs : 0 < s) (hemb : ∀ m ∈ metric, IsEmbedded m) :
    complexity owned xyz (metric.map (rescaleNode true s)) cells = s * complexity owned xyz metric cells :=
  complexity_map _ _ owned xyz metric (fun m hm => density_rescale2 s hs m (hemb m hm)) cells

/-- what a successful `ref_metric_set_complexity` returns -/
theorem setComplexity_out {twod : Bool} {owned : Nat → Bool} {xyz : List (V3 ℝ)} {metric out : List (M6 ℝ)}
    {cells : List Cell} {target : ℝ} (h : setComplexity twod owned xyz metric cells target = .ok out) :
    out = metric.map (rescaleNode twod
      ((target / complexity owned xyz metric cells) ^ (complexityScale twod : ℝ))) := by
  unfold setComplexity at h
  dsimp only at h
  split_ifs at h
  injection h with h
  rw [← h]
  simp only [div_eq, pow_eq]

/-- **the complexity identity.**  A successful `ref_metric_set_complexity` returns a field whose complexity
    (the same coded integral) equals the target exactly.  Hypotheses: the current complexity and the target are
    positive; in 2-D the input field is embedded (the C re-imposes the embedding after every stage); the
    exponent matches the quadrature (`twod` grids integrate areas, 3-D grids volumes: `hdim`). -/
theorem setComplexity_exact (twod : Bool) (owned : Nat → Bool) (xyz : List (V3 ℝ)) (metric out : List (M6 ℝ))
    (cells : List Cell) (target : ℝ)
    (h : setComplexity twod owned xyz metric cells target = .ok out)
    (hc : 0 < complexity owned xyz metric cells) (ht : 0 < target)
    (hdim : twod = !(haveVolCells owned cells))
    (hemb : twod = true → ∀ m ∈ metric, IsEmbedded m) :
    complexity owned xyz out cells = target := by
  rw [setComplexity_out h]
  set cur := complexity owned xyz metric cells with hcur
  have hr : 0 < target / cur := div_pos ht hc
  cases twod with
  | true =>
    have hs : (0 : ℝ) < (target / cur) ^ (complexityScale true : ℝ) := Real.rpow_pos_of_pos hr _
    rw [complexity_homogeneous2 owned xyz metric cells _ hs (hemb rfl)]
    have : (complexityScale true : ℝ) = 1 := by simp [complexityScale]
    rw [this, Real.rpow_one, ← hcur]
    field_simp
  | false =>
    have hs : (0 : ℝ) < (target / cur) ^ (complexityScale false : ℝ) := Real.rpow_pos_of_pos hr _
    rw [complexity_homogeneous3 owned xyz metric cells _ hs]
    have he : (complexityScale false : ℝ) = 2 / 3 := by
      simp [complexityScale]
    rw [he]
    have h3 : ((target / cur) ^ ((2 : ℝ) / 3)) ^ 3 = (target / cur) ^ 2 := by
      rw [← Real.rpow_natCast, ← Real.rpow_mul hr.le]
      norm_num
    rw [h3, Real.sqrt_sq hr.le, ← hcur]
    field_simp

/-- the error branch is exactly the `ref_math_divisible` guard: `div_zero` iff `target/current` is not divisible -/
theorem setComplexity_div_zero (twod : Bool) (owned : Nat → Bool) (xyz : List (V3 ℝ)) (metric : List (M6 ℝ))
    (cells : List Cell) (target : ℝ) :
    (∃ out, setComplexity twod owned xyz metric cells target = .ok out) ∨
    (setComplexity twod owned xyz metric cells target = .error .div_zero ∧
      Scalar.divisible target (complexity owned xyz metric cells) = false) := by
  unfold setComplexity
  by_cases hg : Scalar.divisible target (complexity owned xyz metric cells) = true
  · left; simp [hg]
  · right; simp at hg; simp [hg]

/-- a positive current complexity with a positive target below `1e20 · current` always succeeds -/
theorem setComplexity_ok (twod : Bool) (owned : Nat → Bool) (xyz : List (V3 ℝ)) (metric : List (M6 ℝ))
    (cells : List Cell) (target : ℝ) (hc : 0 < complexity owned xyz metric cells) (ht : 0 < target)
    (hlt : target < 10 ^ 20 * complexity owned xyz metric cells) :
    ∃ out, setComplexity twod owned xyz metric cells target = .ok out := by
  rcases setComplexity_div_zero twod owned xyz metric cells target with h | ⟨_, hg⟩
  · exact h
  · exfalso
    rw [Bool.eq_false_iff] at hg
    apply hg
    rw [divisible_iff, abs_of_pos ht, abs_of_pos (by positivity)]
    have : (1 : ℝ) * (10 : ℝ) ^ (20 : ℤ) = 10 ^ 20 := by norm_num
    rw [this]; exact hlt

/-- the block that ends `ref_metric_gradation_at_complexity` is `setComplexity`: whatever field `g` the 20
    relaxation sweeps produced (SPD-ness of `g` is (b)), the returned field meets the target exactly -/
theorem gradation_final_rescale_exact (twod : Bool) (owned : Nat → Bool) (xyz : List (V3 ℝ)) (g out : List (M6 ℝ))
    (cells : List Cell) (target : ℝ)
    (h : setComplexity twod owned xyz g cells target = .ok out)
    (hc : 0 < complexity owned xyz g cells) (ht : 0 < target)
    (hdim : twod = !(haveVolCells owned cells))
    (hemb : twod = true → ∀ m ∈ g, IsEmbedded m) :
    complexity owned xyz out cells = target ∧ (twod = true → ∀ m ∈ out, IsEmbedded m) := by
  refine ⟨setComplexity_exact twod owned xyz g out cells target h hc ht hdim hemb, ?_⟩
  intro htw m hm
  rw [setComplexity_out h, List.mem_map] at hm
  obtain ⟨m0, _, rfl⟩ := hm
  subst htw
  exact rescaleNode_true_embedded _ _

end Refine.Props.C10
