import Refine.Model.Rcb
import Refine.Lemmas.Rcb
import Refine.Lemmas.RcbReal
import Refine.Lemmas.RcbPart
import Refine.Lemmas.RcbDet

/-!
  C04 (and the precondition of the C06 migration step, and the data side of C18): the native load balancer
  `ref_migrate_to_balance → ref_migrate_new_part → ref_migrate_native_rcb_part →
   ref_migrate_native_rcb_direction` decides which rank owns which vertex.

  Every theorem is about the executable model `Refine.Model.Rcb` (tied to `ref_migrate.c` by the `rcb_fn` /
  `rcb_balance` streams: identical part arrays for the same vertices, npart, seed and `rand()` values) and holds for
  EVERY rank count `w.length ≥ 1`, every number of vertices per rank (empty ranks included), every `rand()`
  stream, every seed and direction.  Theorems that do not mention ℝ hold for every scalar type — they never look
  at a coordinate, so they hold for whatever `ref_search_selection` returns; the others are exact arithmetic
  (rounding is modelled, not verified).  The communication steps are discharged with the C17 theorems
  `balance_eq` (`ref_mpi_balance`) and `blindsend_spec` (`ref_mpi_blindsend`).

  Preconditions that appear: `npart ≤ ref_mpi_n` (`ref_migrate_to_balance` computes `MIN(ref_mpi_n, …)`) and fewer
  than `2^31` vertices in the communicator (`ref_mpi_alltoallv`'s `int` guards).
-/
namespace Refine.Props.C04Rcb
open Refine Refine.Model.Comm Refine.Model.Rcb Refine.Model.Geom Refine.Lemmas.Comm Refine.Lemmas.Rcb

/-! ## `ref_migrate_split_ratio` and termination of the recursion -/

/-- `ref_migrate_split_ratio(npart)` for `npart ≥ 2` answers `REF_SUCCESS` with `ratio = (npart/2) / npart`; the part
    counts handed to the two recursive calls, `npart0 = npart/2` and `npart1 = npart - npart0`, add up to `npart`,
    are both at least 1 and both smaller than `npart` — the measure of the (well-founded, fuel-free) recursion
    `rcbDirection`.  `npart = 0` is refused with `REF_DIV_ZERO`. -/
theorem rcb_ratio (npart : Nat) (h : 2 ≤ npart) :
    splitRatio (α := ℝ) (npart : Int) = (Status.ok, ((npart / 2 : Nat) : ℝ) / (npart : ℝ))
      ∧ npart / 2 + (npart - npart / 2) = npart
      ∧ 1 ≤ npart / 2 ∧ 1 ≤ npart - npart / 2
      ∧ npart / 2 < npart ∧ npart - npart / 2 < npart
      ∧ (splitRatio (α := ℝ) 0).1 = Status.div_zero := by
  refine ⟨splitRatio_real npart (by omega), ?_, ?_, ?_, ?_, ?_, splitRatio_zero⟩ <;> omega

/-! ## no point lost or duplicated -/

section Generic
variable {α : Type} [Scalar α] [RcbScalar α]

omit [RcbScalar α] in
/-- The copy loop of one level (`x[i] < value0 || value1 < x[i]` → half 0, else half 1), for ANY cut values
    (whatever `ref_search_selection` returned) and any scalar type: on every rank the two halves together are a
    permutation of the rank's records, and over the communicator the two halves together are a permutation of all
    records. -/
theorem rcb_partition_of_points (t : M9 α) (c : Cut α) (w : World (List (Rec α))) :
    (∀ l ∈ w, ((splitLocal t c l).1 ++ (splitLocal t c l).2).Perm l)
      ∧ (((w.map (splitLocal t c)).map (·.1)).flatten ++ ((w.map (splitLocal t c)).map (·.2)).flatten).Perm
          w.flatten :=
  ⟨fun l _ => splitLocal_perm t c l, halves_perm t c w⟩

/-- One level of `ref_migrate_native_rcb_direction` (`2 ≤ npart ≤ ref_mpi_n`): after the copy loop and the
    `ref_mpi_balance` calls the front `npart/2` ranks (`ref_mpi_front_comm` colour 0) hold exactly the records of
    half 0 and recurse with part ids `[offset, offset + npart/2)`; the other ranks hold exactly half 1 and recurse
    with the adjacent range starting at `offset + npart/2`; the result is the concatenation. -/
theorem rcb_level (hst : ∀ n : Nat, 2 ≤ n → (splitRatio (α := α) (n : Int)).1 = Status.ok)
    (t : M9 α) (seed : Int) (twod : Bool) (npart : Nat) (offset dir : Int) (w : World (List (Rec α)))
    (h2 : 2 ≤ npart) (hlen : npart ≤ w.length) (htot : (w.flatten.length : Int) ≤ INT_MAX) :
    ∃ s0 s1 : World (List (Rec α)),
      s0.length = npart / 2 ∧ s1.length = w.length - npart / 2
      ∧ s0.flatten = w.flatten.filter (inOuter t (cutOf t seed npart dir w))
      ∧ s1.flatten = w.flatten.filter (fun r => !inOuter t (cutOf t seed npart dir w) r)
      ∧ ∀ r0 r1,
          rcbDirection t seed twod (npart / 2) offset (nextDir (cutOf t seed npart dir w).dir twod) s0 = some r0 →
          rcbDirection t seed twod (npart - npart / 2) (offset + ((npart / 2 : Nat) : Int))
            (nextDir (cutOf t seed npart dir w).dir twod) s1 = some r1 →
          rcbDirection t seed twod npart offset dir w = some (r0 ++ r1) :=
  rcbDirection_unfold hst t seed twod npart offset dir w h2 hlen htot

/-- The whole recursion, any scalar type whose `split_ratio` does not refuse `npart ≥ 2` (`hst`; for ℝ this is
    `rcb_ratio`): for `1 ≤ npart ≤ ref_mpi_n` the call returns on every rank; every rank ends in exactly one leaf;
    the records in the leaves are a permutation of the records handed in (each point gets exactly one part id);
    every part id lies in `[offset, offset + npart)`; every id of that range belongs to some rank. -/
theorem rcb_total_in_range (hst : ∀ n : Nat, 2 ≤ n → (splitRatio (α := α) (n : Int)).1 = Status.ok)
    (t : M9 α) (seed : Int) (twod : Bool) (npart : Nat) (offset dir : Int) (w : World (List (Rec α)))
    (h1 : 1 ≤ npart) (hlen : npart ≤ w.length) (htot : (w.flatten.length : Int) ≤ INT_MAX) :
    ∃ leaves, rcbDirection t seed twod npart offset dir w = some leaves
      ∧ leaves.length = w.length
      ∧ (leaves.flatMap (·.2)).Perm w.flatten
      ∧ (∀ l ∈ leaves, offset ≤ l.1 ∧ l.1 < offset + (npart : Int))
      ∧ (∀ k : Int, offset ≤ k → k < offset + (npart : Int) → ∃ l ∈ leaves, l.1 = k) :=
  rcbDirection_spec hst t seed twod npart offset dir w h1 hlen htot

/-- `ref_migrate_native_rcb_part` (rotation from the `rand()` stream, owned vertices only, recursion, leaf
    `ref_mpi_blindsend`s to the owners, store loop): for `1 ≤ npart ≤ ref_mpi_n` the call succeeds and in the
    `node_part` array of every rank every slot of an owned vertex holds a part id of `[0, npart)` — the id of the one
    and only assignment naming `(rank, slot)` — and every other slot still holds `REF_EMPTY`. -/
theorem rcb_part_total (hst : ∀ n : Nat, 2 ≤ n → (splitRatio (α := α) (n : Int)).1 = Status.ok)
    (npart : Nat) (seed : Int) (twod : Bool) (rands : List Nat) (w : World (List (PNode α)))
    (h1 : 1 ≤ npart) (hn : npart ≤ w.length) (htot : (w.flatten.length : Int) ≤ INT_MAX) :
    ∃ leaves parts,
      rcbDirection (transformOf twod rands) seed twod npart 0 (-1) (w.mapIdx fun r nodes => ownedRecs r nodes)
        = some leaves
      ∧ rcbPart npart seed twod rands w = some parts ∧ parts.length = w.length
      ∧ ∀ (r : Nat) (nodes : List (PNode α)), w[r]? = some nodes →
          ∃ pr : List Int, parts[r]? = some pr ∧ pr.length = nodes.length
          ∧ ∀ (i : Nat) (nd : PNode α), nodes[i]? = some nd →
              (nd.part = (r : Int) → ∃ k, pr[i]? = some k ∧ 0 ≤ k ∧ k < (npart : Int)
                  ∧ ((assignments leaves).map fun a => key a.1).count (r, i) = 1
                  ∧ ∃ a ∈ assignments leaves, key a.1 = (r, i) ∧ a.1.p = nd.p ∧ a.2 = k)
              ∧ (nd.part ≠ (r : Int) → pr[i]? = some (-1)) :=
  rcbPart_spec hst npart seed twod rands w h1 hn htot

/-- `ref_migrate_new_part` with a partitioner that reaches the native RCB (every method of this build except
    `REF_MIGRATE_SINGLE`), more than one rank and `2 ≤ npart ≤ ref_mpi_n`: the answer is `REF_SUCCESS` with exactly
    the part arrays of `rcbPart` — the `part out of range` check of `ref_migrate_report_load_balance` never fires. -/
theorem rcb_new_part_ok (hst : ∀ n : Nat, 2 ≤ n → (splitRatio (α := α) (n : Int)).1 = Status.ok)
    (method : Nat) (hm : method ≠ 1) (hm6 : method < 6) (npart : Nat) (seed : Int) (twod : Bool) (rands : List Nat)
    (w : World (List (PNode α))) (h2 : 2 ≤ npart) (hn : npart ≤ w.length)
    (htot : (w.flatten.length : Int) ≤ INT_MAX) :
    ∃ parts, rcbPart npart seed twod rands w = some parts
      ∧ newPart method (npart : Int) seed twod rands w = some (Status.ok, parts) := by
  obtain ⟨leaves, parts, _, hp, _, hall⟩ := rcbPart_spec hst npart seed twod rands w (by omega) hn htot
  refine ⟨parts, hp, ?_⟩
  have hrep : reportOk w parts = true := by
    apply reportOk_of_range npart w parts hn
    intro r nodes hnodes
    obtain ⟨pr, hpr, _, hi⟩ := hall r nodes hnodes
    refine ⟨pr, hpr, ?_⟩
    intro i nd hnd hown
    obtain ⟨k, hk, hk0, hk1, _⟩ := (hi i nd hnd).1 hown
    exact ⟨k, hk, hk0, hk1⟩
  unfold newPart
  have hw : ¬ w.length ≤ 1 := by omega
  have hnp : ¬ ((npart : Int) < 2) := by omega
  have hm1 : (method == 1) = false := by simpa using hm
  have hm6' : ¬ method ≥ 6 := by omega
  simp only [hw, hnp, decide_false, Bool.or_false, Bool.false_eq_true, if_false, hm1, hm6', Int.toNat_natCast, hp,
    hrep, if_true]

/-- the single-part answers of `ref_migrate_new_part`: one rank, `npart < 2`, or `REF_MIGRATE_SINGLE` — every
    vertex goes to part 0; an unknown method (`≥ REF_MIGRATE_LAST`) is `REF_IMPLEMENT` -/
theorem rcb_single_cases (method : Nat) (npart : Int) (seed : Int) (twod : Bool) (rands : List Nat)
    (w : World (List (PNode α))) :
    ((w.length ≤ 1 ∨ npart < 2 ∨ method = 1) →
        newPart method npart seed twod rands w = some (Status.ok, singlePart w))
    ∧ (¬ w.length ≤ 1 → ¬ npart < 2 → 6 ≤ method →
        ∃ p, newPart method npart seed twod rands w = some (Status.implement, p)) := by
  constructor
  · intro h
    unfold newPart
    by_cases h1 : w.length ≤ 1 ∨ npart < 2
    · have : (decide (w.length ≤ 1) || decide (npart < 2)) = true := by simpa using h1
      simp only [this, if_true]
    · have h1' : (decide (w.length ≤ 1) || decide (npart < 2)) = false := by
        simp only [Bool.or_eq_false_iff, decide_eq_false_iff_not]
        exact ⟨fun hh => h1 (Or.inl hh), fun hh => h1 (Or.inr hh)⟩
      have hm : method = 1 := by
        rcases h with h | h | h
        · exact absurd (Or.inl h) h1
        · exact absurd (Or.inr h) h1
        · exact h
      subst hm
      simp only [h1', Bool.false_eq_true, if_false, beq_self_eq_true, if_true]
  · intro h1 h2 h6
    unfold newPart
    have h1' : (decide (w.length ≤ 1) || decide (npart < 2)) = false := by
      simp only [Bool.or_eq_false_iff, decide_eq_false_iff_not]
      exact ⟨h1, h2⟩
    have hm : (method == 1) = false := by
      simp only [beq_eq_false_iff_ne, ne_eq]; omega
    simp only [h1', Bool.false_eq_true, if_false, hm, h6, if_true]
    exact ⟨_, rfl⟩

/-- the `npart` of `ref_migrate_to_balance` never exceeds the number of ranks and is at least 1: the precondition
    `npart ≤ ref_mpi_n` of the theorems above is established by the caller -/
theorem rcb_npart_le (full : Bool) (np : Nat) (hnp : 1 ≤ np) (nGlobal maxAge : Int) :
    1 ≤ balanceNpart full np nGlobal maxAge ∧ balanceNpart full np nGlobal maxAge ≤ (np : Int) := by
  unfold balanceNpart
  cases full
  · simp only [Bool.false_eq_true, if_false]
    split <;> split <;> constructor <;> omega
  · simp only [if_true]
    constructor <;> omega

end Generic

/-- exact arithmetic instance of `rcb_total_in_range` (the hypothesis on `split_ratio` is `rcb_ratio`) -/
theorem rcb_total_in_range_real [RcbScalar ℝ] (t : M9 ℝ) (seed : Int) (twod : Bool) (npart : Nat)
    (offset dir : Int) (w : World (List (Rec ℝ)))
    (h1 : 1 ≤ npart) (hlen : npart ≤ w.length) (htot : (w.flatten.length : Int) ≤ INT_MAX) :
    ∃ leaves, rcbDirection t seed twod npart offset dir w = some leaves
      ∧ leaves.length = w.length
      ∧ (leaves.flatMap (·.2)).Perm w.flatten
      ∧ (∀ l ∈ leaves, offset ≤ l.1 ∧ l.1 < offset + (npart : Int))
      ∧ (∀ k : Int, offset ≤ k → k < offset + (npart : Int) → ∃ l ∈ leaves, l.1 = k) :=
  rcbDirection_spec hst_real t seed twod npart offset dir w h1 hlen htot

/-! ## balance of one cut (exact selection) -/

/-- Sizes of the two halves of one level when the two values returned by `ref_search_selection` are exact `k`-th
    elements (`IsKth`, the notion of C17 `selection_bracket`) for positions `p0 ≤ p1`: half 0 (outside the band) has
    at most `p0 + (N-1-p1)` records and misses that target by at most the surplus ties at the two cut values
    (`ties(value0) - 1 + ties(value1) - 1`); half 1 has the rest.  With all coordinates distinct the sizes are exactly
    `p0 + N-1-p1` and `p1 - p0 + 1` (both cut values go to half 1).
    NOT proved: that the 40-step bisection returns an exact `k`-th element (C17 gives the bracket
    `|value - kth| ≤ (max-min)/2^40`); at the ends (`position ≤ 0`, `≥ N-1`) it is exact (C17 `selection_ends`). -/
theorem rcb_balanced_partial (t : M9 ℝ) (c : Cut ℝ) (w : World (List (Rec ℝ))) (p0 p1 : Int)
    (h0 : IsKth (xsOf t c.dir w) p0 c.v0) (h1 : IsKth (xsOf t c.dir w) p1 c.v1) (hp : p0 ≤ p1) :
    let n0 : Int := (((w.map (splitLocal t c)).map (·.1)).flatten.length : Int)
    let n1 : Int := (((w.map (splitLocal t c)).map (·.2)).flatten.length : Int)
    let N : Int := (w.flatten.length : Int)
    p0 + (N - 1 - p1) - (ties c.v0 (xsOf t c.dir w) - 1) - (ties c.v1 (xsOf t c.dir w) - 1) ≤ n0
      ∧ n0 ≤ p0 + (N - 1 - p1)
      ∧ n0 + n1 = N := by
  intro n0 n1 N
  have hcount := outer_count (xsOf t c.dir w) p0 p1 c.v0 c.v1 h0 h1 hp
  have hN : ((xsOf t c.dir w).length : Int) = N := by
    unfold xsOf; rw [List.length_map]
  have hn0 : n0 = (((xsOf t c.dir w).filter (outerB c.v0 c.v1)).length : Int) := by
    show ((((w.map (splitLocal t c)).map (·.1)).flatten.length : Nat) : Int) = _
    rw [half0_length]
  rw [hN, ← hn0] at hcount
  refine ⟨hcount.1, hcount.2, ?_⟩
  have := halves_total t c w
  show ((_ : Nat) : Int) + ((_ : Nat) : Int) = ((_ : Nat) : Int)
  exact_mod_cast this

/-- `rcb_balanced_partial` with the positions the C computes (`(REF_LONG)` = truncation, seed ≥ 0, `npart ≥ 2`): if
    both `ref_search_selection` results are exact `k`-th elements then half 0 holds fewer than `N * npart0/npart`
    records and more than `N * npart0/npart - 2 - (ties(value0) - 1) - (ties(value1) - 1)`: the two halves differ from
    the target ratio by at most 2 plus the surplus ties at the cut values. -/
theorem rcb_balanced_target_partial (t : M9 ℝ) (seed : Int) (hs : 0 ≤ seed) (npart : Nat) (h2 : 2 ≤ npart)
    (dir : Int) (w : World (List (Rec ℝ))) :
    let c := @cutOf ℝ _ floorRcb t seed npart dir w
    let p := @cutPos ℝ _ floorRcb seed npart (w.flatten.length : Int)
    let n0 : Int := (((w.map (splitLocal t c)).map (·.1)).flatten.length : Int)
    let N : ℝ := (w.flatten.length : ℝ)
    let r : ℝ := ((npart / 2 : Nat) : ℝ) / (npart : ℝ)
    (c.v0 = selection (cutCoords t c.dir w) p.1 ∧ c.v1 = selection (cutCoords t c.dir w) p.2)
    ∧ (IsKth (xsOf t c.dir w) p.1 c.v0 → IsKth (xsOf t c.dir w) p.2 c.v1 →
        N * r - 2 - ((ties c.v0 (xsOf t c.dir w) - 1 : Int) : ℝ) - ((ties c.v1 (xsOf t c.dir w) - 1 : Int) : ℝ) < (n0 : ℝ)
          ∧ (n0 : ℝ) < N * r) := by
  intro c p n0 N r
  have htot : isum (w.map fun l => (l.length : Int)) = (w.flatten.length : Int) := isum_lengths w
  constructor
  · constructor
    · show (@cutOf ℝ _ floorRcb t seed npart dir w).v0 = _
      unfold cutOf
      simp only [htot]
      rfl
    · show (@cutOf ℝ _ floorRcb t seed npart dir w).v1 = _
      unfold cutOf
      simp only [htot]
      rfl
  · intro h0 h1
    obtain ⟨_, hp01, _, hlo, hhi⟩ :=
      cutPos_target seed hs npart h2 (w.flatten.length : Int) (by exact_mod_cast Nat.zero_le _)
    obtain ⟨hA, hB, _⟩ := rcb_balanced_partial t c w p.1 p.2 h0 h1 hp01
    have hA' : ((p.1 + ((w.flatten.length : Int) - 1 - p.2) - (ties c.v0 (xsOf t c.dir w) - 1)
        - (ties c.v1 (xsOf t c.dir w) - 1) : Int) : ℝ) ≤ (n0 : ℝ) := by exact_mod_cast hA
    have hB' : (n0 : ℝ) ≤ ((p.1 + ((w.flatten.length : Int) - 1 - p.2) : Int) : ℝ) := by exact_mod_cast hB
    have hN : (((w.flatten.length : Int) : ℝ)) = N := Int.cast_natCast _
    rw [hN] at hlo hhi
    constructor
    · have : ((p.1 + ((w.flatten.length : Int) - 1 - p.2) - (ties c.v0 (xsOf t c.dir w) - 1)
          - (ties c.v1 (xsOf t c.dir w) - 1) : Int) : ℝ)
          = ((p.1 + ((w.flatten.length : Int) - 1 - p.2) : Int) : ℝ) - ((ties c.v0 (xsOf t c.dir w) - 1 : Int) : ℝ)
            - ((ties c.v1 (xsOf t c.dir w) - 1 : Int) : ℝ) := by push_cast; ring
      rw [this] at hA'
      linarith
    · linarith

/-! ## the partition is a function of the owned coordinates -/

section Data
variable [RcbScalar ℝ]

/-- What one level computes from the communicator — the direction (`ref_migrate_split_dir` with its
    `ref_mpi_min/max`), the record count, the two `ref_search_selection` values — is a function of the MULTISET of the
    coordinates held by its ranks (at least one rank each), of the transform, `seed`, `npart` and `dir`: not of how
    the points are distributed over the ranks, of their order on a rank, of their owner or slot. -/
theorem rcb_cut_data_only (t : M9 ℝ) (seed : Int) (npart : Nat) (dir : Int) (w w' : World (List (Rec ℝ)))
    (hw : w ≠ []) (hw' : w' ≠ []) (h : (w.flatten.map (·.p)).Perm (w'.flatten.map (·.p))) :
    cutOf t seed npart dir w = cutOf t seed npart dir w' :=
  cutOf_perm t seed npart dir w w' hw hw' h

/-- `rcb_deterministic_in_data`: two runs of `ref_migrate_native_rcb_direction` on communicators of the same size
    that hold the same multiset of coordinates — however the points are distributed over the ranks, in whatever
    order a rank lists them (slot reuse history), whatever their owner / slot labels — give records with equal
    coordinates the same part id.  No tie condition is needed: the copy loop tests a coordinate against the cut
    values only, never a position, so tied or duplicated points always travel together. -/
theorem rcb_deterministic_in_data (t : M9 ℝ) (seed : Int) (twod : Bool) (npart : Nat) (offset dir : Int)
    (w w' : World (List (Rec ℝ)))
    (h1 : 1 ≤ npart) (hlen : npart ≤ w.length) (hlen' : w'.length = w.length)
    (htot : (w.flatten.length : Int) ≤ INT_MAX)
    (hperm : (w.flatten.map (·.p)).Perm (w'.flatten.map (·.p)))
    (leaves leaves' : World (Int × List (Rec ℝ)))
    (hl : rcbDirection t seed twod npart offset dir w = some leaves)
    (hl' : rcbDirection t seed twod npart offset dir w' = some leaves') :
    ∀ a ∈ assignments leaves, ∀ a' ∈ assignments leaves', a.1.p = a'.1.p → a.2 = a'.2 :=
  rcbDirection_deterministic t seed twod npart offset dir w w' h1 hlen hlen' htot hperm leaves leaves' hl hl'

/-- in one run, vertices with identical coordinates (duplicates, or exact ties in every direction) get the same
    part: the part is a function of the coordinates -/
theorem rcb_equal_points_same_part (t : M9 ℝ) (seed : Int) (twod : Bool) (npart : Nat) (offset dir : Int)
    (w : World (List (Rec ℝ))) (h1 : 1 ≤ npart) (hlen : npart ≤ w.length)
    (htot : (w.flatten.length : Int) ≤ INT_MAX) (leaves : World (Int × List (Rec ℝ)))
    (hl : rcbDirection t seed twod npart offset dir w = some leaves) :
    ∀ a ∈ assignments leaves, ∀ a' ∈ assignments leaves, a.1.p = a'.1.p → a.2 = a'.2 :=
  rcbDirection_deterministic t seed twod npart offset dir w w h1 hlen rfl htot (List.Perm.refl _) leaves leaves hl hl

/-- `ref_migrate_native_rcb_part`: the new part of an owned vertex is a function of its coordinates, the multiset
    of all owned coordinates, `npart`, the seed, the 2-D flag and the `rand()` values — and of nothing else.  Two
    worlds with the same number of ranks that own the same coordinate multiset (vertices on other ranks, in other
    slots, listed in another order, other ghosts, other global ids) give owned vertices with equal coordinates the
    same entry of `node_part`. -/
theorem rcb_part_deterministic (npart : Nat) (seed : Int) (twod : Bool) (rands : List Nat)
    (w w' : World (List (PNode ℝ)))
    (h1 : 1 ≤ npart) (hn : npart ≤ w.length) (hlen : w'.length = w.length)
    (htot : (w.flatten.length : Int) ≤ INT_MAX) (htot' : (w'.flatten.length : Int) ≤ INT_MAX)
    (hperm : ((w.mapIdx fun r nodes => ownedRecs r nodes).flatten.map (·.p)).Perm
      ((w'.mapIdx fun r nodes => ownedRecs r nodes).flatten.map (·.p)))
    (parts parts' : World (List Int))
    (hp : rcbPart npart seed twod rands w = some parts) (hp' : rcbPart npart seed twod rands w' = some parts') :
    ∀ (r : Nat) (nodes : List (PNode ℝ)) (pr : List Int) (i : Nat) (nd : PNode ℝ),
      w[r]? = some nodes → parts[r]? = some pr → nodes[i]? = some nd → nd.part = (r : Int) →
    ∀ (r' : Nat) (nodes' : List (PNode ℝ)) (pr' : List Int) (j : Nat) (nd' : PNode ℝ),
      w'[r']? = some nodes' → parts'[r']? = some pr' → nodes'[j]? = some nd' → nd'.part = (r' : Int) →
      nd.p = nd'.p → pr[i]? = pr'[j]? :=
  Refine.Lemmas.Rcb.rcb_part_deterministic npart seed twod rands w w' h1 hn hlen htot htot' hperm parts parts' hp hp'

end Data

/-! ## non-vacuity -/

/-- the interpretation of libm and of the `(REF_LONG)` cast used in the examples -/
@[reducible] noncomputable def exRcbScalar : RcbScalar ℝ := floorRcb

/-- np = 3 with an empty rank, five points, npart = 3, 3-D: the hypotheses of `rcb_total_in_range_real` hold -/
example : ∃ leaves,
    @rcbDirection ℝ _ exRcbScalar ⟨1, 0, 0, 0, 1, 0, 0, 0, 1⟩ 0 false 3 0 (-1)
      [[⟨⟨0, 0, 0⟩, 0, 0⟩, ⟨⟨1, 2, 0⟩, 0, 1⟩], [], [⟨⟨3, 1, 1⟩, 2, 0⟩, ⟨⟨4, 0, 2⟩, 2, 1⟩, ⟨⟨5, 5, 5⟩, 2, 2⟩]]
      = some leaves ∧ leaves.length = 3 :=
  let ⟨l, h, hl, _⟩ := @rcb_total_in_range_real exRcbScalar ⟨1, 0, 0, 0, 1, 0, 0, 0, 1⟩ 0 false 3 0 (-1)
    [[⟨⟨0, 0, 0⟩, 0, 0⟩, ⟨⟨1, 2, 0⟩, 0, 1⟩], [], [⟨⟨3, 1, 1⟩, 2, 0⟩, ⟨⟨4, 0, 2⟩, 2, 1⟩, ⟨⟨5, 5, 5⟩, 2, 2⟩]]
    (by decide) (by decide) (by decide)
  ⟨l, h, hl⟩

/-- the same with stored vertices (owned and ghost), 2-D (`twod`, one `rand()` value), npart = 2 on 3 ranks:
    the hypotheses of `rcb_part_total` / `rcb_new_part_ok` hold -/
example : ∃ parts,
    @rcbPart ℝ _ exRcbScalar 2 1 true [12345]
      [[⟨0, 0, ⟨0, 0, 0⟩⟩, ⟨7, 2, ⟨2, 1, 0⟩⟩], [], [⟨7, 2, ⟨2, 1, 0⟩⟩, ⟨3, 2, ⟨1, 1, 0⟩⟩]] = some parts
    ∧ @newPart ℝ _ exRcbScalar 0 2 1 true [12345]
      [[⟨0, 0, ⟨0, 0, 0⟩⟩, ⟨7, 2, ⟨2, 1, 0⟩⟩], [], [⟨7, 2, ⟨2, 1, 0⟩⟩, ⟨3, 2, ⟨1, 1, 0⟩⟩]]
        = some (Status.ok, parts) :=
  @rcb_new_part_ok ℝ _ exRcbScalar hst_real 0 (by decide) (by decide) 2 1 true [12345]
    [[⟨0, 0, ⟨0, 0, 0⟩⟩, ⟨7, 2, ⟨2, 1, 0⟩⟩], [], [⟨7, 2, ⟨2, 1, 0⟩⟩, ⟨3, 2, ⟨1, 1, 0⟩⟩]]
    (by decide) (by decide) (by decide)

/-- `IsKth` hypotheses of `rcb_balanced_partial` are satisfiable: coordinates {1, 2, 2, 3} ∪ {} ∪ {5}, cut values
    2 (position 1, a tie) and 3 (position 3) -/
example : IsKth [1, 2, 2, 3, 5] 1 2 ∧ IsKth [1, 2, 2, 3, 5] 3 3 ∧ ties 2 [1, 2, 2, 3, 5] = 2 := by
  unfold IsKth countLt countLeR ties
  norm_num [List.filter_cons]

/-- the tie behaviour as coded: two vertices with the same coordinates are never separated, so
    `npart = 2` on two identical points leaves one part empty (the balance claim is only up to ties) -/
example : (([(2 : ℝ), 2].filter (outerB 2 2)).length = 0) := by
  unfold outerB
  norm_num [List.filter_cons]

end Refine.Props.C04Rcb
