import Refine.Lemmas.KexactReal
import Refine.Lemmas.KexactPerm

/-!
  C19, k-exact part: the least-squares quadratic reconstruction of `ref_recon.c`
  (`ref_recon_kexact_with_aux` → `ref_matrix_qr` → `ref_matrix_solve_ab`) reproduces gradient and Hessian
  of every quadratic field at every vertex whose cloud lets the coded solve succeed.
  Exact real arithmetic, over the executable model `Model/Kexact.lean` that is bit-compared with the C
  (streams `kexact_linalg`, `kexact_cloud`, `kexact_mesh`).

  * `kexact_rows_quadratic`, `kexact_rows_quadratic_twod` — Taylor is exact: the coefficient vector
    `(H, ∇f(centre))` satisfies every row the C builds (2-D: with the phantom rows, for the vector the C's
    extra unknowns are forced to).
  * `qr_solves_consistent` — the coded Gram–Schmidt QR followed by the coded elimination returns the
    solution of any consistent system whenever it reports `REF_SUCCESS` (the divisible guards force every
    `r_kk ≠ 0`, i.e. full column rank; `QᵀA = R` upper triangular is proved for the code as written).
  * `kexact_quadratic_exact`, `kexact_quadratic_exact_twod`, `kexactNode_quadratic` — hence exactness at the
    vertex, through the cloud-growth loop (result is the exact one or, when no layer succeeds, zero).
  * `kexact_numbering_independent_quadratic` — two clouds carrying the same quadratic field give the same
    answer at the same point whatever the ids / row order.
  * `lsq_row_order_independent`, `kexact_perm` — for ANY field: the coded chain returns the least-squares
    solution (normal equations + full column rank, both proved for the code as written), so permuting the rows
    — i.e. renumbering the vertices, which only reorders the id-sorted cloud — does not change gradient/Hessian.
  Not proved: that `REF_SUCCESS` itself is invariant under the permutation (both runs are assumed to succeed);
  renumbering at the mesh level (cloud growth commutes with renumbering) — tie + oracle; rounding (modelled,
  not verified).
-/
namespace Refine.Props.C19Kexact
open Refine Refine.Model.Geom Refine.Model.Kexact Refine.ScalarReal Refine.GeomReal Refine.KexactReal

/-- `f(p) = a + g·p + ½ pᵀHp` -/
noncomputable def quad (a : ℝ) (g : V3 ℝ) (H : M6 ℝ) (x y z : ℝ) : ℝ :=
  a + (g.x * x + g.y * y + g.z * z) +
    (1 / 2) * (H.m0 * x * x + 2 * H.m1 * x * y + 2 * H.m2 * x * z + H.m3 * y * y + 2 * H.m4 * y * z +
      H.m5 * z * z)

/-- `∇f` at a point -/
def gradAt (g : V3 ℝ) (H : M6 ℝ) (x y z : ℝ) : V3 ℝ :=
  ⟨g.x + H.m0 * x + H.m1 * y + H.m2 * z, g.y + H.m1 * x + H.m3 * y + H.m4 * z,
   g.z + H.m2 * x + H.m4 * y + H.m5 * z⟩

/-- the exact unknown vector in the C's column order -/
def coef (g : V3 ℝ) (H : M6 ℝ) (x y z : ℝ) : List ℝ :=
  [H.m0, H.m1, H.m2, H.m3, H.m4, H.m5, (gradAt g H x y z).x, (gradAt g H x y z).y, (gradAt g H x y z).z]

/-- an entry carries the field -/
def OnField (a : ℝ) (g : V3 ℝ) (H : M6 ℝ) (it : Item ℝ) : Prop := it.s = quad a g H it.x it.y it.z

/-- every neighbour row is satisfied exactly by the Taylor coefficients at the centre -/
theorem kexact_rows_quadratic (a : ℝ) (g : V3 ℝ) (H : M6 ℝ) (c it : Item ℝ)
    (hc : OnField a g H c) (hit : OnField a g H it) :
    ipl (itemRow c it).1 (coef g H c.x c.y c.z) = (itemRow c it).2 := by
  unfold OnField at hc hit
  simp only [itemRow, geomRow, coef, gradAt, ipl_cons, ipl_nil_left, half_eq, sub_eq, mul_eq, hc, hit, quad]
  ring

/-- the vector the 2-D system (phantom rows included) is consistent with: the two unknowns multiplying
    `dx·dz`, `dy·dz` absorb the phantom rows; the C zeroes those entries afterwards -/
noncomputable def coefTwod (g : V3 ℝ) (H : M6 ℝ) (x y z : ℝ) : List ℝ :=
  let gx := (gradAt g H x y z).x
  let gy := (gradAt g H x y z).y
  [H.m0, H.m1, -(1 / 2 * H.m0 + gx), H.m3, -(1 / 2 * H.m3 + gy), 0, gx, gy, 0]

/-- 2-D: a field quadratic in x, y on a cloud of constant z satisfies every row, phantom rows included -/
theorem kexact_rows_quadratic_twod (a : ℝ) (g : V3 ℝ) (H : M6 ℝ) (c it : Item ℝ)
    (hg : g.z = 0) (h2 : H.m2 = 0) (h4 : H.m4 = 0) (h5 : H.m5 = 0)
    (hc : OnField a g H c) (hit : OnField a g H it) (hz : it.z = c.z) :
    ipl (itemRow c it).1 (coefTwod g H c.x c.y c.z) = (itemRow c it).2 ∧
    ∀ p ∈ (twodRows : List (List ℝ × ℝ)), ipl p.1 (coefTwod g H c.x c.y c.z) = p.2 := by
  unfold OnField at hc hit
  refine ⟨?_, ?_⟩
  · simp only [itemRow, geomRow, coefTwod, gradAt, ipl_cons, ipl_nil_left, half_eq, sub_eq, mul_eq, hc, hit,
      quad, hg, h2, h4, h5, hz]
    ring
  · intro p hp
    simp only [twodRows, List.mem_cons, List.not_mem_nil, or_false] at hp
    rcases hp with rfl | rfl | rfl | rfl <;>
      simp only [geomRow, coefTwod, gradAt, ipl_cons, ipl_nil_left, half_eq, mul_eq, lit0_eq, lit1_eq,
        lit2_eq, hg, h2, h4, h5] <;> ring

/-- the coded QR + elimination solves every consistent system it accepts: if `A z = b` row by row and the
    model of `ref_matrix_qr`/`ref_matrix_solve_ab` reports success (not `div_zero`, not `ill_conditioned`),
    the returned vector IS `z` -/
theorem qr_solves_consistent (n : ℕ) (rows : List (List ℝ)) (b z x : List ℝ)
    (hrows : rows ≠ []) (hb : b.length = rows.length) (hz : z.length = n)
    (hcons : ∀ i, i < rows.length →
      ∑ j ∈ Finset.range n, z.getD j 0 * (rows.getD i []).getD j 0 = b.getD i 0)
    (h : lsq n rows b = (KSt.ok, x)) : x = z :=
  lsq_consistent n rows b z x hrows hb hz hcons h

/-- the structural fact behind it, for the Gram–Schmidt exactly as coded (`r[k,j]` from the ORIGINAL column,
    update of the working column): on success `Qᵀ A = R`, upper triangular, rows stored from the diagonal -/
theorem qr_QtA (rows : List (List ℝ)) (n : ℕ) (Q R : List (List ℝ)) (hrows : rows ≠ [])
    (h : qr (columns n rows) = some (Q, R)) : QtA rows.length Q R (columns n rows) := by
  have hlen : ∀ a ∈ columns n rows, a.length = rows.length := by
    intro a ha
    simp only [columns, List.mem_map] at ha
    obtain ⟨j, _, rfl⟩ := ha
    exact column_length rows j
  have hpair : List.Forall₂ (Pair rows.length []) (columns n rows) (columns n rows) := by
    rw [List.forall₂_same]
    exact fun a ha => ⟨hlen a ha, by simp, fun _ _ => rfl⟩
  exact (qrLoop_spec rows.length (List.length_pos_iff.mpr hrows) _ _ [] Q R hlen hpair h).2.1

/-- rows with nine literal entries: the indexed row equation is the plain dot product -/
theorem sum9 (r z : List ℝ) (hr : r.length = 9) (hz : z.length = 9) :
    ∑ j ∈ Finset.range 9, z.getD j 0 * r.getD j 0 = ipl r z := by
  match r, z, hr, hz with
  | [r0, r1, r2, r3, r4, r5, r6, r7, r8], [z0, z1, z2, z3, z4, z5, z6, z7, z8], _, _ =>
    simp [Finset.sum_range_succ, ipl_cons]
    ring

theorem geomRow_length (dx dy dz : ℝ) : (geomRow dx dy dz).length = 9 := rfl

/-- the common core: rows (each of length 9) consistent with a 9-vector `z`, solve succeeded ⇒ solution `z` -/
theorem lsq9_consistent (rws : List (List ℝ × ℝ)) (z x : List ℝ) (hne : rws ≠ []) (hz : z.length = 9)
    (hlen : ∀ p ∈ rws, p.1.length = 9) (hcons : ∀ p ∈ rws, ipl p.1 z = p.2)
    (h : lsq 9 (rws.map (·.1)) (rws.map (·.2)) = (KSt.ok, x)) : x = z := by
  refine lsq_consistent 9 _ _ z x (by simpa using hne) (by simp) hz ?_ h
  intro i hi
  rw [List.length_map] at hi
  have h1 : (rws.map (·.1)).getD i [] = (rws[i]).1 := by
    simp [List.getD_eq_getElem?_getD, hi]
  have h2 : (rws.map (·.2)).getD i 0 = (rws[i]).2 := by
    simp [List.getD_eq_getElem?_getD, hi]
  rw [h1, h2, sum9 _ z (hlen _ (List.getElem_mem hi)) hz]
  exact hcons _ (List.getElem_mem hi)

/-- the shared core of the exactness theorems: if every row the C builds is satisfied by a 9-vector `z`
    and `ref_recon_kexact_with_aux` returns `REF_SUCCESS`, its outputs are the entries of `z` -/
theorem kexactWithAux_consistent (center : Int) (cloud : List (Item ℝ)) (twod : Bool) (c : Item ℝ)
    (z : List ℝ) (gr : V3 ℝ) (he : M6 ℝ) (hz : z.length = 9)
    (hfind : cloud.find? (fun it => it.g == center) = some c)
    (hrows : ∀ p ∈ rowsOf c cloud twod, p.1.length = 9 ∧ ipl p.1 z = p.2)
    (h : kexactWithAux center cloud twod = (KSt.ok, gr, he)) :
    gr = ⟨z.getD 6 0, z.getD 7 0, z.getD 8 0⟩ ∧
    he = ⟨z.getD 0 0, z.getD 1 0, z.getD 2 0, z.getD 3 0, z.getD 4 0, z.getD 5 0⟩ := by
  unfold kexactWithAux at h
  rw [hfind] at h
  dsimp only at h
  split at h
  · simp at h
  · rename_i hlen9
    have hne : rowsOf c cloud twod ≠ [] := by
      intro h0; rw [h0] at hlen9; simp at hlen9
    split at h
    · rename_i x hl
      have hx := lsq9_consistent _ z x hne hz (fun p hp => (hrows p hp).1)
        (fun p hp => (hrows p hp).2) hl
      simp only [Prod.mk.injEq, true_and] at h
      obtain ⟨rfl, rfl⟩ := h
      subst hx
      simp
    · rename_i st x hst hl
      simp only [Prod.mk.injEq] at h
      exact absurd h.1 hst

/-- `ref_recon_kexact_with_aux`, 3-D: on any cloud whose entries carry a quadratic field, a `REF_SUCCESS`
    return delivers the exact gradient at the centre and the exact Hessian -/
theorem kexact_quadratic_exact (a : ℝ) (g : V3 ℝ) (H : M6 ℝ) (center : Int) (cloud : List (Item ℝ))
    (c : Item ℝ) (gr : V3 ℝ) (he : M6 ℝ)
    (hfield : ∀ it ∈ cloud, OnField a g H it)
    (hfind : cloud.find? (fun it => it.g == center) = some c)
    (h : kexactWithAux center cloud false = (KSt.ok, gr, he)) :
    gr = gradAt g H c.x c.y c.z ∧ he = H := by
  have hcmem : c ∈ cloud := List.mem_of_find?_eq_some hfind
  have hrows : ∀ p ∈ rowsOf c cloud false, p.1.length = 9 ∧ ipl p.1 (coef g H c.x c.y c.z) = p.2 := by
    intro p hp
    simp only [rowsOf, Bool.false_eq_true, if_false, List.nil_append, List.mem_map, List.mem_filter] at hp
    obtain ⟨it, ⟨hit, _⟩, rfl⟩ := hp
    exact ⟨rfl, kexact_rows_quadratic a g H c it (hfield c hcmem) (hfield it hit)⟩
  obtain ⟨h1, h2⟩ := kexactWithAux_consistent center cloud false c _ gr he rfl hfind hrows h
  rw [h1, h2]
  simp [coef]

/-- `ref_recon_kexact_with_aux`, 2-D (four phantom rows): for a field quadratic in x, y on a planar cloud the
    in-plane entries are exact (the z entries are overwritten with zero by the caller, see `kexactNode`) -/
theorem kexact_quadratic_exact_twod (a : ℝ) (g : V3 ℝ) (H : M6 ℝ) (center : Int) (cloud : List (Item ℝ))
    (c : Item ℝ) (gr : V3 ℝ) (he : M6 ℝ)
    (hg : g.z = 0) (h2 : H.m2 = 0) (h4 : H.m4 = 0) (h5 : H.m5 = 0)
    (hfield : ∀ it ∈ cloud, OnField a g H it)
    (hfind : cloud.find? (fun it => it.g == center) = some c)
    (hplane : ∀ it ∈ cloud, it.z = c.z)
    (h : kexactWithAux center cloud true = (KSt.ok, gr, he)) :
    gr.x = (gradAt g H c.x c.y c.z).x ∧ gr.y = (gradAt g H c.x c.y c.z).y ∧
    he.m0 = H.m0 ∧ he.m1 = H.m1 ∧ he.m3 = H.m3 := by
  have hcmem : c ∈ cloud := List.mem_of_find?_eq_some hfind
  have hrows : ∀ p ∈ rowsOf c cloud true, p.1.length = 9 ∧ ipl p.1 (coefTwod g H c.x c.y c.z) = p.2 := by
    intro p hp
    simp only [rowsOf, if_true, List.mem_append, List.mem_map, List.mem_filter] at hp
    rcases hp with hp | ⟨it, ⟨hit, _⟩, rfl⟩
    · refine ⟨?_, (kexact_rows_quadratic_twod a g H c c hg h2 h4 h5 (hfield c hcmem) (hfield c hcmem) rfl).2 p hp⟩
      simp only [twodRows, List.mem_cons, List.not_mem_nil, or_false] at hp
      rcases hp with rfl | rfl | rfl | rfl <;> rfl
    · exact ⟨rfl, (kexact_rows_quadratic_twod a g H c it hg h2 h4 h5 (hfield c hcmem) (hfield it hit)
        (hplane it hit)).1⟩
  obtain ⟨h1, h2'⟩ := kexactWithAux_consistent center cloud true c _ gr he rfl hfind hrows h
  rw [h1, h2']
  simp [coefTwod]

/-! ### through the cloud-growth loop -/

theorem store_mem {it x : Item ℝ} : ∀ {c : List (Item ℝ)}, x ∈ store c it → x ∈ c ∨ x = it
  | [], h => by simp [store] at h; exact Or.inr h
  | hd :: t, h => by
    unfold store at h
    split at h
    · rcases List.mem_cons.mp h with rfl | h
      · exact Or.inr rfl
      · exact Or.inl (by simp [h])
    · split at h
      · rcases List.mem_cons.mp h with rfl | h
        · exact Or.inr rfl
        · exact Or.inl h
      · rcases List.mem_cons.mp h with rfl | h
        · exact Or.inl (by simp)
        · rcases store_mem h with h | h
          · exact Or.inl (by simp [h])
          · exact Or.inr h

theorem storeAll_all {P : Item ℝ → Prop} : ∀ (its c : List (Item ℝ)), (∀ x ∈ c, P x) → (∀ x ∈ its, P x) →
    ∀ x ∈ storeAll c its, P x
  | [], c, hc, _, x, hx => hc x (by simpa [storeAll] using hx)
  | it :: its, c, hc, hi, x, hx => by
    have hstep : ∀ y ∈ store c it, P y := fun y hy => by
      rcases store_mem hy with hy | rfl
      · exact hc y hy
      · exact hi _ (by simp)
    exact storeAll_all its (store c it) hstep (fun y hy => hi y (by simp [hy])) x
      (by simpa [storeAll] using hx)

theorem grow_all {P : Item ℝ → Prop} (layerOf : Int → List (Item ℝ)) (hl : ∀ k, ∀ x ∈ layerOf k, P x)
    (c : List (Item ℝ)) (hc : ∀ x ∈ c, P x) : ∀ x ∈ grow layerOf c, P x := by
  unfold grow
  have key : ∀ (ps acc : List (Item ℝ)), (∀ x ∈ acc, P x) →
      ∀ x ∈ ps.foldl (fun acc p => storeAll acc (layerOf p.g)) acc, P x := by
    intro ps
    induction ps with
    | nil => intro acc hacc; simpa using hacc
    | cons p ps ih =>
      intro acc hacc
      simp only [List.foldl_cons]
      exact ih _ (storeAll_all _ acc hacc (hl p.g))
  exact key c c hc

theorem kexactWithAux_zero_unless_ok (center : Int) (cloud : List (Item ℝ)) (twod : Bool)
    (h : (kexactWithAux center cloud twod).1 ≠ KSt.ok) :
    (kexactWithAux center cloud twod).2 = (V3.zero, zero6) := by
  unfold kexactWithAux at h ⊢
  cases hf : cloud.find? (fun it => it.g == center) with
  | none => rfl
  | some c =>
    rw [hf] at h
    dsimp only at h ⊢
    by_cases hnl : (rowsOf c cloud twod).length < 9
    · rw [if_pos hnl]
    · rw [if_neg hnl] at h ⊢
      split
      · rename_i x hl; rw [hl] at h; exact absurd rfl h
      · rfl

/-- the layer loop of `ref_recon_kexact_gradient_hessian` at one vertex: whatever number of layers it takes,
    the result is either what a successful attempt produced on a cloud of admissible entries (`P`), or — when no
    layer up to 8 gave an acceptable system, or the vertex has no cell — the zeros the C silently leaves -/
theorem layerLoop_cases (P : Item ℝ → Prop) (E : V3 ℝ × M6 ℝ → Item ℝ → Prop)
    (layerOf : Int → List (Item ℝ)) (center : Int) (twod : Bool)
    (hl : ∀ k, ∀ x ∈ layerOf k, P x)
    (hatt : ∀ (cloud : List (Item ℝ)) (c : Item ℝ) (gr : V3 ℝ) (he : M6 ℝ), (∀ x ∈ cloud, P x) →
      cloud.find? (fun it => it.g == center) = some c →
      kexactWithAux center cloud twod = (KSt.ok, gr, he) → E (gr, he) c) :
    ∀ (fuel : ℕ) (cloud : List (Item ℝ)), (∀ x ∈ cloud, P x) →
      (layerLoop layerOf center twod fuel cloud = (V3.zero, zero6)) ∨
      ∃ c : Item ℝ, c.g = center ∧ P c ∧ E (layerLoop layerOf center twod fuel cloud) c := by
  intro fuel
  induction fuel with
  | zero => intro cloud _; exact Or.inl rfl
  | succ f ih =>
    intro cloud hc
    have hg := grow_all layerOf hl cloud hc
    unfold layerLoop
    dsimp only
    cases hk : kexactWithAux center (grow layerOf cloud) twod with
    | mk st gh =>
      obtain ⟨gr, he⟩ := gh
      cases st with
      | ok =>
        dsimp only
        cases hf : (grow layerOf cloud).find? (fun it => it.g == center) with
        | none =>
          unfold kexactWithAux at hk; rw [hf] at hk; simp at hk
        | some c =>
          refine Or.inr ⟨c, ?_, hg c (List.mem_of_find?_eq_some hf), hatt _ c gr he hg hf hk⟩
          have := List.find?_some hf
          simpa using this
      | notFound =>
        dsimp only
        have := kexactWithAux_zero_unless_ok center (grow layerOf cloud) twod (by rw [hk]; simp)
        rw [hk] at this
        exact Or.inl this
      | divZero => exact ih _ hg
      | illConditioned => exact ih _ hg
      | failure => exact ih _ hg
      | invalid => exact ih _ hg

/-- one vertex, 3-D: exact gradient/Hessian of the quadratic field at an admissible entry carrying the id of
    the vertex, or zeros -/
theorem kexactNode_quadratic (a : ℝ) (g : V3 ℝ) (H : M6 ℝ) (P : Item ℝ → Prop)
    (layerOf : Int → List (Item ℝ)) (center : Int)
    (hP : ∀ x, P x → OnField a g H x) (hl : ∀ k, ∀ x ∈ layerOf k, P x) :
    (kexactNode layerOf center false = (V3.zero, zero6)) ∨
    ∃ c : Item ℝ, c.g = center ∧ P c ∧
      kexactNode layerOf center false = (gradAt g H c.x c.y c.z, H) := by
  unfold kexactNode
  rcases layerLoop_cases P (fun r c => r = (gradAt g H c.x c.y c.z, H)) layerOf center false hl
      (fun cloud c gr he hc hf hk => by
        obtain ⟨h1, h2⟩ := kexact_quadratic_exact a g H center cloud c gr he (fun it hi => hP it (hc it hi)) hf hk
        rw [h1, h2])
      7 (layerOf center) (hl center) with h | ⟨c, h1, h2, h3⟩
  · left; rw [h]; rfl
  · right; exact ⟨c, h1, h2, by rw [h3]; rfl⟩

/-- one vertex, 2-D (phantom rows, z entries overwritten with zero): exact for fields quadratic in x, y on a
    planar cloud, or zeros -/
theorem kexactNode_quadratic_twod (a : ℝ) (g : V3 ℝ) (H : M6 ℝ) (z0 : ℝ) (P : Item ℝ → Prop)
    (layerOf : Int → List (Item ℝ)) (center : Int)
    (hg : g.z = 0) (h2 : H.m2 = 0) (h4 : H.m4 = 0) (h5 : H.m5 = 0)
    (hP : ∀ x, P x → OnField a g H x ∧ x.z = z0) (hl : ∀ k, ∀ x ∈ layerOf k, P x) :
    (kexactNode layerOf center true = (V3.zero, zero6)) ∨
    ∃ c : Item ℝ, c.g = center ∧ P c ∧
      kexactNode layerOf center true = (gradAt g H c.x c.y c.z, H) := by
  unfold kexactNode
  rcases layerLoop_cases P (fun r c => r.1.x = (gradAt g H c.x c.y c.z).x ∧ r.1.y = (gradAt g H c.x c.y c.z).y ∧
        r.2.m0 = H.m0 ∧ r.2.m1 = H.m1 ∧ r.2.m3 = H.m3) layerOf center true hl
      (fun cloud c gr he hc hf hk =>
        kexact_quadratic_exact_twod a g H center cloud c gr he hg h2 h4 h5 (fun it hi => (hP it (hc it hi)).1) hf
          (fun it hi => by
            rw [(hP it (hc it hi)).2, (hP c (hc c (List.mem_of_find?_eq_some hf))).2]) hk)
      7 (layerOf center) (hl center) with h | ⟨c, h1, hc, e1, e2, e3, e4, e5⟩
  · left; rw [h]; simp [V3.zero, zero6]
  · right
    refine ⟨c, h1, hc, ?_⟩
    generalize layerLoop layerOf center true 7 (layerOf center) = r at e1 e2 e3 e4 e5 ⊢
    obtain ⟨⟨rx, ry, rz⟩, ⟨m0, m1, m2, m3, m4, m5⟩⟩ := r
    obtain ⟨H0, H1, H2, H3, H4, H5⟩ := H
    simp only [gradAt] at e1 e2 e3 e4 e5 h2 h4 h5
    subst h2 h4 h5 e1 e2 e3 e4 e5
    simp [gradAt, hg, lit0_eq]

/-! ### the whole mesh -/

theorem modify_all {Q : List (Item ℝ) → Prop} (f : List (Item ℝ) → List (Item ℝ)) (hf : ∀ L, Q L → Q (f L)) :
    ∀ (acc : List (List (Item ℝ))) (v : ℕ), (∀ L ∈ acc, Q L) → ∀ L ∈ acc.modify v f, Q L
  | [], v, _, L, hL => by simp at hL
  | A :: acc, 0, h, L, hL => by
    simp only [List.modify_zero_cons, List.mem_cons] at hL
    rcases hL with rfl | hL
    · exact hf A (h A (by simp))
    · exact h L (by simp [hL])
  | A :: acc, v + 1, h, L, hL => by
    simp only [List.modify_succ_cons, List.mem_cons] at hL
    rcases hL with rfl | hL
    · exact h L (by simp)
    · exact modify_all f hf acc v (fun L' hL' => h L' (by simp [hL'])) L hL

/-- the cloud entry `ref_recon_local_immediate_cloud` stores for vertex `i` -/
noncomputable def itemOf (xyz : List (V3 ℝ)) (s : List ℝ) (i : ℕ) : Item ℝ :=
  ⟨(i : Int), (xyz.getD i V3.zero).x, (xyz.getD i V3.zero).y, (xyz.getD i V3.zero).z, s.getD i 0⟩

theorem oneLayer_items (xyz : List (V3 ℝ)) (s : List ℝ) (cells : List (List ℕ))
    (hcells : ∀ cell ∈ cells, ∀ v ∈ cell, v < xyz.length) :
    ∀ L ∈ oneLayer xyz s cells, ∀ it ∈ L, ∃ j, j < xyz.length ∧ it = itemOf xyz s j := by
  unfold oneLayer
  dsimp only
  have hitem : ∀ i : ℕ, (⟨(i : Int), (xyz.getD i V3.zero).x, (xyz.getD i V3.zero).y, (xyz.getD i V3.zero).z,
      s.getD i lit0⟩ : Item ℝ) = itemOf xyz s i := fun i => by simp [itemOf, lit0_eq]
  have outer : ∀ (cs : List (List ℕ)) (acc : List (List (Item ℝ))),
      (∀ cell ∈ cs, ∀ v ∈ cell, v < xyz.length) →
      (∀ L ∈ acc, ∀ it ∈ L, ∃ j, j < xyz.length ∧ it = itemOf xyz s j) →
      ∀ L ∈ cs.foldl (fun acc cell => cell.foldl (fun a v => a.modify v (fun c => storeAll c
          (cell.map (fun (i : ℕ) => (⟨(i : Int), (xyz.getD i V3.zero).x, (xyz.getD i V3.zero).y,
            (xyz.getD i V3.zero).z, s.getD i lit0⟩ : Item ℝ))))) acc) acc,
        ∀ it ∈ L, ∃ j, j < xyz.length ∧ it = itemOf xyz s j := by
    intro cs
    induction cs with
    | nil => intro acc _ h; simpa using h
    | cons cell cs ih =>
      intro acc hcs hacc
      simp only [List.foldl_cons]
      refine ih _ (fun c hc => hcs c (by simp [hc])) ?_
      have hnew : ∀ it ∈ cell.map (fun (i : ℕ) => (⟨(i : Int), (xyz.getD i V3.zero).x, (xyz.getD i V3.zero).y,
          (xyz.getD i V3.zero).z, s.getD i lit0⟩ : Item ℝ)), ∃ j, j < xyz.length ∧ it = itemOf xyz s j := by
        intro it hit
        obtain ⟨i, hi, rfl⟩ := List.mem_map.mp hit
        exact ⟨i, hcs cell (by simp) i hi, hitem i⟩
      have inner : ∀ (vs : List ℕ) (acc : List (List (Item ℝ))),
          (∀ L ∈ acc, ∀ it ∈ L, ∃ j, j < xyz.length ∧ it = itemOf xyz s j) →
          ∀ L ∈ vs.foldl (fun a v => a.modify v (fun c => storeAll c
            (cell.map (fun (i : ℕ) => (⟨(i : Int), (xyz.getD i V3.zero).x, (xyz.getD i V3.zero).y,
              (xyz.getD i V3.zero).z, s.getD i lit0⟩ : Item ℝ))))) acc,
            ∀ it ∈ L, ∃ j, j < xyz.length ∧ it = itemOf xyz s j := by
        intro vs
        induction vs with
        | nil => intro acc h; simpa using h
        | cons v vs ihv =>
          intro acc h
          simp only [List.foldl_cons]
          exact ihv _ (modify_all _ (fun L hL => storeAll_all _ L hL hnew) acc v h)
      exact inner cell acc hacc
  exact outer cells _ hcells (by
    intro L hL
    rw [List.mem_replicate] at hL
    rw [hL.2]; simp)

/-- `ref_recon_kexact_gradient_hessian` (hence `ref_recon_gradient`/`ref_recon_signed_hessian` with
    `REF_RECON_KEXACT`, serial): on a mesh whose nodal values are a quadratic function of the coordinates, every
    vertex — interior or boundary — receives the exact gradient and Hessian at its own position, or (no
    acceptable stencil within 8 layers / no cell) zero.  2-D: field quadratic in x, y, planar mesh. -/
theorem kexactGradHess_quadratic (a : ℝ) (g : V3 ℝ) (H : M6 ℝ) (twod : Bool) (z0 : ℝ)
    (xyz : List (V3 ℝ)) (s : List ℝ) (cells : List (List ℕ))
    (hcells : ∀ cell ∈ cells, ∀ v ∈ cell, v < xyz.length)
    (hfield : ∀ i, i < xyz.length →
      s.getD i 0 = quad a g H (xyz.getD i V3.zero).x (xyz.getD i V3.zero).y (xyz.getD i V3.zero).z)
    (h2d : twod = true → g.z = 0 ∧ H.m2 = 0 ∧ H.m4 = 0 ∧ H.m5 = 0 ∧
      ∀ i, i < xyz.length → (xyz.getD i V3.zero).z = z0)
    (i : ℕ) (hi : i < xyz.length) :
    (kexactGradHess twod xyz s cells).getD i (V3.zero, zero6) = (V3.zero, zero6) ∨
    (kexactGradHess twod xyz s cells).getD i (V3.zero, zero6) =
      (gradAt g H (xyz.getD i V3.zero).x (xyz.getD i V3.zero).y (xyz.getD i V3.zero).z, H) := by
  unfold kexactGradHess
  dsimp only
  rw [List.getD_eq_getElem?_getD, List.getElem?_map, List.getElem?_range hi]
  simp only [Option.map_some, Option.getD_some]
  set layerOf : Int → List (Item ℝ) :=
    fun k => if k < 0 then [] else (oneLayer xyz s cells).getD k.toNat [] with hlo
  let P : Item ℝ → Prop := fun it => ∃ j, j < xyz.length ∧ it = itemOf xyz s j
  have hl : ∀ k, ∀ x ∈ layerOf k, P x := by
    intro k x hx
    simp only [hlo] at hx
    split at hx
    · simp at hx
    · rw [List.getD_eq_getElem?_getD] at hx
      cases hL : (oneLayer xyz s cells)[k.toNat]? with
      | none => rw [hL] at hx; simp at hx
      | some L =>
        rw [hL] at hx
        exact oneLayer_items xyz s cells hcells L (List.mem_of_getElem? hL) x hx
  have hPf : ∀ x, P x → OnField a g H x := by
    rintro x ⟨j, hj, rfl⟩
    exact hfield j hj
  have hpos : ∀ c : Item ℝ, c.g = Int.ofNat i → P c → c = itemOf xyz s i := by
    rintro c hc ⟨j, _, rfl⟩
    have : j = i := by simpa [itemOf] using hc
    rw [this]
  cases twod with
  | false =>
    rcases kexactNode_quadratic a g H P layerOf (Int.ofNat i) hPf hl with h | ⟨c, h1, h2, h3⟩
    · exact Or.inl h
    · right; rw [h3, hpos c h1 h2]; rfl
  | true =>
    obtain ⟨hg, k2, k4, k5, hz⟩ := h2d rfl
    have hPz : ∀ x, P x → OnField a g H x ∧ x.z = z0 := by
      rintro x ⟨j, hj, rfl⟩
      exact ⟨hfield j hj, hz j hj⟩
    rcases kexactNode_quadratic_twod a g H z0 P layerOf (Int.ofNat i) hg k2 k4 k5 hPz hl with h | ⟨c, h1, h2, h3⟩
    · exact Or.inl h
    · right; rw [h3, hpos c h1 h2]; rfl

/-- numbering independence on quadratic fields: two clouds (any ids, any order, any extent) carrying the same
    quadratic field, centres at the same point — if both solves succeed the answers coincide -/
theorem kexact_numbering_independent_quadratic (a : ℝ) (g : V3 ℝ) (H : M6 ℝ)
    (center center' : Int) (cloud cloud' : List (Item ℝ)) (c c' : Item ℝ) (gr gr' : V3 ℝ) (he he' : M6 ℝ)
    (hfield : ∀ it ∈ cloud, OnField a g H it) (hfield' : ∀ it ∈ cloud', OnField a g H it)
    (hfind : cloud.find? (fun it => it.g == center) = some c)
    (hfind' : cloud'.find? (fun it => it.g == center') = some c')
    (hpos : c.x = c'.x ∧ c.y = c'.y ∧ c.z = c'.z)
    (h : kexactWithAux center cloud false = (KSt.ok, gr, he))
    (h' : kexactWithAux center' cloud' false = (KSt.ok, gr', he')) :
    gr = gr' ∧ he = he' := by
  obtain ⟨h1, h2⟩ := kexact_quadratic_exact a g H center cloud c gr he hfield hfind h
  obtain ⟨h1', h2'⟩ := kexact_quadratic_exact a g H center' cloud' c' gr' he' hfield' hfind' h'
  rw [h1, h2, h1', h2', hpos.1, hpos.2.1, hpos.2.2]
  exact ⟨rfl, rfl⟩

/-! ### numbering independence for arbitrary fields -/

/-- the coded QR + elimination returns the least-squares solution, which does not depend on the order of the
    rows: any right-hand side, consistent or not -/
theorem lsq_row_order_independent (n : ℕ) (rws rws' : List (List ℝ × ℝ)) (hp : rws.Perm rws') (x x' : List ℝ)
    (h : lsq n (rws.map (·.1)) (rws.map (·.2)) = (KSt.ok, x))
    (h' : lsq n (rws'.map (·.1)) (rws'.map (·.2)) = (KSt.ok, x')) : x = x' :=
  lsq_perm n rws rws' hp x x' h h'

/-- what a cloud entry contributes besides its id -/
def payload (it : Item ℝ) : ℝ × ℝ × ℝ × ℝ := (it.x, it.y, it.z, it.s)

theorem itemRow_payload (c c' it it' : Item ℝ) (hc : payload c = payload c') (hi : payload it = payload it') :
    itemRow c it = itemRow c' it' := by
  simp only [payload, Prod.mk.injEq] at hc hi
  obtain ⟨h1, h2, h3, h4⟩ := hc
  obtain ⟨k1, k2, k3, k4⟩ := hi
  simp only [itemRow, h1, h2, h3, h4, k1, k2, k3, k4]

/-- `ref_recon_kexact_with_aux` on two clouds that hold the same points and values under different ids (hence
    in a different order, the cloud being sorted by id), same centre: when both return `REF_SUCCESS` the
    gradients and Hessians are equal — for any field, 3-D or 2-D -/
theorem kexact_perm (center center' : Int) (cloud cloud' : List (Item ℝ)) (twod : Bool) (c c' : Item ℝ)
    (gr gr' : V3 ℝ) (he he' : M6 ℝ)
    (hfind : cloud.find? (fun it => it.g == center) = some c)
    (hfind' : cloud'.find? (fun it => it.g == center') = some c')
    (hc : payload c = payload c')
    (hp : ((cloud.filter (fun it => it.g != c.g)).map payload).Perm
          ((cloud'.filter (fun it => it.g != c'.g)).map payload))
    (h : kexactWithAux center cloud twod = (KSt.ok, gr, he))
    (h' : kexactWithAux center' cloud' twod = (KSt.ok, gr', he')) : gr = gr' ∧ he = he' := by
  -- rows are a function of the payloads only
  let rowOf : ℝ × ℝ × ℝ × ℝ → List ℝ × ℝ := fun q => itemRow c ⟨0, q.1, q.2.1, q.2.2.1, q.2.2.2⟩
  have hrow : ∀ (d it : Item ℝ), payload d = payload c → itemRow d it = rowOf (payload it) := fun d it hd =>
    itemRow_payload d c it _ hd rfl
  have hrows : (rowsOf c cloud twod).Perm (rowsOf c' cloud' twod) := by
    unfold rowsOf
    refine List.Perm.append_left _ ?_
    have e1 : (cloud.filter (fun it => it.g != c.g)).map (itemRow c) =
        ((cloud.filter (fun it => it.g != c.g)).map payload).map rowOf := by
      rw [List.map_map]; exact List.map_congr_left (fun it _ => hrow c it rfl)
    have e2 : (cloud'.filter (fun it => it.g != c'.g)).map (itemRow c') =
        ((cloud'.filter (fun it => it.g != c'.g)).map payload).map rowOf := by
      rw [List.map_map]; exact List.map_congr_left (fun it _ => hrow c' it hc.symm)
    rw [e1, e2]
    exact hp.map _
  -- unfold both calls down to the least-squares chain
  have key : ∀ (ctr : Int) (cl : List (Item ℝ)) (cc : Item ℝ) (g : V3 ℝ) (hh : M6 ℝ),
      cl.find? (fun it => it.g == ctr) = some cc → kexactWithAux ctr cl twod = (KSt.ok, g, hh) →
      ∃ x, lsq 9 ((rowsOf cc cl twod).map (·.1)) ((rowsOf cc cl twod).map (·.2)) = (KSt.ok, x) ∧
        g = ⟨x.getD 6 0, x.getD 7 0, x.getD 8 0⟩ ∧
        hh = ⟨x.getD 0 0, x.getD 1 0, x.getD 2 0, x.getD 3 0, x.getD 4 0, x.getD 5 0⟩ := by
    intro ctr cl cc g hh hf hk
    unfold kexactWithAux at hk
    rw [hf] at hk
    dsimp only at hk
    split at hk
    · simp at hk
    · split at hk
      · rename_i x hl
        simp only [Prod.mk.injEq, true_and] at hk
        obtain ⟨rfl, rfl⟩ := hk
        exact ⟨x, hl, by simp, by simp⟩
      · rename_i st x hst hl
        simp only [Prod.mk.injEq] at hk
        exact absurd hk.1 hst
  obtain ⟨x, hx, rfl, rfl⟩ := key center cloud c gr he hfind h
  obtain ⟨x', hx', rfl, rfl⟩ := key center' cloud' c' gr' he' hfind' h'
  have := lsq_perm 9 _ _ hrows x x' hx hx'
  subst this
  exact ⟨rfl, rfl⟩

/-! ### non-vacuity -/

/-- a concrete 10-point cloud (centre at the origin, nine neighbours `±e_x, ±e_y, ±e_z, (1,1,0), (1,0,1), (0,1,1)`)
    has full column rank: the nine row equations determine the nine unknowns, so the hypotheses of
    `kexact_rows_quadratic` / `qr_solves_consistent` single out exactly one coefficient vector -/
example (z0 z1 z2 z3 z4 z5 z6 z7 z8 : ℝ)
    (h : ∀ p ∈ ([(1, 0, 0), (-1, 0, 0), (0, 1, 0), (0, -1, 0), (0, 0, 1), (0, 0, -1), (1, 1, 0), (1, 0, 1),
        (0, 1, 1)] : List (ℝ × ℝ × ℝ)),
      ipl (geomRow p.1 p.2.1 p.2.2) [z0, z1, z2, z3, z4, z5, z6, z7, z8] = 0) :
    [z0, z1, z2, z3, z4, z5, z6, z7, z8] = [0, 0, 0, 0, 0, 0, 0, 0, 0] := by
  simp only [List.mem_cons, List.not_mem_nil, or_false, forall_eq_or_imp, forall_eq, geomRow, ipl_cons,
    ipl_nil_left, half_eq, mul_eq] at h
  obtain ⟨h1, h2, h3, h4, h5, h6, h7, h8, h9⟩ := h
  have e0 : z0 = 0 := by linarith
  have e6 : z6 = 0 := by linarith
  have e3 : z3 = 0 := by linarith
  have e7 : z7 = 0 := by linarith
  have e5 : z5 = 0 := by linarith
  have e8 : z8 = 0 := by linarith
  have e1 : z1 = 0 := by linarith
  have e2 : z2 = 0 := by linarith
  have e4 : z4 = 0 := by linarith
  simp [e0, e1, e2, e3, e4, e5, e6, e7, e8]

/-- the success hypothesis of `qr_solves_consistent` is satisfiable: the model, evaluated in exact real
    arithmetic on a 2×2 system whose Gram–Schmidt norms are rational, returns `ok` and the solution.
    (For 9-column clouds the norms are irrational; there the executable `Float` instance, bit-compared with
    the C in stream `kexact_cloud`, is the witness that `ok` occurs.) -/
example : lsq 2 [[3, -8], [4, 6]] [-13, 16] = (KSt.ok, ([1, 2] : List ℝ)) := by
  simp [lsq, qr, qrLoop, columns, column, dotl, axmy, List.range, List.range.loop, lit0_eq]
  norm_num [sqrt25, sqrt100, divisible_iff]
  simp [solveAb, augment, elim, pivotRow, pivotScan, swap0, cabs_eq, lit0_eq, eps13]
  norm_num [divisible_iff, abs_of_pos]
  have hb : backSub ([[1, 0, 1], [1, 2]] : List (List ℝ)) = some [1, 2] := by
    simp [backSub, lit0_eq, divisible_iff]
    norm_num
  rw [hb]
  simp
  norm_num

/-- and `qr_solves_consistent` applies to it -/
example (x : List ℝ) (h : lsq 2 [[3, -8], [4, 6]] [-13, 16] = (KSt.ok, x)) : x = [1, 2] :=
  qr_solves_consistent 2 _ _ [1, 2] x (by simp) rfl rfl (by
    intro i hi
    have : i = 0 ∨ i = 1 := by simp at hi; omega
    rcases this with rfl | rfl <;> simp [Finset.sum_range_succ] <;> norm_num) h

end Refine.Props.C19Kexact
