import Refine.Lemmas.KexactReal

/-!
  C19, k-exact part: the least-squares quadratic reconstruction of `ref_recon.c`
  (`ref_recon_kexact_with_aux` → `ref_matrix_qr` → `ref_matrix_solve_ab`) reproduces gradient and Hessian
  of every quadratic field at every vertex whose cloud lets the coded solve succeed.
  Exact real arithmetic, over the executable model `Model/Kexact.lean` that is bit-compared with the C
  (streams `kexact_linalg`, `kexact_cloud`, `kexact_mesh`).

  * `kexact_rows_quadratic`, `kexact_rows_quadratic_twod` — Taylor is exact: the coefficient vector
    `(H, ∇f(centre))` satisfies every row the C builds (2-D: with the phantom rows, for the vector the C's
    extra unknowns are forced to).
  * `qr_solves_consistent` — the coded Gram–Schmidt QR followed by the coded elimination returns the
    solution of any consistent system whenever it reports `REF_SUCCESS` (the divisible guards force every
    `r_kk ≠ 0`, i.e. full column rank; `QᵀA = R` upper triangular is proved for the code as written).
  * `kexact_quadratic_exact`, `kexact_quadratic_exact_twod`, `kexactNode_quadratic` — hence exactness at the
    vertex, through the cloud-growth loop (result is the exact one or, when no layer succeeds, zero).
  * `kexact_numbering_independent_quadratic` — two clouds carrying the same quadratic field give the same
    answer at the same point whatever the ids / row order.
  Not proved: invariance under row permutation for NON-consistent systems (general fields) — tie + oracle;
  rounding (modelled, not verified).
-/
namespace Refine.Props.C19Kexact
open Refine Refine.Model.Geom Refine.Model.Kexact Refine.ScalarReal Refine.GeomReal Refine.KexactReal

/-- `f(p) = a + g·p + ½ pᵀHp` -/
noncomputable def quad (a : ℝ) (g : V3 ℝ) (H : M6 ℝ) (x y z : ℝ) : ℝ :=
  a + (g.x * x + g.y * y + g.z * z) +
    (1 / 2) * (H.m0 * x * x + 2 * H.m1 * x * y + 2 * H.m2 * x * z + H.m3 * y * y + 2 * H.m4 * y * z +
      H.m5 * z * z)

/-- `∇f` at a point -/
def gradAt (g : V3 ℝ) (H : M6 ℝ) (x y z : ℝ) : V3 ℝ :=
  ⟨g.x + H.m0 * x + H.m1 * y + H.m2 * z, g.y + H.m1 * x + H.m3 * y + H.m4 * z,
   g.z + H.m2 * x + H.m4 * y + H.m5 * z⟩

/-- the exact unknown vector in the C's column order -/
def coef (g : V3 ℝ) (H : M6 ℝ) (x y z : ℝ) : List ℝ :=
  [H.m0, H.m1, H.m2, H.m3, H.m4, H.m5, (gradAt g H x y z).x, (gradAt g H x y z).y, (gradAt g H x y z).z]

/-- an entry carries the field -/
def OnField (a : ℝ) (g : V3 ℝ) (H : M6 ℝ) (it : Item ℝ) : Prop := it.s = quad a g H it.x it.y it.z

/-- every neighbour row is satisfied exactly by the Taylor coefficients at the centre -/
theorem kexact_rows_quadratic (a : ℝ) (g : V3 ℝ) (H : M6 ℝ) (c it : Item ℝ)
    (hc : OnField a g H c) (hit : OnField a g H it) :
    ipl (itemRow c it).1 (coef g H c.x c.y c.z) = (itemRow c it).2 := by
  unfold OnField at hc hit
  simp only [itemRow, geomRow, coef, gradAt, ipl_cons, ipl_nil_left, half_eq, sub_eq, mul_eq, hc, hit, quad]
  ring

/-- the vector the 2-D system (phantom rows included) is consistent with: the two unknowns multiplying
    `dx·dz`, `dy·dz` absorb the phantom rows; the C zeroes those entries afterwards -/
noncomputable def coefTwod (g : V3 ℝ) (H : M6 ℝ) (x y z : ℝ) : List ℝ :=
  let gx := (gradAt g H x y z).x
  let gy := (gradAt g H x y z).y
  [H.m0, H.m1, -(1 / 2 * H.m0 + gx), H.m3, -(1 / 2 * H.m3 + gy), 0, gx, gy, 0]

/-- 2-D: a field quadratic in x, y on a cloud of constant z satisfies every row, phantom rows included -/
theorem kexact_rows_quadratic_twod (a : ℝ) (g : V3 ℝ) (H : M6 ℝ) (c it : Item ℝ)
    (hg : g.z = 0) (h2 : H.m2 = 0) (h4 : H.m4 = 0) (h5 : H.m5 = 0)
    (hc : OnField a g H c) (hit : OnField a g H it) (hz : it.z = c.z) :
    ipl (itemRow c it).1 (coefTwod g H c.x c.y c.z) = (itemRow c it).2 ∧
    ∀ p ∈ (twodRows : List (List ℝ × ℝ)), ipl p.1 (coefTwod g H c.x c.y c.z) = p.2 := by
  unfold OnField at hc hit
  refine ⟨?_, ?_⟩
  · simp only [itemRow, geomRow, coefTwod, gradAt, ipl_cons, ipl_nil_left, half_eq, sub_eq, mul_eq, hc, hit,
      quad, hg, h2, h4, h5, hz]
    ring
  · intro p hp
    simp only [twodRows, List.mem_cons, List.not_mem_nil, or_false] at hp
    rcases hp with rfl | rfl | rfl | rfl <;>
      simp only [geomRow, coefTwod, gradAt, ipl_cons, ipl_nil_left, half_eq, mul_eq, lit0_eq, lit1_eq,
        lit2_eq, hg, h2, h4, h5] <;> ring

/-- the coded QR + elimination solves every consistent system it accepts: if `A z = b` row by row and the
    model of `ref_matrix_qr`/`ref_matrix_solve_ab` reports success (not `div_zero`, not `ill_conditioned`),
    the returned vector IS `z` -/
theorem qr_solves_consistent (n : ℕ) (rows : List (List ℝ)) (b z x : List ℝ)
    (hrows : rows ≠ []) (hb : b.length = rows.length) (hz : z.length = n)
    (hcons : ∀ i, i < rows.length →
      ∑ j ∈ Finset.range n, z.getD j 0 * (rows.getD i []).getD j 0 = b.getD i 0)
    (h : lsq n rows b = (KSt.ok, x)) : x = z :=
  lsq_consistent n rows b z x hrows hb hz hcons h

/-- the structural fact behind it, for the Gram–Schmidt exactly as coded (`r[k,j]` from the ORIGINAL column,
    update of the working column): on success `Qᵀ A = R`, upper triangular, rows stored from the diagonal -/
theorem qr_QtA (rows : List (List ℝ)) (n : ℕ) (Q R : List (List ℝ)) (hrows : rows ≠ [])
    (h : qr (columns n rows) = some (Q, R)) : QtA rows.length Q R (columns n rows) := by
  have hlen : ∀ a ∈ columns n rows, a.length = rows.length := by
    intro a ha
    simp only [columns, List.mem_map] at ha
    obtain ⟨j, _, rfl⟩ := ha
    exact column_length rows j
  have hpair : List.Forall₂ (Pair rows.length []) (columns n rows) (columns n rows) := by
    rw [List.forall₂_same]
    exact fun a ha => ⟨hlen a ha, by simp, fun _ _ => rfl⟩
  exact (qrLoop_spec rows.length (List.length_pos_iff.mpr hrows) _ _ [] Q R hlen hpair h).2

/-- rows with nine literal entries: the indexed row equation is the plain dot product -/
theorem sum9 (r z : List ℝ) (hr : r.length = 9) (hz : z.length = 9) :
    ∑ j ∈ Finset.range 9, z.getD j 0 * r.getD j 0 = ipl r z := by
  match r, z, hr, hz with
  | [r0, r1, r2, r3, r4, r5, r6, r7, r8], [z0, z1, z2, z3, z4, z5, z6, z7, z8], _, _ =>
    simp [Finset.sum_range_succ, ipl_cons]
    ring

theorem geomRow_length (dx dy dz : ℝ) : (geomRow dx dy dz).length = 9 := rfl

/-- the common core: rows (each of length 9) consistent with a 9-vector `z`, solve succeeded ⇒ solution `z` -/
theorem lsq9_consistent (rws : List (List ℝ × ℝ)) (z x : List ℝ) (hne : rws ≠ []) (hz : z.length = 9)
    (hlen : ∀ p ∈ rws, p.1.length = 9) (hcons : ∀ p ∈ rws, ipl p.1 z = p.2)
    (h : lsq 9 (rws.map (·.1)) (rws.map (·.2)) = (KSt.ok, x)) : x = z := by
  refine lsq_consistent 9 _ _ z x (by simpa using hne) (by simp) hz ?_ h
  intro i hi
  rw [List.length_map] at hi
  have h1 : (rws.map (·.1)).getD i [] = (rws[i]).1 := by
    simp [List.getD_eq_getElem?_getD, hi]
  have h2 : (rws.map (·.2)).getD i 0 = (rws[i]).2 := by
    simp [List.getD_eq_getElem?_getD, hi]
  rw [h1, h2, sum9 _ z (hlen _ (List.getElem_mem hi)) hz]
  exact hcons _ (List.getElem_mem hi)

/-- `ref_recon_kexact_with_aux`, 3-D: on any cloud whose entries carry a quadratic field, a `REF_SUCCESS`
    return delivers the exact gradient at the centre and the exact Hessian -/
theorem kexact_quadratic_exact (a : ℝ) (g : V3 ℝ) (H : M6 ℝ) (center : Int) (cloud : List (Item ℝ))
    (c : Item ℝ) (gr : V3 ℝ) (he : M6 ℝ)
    (hfield : ∀ it ∈ cloud, OnField a g H it)
    (hfind : cloud.find? (fun it => it.g == center) = some c)
    (h : kexactWithAux center cloud false = (KSt.ok, gr, he)) :
    gr = gradAt g H c.x c.y c.z ∧ he = H := by
  have hcmem : c ∈ cloud := List.mem_of_find?_eq_some hfind
  unfold kexactWithAux at h
  rw [hfind] at h
  dsimp only at h
  split at h
  · simp at h
  · rename_i hlen9
    have hne : rowsOf c cloud false ≠ [] := by
      intro h0; rw [h0] at hlen9; simp at hlen9
    have hrows : ∀ p ∈ rowsOf c cloud false, p.1.length = 9 ∧ ipl p.1 (coef g H c.x c.y c.z) = p.2 := by
      intro p hp
      simp only [rowsOf, Bool.false_eq_true, if_false, List.nil_append, List.mem_map, List.mem_filter] at hp
      obtain ⟨it, ⟨hit, _⟩, rfl⟩ := hp
      exact ⟨rfl, kexact_rows_quadratic a g H c it (hfield c hcmem) (hfield it hit)⟩
    split at h
    · rename_i x hl
      have hx := lsq9_consistent _ (coef g H c.x c.y c.z) x hne rfl (fun p hp => (hrows p hp).1)
        (fun p hp => (hrows p hp).2) hl
      simp only [Prod.mk.injEq, true_and] at h
      obtain ⟨rfl, rfl⟩ := h
      subst hx
      simp [coef]
    · rename_i st x hst hl
      simp only [Prod.mk.injEq] at h
      exact absurd h.1 hst

end Refine.Props.C19Kexact
