import Refine.Lemmas.MatrixReal

/-! C16: symmetric-matrix kernel (work in progress) -/
namespace Refine.Props.C16
open Refine Refine.Model.Matrix Refine.ScalarReal

/-- matrix functions are well defined: two eigen systems of the same matrix give the same `f(m)` -/
theorem formM_fun_congr {d d' : Eig12 ℝ} {m : M6 ℝ} (f : ℝ → ℝ) (h : IsEigSys d m) (h' : IsEigSys d' m) :
    formM (mapEig f d) = formM (mapEig f d') := Refine.Model.Matrix.formM_fun_congr f h h'

end Refine.Props.C16
