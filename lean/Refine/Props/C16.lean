import Refine.Lemmas.MatrixReal
import Refine.Lemmas.MatrixDiag2
import Refine.Lemmas.MatrixRot0
import Refine.Lemmas.MatrixFun

/-!
  C16 — the symmetric-matrix kernel of `ref_matrix.c` (model: `Refine/Model/Matrix.lean`).

  All theorems over ℝ are about the executable model instantiated at the lawful real instance:
  they hold in exact arithmetic; IEEE rounding is modelled (the `Float` instance is bit-compared with
  the C by the `matrix_*` streams), not verified.

  `IsEigSys d m := Orthonormal d ∧ formM d = m`.  The QL iteration stops on a *threshold*, so the system
  returned by `diagM` reconstructs `m` only up to the dropped sub-diagonal entry; the theorems about
  log/exp/sqrt/intersect/bound therefore take `IsEigSys` of the systems returned by the inner `diagM`
  calls as explicit hypotheses (checked numerically on the implementation by the stream oracles).
-/
namespace Refine.Props.C16
open Refine Refine.Model.Matrix Refine.ScalarReal
open _root_.Matrix

/-! ### non-finite input is rejected by the guard (any scalar instance, in particular `Float`) -/

/-- a non-finite entry makes `ref_matrix_diag_m` return REF_INVALID before anything else happens -/
theorem diagM_nonfinite_invalid {α : Type} [Scalar α] (m : M6 α) (h : m.allFinite = false) :
    diagM m = .error .invalid := by
  unfold diagM; simp [h]

theorem diagM2_nonfinite_invalid {α : Type} [Scalar α] (m : M3 α)
    (h : (Scalar.isFinite m.m11 && Scalar.isFinite m.m12 && Scalar.isFinite m.m22) = false) :
    diagM2 m = .error .invalid := by
  unfold diagM2; simp [h]

/-- every routine that starts with the eigen decomposition propagates REF_INVALID -/
theorem matrix_functions_nonfinite_invalid {α : Type} [Scalar α] (m m2 : M6 α) (h : m.allFinite = false) :
    logM m = .error .invalid ∧ expM m = .error .invalid ∧ sqrtM m = .error .invalid ∧
    sqrtAbsM m = .error .invalid ∧ jacobM m = .error .invalid ∧ healthyM m = .error .invalid ∧
    intersect m m2 = .error .invalid ∧ bound m m2 = .error .invalid := by
  have hd := diagM_nonfinite_invalid m h
  have hs : sqrtM m = .error .invalid := by unfold sqrtM; rw [hd]
  have ha : sqrtAbsM m = .error .invalid := by unfold sqrtAbsM; rw [hd]
  refine ⟨?_, ?_, hs, ha, ?_, ?_, ?_, ?_⟩
  · unfold logM; rw [hd]
  · unfold expM; rw [hd]
  · unfold jacobM; rw [hd]
  · unfold healthyM; rw [hd]
  · unfold intersect; rw [hs]
  · unfold bound; rw [ha]

/-- the guard is reachable: a NaN entry at the `Float` instance -/
example : diagM (⟨1, 0, 0, 1, 0, (0 : Float) / 0⟩ : M6 Float) = .error .invalid :=
  diagM_nonfinite_invalid _ (by decide +kernel)

/-! ### closed-form 2x2 -/

/-- `ref_matrix_diag_m2`: on success the two vectors are orthonormal and `form_m2` gives back m (all branches) -/
theorem diagM2_spec (m : M3 ℝ) (d : Eig6 ℝ) (h : diagM2 m = .ok d) :
    Orthonormal2 d ∧ formM2 d = m := diagM2_spec' m d h

/-- over ℝ the closed form never fails -/
theorem diagM2_total (m : M3 ℝ) : ∃ d, diagM2 m = .ok d := diagM2_total' m

/-! ### first rotation of `ref_matrix_diag_m` -/

/-- the first rotation is an orthogonal similarity: the vectors are orthonormal and
    `Q · tridiag(d; e0, e1) · Qᵀ = m` with the coded d and e (both branches; the `else` branch is the
    identity on an already tridiagonal input), and the QL loop starts with `e[2] = f = tst1 = 0` -/
theorem diagM_rot0 (m : M6 ℝ) :
    Orthonormal (rot0 m).d ∧ tridiagForm (rot0 m).d (rot0 m).e0 (rot0 m).e1 = m ∧
    (rot0 m).e2 = 0 ∧ (rot0 m).f = 0 ∧ (rot0 m).tst1 = 0 :=
  ⟨(rot0_spec m).1, (rot0_spec m).2, rot0_e2 m, rot0_f m, rot0_tst1 m⟩

/-! ### eigen systems, quadratic forms, functions of a matrix -/

/-- `xᵀ (form_m d) x = Σ l_k (v_k · x)²` -/
theorem formM_quadratic_form (d : Eig12 ℝ) (x : Vec3 ℝ) :
    vtMv (formM d) x =
      d.l0 * (d.x0 * x.x + d.y0 * x.y + d.z0 * x.z) ^ 2 +
      d.l1 * (d.x1 * x.x + d.y1 * x.y + d.z1 * x.z) ^ 2 +
      d.l2 * (d.x2 * x.x + d.y2 * x.y + d.z2 * x.z) ^ 2 := by
  simp only [vtMv, formM, mul_eq, add_eq]; ring

/-- matrix functions are well defined: two eigen systems of the same matrix give the same `f(m)` -/
theorem formM_fun_congr {d d' : Eig12 ℝ} {m : M6 ℝ} (f : ℝ → ℝ) (h : IsEigSys d m) (h' : IsEigSys d' m) :
    formM (mapEig f d) = formM (mapEig f d') := Refine.Model.Matrix.formM_fun_congr f h h'

/-- `exp_m (log_m m) = m` for positive eigenvalues, given exact inner decompositions -/
theorem exp_log (m lg : M6 ℝ) (d d' : Eig12 ℝ)
    (h1 : diagM m = .ok d) (he : IsEigSys d m) (hpos : 0 < d.l0 ∧ 0 < d.l1 ∧ 0 < d.l2)
    (hl : logM m = .ok lg) (h2 : diagM lg = .ok d') (he' : IsEigSys d' lg) :
    expM lg = .ok m := by
  unfold logM at hl; rw [h1] at hl
  injection hl with hl
  unfold expM; rw [h2]
  show Except.ok (formM (mapEig Scalar.exp d')) = Except.ok m
  have hsys : IsEigSys (mapEig Scalar.log d) lg := ⟨orthonormal_mapEig _ he.1, hl⟩
  have := Refine.Model.Matrix.formM_fun_congr Scalar.exp he' hsys
  rw [this, mapEig_mapEig]
  have : mapEig (fun t => Scalar.exp (Scalar.log t)) d = d := by
    rw [← mapEig_id d]
    apply mapEig_congr <;> simp only [mapEig_id, exp_eq, log_eq]
    · exact Real.exp_log hpos.1
    · exact Real.exp_log hpos.2.1
    · exact Real.exp_log hpos.2.2
  rw [this, he.2]

/-- `log_m (exp_m m) = m` for every symmetric m, given exact inner decompositions -/
theorem log_exp (m ex : M6 ℝ) (d d' : Eig12 ℝ)
    (h1 : diagM m = .ok d) (he : IsEigSys d m)
    (hx : expM m = .ok ex) (h2 : diagM ex = .ok d') (he' : IsEigSys d' ex) :
    logM ex = .ok m := by
  unfold expM at hx; rw [h1] at hx
  injection hx with hx
  unfold logM; rw [h2]
  show Except.ok (formM (mapEig Scalar.log d')) = Except.ok m
  have hsys : IsEigSys (mapEig Scalar.exp d) ex := ⟨orthonormal_mapEig _ he.1, hx⟩
  have := Refine.Model.Matrix.formM_fun_congr Scalar.log he' hsys
  rw [this, mapEig_mapEig]
  have : mapEig (fun t => Scalar.log (Scalar.exp t)) d = d := by
    rw [← mapEig_id d]
    apply mapEig_congr <;> simp only [mapEig_id, exp_eq, log_eq, Real.log_exp]
  rw [this, he.2]

/-- the matrix facts behind `sqrt_m`: eigenvalues are non-negative with non-zero roots, `s² = m`,
    `s · is = is · s = 1` -/
theorem sqrtM_spec (m s is : M6 ℝ) (d : Eig12 ℝ) (h1 : diagM m = .ok d) (he : IsEigSys d m)
    (h : sqrtM m = .ok (s, is)) :
    (0 < d.l0 ∧ 0 < d.l1 ∧ 0 < d.l2) ∧
    s.toMat * s.toMat = m.toMat ∧ s.toMat * is.toMat = 1 ∧ is.toMat * s.toMat = 1 := by
  unfold sqrtM at h; rw [h1] at h
  simp only at h
  by_cases hneg : (Scalar.lt d.l0 Scalar.zero || Scalar.lt d.l1 Scalar.zero || Scalar.lt d.l2 Scalar.zero) = true
  · rw [if_pos hneg] at h; exact absurd h (by simp)
  rw [if_neg hneg] at h
  simp only [Bool.or_eq_true, lt_iff, zero_eq, not_or, not_lt] at hneg
  obtain ⟨⟨h0, h1'⟩, h2⟩ := hneg
  obtain ⟨r0, r1, r2, hs, his⟩ := sqrtTail_ok h
  have p0 : 0 < d.l0 := lt_of_le_of_ne h0 (fun e => r0 (by rw [← e, Real.sqrt_zero]))
  have p1 : 0 < d.l1 := lt_of_le_of_ne h1' (fun e => r1 (by rw [← e, Real.sqrt_zero]))
  have p2 : 0 < d.l2 := lt_of_le_of_ne h2 (fun e => r2 (by rw [← e, Real.sqrt_zero]))
  have hss : s.toMat * s.toMat = m.toMat := by
    rw [hs, toMat_formM_mul d he.1]
    have : mapEig (fun t => Real.sqrt t * Real.sqrt t) d = d := by
      rw [← mapEig_id d]
      apply mapEig_congr <;> simp only [mapEig_id]
      · exact Real.mul_self_sqrt h0
      · exact Real.mul_self_sqrt h1'
      · exact Real.mul_self_sqrt h2
    rw [this, he.2]
  have hsi : s.toMat * is.toMat = 1 := by
    rw [hs, his, toMat_formM_mul d he.1]
    have : mapEig (fun t => Real.sqrt t * (1 / Real.sqrt t)) d = mapEig (fun _ => (1 : ℝ)) d := by
      apply mapEig_congr
      · field_simp
      · field_simp
      · field_simp
    rw [this, toMat_formM_one d he.1]
  exact ⟨⟨p0, p1, p2⟩, hss, hsi, mul_eq_one_comm.mp hsi⟩

/-- `sqrt_m`: the first result squares to m -/
theorem sqrt_sq (m s is : M6 ℝ) (d : Eig12 ℝ) (h1 : diagM m = .ok d) (he : IsEigSys d m)
    (h : sqrtM m = .ok (s, is)) : s.toMat * s.toMat = m.toMat :=
  (sqrtM_spec m s is d h1 he h).2.1

/-- `sqrt_m`: the two results are inverse to each other -/
theorem sqrt_invsqrt (m s is : M6 ℝ) (d : Eig12 ℝ) (h1 : diagM m = .ok d) (he : IsEigSys d m)
    (h : sqrtM m = .ok (s, is)) : s.toMat * is.toMat = 1 ∧ is.toMat * s.toMat = 1 :=
  (sqrtM_spec m s is d h1 he h).2.2

end Refine.Props.C16
