import Refine.Lemmas.MatrixReal
import Refine.Lemmas.MatrixDiag2
import Refine.Lemmas.MatrixRot0
import Refine.Lemmas.MatrixFun
import Refine.Lemmas.MatrixInv
import Refine.Lemmas.MatrixQL
import Refine.Lemmas.MatrixBlock2

/-!
  C16 — the symmetric-matrix kernel of `ref_matrix.c` (model: `Refine/Model/Matrix.lean`).

  All theorems over ℝ are about the executable model instantiated at the lawful real instance:
  they hold in exact arithmetic; IEEE rounding is modelled (the `Float` instance is bit-compared with
  the C by the `matrix_*` streams), not verified.

  `IsEigSys d m := Orthonormal d ∧ formM d = m`.  The QL iteration stops on a *threshold*, so the system
  returned by `diagM` reconstructs `m` only up to the dropped sub-diagonal entry; the theorems about
  log/exp/sqrt/intersect/bound therefore take `IsEigSys` of the systems returned by the inner `diagM`
  calls as explicit hypotheses (checked numerically on the implementation by the stream oracles).
-/
namespace Refine.Props.C16
open Refine Refine.Model.Matrix Refine.ScalarReal
open _root_.Matrix

/-! ### non-finite input is rejected by the guard (any scalar instance, in particular `Float`) -/

/-- a non-finite entry makes `ref_matrix_diag_m` return REF_INVALID before anything else happens -/
theorem diagM_nonfinite_invalid {α : Type} [Scalar α] (m : M6 α) (h : m.allFinite = false) :
    diagM m = .error .invalid := by
  unfold diagM; simp [h]

theorem diagM2_nonfinite_invalid {α : Type} [Scalar α] (m : M3 α)
    (h : (Scalar.isFinite m.m11 && Scalar.isFinite m.m12 && Scalar.isFinite m.m22) = false) :
    diagM2 m = .error .invalid := by
  unfold diagM2; simp [h]

/-- every routine that starts with the eigen decomposition propagates REF_INVALID -/
theorem matrix_functions_nonfinite_invalid {α : Type} [Scalar α] (m m2 : M6 α) (h : m.allFinite = false) :
    logM m = .error .invalid ∧ expM m = .error .invalid ∧ sqrtM m = .error .invalid ∧
    sqrtAbsM m = .error .invalid ∧ jacobM m = .error .invalid ∧ healthyM m = .error .invalid ∧
    intersect m m2 = .error .invalid ∧ bound m m2 = .error .invalid := by
  have hd := diagM_nonfinite_invalid m h
  have hs : sqrtM m = .error .invalid := by unfold sqrtM; rw [hd]
  have ha : sqrtAbsM m = .error .invalid := by unfold sqrtAbsM; rw [hd]
  refine ⟨?_, ?_, hs, ha, ?_, ?_, ?_, ?_⟩
  · unfold logM; rw [hd]
  · unfold expM; rw [hd]
  · unfold jacobM; rw [hd]
  · unfold healthyM; rw [hd]
  · unfold intersect; rw [hs]
  · unfold bound; rw [ha]

/-- the guard is reachable: a NaN entry at the `Float` instance -/
example : diagM (⟨1, 0, 0, 1, 0, (0 : Float) / 0⟩ : M6 Float) = .error .invalid :=
  diagM_nonfinite_invalid _ (by decide +kernel)

/-! ### closed-form 2x2 -/

/-- `ref_matrix_diag_m2`: on success the two vectors are orthonormal and `form_m2` gives back m (all branches) -/
theorem diagM2_spec (m : M3 ℝ) (d : Eig6 ℝ) (h : diagM2 m = .ok d) :
    Orthonormal2 d ∧ formM2 d = m := diagM2_spec' m d h

/-- over ℝ the closed form never fails -/
theorem diagM2_total (m : M3 ℝ) : ∃ d, diagM2 m = .ok d := diagM2_total' m

/-! ### first rotation of `ref_matrix_diag_m` -/

/-- the first rotation is an orthogonal similarity: the vectors are orthonormal and
    `Q · tridiag(d; e0, e1) · Qᵀ = m` with the coded d and e (both branches; the `else` branch is the
    identity on an already tridiagonal input), and the QL loop starts with `e[2] = f = tst1 = 0` -/
theorem diagM_rot0 (m : M6 ℝ) :
    Orthonormal (rot0 m).d ∧ tridiagForm (rot0 m).d (rot0 m).e0 (rot0 m).e1 = m ∧
    (rot0 m).e2 = 0 ∧ (rot0 m).f = 0 ∧ (rot0 m).tst1 = 0 :=
  ⟨(rot0_spec m).1, (rot0_spec m).2, rot0_e2 m, rot0_f m, rot0_tst1 m⟩

/-- every vector update of the QL iteration is a plane rotation `(c, s)`, `c = p/r`, `s = e[i]/r`,
    `r = sqrt(p² + e[i]²)` with `c² + s² = 1` (the sub-diagonal entries inside the active block are
    non-zero: invariant of the loop), so after any number of sweeps — all iterations, both settings of
    `relativeConvergence` — a successful `ref_matrix_diag_m` returns orthonormal eigenvectors -/
theorem diagM_orthonormal (m : M6 ℝ) (d : Eig12 ℝ) (h : diagM m = .ok d) : Orthonormal d :=
  diagM_orthonormal' m d h

/-- one plane rotation of two neighbouring vectors keeps an orthonormal system orthonormal -/
theorem rotVec_keeps_orthonormal (i : Nat) (c s : ℝ) (h : c * c + s * s = 1) {d : Eig12 ℝ}
    (ho : Orthonormal d) : Orthonormal (rotVec i c s d) := rotVec_orthonormal i c s h ho

/-- the only error status of `diagM` on (finite) real input is `failure`: 30 sweeps without convergence, or (the branch
    added by the repair of the out-of-bounds store) a small-sub-diagonal search that runs off the end -/
theorem diagM_error_kinds (m : M6 ℝ) (e : Err) (h : diagM m = .error e) : e = .failure := by
  have hloop : ∀ (fuel l mm : Nat) (st : QL ℝ) (e : Err), qlLoop fuel l mm st = .error e → e = .failure := by
    intro fuel l mm
    induction fuel with
    | zero => intro st e h; unfold qlLoop at h; injection h with h; exact h.symm
    | succ n ih =>
      intro st e h
      unfold qlLoop at h
      dsimp only at h
      split_ifs at h
      exact ih _ _ h
  have hrow : ∀ l (st : QL ℝ) (e : Err), rowStep l st = .error e → e = .failure := by
    intro l st e h
    unfold rowStep at h
    dsimp only at h
    generalize (if Scalar.lt st.tst1 _ = true then _ else st : QL ℝ) = st1 at h
    split_ifs at h
    · injection h with h; exact h.symm
    · split at h
      · exact absurd h (by simp)
      · rename_i e' hq
        injection h with h
        subst h
        exact hloop _ _ _ _ _ hq
  unfold diagM at h
  simp only [M6.allFinite, isFinite_eq, Bool.and_self, Bool.not_true, Bool.false_eq_true, if_false] at h
  split at h
  · rename_i e1 h1; injection h with h; subst h; exact hrow _ _ _ h1
  split at h
  · rename_i e2 h2; injection h with h; subst h; exact hrow _ _ _ h2
  split at h
  · rename_i e3 h3; injection h with h; subst h; exact hrow _ _ _ h3
  · exact absurd h (by simp)

/-! ### `diagM_similarity` (stretch goal): proved for a 2x2 active block

  UPDATE: the full statement below is now proved in `Props/C16QL.lean` (`diagM_similarity`, with the explicit residual).

  Full statement, NOT proved: for every m with `diagM m = .ok d`, every implicit-shift sweep — including the
  two-rotation sweep over the full 3x3 block (l = 0, mm = 2) — is an exact similarity `Q (T + f·I) Qᵀ = m`,
  hence `formM d + Q N Qᵀ = m` where N collects the sub-diagonal entries dropped when they passed the
  convergence test.  Missing: the algebra of the two-rotation sweep (tql2's closing recurrence
  `p = -s*s2*c3*el1*e[l]/dl1`) and the bookkeeping of dropped entries after deflation.
  Proved below: the shift and the one-rotation sweep over a 2x2 block are exact, which makes `diagM` exact on
  every input whose tridiagonal form has e[1] = 0 — in particular on every 2-D embedded matrix. -/

/-- one implicit-shift sweep over the leading 2x2 block (l = 0, mm = 1, e[1] = 0) keeps `Q (T + f·I) Qᵀ`
    and annihilates e[0] exactly -/
theorem sweep_block2_similarity (st : QL ℝ) (he0 : st.e0 ≠ 0) (he1 : st.e1 = 0) :
    (sweep 0 1 st).repr0 = st.repr0 ∧ (sweep 0 1 st).e0 = 0 ∧ (sweep 0 1 st).e1 = 0 :=
  ⟨(sweep01_repr0 st he0 he1).1, (sweep01_repr0 st he0 he1).2.1, (sweep01_repr0 st he0 he1).2.2.1⟩

/-- `diagM` on inputs whose tridiagonal form has e[1] = 0: it succeeds, and the decomposition is exact —
    unless e[0] passes the convergence test before any sweep, in which case e[0] is dropped and `d` is
    the tridiagonal form itself -/
theorem diagM_similarity_partial (m : M6 ℝ) (he1 : (rot0 m).e1 = 0) :
    (∃ d, diagM m = .ok d) ∧
    ∀ d, diagM m = .ok d →
      IsEigSys d m ∨
      (Orthonormal d ∧ tridiagForm d (rot0 m).e0 0 = m ∧ (tstUpd 0 (rot0 m)).isSmall 0 = true) := by
  refine ⟨diagM_block2_ok m he1, ?_⟩
  intro d h
  have ho := diagM_orthonormal m d h
  rcases diagM_block2' m d h he1 with e | ⟨e, s⟩
  · left; exact ⟨ho, e⟩
  · right; exact ⟨ho, e, s⟩

/-- every 2-D embedded matrix (m13 = m23 = 0, as produced by `ref_matrix_twod_m`) is in that class -/
theorem diagM_twod (m : M6 ℝ) (h13 : m.m13 = 0) (h23 : m.m23 = 0) (d : Eig12 ℝ) (h : diagM m = .ok d) :
    IsEigSys d m ∨
    (Orthonormal d ∧ tridiagForm d (rot0 m).e0 0 = m ∧ (tstUpd 0 (rot0 m)).isSmall 0 = true) :=
  (diagM_similarity_partial m (rot0_e1_twod m h13 h23)).2 d h

/-- non-vacuity: [[2,1,0],[1,2,0],[0,0,1]] is decomposed exactly, after one genuine QL sweep -/
example : ∃ d, diagM (⟨2, 1, 0, 2, 0, 1⟩ : M6 ℝ) = .ok d ∧ IsEigSys d ⟨2, 1, 0, 2, 0, 1⟩ := by
  obtain ⟨⟨d, hd⟩, hall⟩ := diagM_similarity_partial (⟨2, 1, 0, 2, 0, 1⟩ : M6 ℝ) (rot0_e1_twod _ rfl rfl)
  refine ⟨d, hd, ?_⟩
  rcases hall d hd with e | ⟨_, _, s⟩
  · exact e
  · rw [example_not_small] at s; exact absurd s (by decide)

/-! ### eigen systems, quadratic forms, functions of a matrix -/

/-- `xᵀ (form_m d) x = Σ l_k (v_k · x)²` -/
theorem formM_quadratic_form (d : Eig12 ℝ) (x : Vec3 ℝ) :
    vtMv (formM d) x =
      d.l0 * (d.x0 * x.x + d.y0 * x.y + d.z0 * x.z) ^ 2 +
      d.l1 * (d.x1 * x.x + d.y1 * x.y + d.z1 * x.z) ^ 2 +
      d.l2 * (d.x2 * x.x + d.y2 * x.y + d.z2 * x.z) ^ 2 := by
  simp only [vtMv, formM, mul_eq, add_eq]; ring

/-- matrix functions are well defined: two eigen systems of the same matrix give the same `f(m)` -/
theorem formM_fun_congr {d d' : Eig12 ℝ} {m : M6 ℝ} (f : ℝ → ℝ) (h : IsEigSys d m) (h' : IsEigSys d' m) :
    formM (mapEig f d) = formM (mapEig f d') := Refine.Model.Matrix.formM_fun_congr f h h'

/-- `exp_m (log_m m) = m` for positive eigenvalues, given exact inner decompositions -/
theorem exp_log (m lg : M6 ℝ) (d d' : Eig12 ℝ)
    (h1 : diagM m = .ok d) (he : IsEigSys d m) (hpos : 0 < d.l0 ∧ 0 < d.l1 ∧ 0 < d.l2)
    (hl : logM m = .ok lg) (h2 : diagM lg = .ok d') (he' : IsEigSys d' lg) :
    expM lg = .ok m := by
  unfold logM at hl; rw [h1] at hl
  injection hl with hl
  unfold expM; rw [h2]
  show Except.ok (formM (mapEig Scalar.exp d')) = Except.ok m
  have hsys : IsEigSys (mapEig Scalar.log d) lg := ⟨orthonormal_mapEig _ he.1, hl⟩
  have := Refine.Model.Matrix.formM_fun_congr Scalar.exp he' hsys
  rw [this, mapEig_mapEig]
  have : mapEig (fun t => Scalar.exp (Scalar.log t)) d = d := by
    rw [← mapEig_id d]
    apply mapEig_congr <;> simp only [mapEig_id, exp_eq, log_eq]
    · exact Real.exp_log hpos.1
    · exact Real.exp_log hpos.2.1
    · exact Real.exp_log hpos.2.2
  rw [this, he.2]

/-- `log_m (exp_m m) = m` for every symmetric m, given exact inner decompositions -/
theorem log_exp (m ex : M6 ℝ) (d d' : Eig12 ℝ)
    (h1 : diagM m = .ok d) (he : IsEigSys d m)
    (hx : expM m = .ok ex) (h2 : diagM ex = .ok d') (he' : IsEigSys d' ex) :
    logM ex = .ok m := by
  unfold expM at hx; rw [h1] at hx
  injection hx with hx
  unfold logM; rw [h2]
  show Except.ok (formM (mapEig Scalar.log d')) = Except.ok m
  have hsys : IsEigSys (mapEig Scalar.exp d) ex := ⟨orthonormal_mapEig _ he.1, hx⟩
  have := Refine.Model.Matrix.formM_fun_congr Scalar.log he' hsys
  rw [this, mapEig_mapEig]
  have : mapEig (fun t => Scalar.log (Scalar.exp t)) d = d := by
    rw [← mapEig_id d]
    apply mapEig_congr <;> simp only [mapEig_id, exp_eq, log_eq, Real.log_exp]
  rw [this, he.2]

/-- the matrix facts behind `sqrt_m`: eigenvalues are non-negative with non-zero roots, `s² = m`,
    `s · is = is · s = 1` -/
theorem sqrtM_spec (m s is : M6 ℝ) (d : Eig12 ℝ) (h1 : diagM m = .ok d) (he : IsEigSys d m)
    (h : sqrtM m = .ok (s, is)) :
    (0 < d.l0 ∧ 0 < d.l1 ∧ 0 < d.l2) ∧
    s.toMat * s.toMat = m.toMat ∧ s.toMat * is.toMat = 1 ∧ is.toMat * s.toMat = 1 := by
  unfold sqrtM at h; rw [h1] at h
  simp only at h
  by_cases hneg : (Scalar.lt d.l0 Scalar.zero || Scalar.lt d.l1 Scalar.zero || Scalar.lt d.l2 Scalar.zero) = true
  · rw [if_pos hneg] at h; exact absurd h (by simp)
  rw [if_neg hneg] at h
  simp only [Bool.or_eq_true, lt_iff, zero_eq, not_or, not_lt] at hneg
  obtain ⟨⟨h0, h1'⟩, h2⟩ := hneg
  obtain ⟨r0, r1, r2, hs, his⟩ := sqrtTail_ok h
  have p0 : 0 < d.l0 := lt_of_le_of_ne h0 (fun e => r0 (by rw [← e, Real.sqrt_zero]))
  have p1 : 0 < d.l1 := lt_of_le_of_ne h1' (fun e => r1 (by rw [← e, Real.sqrt_zero]))
  have p2 : 0 < d.l2 := lt_of_le_of_ne h2 (fun e => r2 (by rw [← e, Real.sqrt_zero]))
  have hss : s.toMat * s.toMat = m.toMat := by
    rw [hs, toMat_formM_mul d he.1]
    have : mapEig (fun t => Real.sqrt t * Real.sqrt t) d = d := by
      rw [← mapEig_id d]
      apply mapEig_congr <;> simp only [mapEig_id]
      · exact Real.mul_self_sqrt h0
      · exact Real.mul_self_sqrt h1'
      · exact Real.mul_self_sqrt h2
    rw [this, he.2]
  have hsi : s.toMat * is.toMat = 1 := by
    rw [hs, his, toMat_formM_mul d he.1]
    have : mapEig (fun t => Real.sqrt t * (1 / Real.sqrt t)) d = mapEig (fun _ => (1 : ℝ)) d := by
      apply mapEig_congr
      · field_simp
      · field_simp
      · field_simp
    rw [this, toMat_formM_one d he.1]
  exact ⟨⟨p0, p1, p2⟩, hss, hsi, mul_eq_one_comm.mp hsi⟩

/-- `sqrt_m`: the first result squares to m -/
theorem sqrt_sq (m s is : M6 ℝ) (d : Eig12 ℝ) (h1 : diagM m = .ok d) (he : IsEigSys d m)
    (h : sqrtM m = .ok (s, is)) : s.toMat * s.toMat = m.toMat :=
  (sqrtM_spec m s is d h1 he h).2.1

/-- `sqrt_m`: the two results are inverse to each other -/
theorem sqrt_invsqrt (m s is : M6 ℝ) (d : Eig12 ℝ) (h1 : diagM m = .ok d) (he : IsEigSys d m)
    (h : sqrtM m = .ok (s, is)) : s.toMat * is.toMat = 1 ∧ is.toMat * s.toMat = 1 :=
  (sqrtM_spec m s is d h1 he h).2.2

/-! ### metric intersection and its dual bound -/

/-- hypotheses shared by the intersect / bound theorems: the two inner eigen decompositions
    (of `m1`, and of `m1^{-1/2} m2 m1^{-1/2}`) succeeded and are exact -/
structure InnerExact (m1 m2 s is : M6 ℝ) (d1 d2 : Eig12 ℝ) : Prop where
  h1 : diagM m1 = .ok d1
  e1 : IsEigSys d1 m1
  hs : sqrtM m1 = .ok (s, is)
  h2 : diagM (multM0M1M0 is m2) = .ok d2
  e2 : IsEigSys d2 (multM0M1M0 is m2)

theorem intersect_forms {m1 m2 s is m12 : M6 ℝ} {d1 d2 : Eig12 ℝ} (H : InnerExact m1 m2 s is d1 d2)
    (h : intersect m1 m2 = .ok m12) (x : Vec3 ℝ) :
    ∃ w : Fin 3 → ℝ, vtMv m1 x = ∑ k, w k ^ 2 ∧ vtMv m2 x = ∑ k, d2.lam k * w k ^ 2 ∧
      vtMv m12 x = ∑ k, max 1 (d2.lam k) * w k ^ 2 := by
  obtain ⟨_, hss, hsi, _⟩ := sqrtM_spec m1 s is d1 H.h1 H.e1 H.hs
  unfold intersect at h
  rw [H.hs] at h
  dsimp only at h
  obtain ⟨w, a, b, c⟩ := combine_forms _ m1 m2 s is m12 d2 hss hsi H.h2 H.e2 h x
  refine ⟨w, a, b, ?_⟩
  rw [c]
  apply Finset.sum_congr rfl
  intro k _
  rw [cmax_eq, one_eq]

/-- `xᵀ (intersect A B) x ≥ xᵀ A x` for every x -/
theorem intersect_ge_left {m1 m2 s is m12 : M6 ℝ} {d1 d2 : Eig12 ℝ} (H : InnerExact m1 m2 s is d1 d2)
    (h : intersect m1 m2 = .ok m12) (x : Vec3 ℝ) : vtMv m1 x ≤ vtMv m12 x := by
  obtain ⟨w, a, _, c⟩ := intersect_forms H h x
  rw [a, c]
  apply Finset.sum_le_sum
  intro k _
  have : (1 : ℝ) ≤ max 1 (d2.lam k) := le_max_left _ _
  nlinarith [sq_nonneg (w k)]

/-- `xᵀ (intersect A B) x ≥ xᵀ B x` for every x -/
theorem intersect_ge_right {m1 m2 s is m12 : M6 ℝ} {d1 d2 : Eig12 ℝ} (H : InnerExact m1 m2 s is d1 d2)
    (h : intersect m1 m2 = .ok m12) (x : Vec3 ℝ) : vtMv m2 x ≤ vtMv m12 x := by
  obtain ⟨w, _, b, c⟩ := intersect_forms H h x
  rw [b, c]
  apply Finset.sum_le_sum
  intro k _
  have : d2.lam k ≤ max 1 (d2.lam k) := le_max_right _ _
  nlinarith [sq_nonneg (w k)]

/-- the intersection is positive definite -/
theorem intersect_spd {m1 m2 s is m12 : M6 ℝ} {d1 d2 : Eig12 ℝ} (H : InnerExact m1 m2 s is d1 d2)
    (h : intersect m1 m2 = .ok m12) (x : Vec3 ℝ) (hx : x.x ≠ 0 ∨ x.y ≠ 0 ∨ x.z ≠ 0) :
    0 < vtMv m12 x := by
  obtain ⟨hpos, _, _, _⟩ := sqrtM_spec m1 s is d1 H.h1 H.e1 H.hs
  have h1 : 0 < vtMv m1 x := by
    rw [← H.e1.2]; exact vtMv_formM_pos d1 H.e1.1 hpos x hx
  exact lt_of_lt_of_le h1 (intersect_ge_left H h x)

/-- the identity as an M6 and its trivial eigen system -/
theorem isEigSys_identity : IsEigSys ⟨1, 1, 1, 1, 0, 0, 0, 1, 0, 0, 0, 1⟩ (⟨1, 0, 0, 1, 0, 1⟩ : M6 ℝ) := by
  refine ⟨⟨?_, ?_, ?_, ?_, ?_, ?_⟩, ?_⟩ <;> try (simp only; norm_num)
  apply M6.ext' <;> simp only [formM, mul_eq, add_eq] <;> norm_num

/-- shared: when both arguments coincide the clamped matrix is the identity, so the result is `m1` -/
theorem combine_self (clamp : ℝ → ℝ) (hc1 : clamp 1 = 1) {m1 s is m12 : M6 ℝ} {d1 d2 : Eig12 ℝ}
    (H : InnerExact m1 m1 s is d1 d2) (h : combine clamp s is m1 = .ok m12) : m12 = m1 := by
  obtain ⟨_, hss, hsi, his⟩ := sqrtM_spec m1 s is d1 H.h1 H.e1 H.hs
  have hbar : multM0M1M0 is m1 = (⟨1, 0, 0, 1, 0, 1⟩ : M6 ℝ) := by
    apply M6.toMat_injective
    rw [toMat_multM0M1M0, ← hss]
    have : (⟨1, 0, 0, 1, 0, 1⟩ : M6 ℝ).toMat = 1 := by
      rw [one_fin_three]; rfl
    rw [this]
    calc is.toMat * (s.toMat * s.toMat) * is.toMat
        = (is.toMat * s.toMat) * (s.toMat * is.toMat) := by simp only [Matrix.mul_assoc]
      _ = 1 := by rw [his, hsi, Matrix.one_mul]
  unfold combine at h
  dsimp only at h
  rw [H.h2] at h
  dsimp only at h
  injection h with h
  have he2 := H.e2
  rw [hbar] at he2
  have hcl : formM (mapEig clamp d2) = (⟨1, 0, 0, 1, 0, 1⟩ : M6 ℝ) := by
    rw [Refine.Model.Matrix.formM_fun_congr clamp he2 isEigSys_identity]
    apply M6.ext' <;> simp only [formM, mapEig, mul_eq, add_eq, hc1] <;> norm_num
  rw [hcl] at h
  apply M6.toMat_injective
  rw [← h, toMat_multM0M1M0, ← hss]
  have : (⟨1, 0, 0, 1, 0, 1⟩ : M6 ℝ).toMat = 1 := by
    rw [one_fin_three]; rfl
  rw [this, Matrix.mul_one]

/-- `intersect A A = A` -/
theorem intersect_self {m1 s is m12 : M6 ℝ} {d1 d2 : Eig12 ℝ} (H : InnerExact m1 m1 s is d1 d2)
    (h : intersect m1 m1 = .ok m12) : m12 = m1 := by
  unfold intersect at h
  rw [H.hs] at h
  dsimp only at h
  refine combine_self _ ?_ H h
  rw [cmax_eq, one_eq, max_self]

/-- the `REF_DIV_ZERO` branch of `ref_matrix_intersect` / `ref_matrix_bound`: a singular first argument
    makes the routine return the second argument unchanged -/
theorem intersect_bound_div_zero (m1 m2 : M6 ℝ) :
    (sqrtM m1 = .error .div_zero → intersect m1 m2 = .ok m2) ∧
    (sqrtAbsM m1 = .error .div_zero → bound m1 m2 = .ok m2) := by
  constructor
  · intro h; unfold intersect; rw [h]
  · intro h; unfold bound; rw [h]

theorem bound_forms {m1 m2 s is m12 : M6 ℝ} {d1 d2 : Eig12 ℝ} (H : InnerExact m1 m2 s is d1 d2)
    (h : bound m1 m2 = .ok m12) (x : Vec3 ℝ) :
    ∃ w : Fin 3 → ℝ, vtMv m1 x = ∑ k, w k ^ 2 ∧ vtMv m2 x = ∑ k, d2.lam k * w k ^ 2 ∧
      vtMv m12 x = ∑ k, min 1 (d2.lam k) * w k ^ 2 := by
  obtain ⟨hpos, hss, hsi, _⟩ := sqrtM_spec m1 s is d1 H.h1 H.e1 H.hs
  unfold bound at h
  rw [sqrtAbsM_eq_sqrtM m1 d1 H.h1 ⟨hpos.1.le, hpos.2.1.le, hpos.2.2.le⟩, H.hs] at h
  dsimp only at h
  obtain ⟨w, a, b, c⟩ := combine_forms _ m1 m2 s is m12 d2 hss hsi H.h2 H.e2 h x
  refine ⟨w, a, b, ?_⟩
  rw [c]
  apply Finset.sum_congr rfl
  intro k _
  rw [cmin_eq, one_eq]

/-- `xᵀ (bound A B) x ≤ xᵀ A x` for every x (A with positive eigenvalues: `sqrt_abs_m` = `sqrt_m`) -/
theorem bound_le_left {m1 m2 s is m12 : M6 ℝ} {d1 d2 : Eig12 ℝ} (H : InnerExact m1 m2 s is d1 d2)
    (h : bound m1 m2 = .ok m12) (x : Vec3 ℝ) : vtMv m12 x ≤ vtMv m1 x := by
  obtain ⟨w, a, _, c⟩ := bound_forms H h x
  rw [a, c]
  apply Finset.sum_le_sum
  intro k _
  have : min 1 (d2.lam k) ≤ 1 := min_le_left _ _
  nlinarith [sq_nonneg (w k)]

/-- `xᵀ (bound A B) x ≤ xᵀ B x` for every x -/
theorem bound_le_right {m1 m2 s is m12 : M6 ℝ} {d1 d2 : Eig12 ℝ} (H : InnerExact m1 m2 s is d1 d2)
    (h : bound m1 m2 = .ok m12) (x : Vec3 ℝ) : vtMv m12 x ≤ vtMv m2 x := by
  obtain ⟨w, _, b, c⟩ := bound_forms H h x
  rw [b, c]
  apply Finset.sum_le_sum
  intro k _
  have : min 1 (d2.lam k) ≤ d2.lam k := min_le_right _ _
  nlinarith [sq_nonneg (w k)]

/-- `bound A A = A` -/
theorem bound_self {m1 s is m12 : M6 ℝ} {d1 d2 : Eig12 ℝ} (H : InnerExact m1 m1 s is d1 d2)
    (h : bound m1 m1 = .ok m12) : m12 = m1 := by
  obtain ⟨hpos, _, _, _⟩ := sqrtM_spec m1 s is d1 H.h1 H.e1 H.hs
  unfold bound at h
  rw [sqrtAbsM_eq_sqrtM m1 d1 H.h1 ⟨hpos.1.le, hpos.2.1.le, hpos.2.2.le⟩, H.hs] at h
  dsimp only at h
  refine combine_self _ ?_ H h
  rw [cmin_eq, one_eq, min_self]

/-! ### inverse and determinant (the C's actual routines: Gauss–Jordan with partial pivoting, guarded) -/

/-- `ref_matrix_inv_gen` with n = 3: every successful run returns the inverse (no hypothesis on the input:
    the `ref_math_divisible` guards are what makes the pivots non-zero) -/
theorem invGen3_mul (a b : M33 ℝ) (h : invGen3 a = .ok b) :
    b.toMat * a.toMat = 1 ∧ a.toMat * b.toMat = 1 :=
  ⟨invGen3_spec a b h, mul_eq_one_comm.mp (invGen3_spec a b h)⟩

/-- `ref_matrix_inv_m`: every successful run returns the two-sided inverse of m -/
theorem invM_mul (m r : M6 ℝ) (h : invM m = .ok r) : r.toMat * m.toMat = 1 ∧ m.toMat * r.toMat = 1 :=
  invM_spec m r h

/-- `ref_matrix_det_m`: the result is the determinant, or 0.0 when a pivot is not `ref_math_divisible`
    (the C returns REF_SUCCESS with `*det = 0.0` there) -/
theorem detM_det_or_zero (m : M6 ℝ) : detM m = m.toMat.det ∨ detM m = 0 := detM_spec m

/-! ### ordering of an eigen system -/

theorem swap_isEigSys {d : Eig12 ℝ} {m : M6 ℝ} (h : IsEigSys d m) :
    IsEigSys (swap01 d) m ∧ IsEigSys (swap02 d) m ∧ IsEigSys (swap12 d) m := by
  obtain ⟨⟨n0, n1, n2, p01, p02, p12⟩, hf⟩ := h
  refine ⟨⟨⟨n1, n0, n2, ?_, p12, p02⟩, ?_⟩, ⟨⟨n2, n1, n0, ?_, ?_, ?_⟩, ?_⟩, ⟨⟨n0, n2, n1, p02, p01, ?_⟩, ?_⟩⟩
  · simp only [swap01]; linear_combination p01
  · rw [← hf]; apply M6.ext' <;> simp only [formM, swap01, mul_eq, add_eq] <;> ring
  · simp only [swap02]; linear_combination p12
  · simp only [swap02]; linear_combination p02
  · simp only [swap02]; linear_combination p01
  · rw [← hf]; apply M6.ext' <;> simp only [formM, swap02, mul_eq, add_eq] <;> ring
  · simp only [swap12]; linear_combination p12
  · rw [← hf]; apply M6.ext' <;> simp only [formM, swap12, mul_eq, add_eq] <;> ring

/-- `ref_matrix_descending_eig` permutes (value, vector) pairs: it keeps an eigen system an eigen system
    and leaves the eigenvalues in descending order -/
theorem descendingEig_spec {d : Eig12 ℝ} {m : M6 ℝ} (h : IsEigSys d m) :
    IsEigSys (descendingEig d) m ∧
    (descendingEig d).l1 ≤ (descendingEig d).l0 ∧ (descendingEig d).l2 ≤ (descendingEig d).l1 := by
  have s1 : ∀ d : Eig12 ℝ, IsEigSys d m →
      IsEigSys (if Scalar.bgt d.l1 d.l0 then swap01 d else d) m ∧
      (if Scalar.bgt d.l1 d.l0 then swap01 d else d).l1 ≤ (if Scalar.bgt d.l1 d.l0 then swap01 d else d).l0 := by
    intro d h
    by_cases c : Scalar.bgt d.l1 d.l0 = true
    · rw [if_pos c]; simp only [Scalar.bgt, lt_iff] at c
      exact ⟨(swap_isEigSys h).1, le_of_lt c⟩
    · rw [if_neg c]; simp only [Scalar.bgt, lt_iff, not_lt] at c
      exact ⟨h, c⟩
  have s2 : ∀ d : Eig12 ℝ, IsEigSys d m → d.l1 ≤ d.l0 →
      IsEigSys (if Scalar.bgt d.l2 d.l0 then swap02 d else d) m ∧
      (if Scalar.bgt d.l2 d.l0 then swap02 d else d).l1 ≤ (if Scalar.bgt d.l2 d.l0 then swap02 d else d).l0 ∧
      (if Scalar.bgt d.l2 d.l0 then swap02 d else d).l2 ≤ (if Scalar.bgt d.l2 d.l0 then swap02 d else d).l0 := by
    intro d h h10
    by_cases c : Scalar.bgt d.l2 d.l0 = true
    · rw [if_pos c]; simp only [Scalar.bgt, lt_iff] at c
      refine ⟨(swap_isEigSys h).2.1, ?_, ?_⟩
      · show d.l1 ≤ d.l2; linarith
      · show d.l0 ≤ d.l2; linarith
    · rw [if_neg c]; simp only [Scalar.bgt, lt_iff, not_lt] at c
      exact ⟨h, h10, c⟩
  have s3 : ∀ d : Eig12 ℝ, IsEigSys d m → d.l1 ≤ d.l0 → d.l2 ≤ d.l0 →
      IsEigSys (if Scalar.bgt d.l2 d.l1 then swap12 d else d) m ∧
      (if Scalar.bgt d.l2 d.l1 then swap12 d else d).l1 ≤ (if Scalar.bgt d.l2 d.l1 then swap12 d else d).l0 ∧
      (if Scalar.bgt d.l2 d.l1 then swap12 d else d).l2 ≤ (if Scalar.bgt d.l2 d.l1 then swap12 d else d).l1 := by
    intro d h h10 h20
    by_cases c : Scalar.bgt d.l2 d.l1 = true
    · rw [if_pos c]; simp only [Scalar.bgt, lt_iff] at c
      refine ⟨(swap_isEigSys h).2.2, ?_, ?_⟩
      · show d.l2 ≤ d.l0; exact h20
      · show d.l1 ≤ d.l2; linarith
    · rw [if_neg c]; simp only [Scalar.bgt, lt_iff, not_lt] at c
      exact ⟨h, h10, c⟩
  unfold descendingEig
  obtain ⟨e1, o1⟩ := s1 d h
  obtain ⟨e2, o2, o2'⟩ := s2 _ e1 o1
  exact s3 _ e2 o2 o2'

/-! ### exact cases and non-vacuity: every hypothesis used above is met by concrete matrices -/

/-- a diagonal matrix is returned unchanged with the identity as eigenvectors (exact decomposition) -/
theorem diagM_diagonal (a b c : ℝ) :
    diagM (⟨a, 0, 0, b, 0, c⟩ : M6 ℝ) = .ok ⟨a, b, c, 1, 0, 0, 0, 1, 0, 0, 0, 1⟩ ∧
    IsEigSys ⟨a, b, c, 1, 0, 0, 0, 1, 0, 0, 0, 1⟩ (⟨a, 0, 0, b, 0, c⟩ : M6 ℝ) :=
  ⟨diagM_diagonal' a b c, isEigSys_diag a b c⟩

/-- non-vacuity of `diagM_orthonormal` -/
example : Orthonormal (⟨2, 3, 5, 1, 0, 0, 0, 1, 0, 0, 0, 1⟩ : Eig12 ℝ) :=
  diagM_orthonormal _ _ (diagM_diagonal 2 3 5).1

theorem logM_diag (a b c : ℝ) :
    logM (⟨a, 0, 0, b, 0, c⟩ : M6 ℝ) = .ok ⟨Real.log a, 0, 0, Real.log b, 0, Real.log c⟩ := by
  unfold logM; rw [diagM_diagonal' a b c]
  show Except.ok (formM (⟨Real.log a, Real.log b, Real.log c, 1, 0, 0, 0, 1, 0, 0, 0, 1⟩ : Eig12 ℝ)) = _
  rw [formM_diag]

theorem expM_diag (a b c : ℝ) :
    expM (⟨a, 0, 0, b, 0, c⟩ : M6 ℝ) = .ok ⟨Real.exp a, 0, 0, Real.exp b, 0, Real.exp c⟩ := by
  unfold expM; rw [diagM_diagonal' a b c]
  show Except.ok (formM (⟨Real.exp a, Real.exp b, Real.exp c, 1, 0, 0, 0, 1, 0, 0, 0, 1⟩ : Eig12 ℝ)) = _
  rw [formM_diag]

/-- non-vacuity of `exp_log`: all hypotheses hold for diag(2,3,5) -/
example : expM (⟨Real.log 2, 0, 0, Real.log 3, 0, Real.log 5⟩ : M6 ℝ) = .ok ⟨2, 0, 0, 3, 0, 5⟩ :=
  exp_log ⟨2, 0, 0, 3, 0, 5⟩ _ _ _ (diagM_diagonal 2 3 5).1 (diagM_diagonal 2 3 5).2
    ⟨by norm_num, by norm_num, by norm_num⟩ (logM_diag 2 3 5)
    (diagM_diagonal (Real.log 2) (Real.log 3) (Real.log 5)).1
    (diagM_diagonal (Real.log 2) (Real.log 3) (Real.log 5)).2

/-- non-vacuity of `log_exp` (an indefinite matrix) -/
example : logM (⟨Real.exp (-1), 0, 0, Real.exp 0, 0, Real.exp 7⟩ : M6 ℝ) = .ok ⟨-1, 0, 0, 0, 0, 7⟩ :=
  log_exp ⟨-1, 0, 0, 0, 0, 7⟩ _ _ _ (diagM_diagonal (-1) 0 7).1 (diagM_diagonal (-1) 0 7).2
    (expM_diag (-1) 0 7)
    (diagM_diagonal (Real.exp (-1)) (Real.exp 0) (Real.exp 7)).1
    (diagM_diagonal (Real.exp (-1)) (Real.exp 0) (Real.exp 7)).2

theorem sqrt4 : Real.sqrt 4 = 2 := by
  rw [show (4 : ℝ) = 2 * 2 by norm_num]; exact Real.sqrt_mul_self (by norm_num)
theorem sqrt9 : Real.sqrt 9 = 3 := by
  rw [show (9 : ℝ) = 3 * 3 by norm_num]; exact Real.sqrt_mul_self (by norm_num)

/-- `sqrt_m` of diag(4, 9, 1) -/
theorem sqrtM_diag491 :
    sqrtM (⟨4, 0, 0, 9, 0, 1⟩ : M6 ℝ) = .ok (⟨2, 0, 0, 3, 0, 1⟩, ⟨1 / 2, 0, 0, 1 / 3, 0, 1⟩) := by
  unfold sqrtM; rw [diagM_diagonal' 4 9 1]
  have hneg : (Scalar.lt (4 : ℝ) Scalar.zero || Scalar.lt (9 : ℝ) Scalar.zero || Scalar.lt (1 : ℝ) Scalar.zero) = false := by
    simp [lt_false_iff, zero_eq]
  simp only [hneg, Bool.false_eq_true, if_false]
  unfold sqrtTail
  simp only [mapEig, sqrt_eq, sqrt4, sqrt9, Real.sqrt_one, one_eq, div_eq]
  have g2 : Scalar.divisible (1 : ℝ) 2 = true := by rw [divisible_iff]; norm_num
  have g3 : Scalar.divisible (1 : ℝ) 3 = true := by rw [divisible_iff]; norm_num
  have g1 : Scalar.divisible (1 : ℝ) 1 = true := by rw [divisible_iff]; norm_num
  simp only [g1, g2, g3, Bool.not_true, Bool.false_eq_true, if_false]
  rw [formM_diag, formM_diag]
  norm_num

/-- all inner decompositions are exact for A = diag(4, 9, 1), B = diag(1, 36, 1/4) -/
theorem innerExact_example :
    InnerExact (⟨4, 0, 0, 9, 0, 1⟩ : M6 ℝ) ⟨1, 0, 0, 36, 0, 1 / 4⟩ ⟨2, 0, 0, 3, 0, 1⟩ ⟨1 / 2, 0, 0, 1 / 3, 0, 1⟩
      ⟨4, 9, 1, 1, 0, 0, 0, 1, 0, 0, 0, 1⟩ ⟨1 / 2 * 1 * (1 / 2), 1 / 3 * 36 * (1 / 3), 1 * (1 / 4) * 1, 1, 0, 0, 0, 1, 0, 0, 0, 1⟩ := by
  refine ⟨(diagM_diagonal 4 9 1).1, (diagM_diagonal 4 9 1).2, sqrtM_diag491, ?_, ?_⟩
  · rw [multM0M1M0_diag]; exact diagM_diagonal' _ _ _
  · rw [multM0M1M0_diag]; exact isEigSys_diag _ _ _

/-- non-vacuity of the intersect theorems: the hypotheses hold and the result is diag(4, 36, 1) -/
example : intersect (⟨4, 0, 0, 9, 0, 1⟩ : M6 ℝ) ⟨1, 0, 0, 36, 0, 1 / 4⟩ = .ok ⟨4, 0, 0, 36, 0, 1⟩ := by
  unfold intersect; rw [sqrtM_diag491]
  dsimp only
  unfold combine
  dsimp only
  rw [multM0M1M0_diag, diagM_diagonal']
  dsimp only
  simp only [mapEig, cmax_eq, one_eq]
  rw [formM_diag, multM0M1M0_diag]
  norm_num


/-- non-vacuity of `intersect_ge_left/right`, `intersect_spd`: instantiate with the exact example -/
example (x : Vec3 ℝ) : vtMv (⟨4, 0, 0, 9, 0, 1⟩ : M6 ℝ) x ≤ vtMv (⟨4, 0, 0, 36, 0, 1⟩ : M6 ℝ) x ∧
    vtMv (⟨1, 0, 0, 36, 0, 1 / 4⟩ : M6 ℝ) x ≤ vtMv (⟨4, 0, 0, 36, 0, 1⟩ : M6 ℝ) x := by
  have h : intersect (⟨4, 0, 0, 9, 0, 1⟩ : M6 ℝ) ⟨1, 0, 0, 36, 0, 1 / 4⟩ = .ok ⟨4, 0, 0, 36, 0, 1⟩ := by
    unfold intersect; rw [sqrtM_diag491]
    dsimp only
    unfold combine
    dsimp only
    rw [multM0M1M0_diag, diagM_diagonal']
    dsimp only
    simp only [mapEig, cmax_eq, one_eq]
    rw [formM_diag, multM0M1M0_diag]
    norm_num
  exact ⟨intersect_ge_left innerExact_example h x, intersect_ge_right innerExact_example h x⟩

/-- non-vacuity of `bound_le_left/right`: the same pair gives diag(1, 9, 1/4) -/
example (x : Vec3 ℝ) : vtMv (⟨1, 0, 0, 9, 0, 1 / 4⟩ : M6 ℝ) x ≤ vtMv (⟨4, 0, 0, 9, 0, 1⟩ : M6 ℝ) x ∧
    vtMv (⟨1, 0, 0, 9, 0, 1 / 4⟩ : M6 ℝ) x ≤ vtMv (⟨1, 0, 0, 36, 0, 1 / 4⟩ : M6 ℝ) x := by
  have hnn : (0 : ℝ) ≤ 4 ∧ (0 : ℝ) ≤ 9 ∧ (0 : ℝ) ≤ 1 := ⟨by norm_num, by norm_num, by norm_num⟩
  have h : bound (⟨4, 0, 0, 9, 0, 1⟩ : M6 ℝ) ⟨1, 0, 0, 36, 0, 1 / 4⟩ = .ok ⟨1, 0, 0, 9, 0, 1 / 4⟩ := by
    unfold bound
    rw [sqrtAbsM_eq_sqrtM _ _ (diagM_diagonal' 4 9 1) hnn, sqrtM_diag491]
    dsimp only
    unfold combine
    dsimp only
    rw [multM0M1M0_diag, diagM_diagonal']
    dsimp only
    simp only [mapEig, cmin_eq, one_eq]
    rw [formM_diag, multM0M1M0_diag]
    norm_num
  exact ⟨bound_le_left innerExact_example h x, bound_le_right innerExact_example h x⟩

/-- non-vacuity of `sqrt_sq` / `sqrt_invsqrt` -/
example : (⟨2, 0, 0, 3, 0, 1⟩ : M6 ℝ).toMat * (⟨2, 0, 0, 3, 0, 1⟩ : M6 ℝ).toMat = (⟨4, 0, 0, 9, 0, 1⟩ : M6 ℝ).toMat :=
  sqrt_sq _ _ _ _ (diagM_diagonal 4 9 1).1 (diagM_diagonal 4 9 1).2 sqrtM_diag491

/-- non-vacuity of `descendingEig_spec` -/
example : (descendingEig (⟨2, 5, 3, 1, 0, 0, 0, 1, 0, 0, 0, 1⟩ : Eig12 ℝ)).l1 ≤
    (descendingEig (⟨2, 5, 3, 1, 0, 0, 0, 1, 0, 0, 0, 1⟩ : Eig12 ℝ)).l0 :=
  (descendingEig_spec (isEigSys_diag 2 5 3)).2.1

/-- non-vacuity of `diagM2_spec`: the hypothesis is met by every matrix -/
example : ∃ d, diagM2 (⟨2, 1, 2⟩ : M3 ℝ) = .ok d ∧ Orthonormal2 d ∧ formM2 d = ⟨2, 1, 2⟩ := by
  obtain ⟨d, h⟩ := diagM2_total ⟨2, 1, 2⟩
  exact ⟨d, h, diagM2_spec _ _ h⟩

/-- the rotation branch of the first rotation is taken for m12 = 3, m13 = 4 (L = 5) -/
example : (rot0 (⟨1, 3, 4, 2, 0, 5⟩ : M6 ℝ)).e0 = 5 := by
  have h5 : Real.sqrt (3 * 3 + 4 * 4) = 5 := by
    rw [show (3 * 3 + 4 * 4 : ℝ) = 5 * 5 by norm_num]; exact Real.sqrt_mul_self (by norm_num)
  unfold rot0
  simp only [mul_eq, add_eq, sqrt_eq, h5]
  have g3 : Scalar.divisible (3 : ℝ) 5 = true := by rw [divisible_iff]; norm_num
  have g4 : Scalar.divisible (4 : ℝ) 5 = true := by rw [divisible_iff]; norm_num
  simp only [g3, g4, Bool.and_self, if_true]

/-- `det_m` of diag(2, 3, 5) -/
example : detM (⟨2, 0, 0, 3, 0, 5⟩ : M6 ℝ) = 30 := by
  unfold detM detGen3 mFull
  have g0 : Scalar.divisible (0 : ℝ) 2 = true := by rw [divisible_iff]; norm_num
  simp only [Vec3.axmy, one_eq, zero_eq, mul_eq, sub_eq, div_eq, g0, Bool.not_true, Bool.false_eq_true, if_false]
  have g1 : Scalar.divisible ((0 : ℝ) - 0 / 2 * 0) (3 - 0 / 2 * 0) = true := by rw [divisible_iff]; norm_num
  simp only [g1, Bool.not_true, Bool.false_eq_true, if_false]
  norm_num


theorem dvt (n d : ℝ) : Scalar.divisible n d = decide (|n| < 10 ^ 20 * |d|) := by
  unfold Scalar.divisible
  rw [cabs_eq, cabs_eq, mul_eq, ofDec_eq, abs_mul]
  have : |((1 : ℤ) : ℝ) * (10 : ℝ) ^ (20 : ℤ)| = 10 ^ 20 := by norm_num
  rw [this]; rfl

theorem step0 : invStep 0 (mFull (⟨2, 1, 0, 2, 0, 1⟩ : M6 ℝ), M33.identity) =
    .ok (⟨⟨1, 1 / 2, 0⟩, ⟨0, 3 / 2, 0⟩, ⟨0, 0, 1⟩⟩, ⟨⟨1 / 2, 0, 0⟩, ⟨-(1 / 2), 1, 0⟩, ⟨0, 0, 1⟩⟩) := by
  have p0 : pivotRow 0 (⟨⟨2, 1, 0⟩, ⟨1, 2, 0⟩, ⟨0, 0, 1⟩⟩ : M33 ℝ) = 0 := by
    simp [pivotRow, Scalar.bgt, cabs_eq, lt_iff]
  norm_num [invStep, swapStep, p0, scaleRow, elimOthers, elimRow, mFull, M33.identity, Vec3.allDivisible,
    Vec3.divBy, Vec3.axmy, dvt]

theorem step1 : invStep 1 ((⟨⟨1, 1 / 2, 0⟩, ⟨0, 3 / 2, 0⟩, ⟨0, 0, 1⟩⟩ : M33 ℝ), (⟨⟨1 / 2, 0, 0⟩, ⟨-(1 / 2), 1, 0⟩, ⟨0, 0, 1⟩⟩ : M33 ℝ)) =
    .ok (⟨⟨1, 0, 0⟩, ⟨0, 1, 0⟩, ⟨0, 0, 1⟩⟩, ⟨⟨2 / 3, -(1 / 3), 0⟩, ⟨-(1 / 3), 2 / 3, 0⟩, ⟨0, 0, 1⟩⟩) := by
  have p0 : pivotRow 1 (⟨⟨1, 1 / 2, 0⟩, ⟨0, 3 / 2, 0⟩, ⟨0, 0, 1⟩⟩ : M33 ℝ) = 1 := by
    simp [pivotRow, Scalar.bgt, cabs_eq, lt_iff]
  norm_num [invStep, swapStep, p0, scaleRow, elimOthers, elimRow, Vec3.allDivisible,
    Vec3.divBy, Vec3.axmy, dvt]

theorem step2 : invStep 2 ((⟨⟨1, 0, 0⟩, ⟨0, 1, 0⟩, ⟨0, 0, 1⟩⟩ : M33 ℝ), (⟨⟨2 / 3, -(1 / 3), 0⟩, ⟨-(1 / 3), 2 / 3, 0⟩, ⟨0, 0, 1⟩⟩ : M33 ℝ)) =
    .ok (⟨⟨1, 0, 0⟩, ⟨0, 1, 0⟩, ⟨0, 0, 1⟩⟩, ⟨⟨2 / 3, -(1 / 3), 0⟩, ⟨-(1 / 3), 2 / 3, 0⟩, ⟨0, 0, 1⟩⟩) := by
  have p0 : pivotRow 2 (⟨⟨1, 0, 0⟩, ⟨0, 1, 0⟩, ⟨0, 0, 1⟩⟩ : M33 ℝ) = 2 := pivotRow_two _
  norm_num [invStep, swapStep, p0, scaleRow, elimOthers, elimRow, Vec3.allDivisible,
    Vec3.divBy, Vec3.axmy, dvt]

/-- non-vacuity of `invM_mul`: a non-diagonal matrix goes through pivot search, guards and elimination -/
theorem invM_example : invM (⟨2, 1, 0, 2, 0, 1⟩ : M6 ℝ) = .ok ⟨2 / 3, -(1 / 3), 0, 2 / 3, 0, 1⟩ := by
  unfold invM invGen3
  rw [step0]; dsimp only
  rw [step1]; dsimp only
  rw [step2]; rfl


/-- the inverse found above is indeed the inverse (instance of `invM_mul`) -/
example : (⟨2 / 3, -(1 / 3), 0, 2 / 3, 0, 1⟩ : M6 ℝ).toMat * (⟨2, 1, 0, 2, 0, 1⟩ : M6 ℝ).toMat = 1 :=
  (invM_mul _ _ invM_example).1

end Refine.Props.C16
