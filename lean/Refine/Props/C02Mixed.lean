import Refine.Lemmas.MixedCount

/-!
  C02 / C01 / C13 next to the cells refine does not adapt ("non-simplex cells are carried through unchanged", "the
  output mesh is conforming -- optionally with a frozen prism layer", "every accepted operation keeps validity").

  About the executable model `Refine/Model/Mixed.lean` (tied to the C by `Drivers/Mixed.lean` vs `harness/h_mixed.c`):

  (a) what each guard decides, exactly:
        `splitEdgeMixed_sound`, `swapEdgeMixed_sound`   allowed ⇔ no qua/pyr/pri/hex has (n0,n1) as a table edge
        `splitEdgeMixed_misses_quad_diagonal`           ... which is weaker than "both ends on one face of the cell"
        `collapseEdgeMixed_sound`                       allowed ⇔ node1 is a vertex of no qua/pyr/pri/hex
        `nodeTouchesMixed_sound`, `smoothTetFrozen_sound`, `cavityFormGate_sound`, `cavityFaceGate_sound`
  (b) `mixed_frame_*`, `mixed_frame`, `mixed_frame_gated`: over ANY history of guarded operations the four
      non-simplex groups (node tuples, ids, order) and the validity and coordinates of every one of their vertices
      are unchanged;
  (c) `mixed_interface_conforming_split` / `_swap` / `_collapse_partial`, `mixed_interface_history`: every triangular
      face of a pyramid / prism that had a tet face or boundary tri on it still has one.

  The mesh is arbitrary: any number of cells of each kind.
-/
namespace Refine.Props.C02Mixed
open Refine Refine.Model Refine.Model.Guards Refine.Model.Mixed Refine.MixedLemmas

variable {P : Type}

/-! ## (a) the guards' exact criteria -/

/-- **`ref_split_edge_mixed`**: on a grid whose non-simplex cells have their `node_per` vertices, the split of
    `(n0,n1)` is allowed iff no pyramid, prism, hexahedron or boundary quadrilateral has `(n0,n1)` as an edge of its
    `e2n` table (generated from `ref_cell_initialize`), in either direction -/
theorem splitEdgeMixed_sound {g : Grid} (hw : Arity g) (n0 n1 : Nat) :
    splitEdgeMixed g n0 n1 = true ↔ ¬ MixedEdge g n0 n1 :=
  splitEdgeMixed_true_iff hw n0 n1

/-- `allowed → no pyr/pri/hex/qua of the grid has (n0,n1) as an edge` needs no hypothesis on the cells at all when the
    cell is met through `node0` (what `ref_cell_has_side` visits) -/
theorem splitEdgeMixed_allowed {g : Grid} {n0 n1 : Nat} (h : splitEdgeMixed g n0 n1 = true) :
    (∀ c ∈ g.pyr, n0 ∈ c.nodes → ¬ IsEdgeOf e2nPyr c n0 n1) ∧ (∀ c ∈ g.pri, n0 ∈ c.nodes → ¬ IsEdgeOf e2nPri c n0 n1) ∧
    (∀ c ∈ g.hex, n0 ∈ c.nodes → ¬ IsEdgeOf e2nHex c n0 n1) ∧ (∀ c ∈ g.qua, n0 ∈ c.nodes → ¬ IsEdgeOf e2nQua c n0 n1) := by
  have h' : Guards.splitEdgeMixed g n0 n1 = true := h
  unfold Guards.splitEdgeMixed at h'
  simp only [Bool.and_eq_true, Bool.not_eq_true'] at h'
  obtain ⟨⟨⟨hp, hr⟩, hh⟩, hq⟩ := h'
  exact ⟨fun c hc hn ⟨p, hpm, hs⟩ => GuardsRules.hasSide_false hp c hc hn p hpm hs,
    fun c hc hn ⟨p, hpm, hs⟩ => GuardsRules.hasSide_false hr c hc hn p hpm hs,
    fun c hc hn ⟨p, hpm, hs⟩ => GuardsRules.hasSide_false hh c hc hn p hpm hs,
    fun c hc hn ⟨p, hpm, hs⟩ => GuardsRules.hasSide_false hq c hc hn p hpm hs⟩

/-- **`ref_swap_edge_mixed`** decides the same thing (it asks the groups in another order) -/
theorem swapEdgeMixed_sound {g : Grid} (hw : Arity g) (n0 n1 : Nat) :
    swapEdgeMixed g n0 n1 = true ↔ ¬ MixedEdge g n0 n1 := by
  show Guards.swapEdgeMixed g n0 n1 = true ↔ _
  rw [swapEdgeMixed_eq_split]
  exact splitEdgeMixed_true_iff hw n0 n1

/-- the criterion is "is a table edge", which is weaker than "lies on the cell": the diagonal `(0,2)` of the
    bottom face of a hexahedron (both ends are corners of the quadrilateral face `0 1 2 3`) is not refused.  (On a
    conforming mesh no tet edge is such a diagonal: the quadrilateral would face two triangles.) -/
theorem splitEdgeMixed_misses_quad_diagonal :
    ∃ (g : Grid) (n0 n1 : Nat), Arity g ∧ (∃ c ∈ g.hex, ∃ f ∈ quaFacesOf Refine.Gen.CellTables.hex,
      n0 ∈ faceOf c f ∧ n1 ∈ faceOf c f) ∧ n0 ≠ n1 ∧ splitEdgeMixed g n0 n1 = true ∧ swapEdgeMixed g n0 n1 = true := by
  refine ⟨{ hex := [⟨[0, 1, 2, 3, 4, 5, 6, 7], 0⟩], tet := [⟨[0, 2, 8, 9], 0⟩] }, 0, 2, ?_, ?_, by decide, by decide,
    by decide⟩
  · constructor <;> intro c hc <;> simp at hc
    subst hc
    rfl
  · exact ⟨⟨[0, 1, 2, 3, 4, 5, 6, 7], 0⟩, by simp, [0, 1, 2, 3], by decide, by decide, by decide⟩

/-- **`ref_collapse_edge_mixed`**: the collapse that removes `node1` is allowed iff `node1` is a vertex of no
    qua/pyr/pri/hex (any grid; `node0` is not looked at) -/
theorem collapseEdgeMixed_sound (g : Grid) (n0 n1 : Nat) :
    collapseEdgeMixed g n0 n1 = true ↔ ¬ OnFrozen g n1 :=
  collapseEdgeMixed_true_iff g n0 n1

/-- **"can't mixed elements"**: `nodeTouchesMixed` iff the node is a vertex of a pyramid, prism or hexahedron -/
theorem nodeTouchesMixed_sound (g : Grid) (n : Nat) :
    nodeTouchesMixed g n = true ↔ ∃ c, (c ∈ g.pyr ∨ c ∈ g.pri ∨ c ∈ g.hex) ∧ n ∈ c.nodes :=
  nodeTouchesMixed_iff g n

/-- `ref_smooth_tet_improve` reaches its coordinate reads iff the node is on no boundary triangle and on no
    qua/pyr/pri/hex -/
theorem smoothTetFrozen_sound (g : Grid) (n : Nat) :
    smoothTetFrozen g n = false ↔ (∀ c ∈ g.tri, n ∉ c.nodes) ∧ ¬ OnFrozen g n :=
  smoothTetFrozen_false_iff g n

/-- both caller loops of `ref_smooth_pass` may offer a vertex of a prism layer to the tet smoother (`interior2` does
    not look at pyr/pri/hex, `interior1` neither): the freeze is decided inside `ref_smooth_tet_improve` only -/
theorem smooth_pass_offers_frozen :
    ∃ (g : Grid) (n : Nat), interior1 g n = true ∧ interior2 g n = true ∧ nodeTouchesMixed g n = true ∧
      smoothTetFrozen g n = true := by
  refine ⟨{ pri := [⟨[0, 1, 2, 3, 4, 5], 0⟩], tet := [⟨[3, 5, 4, 6], 0⟩] }, 3, by decide, by decide, by decide, by decide⟩

/-- the cavity's form gate fires iff the grid has a pyramid or a prism -/
theorem cavityFormGate_sound (g : Grid) : cavityFormGate g = true ↔ g.pyr ≠ [] ∨ g.pri ≠ [] := by
  unfold cavityFormGate
  simp

/-- ... hexahedra (and boundary quadrilaterals) alone do not gate it -/
theorem cavityFormGate_ignores_hex :
    cavityFormGate { hex := [⟨[0, 1, 2, 3, 4, 5, 6, 7], 0⟩], qua := [⟨[0, 1, 2, 3], 1⟩] } = false := by decide

/-- `ref_cavity_enlarge_face` refuses iff a face vertex is on a qua/pyr/pri/hex -/
theorem cavityFaceGate_sound (g : Grid) (face : List Nat) :
    cavityFaceGate g face = true ↔ ∃ n ∈ face, OnFrozen g n := by
  unfold cavityFaceGate
  rw [List.any_eq_true]
  constructor
  · rintro ⟨n, hn, h⟩
    refine ⟨n, hn, ?_⟩
    by_contra hf
    have := (collapseEdgeMixed_true_iff g n n).mpr hf
    unfold Guards.collapseEdgeMixed at this
    simp only [Bool.and_eq_true] at this
    simp [this.1.1.1, this.1.1.2, this.1.2, this.2] at h
  · rintro ⟨n, hn, hf⟩
    refine ⟨n, hn, ?_⟩
    by_contra h
    apply (collapseEdgeMixed_true_iff g n n).mp _ hf
    unfold Guards.collapseEdgeMixed
    simp only [Bool.not_eq_true', Bool.not_eq_false, Bool.and_eq_true] at h
    simp [h.1.1.1, h.1.1.2, h.1.2, h.2]

/-! ## (b) `mixed_frame` -/

/-- the guarded split (`ref_split_pass`'s accepted branch, any status of `ref_split_edge`) -/
theorem mixed_frame_split (m : Mesh P) (n0 n1 new : Nat) (p : P) (hv : FrozenValid m) :
    (guardedSplit m n0 n1 new p).2.2.frozen = m.frozen := by
  unfold guardedSplit
  split_ifs
  · rfl
  · exact splitEdge_frame m n0 n1 new p hv

/-- the guarded collapse: `ref_collapse_edge_mixed` is exactly what keeps the removed vertex off the frozen cells -/
theorem mixed_frame_collapse (m : Mesh P) (n0 n1 : Nat) : (guardedCollapse m n0 n1).2.2.frozen = m.frozen := by
  unfold guardedCollapse
  split_ifs with h
  · rfl
  · have hg : Guards.collapseEdgeMixed m.g n0 n1 = true := by simpa using h
    exact collapseEdge_frame m n0 n1 fun hn =>
      (collapseEdgeMixed_true_iff m.g n0 n1).mp hg ((mem_frozenNodes m n1).mp hn)

/-- the guarded 2-D swap -/
theorem mixed_frame_swap (m : Mesh P) (n0 n1 : Nat) : (guardedSwap m n0 n1).2.2.frozen = m.frozen := by
  unfold guardedSwap
  split_ifs
  · rfl
  · exact swapTriEdge_frame m n0 n1

/-- a vertex move accepted by `ref_smooth_tet_improve`, wherever the vertex ends -/
theorem mixed_frame_move (m : Mesh P) (node : Nat) (p : P) : (guardedMove m node p).2.frozen = m.frozen := by
  unfold guardedMove
  split_ifs with h
  · rfl
  · have hf : smoothTetFrozen m.g node = false := by simpa using h
    exact moveNode_frame m node p fun hn =>
      ((smoothTetFrozen_false_iff m.g node).mp hf).2 ((mem_frozenNodes m node).mp hn)

/-- side condition of a cavity replacement that is not gated: no vertex of a frozen cell (then: of a hexahedron or
    boundary quadrilateral -- the gate excludes pyramids and prisms) is among the vertices `ref_cavity_replace`
    drops for having lost their last tet and tri.  The C does not test it inside `ref_cavity_replace`; the callers
    (`ref_cavity_mixed` in the swap pass, `ref_collapse_edge_mixed` before a collapse by cavity, the face gate of
    `ref_cavity_enlarge_face`) are what establishes it -/
def CavitySafe (m : Mesh P) (dt dr nt nr : List Cell) : Prop :=
  cavityFormGate m.g = false → ∀ n ∈ m.frozenNodes, n ∉ cavityGone m dt dr nt nr

/-- cavity replacement.  Full statement wanted: without `CavitySafe` (derive it from the callers' guards); proved
    with it, and unconditionally on every grid that has a pyramid or a prism (`mixed_frame_gated`) -/
theorem mixed_frame_cavity_partial (m : Mesh P) (dt dr nt nr : List Cell) (hs : CavitySafe m dt dr nt nr) :
    (guardedCavity m dt dr nt nr).2.frozen = m.frozen := by
  unfold guardedCavity
  split_ifs with h
  · rfl
  · exact cavityReplace_frame m dt dr nt nr (hs (by simpa using h))

/-- what an operation must satisfy beyond the modelled guards (only the ungated cavity has a condition) -/
def SafeOp (m : Mesh P) : Op P → Prop
  | .cavity dt dr nt nr => CavitySafe m dt dr nt nr
  | _ => True

/-- one guarded operation of any kind -/
theorem mixed_frame_step (m : Mesh P) (op : Op P) (hv : FrozenValid m) (hs : SafeOp m op) :
    (step m op).frozen = m.frozen := by
  cases op with
  | split n0 n1 new p => exact mixed_frame_split m n0 n1 new p hv
  | collapse n0 n1 => exact mixed_frame_collapse m n0 n1
  | swap n0 n1 => exact mixed_frame_swap m n0 n1
  | move node p => exact mixed_frame_move m node p
  | cavity dt dr nt nr => exact mixed_frame_cavity_partial m dt dr nt nr hs

/-- the side conditions along a history -/
def SafeHistory (m : Mesh P) : List (Op P) → Prop
  | [] => True
  | op :: rest => SafeOp m op ∧ SafeHistory (step m op) rest

/-- **`mixed_frame`**: by induction over any operation history -- the list of qua / pyr / pri / hex cells (node
    tuples, ids, order) and the validity and coordinates of all their vertices are those of the initial mesh -/
theorem mixed_frame (m : Mesh P) (ops : List (Op P)) (hv : FrozenValid m) (hs : SafeHistory m ops) :
    (run m ops).frozen = m.frozen ∧ FrozenValid (run m ops) := by
  induction ops generalizing m with
  | nil => exact ⟨rfl, hv⟩
  | cons op rest ih =>
    have h1 := mixed_frame_step m op hv hs.1
    have hv1 := frozenValid_of_frozen_eq h1 hv
    have h2 := ih (step m op) hv1 hs.2
    exact ⟨by show (run (step m op) rest).frozen = m.frozen; rw [h2.1, h1], h2.2⟩

/-- on a mesh with at least one pyramid or prism (every conforming tet / hex or tet / prism-layer mesh has one) the
    statement is unconditional: the cavity operators are gated, every other operator is guarded -/
theorem mixed_frame_gated (m : Mesh P) (ops : List (Op P)) (hv : FrozenValid m) (hg : m.g.pyr ≠ [] ∨ m.g.pri ≠ []) :
    (run m ops).frozen = m.frozen := by
  induction ops generalizing m with
  | nil => rfl
  | cons op rest ih =>
    have hgate : cavityFormGate m.g = true := (cavityFormGate_sound m.g).mpr hg
    have hs : SafeOp m op := by
      cases op <;> first | trivial | (intro h; rw [hgate] at h; exact absurd h (by decide))
    have h1 := mixed_frame_step m op hv hs
    have hv1 := frozenValid_of_frozen_eq h1 hv
    have hg1 : (step m op).g.pyr ≠ [] ∨ (step m op).g.pri ≠ [] := by
      have := congrArg (fun x => x.1) h1
      simp only [Mesh.frozen] at this
      have hp : (step m op).g.pyr = m.g.pyr := congrArg (fun x => x.2.1) this
      have hr : (step m op).g.pri = m.g.pri := congrArg (fun x => x.2.2.1) this
      rw [hp, hr]
      exact hg
    show (run (step m op) rest).frozen = m.frozen
    rw [ih (step m op) hv1 hg1, h1]

/-! ## (c) conformity of the simplices with the triangular faces of the frozen cells -/

/-- **`mixed_interface_conforming` (split)**: if every triangular face of a pyramid / prism has a tet face or a
    boundary tri on it, it still has after the guarded split -- the guard excludes exactly the splits that would leave
    a hanging node on such a face (whatever status `ref_split_edge` returns) -/
theorem mixed_interface_conforming_split (m : Mesh P) (n0 n1 new : Nat) (p : P) (hw : Arity m.g) (hne : n0 ≠ n1)
    (h : interfaceMatched m.g = true) : interfaceMatched (guardedSplit m n0 n1 new p).2.2.g = true := by
  unfold guardedSplit
  split_ifs with hg
  · exact h
  · have hguard : Guards.splitEdgeMixed m.g n0 n1 = true := by simpa using hg
    have hface := guard_face hw hne hguard
    rw [interfaceMatched_iff] at h ⊢
    unfold splitEdge
    dsimp only
    have ha : (addNode m new p).2.g = m.g := by unfold addNode; split_ifs <;> rfl
    split_ifs
    · rw [ha]; exact h
    · dsimp only
      rw [ha, mixedTriFaces_eq_of (splitCells_groups m.g n0 n1 new)]
      intro k hk
      exact splitCells_matched (hface k hk) (h k hk)

/-- **split, exact form**: the guarded split keeps, for every triangular face of a pyramid / prism, the NUMBER of tets on
    it and the number of boundary tris on it -- so C01's statement at that face ("shared by exactly two cells, or by
    one cell and exactly one boundary triangle", `faceConforming`) has the same truth value before and after: no
    hanging node and no double cover.  Needs the simplices to have their 4 / 3 vertices, the frozen faces to be proper
    triangles and the frozen vertices to be valid (then the trial vertex is none of them). -/
theorem mixed_interface_exact_split (m : Mesh P) (n0 n1 new : Nat) (p : P) (hw : Arity m.g) (hs : SimplexArity m.g)
    (hp : FacesProper m.g) (hv : FrozenValid m) (hne : n0 ≠ n1) :
    ∀ k ∈ mixedTriFaces m.g, faceConforming (guardedSplit m n0 n1 new p).2.2.g k = faceConforming m.g k := by
  intro k hk
  unfold guardedSplit
  split_ifs with hg
  · rfl
  · have hguard : Guards.splitEdgeMixed m.g n0 n1 = true := by simpa using hg
    have hnot := guard_face hw hne hguard k hk
    rcases splitEdge_g m n0 n1 new p with e | e
    · dsimp only; rw [e]
    · -- the cells were rewritten: then the trial vertex was fresh
      by_cases hval : m.valid new = true
      · -- `ref_node_add` refused: nothing happened
        have : (splitEdge m n0 n1 new p).2.g = m.g := by
          unfold splitEdge addNode
          simp [hval]
        dsimp only; rw [this]
      · have hnew : new ∉ k := by
          intro hin
          apply hval
          apply hv new
          rw [mem_frozenNodes]
          rcases mem_mixedTriFaces.mp hk with ⟨c, hc, f, hf, rfl⟩ | ⟨c, hc, f, hf, rfl⟩
          · obtain ⟨x, hx, hx1⟩ := List.mem_map.mp hin
            exact ⟨c, Or.inr (Or.inl hc), by
              rw [← hx1]; exact GuardsRules.nd_mem (by rw [hw.pyr c hc]; exact pyr_face_bound f hf x hx)⟩
          · obtain ⟨x, hx, hx1⟩ := List.mem_map.mp hin
            exact ⟨c, Or.inr (Or.inr (Or.inl hc)), by
              rw [← hx1]; exact GuardsRules.nd_mem (by rw [hw.pri c hc]; exact pri_face_bound f hf x hx)⟩
        have hc := counts_splitCells (g := m.g) (new := new) hs hne (hp k hk) hnew hnot
        dsimp only; rw [e]
        exact faceConforming_congr (splitCells_groups m.g n0 n1 new) hc.1 hc.2

/-- **swap**: the 2-D swap removes the two triangles on the edge; a triangular face of a pyramid / prism covered by
    one of them would contain both ends, which the guard refuses -/
theorem mixed_interface_conforming_swap (m : Mesh P) (n0 n1 : Nat) (hw : Arity m.g) (hp : FacesProper m.g)
    (hw3 : ∀ c ∈ m.g.tri, c.nodes.length = 3) (hne : n0 ≠ n1) (h : interfaceMatched m.g = true) :
    interfaceMatched (guardedSwap m n0 n1).2.2.g = true := by
  unfold guardedSwap
  split_ifs with hg
  · exact h
  · have hguard : Guards.splitEdgeMixed m.g n0 n1 = true := by
      rw [← swapEdgeMixed_eq_split]; simpa using hg
    have hface := guard_face hw hne hguard
    rw [interfaceMatched_iff] at h ⊢
    unfold swapTriEdge
    dsimp only
    rw [mixedTriFaces_eq_of (swapCells_groups m.g n0 n1)]
    intro k hk
    exact swapCells_matched hw3 (hp k hk) (hface k hk) (h k hk)

/-- **collapse (partial)**.  Full statement wanted: as for split, from the guards alone.  Proved: with the hypothesis
    `CollapseNeighbour` for every face -- a tet (tri) that the collapse removes from a frozen triangle has a neighbour
    across its face opposite `node0`.  That is the simplicial part's own face conformity at the removed cells (C01's
    `collapse_conforming` territory, `Props/C13Collapse.lean`), not a mixed-element fact; what the mixed guard
    contributes -- `node1` is on no frozen cell, so no frozen face contains it -- is used here. -/
theorem mixed_interface_conforming_collapse_partial (m : Mesh P) (n0 n1 : Nat) (hw : Arity m.g) (hne : n0 ≠ n1)
    (hnb : ∀ k ∈ mixedTriFaces m.g, CollapseNeighbour m.g n0 n1 k) (h : interfaceMatched m.g = true)
    (hok : (guardedCollapse m n0 n1).2.1 = .ok) : interfaceMatched (guardedCollapse m n0 n1).2.2.g = true := by
  unfold guardedCollapse at hok ⊢
  split_ifs at hok ⊢ with hg
  · exact h
  · have hguard : Guards.collapseEdgeMixed m.g n0 n1 = true := by simpa using hg
    have hfree := (collapseEdgeMixed_true_iff m.g n0 n1).mp hguard
    rw [interfaceMatched_iff] at h ⊢
    unfold collapseEdge at hok ⊢
    dsimp only at hok ⊢
    split_ifs at hok ⊢ with hst
    · exact absurd hok hst
    · have hgr : (removeNode { m with g := (Collapse.collapseEdge m.g n0 n1).2 } n1).2.g =
          (Collapse.collapseEdge m.g n0 n1).2 := by
        unfold removeNode; split_ifs <;> rfl
      rw [hgr, mixedTriFaces_eq_of (collapseCells_groups m.g n0 n1)]
      intro k hk
      have hk1 : n1 ∉ k := by
        intro hin
        apply hfree
        rcases mem_mixedTriFaces.mp hk with ⟨c, hc, f, hf, rfl⟩ | ⟨c, hc, f, hf, rfl⟩
        · obtain ⟨x, hx, hx1⟩ := List.mem_map.mp hin
          exact ⟨c, Or.inr (Or.inl hc), by
            rw [← hx1]; exact GuardsRules.nd_mem (by rw [hw.pyr c hc]; exact pyr_face_bound f hf x hx)⟩
        · obtain ⟨x, hx, hx1⟩ := List.mem_map.mp hin
          exact ⟨c, Or.inr (Or.inr (Or.inl hc)), by
            rw [← hx1]; exact GuardsRules.nd_mem (by rw [hw.pri c hc]; exact pri_face_bound f hf x hx)⟩
      exact collapse_matched hne hk1 (hnb k hk) (h k hk) (by simpa using hst)

/-- **2-D split**: on a planar grid (triangles + quadrilaterals, boundary edges) no side of a quadrilateral gets a
    hanging node: a side that had a triangle side or boundary edge on it still has after a successful guarded split.
    (The 2-D swap is not proved at this level: it needs the orientation bookkeeping of `ref_swap_node23`; the run-level
    tie checks it on every accepted swap.) -/
theorem mixed_interface_conforming_split_2d (m : Mesh P) (n0 n1 new : Nat) (p : P) (hw : Arity m.g) (hne : n0 ≠ n1)
    (h : interfaceMatched2 m.g = true) (hok : (guardedSplit m n0 n1 new p).2.1 = .ok) :
    interfaceMatched2 (guardedSplit m n0 n1 new p).2.2.g = true := by
  unfold guardedSplit at hok ⊢
  split_ifs at hok ⊢ with hg
  · exact h
  · have hguard : Guards.splitEdgeMixed m.g n0 n1 = true := by simpa using hg
    have hside := guard_side hw hne hguard
    unfold interfaceMatched2 at h ⊢
    rw [List.all_eq_true] at h ⊢
    unfold splitEdge at hok ⊢
    dsimp only at hok ⊢
    have ha : (addNode m new p).2.g = m.g := addNode_g m new p
    split_ifs at hok ⊢ with hst
    · exact absurd hok hst
    · dsimp only at hok ⊢
      rw [ha] at hok ⊢
      rw [quaSides_eq_of (splitCells_groups m.g n0 n1 new)]
      intro k hk
      exact splitCells_matched2 (hside k hk) hok (h k hk)

/-- the operations that only rewrite simplices and vertices: split, 2-D swap, vertex move -/
def Simplicial : Op P → Prop
  | .split n0 n1 _ _ => n0 ≠ n1
  | .swap n0 n1 => n0 ≠ n1
  | .move _ _ => True
  | _ => False

/-- the non-simplex groups after any one operation are those before (no hypothesis at all: no kernel writes them) -/
theorem step_groups (m : Mesh P) (op : Op P) : SameFrozenGroups (step m op).g m.g := by
  cases op with
  | split n0 n1 new p =>
    show SameFrozenGroups (guardedSplit m n0 n1 new p).2.2.g m.g
    unfold guardedSplit
    split_ifs
    · exact SameFrozenGroups.refl _
    · rcases splitEdge_g m n0 n1 new p with h | h <;> dsimp only <;> rw [h]
      · exact SameFrozenGroups.refl _
      · exact splitCells_groups m.g n0 n1 new
  | collapse n0 n1 =>
    show SameFrozenGroups (guardedCollapse m n0 n1).2.2.g m.g
    unfold guardedCollapse
    split_ifs
    · exact SameFrozenGroups.refl _
    · unfold collapseEdge
      dsimp only
      split_ifs
      · exact collapseCells_groups m.g n0 n1
      · have : (removeNode { m with g := (Collapse.collapseEdge m.g n0 n1).2 } n1).2.g =
            (Collapse.collapseEdge m.g n0 n1).2 := by unfold removeNode; split_ifs <;> rfl
        rw [this]
        exact collapseCells_groups m.g n0 n1
  | swap n0 n1 =>
    show SameFrozenGroups (guardedSwap m n0 n1).2.2.g m.g
    unfold guardedSwap
    split_ifs
    · exact SameFrozenGroups.refl _
    · exact swapCells_groups m.g n0 n1
  | move node p =>
    show SameFrozenGroups (guardedMove m node p).2.g m.g
    unfold guardedMove
    split_ifs <;> exact ⟨rfl, rfl, rfl, rfl⟩
  | cavity dt dr nt nr =>
    show SameFrozenGroups (guardedCavity m dt dr nt nr).2.g m.g
    unfold guardedCavity
    split_ifs <;> exact ⟨rfl, rfl, rfl, rfl⟩

/-- **`mixed_interface_history`**: along any history of guarded splits, 2-D swaps and vertex moves, every
    triangular face of a pyramid / prism keeps a tet face or boundary tri on it.  (Collapses and cavity replacements
    are excluded from this statement: see `mixed_interface_conforming_collapse_partial`.) -/
theorem mixed_interface_history (m : Mesh P) (ops : List (Op P)) (hall : ∀ op ∈ ops, Simplicial op)
    (hw : Arity m.g) (hp : FacesProper m.g) (hw3 : TriArity m.g) (h : interfaceMatched m.g = true) :
    interfaceMatched (run m ops).g = true := by
  induction ops generalizing m with
  | nil => exact h
  | cons op rest ih =>
    have hg := step_groups m op
    have hs := hall op List.mem_cons_self
    have h1 : interfaceMatched (step m op).g = true ∧ TriArity (step m op).g := by
      cases op with
      | split n0 n1 new p =>
        refine ⟨mixed_interface_conforming_split m n0 n1 new p hw hs h, ?_⟩
        show TriArity (guardedSplit m n0 n1 new p).2.2.g
        unfold guardedSplit
        split_ifs
        · exact hw3
        · rcases splitEdge_g m n0 n1 new p with e | e <;> dsimp only <;> rw [e]
          · exact hw3
          · exact triArity_splitCells n0 n1 new hw3
      | swap n0 n1 =>
        refine ⟨mixed_interface_conforming_swap m n0 n1 hw hp hw3 hs h, ?_⟩
        show TriArity (guardedSwap m n0 n1).2.2.g
        unfold guardedSwap
        split_ifs
        · exact hw3
        · exact triArity_swapCells n0 n1 hw3
      | move node p =>
        have : (step m (Op.move node p)).g = m.g := by
          show (guardedMove m node p).2.g = m.g
          unfold guardedMove; split_ifs <;> rfl
        rw [this]
        exact ⟨h, hw3⟩
      | collapse n0 n1 => exact absurd hs id
      | cavity dt dr nt nr => exact absurd hs id
    exact ih (step m op) (fun o ho => hall o (List.mem_cons_of_mem _ ho)) (arity_of_same hg hw)
      (facesProper_of_same hg hp) h1.2 h1.1

/-! ## non-vacuity -/

/-- hex core + pyramid transition + tets, NO prism: hexahedron 0..7, a pyramid on its top face (base 4 5 6 7, apex 8;
    refine's order: base cycle n0 n3 n4 n1, apex n2), one tet on each triangular face of the pyramid, two tets around
    the free edge (9,10) -/
def hexPyrTet : Mesh Nat :=
  { g := { hex := [⟨[0, 1, 2, 3, 4, 5, 6, 7], 0⟩], pyr := [⟨[4, 7, 8, 5, 6], 0⟩],
           tet := [⟨[4, 7, 8, 9], 0⟩, ⟨[7, 6, 8, 10], 0⟩, ⟨[8, 6, 5, 11], 0⟩, ⟨[4, 8, 5, 12], 0⟩, ⟨[7, 8, 9, 10], 0⟩],
           qua := [⟨[0, 3, 2, 1], 1⟩] },
    pts := (List.range 13).map fun n => (n, 100 + n) }

/-- prism layer + tets, no pyramid: prism 0 1 2 / 3 4 5, a tet on its top triangle, the bottom triangle on the
    boundary -/
def prismTet : Mesh Nat :=
  { g := { pri := [⟨[0, 1, 2, 3, 4, 5], 0⟩], tet := [⟨[3, 5, 4, 6], 0⟩, ⟨[3, 4, 6, 7], 0⟩], tri := [⟨[0, 2, 1], 1⟩] },
    pts := (List.range 8).map fun n => (n, 100 + n) }

theorem hexPyrTet_arity : Arity hexPyrTet.g := by
  constructor <;> intro c hc <;> simp [hexPyrTet] at hc <;> subst hc <;> rfl

theorem prismTet_arity : Arity prismTet.g := by
  constructor <;> intro c hc <;> simp [prismTet] at hc <;> subst hc <;> rfl

/-- hypotheses of the frame and interface theorems hold on the hex + pyramid + tet mesh (no prism) -/
example : FrozenValid hexPyrTet ∧ interfaceMatched hexPyrTet.g = true ∧ (hexPyrTet.g.pyr ≠ [] ∨ hexPyrTet.g.pri ≠ []) := by
  refine ⟨?_, by decide, Or.inl (by decide)⟩
  intro n hn
  have : n ∈ hexPyrTet.frozenNodes → hexPyrTet.valid n = true := by
    revert n; decide
  exact this hn

/-- the guards on it: the apex-to-base edge (4,8) of the pyramid may not be split although the mesh has no prism, the
    tet edge (9,10) may; vertex 8 (the apex) may not be removed by a collapse nor moved, vertex 9 may -/
example : splitEdgeMixed hexPyrTet.g 4 8 = false ∧ splitEdgeMixed hexPyrTet.g 9 10 = true ∧
    splitEdgeMixed hexPyrTet.g 4 5 = false ∧ collapseEdgeMixed hexPyrTet.g 9 8 = false ∧
    collapseEdgeMixed hexPyrTet.g 8 9 = true ∧ smoothTetFrozen hexPyrTet.g 8 = true ∧
    smoothTetFrozen hexPyrTet.g 9 = false := by decide

/-- a history with an accepted split, an accepted collapse, an accepted move and refused ones: the frozen part is
    the initial one (computed), as `mixed_frame_gated` says -/
example : (run hexPyrTet [.split 9 10 13 7, .split 4 8 14 7, .move 8 0, .move 13 5, .collapse 10 13, .collapse 9 8,
    .cavity [⟨[7, 8, 9, 10], 0⟩] [] [] []]).frozen = hexPyrTet.frozen ∧
    (guardedSplit hexPyrTet 9 10 13 7).1 = true ∧ (guardedSplit hexPyrTet 4 8 14 7).1 = false ∧
    (guardedMove hexPyrTet 8 0).1 = false ∧ (guardedCollapse hexPyrTet 9 8).1 = false := by decide

/-- ... and the interface stays matched after the accepted split of (9,10) (the tet [7,8,9,10] on the edge is cut) -/
example : interfaceMatched (guardedSplit hexPyrTet 9 10 13 7).2.2.g = true ∧
    (guardedSplit hexPyrTet 9 10 13 7).2.1 = .ok ∧ (guardedSplit hexPyrTet 9 10 13 7).2.2.g.tet.length = 6 := by decide

/-- the exact form on the same mesh: every triangular face of the pyramid is conforming (one pyramid + one tet) before
    and after the accepted split -/
example : (mixedTriFaces hexPyrTet.g).all (faceConforming hexPyrTet.g) = true ∧
    (mixedTriFaces hexPyrTet.g).all (faceConforming (guardedSplit hexPyrTet 9 10 13 7).2.2.g) = true ∧
    SimplexArity hexPyrTet.g := by
  refine ⟨by decide, by decide, ?_, ?_⟩ <;> intro c hc <;> simp [hexPyrTet] at hc
  · rcases hc with rfl | rfl | rfl | rfl | rfl <;> rfl

/-- what the guard prevents: the unguarded split of the pyramid edge (4,8) leaves the pyramid faces (4,7,8), (4,8,5)
    without a tet (hanging node 13) -/
example : interfaceMatched (splitEdge hexPyrTet 4 8 13 7).2.g = false := by decide

/-- prism + tets -/
example : FrozenValid prismTet ∧ interfaceMatched prismTet.g = true ∧ FacesProper prismTet.g ∧ TriArity prismTet.g := by
  refine ⟨?_, by decide, facesProper_of prismTet_arity ?_ ?_, ?_⟩
  · intro n hn
    have : n ∈ prismTet.frozenNodes → prismTet.valid n = true := by revert n; decide
    exact this hn
  · intro c hc; simp [prismTet] at hc
  · intro c hc; simp [prismTet] at hc; subst hc; decide
  · intro c hc; simp [prismTet] at hc; subst hc; rfl

example : splitEdgeMixed prismTet.g 3 4 = false ∧ splitEdgeMixed prismTet.g 0 3 = false ∧
    splitEdgeMixed prismTet.g 3 6 = true ∧ splitEdgeMixed prismTet.g 6 7 = true ∧
    nodeTouchesMixed prismTet.g 3 = true ∧ nodeTouchesMixed prismTet.g 6 = false ∧ cavityFormGate prismTet.g = true ∧
    interfaceMatched (guardedSplit prismTet 3 6 8 0).2.2.g = true ∧
    (run prismTet [.split 3 6 8 0, .move 6 1, .move 3 1, .split 3 4 9 0]).frozen = prismTet.frozen := by decide

/-- an ungated grid (hexahedron + quadrilateral, no pyramid / prism) where `CavitySafe` matters: removing the only tet
    of vertex 4 by a cavity drops vertex 4 of the hexahedron -- the side condition is not vacuous, and the C's
    `ref_cavity_replace` does not test it by itself -/
example :
    let m : Mesh Nat := { g := { hex := [⟨[0, 1, 2, 3, 4, 5, 6, 7], 0⟩], tet := [⟨[4, 8, 9, 10], 0⟩, ⟨[8, 9, 10, 11], 0⟩] },
                          pts := (List.range 12).map fun n => (n, n) }
    cavityFormGate m.g = false ∧ (guardedCavity m [⟨[4, 8, 9, 10], 0⟩] [] [] []).2.frozen ≠ m.frozen ∧
      (guardedCavity m [⟨[8, 9, 10, 11], 0⟩] [] [] []).2.frozen = m.frozen := by decide

/-- 2-D: a quadrilateral 0 1 2 3 with a triangle on its top side (3,2) and boundary edges on the others; the split of
    the quad side (2,3) is refused, the split of the free triangle side (2,4) keeps the quad sides matched -/
def quadTri : Mesh Nat :=
  { g := { qua := [⟨[0, 1, 2, 3], 1⟩], tri := [⟨[3, 2, 4], 1⟩],
           edg := [⟨[0, 1], 1⟩, ⟨[1, 2], 2⟩, ⟨[3, 0], 4⟩, ⟨[2, 4], 2⟩, ⟨[4, 3], 4⟩] },
    pts := (List.range 5).map fun n => (n, n) }

example : interfaceMatched2 quadTri.g = true ∧ splitEdgeMixed quadTri.g 2 3 = false ∧
    swapEdgeMixed quadTri.g 3 2 = false ∧ (guardedSplit quadTri 2 4 5 0).2.1 = .ok ∧
    interfaceMatched2 (guardedSplit quadTri 2 4 5 0).2.2.g = true ∧
    interfaceMatched2 (splitEdge quadTri 2 3 5 0).2.g = false := by decide

end Refine.Props.C02Mixed
