import Refine.Lemmas.Collapse
import Refine.Lemmas.ScalarReal
import Refine.Props.C01

/-!
  C13 / C01, the edge collapse: what the guards of `ref_collapse.c` establish and why a guarded collapse keeps the
  mesh conforming.  All statements are about the functions `Drivers/Collapse.lean` executes
  (`Model/Collapse.lean`: `collapseEdge`, `collapseEdgeManifold`, `collapseEdgeTetQuality`, `collapseEdgeTriQuality`,
  `collapseEdgeTwodOrientation`, `collapseEdgeLocalCell`, `judge`, `toRemoveNode1`).

  * `collapse_conforming`: the collapse is the simplicial map `σ : node1 ↦ node0`; for every abelian group `G` and
    every alternating, diagonal-free `φ` the signed boundary chain of the collapsed tets and tris under `φ` IS the
    signed boundary chain of the input under `φ ∘ σ` (cells containing both ends map to degenerate cells, whose chain
    is zero).  No hypothesis on the star of node1 is needed at chain level.
  * `collapse_signedConforming`, `collapse_history_conforming`: hence a conforming mesh stays conforming under every
    sequence of collapses that return `REF_SUCCESS`.
  * `collapse_volume_interior`: over ℝ, if node1 lies on no boundary triangle the total signed volume is conserved.
  * `collapse_removed_unreferenced`, `collapse_manifold_no_duplicate`, `collapse_quality_positive`,
    `collapse_tri_positive`, `collapse_local_owned`, `judge_collapse_guards`, `toRemoveNode1_applies_guarded`.

  What chain-level conformity does NOT give (two sheets covering a region with opposite signs cancel) is what the
  guards add: no new cell coincides with an old one (manifold), every new cell has volume above `min_volume`
  (quality).  That positively oriented cells with an unchanged boundary chain do not overlap is the geometric degree
  argument and is not proved here (same gap as for the cavity operator, `Props/C01`).
-/
namespace Refine.Props.C13Collapse
open Refine Refine.Model Refine.Model.Guards Refine.Model.Collapse Refine.Model.Cavity Refine.Lemmas.Cavity
open Refine.Lemmas.Collapse Refine.GuardsRules

variable {G : Type} [AddCommGroup G]

/-- rows of the right width: tets have four vertex slots, tris three -/
structure WF (g : Grid) : Prop where
  tet : ∀ c ∈ g.tet, c.nodes.length = 4
  tri : ∀ c ∈ g.tri, c.nodes.length = 3

/-- **collapseEdge_spec**: when `ref_collapse_edge` returns `REF_SUCCESS` each simplex group is "cells with both
    ends removed, node1 ↦ node0 elsewhere"; the other groups are untouched -/
theorem collapseEdge_spec (g : Grid) (n0 n1 : Nat) (h : (collapseEdge g n0 n1).1 = .ok) :
    (collapseEdge g n0 n1).2 = { g with tet := collapseGroup g.tet n0 n1, tri := collapseGroup g.tri n0 n1,
                                        edg := collapseGroup g.edg n0 n1 } := by
  unfold collapseEdge at h ⊢
  simp only at h ⊢
  split at h
  · cases h
  · split at h
    · cases h
    · split at h
      · cases h
      · rename_i h1 h2 h3
        simp only [h1, h2, h3, if_false]

/-- **collapse_conforming** (chain level).  For every abelian group `G` and every alternating `φ : Node³ → G` that
    vanishes on repeated vertices, the signed boundary of the mesh after `ref_collapse_edge(node0, node1)`,
    `Σ_tets ∂φ − Σ_tris φ`, equals the signed boundary of the mesh before under `φ ∘ σ`, `σ = (node1 ↦ node0)`.
    In words: the tets around node1 after substitution, minus those that contained both ends, have the signed
    boundary of the removed star pushed forward by `σ`; the faces of the link are kept, the faces through node1 are
    moved to node0, and the two faces of a removed cell that do not contain the edge are glued onto each other. -/
theorem collapse_conforming {φ : Int → Int → Int → G} (hφ : Alt φ) (hd : Diag φ) (g : Grid) (n0 n1 : Nat)
    (hne : n0 ≠ n1) (hw : WF g) (hok : (collapseEdge g n0 n1).1 = .ok) :
    gridBd φ (collapseEdge g n0 n1).2 = gridBd (pull φ n0 n1) g := by
  rw [collapseEdge_spec g n0 n1 hok]
  unfold gridBd
  simp only
  rw [sum_collapseGroup cellBd φ n0 n1 g.tet (fun c hc => cellBd_subst φ n0 n1 c (hw.tet c hc))
        (fun c hc h0 h1 => cellBd_both hφ hd n0 n1 hne c (hw.tet c hc) h0 h1),
      sum_collapseGroup triVal φ n0 n1 g.tri (fun c hc => triVal_subst φ n0 n1 c (hw.tri c hc))
        (fun c hc h0 h1 => triVal_both hφ hd n0 n1 hne c (hw.tri c hc) h0 h1)]

/-- chain-level conformity of a `Guards.Grid` (the `SignedConforming` of `Props/C01`, for alternating maps that
    vanish on repeated vertices — automatic when `G` has no 2-torsion) -/
def Conforming (g : Grid) : Prop :=
  ∀ (G : Type) [AddCommGroup G] (φ : Int → Int → Int → G), Alt φ → Diag φ → gridBd φ g = 0

theorem collapseEdge_wf (g : Grid) (n0 n1 : Nat) (hw : WF g) (hok : (collapseEdge g n0 n1).1 = .ok) :
    WF (collapseEdge g n0 n1).2 := by
  rw [collapseEdge_spec g n0 n1 hok]
  constructor
  · intro d hd
    obtain ⟨c, hc, _, rfl⟩ := mem_collapseGroup.mp hd
    simpa [Cell.subst] using hw.tet c hc
  · intro d hd
    obtain ⟨c, hc, _, rfl⟩ := mem_collapseGroup.mp hd
    simpa [Cell.subst] using hw.tri c hc

/-- **collapse_signedConforming**: a conforming mesh is conforming after an accepted `ref_collapse_edge` -/
theorem collapse_signedConforming (g : Grid) (n0 n1 : Nat) (hne : n0 ≠ n1) (hw : WF g)
    (hok : (collapseEdge g n0 n1).1 = .ok) (hc : Conforming g) : Conforming (collapseEdge g n0 n1).2 := by
  intro G _ φ hφ hd
  rw [collapse_conforming hφ hd g n0 n1 hne hw hok]
  exact hc G (pull φ n0 n1) (pull_alt hφ n0 n1) (pull_diag hd n0 n1)

/-- one accepted collapse of a history: distinct ends, `REF_SUCCESS` -/
def cstep (g : Grid) (o : Nat × Nat) : Grid :=
  if o.1 ≠ o.2 ∧ (collapseEdge g o.1 o.2).1 = .ok then (collapseEdge g o.1 o.2).2 else g

/-- **collapse_history_conforming**: along every sequence of accepted collapses, after every prefix, the mesh is
    well formed and chain-level conforming.  (This is the collapse step that `history_noRepeat_partial` of
    `Props/C13` lists as missing for conformity, on the list model of the guards; the rows of `Model/MeshOps` are the
    same cells, `Props/C13.collapseGroup_spec`.) -/
theorem collapse_history_conforming (ops : List (Nat × Nat)) (g : Grid) (hw : WF g) (hc : Conforming g) :
    ∀ k, WF ((ops.take k).foldl cstep g) ∧ Conforming ((ops.take k).foldl cstep g) := by
  intro k
  generalize ops.take k = l
  induction l generalizing g with
  | nil => exact ⟨hw, hc⟩
  | cons o rest ih =>
    simp only [List.foldl_cons]
    apply ih
    · unfold cstep; split
      · rename_i h; exact collapseEdge_wf g o.1 o.2 hw h.2
      · exact hw
    · unfold cstep; split
      · rename_i h; exact collapse_signedConforming g o.1 o.2 h.1 hw h.2 hc
      · exact hc

/-! ### volume -/

open Refine.Props.C01 in
/-- **collapse_volume_interior**: over ℝ, for a conforming mesh and a vertex node1 that lies on no boundary
    triangle, the total signed volume of the tets is the same before and after the collapse (wherever the vertices
    are).  With `collapse_quality_positive` — every new tet has positive volume — the new star fills exactly the
    volume of the removed one. -/
theorem collapse_volume_interior (x : Int → Geom.V3 ℝ) (g : Grid) (n0 n1 : Nat) (hne : n0 ≠ n1) (hw : WF g)
    (hok : (collapseEdge g n0 n1).1 = .ok) (hc : Conforming g) (hint : ∀ c ∈ g.tri, n1 ∉ c.nodes) :
    ((collapseEdge g n0 n1).2.tet.map fun c => volOf x (tetOf c)).sum = (g.tet.map fun c => volOf x (tetOf c)).sum := by
  let p : Geom.V3 ℝ := x 0
  have hvol : ∀ l : List Cell, (l.map (cellBd (coneVol x p))).sum = (l.map fun c => volOf x (tetOf c)).sum := by
    intro l; congr 1; apply List.map_congr_left; intro c _; exact tetBd_coneVol x p (tetOf c)
  have h1 := collapse_signedConforming g n0 n1 hne hw hok hc ℝ (coneVol x p) (coneVol_alt x p) (coneVol_diag x p)
  have h0 := hc ℝ (coneVol x p) (coneVol_alt x p) (coneVol_diag x p)
  have htri : (collapseEdge g n0 n1).2.tri = g.tri := by
    rw [collapseEdge_spec g n0 n1 hok]
    exact collapseGroup_eq_self hint
  unfold gridBd at h0 h1
  rw [htri, hvol] at h1
  rw [hvol] at h0
  linarith

/-! ### what the guards establish -/

/-- **collapse_removed_unreferenced**: after an accepted collapse node1 is referenced by no tet, tri or edg -/
theorem collapse_removed_unreferenced (g : Grid) (n0 n1 : Nat) (hne : n0 ≠ n1) (hok : (collapseEdge g n0 n1).1 = .ok) :
    (∀ c ∈ (collapseEdge g n0 n1).2.tet, n1 ∉ c.nodes) ∧ (∀ c ∈ (collapseEdge g n0 n1).2.tri, n1 ∉ c.nodes) ∧
    (∀ c ∈ (collapseEdge g n0 n1).2.edg, n1 ∉ c.nodes) := by
  rw [collapseEdge_spec g n0 n1 hok]
  have key : ∀ cells : List Cell, ∀ d ∈ collapseGroup cells n0 n1, n1 ∉ d.nodes := by
    intro cells d hd hmem
    obtain ⟨c, _, _, rfl⟩ := mem_collapseGroup.mp hd
    simp only [Cell.subst, List.mem_map] at hmem
    obtain ⟨v, _, hv⟩ := hmem
    by_cases h : v = n1
    · subst h; simp at hv; exact hne hv
    · have : (v == n1) = false := by simpa using h
      simp [this] at hv; exact h hv
  exact ⟨key g.tet, key g.tri, key g.edg⟩

/-- one group of the manifold guard: if the loop runs to its end, no cell that survives the collapse gets, with
    node1 replaced by node0, the vertex set (`ref_sort_unique_int`) of a cell of the group -/
theorem manifoldGroup_no_duplicate (cells : List Cell) (n0 n1 : Nat) (h : manifoldGroup cells n0 n1 = true)
    (c : Cell) (hc : c ∈ cells) (h1 : n1 ∈ c.nodes) (h0 : n0 ∉ c.nodes) :
    ∀ c' ∈ cells, uniq c'.nodes ≠ uniq (Cell.subst n1 n0 c).nodes := by
  unfold manifoldGroup at h
  rw [List.all_eq_true] at h
  have := h c (mem_having.mpr ⟨hc, h1⟩)
  have hw : willCollapse n0 c = false := by simpa [willCollapse] using h0
  simp only [hw, Bool.false_or, Bool.not_eq_true'] at this
  have hne : subst n1 n0 c.nodes ≠ [] := by
    intro e
    have : c.nodes = [] := by simpa [subst] using e
    rw [this] at h1; cases h1
  exact cellWith_false hne this

/-- **collapse_manifold_no_duplicate**: if `ref_collapse_edge_manifold` allows the collapse, then in each of the tet,
    tri and edg groups no cell created by the collapse has the vertex set of a cell that exists already — no
    duplicate cell is created.  (Two created cells coincide only if their originals did: `σ` is injective on cells
    that do not contain node0.) -/
theorem collapse_manifold_no_duplicate (g : Grid) (n0 n1 : Nat) (h : collapseEdgeManifold g n0 n1 = (.ok, true)) :
    (∀ c ∈ g.tet, n1 ∈ c.nodes → n0 ∉ c.nodes → ∀ c' ∈ g.tet, uniq c'.nodes ≠ uniq (Cell.subst n1 n0 c).nodes) ∧
    (∀ c ∈ g.tri, n1 ∈ c.nodes → n0 ∉ c.nodes → ∀ c' ∈ g.tri, uniq c'.nodes ≠ uniq (Cell.subst n1 n0 c).nodes) ∧
    (∀ c ∈ g.edg, n1 ∈ c.nodes → n0 ∉ c.nodes → ∀ c' ∈ g.edg, uniq c'.nodes ≠ uniq (Cell.subst n1 n0 c).nodes) := by
  have h2 : (collapseEdgeManifold g n0 n1).2 = true := by rw [h]
  unfold collapseEdgeManifold at h2
  by_cases ht : manifoldGroup g.tet n0 n1 = true
  · by_cases hr : manifoldGroup g.tri n0 n1 = true
    · by_cases he : manifoldGroup g.edg n0 n1 = true
      · exact ⟨fun c hc h1 h0 => manifoldGroup_no_duplicate g.tet n0 n1 ht c hc h1 h0,
               fun c hc h1 h0 => manifoldGroup_no_duplicate g.tri n0 n1 hr c hc h1 h0,
               fun c hc h1 h0 => manifoldGroup_no_duplicate g.edg n0 n1 he c hc h1 h0⟩
      · exfalso
        simp only [ht, hr, he, Bool.not_true, Bool.not_false, Bool.false_eq_true, if_false, if_true] at h2
        split at h2
        · simp at h2
        · repeat' (split at h2)
          all_goals simp at h2
    · exfalso; simp [ht, hr] at h2
  · exfalso; simp [ht] at h2

/-- a loop with early returns that all carry `false` ends with `true` only if no body returned -/
theorem firstSome_true {β : Type} (f : β → Option (Status × Bool)) (hf : ∀ x r, f x = some r → r.2 = false)
    (l : List β) (h : firstSome f (.ok, true) l = (.ok, true)) : ∀ x ∈ l, f x = none := by
  induction l with
  | nil => intro x hx; cases hx
  | cons y ys ih =>
    unfold firstSome at h
    cases hy : f y with
    | some r => rw [hy] at h; simp only at h; have := hf y r hy; rw [h] at this; cases this
    | none =>
      rw [hy] at h; simp only at h
      intro x hx
      rcases List.mem_cons.mp hx with rfl | hx
      · exact hy
      · exact ih h x hx

open Refine.ScalarReal in
/-- **collapse_quality_positive**: over ℝ, with a positive `collapse_quality_absolute`, if
    `ref_collapse_edge_tet_quality` allows the collapse then every tet around node1 that survives has, with node1
    replaced by node0, a volume strictly above `min_volume` (in particular positive when `min_volume ≥ 0`), and at
    most one of its faces is a boundary triangle. -/
theorem collapse_quality_positive (g : Grid) (nd : Nodes ℝ) (p : Params ℝ) (n0 n1 : Nat) (hq : 0 < p.cqa)
    (h : collapseEdgeTetQuality g nd p n0 n1 = (.ok, true)) :
    ∀ c ∈ g.tet, n1 ∈ c.nodes → n0 ∉ c.nodes →
      p.minVol < tetVolOf nd (subst n1 n0 c.nodes) ∧ ntriWithTetNodes g.tri (subst n1 n0 c.nodes) ≤ 1 := by
  intro c hc h1 h0
  unfold collapseEdgeTetQuality at h
  have hf : ∀ x r, tetQualityStep g nd p n0 n1 x = some r → r.2 = false := by
    intro x r hx
    unfold tetQualityStep at hx
    split at hx
    · cases hx
    · dsimp only at hx
      split at hx
      · split at hx
        · cases hx; rfl
        · split at hx
          · cases hx; rfl
          · cases hx
      · cases hx; rfl
  have hn := firstSome_true _ hf _ h c (mem_having.mpr ⟨hc, h1⟩)
  have hw : willCollapse n0 c = false := by simpa [willCollapse] using h0
  unfold tetQualityStep at hn
  simp only [hw, Bool.false_eq_true, if_false] at hn
  split at hn
  · rename_i q hqual
    split at hn
    · cases hn
    · rename_i hlt
      split at hn
      · cases hn
      · rename_i hnt
        refine ⟨?_, by omega⟩
        by_contra hle
        have hle' : tetVolOf nd (subst n1 n0 c.nodes) ≤ p.minVol := not_lt.mp hle
        unfold tetJacQuality at hqual
        simp only [(le_iff _ _).mpr hle', if_true] at hqual
        have hq' : q = tetVolOf nd (subst n1 n0 c.nodes) - p.minVol := by
          have := congrArg Prod.snd hqual; simpa [sub_eq] using this.symm
        apply hlt
        rw [lt_iff, hq']
        linarith
  · cases hn

open Refine.ScalarReal in
/-- **collapse_tri_positive** (2-D): over ℝ, if `ref_collapse_edge_twod_orientation` allows the collapse, every
    triangle around node1 that survives is, with node1 replaced by node0, counter-clockwise (`normal[2] > 0`) -/
theorem collapse_tri_positive (g : Grid) (nd : Nodes ℝ) (n0 n1 : Nat)
    (h : collapseEdgeTwodOrientation g nd n0 n1 = (.ok, true)) :
    ∀ c ∈ g.tri, n1 ∈ c.nodes → n0 ∉ c.nodes →
      Geom.triTwodOrientation (pt nd.xyz ((subst n1 n0 c.nodes).getD 0 0)) (pt nd.xyz ((subst n1 n0 c.nodes).getD 1 0))
        (pt nd.xyz ((subst n1 n0 c.nodes).getD 2 0)) = true := by
  intro c hc h1 h0
  unfold collapseEdgeTwodOrientation at h
  have hf : ∀ x r, twodOrientationStep nd n0 n1 x = some r → r.2 = false := by
    intro x r hx
    unfold twodOrientationStep at hx
    split at hx
    · cases hx
    · dsimp only at hx
      split at hx
      · cases hx
      · cases hx; rfl
  have hn := firstSome_true _ hf _ h c (mem_having.mpr ⟨hc, h1⟩)
  have hw : willCollapse n0 c = false := by simpa [willCollapse] using h0
  unfold twodOrientationStep at hn
  simp only [hw, Bool.false_eq_true, if_false] at hn
  split at hn
  · assumption
  · cases hn

/-- **collapse_local_owned**: if `ref_collapse_edge_local_cell` says local, every vertex of every tet and tri around
    node0 and node1 is owned by this partition (no ghost is touched by the collapse) -/
theorem collapse_local_owned (g : Grid) (owned : List Bool) (n0 n1 : Nat)
    (h : collapseEdgeLocalCell g owned n0 n1 = true) :
    ∀ c, (c ∈ g.tet ∨ c ∈ g.tri) → (n0 ∈ c.nodes ∨ n1 ∈ c.nodes) → ∀ v ∈ c.nodes, ownedAt owned v = true := by
  unfold collapseEdgeLocalCell allOwned at h
  simp only [Bool.and_eq_true, List.all_eq_true] at h
  obtain ⟨⟨⟨ht1, ht0⟩, hr1⟩, hr0⟩ := h
  intro c hc hn v hv
  rcases hc with hc | hc <;> rcases hn with hn | hn
  · exact ht0 c (mem_having.mpr ⟨hc, hn⟩) v hv
  · exact ht1 c (mem_having.mpr ⟨hc, hn⟩) v hv
  · exact hr0 c (mem_having.mpr ⟨hc, hn⟩) v hv
  · exact hr1 c (mem_having.mpr ⟨hc, hn⟩) v hv

/-! ### the driver applies only guarded collapses; a refusal leaves the cells untouched -/

section Driver
variable {α : Type} [Scalar α] [Inhabited α]

/-- **judge_collapse_guards**: the verdict `collapse` of the guard chain of `ref_collapse_to_remove_node1` means
    every guard answered `REF_SUCCESS` / allowed, in particular the manifold, quality and locality guards -/
theorem judge_collapse_guards (g : Grid) (nd : Nodes α) (p : Params α) (n0 n1 : Nat)
    (h : judge g nd p n0 n1 = .collapse) :
    collapseEdgeMixed g n0 n1 = true ∧ collapseEdgeGeometry g false false n0 n1 = (.ok, true) ∧
    collapseEdgeManifold g n0 n1 = (.ok, true) ∧ collapseEdgeRatio g nd p n0 n1 = true ∧
    (p.twod = true → collapseEdgeTwodOrientation g nd n0 n1 = (.ok, true)) ∧
    collapseEdgeTriQuality g nd p n0 n1 = (.ok, true) ∧ collapseEdgeTetQuality g nd p n0 n1 = (.ok, true) ∧
    collapseEdgeLocalCell g nd.owned n0 n1 = true := by
  unfold judge at h
  split at h
  · cases h
  · rename_i hmixed
    split at h
    · cases h
    · rename_i hgeom
      split at h
      · cases h
      · rename_i hman
        split at h
        · cases h
        · split at h
          · cases h
          · rename_i hratio
            split at h
            · cases h
            · split at h
              · cases h
              · split at h
                · cases h
                · split at h
                  · cases h
                  · rename_i htwod
                    split at h
                    · cases h
                    · rename_i htri
                      split at h
                      · rename_i allowed htet
                        split at h
                        · cases h
                        · rename_i hloc
                          split at h
                          · cases h
                          · rename_i hall
                            refine ⟨by simpa using hmixed, hgeom, hman, by simpa using hratio, ?_, htri, ?_,
                              by simpa using hloc⟩
                            · intro ht; simpa [ht] using htwod
                            · have : allowed = true := by simpa using hall
                              rw [htet, this]
                      · cases h
                    · cases h
                  · cases h
                · cases h
              · cases h
        · cases h
      · cases h
    · cases h

/-- the candidate loop either applies `ref_collapse_edge` for a candidate whose verdict is `collapse`, or leaves the
    grid as it was -/
theorem removeGo_spec (g : Grid) (nd : Nodes α) (p : Params α) (n1 : Nat) (cands : List Nat)
    (tr : List (Nat × Collapse.Verdict)) :
    (∀ n0, (removeGo g nd p n1 cands tr).actual = some n0 →
      n0 ∈ cands ∧ judge g nd p n0 n1 = .collapse ∧ (removeGo g nd p n1 cands tr).grid = (collapseEdge g n0 n1).2 ∧
      (removeGo g nd p n1 cands tr).status = (collapseEdge g n0 n1).1) ∧
    ((removeGo g nd p n1 cands tr).actual = none → (removeGo g nd p n1 cands tr).grid = g) := by
  induction cands generalizing tr with
  | nil => simp [removeGo]
  | cons c cs ih =>
    unfold removeGo
    split
    · rename_i hj
      refine ⟨?_, by simp⟩
      intro n0 h0
      simp only [Option.some.injEq] at h0
      subst h0
      exact ⟨List.mem_cons_self, hj, rfl, rfl⟩
    · exact ⟨by simp, by simp⟩
    · obtain ⟨a, b⟩ := ih (tr ++ [(c, judge g nd p c n1)])
      refine ⟨fun n0 h0 => ?_, fun h0 => b h0⟩
      obtain ⟨hm, rest⟩ := a n0 h0
      exact ⟨List.mem_cons_of_mem _ hm, rest⟩

/-- **toRemoveNode1_applies_guarded**: if `ref_collapse_to_remove_node1` reports `*actual_node0 = node0` (by the
    substitution path), every guard of the chain accepted `(node0, node1)` and the resulting grid is
    `ref_collapse_edge(node0, node1)` of the input; if it reports `REF_EMPTY`, the cells are those of the input
    (a rejected attempt leaves the mesh as it was; the cavity fall-back is a separate operator, `Props/C01`). -/
theorem toRemoveNode1_applies_guarded (lt : α → α → Bool) (g : Grid) (nd : Nodes α) (p : Params α) (n1 : Nat) :
    (∀ n0, (toRemoveNode1 lt g nd p n1).actual = some n0 →
      judge g nd p n0 n1 = .collapse ∧ (toRemoveNode1 lt g nd p n1).grid = (collapseEdge g n0 n1).2) ∧
    ((toRemoveNode1 lt g nd p n1).actual = none → (toRemoveNode1 lt g nd p n1).grid = g) := by
  unfold toRemoveNode1
  simp only
  split
  · simp
  · rename_i cand _
    refine ⟨fun n0 h0 => ?_, fun h0 => ?_⟩
    · obtain ⟨_, hj, hg, _⟩ := (removeGo_spec g nd p n1 _ []).1 n0 h0
      exact ⟨hj, hg⟩
    · exact (removeGo_spec g nd p n1 _ []).2 h0

end Driver

/-! ### bridge to `Props/C01` and non-vacuity -/

/-- the `Mesh3` of `Model/Cavity.lean` (the vocabulary of `Valid3` / `valid3Orient`) of a `Guards.Grid` -/
def toMesh3 (g : Grid) : Mesh3 Int :=
  ⟨[], g.tet.map tetOf, g.tri.map fun c => ⟨(c.nd 0 : Int), (c.nd 1 : Int), (c.nd 2 : Int), c.id⟩⟩

/-- the combinatorial orientation clause of `Props/C01` (signed multiplicity of every unordered face is zero: two
    tets seeing it from opposite sides, or one tet and one boundary tri oriented like the tet face) gives
    `Conforming` — the "closed / half-open star" hypothesis in executable form -/
theorem conforming_of_orient (g : Grid) (h : valid3Orient (toMesh3 g) = true) : Conforming g := by
  intro G _ φ hφ _
  have := signedConforming_of_orient hφ (toMesh3 g) h
  unfold gridBd
  have e1 : faceSum φ (toMesh3 g).tetFaceList = (g.tet.map (cellBd φ)).sum := by
    unfold Mesh3.tetFaceList toMesh3 faceSum cellBd
    simp only
    induction g.tet with
    | nil => simp
    | cons t r ih =>
      simp only [List.map_cons, List.flatMap_cons, List.map_append, List.sum_append, List.sum_cons, ih, faceSum]
  have e2 : faceSum φ (toMesh3 g).triFaceList = (g.tri.map (triVal φ)).sum := by
    unfold Mesh3.triFaceList toMesh3 faceSum triVal
    simp only [List.map_map]
    rfl
  rw [← e1, ← e2]; exact this

instance (g : Grid) : Decidable (WF g) :=
  decidable_of_iff ((∀ c ∈ g.tet, c.nodes.length = 4) ∧ (∀ c ∈ g.tri, c.nodes.length = 3))
    ⟨fun h => ⟨h.1, h.2⟩, fun h => ⟨h.tet, h.tri⟩⟩

/-- an interior vertex star of 8 tets: centre 6, link = octahedron 0:+x 1:-x 2:+y 3:-y 4:+z 5:-z, closed by the 8
    boundary triangles of the link -/
def exStar : Grid :=
  { tet := [⟨[6, 0, 2, 4], 0⟩, ⟨[6, 2, 1, 4], 0⟩, ⟨[6, 3, 0, 4], 0⟩, ⟨[6, 1, 3, 4], 0⟩,
            ⟨[6, 2, 0, 5], 0⟩, ⟨[6, 1, 2, 5], 0⟩, ⟨[6, 0, 3, 5], 0⟩, ⟨[6, 3, 1, 5], 0⟩],
    tri := [⟨[0, 4, 2], 1⟩, ⟨[2, 4, 1], 1⟩, ⟨[3, 4, 0], 1⟩, ⟨[1, 4, 3], 1⟩,
            ⟨[2, 5, 0], 1⟩, ⟨[1, 5, 2], 1⟩, ⟨[0, 5, 3], 1⟩, ⟨[3, 5, 1], 1⟩] }

/-- hypotheses of `collapse_conforming` / `collapse_signedConforming` / `collapse_volume_interior` /
    `collapse_manifold_no_duplicate` / `collapse_removed_unreferenced` on the 8-tet star, collapsing the interior
    vertex 6 onto the link vertex 0: well formed, conforming (orientation clause), node1 on no tri, the manifold guard
    allows, the kernel succeeds and leaves the 4 tets of the far side coned from vertex 0 — again conforming -/
example : WF exStar ∧ valid3Orient (toMesh3 exStar) = true ∧ (∀ c ∈ exStar.tri, 6 ∉ c.nodes) ∧
    collapseEdgeManifold exStar 0 6 = (.ok, true) ∧ (collapseEdge exStar 0 6).1 = .ok ∧
    (collapseEdge exStar 0 6).2.tet = [⟨[0, 2, 1, 4], 0⟩, ⟨[0, 1, 3, 4], 0⟩, ⟨[0, 1, 2, 5], 0⟩, ⟨[0, 3, 1, 5], 0⟩] ∧
    valid3Orient (toMesh3 (collapseEdge exStar 0 6).2) = true := by
  refine ⟨by decide, by decide, by decide, by decide, by decide, by decide, by decide⟩

example : Conforming exStar ∧ Conforming (collapseEdge exStar 0 6).2 :=
  ⟨conforming_of_orient _ (by decide),
   collapse_signedConforming exStar 0 6 (by decide) (by decide) (by decide) (conforming_of_orient _ (by decide))⟩

/-- the manifold guard is not vacuous: with the tet (0,1,2,4) already present the collapse 6 → 0 would create it a
    second time and is refused; the collapse of 0 onto 6 (node0 = 6) would leave tri (6,4,2) and others doubled on
    the boundary and is allowed only topologically (the geometry guard refuses it, vertex 0 lies on a patch) -/
example : collapseEdgeManifold { exStar with tet := exStar.tet ++ [⟨[1, 0, 2, 4], 0⟩] } 0 6 = (.ok, false) ∧
    collapseEdgeGeometry exStar false false 6 0 = (.ok, false) ∧
    collapseEdgeGeometry exStar false false 0 6 = (.ok, true) := by
  refine ⟨by decide, by decide, by decide⟩

/-- a boundary vertex: the upper half of the star (4 tets), vertex 6 on the bottom patch (id 2) together with
    0,1,2,3; collapsing 6 onto 0 along the boundary: geometry and manifold guards allow, the result is conforming,
    both bottom triangles with the edge (0,6) are removed; a ghost in the star makes `local_cell` refuse -/
def exHalf : Grid :=
  { tet := [⟨[6, 0, 2, 4], 0⟩, ⟨[6, 2, 1, 4], 0⟩, ⟨[6, 3, 0, 4], 0⟩, ⟨[6, 1, 3, 4], 0⟩],
    tri := [⟨[0, 4, 2], 1⟩, ⟨[2, 4, 1], 1⟩, ⟨[3, 4, 0], 1⟩, ⟨[1, 4, 3], 1⟩,
            ⟨[6, 0, 2], 2⟩, ⟨[6, 2, 1], 2⟩, ⟨[6, 3, 0], 2⟩, ⟨[6, 1, 3], 2⟩] }

example : WF exHalf ∧ valid3Orient (toMesh3 exHalf) = true ∧
    collapseEdgeGeometry exHalf false false 0 6 = (.ok, true) ∧ collapseEdgeManifold exHalf 0 6 = (.ok, true) ∧
    (collapseEdge exHalf 0 6).2.tri.length = 6 ∧ (collapseEdge exHalf 0 6).2.tet.length = 2 ∧
    valid3Orient (toMesh3 (collapseEdge exHalf 0 6).2) = true ∧
    collapseEdgeLocalCell exHalf [true, true, true, true, true, true, true] 0 6 = true ∧
    collapseEdgeLocalCell exHalf [true, true, true, false, true, true, true] 0 6 = false := by
  refine ⟨by decide, by decide, by decide, by decide, by decide, by decide, by decide, by decide, by decide⟩

/-! ### the collapse as a cavity replacement (checked on the example; the general statement is not proved) -/

/-- the 8 tets of `exStar` in the cell store of the cavity model -/
def exStarCavGrid : Cavity.Grid Int :=
  let g : Cavity.Grid Int := (List.range 7).foldl (fun g _ => (g.addNode ⟨⟨0, 0, 0⟩, true⟩).1) Cavity.Grid.create
  (exStar.tet.map tetOf).foldl (fun g t => { g with tets := (g.tets.add t).1 }) g

/-- `collapse_eq_cavityReplace` on the 8-tet star (NOT proved in general: it needs the face list of
    `ref_cavity_add_tet` over the closed star to be exactly the link, slot by slot).  The cavity machine fed with
    star(node1 = 6) and cavity node node0 = 0 (what `ref_cavity_form_edge_collapse` builds) passes the manifold
    verification and creates 4 tets; they have the vertex sets of the 4 tets `ref_collapse_edge` leaves, and the same
    orientation: closing the cavity's tets with the faces of the collapsed tets as boundary gives signed multiplicity
    zero on every face.  So on this star the substitution IS the cavity replace, and `replace_conforming` /
    `replace_volume` of `Props/C01` say the same as `collapse_conforming` / `collapse_volume_interior`. -/
example :
    let c := (addTets exStarCavGrid (Refine.Props.C01.emptyCav 0) [0, 1, 2, 3, 4, 5, 6, 7]).2
    let new := newTets { c with state := .visible }
    let col := (collapseEdge exStar 0 6).2.tet.map tetOf
    (addTets exStarCavGrid (Refine.Props.C01.emptyCav 0) [0, 1, 2, 3, 4, 5, 6, 7]).1 = .ok ∧
    Refine.Props.C01.VerifyPassed { c with state := .visible } ∧ new.length = 4 ∧
    (∀ t ∈ new, ∃ u ∈ col, uniq [t.n0.toNat, t.n1.toNat, t.n2.toNat, t.n3.toNat] =
        uniq [u.n0.toNat, u.n1.toNat, u.n2.toNat, u.n3.toNat]) ∧
    valid3Orient (⟨[], new, (col.flatMap tetFaces).map fun f => ⟨f.n0, f.n1, f.n2, 0⟩⟩ : Mesh3 Int) = true := by
  decide

end Refine.Props.C13Collapse
