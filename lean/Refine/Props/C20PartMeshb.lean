import Refine.Lemmas.PartMeshbParse
import Refine.Lemmas.PartMeshbRoute
import Refine.Lemmas.PartMeshbCount
import Refine.Props.C07

/-!
  C20 for the PARALLEL libMeshb reader (`ref_part_by_extension` → `ref_part_meshb`, model
  `Refine.Model.PartMeshb`): the reader's OWN validation — the range check of `ref_part_meshb_cell`, made on the
  1-based value of every vertex of a chunk before the decrement — implies that every vertex of every cell that
  reaches the routing is in `[0, nnode)`, hence that `dest = ref_part_implicit(nnode, np, vertex)` is a rank and
  `elements_to_send[dest]`, `start_to_send[dest]` are indexed inside `[0, np)`: the `undefined` result of the model's
  `routeChunk` (an index outside the send-count arrays) is unreachable from an accepted file.
  Every theorem holds for every rank count `np ≥ 1`, every chunk constant, every byte string.
-/
namespace Refine.Props.C20PartMeshb
open Refine.Model.Meshb Refine.Model.PartMeshb Refine.Lemmas.PartMeshb
open Refine.Gen.PartMacros

/-- **accepted ⇒ in range**: rank 0 accepted the file (`parseWith … = ok p`; `p.groups` = what it hands to the
    routing, per cell group and chunk) ⇒ every vertex `x` of every cell is a vertex index `0 ≤ x < nnode`, and the
    block owner `ref_part_implicit nnode np x` (generated from `ref_part.h`) is a rank `0 ≤ · < np` -/
theorem partCell_accepted_in_range (cfg : Cfg) (np cm : Nat) (hnp : 1 ≤ np) (bs : Bytes) (p : Parsed)
    (h : parseWith cfg np cm bs = .ok p) :
    ∀ g ∈ cellInfos.zip p.groups, ∀ ch ∈ g.2, ∀ c ∈ ch, ∀ x ∈ c.take g.1.nodePer,
      0 ≤ x ∧ x < p.nnode ∧
      0 ≤ ref_part_implicit p.nnode (np : Int) x ∧ ref_part_implicit p.nnode (np : Int) x < (np : Int) := by
  intro g hg ch hch c hc x hx
  obtain ⟨h0, h1⟩ := (((parse_cells_ok h).2 g hg ch hch).2 c hc).2 x hx
  obtain ⟨i0, i1, _, _⟩ := Refine.Props.C07.implicit_spec p.nnode (np : Int) x (by omega) (by omega) h0 h1
  exact ⟨h0, h1, i0, i1⟩

/-- the routing of an accepted chunk never indexes the send-count arrays out of range: `routeChunk` (and the
    as-coded counting sort `routeChunkCoded`, equal to it on every input) returns the buckets -/
theorem partCell_route_in_bounds (cfg : Cfg) (np cm : Nat) (hnp : 1 ≤ np) (bs : Bytes) (p : Parsed)
    (h : parseWith cfg np cm bs = .ok p) :
    ∀ g ∈ cellInfos.zip p.groups, ∀ ch ∈ g.2,
      routeChunkCoded p.nnode np ch = .ok ((List.range np).map fun (r : Nat) =>
        ch.filter fun c => destOf p.nnode np c == (r : Int)) := by
  intro g hg ch hch
  rw [routeChunkCoded_eq]
  unfold routeChunk
  have hci : g.1 ∈ cellInfos := (List.of_mem_zip hg).1
  have hnp2 := cellInfos_nodePer_pos g.1 hci
  rw [if_neg]
  intro hany
  rw [List.any_eq_true] at hany
  obtain ⟨d, hd, hbad⟩ := hany
  obtain ⟨c, hc, rfl⟩ := List.mem_map.1 hd
  have hok := ((parse_cells_ok h).2 g hg ch hch).2 c hc
  have hlen : g.1.nodePer ≤ c.length := by
    have := hok.1
    unfold CellInfo.sizePer at this
    omega
  have hmem : c.getD 0 0 ∈ c.take g.1.nodePer := by
    cases c with
    | nil => simp at hlen; omega
    | cons a as =>
      have : g.1.nodePer = (g.1.nodePer - 1) + 1 := by omega
      rw [this, List.take_succ_cons]
      simp
  obtain ⟨_, _, i0, i1⟩ := partCell_accepted_in_range cfg np cm hnp bs p h g hg ch hch c hc _ hmem
  have hbad' := of_decide_eq_true hbad
  unfold destOf at hbad'
  omega

/-- the counting sort as coded (`elements_to_send`, `start_to_send`, `new_location`, slices) equals, on EVERY input,
    the routing the driver executes (bucket `p` = the cells with `dest = p`, in chunk order) -/
theorem routeChunk_eq_coded (N : Int) (np : Nat) (cells : List Cell) :
    routeChunk N np cells = routeChunkCoded N np cells :=
  (routeChunkCoded_eq N np cells).symm

/-! ### non-vacuity -/

/-- 7 vertices, one tet, two triangles, one edge whose FIRST vertex is the last vertex (file index 7 = nnode),
    a geometry record and two CAD bytes -/
def lastVertexFile : Bytes :=
  [1, 0, 0, 0, 2, 0, 0, 0, 3, 0, 0, 0, 20, 0, 0, 0, 3, 0, 0, 0, 4, 0, 0, 0, 228, 0, 0, 0, 7, 0, 0, 0, 0, 0, 0,
   0, 0, 0, 0, 0, 0, 0, 0, 0, 0, 0, 0, 0, 0, 0, 0, 0, 0, 0, 0, 128, 1, 0, 0, 0, 0, 0, 0, 0, 0, 0, 240, 63, 0,
   0, 0, 0, 0, 0, 224, 63, 0, 0, 0, 0, 0, 0, 240, 191, 1, 0, 0, 0, 0, 0, 0, 0, 0, 0, 0, 64, 0, 0, 0, 0, 0, 0,
   240, 63, 0, 0, 0, 0, 0, 0, 0, 192, 1, 0, 0, 0, 0, 0, 0, 0, 0, 0, 8, 64, 0, 0, 0, 0, 0, 0, 248, 63, 0, 0, 0,
   0, 0, 0, 8, 192, 1, 0, 0, 0, 0, 0, 0, 0, 0, 0, 16, 64, 0, 0, 0, 0, 0, 0, 0, 64, 0, 0, 0, 0, 0, 0, 16, 192,
   1, 0, 0, 0, 0, 0, 0, 0, 0, 0, 20, 64, 0, 0, 0, 0, 0, 0, 4, 64, 0, 0, 0, 0, 0, 0, 20, 192, 1, 0, 0, 0, 0, 0,
   0, 0, 0, 0, 24, 64, 0, 0, 0, 0, 0, 0, 8, 64, 0, 0, 0, 0, 0, 0, 24, 192, 1, 0, 0, 0, 5, 0, 0, 0, 252, 0, 0,
   0, 1, 0, 0, 0, 7, 0, 0, 0, 1, 0, 0, 0, 7, 0, 0, 0, 6, 0, 0, 0, 40, 1, 0, 0, 2, 0, 0, 0, 1, 0, 0, 0, 2, 0, 0,
   0, 3, 0, 0, 0, 5, 0, 0, 0, 5, 0, 0, 0, 4, 0, 0, 0, 3, 0, 0, 0, 6, 0, 0, 0, 8, 0, 0, 0, 72, 1, 0, 0, 1, 0, 0,
   0, 1, 0, 0, 0, 2, 0, 0, 0, 3, 0, 0, 0, 4, 0, 0, 0, 0, 0, 0, 0, 41, 0, 0, 0, 108, 1, 0, 0, 1, 0, 0, 0, 2, 0,
   0, 0, 4, 0, 0, 0, 0, 0, 0, 0, 0, 0, 224, 63, 0, 0, 0, 0, 0, 0, 16, 64, 126, 0, 0, 0, 122, 1, 0, 0, 2, 0, 0,
   0, 9, 8, 54, 0, 0, 0, 0, 0, 0, 0]

/-- the same file with that vertex index raised to 8 = nnode + 1 (exactly one past the end) -/
def onePastFile : Bytes :=
  [1, 0, 0, 0, 2, 0, 0, 0, 3, 0, 0, 0, 20, 0, 0, 0, 3, 0, 0, 0, 4, 0, 0, 0, 228, 0, 0, 0, 7, 0, 0, 0, 0, 0, 0,
   0, 0, 0, 0, 0, 0, 0, 0, 0, 0, 0, 0, 0, 0, 0, 0, 0, 0, 0, 0, 128, 1, 0, 0, 0, 0, 0, 0, 0, 0, 0, 240, 63, 0,
   0, 0, 0, 0, 0, 224, 63, 0, 0, 0, 0, 0, 0, 240, 191, 1, 0, 0, 0, 0, 0, 0, 0, 0, 0, 0, 64, 0, 0, 0, 0, 0, 0,
   240, 63, 0, 0, 0, 0, 0, 0, 0, 192, 1, 0, 0, 0, 0, 0, 0, 0, 0, 0, 8, 64, 0, 0, 0, 0, 0, 0, 248, 63, 0, 0, 0,
   0, 0, 0, 8, 192, 1, 0, 0, 0, 0, 0, 0, 0, 0, 0, 16, 64, 0, 0, 0, 0, 0, 0, 0, 64, 0, 0, 0, 0, 0, 0, 16, 192,
   1, 0, 0, 0, 0, 0, 0, 0, 0, 0, 20, 64, 0, 0, 0, 0, 0, 0, 4, 64, 0, 0, 0, 0, 0, 0, 20, 192, 1, 0, 0, 0, 0, 0,
   0, 0, 0, 0, 24, 64, 0, 0, 0, 0, 0, 0, 8, 64, 0, 0, 0, 0, 0, 0, 24, 192, 1, 0, 0, 0, 5, 0, 0, 0, 252, 0, 0,
   0, 1, 0, 0, 0, 8, 0, 0, 0, 1, 0, 0, 0, 7, 0, 0, 0, 6, 0, 0, 0, 40, 1, 0, 0, 2, 0, 0, 0, 1, 0, 0, 0, 2, 0, 0,
   0, 3, 0, 0, 0, 5, 0, 0, 0, 5, 0, 0, 0, 4, 0, 0, 0, 3, 0, 0, 0, 6, 0, 0, 0, 8, 0, 0, 0, 72, 1, 0, 0, 1, 0, 0,
   0, 1, 0, 0, 0, 2, 0, 0, 0, 3, 0, 0, 0, 4, 0, 0, 0, 0, 0, 0, 0, 41, 0, 0, 0, 108, 1, 0, 0, 1, 0, 0, 0, 2, 0,
   0, 0, 4, 0, 0, 0, 0, 0, 0, 0, 0, 0, 224, 63, 0, 0, 0, 0, 0, 0, 16, 64, 126, 0, 0, 0, 122, 1, 0, 0, 2, 0, 0,
   0, 9, 8, 54, 0, 0, 0, 0, 0, 0, 0]

/-- the hypothesis of `partCell_accepted_in_range` is met by a file that uses the last vertex, on 3 ranks -/
example : (parseWith Cfg.current 3 chunkConst lastVertexFile).toOption.map
    (fun p => (p.nnode, p.groups.getD 0 [])) = some (7, [[[6, 0, 7]]]) := by decide +kernel

/-- and the index one past the end is rejected with `REF_INVALID`, for 1, 2 and 3 ranks -/
example : [1, 2, 3].map (fun np => partRead np onePastFile) = [.error .invalid, .error .invalid, .error .invalid] := by
  decide +kernel

/-! ### the declared counts (reader of /repo since 4474557: `ref_part_meshb_count_fits`) -/

/-- **accepted ⇒ every declared cell / geometry count fits**: rank 0 accepted the file ⇒ for every cell group and
    every geometry type whose keyword is in the file, the declared count `n` (read by `ref_part_meshb_long` at the
    bytes `s0`, leaving `s`) satisfies `0 ≤ n ≤ INT_MAX` and `n ≤ (bytes after the count) / 4` -/
theorem partCell_count_fits (cfg : Cfg) (np cm : Nat) (bs : Bytes) (p : Parsed)
    (h : parseWith cfg np cm bs = .ok p) :
    ∃ v kp, header cfg bs = .ok (v, kp) ∧
      ∀ kw, (kw ∈ cellInfos.map (·.kw) ∨ kw ∈ [40, 41, 42]) → ∀ next s0 n s,
        jump v bs kp kw = .ok (some (next, s0)) → rdLong v s0 = .ok (n, s) →
        0 ≤ n ∧ n ≤ INT_MAX ∧ n ≤ ((s.length / 4 : Nat) : Int) := by
  obtain ⟨v, kp, _, _, hh, _, hg, hq, _⟩ := parse_inv h
  refine ⟨v, kp, hh, ?_⟩
  intro kw hkw next s0 n s hj hl
  rw [← countFits_iff]
  rcases hkw with hkw | hkw
  · obtain ⟨ci, hci, rfl⟩ := List.mem_map.1 hkw
    obtain ⟨g, hs⟩ := rdCellGroupsP_sections cellInfos hg ci hci
    exact kwSectionL_fits hs hj hl
  · have : ∃ t ∈ [0, 1, 2], kw = 40 + t := by
      simp only [List.mem_cons, List.not_mem_nil, or_false] at hkw ⊢
      rcases hkw with rfl | rfl | rfl
      · exact ⟨0, Or.inl rfl, rfl⟩
      · exact ⟨1, Or.inr (Or.inl rfl), rfl⟩
      · exact ⟨2, Or.inr (Or.inr rfl), rfl⟩
    obtain ⟨t, ht, rfl⟩ := this
    obtain ⟨g, hs⟩ := rdGeomTypesP_sections [0, 1, 2] hq t ht
    exact kwSectionL_fits hs hj hl

/-- **the read loops make progress and return**: for a count that passed the check (`0 ≤ n ≤ INT_MAX`), any chunk
    constant `1 ≤ cm ≤ INT_MAX` and `np ≥ 1`: `chunk = (REF_INT)MAX(cm, n/np) ≥ 1` (no truncation), and
    `section_size = MIN(chunk, (REF_INT)(n - read)) ≥ 1` whenever `0 ≤ read < n`; hence the fuel `n + 1` of the model
    is never exhausted and NO byte string makes rank 0's reading diverge (`parseWith Cfg.current … ≠ error diverge`:
    the C loops `while (ncell_read < ncell)` / `while (ngeom_read < ngeom)` return) -/
theorem partCell_loop_progress (np cm : Nat) (hcm : 1 ≤ cm) (hcmax : (cm : Int) ≤ INT_MAX) (hnp : 1 ≤ np) :
    (∀ n : Int, 0 ≤ n → n ≤ INT_MAX →
      1 ≤ chunkOf cm n np ∧ chunkOf cm n np ≤ INT_MAX ∧
      ∀ read : Int, 0 ≤ read → read < n → 1 ≤ sectionSize (chunkOf cm n np) n read) ∧
    ∀ bs : Bytes, parseWith Cfg.current np cm bs ≠ .error .diverge := by
  refine ⟨?_, parse_ne_diverge hcm hcmax hnp⟩
  intro n h0 h1
  obtain ⟨_, hc, hm⟩ := chunkOf_bounds hcm hcmax hnp h0 h1
  exact ⟨hc, hm, fun read r0 r1 => sectionSize_pos hc r0 r1 h1⟩

/-- **no `int` overflow in the buffer sizes**: for a file of at most `overflowFreeBytes * np = 306 783 376 · np`
    bytes (≈ 292 MiB per rank), a count that passed the check (so `n ≤ bytes/4`) and the chunk constant of the C,
    `size_per * chunk` and `(node_per + 1) * chunk` — the element counts of `sent_c2n`, `c2n`, `c2n_int`, `c2n_long` —
    are in `[1, 2^31)` for every cell group: `mallocInts` never returns the model's `undefined` -/
theorem partCell_no_int_overflow (np : Nat) (hnp : 1 ≤ np) (len : Nat) (hlen : len ≤ overflowFreeBytes * np)
    (n : Int) (h0 : 0 ≤ n) (h1 : n ≤ INT_MAX) (hfit : n ≤ ((len / 4 : Nat) : Int)) :
    ∀ ci ∈ cellInfos,
      (ci.sizePer : Int) * chunkOf chunkConst n np ≤ INT_MAX ∧
      ((ci.nodePer : Int) + 1) * chunkOf chunkConst n np ≤ INT_MAX ∧
      0 ≤ (ci.sizePer : Int) * chunkOf chunkConst n np ∧ 0 ≤ ((ci.nodePer : Int) + 1) * chunkOf chunkConst n np := by
  intro ci hci
  obtain ⟨c1, c2⟩ := chunk_small hnp h0 hfit hlen h1
  obtain ⟨a, b⟩ := cellInfos_nodePer_le ci hci
  have a' : ((ci.nodePer : Int) + 1) ≤ 28 := by exact_mod_cast a
  have b' : (ci.sizePer : Int) ≤ 28 := by exact_mod_cast b
  have s0 : (0 : Int) ≤ (ci.sizePer : Int) := by positivity
  have n0 : (0 : Int) ≤ (ci.nodePer : Int) + 1 := by positivity
  unfold INT_MAX
  refine ⟨by nlinarith, by nlinarith, by nlinarith, by nlinarith⟩

/-! ### history: the reader before 4474557 trusted the counts (findings/partmeshb-count-*) -/

/-- a 244-byte version-4 file that declares 2^32 tetrahedra -/
def count2pow32File : Bytes :=
  [1, 0, 0, 0, 4, 0, 0, 0, 3, 0, 0, 0, 24, 0, 0, 0, 0, 0, 0, 0, 3, 0, 0, 0, 4, 0, 0, 0, 172, 0, 0, 0, 0, 0, 0,
   0, 4, 0, 0, 0, 0, 0, 0, 0, 0, 0, 0, 0, 0, 0, 0, 0, 0, 0, 0, 0, 0, 0, 0, 0, 0, 0, 0, 0, 0, 0, 0, 0, 1, 0, 0,
   0, 0, 0, 0, 0, 0, 0, 0, 0, 0, 0, 240, 63, 0, 0, 0, 0, 0, 0, 224, 63, 0, 0, 0, 0, 0, 0, 240, 191, 1, 0, 0, 0,
   0, 0, 0, 0, 0, 0, 0, 0, 0, 0, 0, 64, 0, 0, 0, 0, 0, 0, 240, 63, 0, 0, 0, 0, 0, 0, 0, 192, 1, 0, 0, 0, 0, 0,
   0, 0, 0, 0, 0, 0, 0, 0, 8, 64, 0, 0, 0, 0, 0, 0, 248, 63, 0, 0, 0, 0, 0, 0, 8, 192, 1, 0, 0, 0, 0, 0, 0, 0,
   8, 0, 0, 0, 232, 0, 0, 0, 0, 0, 0, 0, 0, 0, 0, 0, 1, 0, 0, 0, 1, 0, 0, 0, 0, 0, 0, 0, 2, 0, 0, 0, 0, 0, 0,
   0, 3, 0, 0, 0, 0, 0, 0, 0, 4, 0, 0, 0, 0, 0, 0, 0, 0, 0, 0, 0, 0, 0, 0, 0, 54, 0, 0, 0, 0, 0, 0, 0, 0, 0, 0,
   0]

/-- a 184-byte version-2 file that declares 2^31-1 tetrahedra -/
def countIntMaxFile : Bytes :=
  [1, 0, 0, 0, 2, 0, 0, 0, 3, 0, 0, 0, 20, 0, 0, 0, 3, 0, 0, 0, 4, 0, 0, 0, 144, 0, 0, 0, 4, 0, 0, 0, 0, 0, 0,
   0, 0, 0, 0, 0, 0, 0, 0, 0, 0, 0, 0, 0, 0, 0, 0, 0, 0, 0, 0, 0, 1, 0, 0, 0, 0, 0, 0, 0, 0, 0, 240, 63, 0, 0,
   0, 0, 0, 0, 224, 63, 0, 0, 0, 0, 0, 0, 240, 191, 1, 0, 0, 0, 0, 0, 0, 0, 0, 0, 0, 64, 0, 0, 0, 0, 0, 0, 240,
   63, 0, 0, 0, 0, 0, 0, 0, 192, 1, 0, 0, 0, 0, 0, 0, 0, 0, 0, 8, 64, 0, 0, 0, 0, 0, 0, 248, 63, 0, 0, 0, 0, 0,
   0, 8, 192, 1, 0, 0, 0, 8, 0, 0, 0, 176, 0, 0, 0, 255, 255, 255, 127, 1, 0, 0, 0, 2, 0, 0, 0, 3, 0, 0, 0, 4,
   0, 0, 0, 0, 0, 0, 0, 54, 0, 0, 0, 0, 0, 0, 0]

/-- HISTORY: "the reader returns on every file" was FALSE of the reader before 4474557 (`parseCellsLegacy`: no
    `ref_part_meshb_count_fits`): with a declared count of 2^32 both `chunk` and `section_size` were `(REF_INT)` casts
    giving 0 and the loop made no progress; on 2 ranks `chunk = (REF_INT)2^31` was negative and `size_per * chunk`
    overflowed.  The reader of today refuses the same bytes with `REF_FAILURE` on 1, 2 and 3 ranks. -/
theorem partCell_count_loop_counterexample :
    parseCellsLegacy Cfg.current 1 chunkConst count2pow32File = .error .diverge ∧
    parseCellsLegacy Cfg.current 2 chunkConst count2pow32File = .error .undefined ∧
    [1, 2, 3].map (fun np => partRead np count2pow32File) = [.error .failure, .error .failure, .error .failure] := by
  decide +kernel

/-- HISTORY: `size_per * chunk` was computed in `int` from an unchecked declared count (2^31-1 tetrahedra in a
    184-byte file: undefined behaviour, UBSan at ref_part.c:439); refused with `REF_FAILURE` today -/
theorem partCell_count_overflow_counterexample :
    parseCellsLegacy Cfg.current 1 chunkConst countIntMaxFile = .error .undefined ∧
    [1, 2, 3].map (fun np => partRead np countIntMaxFile) = [.error .failure, .error .failure, .error .failure] := by
  decide +kernel

end Refine.Props.C20PartMeshb
