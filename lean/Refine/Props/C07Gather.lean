import Refine.Lemmas.ParGather
import Refine.Lemmas.ParCell

/-!
  C07 — rank-count independence, part (b): the gather (src/ref_gather.c).

  `ref_gather_node` writes the vertices in chunks of `chunk = MIN(n_global/np + 1, reduce_byte_limit/32)` globals:
  every rank fills the slots of the globals it OWNS (stored with `part == rank`) with payload and hit marker,
  `ref_mpi_sum` adds the slots on rank 0, rank 0 writes them and flags a hit count ≠ 1.
  `ref_gather_cell` lets the rank that owns a cell (part of its smallest global, `ref_cell_part`) emit it.

  Model: `Refine.Model.Par.gatherNodeChunked / gatherNode / gatherCell` (tied to the C by the diff streams
  `par_gather_node`, `par_gather_cell`).  The payload type `α` and its `add`/`zero` are arbitrary; the only facts used
  are `0 + x = x` and `x + 0 = x`.  (IEEE doubles satisfy them bit-for-bit except `-0.0 + 0.0 = +0.0`.)
-/
namespace Refine.Props.C07Gather
open Refine.Model.Comm Refine.Model.Par Refine.Lemmas.Par

variable {α : Type}

/-- **gather_node_once** — if every global id in `[0,N)` is owned by exactly one rank, then for EVERY chunk size ≥ 1,
    every rank count ≥ 1 and every partition the gather never flags a slot (hit count exactly 1 everywhere) and what
    rank 0 writes, concatenated over all chunks, is the list of the owners' payloads in global-id order `0..N-1`. -/
theorem gather_node_once (add : α → α → α) (zero : α) (hz1 : ∀ x, add zero x = x) (hz2 : ∀ x, add x zero = x)
    (w : World (RankView α)) (hw : w ≠ []) (N chunk : Nat) (hchunk : 1 ≤ chunk)
    (honce : ∀ g, g < N → ownerCount w g = 1) :
    gatherNodeChunked add zero chunk N w = some ((List.range N).map (payloadAt zero w), false) := by
  rw [gatherNodeChunked_eq add zero w hw N chunk hchunk]
  have h1 : (List.range N).map (fun g => (colSum add zero w g).1) = (List.range N).map (payloadAt zero w) := by
    apply List.map_congr_left
    intro g hg
    rw [colSum_once add zero hz1 hz2 w g (honce g (List.mem_range.mp hg))]
  have h2 : (List.range N).any (fun g => (colSum add zero w g).2 != 1) = false := by
    rw [List.any_eq_false]
    intro g hg
    rw [colSum_once add zero hz1 hz2 w g (honce g (List.mem_range.mp hg))]
    simp
  rw [h1, h2]

/-- the hit count rank 0 sees for global `g` is the number of ranks owning `g`, and the output does not depend on
    the chunk size at all (no hypothesis on the world): same bytes for every `reduce_byte_limit` -/
theorem gather_node_chunk_independent (add : α → α → α) (zero : α) (w : World (RankView α)) (hw : w ≠ [])
    (N c1 c2 : Nat) (h1 : 1 ≤ c1) (h2 : 1 ≤ c2) :
    gatherNodeChunked add zero c1 N w = gatherNodeChunked add zero c2 N w := by
  rw [gatherNodeChunked_eq add zero w hw N c1 h1, gatherNodeChunked_eq add zero w hw N c2 h2]

/-- **gather_node_fails_iff** — the gather reports "node used more or less than once" exactly when some global id
    in `[0,N)` has 0 or ≥ 2 owners -/
theorem gather_node_fails_iff (add : α → α → α) (zero : α) (w : World (RankView α)) (hw : w ≠ []) (N chunk : Nat)
    (hchunk : 1 ≤ chunk) :
    ∃ written bad, gatherNodeChunked add zero chunk N w = some (written, bad) ∧ written.length = N ∧
      (bad = true ↔ ∃ g, g < N ∧ ownerCount w g ≠ 1) := by
  refine ⟨_, _, gatherNodeChunked_eq add zero w hw N chunk hchunk, by simp, ?_⟩
  simp only [List.any_eq_true, List.mem_range, bne_iff_ne, ne_eq, colSum_snd]

/-- **gather_node_np_independent** — two distributions of the same vertex data (different rank counts, partitions,
    ghost layers, chunk sizes), each owning every global once, are gathered to the same output -/
theorem gather_node_np_independent (add : α → α → α) (zero : α) (hz1 : ∀ x, add zero x = x)
    (hz2 : ∀ x, add x zero = x) (w w' : World (RankView α)) (hw : w ≠ []) (hw' : w' ≠ []) (N c c' : Nat)
    (hc : 1 ≤ c) (hc' : 1 ≤ c') (h : ∀ g, g < N → ownerCount w g = 1) (h' : ∀ g, g < N → ownerCount w' g = 1)
    (hsame : ∀ g, g < N → payloadAt zero w g = payloadAt zero w' g) :
    gatherNodeChunked add zero c N w = gatherNodeChunked add zero c' N w' := by
  rw [gather_node_once add zero hz1 hz2 w hw N c hc h, gather_node_once add zero hz1 hz2 w' hw' N c' hc' h']
  congr 2
  apply List.map_congr_left
  intro g hg; exact hsame g (List.mem_range.mp hg)

/-- **chunk_positive** — `chunk = MIN(N/np + 1, reduce_byte_limit > 0 ? reduce_byte_limit/32 : INT_MAX)` is ≥ 1
    exactly when `reduce_byte_limit ≤ 0` or `reduce_byte_limit ≥ 32` (one record).  For `0 < limit < 32` the C computes
    `chunk = 0` and its `while` loop never advances (`gather_node_hang`): the default 1 000 000 is fine. -/
theorem chunk_positive (N np : Nat) (rbl : Int) : 1 ≤ chunkOf N np rbl ↔ (rbl ≤ 0 ∨ 32 ≤ rbl) := by
  unfold chunkOf reduceChunkLimit INT_MAX
  have hq : (0 : Int) ≤ (N : Int) / (np : Int) := Int.ediv_nonneg (by omega) (by omega)
  by_cases h : rbl > 0
  · simp only [h, if_true]
    rw [Int.tdiv_eq_ediv_of_nonneg (by omega)]
    omega
  · simp only [h, if_false]
    omega

/-- with `0 < reduce_byte_limit < 32` and at least one vertex the loop never terminates (model: fuel runs out) -/
theorem gather_node_hang (add : α → α → α) (zero : α) (w : World (RankView α)) (N : Nat) (hN : 0 < N) (rbl : Int)
    (h1 : 0 < rbl) (h2 : rbl < 32) : ∃ r, gatherNode add zero rbl N w = r ∧ (match r with | .hang => True | _ => False) := by
  have hc : chunkOf N w.length rbl = 0 := by
    have := (chunk_positive N w.length rbl).not.mpr (by omega)
    omega
  have hloop : ∀ fuel acc bad, gatherLoop add zero w N 0 fuel 0 acc bad = none := by
    intro fuel
    induction fuel with
    | zero => intro acc bad; rfl
    | succ f ih =>
      intro acc bad
      unfold gatherLoop
      simp only [hN, if_true, Nat.zero_min, Nat.add_zero]
      exact ih _ _
  refine ⟨_, rfl, ?_⟩
  unfold gatherNode gatherNodeChunked
  rw [hc, hloop]
  trivial

/-- **gather_node_spec** — ref_gather_node as called (chunk from `reduce_byte_limit`): on a world that owns every
    global once it returns REF_SUCCESS and the payloads in global order, whatever np / partition / limit -/
theorem gather_node_spec (add : α → α → α) (zero : α) (hz1 : ∀ x, add zero x = x) (hz2 : ∀ x, add x zero = x)
    (w : World (RankView α)) (hw : w ≠ []) (N : Nat) (rbl : Int) (hrbl : rbl ≤ 0 ∨ 32 ≤ rbl)
    (honce : ∀ g, g < N → ownerCount w g = 1) :
    gatherNode add zero rbl N w = .done Status.ok ((List.range N).map (payloadAt zero w)) := by
  unfold gatherNode
  rw [gather_node_once add zero hz1 hz2 w hw N _ ((chunk_positive N w.length rbl).mpr hrbl) honce]
  rfl

/-- **gather_cell_once** — over a World that stores the global mesh `G` under the storage rule (rank `r` stores `c`
    iff some vertex of `c` has `part = r`, nodes of stored cells known with their true part), for every partition
    with parts in `[0,np)`: the emitted cells are a permutation of `G` (every cell exactly once: multiset equality,
    also of the written records `globals+1, tag`), `ref_cell_ncell` is `|G|`, and cell `c` is emitted by rank `r`
    iff `r` is the owner determined by `c` and the partition alone. -/
theorem gather_cell_once (part : Nat → Nat) (G : List GCell) (w : World (RankView α))
    (hcons : ∀ r v, w[r]? = some v → Consistent part G r v)
    (hne : ∀ c ∈ G, c.nodes ≠ []) (hrange : ∀ c ∈ G, ∀ g ∈ c.nodes, part g < w.length) :
    (gatherCell w).Perm G ∧ ((gatherCell w).map emit).Perm (G.map emit) ∧ ncell w = G.length ∧
    ∀ r v, w[r]? = some v → ∀ c, c ∈ emitted r v ↔ (c ∈ G ∧ cellOwner part c = some r) := by
  have hperm : (gatherCell w).Perm G := by
    have h := emittedFrom_perm part G 0 w (by simpa using hcons)
    have hall : G.filter (ownerIn part 0 (0 + w.length)) = G := by
      rw [List.filter_eq_self]
      intro c hc
      unfold ownerIn cellOwner
      cases hm : minGlobal c.nodes with
      | none =>
        cases hn : c.nodes with
        | nil => exact absurd hn (hne c hc)
        | cons g gs => simp [hn, minGlobal] at hm
      | some m =>
        have := hrange c hc m (minGlobal_mem _ _ hm)
        simp; omega
    rw [hall] at h
    exact h
  refine ⟨hperm, hperm.map emit, ?_, ?_⟩
  · unfold ncell
    rw [emittedFrom_length]
    exact hperm.length_eq
  · intro r v hv c
    have hp := emitted_perm part G r v (hcons r v hv)
    rw [hp.mem_iff]
    simp

/-! ### non-vacuity: concrete 2- and 3-rank worlds -/

/-- 5 vertices on 2 ranks (rank 0 owns 0,2,4 and keeps a ghost of 1; rank 1 owns 1,3 and keeps a ghost of 0) -/
def w2 : World (RankView Int) :=
  [⟨[⟨0, 0, 10⟩, ⟨2, 0, 12⟩, ⟨4, 0, 14⟩, ⟨1, 1, 11⟩], []⟩, ⟨[⟨1, 1, 11⟩, ⟨3, 1, 13⟩, ⟨0, 0, 10⟩], []⟩]

example : ∀ g, g < 5 → ownerCount w2 g = 1 := by decide
example : gatherNodeChunked (· + ·) 0 2 5 w2 = some ([10, 11, 12, 13, 14], false) := by
  rw [gather_node_once (· + ·) (0 : Int) (by simp) (by simp) w2 (by decide) 5 2 (by decide) (by decide)]
  decide
example : gatherNodeChunked (· + ·) 0 1 5 w2 = gatherNodeChunked (· + ·) 0 6 5 w2 := by decide

/-- vertex 1 owned twice, vertex 3 by nobody: the failure branch -/
def wBad : World (RankView Int) :=
  [⟨[⟨0, 0, 10⟩, ⟨1, 0, 11⟩, ⟨2, 0, 12⟩], []⟩, ⟨[⟨1, 1, 11⟩, ⟨3, 0, 13⟩], []⟩]
example : gatherNodeChunked (· + ·) 0 3 4 wBad = some ([10, 22, 12, 0], true) := by decide
example : ownerCount wBad 1 = 2 ∧ ownerCount wBad 3 = 0 := by decide

/-- two triangles (0,1,2), (1,2,3) on 3 ranks, parts 0,1,1,2 -/
def part3 : Nat → Nat := fun g => [0, 1, 1, 2].getD g 0
def G3 : List GCell := [⟨[0, 1, 2], 7⟩, ⟨[2, 1, 3], 9⟩]
def w3 : World (RankView Unit) :=
  [⟨[⟨0, 0, ()⟩, ⟨1, 1, ()⟩, ⟨2, 1, ()⟩], [⟨[0, 1, 2], 7⟩]⟩,
   ⟨[⟨0, 0, ()⟩, ⟨1, 1, ()⟩, ⟨2, 1, ()⟩, ⟨3, 2, ()⟩], [⟨[2, 1, 3], 9⟩, ⟨[0, 1, 2], 7⟩]⟩,
   ⟨[⟨1, 1, ()⟩, ⟨2, 1, ()⟩, ⟨3, 2, ()⟩], [⟨[2, 1, 3], 9⟩]⟩]
example : gatherCell w3 = [⟨[0, 1, 2], 7⟩, ⟨[2, 1, 3], 9⟩] := by decide
example : Consistent part3 G3 1 (w3.getD 1 ⟨[], []⟩) :=
  ⟨by decide, by decide⟩

end Refine.Props.C07Gather
