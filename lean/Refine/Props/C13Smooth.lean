import Refine.Lemmas.SmoothInterpBetween
import Refine.Lemmas.SmoothInterpEx
import Refine.Lemmas.SmoothInterpReal

/-!
  C13 (smoothers) — "every accepted operation keeps validity; a REJECTED operation leaves no trace", for the back-off
  loop of `ref_smooth_no_geom_edge_improve`, `ref_smooth_no_geom_tri_improve`, `ref_smooth_tet_improve`
  (`Refine/Model/SmoothInterp.lean`, tied to the C by `refdrv smoothinterp` / `harness/h_smoothinterp.c`).

  The loop ends either inside a try whose acceptance test said yes (`smooth_accept_guard`: the accepted state is the
  one the guards of `Model/Guards.lean` / `Model/Unit.lean` / `Model/Quality.lean` were evaluated on), or with the
  original coordinates bit-identical (`smooth_reject_restores_xyz`, unconditional) and
  * the whole record `(xyz, cell, part, bary, metric)` identical when the original position re-locates to its
    original donor (`smooth_reject_no_trace`), or when there is no background / the vertex was unlocated;
  * the metric identical and the donor record fresh when the interpolant is single-valued (`smooth_reject_no_trace_metric`);
  * the donor cell forgotten (a deliberate "moved" mark) when the background is not interpolated continuously or
    the donor lives on another part.
-/
namespace Refine.Props.C13Smooth
open Refine.Model.SmoothInterp Refine.Lemmas.SmoothInterp

variable {P B M : Type}

/-- whatever the configuration, the search outcomes and the acceptance tests: an improver call that ends by
    rejecting all tries leaves the coordinates exactly the original ones -/
theorem smooth_reject_restores_xyz (kind : Kind) (cfg : Cfg) (bg : Bg P B M) (g : Guards P B M) (tries : Nat)
    (trial : Nat → P) (s0 : NodeSt P B M) (h : (improve kind cfg bg g tries trial s0).outcome = .rolledBack) :
    (improve kind cfg bg g tries trial s0).st.xyz = s0.xyz := by
  have key := loop_rule kind.reinterp cfg bg g trial s0.xyz (interpGuess cfg s0) (fun _ => True) (fun _ _ => True)
    (fun s => s.xyz = s0.xyz) (fun _ _ _ _ => ⟨trivial, fun _ => trivial⟩) (fun _ _ _ _ => ⟨trivial, trivial⟩)
    (fun s _ _ => interpolate_frame cfg bg _) tries 0 s0 [] trivial
  unfold improve at h ⊢
  exact key.2 h

/-- an accepted try `j` is one of the `tries` tries, the vertex sits at `trial j`, and the acceptance test of that try
    was evaluated on exactly the state the improver returns (position AND metric: the quality / ratio guards of an
    accepted move saw the metric the vertex keeps) -/
theorem smooth_accept_guard (kind : Kind) (cfg : Cfg) (bg : Bg P B M) (g : Guards P B M) (tries : Nat)
    (trial : Nat → P) (s0 : NodeSt P B M) (j : Nat) (h : (improve kind cfg bg g tries trial s0).outcome = .accepted j) :
    j < tries ∧ (improve kind cfg bg g tries trial s0).st.xyz = trial j ∧
    g.accept j (improve kind cfg bg g tries trial s0).st = true := by
  have key := loop_rule kind.reinterp cfg bg g trial s0.xyz (interpGuess cfg s0) (fun _ => True)
    (fun x s => s.xyz = x) (fun _ => True)
    (fun s x _ _ => ⟨trivial, fun _ => interpolate_frame cfg bg _⟩)
    (fun x s2 h2 _ => ⟨(interpolate_frame cfg bg s2).trans h2, trivial⟩)
    (fun _ _ _ => trivial) tries 0 s0 [] trivial
  unfold improve at h ⊢
  obtain ⟨a, _, c, d⟩ := key.1 j h
  exact ⟨by omega, a, d⟩

/-- all tries rejected by the acceptance test ⇒ the improver never returns from inside the loop -/
theorem smooth_all_rejected (kind : Kind) (cfg : Cfg) (bg : Bg P B M) (g : Guards P B M) (tries : Nat)
    (trial : Nat → P) (s0 : NodeSt P B M) (hrej : ∀ k s, g.accept k s = false) (j : Nat) :
    (improve kind cfg bg g tries trial s0).outcome ≠ .accepted j := by
  intro h
  have := (smooth_accept_guard kind cfg bg g tries trial s0 j h).2.2
  rw [hrej] at this
  cases this

/-- **reject leaves no trace.**  Live background, vertex with a fresh record whose position re-locates to its own
    donor record from every located guess (`StableAt`): all tries rejected ⇒ the final state IS the initial state —
    coordinates, donor cell, part, weights, metric. -/
theorem smooth_reject_no_trace {cfg : Cfg} (hl : Live cfg) {bg : Bg P B M} {D : P → Int → B → Prop} (hs : Sound bg D)
    (kind : Kind) (g : Guards P B M) (tries : Nat) (trial : Nat → P) (s0 : NodeSt P B M) (h0 : Fresh bg D s0)
    (hst : StableAt bg s0) (h : (improve kind cfg bg g tries trial s0).outcome = .rolledBack) :
    (improve kind cfg bg g tries trial s0).st = s0 := by
  refine (improve_local_rule hl hs kind g tries trial s0 ⟨h0.1, h0.2.1⟩ (fun r => r = s0) ?_).2 h
  intro s hloc _
  rw [interpolate_stable hl s0 h0 hst s hloc]

/-- **reject restores position and metric** (serial, complete fall-back, single-valued interpolant — the
    log-Euclidean interpolant is continuous across background cells): all tries rejected ⇒ coordinates identical,
    metric identical, and the donor record — possibly another cell containing the same point — fresh -/
theorem smooth_reject_no_trace_metric {cfg : Cfg} (hl : Live cfg) {bg : Bg P B M} {D : P → Int → B → Prop}
    (hs : Sound bg D) (ht : Total bg D)
    (hsv : ∀ x c b c' b', D x c b → D x c' b' → bg.interp c b = bg.interp c' b')
    (kind : Kind) (g : Guards P B M) (tries : Nat) (trial : Nat → P) (s0 : NodeSt P B M) (h0 : Fresh bg D s0)
    (h : (improve kind cfg bg g tries trial s0).outcome = .rolledBack) :
    (improve kind cfg bg g tries trial s0).st.xyz = s0.xyz ∧ (improve kind cfg bg g tries trial s0).st.met = s0.met ∧
    Fresh bg D (improve kind cfg bg g tries trial s0).st := by
  refine (improve_local_rule hl hs kind g tries trial s0 ⟨h0.1, h0.2.1⟩
    (fun r => r.xyz = s0.xyz ∧ r.met = s0.met ∧ Fresh bg D r) ?_).2 h
  intro s hloc hnf
  have hfr := interpolate_frame cfg bg { s with xyz := s0.xyz }
  rcases interpolate_local hl hs { s with xyz := s0.xyz } ⟨hloc.1, hloc.2⟩ with ⟨_, hf⟩ | ⟨hnf', _⟩ | hfl
  · refine ⟨hfr, ?_, hf⟩
    have hd := hf.2.2.1
    rw [hfr] at hd
    have := hsv _ _ _ _ _ hd h0.2.2.1
    rw [hf.2.2.2, h0.2.2.2] at this
    exact Option.some.inj this
  · exact absurd hnf' (interpolate_total hl hs ht { s with xyz := s0.xyz } ⟨hloc.1, hloc.2⟩
      ⟨s0.cell, s0.bary, h0.2.2.1⟩)
  · exact absurd hfl hnf

/-- no background (`ref_grid_interp == NULL`): the improver only ever writes the coordinates; rejected ⇒ identical -/
theorem smooth_reject_no_interp (cfg : Cfg) (hc : cfg.hasInterp = false) (bg : Bg P B M) (kind : Kind)
    (g : Guards P B M) (tries : Nat) (trial : Nat → P) (s0 : NodeSt P B M) :
    (∀ j, (improve kind cfg bg g tries trial s0).outcome = .accepted j →
      (improve kind cfg bg g tries trial s0).st = { s0 with xyz := trial j }) ∧
    ((improve kind cfg bg g tries trial s0).outcome = .rolledBack → (improve kind cfg bg g tries trial s0).st = s0) := by
  have key := loop_const kind.reinterp cfg bg g trial s0.xyz (interpGuess cfg s0) s0
    (fun x => interpolate_noInterp cfg bg _ hc) tries 0 s0.xyz []
  unfold improve
  exact ⟨fun j hj => (key.1 j hj).1, key.2⟩

/-- background not interpolated continuously: every interpolation call marks the vertex "moved"
    (`cell = REF_EMPTY`) — also when all tries are rejected; nothing else changes -/
theorem smooth_reject_not_continuous (cfg : Cfg) (h1 : cfg.hasInterp = true) (h2 : cfg.continuously = false)
    (bg : Bg P B M) (kind : Kind) (g : Guards P B M) (tries : Nat) (trial : Nat → P) (s0 : NodeSt P B M) :
    (∀ j, (improve kind cfg bg g tries trial s0).outcome = .accepted j →
      (improve kind cfg bg g tries trial s0).st = { s0 with xyz := trial j, cell := EMPTY }) ∧
    ((improve kind cfg bg g tries trial s0).outcome = .rolledBack →
      (improve kind cfg bg g tries trial s0).st = { s0 with cell := EMPTY }) := by
  have key := loop_forget kind.reinterp cfg bg g trial s0.xyz (interpGuess cfg s0) s0
    (fun x => interpolate_notCont cfg bg _ h1 h2) (fun x => interpolate_notCont cfg bg _ h1 h2) tries 0 s0.xyz []
  unfold improve
  exact ⟨fun j hj => (key.1 j hj).1, key.2⟩

/-- a rejected call on one vertex leaves every other vertex of the grid untouched, and an aborted call is not a step -/
theorem history_step_frame (cfg : Cfg) (bg : Bg P B M) (G G' : GridSt P B M) (kind : Kind) (node : Nat)
    (g : GridSt P B M → Guards P B M) (tries : Nat) (trial : GridSt P B M → Nat → P)
    (h : stepOp cfg bg G (.improve kind node g tries trial) = some G') :
    (∀ n, n ≠ node → G' n = G n) ∧ G' node = (improve kind cfg bg (g G) tries (trial G) (G node)).st := by
  unfold stepOp at h
  simp only at h
  cases ho : (improve kind cfg bg (g G) tries (trial G) (G node)).outcome with
  | aborted => rw [ho] at h; cases h
  | accepted j =>
    rw [ho] at h
    simp only [Option.some.injEq] at h
    subst h
    exact ⟨fun n hn => GridSt.set_other _ _ _ _ hn, GridSt.set_same _ _ _⟩
  | rolledBack =>
    rw [ho] at h
    simp only [Option.some.injEq] at h
    subst h
    exact ⟨fun n hn => GridSt.set_other _ _ _ _ hn, GridSt.set_same _ _ _⟩

open Refine.Model.Geom (V3) in
/-- the shrinking step, in exact arithmetic: try `k` is at `original + 2^-k (ideal - original)` — the first try at the
    ideal position, every later one half as far from the original coordinates -/
theorem trial_positions_shrink (ideal original : V3 ℝ) (k : Nat) :
    (trialPos ideal original k).x = original.x + (1 / 2 : ℝ) ^ k * (ideal.x - original.x) ∧
    (trialPos ideal original k).y = original.y + (1 / 2 : ℝ) ^ k * (ideal.y - original.y) ∧
    (trialPos ideal original k).z = original.z + (1 / 2 : ℝ) ^ k * (ideal.z - original.z) :=
  trialPos_real ideal original k

/-! ### non-vacuity: a try sequence [not-found, rejected, accepted] and an all-rejected call -/

open Refine.Lemmas.SmoothInterp.Ex in
/-- first trial (100) outside the background: `REF_NOT_FOUND`, guess restored; second (6) located but rejected;
    third (3) located and accepted: three interpolation calls with statuses not_found, ok, ok -/
example : (improve .tri live bg guards cTries trial s0).outcome = .accepted 2 ∧
    (improve .tri live bg guards cTries trial s0).st = { xyz := 3, cell := 3, part := 0, bary := 21, met := 24 } ∧
    (improve .tri live bg guards cTries trial s0).calls.map (·.1) = [.notFound, .ok, .ok] := by
  refine ⟨by decide, rfl, by decide⟩

open Refine.Lemmas.SmoothInterp.Ex in
/-- the edge smoother on the same sequence: the accepted try interpolates twice -/
example : (improve .edge live bg guards cTries trial s0).outcome = .accepted 2 ∧
    (improve .edge live bg guards cTries trial s0).calls.map (·.1) = [.notFound, .ok, .ok, .ok, .ok] := by
  refine ⟨by decide, by decide⟩

open Refine.Lemmas.SmoothInterp.Ex in
/-- all eight tries rejected (the first not located): nine interpolation calls, final state = initial state -/
example : (improve .tri live bg rejectAll cTries trial s0).outcome = .rolledBack ∧
    (improve .tri live bg rejectAll cTries trial s0).st = s0 ∧
    (improve .tri live bg rejectAll cTries trial s0).calls.length = 9 := by
  refine ⟨by decide, rfl, by decide⟩

open Refine.Lemmas.SmoothInterp.Ex in
/-- the hypotheses of `smooth_reject_no_trace` are met by this state -/
example : StableAt bg s0 := by
  intro s hs
  obtain ⟨hc, hp⟩ := hs
  unfold locateNode
  have hr : ¬ ((bg : Bg Int Int Int).rank ≠ s.part) := fun e => e hp.symm
  simp only [hc, if_false, hr]
  have hp0 : s.part = 0 := hp
  simp [bg, s0, inBg, foundStatus, EMPTY, hp0]

end Refine.Props.C13Smooth
