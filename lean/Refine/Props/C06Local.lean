import Refine.Lemmas.DistLocal
import Refine.Props.C06

/-!
  C06 — local operations between two synchronisation points keep the cell and vertex storage clauses.

  `replaceCells r removed added` is what an accepted split / collapse / swap / cavity replacement does to the cell
  lists of the acting rank `r` when no vertex is created or deleted (vertex creation and deletion are the id part,
  `Refine.Props.C06Ids`); the guard is the ownership guard of C04 (`Refine.Props.C04.ownership_disjoint`,
  `local_gem_sound`, `collapse_local_sound`, `swap_local_sound`): every cell taken away and every cell put in has all
  its vertices stored on `r` with `part = r`.  The guard itself is a HYPOTHESIS here (C04 proves the guard functions
  compute it; nothing proves that every pass calls them).
-/
namespace Refine.Props.C06Local
open Refine.Model.Dist Refine.Lemmas.DistLocal
open Refine.Model.Comm (World)

/-- **cells_after_local_ops**: from a world satisfying `distInv`, replacing on rank `r` cells that are fully owned by
    `r` (as `r` reads its own table) by non-empty cells fully owned by `r` keeps clause (ii) "a rank stores a cell iff
    one of its vertices has part = rank, and all its vertices with it" and clause (iii) "a stored vertex is owned or
    needed by a stored cell" — on every rank; no other rank is touched, and no other rank stores a (non-empty) removed
    cell, so no copy of it goes stale. -/
theorem cells_after_local_ops (w : World RankState) (h : distInv w = true) (r : Nat) (s : RankState)
    (hs : w[r]? = some s) (removed added : List DCell)
    (hrem : ∀ c ∈ removed, fullyOwnedOn s r c = true)
    (hadd : ∀ c ∈ added, fullyOwnedOn s r c = true ∧ c.nodes ≠ []) :
    clauseCells (replaceCells r removed added w) = true ∧ clauseVerts (replaceCells r removed added w) = true ∧
    (∀ q, q ≠ r → (replaceCells r removed added w)[q]? = w[q]?) ∧
    (∀ c ∈ removed, c.nodes ≠ [] → ∀ (q : Nat) (t : RankState), q ≠ r → w[q]? = some t → c ∉ t.cells) := by
  obtain ⟨h1, h2⟩ := replace_facts w h r s hs removed added hrem hadd
  obtain ⟨c1, c2⟩ := (cellFacts_iff _).mp h1
  refine ⟨c1, c2, ?_, h2⟩
  intro q hq
  rw [replaceCells_get]
  cases w[q]? with
  | none => rfl
  | some t => simp [hq]

/-- non-vacuity on the 2-rank world `exDist` of `Props/C06.lean`: rank 1 replaces the boundary triangle it fully owns
    by the same triangle with the other orientation; the hypotheses hold and so do all clauses afterwards -/
example :
    distInv Refine.Props.C06.exDist = true ∧
    (∀ c ∈ [(⟨3, [2, 3, 4], 7⟩ : DCell)], fullyOwnedOn (Refine.Props.C06.exDist[1]'(by decide)) 1 c = true) ∧
    (∀ c ∈ [(⟨3, [2, 4, 3], 7⟩ : DCell)],
      fullyOwnedOn (Refine.Props.C06.exDist[1]'(by decide)) 1 c = true ∧ c.nodes ≠ []) ∧
    distInv (replaceCells 1 [⟨3, [2, 3, 4], 7⟩] [⟨3, [2, 4, 3], 7⟩] Refine.Props.C06.exDist) = true := by
  decide +kernel

end Refine.Props.C06Local
