import Refine.Lemmas.MetricPipe

/-!
  C10, the pipeline part — `ref_metric_lp`, `hessian_multiscale`, `ref_metric_buffer_at_complexity` and the option
  plumbing of the `multiscale` subcommand (model `Refine/Model/MetricPipe.lean`, bit-compared with the C through
  `refdrv metricpipe` / `harness/h_metricpipe.c`), at the lawful real instance.

  The stage theorems are `Props/C10.lean` / `Props/C10Gradation.lean`; what is proved here is about the COMPOSITION:

  (1) `*_ends_with_rescale`: in every modelled driver — and in the subcommand for every option combination
      (`--hessian`, `--buffer`, any `--norm-power` / `--gradation` / `--aspect-ratio`) — the LAST operation is the
      exact rescale `ref_metric_set_complexity` applied to a field that is embedded on a 2-D grid.  A refactor that
      reorders the stages so that anything follows the rescale makes these false.
  (2) `*_complexity`, `*_twod_embedding`: hence the complexity of the returned field equals the target and, on a 2-D
      grid, `m13 = m23 = 0`, `m33 = 1` at every vertex (`multiscaleMetric_report`: the `actual complexity` line
      equals the requested complexity).
  (3) `*_spd`: SPD at every vertex, composing the stage lemmas under their decomposition hypotheses.
  (4) `constants_of_the_c_text`: the flag names, defaults, argv positions, stage order and argument words, buffer
      constants read from the C text on every run are the ones the model was written against.
  (5) `multiscaleOptions_defaults`, `multiscaleOptions_sound`, `multiscaleOptions_usage`: the option scan.
-/
namespace Refine.Props.C10Pipe
open Refine Refine.Scalar Refine.ScalarReal Refine.Model.Matrix Refine.Model.Metric Refine.Model.Gradation
open Refine.Model.MetricPipe Refine.Lemmas.MetricPipe
open Refine.Model.Recon (Cell)
open Refine.Model.Geom (V3)
open Refine.Props.C10 Refine.Props.C10Gradation
open Refine.Gen

/-! ### (4) the generated constants -/

/-- what `tools/translate_more_metricpipe.py` read from `ref_subcommand.c` / `ref_metric.c` is what the model was
    written against: a changed default, a renamed flag, a flag that no longer takes a value, a reordered or
    re-plumbed stage call, a changed buffer constant or relaxation count makes this theorem fail to compile -/
theorem constants_of_the_c_text :
    MultiscaleOpts.minArgc = 6 ∧ MultiscaleOpts.posMesh = 2 ∧ MultiscaleOpts.posScalar = 3 ∧
    MultiscaleOpts.posComplexity = 4 ∧ MultiscaleOpts.posOut = 5 ∧
    MultiscaleOpts.defaultP = 2 ∧ MultiscaleOpts.defaultGradation = (-1, 0) ∧
    MultiscaleOpts.defaultAspectRatio = (-1, 0) ∧
    MultiscaleOpts.strictFlags = [("--norm-power", "p", "atoi"), ("--gradation", "gradation", "atof"),
      ("--aspect-ratio", "aspect_ratio", "atof")] ∧
    MultiscaleOpts.lenientFlags = ["--fun3d-mapbc", "--viscous-tags", "--pcd"] ∧
    MultiscaleOpts.presenceFlags = ["--hessian", "--fixed-point", "--strong-sensor-bc", "--buffer", "--uniform"] ∧
    MultiscaleOpts.complexityFloor = (1, -20) ∧
    MultiscaleOpts.reconstruction = "REF_RECON_L2PROJECTION" ∧
    MultiscaleOpts.lpStages =
      [("ref_recon_hessian", ["ref_grid", "scalar", "metric", "reconstruction"]),
       ("ref_recon_roundoff_limit", ["metric", "ref_grid"]),
       ("ref_metric_local_scale", ["metric", "ref_grid", "p_norm"]),
       ("ref_metric_limit_aspect_ratio", ["metric", "ref_grid", "aspect_ratio"]),
       ("ref_metric_gradation_at_complexity", ["metric", "ref_grid", "gradation", "target_complexity"])] ∧
    MultiscaleOpts.hessianStages =
      [("ref_metric_from_node", ["metric", "ref_grid_node(ref_grid)"]),
       ("ref_recon_abs_value_hessian", ["ref_grid", "metric"]),
       ("ref_recon_roundoff_limit", ["metric", "ref_grid"]),
       ("ref_metric_local_scale", ["metric", "ref_grid", "p"]),
       ("ref_metric_gradation_at_complexity", ["metric", "ref_grid", "gradation", "complexity"])] ∧
    MultiscaleOpts.multiscaleCalls.map (·.1) =
      ["fixed_point_metric", "hessian_multiscale", "ref_metric_lp", "ref_metric_buffer_at_complexity",
       "ref_metric_parse", "ref_metric_complexity", "ref_metric_to_node", "ref_metric_isotropic", "ref_gather_metric"] ∧
    MultiscaleOpts.multiscaleCalls.lookup "ref_metric_lp" =
      some ["metric", "ref_grid", "scalar", "reconstruction", "p", "gradation", "aspect_ratio", "complexity"] ∧
    MultiscaleOpts.multiscaleCalls.lookup "hessian_multiscale" =
      some ["ref_mpi", "ref_grid", "in_scalar", "metric", "p", "gradation", "complexity"] ∧
    MultiscaleOpts.multiscaleCalls.lookup "ref_metric_buffer_at_complexity" = some ["metric", "ref_grid", "complexity"] ∧
    MultiscaleOpts.bufSmin = (5, -1) ∧ MultiscaleOpts.bufSmax = (9, -1) ∧ MultiscaleOpts.bufEmin = (-4, 0) ∧
    MultiscaleOpts.bufEmax = (-1, 0) ∧ MultiscaleOpts.bufInner = (-15, 0) ∧ MultiscaleOpts.bufBase = (1, 1) ∧
    MultiscaleOpts.bufXmax0 = (-1, -100) ∧ MultiscaleOpts.bufRmax0 = (0, 0) ∧
    MultiscaleOpts.bufMidStrict = (true, true) ∧ MultiscaleOpts.bufTopStrict = false ∧
    MultiscaleOpts.bufRelaxations = 10 ∧ MultiscaleOpts.bufScale3 = ((2, 0), (3, 0)) ∧ MultiscaleOpts.bufScale2 = (1, 0) ∧
    MultiscaleOpts.bufLoopSteps = ["buffer", "embed", "complexity", "divisible", "scale", "embed"] := by
  decide

/-! ### (1)–(3) `ref_metric_lp` -/

/-- the composition written here is the chain `Props/C10Gradation` reasons about -/
theorem metricLp_eq_lpChain (twod : Bool) (owned : Nat → Bool) (xyz : List (V3 ℝ)) (cells : List Cell) (p : Int)
    (gradation ar target : ℝ) (hessian : List (M6 ℝ)) :
    metricLp twod owned xyz cells p gradation ar target hessian =
      lpChain twod owned xyz cells p gradation ar target hessian := rfl

/-- **the last operation of `ref_metric_lp` is the exact rescale**: a successful run is the floor, the Lp scale with
    `p_norm`, the limiter with `aspect_ratio`, 20 relaxations with `gradation` at `target`, and then
    `ref_metric_set_complexity`'s block on the field `g` the relaxations left, embedded on a 2-D grid -/
theorem metricLp_ends_with_rescale (twod : Bool) (owned : Nat → Bool) (xyz : List (V3 ℝ)) (cells : List Cell) (p : Int)
    (gradation ar target : ℝ) (hessian out : List (M6 ℝ))
    (h : metricLp twod owned xyz cells p gradation ar target hessian = .ok out) :
    ∃ floored limited g, roundoffLimit xyz cells hessian = .ok floored ∧
      limitAspectRatio twod ar (localScale twod p floored) = .ok limited ∧
      gacLoop twod owned xyz cells (edgeList cells) gradation target 20 limited = .ok g ∧
      setComplexity twod owned xyz g cells target = .ok out ∧
      (twod = true → ∀ m ∈ g, IsEmbedded m) := by
  rw [metricLp_eq_lpChain] at h
  obtain ⟨floored, limited, h1, h2, h3⟩ := lpChain_split h
  obtain ⟨g, hg, hs⟩ := gradationAtComplexity_split h3
  refine ⟨floored, limited, g, h1, h2, hg, hs, ?_⟩
  intro htw
  subst htw
  exact gacLoop_embedded owned xyz cells _ gradation target 20 limited g hg
    (limitAspectRatio2_field_embedded ar _ limited h2)

theorem metricLp_endsWithRescale {twod : Bool} {owned : Nat → Bool} {xyz : List (V3 ℝ)} {cells : List Cell} {p : Int}
    {gradation ar target : ℝ} {hessian out : List (M6 ℝ)}
    (h : metricLp twod owned xyz cells p gradation ar target hessian = .ok out) :
    EndsWithRescale twod owned xyz cells target out := by
  obtain ⟨_, _, g, _, _, _, hs, he⟩ := metricLp_ends_with_rescale twod owned xyz cells p gradation ar target hessian out h
  exact ⟨g, hs, he⟩

/-- **`ref_metric_lp` meets the requested complexity**, for every mesh, Hessian field, norm power, gradation and
    aspect-ratio limit, in 2-D and 3-D.  `hc`: the field the final rescale was applied to has positive complexity. -/
theorem metricLp_complexity (twod : Bool) (owned : Nat → Bool) (xyz : List (V3 ℝ)) (cells : List Cell) (p : Int)
    (gradation ar target : ℝ) (hessian out : List (M6 ℝ))
    (h : metricLp twod owned xyz cells p gradation ar target hessian = .ok out) (ht : 0 < target)
    (hc : ∀ g, setComplexity twod owned xyz g cells target = .ok out → 0 < complexity owned xyz g cells)
    (hdim : twod = !(haveVolCells owned cells)) :
    complexity owned xyz out cells = target :=
  (metricLp_endsWithRescale h).complexity ht hc hdim

/-- **planar embedding**: on a 2-D grid every tensor `ref_metric_lp` returns has `m13 = m23 = 0`, `m33 = 1` -/
theorem metricLp_twod_embedding (owned : Nat → Bool) (xyz : List (V3 ℝ)) (cells : List Cell) (p : Int)
    (gradation ar target : ℝ) (hessian out : List (M6 ℝ))
    (h : metricLp true owned xyz cells p gradation ar target hessian = .ok out) : ∀ m ∈ out, IsEmbedded m :=
  (metricLp_endsWithRescale h).embedded

/-- **SPD at every vertex** for ANY Hessian field (the floor makes it definite, `roundoffLimit_spd`; the Lp scale keeps
    it, `localScale_spd`).  Hypotheses, in the convention of the stage theorems: the limiter's output is SPD
    (`hAR`: per vertex this is `limitAspectRatio_spd` / `limitAspectRatio2_spd_embedded` under a positive largest
    returned eigenvalue), the write-back decompositions of the relaxations are exact and the complexities at the
    rescales positive (`GacLoopOk`, `hc`). -/
theorem metricLp_spd (twod : Bool) (owned : Nat → Bool) (xyz : List (V3 ℝ)) (cells : List Cell) (p : Int)
    (gradation ar target : ℝ) (hessian out : List (M6 ℝ))
    (h : metricLp twod owned xyz cells p gradation ar target hessian = .ok out) (ht : 0 < target)
    (hAR : ∀ floored limited, roundoffLimit xyz cells hessian = .ok floored →
      (∀ m ∈ localScale twod p floored, SPD m) →
      limitAspectRatio twod ar (localScale twod p floored) = .ok limited → ∀ m ∈ limited, SPD m)
    (H : ∀ limited, GacLoopOk twod owned xyz cells (edgeList cells) gradation target 20 limited)
    (hc : ∀ limited g, gacLoop twod owned xyz cells (edgeList cells) gradation target 20 limited = .ok g →
      0 < complexity owned xyz g cells) :
    ∀ m ∈ out, SPD m := by
  rw [metricLp_eq_lpChain] at h
  obtain ⟨floored, limited, h1, h2, h3⟩ := lpChain_split h
  have s2 := lp_front_spd twod p xyz cells hessian floored h1
  exact gradation_at_complexity_spd twod owned xyz cells (edgeList cells) 20 gradation target limited out h3 ht
    (H limited) (hc limited) (hAR floored limited h1 s2 h2)

/-! ### `hessian_multiscale` (the `--hessian` path) -/

theorem hessianMultiscale_endsWithRescale {twod : Bool} {owned : Nat → Bool} {xyz : List (V3 ℝ)} {cells : List Cell}
    {p : Int} {gradation target : ℝ} {hessian out : List (M6 ℝ)}
    (h : hessianMultiscale twod owned xyz cells p gradation target hessian = .ok out) :
    EndsWithRescale twod owned xyz cells target out := by
  unfold hessianMultiscale at h
  cases h0 : absHessian owned hessian with
  | error e => rw [h0] at h; cases h
  | ok absd =>
    rw [h0] at h
    dsimp only at h
    cases h1 : roundoffLimit xyz cells absd with
    | error e => rw [h1] at h; cases h
    | ok floored =>
      rw [h1] at h
      dsimp only at h
      obtain ⟨g, hg, hs⟩ := gradationAtComplexity_split h
      refine ⟨g, hs, ?_⟩
      intro htw
      subst htw
      exact gacLoop_embedded owned xyz cells _ gradation target 20 _ g hg (localScale_embedded p floored)

/-- the `--hessian` path meets the requested complexity and keeps the embedding -/
theorem hessianMultiscale_complexity (twod : Bool) (owned : Nat → Bool) (xyz : List (V3 ℝ)) (cells : List Cell) (p : Int)
    (gradation target : ℝ) (hessian out : List (M6 ℝ))
    (h : hessianMultiscale twod owned xyz cells p gradation target hessian = .ok out) (ht : 0 < target)
    (hc : ∀ g, setComplexity twod owned xyz g cells target = .ok out → 0 < complexity owned xyz g cells)
    (hdim : twod = !(haveVolCells owned cells)) :
    complexity owned xyz out cells = target ∧ (twod = true → ∀ m ∈ out, IsEmbedded m) := by
  refine ⟨(hessianMultiscale_endsWithRescale h).complexity ht hc hdim, ?_⟩
  intro htw
  subst htw
  exact (hessianMultiscale_endsWithRescale h).embedded

/-! ### `ref_metric_buffer_at_complexity` (`--buffer`) -/

/-- **the last operation of `ref_metric_buffer_at_complexity` is the exact rescale** (as repaired in /repo cef0178):
    nine relaxations, `ref_metric_buffer`, the embedding block, then `ref_metric_set_complexity`'s block -/
theorem bufferAtComplexity_ends_with_rescale (twod : Bool) (owned : Nat → Bool) (xyz : List (V3 ℝ)) (cells : List Cell)
    (target : ℝ) (metric out : List (M6 ℝ))
    (h : bufferAtComplexity twod owned xyz cells target metric = .ok out) :
    ∃ prev buffered, bufLoop twod owned xyz cells target 9 metric = .ok prev ∧ buffer xyz prev = .ok buffered ∧
      setComplexity twod owned xyz (reEmbed twod buffered) cells target = .ok out := by
  unfold bufferAtComplexity at h
  have hn : MultiscaleOpts.bufRelaxations = 9 + 1 := by decide
  rw [hn] at h
  obtain ⟨prev, hp, hr⟩ := bufLoop_succ_last twod owned xyz cells target 9 metric out h
  obtain ⟨buffered, hb, hs⟩ := bufRelax_split hr
  exact ⟨prev, buffered, hp, hb, hs⟩

theorem bufferAtComplexity_endsWithRescale {twod : Bool} {owned : Nat → Bool} {xyz : List (V3 ℝ)} {cells : List Cell}
    {target : ℝ} {metric out : List (M6 ℝ)}
    (h : bufferAtComplexity twod owned xyz cells target metric = .ok out) :
    EndsWithRescale twod owned xyz cells target out := by
  obtain ⟨_, buffered, _, _, hs⟩ := bufferAtComplexity_ends_with_rescale twod owned xyz cells target metric out h
  refine ⟨reEmbed twod buffered, hs, ?_⟩
  intro htw
  subst htw
  exact reEmbed_true_embedded buffered

/-- **`--buffer` meets the requested complexity** in 2-D and 3-D (the 2-D case is what was false before cef0178:
    see `bufRelaxLegacy_not_embedded`) -/
theorem bufferAtComplexity_complexity (twod : Bool) (owned : Nat → Bool) (xyz : List (V3 ℝ)) (cells : List Cell)
    (target : ℝ) (metric out : List (M6 ℝ))
    (h : bufferAtComplexity twod owned xyz cells target metric = .ok out) (ht : 0 < target)
    (hc : ∀ g, setComplexity twod owned xyz g cells target = .ok out → 0 < complexity owned xyz g cells)
    (hdim : twod = !(haveVolCells owned cells)) :
    complexity owned xyz out cells = target :=
  (bufferAtComplexity_endsWithRescale h).complexity ht hc hdim

/-- **`--buffer` keeps the planar embedding** on a 2-D grid -/
theorem bufferAtComplexity_twod_embedding (owned : Nat → Bool) (xyz : List (V3 ℝ)) (cells : List Cell)
    (target : ℝ) (metric out : List (M6 ℝ))
    (h : bufferAtComplexity true owned xyz cells target metric = .ok out) : ∀ m ∈ out, IsEmbedded m :=
  (bufferAtComplexity_endsWithRescale h).embedded

/-- the hypotheses along `n` relaxations of the buffer loop (walking the same loop as `bufLoop`): the decompositions
    `ref_metric_buffer` takes return positive eigenvalues, and the complexity at the rescale is positive -/
def BufLoopOk (twod : Bool) (owned : Nat → Bool) (xyz : List (V3 ℝ)) (cells : List Cell) (target : ℝ) :
    Nat → List (M6 ℝ) → Prop
  | 0, _ => True
  | n + 1, metric =>
    EigPos metric ∧
    (∀ buffered, buffer xyz metric = .ok buffered → 0 < complexity owned xyz (reEmbed twod buffered) cells) ∧
    (∀ metric1, bufRelax twod owned xyz cells target metric = .ok metric1 → BufLoopOk twod owned xyz cells target n metric1)

theorem bufLoop_spd (twod : Bool) (owned : Nat → Bool) (xyz : List (V3 ℝ)) (cells : List Cell) (target : ℝ) (n : Nat)
    (metric out : List (M6 ℝ)) (ht : 0 < target) (H : BufLoopOk twod owned xyz cells target n metric)
    (h : bufLoop twod owned xyz cells target n metric = .ok out) (hspd : ∀ m ∈ metric, SPD m) : ∀ m ∈ out, SPD m := by
  induction n generalizing metric with
  | zero =>
    unfold bufLoop at h
    injection h with h
    subst h
    exact hspd
  | succ n ih =>
    unfold bufLoop at h
    cases h1 : bufRelax twod owned xyz cells target metric with
    | error e => rw [h1] at h; cases h
    | ok metric1 =>
      rw [h1] at h
      obtain ⟨buffered, hb, hs⟩ := bufRelax_split h1
      have s1 : ∀ m ∈ buffered, SPD m := buffer_spd xyz metric buffered H.1 hb
      have s2 := reEmbed_spd twod buffered s1
      have s3 := setComplexity_spd twod owned xyz _ metric1 cells target hs (H.2.1 buffered hb) ht s2
      exact ih metric1 (H.2.2 metric1 h1) h s3

/-- **`--buffer` returns SPD tensors** from an SPD field -/
theorem bufferAtComplexity_spd (twod : Bool) (owned : Nat → Bool) (xyz : List (V3 ℝ)) (cells : List Cell)
    (target : ℝ) (metric out : List (M6 ℝ)) (ht : 0 < target)
    (H : BufLoopOk twod owned xyz cells target MultiscaleOpts.bufRelaxations metric)
    (h : bufferAtComplexity twod owned xyz cells target metric = .ok out) (hspd : ∀ m ∈ metric, SPD m) :
    ∀ m ∈ out, SPD m :=
  bufLoop_spd twod owned xyz cells target _ metric out ht H h hspd

/-- history (/repo before cef0178): the loop body rescaled every grid with `rescaleNode false`, i.e. all six entries
    multiplied and no embedding block — so on a 2-D grid `m33` left the value 1 whenever the factor was not 1: the
    tensor (1,0,0,1,0,1) scaled by 4 is (4,0,0,4,0,4), not embedded, while the repaired body returns (4,0,0,4,0,1) -/
theorem bufRelaxLegacy_not_embedded :
    ¬ IsEmbedded (rescaleNode false (4 : ℝ) ⟨1, 0, 0, 1, 0, 1⟩) ∧ IsEmbedded (rescaleNode true (4 : ℝ) ⟨1, 0, 0, 1, 0, 1⟩) := by
  refine ⟨?_, rescaleNode_true_embedded _ _⟩
  unfold rescaleNode scaleM IsEmbedded
  simp only [Bool.false_eq_true, if_false, mul_eq]
  norm_num

/-! ### the subcommand -/

/-- what a successful run of the metric part of the subcommand is: the guard passed, the selected driver returned
    `base`, and `--buffer` (if given) turned it into `out` -/
theorem multiscaleMetric_split {o : Options} {twod : Bool} {owned : Nat → Bool} {xyz : List (V3 ℝ)}
    {cells : List Cell} {field out : List (M6 ℝ)}
    (h : multiscaleMetric o twod owned xyz cells field = .ok out) :
    Scalar.lt (dec MultiscaleOpts.complexityFloor : ℝ) (dec o.complexity) = true ∧
    ∃ base, (if o.hessian = true then hessianMultiscale twod owned xyz cells o.p (dec o.gradation) (dec o.complexity) field
             else metricLp twod owned xyz cells o.p (dec o.gradation) (dec o.aspectRatio) (dec o.complexity) field)
              = .ok base ∧
      (if o.buffer = true then bufferAtComplexity twod owned xyz cells (dec o.complexity) base else .ok base) = .ok out := by
  unfold multiscaleMetric at h
  dsimp only at h
  cases hg : Scalar.lt (dec MultiscaleOpts.complexityFloor : ℝ) (dec o.complexity) with
  | false => rw [hg] at h; simp at h
  | true =>
    rw [hg] at h
    simp only [Bool.not_true, Bool.false_eq_true, if_false] at h
    refine ⟨rfl, ?_⟩
    cases hb : (if o.hessian = true then hessianMultiscale twod owned xyz cells o.p (dec o.gradation) (dec o.complexity) field
             else metricLp twod owned xyz cells o.p (dec o.gradation) (dec o.aspectRatio) (dec o.complexity) field) with
    | error e => rw [hb] at h; cases h
    | ok base => rw [hb] at h; exact ⟨base, rfl, h⟩

/-- the guard `RAS(complexity > 1.0e-20)` makes the target positive -/
theorem multiscaleMetric_target_pos (o : Options) (twod : Bool) (owned : Nat → Bool) (xyz : List (V3 ℝ))
    (cells : List Cell) (field out : List (M6 ℝ))
    (h : multiscaleMetric o twod owned xyz cells field = .ok out) : (0 : ℝ) < dec o.complexity := by
  have hg := (multiscaleMetric_split h).1
  rw [lt_iff] at hg
  refine lt_trans ?_ hg
  have : MultiscaleOpts.complexityFloor = (1, -20) := by decide
  simp only [dec, this, ofDec_eq]
  positivity

/-- **for every option combination the last operation of `ref multiscale` is the exact rescale to the requested
    complexity** (default path, `--hessian`, with or without `--buffer`, any `--norm-power`, `--gradation`,
    `--aspect-ratio`) -/
theorem multiscaleMetric_ends_with_rescale (o : Options) (twod : Bool) (owned : Nat → Bool) (xyz : List (V3 ℝ))
    (cells : List Cell) (field out : List (M6 ℝ))
    (h : multiscaleMetric o twod owned xyz cells field = .ok out) :
    EndsWithRescale twod owned xyz cells (dec o.complexity) out := by
  obtain ⟨_, base, hb, hout⟩ := multiscaleMetric_split h
  by_cases hbuf : o.buffer = true
  · rw [if_pos hbuf] at hout
    exact bufferAtComplexity_endsWithRescale hout
  · rw [if_neg hbuf] at hout
    injection hout with hout
    subst hout
    by_cases hh : o.hessian = true
    · rw [if_pos hh] at hb
      exact hessianMultiscale_endsWithRescale hb
    · rw [if_neg hh] at hb
      exact metricLp_endsWithRescale hb

/-- **the `actual complexity` the subcommand reports is the requested complexity**, and on a 2-D grid the field it
    writes is embedded — for every mesh, field and option combination without `--fixed-point` / `--uniform` -/
theorem multiscaleMetric_report (o : Options) (twod : Bool) (owned : Nat → Bool) (xyz : List (V3 ℝ))
    (cells : List Cell) (field out : List (M6 ℝ))
    (_hfp : o.fixedPoint = false) (_hun : o.uniform = false)
    (h : multiscaleMetric o twod owned xyz cells field = .ok out)
    (hc : ∀ g, setComplexity twod owned xyz g cells (dec o.complexity) = .ok out → 0 < complexity owned xyz g cells)
    (hdim : twod = !(haveVolCells owned cells)) :
    multiscaleReport owned xyz cells out = dec o.complexity ∧ (twod = true → ∀ m ∈ out, IsEmbedded m) := by
  have he := multiscaleMetric_ends_with_rescale o twod owned xyz cells field out h
  refine ⟨he.complexity (multiscaleMetric_target_pos o twod owned xyz cells field out h) hc hdim, ?_⟩
  intro htw
  subst htw
  exact he.embedded

/-! ### (5) the option scan -/

/-- no flag on the command line: every option has its default (p = 2, gradation = -1, aspect ratio = -1, no
    `--hessian`, `--fixed-point`, `--buffer`, `--uniform`, `--pcd`) and the four positional words are taken from
    `argv[2..5]` -/
theorem multiscaleOptions_defaults (argv : List String) (hlen : 6 ≤ argv.length)
    (hno : ∀ f ∈ ["--norm-power", "--gradation", "--aspect-ratio", "--hessian", "--fixed-point", "--buffer",
                   "--uniform", "--pcd"], f ∉ argv) :
    multiscaleOptions argv = some
      { inMesh := argv.getD 2 "", inScalar := argv.getD 3 "", complexity := atofDec (argv.getD 4 ""),
        outMetric := argv.getD 5 "", p := 2, gradation := (-1, 0), aspectRatio := (-1, 0), hessian := false,
        fixedPoint := false, buffer := false, uniform := false, pcd := none } := by
  have hf : ∀ f ∈ ["--norm-power", "--gradation", "--aspect-ratio", "--hessian", "--fixed-point", "--buffer",
                   "--uniform", "--pcd"], argsFind argv f = none :=
    fun f hfm => (argsFind_none_iff argv f).mpr (hno f hfm)
  have c : MultiscaleOpts.minArgc = 6 ∧ MultiscaleOpts.posMesh = 2 ∧ MultiscaleOpts.posScalar = 3 ∧
      MultiscaleOpts.posComplexity = 4 ∧ MultiscaleOpts.posOut = 5 ∧ MultiscaleOpts.defaultP = 2 ∧
      MultiscaleOpts.defaultGradation = (-1, 0) ∧ MultiscaleOpts.defaultAspectRatio = (-1, 0) := by decide
  obtain ⟨c1, c2, c3, c4, c5, c6, c7, c8⟩ := c
  unfold multiscaleOptions strictValue lenientValue
  rw [c1, c2, c3, c4, c5, c6, c7, c8]
  rw [hf "--norm-power" (by simp), hf "--gradation" (by simp), hf "--aspect-ratio" (by simp),
      hf "--hessian" (by simp), hf "--fixed-point" (by simp), hf "--buffer" (by simp), hf "--uniform" (by simp),
      hf "--pcd" (by simp)]
  have : ¬ argv.length < 6 := by omega
  simp [this]

/-- what a flag with a mandatory value contributes: the default when absent, the converted next word when present -/
def strictField {β : Type} (argv : List String) (flag : String) (default : β) (conv : String → β) : β :=
  match argsFind argv flag with
  | none => default
  | some pos => conv (argv.getD (pos + 1) "")

/-- **each recognised flag sets exactly its field**: whenever the scan succeeds, every field of the result is a
    function of the position of ITS OWN flag only (first occurrence, `ref_args_find`), converted by `atoi` / `atof`
    as coded, and the positional words come from `argv[2..5]` -/
theorem multiscaleOptions_sound (argv : List String) (o : Options) (h : multiscaleOptions argv = some o) :
    o.p = strictField argv "--norm-power" 2 atoiDec ∧
    o.gradation = strictField argv "--gradation" (-1, 0) atofDec ∧
    o.aspectRatio = strictField argv "--aspect-ratio" (-1, 0) atofDec ∧
    o.hessian = (argsFind argv "--hessian").isSome ∧
    o.fixedPoint = (argsFind argv "--fixed-point").isSome ∧
    o.buffer = (argsFind argv "--buffer").isSome ∧
    o.uniform = (argsFind argv "--uniform").isSome ∧
    o.pcd = lenientValue argv "--pcd" ∧
    o.inMesh = argv.getD 2 "" ∧ o.inScalar = argv.getD 3 "" ∧ o.complexity = atofDec (argv.getD 4 "") ∧
    o.outMetric = argv.getD 5 "" := by
  have c : MultiscaleOpts.minArgc = 6 ∧ MultiscaleOpts.posMesh = 2 ∧ MultiscaleOpts.posScalar = 3 ∧
      MultiscaleOpts.posComplexity = 4 ∧ MultiscaleOpts.posOut = 5 ∧ MultiscaleOpts.defaultP = 2 ∧
      MultiscaleOpts.defaultGradation = (-1, 0) ∧ MultiscaleOpts.defaultAspectRatio = (-1, 0) := by decide
  obtain ⟨c1, c2, c3, c4, c5, c6, c7, c8⟩ := c
  unfold multiscaleOptions at h
  rw [c1, c2, c3, c4, c5, c6, c7, c8] at h
  split_ifs at h with hl
  have key : ∀ {β : Type} (flag : String) (dflt : β) (conv : String → β) (v : β),
      strictValue argv flag dflt conv = some v → v = strictField argv flag dflt conv := by
    intro β flag dflt conv v hv
    unfold strictValue at hv
    unfold strictField
    cases hf : argsFind argv flag with
    | none => rw [hf] at hv; simpa using hv.symm
    | some pos =>
      rw [hf] at hv
      dsimp only at hv ⊢
      split_ifs at hv
      simpa using hv.symm
  cases hp : strictValue argv "--norm-power" (2 : Int) atoiDec with
  | none => rw [hp] at h; simp at h
  | some p =>
    cases hg : strictValue argv "--gradation" ((-1, 0) : Int × Int) atofDec with
    | none => rw [hp, hg] at h; simp at h
    | some g =>
      cases ha : strictValue argv "--aspect-ratio" ((-1, 0) : Int × Int) atofDec with
      | none => rw [hp, hg, ha] at h; simp at h
      | some a =>
        rw [hp, hg, ha] at h
        simp only [Option.some.injEq] at h
        subst h
        exact ⟨key _ _ _ _ hp, key _ _ _ _ hg, key _ _ _ _ ha, rfl, rfl, rfl, rfl, rfl, rfl, rfl, rfl, rfl⟩

/-- **the usage exit**: the scan fails exactly when there are fewer than six words or one of the three flags with a
    mandatory value is the last word -/
theorem multiscaleOptions_usage (argv : List String) :
    multiscaleOptions argv = none ↔
      argv.length < 6 ∨ ∃ flag ∈ ["--norm-power", "--gradation", "--aspect-ratio"],
        ∃ pos, argsFind argv flag = some pos ∧ argv.length - 1 ≤ pos := by
  have c : MultiscaleOpts.minArgc = 6 ∧ MultiscaleOpts.defaultP = 2 ∧
      MultiscaleOpts.defaultGradation = (-1, 0) ∧ MultiscaleOpts.defaultAspectRatio = (-1, 0) := by decide
  obtain ⟨c1, c6, c7, c8⟩ := c
  have key : ∀ {β : Type} (flag : String) (dflt : β) (conv : String → β),
      strictValue argv flag dflt conv = none ↔ ∃ pos, argsFind argv flag = some pos ∧ argv.length - 1 ≤ pos := by
    intro β flag dflt conv
    unfold strictValue
    cases hf : argsFind argv flag with
    | none => simp
    | some pos =>
      dsimp only
      by_cases hge : pos ≥ argv.length - 1
      · simp [hge]
        omega
      · simp [hge]
        omega
  unfold multiscaleOptions
  rw [c1, c6, c7, c8]
  by_cases hl : argv.length < 6
  · simp [hl]
  · simp only [hl, if_false, false_or, List.mem_cons, List.mem_nil_iff, or_false, exists_eq_or_imp, exists_eq_left]
    rw [← key "--norm-power" (2 : Int) atoiDec, ← key "--gradation" ((-1, 0) : Int × Int) atofDec,
        ← key "--aspect-ratio" ((-1, 0) : Int × Int) atofDec]
    cases strictValue argv "--norm-power" (2 : Int) atoiDec <;>
      cases strictValue argv "--gradation" ((-1, 0) : Int × Int) atofDec <;>
      cases strictValue argv "--aspect-ratio" ((-1, 0) : Int × Int) atofDec <;> simp

/-! ### non-vacuity -/

/-- a command line with every modelled flag, in an unusual order, a repeated flag and a malformed number -/
example : multiscaleOptions ["ref", "multiscale", "m.meshb", "s.solb", "2.5e2", "o.solb", "--buffer", "--aspect-ratio",
      "1e1", "--pcd", "c.pcd", "--gradation", "1.5x", "--norm-power", "4", "--gradation", "9"] =
    some { inMesh := "m.meshb", inScalar := "s.solb", complexity := (25, 1), outMetric := "o.solb", p := 4,
           gradation := (15, -1), aspectRatio := (1, 1), hessian := false, fixedPoint := false, buffer := true,
           uniform := false, pcd := some "c.pcd" } := by decide

/-- the bare command line: the defaults -/
example : multiscaleOptions ["ref", "multiscale", "m.meshb", "s.solb", "500", "o.solb"] =
    some { inMesh := "m.meshb", inScalar := "s.solb", complexity := (500, 0), outMetric := "o.solb", p := 2,
           gradation := (-1, 0), aspectRatio := (-1, 0), hessian := false, fixedPoint := false, buffer := false,
           uniform := false, pcd := none } := by decide

/-- a flag without its value: the usage exit -/
example : multiscaleOptions ["ref", "multiscale", "m.meshb", "s.solb", "500", "o.solb", "--aspect-ratio"] = none := by
  decide

/-- `EndsWithRescale` / `bufferAtComplexity_complexity` are not vacuous: the unit tet with identity metrics rescaled to
    complexity 5 is of that shape, and its complexity is 5 -/
example : ∃ out, EndsWithRescale false (fun _ => true) [(⟨0, 0, 0⟩ : V3 ℝ), ⟨1, 0, 0⟩, ⟨0, 1, 0⟩, ⟨0, 0, 1⟩]
      [⟨.tet, [0, 1, 2, 3]⟩] 5 out ∧
    complexity (fun _ => true) [(⟨0, 0, 0⟩ : V3 ℝ), ⟨1, 0, 0⟩, ⟨0, 1, 0⟩, ⟨0, 0, 1⟩] out [⟨.tet, [0, 1, 2, 3]⟩] = 5 := by
  have hc := complexity_unit_tet
  obtain ⟨out, ho⟩ := setComplexity_ok false (fun _ => true) [(⟨0, 0, 0⟩ : V3 ℝ), ⟨1, 0, 0⟩, ⟨0, 1, 0⟩, ⟨0, 0, 1⟩]
    [⟨1, 0, 0, 1, 0, 1⟩, ⟨1, 0, 0, 1, 0, 1⟩, ⟨1, 0, 0, 1, 0, 1⟩, ⟨1, 0, 0, 1, 0, 1⟩]
    [⟨.tet, [0, 1, 2, 3]⟩] 5 (by rw [hc]; norm_num) (by norm_num) (by rw [hc]; norm_num)
  refine ⟨out, ⟨_, ho, by intro h; cases h⟩, ?_⟩
  exact setComplexity_exact _ _ _ _ _ _ _ ho (by rw [hc]; norm_num) (by norm_num) (by simp [haveVolCells, isVol])
    (by intro h; cases h)

end Refine.Props.C10Pipe
