import Refine.Lemmas.CavityReplace
import Refine.Lemmas.CavityVisible
import Refine.Lemmas.CavityGrid
import Refine.Lemmas.Cavity2D
import Refine.Lemmas.CavityValid
import Refine.Lemmas.GeomReal
import Refine.Props.C15

/-!
  C01 — the cavity machine keeps the mesh conforming.

  Objects (all executable, `Refine/Model/Cavity.lean`, tied to `src/ref_cavity.c` by the streams `cavity_*`):
  `insertFace` (`ref_cavity_insert_face`: reverse cancellation, `REF_INVALID` on a same-orientation duplicate, LIFO
  reuse of blank rows), `addTet`/`addTets` (`ref_cavity_add_tet`), `verifyFaceManifold`
  (`ref_cavity_verify_face_manifold`), `newTets` (the tets `ref_cavity_replace` creates: live face + cavity node,
  attached faces skipped).

  `Alt φ` : `φ : Node³ → G` alternating with values in an arbitrary abelian group; `Diag φ` : `φ a a b = 0`.
  Signed boundary of a tet `t` : `faceSum φ (tetFaces t)` over the four rows of the regenerated `f2n` table.
  "The signed boundary chain of the mesh is unchanged by replace" is
  `Σ_{t ∈ new tets} ∂φ t = Σ_{t ∈ removed tets} ∂φ t` for every such `φ` (`cavity_replace_conforming`).
-/
namespace Refine.Props.C01
open Refine.Model.Cavity Refine.Lemmas.Cavity

variable {G : Type} [AddCommGroup G]

/-! ## (a) the face list is the signed boundary of the listed tets -/

/-- `ref_cavity_insert_face` changes `Σ_{live faces} φ` by exactly `φ f`: appending adds it, cancelling the
    reversed face removes `φ(rev f) = −φ f`; the only other outcome is `REF_INVALID` with the cavity unchanged. -/
theorem insertFace_sum {φ : Int → Int → Int → G} (hφ : Alt φ) (c : Cav) (f : Face) (hinv : SlotsInv c.faces) :
    ((insertFace c f).1 = .ok ∧
      faceSum φ (insertFace c f).2.validFaces = faceSum φ c.validFaces + φF φ f ∧
      SlotsInv (insertFace c f).2.faces) ∨
    ((insertFace c f).1 = .invalid ∧ (insertFace c f).2 = c) := by
  rcases h : insertFace c f with ⟨s, c'⟩
  rcases insertFace_status c f with h1 | h1
  · left
    rw [h] at h1; simp only at h1; subst h1
    obtain ⟨hi, _, hs, _⟩ := insertFace_spec (φ := φ) hφ c c' f hinv h
    refine ⟨rfl, ?_, hi⟩
    simp only [Cav.validFaces, Slots.valid, ← rowsSum_eq_faceSum]; exact hs
  · right
    rw [h] at h1; simp only at h1; subst h1
    refine ⟨rfl, ?_⟩
    unfold insertFace at h
    split at h <;> simp_all

/-- **insertFace_chain.**  Adding any list of cells with `ref_cavity_add_tet` (cells already listed are skipped, as
    in the C) either leaves a status ≠ ok / a state ≠ unknown (which blocks `replace`), or the new part `new` of
    `tet_list` satisfies `Σ_{live faces} φ = (old sum) + Σ_{t ∈ new} ∂φ t` for every alternating `φ`. -/
theorem insertFace_chain {α : Type} {φ : Int → Int → Int → G} (hφ : Alt φ) (g : Grid α) (cells : List Int)
    (c c' : Cav) (hinv : SlotsInv c.faces) (h : addTets g c cells = (.ok, c')) (hs : c'.state = .unknown) :
    ∃ new, c'.tetList = c.tetList ++ new ∧
      faceSum φ c'.validFaces = faceSum φ c.validFaces + (new.map (tetBd φ g)).sum := by
  obtain ⟨new, htl, st, _, _⟩ := addTets_spec hφ g cells c c' hinv h hs
  refine ⟨new, htl, ?_⟩
  simp only [Cav.validFaces, Slots.valid, ← rowsSum_eq_faceSum]; exact st.sum

/-- a cavity right after `ref_cavity_create` + `ref_cavity_form_empty` -/
def emptyCav (node : Int) : Cav := { Cav.create with node := node }

theorem emptyCav_inv (node : Int) : SlotsInv (emptyCav node).faces := SlotsInv.create 10

/-- from an empty cavity: the live faces are exactly the signed boundary of `tet_list` -/
theorem insertFace_chain_fresh {α : Type} {φ : Int → Int → Int → G} (hφ : Alt φ) (g : Grid α) (cells : List Int)
    (node : Int) (c' : Cav) (h : addTets g (emptyCav node) cells = (.ok, c')) (hs : c'.state = .unknown) :
    faceSum φ c'.validFaces = (c'.tetList.map (tetBd φ g)).sum := by
  obtain ⟨new, htl, hsum⟩ := insertFace_chain hφ g cells _ c' (emptyCav_inv node) h hs
  have h0 : faceSum φ (emptyCav node).validFaces = 0 := by
    simp [emptyCav, Cav.create, Cav.validFaces, Slots.valid, Slots.create, faceSum, List.reduceOption]
  have h1 : (emptyCav node).tetList = [] := rfl
  rw [hsum, h0, htl, h1]; simp

/-! ## (b) replace keeps the signed boundary -/

/-- `ref_cavity_verify_face_manifold` returned `REF_SUCCESS` without flagging the cavity -/
def VerifyPassed (c : Cav) : Prop := verifyFaceManifold c = (.ok, c) ∧ c.state ≠ .inconsistent

theorem verifyPassed_loop {c : Cav} (h : VerifyPassed c) : verifyFacesLoop c.validFaces c.validFaces = .pass := by
  obtain ⟨hv, hs⟩ := h
  unfold verifyFaceManifold at hv
  rw [if_neg hs] at hv
  cases hl : verifyFacesLoop c.validFaces c.validFaces <;> rw [hl] at hv <;> simp only [] at hv
  · simp only [Prod.mk.injEq, true_and] at hv
    exact absurd (by rw [← hv]) hs
  · simp at hv

/-- **replace_conforming.**  If the manifold verification passed, the tets created by `ref_cavity_replace`
    (`face + node` for every live face not attached to the node) have as signed boundary exactly the live face
    list: the side faces `φ(a,n,b)` cancel pairwise because every directed side has exactly one reversed partner. -/
theorem replace_conforming {φ : Int → Int → Int → G} (hφ : Alt φ) (hd : Diag φ) (c : Cav)
    (hnd : ∀ f ∈ c.validFaces, Nondeg f) (hv : VerifyPassed c) :
    ((newTets c).map fun t => faceSum φ (tetFaces t)).sum = faceSum φ c.validFaces :=
  replace_chain_core hφ hd c.node c.validFaces hnd (verifyPassed_loop hv)

/-- four distinct nodes -/
def TetNondeg (t : Tet) : Prop :=
  t.n0 ≠ t.n1 ∧ t.n0 ≠ t.n2 ∧ t.n0 ≠ t.n3 ∧ t.n1 ≠ t.n2 ∧ t.n1 ≠ t.n3 ∧ t.n2 ≠ t.n3

theorem tetFaces_nondeg (t : Tet) (h : TetNondeg t) : ∀ f ∈ tetFaces t, Nondeg f := by
  obtain ⟨h01, h02, h03, h12, h13, h23⟩ := h
  intro f hf
  rcases t with ⟨a, b, c, d⟩
  rw [tetFaces_eq] at hf
  simp only [List.mem_cons, List.not_mem_nil, or_false] at hf
  rcases hf with rfl | rfl | rfl | rfl <;> simp only [Nondeg] <;>
    refine ⟨?_, ?_, ?_⟩ <;> first | assumption | (exact Ne.symm ‹_›)

/-- **cavity_replace_conforming** = (a)+(b): build the cavity from an empty one with `add_tet`, let any later
    step (visibility check) change only the state, pass the verification: then for every alternating `φ`
    `Σ_{new tets} ∂φ = Σ_{listed (removed) tets} ∂φ` — the signed boundary chain of the mesh is unchanged. -/
theorem cavity_replace_conforming {α : Type} {φ : Int → Int → Int → G} (hφ : Alt φ) (hd : Diag φ) (g : Grid α)
    (hg : ∀ cell t, g.tets.get? cell = some t → TetNondeg t)
    (cells : List Int) (node : Int) (c' c'' : Cav)
    (h : addTets g (emptyCav node) cells = (.ok, c')) (hs : c'.state = .unknown)
    (hsame : c''.faces = c'.faces ∧ c''.tetList = c'.tetList) (hv : VerifyPassed c'') :
    ((newTets c'').map fun t => faceSum φ (tetFaces t)).sum = (c''.tetList.map (tetBd φ g)).sum := by
  have hnd : ∀ f ∈ c''.validFaces, Nondeg f := by
    obtain ⟨new, _, _, hmem, _⟩ := addTets_spec hφ g cells _ c' (emptyCav_inv node) h hs
    intro f hf
    have hf' : f ∈ c'.validFaces := by simpa [Cav.validFaces, hsame.1] using hf
    rcases hmem f hf' with h0 | h1
    · simp [emptyCav, Cav.create, Cav.validFaces, Slots.valid, Slots.create, List.reduceOption] at h0
    · simp only [cellFaces, List.mem_flatMap] at h1
      obtain ⟨cell, _, hc⟩ := h1
      cases hget : g.tets.get? cell with
      | none => rw [hget] at hc; cases hc
      | some t => rw [hget] at hc; exact tetFaces_nondeg t (hg cell t hget) f hc
  rw [replace_conforming hφ hd c'' hnd hv]
  have := insertFace_chain_fresh hφ g cells node c' h hs
  simp only [Cav.validFaces, hsame.1, hsame.2] at this ⊢
  exact this

/-- unsigned conformity of the new star: after a passed verification every directed side of a live face occurs
    exactly once and its reverse exactly once among all live faces — the triangle `{a,b,node}` is a face of exactly
    two cone cells (two new tets, or one new tet and the slot of an attached face). -/
theorem replace_star_two_sided (c : Cav) (hnd : ∀ f ∈ c.validFaces, Nondeg f) (hv : VerifyPassed c) :
    ∀ d ∈ allSides c.validFaces,
      (allSides c.validFaces).count d = 1 ∧ (allSides c.validFaces).count (rev d) = 1 :=
  verify_two_sided c.validFaces hnd (verifyPassed_loop hv)

/-! ## replace at grid level: the mesh keeps its signed boundary -/

/-- the blank chains of the tet and tri stores are consistent (holds for `Grid.create`, preserved by every
    modelled operation) -/
structure GridInv {α : Type} (g : Grid α) : Prop where
  tets : SlotsInv g.tets.slots
  tris : SlotsInv g.tris.slots

theorem forall₂_imp_mem {A B : Type} {R S : A → B → Prop} {l1 : List A} {l2 : List B}
    (h : List.Forall₂ R l1 l2) (himp : ∀ a b, a ∈ l1 → R a b → S a b) : List.Forall₂ S l1 l2 := by
  induction h with
  | nil => exact List.Forall₂.nil
  | cons hab _ ih =>
    exact List.Forall₂.cons (himp _ _ List.mem_cons_self hab)
      (ih (fun a b ha => himp a b (List.mem_cons_of_mem _ ha)))

/-- **replace_grid_multiset.**  A successful `ref_cavity_replace` whose listed cells are live turns the live tets
    into `before − listed + newTets` and the live tris into `before − listed + newTris` (as multisets: `rt`, `rs`
    are the removed cells, looked up in the grid before the call). -/
theorem replace_grid_multiset {α : Type} (g g' : Grid α) (c c' : Cav) (hinv : GridInv g)
    (h : replace g c = (.ok, c', g'))
    (hlt : ∀ cell ∈ c.tetList, ∃ t, g.tets.get? cell = some t)
    (hls : ∀ cell ∈ c.triList, ∃ t, g.tris.get? cell = some t) :
    GridInv g' ∧ ∃ rt rs,
      List.Forall₂ (fun cell t => g.tets.get? cell = some t) c.tetList rt ∧
      List.Forall₂ (fun cell t => g.tris.get? cell = some t) c.triList rs ∧
      (rt ++ g'.tets.valid).Perm (newTets c ++ g.tets.valid) ∧
      (rs ++ g'.tris.valid).Perm (newTris c ++ g.tris.valid) ∧
      (∀ cell t, g'.tets.get? cell = some t → g.tets.get? cell = some t ∨ t ∈ newTets c) := by
  obtain ⟨_, _, _, _, g1, g2, g3, g4, acc1, acc2, h1, h2, h3, h4, et, es⟩ := replace_ok g g' c c' h
  obtain ⟨i1, p1, o1, _, _, _, k1, b1⟩ := addNewTets_spec g g1 (newTets c) hinv.tets h1
  obtain ⟨i2, p2, o2, _, _, _, k2, _⟩ := addNewTris_spec g1 g2 (newTris c) (by rw [o1]; exact hinv.tris) h2
  obtain ⟨i3, ⟨rt, f3, p3⟩, o3, _, _, _, b3⟩ := rmTets_spec g2 g3 [] acc1 c.tetList (by rw [o2]; exact i1) h3
  obtain ⟨i4, ⟨rs, f4, p4⟩, o4, _, _, _, _⟩ := rmTris_spec g3 g4 acc1 acc2 c.triList (by rw [o3]; exact i2) h4
  refine ⟨⟨by rw [et, o4]; exact i3, by rw [es]; exact i4⟩, rt, rs, ?_, ?_, ?_, ?_, ?_⟩
  · refine forall₂_imp_mem f3 ?_
    intro cell t hc ht
    obtain ⟨t0, ht0⟩ := hlt cell hc
    have := k1 cell t0 ht0
    rw [o2] at ht
    rw [this] at ht
    rw [ht0, ht]
  · refine forall₂_imp_mem f4 ?_
    intro cell t hc ht
    obtain ⟨t0, ht0⟩ := hls cell hc
    have := k2 cell t0 (by rw [o1]; exact ht0)
    rw [o3] at ht
    rw [this] at ht
    rw [ht0, ht]
  · rw [et, o4]
    exact p3.symm.trans (by rw [o2]; exact p1)
  · rw [es]
    exact p4.symm.trans (by rw [o3]; exact p2.trans (by rw [o1]))
  · intro cell t ht
    rw [et, o4] at ht
    have := b3 cell t ht
    rw [o2] at this
    exact b1 cell t this

/-- signed boundary of all live tets of a grid -/
def tetsBd {α : Type} (φ : Int → Int → Int → G) (g : Grid α) : G :=
  (g.tets.valid.map fun t => faceSum φ (tetFaces t)).sum

/-- `Σ_tets ∂φ − Σ_tris φ(tri)`: the signed boundary chain of the mesh (tris in the orientation of the tet face
    they close) -/
def meshBd {α : Type} (φ : Int → Int → Int → G) (g : Grid α) : G :=
  tetsBd φ g - (g.tris.valid.map fun t => φ t.n0 t.n1 t.n2).sum

/-- grid invariant carried along a history of cavity operations -/
structure GridOK {α : Type} (g : Grid α) : Prop where
  inv : GridInv g
  nondeg : ∀ cell t, g.tets.get? cell = some t → TetNondeg t

/-- the live faces of a cavity built with `add_tet` on a grid of non-degenerate tets are non-degenerate -/
theorem cavity_faces_nondeg {α : Type} (g : Grid α) (hg : ∀ cell t, g.tets.get? cell = some t → TetNondeg t)
    (cells : List Int) (node : Int) (c' : Cav)
    (h : addTets g (emptyCav node) cells = (.ok, c')) (hs : c'.state = .unknown) :
    ∀ f ∈ c'.validFaces, Nondeg f := by
  have hφ : Alt (fun _ _ _ => (0 : Int)) := ⟨fun _ _ _ => rfl, fun _ _ _ => by simp⟩
  obtain ⟨new, _, _, hmem, _⟩ := addTets_spec hφ g cells _ c' (emptyCav_inv node) h hs
  intro f hf
  rcases hmem f hf with h0 | h1
  · simp [emptyCav, Cav.create, Cav.validFaces, Slots.valid, Slots.create, List.reduceOption] at h0
  · simp only [cellFaces, List.mem_flatMap] at h1
    obtain ⟨cell, _, hc⟩ := h1
    cases hget : g.tets.get? cell with
    | none => rw [hget] at hc; cases hc
    | some t => rw [hget] at hc; exact tetFaces_nondeg t (hg cell t hget) f hc

theorem removed_sum {α : Type} (φ : Int → Int → Int → G) (g : Grid α) (cells : List Int) (rt : List Tet)
    (h : List.Forall₂ (fun cell t => g.tets.get? cell = some t) cells rt) :
    (rt.map fun t => faceSum φ (tetFaces t)).sum = (cells.map (tetBd φ g)).sum := by
  induction h with
  | nil => simp
  | cons hab _ ih => simp only [List.map_cons, List.sum_cons, ih, tetBd, hab]

/-- one cavity operation on tets: build with `add_tet` from an empty cavity, change nothing but the state
    (`check_visible`), `replace` succeeds -/
def CavStep {α : Type} (g g' : Grid α) : Prop :=
  ∃ cells node c1 c2 c2', addTets g (emptyCav node) cells = (.ok, c1) ∧ c1.state = .unknown ∧
    c2.faces = c1.faces ∧ c2.tetList = c1.tetList ∧ c2.triList = [] ∧ c2.validSegs = [] ∧
    replace g c2 = (.ok, c2', g')

/-- **replace_mesh_conforming.**  One cavity operation keeps the signed boundary of the tet group, keeps the
    tris, and keeps the grid invariant: `∂φ M' = ∂φ M` for every alternating `φ`. -/
theorem replace_mesh_conforming {α : Type} {φ : Int → Int → Int → G} (hφ : Alt φ) (hd : Diag φ)
    (g g' : Grid α) (hok : GridOK g) (hstep : CavStep g g') :
    GridOK g' ∧ tetsBd φ g' = tetsBd φ g ∧ g'.tris.valid.Perm g.tris.valid ∧ meshBd φ g' = meshBd φ g := by
  obtain ⟨cells, node, c1, c2, c2', hadd, hs, hfaces, htl, htri, hseg, hrep⟩ := hstep
  obtain ⟨hc2, hvis, hvf, _, _⟩ := replace_ok g g' c2 c2' hrep
  have hv : VerifyPassed c2 := ⟨hvf, by rw [hvis]; decide⟩
  have hlisted : ∀ cell ∈ c2.tetList, ∃ t, g.tets.get? cell = some t := by
    obtain ⟨new, hnew, _, _, hval⟩ := addTets_spec hφ g cells _ c1 (emptyCav_inv node) hadd hs
    intro cell hc
    rw [htl, hnew] at hc
    simp only [emptyCav, Cav.create, List.nil_append] at hc
    exact hval cell hc
  obtain ⟨hinv', rt, rs, frt, frs, pt, ps, hback⟩ :=
    replace_grid_multiset g g' c2 c2' hok.inv hrep hlisted (by rw [htri]; simp)
  have hnd1 := cavity_faces_nondeg g hok.nondeg cells node c1 hadd hs
  have hnd2 : ∀ f ∈ c2.validFaces, Nondeg f := by
    intro f hf; exact hnd1 f (by simpa [Cav.validFaces, hfaces] using hf)
  have hconf := cavity_replace_conforming hφ hd g hok.nondeg cells node c1 c2 hadd hs ⟨hfaces, htl⟩ hv
  -- the removed tets are the listed cells
  have hrt := removed_sum φ g c2.tetList rt frt
  have hsum := (pt.map fun t => faceSum φ (tetFaces t)).sum_eq
  simp only [List.map_append, List.sum_append] at hsum
  have htets : tetsBd φ g' = tetsBd φ g := by
    unfold tetsBd
    rw [hrt, ← hconf] at hsum
    exact add_left_cancel hsum
  have hrs : rs = [] := by rw [htri] at frs; cases frs; rfl
  have hnt : newTris c2 = [] := by simp [newTris, hseg]
  have htris : g'.tris.valid.Perm g.tris.valid := by simpa [hrs, hnt] using ps
  refine ⟨⟨hinv', ?_⟩, htets, htris, ?_⟩
  · intro cell t ht
    rcases hback cell t ht with h0 | h0
    · exact hok.nondeg cell t h0
    · simp only [newTets, List.mem_filterMap] at h0
      obtain ⟨f, hf, hft⟩ := h0
      unfold newTetOf at hft
      split at hft
      · cases hft
      · next hhas =>
        simp only [Option.some.injEq] at hft; subst hft
        obtain ⟨h01, h12, h20⟩ := hnd2 f hf
        simp only [Face.has, Bool.or_eq_true, beq_iff_eq, not_or] at hhas
        exact ⟨h01, fun e => h20 e.symm, fun e => hhas.1.1 e.symm, h12, fun e => hhas.1.2 e.symm,
          fun e => hhas.2 e.symm⟩
  · unfold meshBd
    rw [htets, (htris.map fun t => φ t.n0 t.n1 t.n2).sum_eq]

/-- a finite history of cavity operations -/
inductive CavHistory {α : Type} : Grid α → Grid α → Prop
  | nil (g : Grid α) : CavHistory g g
  | cons {g g1 g2 : Grid α} : CavStep g g1 → CavHistory g1 g2 → CavHistory g g2

/-- **cavity_history_conforming.**  Any chain of successful cavity replacements preserves the signed boundary
    chain of the mesh (and the grid invariant), for every alternating `φ` into every abelian group. -/
theorem cavity_history_conforming {α : Type} {φ : Int → Int → Int → G} (hφ : Alt φ) (hd : Diag φ)
    (g g' : Grid α) (hok : GridOK g) (hist : CavHistory g g') :
    GridOK g' ∧ meshBd φ g' = meshBd φ g ∧ g'.tris.valid.Perm g.tris.valid := by
  induction hist with
  | nil g => exact ⟨hok, rfl, List.Perm.refl _⟩
  | cons hstep _ ih =>
    obtain ⟨hok1, _, htris1, hm1⟩ := replace_mesh_conforming hφ hd _ _ hok hstep
    obtain ⟨hok2, hm2, htris2⟩ := ih hok1
    exact ⟨hok2, hm2.trans hm1, htris2.trans htris1⟩

/-! ## volume -/
section volume
open Refine Refine.Model.Geom Refine.ScalarReal

/-- `ref_node_tet_vol` of a cell for vertex coordinates `x` -/
noncomputable def volOf (x : Int → V3 ℝ) (t : Tet) : ℝ := tetVol (x t.n0) (x t.n1) (x t.n2) (x t.n3)

/-- the cone volume of a face from `p` -/
noncomputable def coneVol (x : Int → V3 ℝ) (p : V3 ℝ) (a b c : Int) : ℝ := tetVol (x a) (x b) (x c) p

theorem coneVol_alt (x : Int → V3 ℝ) (p : V3 ℝ) : Alt (coneVol x p) :=
  ⟨fun a b c => Refine.Props.C15.tetVol_cycle012 (x a) (x b) (x c) p,
   fun a b c => Refine.Props.C15.tetVol_swap01 (x a) (x b) (x c) p⟩

theorem coneVol_diag (x : Int → V3 ℝ) (p : V3 ℝ) : Diag (coneVol x p) :=
  fun a b => Refine.Props.C15.tetVol_degenerate (x a) (x b) p

/-- cone4 with the rows of the regenerated face table: a tet is the signed sum of the cones over its 4 faces -/
theorem tetBd_coneVol (x : Int → V3 ℝ) (p : V3 ℝ) (t : Tet) : faceSum (coneVol x p) (tetFaces t) = volOf x t := by
  rcases t with ⟨a, b, c, d⟩
  simp only [tetFaces_eq, faceSum, List.map_cons, List.map_nil, List.sum_cons, List.sum_nil, φF, coneVol, volOf,
    tetVol, add_eq, sub_eq, mul_eq, div_eq, neg_eq, ofInt_eq]
  push_cast; ring

/-- **replace_volume.**  Under the hypotheses of `cavity_replace_conforming`, the total volume of the new tets
    equals the total volume of the removed tets exactly (real arithmetic), wherever the cavity node lies. -/
theorem replace_volume {α : Type} (x : Int → V3 ℝ) (g : Grid α)
    (hg : ∀ cell t, g.tets.get? cell = some t → TetNondeg t)
    (cells : List Int) (node : Int) (c' c'' : Cav)
    (h : addTets g (emptyCav node) cells = (.ok, c')) (hs : c'.state = .unknown)
    (hsame : c''.faces = c'.faces ∧ c''.tetList = c'.tetList) (hv : VerifyPassed c'') :
    ((newTets c'').map (volOf x)).sum =
      (c''.tetList.map fun cell => match g.tets.get? cell with | some t => volOf x t | none => 0).sum := by
  have p : V3 ℝ := x 0
  have := cavity_replace_conforming (coneVol_alt x p) (coneVol_diag x p) g hg cells node c' c'' h hs hsame hv
  have e1 : ((newTets c'').map fun t => faceSum (coneVol x p) (tetFaces t)) = (newTets c'').map (volOf x) :=
    List.map_congr_left (fun t _ => tetBd_coneVol x p t)
  have e2 : (c''.tetList.map (tetBd (coneVol x p) g)) =
      c''.tetList.map fun cell => match g.tets.get? cell with | some t => volOf x t | none => 0 := by
    apply List.map_congr_left
    intro cell _
    unfold tetBd
    cases g.tets.get? cell with
    | none => rfl
    | some t => exact tetBd_coneVol x p t
  rw [e1, e2] at this
  exact this

/-- the volume of a new tet is the quantity `ref_cavity_visible` compares with `min_volume` -/
theorem newTet_volume (x : Int → V3 ℝ) (node : Int) (f : Face) (t : Tet) (h : newTetOf node f = some t) :
    volOf x t = tetVol (x f.n0) (x f.n1) (x f.n2) (x node) := by
  unfold newTetOf at h
  split at h
  · cases h
  · simp only [Option.some.injEq] at h; subst h; rfl

/-- **visible_positive.**  If `ref_cavity_check_visible` moved the cavity from `unknown` to `visible`, every tet
    that `ref_cavity_replace` will create has all four nodes valid and its `ref_node_tet_vol` failed the test
    `volume <= min_volume` (any scalar type: this is the model function run by the driver at `Float`). -/
theorem visible_positive {α : Type} [Scalar α] (g : Grid α) (c c' : Cav) (s : Refine.Model.Cavity.St)
    (h : checkVisible g c = (s, c')) (h0 : c.state = .unknown) (h1 : c'.state = .visible) :
    ∀ t ∈ newTets c', ∃ v, tetVolAt g t.n0 t.n1 t.n2 t.n3 = some v ∧ (v <=. (minVolume : α)) = false := by
  obtain ⟨_, hc, hl⟩ := checkVisible_visible g c c' s h h0 h1
  subst hc
  intro t ht
  simp only [newTets, Cav.validFaces, List.mem_filterMap] at ht
  obtain ⟨f, hf, hft⟩ := ht
  unfold newTetOf at hft
  split at hft
  · cases hft
  · next hhas =>
    simp only [Option.some.injEq] at hft; subst hft
    exact checkVisibleLoop_true g c.node _ hl f hf (by simpa using hhas)

/-- over the reals: the volume of every new tet of a visible cavity is `> 1e-15 > 0` -/
theorem visible_positive_real (g : Grid ℝ) (c c' : Cav) (s : Refine.Model.Cavity.St)
    (h : checkVisible g c = (s, c')) (h0 : c.state = .unknown) (h1 : c'.state = .visible) :
    ∀ t ∈ newTets c', ∃ v, tetVolAt g t.n0 t.n1 t.n2 t.n3 = some v ∧ (1e-15 : ℝ) < v ∧ 0 < v := by
  intro t ht
  obtain ⟨v, hv, hle⟩ := visible_positive g c c' s h h0 h1 t ht
  refine ⟨v, hv, ?_⟩
  rw [le_false_iff] at hle
  have hm : (minVolume : ℝ) = 1e-15 := by
    simp only [minVolume, ofDec_eq]; norm_num
  rw [hm] at hle
  exact ⟨hle, lt_trans (by norm_num) hle⟩

end volume

/-! ## the 2-D cavity (tris are the cells, segs the cavity boundary)

`ref_cavity_verify_seg_manifold` only checks that the END node of every live seg is the START of exactly one live
seg (the segs `(0,9) (1,9) (9,0)` pass, see the example below), so — unlike 3-D — conformity is not derived from the
verification: it follows from the seg list being the signed boundary of the listed tris (`∂∂ = 0`). -/

/-- `ref_cavity_insert_seg` with an empty `tet_list` (2-D): either the face ids differ and the cavity is flagged
    `boundary_constrained`, or `Σ_{live segs} ψ` changes by exactly `ψ(s)` (append, or cancellation of the reversed
    seg). -/
theorem insertSeg_sum {α : Type} {ψ : Int → Int → G} (hψ : Alt2 ψ) (g : Grid α) (c c' : Cav) (s : Seg)
    (hinv : SlotsInv c.segs) (htl : c.tetList = []) (h : insertSeg g c s = (.ok, c')) :
    c'.state = .boundary_constrained ∨
    (segSum ψ c'.validSegs = segSum ψ c.validSegs + ψ s.n0 s.n1 ∧ SlotsInv c'.segs ∧ c'.state = c.state) := by
  rcases insertSeg_spec hψ g c c' s hinv htl h with h1 | st
  · exact Or.inl h1
  · exact Or.inr ⟨st.sum, st.inv, st.state⟩

/-- **insertSeg_chain.**  After `ref_cavity_add_tri` of any list of tris (status ok, state still unknown) the live
    segs are the old ones plus the signed boundary of the new part of `tri_list`. -/
theorem insertSeg_chain {α : Type} {ψ : Int → Int → G} (hψ : Alt2 ψ) (g : Grid α) (cells : List Int) (c c' : Cav)
    (hinv : SlotsInv c.segs) (htl : c.tetList = []) (h : addTris g c cells = (.ok, c'))
    (hs : c'.state = .unknown) :
    ∃ new, c'.triList = c.triList ++ new ∧
      segSum ψ c'.validSegs = segSum ψ c.validSegs + (new.map (triBdAt ψ g)).sum := by
  obtain ⟨new, h1, h2, _, _⟩ := addTris_spec hψ g cells c c' hinv htl h hs
  exact ⟨new, h1, h2⟩

/-- **replace_conforming_2d.**  If the live segs are the signed boundary of `tri_list` for every alternating
    cochain, the tris `ref_cavity_replace` creates (`seg + node`, attached segs skipped) have the same signed boundary
    as the tris it removes — for ANY cavity node; the seg verification is not needed. -/
theorem replace_conforming_2d {α : Type} {ψ : Int → Int → G} (hψ : Alt2 ψ) (g : Grid α) (c : Cav)
    (hchain : ∀ χ : Int → Int → G, Alt2 χ → segSum χ c.validSegs = (c.triList.map (triBdAt χ g)).sum) :
    ((newTris c).map (triBd ψ)).sum = (c.triList.map (triBdAt ψ g)).sum :=
  replace_chain_core_2d hψ g c.segNode c.validSegs c.triList hchain

/-- (a)+(b) in 2-D: cavity built with `add_tri` from an empty cavity, any later change of state / node only -/
theorem cavity_replace_conforming_2d {α : Type} {ψ : Int → Int → G} (hψ : Alt2 ψ) (g : Grid α)
    (cells : List Int) (node : Int) (c' c'' : Cav)
    (h : addTris g (emptyCav node) cells = (.ok, c')) (hs : c'.state = .unknown)
    (hsame : c''.segs = c'.segs ∧ c''.triList = c'.triList) :
    ((newTris c'').map (triBd ψ)).sum = (c''.triList.map (triBdAt ψ g)).sum := by
  apply replace_conforming_2d hψ g c''
  intro χ hχ
  obtain ⟨new, h1, h2⟩ := insertSeg_chain hχ g cells _ c' (SlotsInv.create 10) rfl h hs
  have h0 : segSum χ (emptyCav node).validSegs = 0 := by
    simp [emptyCav, Cav.create, Cav.validSegs, Slots.valid, Slots.create, segSum, List.reduceOption]
  have h3 : (emptyCav node).triList = [] := rfl
  rw [h0, zero_add] at h2
  rw [h3, List.nil_append] at h1
  simp only [Cav.validSegs, hsame.1, hsame.2] at h2 ⊢
  rw [h2, h1]

section area
open Refine Refine.Model.Geom Refine.ScalarReal

/-- twice the signed area of a 2-D cell: the z component of `ref_node_tri_normal`, the number
    `ref_node_tri_twod_orientation` tests -/
noncomputable def area2 (x : Int → V3 ℝ) (t : Tri) : ℝ := (triNormal (x t.n0) (x t.n1) (x t.n2)).z

noncomputable def coneArea (x : Int → V3 ℝ) (p : V3 ℝ) (a b : Int) : ℝ := (triNormal (x a) (x b) p).z

theorem coneArea_alt (x : Int → V3 ℝ) (p : V3 ℝ) : Alt2 (coneArea x p) := by
  refine ⟨fun a b => ?_, fun a => ?_⟩ <;>
  · simp only [coneArea, triNormal, cross, V3.sub, sub_eq, mul_eq]; ring

theorem triBd_coneArea (x : Int → V3 ℝ) (p : V3 ℝ) (t : Tri) : triBd (coneArea x p) t = area2 x t := by
  rw [triBd_eq]
  simp only [coneArea, area2, triNormal, cross, V3.sub, sub_eq, mul_eq]; ring

/-- **replace_area.**  In 2-D the total signed area of the new tris equals the total signed area of the removed
    tris exactly (real arithmetic), wherever the cavity node lies. -/
theorem replace_area {α : Type} (x : Int → V3 ℝ) (g : Grid α) (cells : List Int) (node : Int) (c' c'' : Cav)
    (h : addTris g (emptyCav node) cells = (.ok, c')) (hs : c'.state = .unknown)
    (hsame : c''.segs = c'.segs ∧ c''.triList = c'.triList) :
    ((newTris c'').map (area2 x)).sum =
      (c''.triList.map fun cell => match g.tris.get? cell with | some t => area2 x t | none => 0).sum := by
  have p : V3 ℝ := x 0
  have := cavity_replace_conforming_2d (coneArea_alt x p) g cells node c' c'' h hs hsame
  have e1 : (newTris c'').map (triBd (coneArea x p)) = (newTris c'').map (area2 x) :=
    List.map_congr_left (fun t _ => triBd_coneArea x p t)
  have e2 : c''.triList.map (triBdAt (coneArea x p) g) =
      c''.triList.map fun cell => match g.tris.get? cell with | some t => area2 x t | none => 0 := by
    apply List.map_congr_left
    intro cell _
    unfold triBdAt
    cases g.tris.get? cell with
    | none => rfl
    | some t => exact triBd_coneArea x p t
  rw [e1, e2] at this
  exact this

end area

/-! ## from the validity predicate to chain-level conformity -/

/-- chain-level conformity of a mesh: for every abelian group and every alternating `φ` the signed boundaries of
    the tets cancel against each other and against the boundary tris (tris carry the orientation of the tet face
    they close — the convention of refine's meshes, checked on the implementation's output by the stream oracle) -/
def SignedConforming {α : Type} (m : Mesh3 α) : Prop :=
  ∀ (G : Type) [AddCommGroup G] (φ : Int → Int → Int → G), Alt φ →
    (m.tets.map fun t => faceSum φ (tetFaces t)).sum - (m.tris.map fun t => φ t.n0 t.n1 t.n2).sum = 0

/-- the key used by the orientation clause is the unordered face of `valid3Face` -/
theorem sort3s_key (a b c : Int) : (sort3s a b c).1 = sort3 a b c := by
  unfold sort3s sort3
  simp only
  split_ifs <;> rfl

/-- **Valid3 → SignedConforming**, with the combinatorial orientation clause as an explicit hypothesis:
    `Valid3` as coded counts unordered faces (two tets, or one tet + one tri); that the two sides see the face with
    opposite orientation follows from positive volumes only geometrically, so it enters as `valid3Orient m = true`
    (executable: the signed multiplicity of every unordered face is zero).  `Valid3` itself is not needed for the
    chain identity — it is what makes the orientation clause mean "exactly two, opposite". -/
theorem valid3_signedConforming {α : Type} [Refine.Scalar α] (m : Mesh3 α) (_hv : Valid3 m = true)
    (ho : valid3Orient m = true) : SignedConforming m := by
  intro G _ φ hφ
  have h := signedConforming_of_orient hφ m ho
  have e1 : faceSum φ m.tetFaceList = (m.tets.map fun t => faceSum φ (tetFaces t)).sum := by
    unfold Mesh3.tetFaceList faceSum
    induction m.tets with
    | nil => simp
    | cons t r ih => simp only [List.flatMap_cons, List.map_append, List.sum_append, List.map_cons, List.sum_cons, ih]
  have e2 : faceSum φ m.triFaceList = (m.tris.map fun t => φ t.n0 t.n1 t.n2).sum := by
    unfold Mesh3.triFaceList faceSum
    rw [List.map_map]; rfl
  rw [← e1, ← e2]; exact h

/-! ## non-vacuity: the three tets around the edge 0-1 (ring 2,3,4), cavity node 5 (an edge split) -/

instance (t : Tet) : Decidable (TetNondeg t) := by unfold TetNondeg; infer_instance
instance (c : Cav) : Decidable (VerifyPassed c) := by unfold VerifyPassed; infer_instance

theorem get?_mem_valid {α β : Type} (g : Cells β) (cell : Int) (t : β) (_x : α) (h : g.get? cell = some t) :
    t ∈ g.valid := by
  unfold Cells.get? Slots.get? at h
  split at h
  · cases h
  · simp only [Cells.valid, Slots.valid, List.reduceOption, List.mem_filterMap, id]
    refine ⟨some t, ?_, rfl⟩
    rw [List.getD_eq_getElem?_getD] at h
    cases hh : g.slots.rows[cell.toNat]? with
    | none => rw [hh] at h; cases h
    | some y => rw [hh] at h; simp only [Option.getD_some] at h; subst h; exact List.mem_of_getElem? hh

/-- 6 nodes, tets (0,1,2,3), (0,1,3,4), (0,1,4,2) -/
def exGrid : Grid Int :=
  let g : Grid Int := (List.range 6).foldl (fun g _ => (g.addNode ⟨⟨0, 0, 0⟩, true⟩).1) Grid.create
  ([⟨0, 1, 2, 3⟩, ⟨0, 1, 3, 4⟩, ⟨0, 1, 4, 2⟩] : List Tet).foldl (fun g t => { g with tets := (g.tets.add t).1 }) g

def exCav : Cav := (addTets exGrid (emptyCav 5) [0, 1, 2]).2

/-- hypotheses of `insertFace_chain(_fresh)`, `cavity_replace_conforming`, `replace_volume`, `replace_star_two_sided`
    are met: 12 faces inserted, 6 cancelled against their reverses, 6 live; the verification passes; 6 new tets -/
example : addTets exGrid (emptyCav 5) [0, 1, 2] = (.ok, exCav) ∧ exCav.state = .unknown ∧
    exCav.tetList = [0, 1, 2] ∧ exCav.validFaces.length = 6 ∧
    VerifyPassed { exCav with state := .visible } ∧ (newTets { exCav with state := .visible }).length = 6 := by
  decide

example : ∀ cell t, exGrid.tets.get? cell = some t → TetNondeg t := by
  intro cell t h
  have hm := get?_mem_valid exGrid.tets cell t () h
  have hall : ∀ t ∈ exGrid.tets.valid, TetNondeg t := by decide
  exact hall t hm

instance {β : Type} [DecidableEq β] (s : Slots β) : Decidable (SlotsInv s) :=
  decidable_of_iff (s.blank.Nodup ∧ ∀ i ∈ s.blank, i < s.rows.length ∧ s.rows.getD i none = none)
    ⟨fun h => ⟨h.1, h.2⟩, fun h => ⟨h.nodup, h.blank⟩⟩

def exCavVisible : Cav := { exCav with state := .visible }

theorem exGrid_ok : GridOK exGrid := by
  refine ⟨⟨by decide +kernel, by decide +kernel⟩, ?_⟩
  intro cell t h
  have hm := get?_mem_valid exGrid.tets cell t () h
  have hall : ∀ t ∈ exGrid.tets.valid, TetNondeg t := by decide
  exact hall t hm

/-- hypotheses of `replace_grid_multiset`, `replace_mesh_conforming`, `cavity_history_conforming`: the edge-split
    cavity above is replaced successfully (3 tets out, 6 tets in) -/
example : CavStep exGrid (replace exGrid exCavVisible).2.2 ∧
    (replace exGrid exCavVisible).2.2.tets.valid.length = 6 := by
  have h1 : (replace exGrid exCavVisible).1 = .ok := by decide
  refine ⟨⟨[0, 1, 2], 5, exCav, exCavVisible, (replace exGrid exCavVisible).2.1, by decide, by decide, rfl, rfl,
    by decide, by decide, ?_⟩, by decide⟩
  rw [← h1]

example : CavHistory exGrid (replace exGrid exCavVisible).2.2 := by
  have h1 : (replace exGrid exCavVisible).1 = .ok := by decide
  refine CavHistory.cons ⟨[0, 1, 2], 5, exCav, exCavVisible, (replace exGrid exCavVisible).2.1, by decide,
    by decide, rfl, rfl, by decide, by decide, ?_⟩ (CavHistory.nil _)
  rw [← h1]

/-- 2-D: the four tris around vertex 4 of a 3x3 point grid; cavity node 4 (a collapse-like cavity) and an
    interior-edge cavity -/
def exGrid2 : Grid Int :=
  let g : Grid Int := (List.range 9).foldl (fun g _ => (g.addNode ⟨⟨0, 0, 0⟩, true⟩).1) Grid.create
  ([⟨0, 1, 4, 1⟩, ⟨1, 2, 4, 1⟩, ⟨2, 5, 4, 1⟩, ⟨5, 0, 4, 1⟩] : List Tri).foldl
    (fun g t => { g with tris := (g.tris.add t).1 }) g

/-- hypotheses of `insertSeg_chain`, `cavity_replace_conforming_2d`, `replace_area`: 12 segs inserted, 8 cancelled,
    4 live; 4 new tris from node 7 -/
example : (addTris exGrid2 (emptyCav 7) [0, 1, 2, 3]).1 = .ok ∧
    (addTris exGrid2 (emptyCav 7) [0, 1, 2, 3]).2.state = .unknown ∧
    (addTris exGrid2 (emptyCav 7) [0, 1, 2, 3]).2.validSegs.length = 4 ∧
    (newTris (addTris exGrid2 (emptyCav 7) [0, 1, 2, 3]).2).length = 4 := by decide

/-- the seg verification is one-directional: an open seg set passes it -/
example : verifySegsLoop [⟨0, 9, 1⟩, ⟨1, 9, 1⟩, ⟨9, 0, 1⟩] [⟨0, 9, 1⟩, ⟨1, 9, 1⟩, ⟨9, 0, 1⟩] = .pass := by decide

/-- both outcomes of `insertSeg_sum`: cancellation, and a face-id mismatch -/
example : (insertSeg exGrid2 (addTris exGrid2 (emptyCav 7) [0]).2 ⟨1, 0, 1⟩).2.validSegs.length = 2 ∧
    (insertSeg exGrid2 (addTris exGrid2 (emptyCav 7) [0]).2 ⟨1, 0, 2⟩).2.state = .boundary_constrained := by decide

/-- two tets glued along the face {0,1,2} with their six boundary tris: the orientation clause holds; it fails when
    one tri is flipped, and when the second tet is given the same orientation of the shared face -/
example :
    valid3Orient (⟨[], [⟨0, 1, 2, 3⟩, ⟨1, 0, 2, 4⟩],
      [⟨1, 3, 2, 1⟩, ⟨0, 2, 3, 1⟩, ⟨0, 3, 1, 1⟩, ⟨0, 4, 2, 1⟩, ⟨1, 2, 4, 1⟩, ⟨1, 4, 0, 1⟩]⟩ : Mesh3 Int) = true ∧
    valid3Orient (⟨[], [⟨0, 1, 2, 3⟩, ⟨1, 0, 2, 4⟩],
      [⟨3, 1, 2, 1⟩, ⟨0, 2, 3, 1⟩, ⟨0, 3, 1, 1⟩, ⟨0, 4, 2, 1⟩, ⟨1, 2, 4, 1⟩, ⟨1, 4, 0, 1⟩]⟩ : Mesh3 Int) = false ∧
    valid3Orient (⟨[], [⟨0, 1, 2, 3⟩, ⟨0, 1, 2, 4⟩],
      [⟨1, 3, 2, 1⟩, ⟨0, 2, 3, 1⟩, ⟨0, 3, 1, 1⟩, ⟨1, 4, 2, 1⟩, ⟨0, 2, 4, 1⟩, ⟨0, 4, 1, 1⟩]⟩ : Mesh3 Int) = false := by
  decide

/-- an integer scalar used only to run `checkVisible` inside `decide` (volumes are `-det/6` with truncating
    division, `min_volume` rounds to 0) -/
@[instance_reducible] def intScalar : Refine.Scalar Int :=
  { add := (· + ·), sub := (· - ·), mul := (· * ·), div := Int.tdiv, neg := (- ·), abs := fun a => a.natAbs,
    sqrt := id, exp := id, log := id, pow := fun a _ => a, ofInt := id,
    ofDec := fun m e => if e < 0 then 0 else m * 10 ^ e.toNat,
    le := fun a b => decide (a ≤ b), lt := fun a b => decide (a < b), isFinite := fun _ => true }

/-- the edge 0-1 along z, ring 2,3,4 around it, node 5 on the edge -/
def exGridXyz (flip : Bool) : Grid Int :=
  let pts : List (Refine.Model.Geom.V3 Int) :=
    [⟨0, 0, 0⟩, ⟨0, 0, 12⟩, ⟨12, 0, 6⟩, ⟨-6, 10, 6⟩, ⟨-6, -10, 6⟩, ⟨0, 0, 6⟩]
  let g : Grid Int := pts.foldl (fun g p => (g.addNode ⟨p, true⟩).1) Grid.create
  ((if flip then [⟨0, 1, 3, 2⟩, ⟨0, 1, 4, 3⟩, ⟨0, 1, 2, 4⟩] else [⟨0, 1, 2, 3⟩, ⟨0, 1, 3, 4⟩, ⟨0, 1, 4, 2⟩]) :
    List Tet).foldl (fun g t => { g with tets := (g.tets.add t).1 }) g

/-- hypotheses of `visible_positive`: the split cavity is visible from the mid-edge node; with the
    ring orientation reversed (inverted tets) it is `boundary_constrained` -/
example :
    (@checkVisible Int intScalar (exGridXyz false) (addTets (exGridXyz false) (emptyCav 5) [0, 1, 2]).2).2.state = .visible ∧
    (addTets (exGridXyz false) (emptyCav 5) [0, 1, 2]).2.state = .unknown ∧
    (@checkVisible Int intScalar (exGridXyz true) (addTets (exGridXyz true) (emptyCav 5) [0, 1, 2]).2).2.state =
      .boundary_constrained := by
  decide

/-- both outcomes of `insertFace_sum` occur: the reversed face cancels (ok), a rotated copy is `REF_INVALID` -/
example : (insertFace exCav ⟨4, 3, 0⟩).1 = .ok ∧ (insertFace exCav ⟨4, 3, 0⟩).2.validFaces.length = 5 ∧
    (insertFace exCav ⟨3, 4, 0⟩).1 = .invalid ∧ (insertFace exCav ⟨7, 8, 9⟩).2.validFaces.length = 7 := by
  decide

/-- the verification is not vacuous: two tets sharing only the edge 0-1 are flagged `inconsistent`, an open face
    set fails with a missing side -/
example : (verifyFaceManifold (addTets exGrid (emptyCav 5) [0]).2).1 = .ok ∧
    VerifyPassed (addTets exGrid (emptyCav 5) [0]).2 ∧
    (verifyFaceManifold (insertFace (addTets exGrid (emptyCav 5) [0]).2 ⟨2, 3, 1⟩).2).1 = .failure ∧
    (verifyFaceManifold (insertFaces (emptyCav 5)
      ((tetFaces ⟨0, 1, 2, 3⟩) ++ (tetFaces ⟨1, 0, 4, 5⟩))).2).2.state = .inconsistent := by
  decide

end Refine.Props.C01
