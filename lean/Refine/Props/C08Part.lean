import Refine.Lemmas.PartMeshbSerial2
import Refine.Props.C06Part

/-!
  C08 for the PARALLEL libMeshb reader (`ref_part_by_extension` → `ref_part_meshb`, model
  `Refine.Model.PartMeshb`): reading a file on any number of ranks and gathering gives exactly the mesh the serial
  reader `decodeMeshbWith` (`ref_import_meshb`, `Refine.Model.Meshb`, proved inverse to the writer in `Props/C08.lean`)
  takes from the same bytes.

  `gatherNodes` / `gatherGroup` (spec-level, `Model/PartMeshb.lean`) are what `ref_gather_node` / `ref_gather_cell`
  assemble: vertices from their owners in rank (= global) order; of every cell the copy on the rank that owns it
  (`ref_cell_part`), rank 0 first, local order.  Cells therefore come back as a permutation of the file order.
-/
namespace Refine.Props.C08Part
open Refine.Model.Meshb Refine.Model.PartMeshb Refine.Lemmas.PartMeshb
open Refine.Gen.PartMacros

/- FULL STATEMENT (`partRead_eq_serial`), of which the theorem below is the proved part: under the same hypotheses,
   additionally `gatherGeoms w` (every geometry-association record from the rank that owns its vertex) is a permutation
   of `m.geoms`.  Missing: the per-rank `ref_geom_add` upsert of `addGeoms` / `geomGhost` against the serial
   `rdGeoms` (same upsert, but over all vertices, and with the index check the parallel reader does not have).
   The geometry records are compared by the streams (per-rank dump == model, python oracle against the file). -/

/-- **partRead_eq_serial**, proved part (vertices, cells, CAD bytes, dimension flag; the geometry-association records
    are tied by the streams only): if rank 0 accepts the file (`parseWith … = ok p`), the serial reader accepts it
    (`decodeMeshbWith … = ok m`), coordinates are `double`s (version ≥ 2), `1 ≤ nnode < 2^31` and no two cells of a
    group have the same vertex set, then on every rank count `np ≥ 1` and every chunk constant the parallel read
    succeeds and gathering it gives `m`: the vertices in order with their coordinates bit for bit, per cell group a
    permutation of `m`'s cells (vertices, order inside the cell, id), the CAD bytes on every rank, the 2-D flag. -/
theorem partRead_eq_serial_partial (cfg : Cfg) (np cm : Nat) (hnp : 1 ≤ np) (bs : Bytes) (p : Parsed) (m : MeshFile)
    (h1 : parseWith cfg np cm bs = .ok p) (h2 : decodeMeshbWith cfg bs = .ok m)
    (hv : ∀ v kp, header cfg bs = .ok (v, kp) → 2 ≤ v)
    (hN : 1 ≤ p.nnode) (hN31 : p.nnode < 2 ^ 31)
    (hd : ∀ g ∈ cellInfos.zip p.groups, Distinct g.1 g.2.flatten) :
    ∃ w, partReadWith cfg np cm bs = .ok w ∧ w.length = np ∧
      gatherNodes w = m.nodes ∧
      (∀ k ci, cellInfos[k]? = some ci → (gatherGroup w k ci.nodePer).Perm (m.cells.getD k [])) ∧
      (∀ st ∈ w, st.cad = m.cad) ∧ p.twod = m.twod := by
  obtain ⟨hp, w, hw, hF⟩ := Refine.Props.C06Part.partRead_closed_form cfg np cm hnp bs p h1 hN hN31 hd
  obtain ⟨e1, e2, e3, e4⟩ := parse_eq_serial hnp h1 h2 hp hN31 hv
  refine ⟨w, hw, hF.len, ?_, ?_, ?_, e1⟩
  · rw [gatherNodes_eq hnp hp hF, e2]
  · intro k ci hci
    have hperm := gatherGroup_perm hnp hp hF k ci hci
    have hcell : m.cells.getD k [] = (fileGroup p k).map (norm ci) := by
      rw [e4]
      unfold fileGroup
      rw [List.getD_eq_getElem?_getD, List.getElem?_map]
      cases hg : p.groups[k]? with
      | none =>
        have : (cellInfos.zip p.groups)[k]? = none := by
          rw [List.getElem?_eq_none_iff, List.length_zip]
          have := List.getElem?_eq_none_iff.1 hg
          omega
        simp [this, List.getD_eq_getElem?_getD, hg]
      | some chs =>
        have : (cellInfos.zip p.groups)[k]? = some (ci, chs) := List.getElem?_zip_eq_some.2 ⟨hci, hg⟩
        simp [this, List.getD_eq_getElem?_getD, hg]
    rw [hcell]
    exact hperm
  · intro st hst
    rw [cad_eq hF st hst, e3]

/-! ### non-vacuity: the 3-rank file of `Props/C06Part.lean` (tet + triangles + edges, rank 2 without a cell) -/

/-- both readers accept it and the gather of the 3-rank read is the serial mesh (here by evaluation) -/
example : (match partRead 3 Refine.Props.C06Part.threeRankFile, decodeMeshbWith Cfg.current Refine.Props.C06Part.threeRankFile with
    | .ok w, .ok m => gatherNodes w == m.nodes &&
        (gatherGroup w 0 2 == m.cells.getD 0 [] && gatherGroup w 3 3 == m.cells.getD 3 [] &&
         gatherGroup w 8 4 == m.cells.getD 8 []) && w.all (fun st => st.cad == m.cad) && m.nodes.length == 7
    | _, _ => false) = true := by decide +kernel

end Refine.Props.C08Part
