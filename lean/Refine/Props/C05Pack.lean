import Refine.Lemmas.InterpPack
import Refine.Lemmas.SmoothInterpBetween

/-!
  C05 (pack) — the donor record `(cell, part, bary[4])` of `REF_INTERP` stays with its vertex when `ref_grid_pack` /
  `ref_grid_stable_pack` renumber the vertex slots (`ref_node_pack` + `ref_interp_pack`), for the executable model
  `Refine/Model/InterpPack.lean` (tied to the C by `refdrv interppack` / `harness/h_interppack.c`).

  `PackMap live n o2n n2o` is exactly what `ref_interp_pack` needs from the pair of maps it is handed: `o2n` sends the
  live slots ONTO `[0, n)` and `n2o` is its inverse there.  No monotonicity: `ref_interp_pack` copies through a scratch
  array (and `ref_node_compact` / `ref_edge_rcm` are not monotone).  `stableCompact_packMap` proves it for the map
  `ref_node_stable_compact` computes (model `NodeIds.stableCompact`); for `ref_node_compact` and `ref_edge_rcm` it is a
  hypothesis (tied for `compact`, oracled for `rcm`).
-/
namespace Refine.Props.C05Pack
open Refine.Model Refine.Model.InterpPack Refine.Model.NodeIds Refine.Lemmas.InterpPack
open Refine.Model.SmoothInterp Refine.Lemmas.SmoothInterp
open Refine.Model.Geom (B4)

/-- `o2n` maps the live slots onto `[0, n)`, `n2o` is its inverse -/
structure PackMap (live : Nat → Prop) (n : Nat) (o2n n2o : List Int) : Prop where
  fwd : ∀ i, live i → ∃ k, k < n ∧ o2n.getD i 0 = (k : Int) ∧ n2o.getD k 0 = (i : Int)
  bwd : ∀ k, k < n → ∃ i, live i ∧ n2o.getD k 0 = (i : Int) ∧ o2n.getD i 0 = (k : Int)

/-- `0 <= global[node]` as the compact functions test it -/
def liveSel : Int → Int → Bool := fun g _ => decide (g ≥ 0)

/-- a valid slot of `ref_node` -/
def LiveSlot (s : NodeIds) (i : Nat) : Prop := i < s.max ∧ s.liveAt i = true

theorem zip_getD_fst (s : NodeIds) (hp : s.part.length = s.global.length) (i : Nat) (hi : i < s.max) :
    ((s.global.zip s.part).getD i (0, 0)).1 = s.global.getD i (-1) := by
  have hi' : i < s.global.length := hi
  have hz : i < (s.global.zip s.part).length := by rw [List.length_zip, hp, Nat.min_self]; exact hi'
  rw [List.getD_eq_getElem?_getD, List.getD_eq_getElem?_getD, List.getElem?_eq_getElem hz, List.getElem?_eq_getElem hi']
  simp

/-- **the map of `ref_node_stable_compact` is a `PackMap`** (proved from the `NodeIds` model): every valid slot gets
    its rank among the valid slots, `n2o` lists the valid slots in order -/
theorem stableCompact_packMap (s : NodeIds) (hp : s.part.length = s.global.length) (o2n n2o : List Int)
    (h : s.stableCompact = (.ok, o2n, n2o)) : PackMap (LiveSlot s) s.n o2n n2o := by
  unfold NodeIds.stableCompact at h
  simp only at h
  split at h
  · cases h
  · rename_i hlen
    simp only [ne_eq, Decidable.not_not] at hlen
    simp only [Prod.mk.injEq, true_and] at h
    obtain ⟨ho, hn⟩ := h
    have hlen : (sel' liveSel (s.global.zip s.part) 0).length = s.n := hlen
    have hn : List.map (fun (v : Nat) => (v : Int)) (sel' liveSel (s.global.zip s.part) 0) = n2o := hn
    have ho : NodeIds.numberSlots liveSel (s.global.zip s.part) (List.replicate s.max (-1)) 0 = o2n := ho
    have hzl : (s.global.zip s.part).length = s.max := by
      rw [List.length_zip, hp, Nat.min_self]; rfl
    have hbase : (s.global.zip s.part).length ≤ (List.replicate s.max (-1 : Int)).length := by
      rw [hzl, List.length_replicate]; exact Nat.le_refl _
    have hn2o : ∀ r, r < s.n → n2o.getD r 0 = (((sel' liveSel (s.global.zip s.part) 0).getD r 0 : Nat) : Int) := by
      intro r hr
      rw [← hn, List.getD_eq_getElem?_getD, List.getElem?_map, List.getD_eq_getElem?_getD]
      have : r < (sel' liveSel (s.global.zip s.part) 0).length := by rw [hlen]; exact hr
      rw [List.getElem?_eq_getElem this]
      rfl
    constructor
    · intro i ⟨hi, hlive⟩
      have hs : liveSel ((s.global.zip s.part).getD i (0, 0)).1 ((s.global.zip s.part).getD i (0, 0)).2 = true := by
        unfold liveSel; rw [zip_getD_fst s hp i hi]; exact hlive
      obtain ⟨r, hr, h1, h2⟩ := numberSlots_fwd liveSel _ (List.replicate s.max (-1)) 0 0 i hbase (by rw [hzl]; exact hi) hs
      rw [hlen] at hr
      refine ⟨r, hr, ?_, ?_⟩
      · rw [← ho, h1]; simp
      · rw [hn2o r hr, h2]; simp
    · intro k hk
      obtain ⟨i, hi, hs, h1, h2⟩ := numberSlots_bwd liveSel _ (List.replicate s.max (-1)) 0 0 k hbase (by rw [hlen]; exact hk)
      rw [hzl] at hi
      refine ⟨i, ⟨hi, ?_⟩, ?_, ?_⟩
      · unfold liveSel at hs; rw [zip_getD_fst s hp i hi] at hs; exact hs
      · rw [hn2o k hk, h1]; simp
      · rw [← ho, h2]; simp

variable {α : Type}

/-- **interpPack_aligned.**  For every pair of maps with the `PackMap` property: after `ref_interp_pack` the record of
    new slot `o2n i` is the record old slot `i` had, for every live `i` (all three arrays, the flat `bary` with stride
    4); the slots from `n` on are reset (`cell = part = REF_EMPTY`); `max` is unchanged. -/
theorem interpPack_aligned {live : Nat → Prop} {junk : α} {n : Nat} {o2n n2o : List Int} {it it' : Interp α}
    (hm : PackMap live n o2n n2o) (h : interpPack junk n 0 n2o it = .ok it') :
    (∀ i, live i →
      cellAt it' (o2n.getD i 0).toNat = cellAt it i ∧ partAt it' (o2n.getD i 0).toNat = partAt it i ∧
      baryAt junk it' (o2n.getD i 0).toNat = baryAt junk it i) ∧
    (∀ j, n ≤ j → cellAt it' j = EMPTY ∧ partAt it' j = EMPTY) ∧ it'.max = it.max := by
  obtain ⟨_, _, he⟩ := interpPack_ok h
  subst he
  refine ⟨?_, ?_, rfl⟩
  · intro i hi
    obtain ⟨k, hk, h1, h2⟩ := hm.fwd i hi
    have hko : (o2n.getD i 0).toNat = k := by rw [h1]; simp
    have hold : old n2o k = i := by unfold old; rw [h2]; simp
    rw [hko]
    refine ⟨?_, ?_, ?_⟩
    · unfold cellAt; simp only; rw [getD_map_range_append n _ _ _ k hk, hold]
    · unfold partAt; simp only; rw [getD_map_range_append n _ _ _ k hk, hold]
    · unfold baryAt
      simp only
      have hg : ∀ node, ((List.range 4).map fun i => it.bary.getD (i + 4 * old n2o node) junk).length = 4 := by
        intro node; simp
      have hb : ∀ q, q < 4 →
          (((List.range n).flatMap fun node => (List.range 4).map fun i => it.bary.getD (i + 4 * old n2o node) junk)
            ++ it.bary.drop (4 * n)).getD (q + 4 * k) junk = it.bary.getD (q + 4 * i) junk := by
        intro q hq
        rw [blocks_getD n _ hg _ _ k q hk hq, range4, hold]
        have h4 : q = 0 ∨ q = 1 ∨ q = 2 ∨ q = 3 := by omega
        rcases h4 with e | e | e | e <;> subst e <;> simp
      rw [hb 0 (by omega), hb 1 (by omega), hb 2 (by omega), hb 3 (by omega)]
  · intro j hj
    constructor
    · unfold cellAt; simp only; exact getD_map_range_replicate n _ _ EMPTY j hj
    · unfold partAt; simp only; exact getD_map_range_replicate n _ _ EMPTY j hj

/-- `ref_node_pack` moves every per-slot array the same way: new slot `o2n i` holds what old slot `i` held -/
theorem packSlots_aligned {X : Type} {live : Nat → Prop} {n : Nat} {o2n n2o : List Int} (hm : PackMap live n o2n n2o)
    (xs : List X) (d : X) (i : Nat) (hi : live i) :
    (packSlots n n2o xs d).getD (o2n.getD i 0).toNat d = xs.getD i d := by
  obtain ⟨k, hk, h1, h2⟩ := hm.fwd i hi
  have hko : (o2n.getD i 0).toNat = k := by rw [h1]; simp
  have hold : old n2o k = i := by unfold old; rw [h2]; simp
  unfold packSlots
  rw [hko, getD_map_range_append n _ _ _ k hk, hold]

section grid
variable {P M : Type}

/-- the whole vertex state `(xyz, cell, part, bary, met)` of new slot `o2n i` is that of old slot `i` -/
theorem pack_grid_aligned {live : Nat → Prop} {junk : α} {n : Nat} {o2n n2o : List Int} {it it' : Interp α}
    (dp : P) (dm : M) (nr : NodeReal P M) (hm : PackMap live n o2n n2o) (h : interpPack junk n 0 n2o it = .ok it')
    (i : Nat) (hi : live i) :
    gridOf dp dm junk (packReal dp dm n n2o nr) it' (o2n.getD i 0).toNat = gridOf dp dm junk nr it i := by
  obtain ⟨hc, hp, hb⟩ := (interpPack_aligned hm h).1 i hi
  unfold gridOf packReal
  simp only
  rw [hc, hp, hb, packSlots_aligned hm nr.xyz dp i hi, packSlots_aligned hm nr.met dm i hi]

/-- **pack_preserves_fresh.**  `ref_node_pack` + `ref_interp_pack` preserve the C05 invariant vertex by vertex: a live
    vertex with a fresh record (located on this rank, weights of its CURRENT position, metric = interpolation there)
    has a fresh record in its new slot; the weak form `MetricAtPosition` likewise. -/
theorem pack_preserves_fresh {live : Nat → Prop} {junk : α} {n : Nat} {o2n n2o : List Int} {it it' : Interp α}
    (bg : Bg P (B4 α) M) (D : P → Int → B4 α → Prop) (dp : P) (dm : M) (nr : NodeReal P M)
    (hm : PackMap live n o2n n2o) (h : interpPack junk n 0 n2o it = .ok it') (i : Nat) (hi : live i) :
    (Fresh bg D (gridOf dp dm junk nr it i) →
      Fresh bg D (gridOf dp dm junk (packReal dp dm n n2o nr) it' (o2n.getD i 0).toNat)) ∧
    (MetricAtPosition bg D (gridOf dp dm junk nr it i) →
      MetricAtPosition bg D (gridOf dp dm junk (packReal dp dm n n2o nr) it' (o2n.getD i 0).toNat)) := by
  rw [pack_grid_aligned dp dm nr hm h i hi]
  exact ⟨id, id⟩

/-- the grid-level invariant of `Props/C05Smooth` (`GridWeak`: every located vertex is fresh) survives the pack on
    EVERY slot: slots below `n` are images of live vertices, slots from `n` on are unlocated -/
theorem pack_preserves_gridWeak {live : Nat → Prop} {junk : α} {n : Nat} {o2n n2o : List Int} {it it' : Interp α}
    (bg : Bg P (B4 α) M) (D : P → Int → B4 α → Prop) (dp : P) (dm : M) (nr : NodeReal P M)
    (hm : PackMap live n o2n n2o) (h : interpPack junk n 0 n2o it = .ok it')
    (hG : ∀ i, live i → MetricAtPosition bg D (gridOf dp dm junk nr it i)) :
    GridWeak bg D (gridOf dp dm junk (packReal dp dm n n2o nr) it') := by
  intro j
  by_cases hj : j < n
  · obtain ⟨i, hi, _, h2⟩ := hm.bwd j hj
    have hji : (o2n.getD i 0).toNat = j := by rw [h2]; simp
    rw [← hji]
    exact (pack_preserves_fresh bg D dp dm nr hm h i hi).2 (hG i hi)
  · apply metricAtPosition_of_empty
    show cellAt it' j = EMPTY
    exact ((interpPack_aligned hm h).2.1 j (by omega)).1

end grid

/-- `ref_interp_pack` refuses hired agents and refuses (model: `.oob`) to index outside its arrays; in particular the
    `if (n > max) ref_interp_resize(ref_interp, max)` of the C text does not make `n > max` safe -/
theorem interpPack_guard {junk : α} {n : Nat} {n2o : List Int} {it it' : Interp α}
    (h : interpPack junk n 0 n2o it = .ok it') :
    n ≤ it.max ∧ ∀ v, v < n → 0 ≤ n2o.getD v 0 ∧ old n2o v < it.max :=
  ⟨(interpPack_ok h).1, (interpPack_ok h).2.1⟩

/-! ### non-vacuity -/

/-- five vertices added, slots 1 and 3 deleted -/
def exIds : NodeIds :=
  let s := [10, 11, 12, 13, 14].foldl (fun (s : NodeIds) g => (s.add g).2.2) NodeIds.create
  ((s.remove 1).2.remove 3).2

def exIt : Interp Int :=
  { max := 20, hired := List.replicate 20 false, cell := (List.range 20).map fun (i : Nat) => ((100 + i : Nat) : Int),
    part := List.replicate 20 0, bary := (List.range 80).map fun (q : Nat) => (q : Int) }

/-- the hypotheses of `interpPack_aligned` are met by the real `stableCompact` map of a state with holes, and the
    conclusion moves the record of old slot 4 (cell 104, bary 16..19) to new slot 2 -/
example : exIds.stableCompact = (.ok, exIds.stableCompact.2.1, exIds.stableCompact.2.2) ∧
    exIds.stableCompact.2.2 = [0, 2, 4] ∧ exIds.stableCompact.2.1.take 5 = [0, -1, 1, -1, 2] ∧
    (∃ it', interpPack 0 exIds.n 0 exIds.stableCompact.2.2 exIt = .ok it' ∧ cellAt it' 2 = 104 ∧
      (baryAt 0 it' 2).b0 = 16 ∧ (baryAt 0 it' 2).b3 = 19 ∧ cellAt it' 3 = EMPTY) := by
  refine ⟨by decide, by decide, by decide, ?_⟩
  exact ⟨_, rfl, by decide, by decide, by decide, by decide⟩

end Refine.Props.C05Pack
