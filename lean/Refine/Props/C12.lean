import Refine.Lemmas.SearchWall

/-!
  C12 — wall distance and the sphere tree (`ref_search.c`, `ref_node_bounding_sphere_xyz`, the tree loop of
  `ref_phys_wall_distance`).  All theorems are about the executable model `Refine.Model.Search`
  instantiated at `ℝ` (exact arithmetic); the same definitions at `Float` are bit-compared with the C by
  the `search_*` streams.  Rounding is modelled, not verified.

  Vocabulary (`Refine.Lemmas.Search`): `edist` Euclidean distance on `V3 ℝ`; `BallInv t` the
  children-ball invariant "for every node p and descendant q: dist c_p c_q + r_q ≤ children_ball_p";
  `OnSeg a b y` / `InTri a b c y` closed segment / closed triangle; `SegGuard p0 p1 x` the
  `ref_math_divisible(proj2,len2)` test of `ref_search_distance2`; `segSlack`/`triSlack` = 1 when those
  guards pass (or the edge has zero length) and `1 - 1e-20` otherwise; `insertAll` = any list of inserts.
-/
namespace Refine.Props.C12
open Refine Refine.Model.Geom Refine.Model.Search Refine.ScalarReal Refine.Lemmas.Search

/-! ### the invariant -/

/-- `ref_search_insert` (→ `ref_search_home`, ball update along the whole insertion path) preserves the
    invariant — any position, any radius, including the error branches that leave the tree untouched -/
theorem insert_BallInv (s : Search ℝ) (item : Int) (pos : V3 ℝ) (rad : ℝ) (h : BallInv s.root) :
    BallInv (s.insert item pos rad).2.root :=
  insert_BallInv' s item pos rad h

/-- every tree reachable from `ref_search_create` by inserts — every insertion order, duplicates, zero or
    negative radii — satisfies the invariant -/
theorem build_BallInv (n : Int) (s0 : Search ℝ) (h0 : Search.create n = .ok s0)
    (ins : List (Int × V3 ℝ × ℝ)) : BallInv (insertAll s0 ins).root :=
  insertAll_BallInv s0 ins (create_BallInv n s0 h0)

/-! ### touching -/

/-- `ref_search_touching` returns exactly the items whose sphere overlaps the query sphere
    (`dist x cᵢ ≤ rᵢ + ρ`), in pre-order — pruning with `children_ball` never drops an overlap -/
theorem touching_exact (s : Search ℝ) (h : BallInv s.root) (x : V3 ℝ) (rho : ℝ) :
    s.touching x rho =
      (s.root.pre.filter (fun e => decide (edist e.pos x ≤ e.rad + rho))).map (·.item) := by
  unfold Search.touching
  rw [touching_eq x rho s.root [] h, List.nil_append]

/-- superset form, for every tree built by inserts: an overlapping sphere is always reported -/
theorem touching_superset (n : Int) (s0 : Search ℝ) (h0 : Search.create n = .ok s0)
    (ins : List (Int × V3 ℝ × ℝ)) (x : V3 ℝ) (rho : ℝ) (e : Entry ℝ)
    (he : e ∈ (insertAll s0 ins).root.pre) (hov : edist e.pos x ≤ e.rad + rho) :
    e.item ∈ (insertAll s0 ins).touching x rho := by
  rw [touching_exact _ (build_BallInv n s0 h0 ins)]
  exact List.mem_map.mpr ⟨e, List.mem_filter.mpr ⟨he, by simpa using hov⟩, rfl⟩

/-- and nothing else is reported -/
theorem touching_only_overlaps (s : Search ℝ) (h : BallInv s.root) (x : V3 ℝ) (rho : ℝ) (i : Int)
    (hi : i ∈ s.touching x rho) : ∃ e ∈ s.root.pre, e.item = i ∧ edist e.pos x ≤ e.rad + rho := by
  rw [touching_exact s h] at hi
  obtain ⟨e, he, rfl⟩ := List.mem_map.mp hi
  obtain ⟨he1, he2⟩ := List.mem_filter.mp he
  exact ⟨e, he1, rfl, by simpa using he2⟩

/-! ### nearest element (branch and bound) -/

/-- generic form: if every element distance is bounded below by the distance to its sphere, the
    branch-and-bound of `ref_search_gather_seg/_tri` returns the plain running minimum over all entries -/
theorem nearest_exact (ed : Int → ℝ) (x : V3 ℝ) (t : STree ℝ) (d0 : ℝ) (h : BallInv t)
    (hs : ∀ e ∈ t.pre, edist e.pos x - e.rad ≤ ed e.item) :
    t.nearestWith ed x d0 = (t.pre.map (fun e => ed e.item)).foldl min d0 :=
  nearestWith_eq ed x t d0 h hs

/-- segments (`node_per == 2`): if both end points of each element lie in its sphere then
    `ref_search_nearest_element` = min(d₀, minᵢ ref_search_distance2(elementᵢ, x)) -/
theorem nearestSeg_exact (s : Search ℝ) (h : BallInv s.root) (segs : Int → V3 ℝ × V3 ℝ)
    (hin : ∀ e ∈ s.root.pre, edist e.pos (segs e.item).1 ≤ e.rad ∧ edist e.pos (segs e.item).2 ≤ e.rad)
    (x : V3 ℝ) (d0 : ℝ) :
    s.nearestSeg segs x d0 =
      (s.root.pre.map (fun e => dist2seg (segs e.item).1 (segs e.item).2 x)).foldl min d0 := by
  unfold Search.nearestSeg
  apply nearestWith_eq _ x s.root d0 h
  intro e he
  obtain ⟨y, hy, hd⟩ := dist2seg_attained (segs e.item).1 (segs e.item).2 x
  have hb := onSeg_in_ball e.pos _ _ e.rad (hin e he).1 (hin e he).2 y hy
  have ht := edist_triangle e.pos y x
  rw [hd, edist_comm x y]
  linarith

/-- triangles: if the three vertices of each element lie in its sphere then
    `ref_search_nearest_element` = min(d₀, minᵢ ref_search_distance3(elementᵢ, x)) -/
theorem nearestTri_exact (s : Search ℝ) (h : BallInv s.root) (tris : Int → V3 ℝ × V3 ℝ × V3 ℝ)
    (hin : ∀ e ∈ s.root.pre, edist e.pos (tris e.item).1 ≤ e.rad ∧ edist e.pos (tris e.item).2.1 ≤ e.rad ∧
      edist e.pos (tris e.item).2.2 ≤ e.rad)
    (x : V3 ℝ) (d0 : ℝ) :
    s.nearestTri tris x d0 =
      (s.root.pre.map (fun e => dist2tri (tris e.item).1 (tris e.item).2.1 (tris e.item).2.2 x)).foldl min d0 := by
  unfold Search.nearestTri
  apply nearestWith_eq _ x s.root d0 h
  intro e he
  obtain ⟨y, hy, hd⟩ := dist2triWith_attained tri3FootRepo tri3FootRepo_along
    (tris e.item).1 (tris e.item).2.1 (tris e.item).2.2 x
  have hb := inTri_in_ball e.pos _ _ _ e.rad (hin e he).1 (hin e he).2.1 (hin e he).2.2 y hy
  have ht := edist_triangle e.pos y x
  unfold dist2tri
  rw [hd, edist_comm x y]
  linarith

/-- the `ref_phys_wall_distance` loop, 2-D walls: for EVERY insertion permutation `perm` (whatever
    `ref_sort_shuffle`/`rand` produced) the tree search returns the minimum of `d₀` and the kernel distances
    of all wall segments in `perm` — stated order-free: it is a lower bound of all of them and equals one -/
theorem wallDistance_seg_exact (ncell : Int) (segs : Int → V3 ℝ × V3 ℝ) (perm : List Int) (s : Search ℝ)
    (hw : wallBuild ncell (fun c => [(segs c).1, (segs c).2]) perm = (.ok, some s)) (x : V3 ℝ) (d0 : ℝ) :
    s.nearestSeg segs x d0 ≤ d0 ∧
    (∀ c ∈ perm, s.nearestSeg segs x d0 ≤ dist2seg (segs c).1 (segs c).2 x) ∧
    (s.nearestSeg segs x d0 = d0 ∨ ∃ c ∈ perm, s.nearestSeg segs x d0 = dist2seg (segs c).1 (segs c).2 x) := by
  obtain ⟨hb, hall, hok⟩ := wallBuild_spec ncell _ perm .ok s hw
  have hin : ∀ e ∈ s.root.pre,
      edist e.pos (segs e.item).1 ≤ e.rad ∧ edist e.pos (segs e.item).2 ≤ e.rad := by
    intro e he
    obtain ⟨c, _, hsp⟩ := hall e he
    have hc : e.item = c := hsp.1
    rw [hc]
    exact ⟨sphereOf_contains hsp _ (by simp), sphereOf_contains hsp _ (by simp)⟩
  rw [nearestSeg_exact s hb segs hin x d0]
  obtain ⟨m1, m2, m3⟩ := foldl_min_spec
    (s.root.pre.map (fun e => dist2seg (segs e.item).1 (segs e.item).2 x)) d0
  refine ⟨m1, ?_, ?_⟩
  · intro c hc
    obtain ⟨e, he, hsp⟩ := hok rfl c hc
    apply m2
    exact List.mem_map.mpr ⟨e, he, by rw [hsp.1]⟩
  · rcases m3 with m3 | m3
    · left; exact m3
    · right
      obtain ⟨e, he, hv⟩ := List.mem_map.mp m3
      obtain ⟨c, hc, hsp⟩ := hall e he
      exact ⟨c, hc, by rw [← hv, hsp.1]⟩

/-- the `ref_phys_wall_distance` loop, 3-D walls (triangles), every insertion permutation -/
theorem wallDistance_tri_exact (ncell : Int) (tris : Int → V3 ℝ × V3 ℝ × V3 ℝ) (perm : List Int)
    (s : Search ℝ)
    (hw : wallBuild ncell (fun c => [(tris c).1, (tris c).2.1, (tris c).2.2]) perm = (.ok, some s))
    (x : V3 ℝ) (d0 : ℝ) :
    s.nearestTri tris x d0 ≤ d0 ∧
    (∀ c ∈ perm, s.nearestTri tris x d0 ≤ dist2tri (tris c).1 (tris c).2.1 (tris c).2.2 x) ∧
    (s.nearestTri tris x d0 = d0 ∨
      ∃ c ∈ perm, s.nearestTri tris x d0 = dist2tri (tris c).1 (tris c).2.1 (tris c).2.2 x) := by
  obtain ⟨hb, hall, hok⟩ := wallBuild_spec ncell _ perm .ok s hw
  have hin : ∀ e ∈ s.root.pre, edist e.pos (tris e.item).1 ≤ e.rad ∧
      edist e.pos (tris e.item).2.1 ≤ e.rad ∧ edist e.pos (tris e.item).2.2 ≤ e.rad := by
    intro e he
    obtain ⟨c, _, hsp⟩ := hall e he
    have hc : e.item = c := hsp.1
    rw [hc]
    exact ⟨sphereOf_contains hsp _ (by simp), sphereOf_contains hsp _ (by simp),
      sphereOf_contains hsp _ (by simp)⟩
  rw [nearestTri_exact s hb tris hin x d0]
  obtain ⟨m1, m2, m3⟩ := foldl_min_spec
    (s.root.pre.map (fun e => dist2tri (tris e.item).1 (tris e.item).2.1 (tris e.item).2.2 x)) d0
  refine ⟨m1, ?_, ?_⟩
  · intro c hc
    obtain ⟨e, he, hsp⟩ := hok rfl c hc
    apply m2
    exact List.mem_map.mpr ⟨e, he, by rw [hsp.1]⟩
  · rcases m3 with m3 | m3
    · left; exact m3
    · right
      obtain ⟨e, he, hv⟩ := List.mem_map.mp m3
      obtain ⟨c, hc, hsp⟩ := hall e he
      exact ⟨c, hc, by rw [← hv, hsp.1]⟩

/-- `ref_phys_local_wall` (3-D): the wall list contains every wall triangle and, for every wall quad, BOTH
    triangles `(0,1,2)` and `(0,2,3)` of its split (whose union is the quad), and nothing else -/
theorem localWall3_mem (tris : List (V3 ℝ × V3 ℝ × V3 ℝ)) (quads : List (V3 ℝ × V3 ℝ × V3 ℝ × V3 ℝ))
    (t : V3 ℝ × V3 ℝ × V3 ℝ) :
    t ∈ localWall3 tris quads ↔
      t ∈ tris ∨ ∃ q ∈ quads, t = (q.1, q.2.1, q.2.2.1) ∨ t = (q.1, q.2.2.1, q.2.2.2) := by
  simp [localWall3, List.mem_flatMap]

theorem localWall3_length (tris : List (V3 ℝ × V3 ℝ × V3 ℝ)) (quads : List (V3 ℝ × V3 ℝ × V3 ℝ × V3 ℝ)) :
    (localWall3 tris quads).length = tris.length + 2 * quads.length := by
  induction quads with
  | nil => simp [localWall3]
  | cons q qs ih =>
    simp only [localWall3, List.flatMap_cons, List.length_append, List.length_cons, List.length_nil] at ih ⊢
    omega

/-- element `c` of a wall list (out-of-range indices give a zero triangle; never used below) -/
def wallAt (l : List (V3 ℝ × V3 ℝ × V3 ℝ)) (c : Int) : V3 ℝ × V3 ℝ × V3 ℝ :=
  l.getD c.toNat (⟨0, 0, 0⟩, ⟨0, 0, 0⟩, ⟨0, 0, 0⟩)

theorem wallAt_natCast (l : List (V3 ℝ × V3 ℝ × V3 ℝ)) (k : Nat) (hk : k < l.length) :
    wallAt l (k : Int) = l[k] := by
  simp [wallAt, List.getD, hk]

/-- wall distance with quad walls: the value returned for the wall list built by `ref_phys_local_wall` is a
    lower bound of the distance to both triangles of every wall quad and to every wall triangle
    (for every insertion order `perm` that inserts the whole list) -/
theorem wallDistance_quad_exact (tris : List (V3 ℝ × V3 ℝ × V3 ℝ)) (quads : List (V3 ℝ × V3 ℝ × V3 ℝ × V3 ℝ))
    (perm : List Int) (s : Search ℝ)
    (hperm : ∀ k : Nat, k < (localWall3 tris quads).length → (k : Int) ∈ perm)
    (hw : wallBuild ((localWall3 tris quads).length : Int)
      (fun c => [(wallAt (localWall3 tris quads) c).1, (wallAt (localWall3 tris quads) c).2.1,
                 (wallAt (localWall3 tris quads) c).2.2]) perm = (.ok, some s)) (x : V3 ℝ) (d0 : ℝ) :
    (∀ t ∈ tris, s.nearestTri (wallAt (localWall3 tris quads)) x d0 ≤ dist2tri t.1 t.2.1 t.2.2 x) ∧
    (∀ q ∈ quads, s.nearestTri (wallAt (localWall3 tris quads)) x d0 ≤ dist2tri q.1 q.2.1 q.2.2.1 x ∧
                  s.nearestTri (wallAt (localWall3 tris quads)) x d0 ≤ dist2tri q.1 q.2.2.1 q.2.2.2 x) := by
  obtain ⟨_, hle, _⟩ := wallDistance_tri_exact _ (wallAt (localWall3 tris quads)) perm s hw x d0
  have key : ∀ t ∈ localWall3 tris quads,
      s.nearestTri (wallAt (localWall3 tris quads)) x d0 ≤ dist2tri t.1 t.2.1 t.2.2 x := by
    intro t ht
    obtain ⟨k, hk, hget⟩ := List.getElem_of_mem ht
    have h1 := hle (k : Int) (hperm k hk)
    rw [wallAt_natCast _ k hk, hget] at h1
    exact h1
  refine ⟨fun t ht => key t ((localWall3_mem tris quads t).2 (.inl ht)), fun q hq => ⟨?_, ?_⟩⟩
  · have h := key (q.1, q.2.1, q.2.2.1) ((localWall3_mem tris quads _).2 (.inr ⟨q, hq, .inl rfl⟩))
    dsimp only at h
    exact h
  · have h := key (q.1, q.2.2.1, q.2.2.2) ((localWall3_mem tris quads _).2 (.inr ⟨q, hq, .inr rfl⟩))
    dsimp only at h
    exact h

/-! ### trim radius / nearest candidates -/

/-- `ref_search_trim` returns `min(t₀, minᵢ (dist x cᵢ + rᵢ))` when no radius is negative -/
theorem trim_exact (s : Search ℝ) (h : BallInv s.root) (hr : ∀ e ∈ s.root.pre, 0 ≤ e.rad) (x : V3 ℝ) (t0 : ℝ) :
    s.root.trim x t0 = (s.root.pre.map (fun e => edist e.pos x + e.rad)).foldl min t0 :=
  trim_eq x s.root t0 h hr

/-- `ref_search_nearest_candidates`: every sphere that reaches within the trim radius is a candidate -/
theorem nearestCandidates_sound (s : Search ℝ) (h : BallInv s.root) (x : V3 ℝ) (e : Entry ℝ)
    (he : e ∈ s.root.pre) (hov : edist e.pos x - e.rad ≤ s.trimRadius x) :
    e.item ∈ s.nearestCandidates x := by
  unfold Search.nearestCandidates
  rw [touching_exact s h]
  exact List.mem_map.mpr ⟨e, List.mem_filter.mpr ⟨he, by simp only [decide_eq_true_eq]; linarith⟩, rfl⟩

/-! ### `ref_search_distance2` -/

/-- the value is the distance to a point of the segment, in both branches (guard passed / "length zero") -/
theorem dist2seg_attained (p0 p1 x : V3 ℝ) : ∃ y, OnSeg p0 p1 y ∧ dist2seg p0 p1 x = edist x y :=
  Refine.Lemmas.Search.dist2seg_attained p0 p1 x

/-- the value is the true minimum distance to the segment whenever the divisible guard passes, and in the
    zero-length branch `p0 = p1` -/
theorem dist2seg_min (p0 p1 x : V3 ℝ) (hg : SegGuard p0 p1 x ∨ p0 = p1) (y : V3 ℝ) (hy : OnSeg p0 p1 y) :
    dist2seg p0 p1 x ≤ edist x y := by
  have := segSlack_mul_le p0 p1 x y hy
  rwa [segSlack_eq_one hg, one_mul] at this

/-- the guard passes unless the query is at least `1e20` segment lengths away … -/
theorem segGuard_of_close (p0 p1 x : V3 ℝ) (h : eps20 * edist x p0 < edist p0 p1) : SegGuard p0 p1 x :=
  Refine.Lemmas.Search.segGuard_of_close p0 p1 x h

/-- … and in that remaining branch (the C comment says "length zero", but it is also taken for a far query)
    the value is the distance to `p0`, within relative `1e-20` of the minimum: unconditionally
    `(1 - 1e-20) · value ≤ dist(x, y)` for every point `y` of the segment -/
theorem dist2seg_near_min (p0 p1 x y : V3 ℝ) (hy : OnSeg p0 p1 y) :
    (1 - eps20) * dist2seg p0 p1 x ≤ edist x y :=
  dist2seg_near p0 p1 x y hy

/-! ### `ref_search_distance3` -/

/-- the value is the distance to a point of the closed triangle (interior branch and edge fall-back) -/
theorem dist2tri_attained (p0 p1 p2 x : V3 ℝ) : ∃ y, InTri p0 p1 p2 y ∧ dist2tri p0 p1 p2 x = edist x y :=
  dist2triWith_attained tri3FootRepo tri3FootRepo_along p0 p1 p2 x

/-- FULL minimality over the closed triangle (interior included, degenerate triangles included):
    `triSlack · value ≤ dist(x, y)` for every `y` in the triangle, where `triSlack = 1` unless one of the
    three `ref_search_distance2` edge calls takes its far-field branch (then `1 - 1e-20`).
    The un-normalised normal used by the C for the projection is harmless in exact arithmetic. -/
theorem dist2tri_min (p0 p1 p2 x y : V3 ℝ) (hy : InTri p0 p1 p2 y) :
    triSlack p0 p1 p2 x * dist2tri p0 p1 p2 x ≤ edist x y :=
  dist2triWith_min tri3FootRepo tri3FootRepo_along p0 p1 p2 x y hy

/-- exact form: with the three edge guards passing (or zero-length edges) the value is the minimum -/
theorem dist2tri_min_exact (p0 p1 p2 x y : V3 ℝ) (h01 : SegGuard p0 p1 x ∨ p0 = p1)
    (h12 : SegGuard p1 p2 x ∨ p1 = p2) (h20 : SegGuard p2 p0 x ∨ p2 = p0) (hy : InTri p0 p1 p2 y) :
    dist2tri p0 p1 p2 x ≤ edist x y := by
  have := dist2tri_min p0 p1 p2 x y hy
  rwa [triSlack_eq_one h01 h12 h20, one_mul] at this

/-- unconditional form: never more than relative `1e-20` above the minimum -/
theorem dist2tri_near_min (p0 p1 p2 x y : V3 ℝ) (hy : InTri p0 p1 p2 y) :
    (1 - eps20) * dist2tri p0 p1 p2 x ≤ edist x y := by
  have h1 := dist2tri_min p0 p1 p2 x y hy
  have h2 := triSlack_ge p0 p1 p2 x
  have h3 := dist2triWith_nonneg tri3FootRepo tri3FootRepo_along p0 p1 p2 x
  unfold dist2tri at h1 ⊢
  nlinarith

/-- the same two facts for the candidate repair of the projection (`tri3FootFixed`), so that the model can
    be flipped in one line when the fix lands -/
theorem dist2triFixed_attained_min (p0 p1 p2 x : V3 ℝ) :
    (∃ y, InTri p0 p1 p2 y ∧ dist2triFixed p0 p1 p2 x = edist x y) ∧
    (∀ y, InTri p0 p1 p2 y → triSlack p0 p1 p2 x * dist2triFixed p0 p1 p2 x ≤ edist x y) :=
  ⟨dist2triWith_attained tri3FootFixed tri3FootFixed_along p0 p1 p2 x,
   fun y hy => dist2triWith_min tri3FootFixed tri3FootFixed_along p0 p1 p2 x y hy⟩

/-! ### bounding sphere -/

/-- `ref_node_bounding_sphere_xyz`: every vertex is within `radius` of `center` -/
theorem boundingSphere_contains (pts : List (V3 ℝ)) (p : V3 ℝ) (hp : p ∈ pts) :
    edist (boundingSphere pts).1 p ≤ (boundingSphere pts).2 :=
  sphereRadius_contains _ pts p hp

/-- hence (convexity of balls) every point of a segment / triangle element is inside its sphere, also
    after the `1 + 1e-8` inflation of `ref_phys_wall_distance` -/
theorem boundingSphere_contains_element (p0 p1 p2 : V3 ℝ) :
    (∀ y, OnSeg p0 p1 y →
      edist (boundingSphere [p0, p1]).1 y ≤ (inflate : ℝ) * (boundingSphere [p0, p1]).2) ∧
    (∀ y, InTri p0 p1 p2 y →
      edist (boundingSphere [p0, p1, p2]).1 y ≤ (inflate : ℝ) * (boundingSphere [p0, p1, p2]).2) := by
  have infl : ∀ r : ℝ, 0 ≤ r → r ≤ (inflate : ℝ) * r := fun r hr => by nlinarith [inflate_ge_one]
  constructor
  · intro y hy
    have hr := sphereRadius_nonneg (sphereCenter [p0, p1]) [p0, p1]
    have h0 := boundingSphere_contains [p0, p1] p0 (by simp)
    have h1 := boundingSphere_contains [p0, p1] p1 (by simp)
    exact le_trans (onSeg_in_ball _ _ _ _ h0 h1 y hy) (infl _ hr)
  · intro y hy
    have hr := sphereRadius_nonneg (sphereCenter [p0, p1, p2]) [p0, p1, p2]
    have h0 := boundingSphere_contains [p0, p1, p2] p0 (by simp)
    have h1 := boundingSphere_contains [p0, p1, p2] p1 (by simp)
    have h2 := boundingSphere_contains [p0, p1, p2] p2 (by simp)
    exact le_trans (inTri_in_ball _ _ _ _ _ h0 h1 h2 y hy) (infl _ hr)

/-! ### non-vacuity: the hypotheses above are met by concrete, non-trivial states -/

/-- three inserts after `ref_search_create(3)` give a three-node tree, and (`build_BallInv`) it satisfies the
    invariant that `touching_exact`, `nearest_exact`, `trim_exact` assume -/
example : ∃ s0 : Search ℝ, Search.create 3 = .ok s0 ∧
    (insertAll s0 [(7, ⟨0, 0, 0⟩, 1), (8, ⟨3, 0, 0⟩, 1), (9, ⟨0, 4, 0⟩, 2)]).root.pre.length = 3 ∧
    BallInv (insertAll s0 [(7, ⟨0, 0, 0⟩, 1), (8, ⟨3, 0, 0⟩, 1), (9, ⟨0, 4, 0⟩, 2)]).root := by
  refine ⟨⟨3, 0, .nil⟩, by simp [Search.create], ?_, build_BallInv 3 _ (by simp [Search.create]) _⟩
  simp [insertAll, Search.insert, STree.home, STree.pre, STree.leaf]

/-- the error branches are reachable too: a full tree answers `increase_limit`, a negative item `invalid` -/
example : ((⟨1, 1, STree.leaf ⟨0, 5, ⟨0, 0, 0⟩, 1⟩⟩ : Search ℝ).insert 6 ⟨1, 1, 1⟩ 1).1 = .increaseLimit ∧
    ((⟨2, 1, STree.leaf ⟨0, 5, ⟨0, 0, 0⟩, 1⟩⟩ : Search ℝ).insert (-6) ⟨1, 1, 1⟩ 1).1 = .invalid := by
  constructor <;> simp [Search.insert]

/-- the wall loop succeeds on a concrete two-segment wall inserted in the order 1,0: the hypothesis of
    `wallDistance_seg_exact` is met (and its conclusion then speaks about both segments) -/
example : ∃ s : Search ℝ,
    wallBuild 2 (fun c => if c = 0 then [⟨0, 0, 0⟩, ⟨1, 0, 0⟩] else [⟨1, 0, 0⟩, ⟨1, 2, 0⟩]) [1, 0] = (.ok, some s) := by
  simp [wallBuild, wallBuild.go, Search.create, Search.insert]

/-- likewise three wall triangles in the order 2,0,1 -/
example : ∃ s : Search ℝ,
    wallBuild 3 (fun c => [⟨(c : ℝ), 0, 0⟩, ⟨(c : ℝ) + 1, 0, 0⟩, ⟨(c : ℝ), 1, 0⟩]) [2, 0, 1] = (.ok, some s) := by
  simp [wallBuild, wallBuild.go, Search.create, Search.insert]

/-- the divisible guard of `ref_search_distance2` passes for an ordinary query … -/
example : SegGuard ⟨0, 0, 0⟩ ⟨1, 0, 0⟩ ⟨1 / 2, 1, 0⟩ := by
  unfold SegGuard
  rw [divisible_iff]
  norm_num [segP, segL]

/-- … and genuinely fails for a non-degenerate segment seen from `1e20` lengths away: the branch commented
    "length zero" in the C is also the far-field branch, which is why `dist2seg_near_min` carries `1 - 1e-20` -/
example : ¬ SegGuard ⟨0, 0, 0⟩ ⟨1, 0, 0⟩ ⟨10 ^ 20, 0, 0⟩ := by
  unfold SegGuard
  rw [divisible_iff]
  norm_num [segP, segL]

/-- the interior branch of `ref_search_distance3` is taken for a point above the unit right triangle -/
example : TriInterior ⟨0, 0, 0⟩ ⟨1, 0, 0⟩ ⟨0, 1, 0⟩ ⟨1 / 4, 1 / 4, 1⟩ := by
  unfold TriInterior
  simp only [Bool.and_eq_true, divisible_iff, le_iff]
  norm_num [baryR, nrm, rdot]

/-- and the edge fall-back for a point beyond the hypotenuse -/
example : ¬ TriInterior ⟨0, 0, 0⟩ ⟨1, 0, 0⟩ ⟨0, 1, 0⟩ ⟨1, 1, 1⟩ := by
  unfold TriInterior
  simp only [Bool.and_eq_true, divisible_iff, le_iff]
  norm_num [baryR, nrm, rdot]

/-- every vertex, edge point and convex combination is a legitimate `y` for `dist2tri_min` -/
example (p0 p1 p2 : V3 ℝ) : InTri p0 p1 p2 p0 ∧ InTri p0 p1 p2 (comb3 p0 p1 p2 (1 / 3) (1 / 3) (1 / 3)) :=
  ⟨inTri_of_onSeg01 (onSeg_left p0 p1), ⟨1 / 3, 1 / 3, 1 / 3, by norm_num, by norm_num, by norm_num, by norm_num, rfl⟩⟩

/-- `boundingSphere_contains` is about every listed vertex -/
example (a b c : V3 ℝ) : edist (boundingSphere [a, b, c]).1 c ≤ (boundingSphere [a, b, c]).2 :=
  boundingSphere_contains [a, b, c] c (by simp)

end Refine.Props.C12
