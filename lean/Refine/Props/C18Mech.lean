import Refine.Lemmas.ReproEdge
import Refine.Lemmas.ReproSchedNative
import Refine.Lemmas.ReproSchedSpec
import Refine.Gen.SideConds
import Refine.Gen.ReproConds

/-!
  C18 — reproducibility, the MECHANISMS that are logic (PARTIAL claim; see `checks/c18.py`).

  (a) `ref_edge_create`: the edge numbering is a function of the ordered list of live cells — nothing else of the
      cell stores (free-list threading, adjacency chains, stale rows, add/remove history) is read.
  (b) tagged point-to-point exchanges (`ref_mpi_alltoallv_native`, the rank-0 scatter / gather loops): the
      receive buffers do not depend on the order in which messages are DELIVERED nor on the order in which
      `MPI_Waitall` COMPLETES the receives.  Every receive names (source, tag): generated side condition below.
  (c) the generated side conditions the argument rests on: no wildcard receive, no seeding of the libc random
      stream, the known consumers of `rand()`, no pointer value used as an integer.

  NOT here (runtime clause, only exercised by streams `cli_repro` / `cli_memcheck`): uninitialised memory,
  address-space layout, the actual libc `rand()` sequence, MPI's own progress engine.

  HOOK (package `rcb`, separate clone, merged by the integrator): the native RCB partitioner
  (`ref_migrate_native_rcb_part`, `src/ref_migrate.c` ~556-611) consumes 1 (2-D) or 3 (3-D) values of the `rand()`
  stream on rank 0 per call and is otherwise deterministic.  It is deliberately NOT modelled here.  Package `rcb`
  provides `Refine.Model.Rcb.rcbPart` with the stream as an explicit `rands : List Nat` and, in
  `Refine.Props.C04Rcb`, `rcb_part_deterministic` (the new part of a vertex is a function of the owned-coordinate
  multiset, the rand values, seed, twod, npart, np — not of rank distribution, slot order or ids),
  `rcb_part_total` / `rcb_new_part_ok` (every owned slot is written exactly once, inside `[0, npart)`, for ANY
  stream) and the tie `rcb_fn` / `rcb_balance` (harness-defined `rand()`).  Once merged, add
  `'Refine.Props.C04Rcb'` to `PROPS_MODULE` and its streams to `STREAMS` in `checks/c18.py`.
-/
namespace Refine.Props.C18Mech
open Refine.Model.CellStore Refine.Model.ReproEdge Refine.Model.ReproEdge.EdgeSt
open Refine.Model.NodeIds (Status)

/-! ## (a) `ref_edge_create` -/

/-- every node the edge loop reads is a real node (true of every store satisfying `CellInv`: `gridOk_of_inv`) -/
def GridOk (groups : List CellStore) : Prop := ∀ p ∈ gridPairs groups, 0 ≤ p.1 ∧ 0 ≤ p.2

/-- the adjacency-chain lookup of `ref_edge_with` is equivalent to list membership: `ref_edge_create` never
    fails and its `e2n` is the specification fold "append the pair unless already listed in either orientation"
    over the pairs in loop order -/
theorem edgeCreate_eq_spec (groups : List CellStore) (h : GridOk groups) :
    (edgeCreate groups).1 = .ok ∧ (edgeCreate groups).2.e2n = specEdges (gridPairs groups) := by
  obtain ⟨h1, _, h3⟩ := uniqAll_spec (gridPairs groups) empty_inv h
  exact ⟨h1, h3⟩

/-- **every undirected cell edge is numbered exactly once** -/
theorem edgeCreate_each_cell_edge_once (groups : List CellStore) (h : GridOk groups) {p : Int × Int}
    (hp : p ∈ gridPairs groups) :
    (edgeCreate groups).2.e2n.countP (fun q => edgeMatch q p.1 p.2) = 1 := by
  rw [(edgeCreate_eq_spec groups h).2]
  exact specEdges_count_one _ hp

/-- the numbering is the order of first appearance in the loop nest (a subsequence of the visited pairs, so every
    listed edge is a cell edge, oriented as first seen) -/
theorem edgeCreate_first_seen_order (groups : List CellStore) (h : GridOk groups) :
    (edgeCreate groups).2.e2n.Sublist (gridPairs groups) := by
  rw [(edgeCreate_eq_spec groups h).2]
  exact specEdges_sublist _

/-- **the edge numbering depends only on the ordered list of live cells**: two grids whose cell stores have the
    same `e2n` tables and the same live-cell sequences (slot order, node lists) get the same `ref_edge` — whatever
    their free lists, adjacency chains, stale rows, capacities or add/remove histories are.  No invariant is
    assumed (error statuses included). -/
theorem edgeCreate_depends_only_on_live_sequence (g1 g2 : List CellStore)
    (h1 : ∀ s ∈ g1, E2nInRange s) (h2 : ∀ s ∈ g2, E2nInRange s)
    (hk : g1.map liveKey = g2.map liveKey) : edgeCreate g1 = edgeCreate g2 := by
  unfold edgeCreate
  rw [gridPairs_eq g1 h1, gridPairs_eq g2 h2, hk]

/-- the `e2n` tables generated from `ref_cell_initialize` address real cell nodes, for all 16 cell types -/
theorem tables_in_range : ∀ t ∈ Refine.Gen.CellTables.all, E2nInRange (CellStore.create t) := by
  have h : ∀ t ∈ Refine.Gen.CellTables.all, ∀ ab ∈ (CellStore.create t).e2n,
      ab.1 < (CellStore.create t).nodePer ∧ ab.2 < (CellStore.create t).nodePer := by decide
  exact h

/-- `GridOk` holds for stores satisfying the cell-store invariant of C14 (`CellInv`: preserved by every
    `ref_cell_add` / `ref_cell_remove` / `replace`, `Props/C14NodeCell`) -/
theorem gridOk_of_inv (groups : List CellStore) (h : ∀ s ∈ groups, CellStore.CellInv s ∧ E2nInRange s) : GridOk groups := by
  intro p hp
  unfold gridPairs at hp
  rw [List.mem_flatMap] at hp
  obtain ⟨s, hs, hps⟩ := hp
  have hmem : s ∈ groups := by
    rw [List.mem_append] at hs
    rcases hs with hs | hs
    · exact List.mem_of_mem_drop (List.mem_of_mem_take hs)
    · exact List.mem_of_mem_drop (List.mem_of_mem_take hs)
  obtain ⟨hinv, hrange⟩ := h s hmem
  unfold cellEdgePairs at hps
  rw [List.mem_flatMap] at hps
  obtain ⟨c, hc, hpc⟩ := hps
  rw [List.mem_filter] at hc
  rw [List.mem_map] at hpc
  obtain ⟨ab, hab, rfl⟩ := hpc
  obtain ⟨ra, rb⟩ := hrange ab hab
  have hlen := CellStore.cellNodes_length hinv hc.2
  have key : ∀ k, k < s.nodePer → 0 ≤ s.c2nAt k c := by
    intro k hk
    apply hinv.nonneg (c : Int) hc.2
    have : s.c2nAt k c = (s.cellNodes (c : Int))[k]'(by rw [hlen]; exact hk) := by
      simp only [CellStore.c2nAt, CellStore.cellNodes, Int.toNat_natCast, List.getElem_take]
      rw [List.getD_eq_getElem?_getD, List.getElem?_eq_getElem]
      rfl
    rw [this]
    exact List.getElem_mem _
  exact ⟨key _ ra, key _ rb⟩

/-! ### non-vacuity: concrete histories (a 4-row triangle store; groups 0..2 are not visited) -/

def smallTri : CellStore :=
  { nodePer := 3, sizePer := 4, e2n := [(0, 1), (1, 2), (2, 0)], n := 0, blank := 0,
    c2n := CellStore.freeRows 4 0 4, adj := Adj.create }
def dummy : CellStore := { nodePer := 2, sizePer := 3, e2n := [], n := 0, blank := -1, c2n := [], adj := Adj.create }
def grid (s : CellStore) : List CellStore := [dummy, dummy, dummy, s]

/-- history 1: add two triangles -/
def hist1 : CellStore := ((smallTri.add [0, 1, 2, 7]).2.2.add [2, 1, 3, 7]).2.2
/-- history 2: add a junk cell first, remove it, add the two triangles (the first lands in the freed slot), add
    another junk cell and remove it: different adjacency chains and free list, same live sequence -/
def hist2 : CellStore :=
  (((((((smallTri.add [5, 6, 4, 9]).2.2.remove 0).2.add [0, 1, 2, 7]).2.2.add [2, 1, 3, 7]).2.2.add [9, 8, 7, 1]).2.2).remove 2).2
/-- history 3: the same two triangles added in the other order -/
def hist3 : CellStore := ((smallTri.add [2, 1, 3, 7]).2.2.add [0, 1, 2, 7]).2.2

example : (edgeCreate (grid hist1)).2.e2n = [(0, 1), (1, 2), (2, 0), (1, 3), (3, 2)] := by decide
example : hist1 ≠ hist2 ∧ liveKey hist1 = liveKey hist2 ∧ edgeCreate (grid hist1) = edgeCreate (grid hist2) := by decide
/-- a different live ORDER gives a different numbering (same undirected edge set): the order is what matters -/
example : (edgeCreate (grid hist3)).2.e2n = [(2, 1), (1, 3), (3, 2), (0, 1), (2, 0)] := by decide
/-- the error branch is modelled: a live cell with a negative node makes `ref_edge_create` return REF_INVALID -/
example : (edgeCreate (grid (smallTri.add [0, -2, 2, 7]).2.2)).1 = .invalid := by decide

/-! ## (b) delivery order and completion order of tagged point-to-point exchanges -/

section Sched
open Refine.Model.Comm Refine.Model.ReproSched
variable {α : Type}

/-- every receive in refine's sources names its source and its tag: no `MPI_ANY_SOURCE`, `MPI_ANY_TAG`,
    `MPI_Probe`, `MPI_Iprobe`, `MPI_Waitany` (generated from the current sources on every run).  This is what
    entitles the model's `Rcv` to carry an explicit (source, tag). -/
theorem receives_name_source_and_tag :
    Refine.Gen.SideConds.wildcardReceives = 0 ∧ 0 < Refine.Gen.SideConds.pointToPointCalls := by decide

/-- MPI matching on a rank (receives in posted order, each taking the earliest-arrived unmatched message of its
    (source, tag)) depends only on the per-(source, tag) subsequences of its mailbox -/
theorem matching_depends_only_on_fifo_subsequences (rqs : List Rcv) (mb1 mb2 : List (Env α))
    (h : ∀ s t, mb1.filter (hasKey s t) = mb2.filter (hasKey s t)) : matchRecvs mb1 rqs = matchRecvs mb2 rqs :=
  matchRecvs_congr rqs mb1 mb2 h

/-- when at most one message per (source, dest, tag) is in flight, ANY two delivery orders of the same messages
    are FIFO-equal: no ordering guarantee of the network is needed at all -/
theorem any_order_is_fifo_equal_when_triples_distinct {a1 a2 : List (Env α)} (hp : a1.Perm a2)
    (hn : (a2.map key3).Nodup) : FifoEq a1 a2 :=
  fifoEq_of_perm_nodup hp hn

/-- `MPI_Waitall`: deposits into pairwise disjoint, in-bounds regions leave the same buffer in any completion order -/
theorem disjoint_deposits_commute {N : Nat} (pairs : List (Rcv × Env α)) (hin : ∀ pr ∈ pairs, InBounds N pr)
    (hdis : ∀ (i j : Nat) (p q : Rcv × Env α), i ≠ j → pairs[i]? = some p → pairs[j]? = some q → Disjoint p q)
    {o1 o2 : List Nat} (hp : o1.Perm o2) (buf : List α) (hb : buf.length = N) :
    complete pairs o1 buf = complete pairs o2 buf :=
  complete_perm pairs hin hdis hp buf hb

/-- **schedule independence of a tagged point-to-point exchange**: FIFO-equal delivery orders and arbitrary
    completion orders (permutations of each other) give the same status and receive buffer on every rank, when
    every rank's posted receives address pairwise disjoint regions inside its buffer -/
theorem p2p_schedule_independent (w : World (Posted α)) (a1 a2 : List (Env α)) (c1 c2 : Nat → List Nat)
    (hf : FifoEq a1 a2) (hc : ∀ r, (c1 r).Perm (c2 r)) (hok : ∀ p ∈ w, RecvsOk p.buf.length p.rcvs) :
    p2pSched a1 c1 w = p2pSched a2 c2 w :=
  p2pSched_congr w a1 a2 c1 c2 hf hc hok

/-- the posted world of `ref_mpi_alltoallv_native` (exactly the one `Refine.Model.Comm.alltoallvNative` exchanges) -/
def nativeWorld (ty : RefType) (maxTag n : Int) (w : World (A2A α)) : World (Posted α) :=
  w.mapIdx fun r a => nativePost ty (w.length : Int) maxTag (r : Int) n a

theorem alltoallvNative_is_exchange_of_nativeWorld (ty : RefType) (maxTag n : Int) (w : World (A2A α)) :
    alltoallvNative ty maxTag n w = p2pExchange (nativeWorld ty maxTag n w) := rfl

/-- in the native all-to-all at most one message per (source, dest, tag) is in flight -/
theorem nativeWorld_triples_distinct (ty : RefType) (maxTag n : Int) (w : World (A2A α)) :
    ((allMsgs (nativeWorld ty maxTag n w)).map key3).Nodup := by
  apply allMsgs_nodup
  intro p hp
  unfold nativeWorld at hp
  rw [List.mem_mapIdx] at hp
  obtain ⟨i, hi, rfl⟩ := hp
  exact nativePost_msgs_nodup ty _ maxTag _ n _

/-- **`ref_mpi_alltoallv_native` is independent of message delivery order and of `MPI_Waitall` completion order**:
    for ANY two delivery orders of the posted messages (arbitrary permutations — no FIFO assumption is needed,
    the tag scheme makes the triples distinct) and ANY two completion orders on every rank, the statuses and
    receive buffers agree.  Hypotheses: item size and counts non-negative, receive buffers as large as the
    counts say (the C's own requirement). -/
theorem alltoallv_native_schedule_independent (ty : RefType) (maxTag n : Int) (w : World (A2A α)) (hn : 0 ≤ n)
    (hw : ∀ a ∈ w, (∀ s ∈ a.recvSize, 0 ≤ s) ∧ n * a.recvSize.sum ≤ (a.recv.length : Int))
    (a1 a2 : List (Env α)) (h1 : a1.Perm (allMsgs (nativeWorld ty maxTag n w)))
    (h2 : a2.Perm (allMsgs (nativeWorld ty maxTag n w)))
    (c1 c2 : Nat → List Nat) (hc : ∀ r, (c1 r).Perm (c2 r)) :
    p2pSched a1 c1 (nativeWorld ty maxTag n w) = p2pSched a2 c2 (nativeWorld ty maxTag n w) := by
  apply p2pSched_congr _ _ _ _ _ _ hc
  · intro p hp
    unfold nativeWorld at hp
    rw [List.mem_mapIdx] at hp
    obtain ⟨i, hi, rfl⟩ := hp
    obtain ⟨hs, hl⟩ := hw w[i] (List.getElem_mem hi)
    exact nativePost_recvsOk ty _ maxTag _ n hn _ hs hl
  · apply fifoEq_of_perm_nodup (h1.trans h2.symm)
    exact (h2.map key3).nodup_iff.2 (nativeWorld_triples_distinct ty maxTag n w)

/-- the function the driver `repro` executes against the real `ref_mpi.c` (pseudo-random delivery and completion
    orders derived from `seed`) does not depend on `seed` -/
theorem alltoallvNativeSched_seed_independent (seed1 seed2 : Nat) (ty : RefType) (maxTag n : Int)
    (w : World (A2A α)) (hn : 0 ≤ n)
    (hw : ∀ a ∈ w, (∀ s ∈ a.recvSize, 0 ≤ s) ∧ n * a.recvSize.sum ≤ (a.recv.length : Int)) :
    alltoallvNativeSched seed1 ty maxTag n w = alltoallvNativeSched seed2 ty maxTag n w := by
  unfold alltoallvNativeSched
  exact alltoallv_native_schedule_independent ty maxTag n w hn hw _ _ (shuffled_perm _ _) (shuffled_perm _ _) _ _
    (fun r => (permOf_perm _ _).trans (permOf_perm _ _).symm)

/-! rank-0 loops: blocking `MPI_Send` / `MPI_Recv`, the receives complete in posted order -/

theorem scatter_is_exchange_of_scatterPosted [Inhabited α] (ty : RefType) (maxTag : Int) (chunks : List (List α)) :
    scatter ty maxTag chunks = p2pExchange (scatterPosted ty maxTag chunks) := rfl

theorem gather_is_exchange_of_gatherPosted [Inhabited α] (ty : RefType) (maxTag : Int) (w : World (List α)) :
    gather ty maxTag w = p2pExchange (gatherPosted ty maxTag w) := rfl

/-- the rank-0 gather loop (`ref_mpi_gather_send` on the workers, `ref_mpi_gather_recv` from worker 1, 2, … on
    rank 0): whatever order the workers' messages arrive in, rank 0 ends with the same buffer -/
theorem gather_schedule_independent [Inhabited α] (ty : RefType) (maxTag : Int) (w : World (List α))
    (a1 a2 : List (Env α)) (h1 : a1.Perm (allMsgs (gatherPosted ty maxTag w)))
    (h2 : a2.Perm (allMsgs (gatherPosted ty maxTag w))) (c : Nat → List Nat) :
    p2pSched a1 c (gatherPosted ty maxTag w) = p2pSched a2 c (gatherPosted ty maxTag w) := by
  apply p2pSched_congr_arrival
  apply fifoEq_of_perm_nodup (h1.trans h2.symm)
  exact (h2.map key3).nodup_iff.2 (allMsgs_nodup _ (gatherPosted_msgs_nodup ty maxTag w))

/-- the rank-0 scatter loop (`ref_mpi_scatter_send` to worker 1, 2, …; one `ref_mpi_scatter_recv` per worker) -/
theorem scatter_schedule_independent [Inhabited α] (ty : RefType) (maxTag : Int) (chunks : List (List α))
    (a1 a2 : List (Env α)) (h1 : a1.Perm (allMsgs (scatterPosted ty maxTag chunks)))
    (h2 : a2.Perm (allMsgs (scatterPosted ty maxTag chunks))) (c : Nat → List Nat) :
    p2pSched a1 c (scatterPosted ty maxTag chunks) = p2pSched a2 c (scatterPosted ty maxTag chunks) := by
  apply p2pSched_congr_arrival
  apply fifoEq_of_perm_nodup (h1.trans h2.symm)
  exact (h2.map key3).nodup_iff.2 (allMsgs_nodup _ (scatterPosted_msgs_nodup ty maxTag chunks))

theorem scatterSched_seed_independent [Inhabited α] (seed1 seed2 : Nat) (ty : RefType) (maxTag : Int)
    (chunks : List (List α)) : scatterSched seed1 ty maxTag chunks = scatterSched seed2 ty maxTag chunks := by
  unfold scatterSched
  exact scatter_schedule_independent ty maxTag chunks _ _ (shuffled_perm _ _) (shuffled_perm _ _) _

theorem gatherSched_seed_independent [Inhabited α] (seed1 seed2 : Nat) (ty : RefType) (maxTag : Int)
    (w : World (List α)) : gatherSched seed1 ty maxTag w = gatherSched seed2 ty maxTag w := by
  unfold gatherSched
  exact gather_schedule_independent ty maxTag w _ _ (shuffled_perm _ _) (shuffled_perm _ _) _

/-! the common value of all schedules is the order-free matcher `p2pExchange` that C17's theorems are about -/

/-- **every schedule computes `p2pExchange`**: any delivery permutation of the posted messages, any completion
    permutation on every rank, when every rank sends to pairwise distinct (dest, tag), receives from pairwise
    distinct (source, tag) and its receives address disjoint in-bounds regions -/
theorem p2p_every_schedule_is_the_exchange (w : World (Posted α)) (a : List (Env α)) (c : Nat → List Nat)
    (ha : a.Perm (allMsgs w)) (hc : ∀ r, (c r).Perm (canonOrder w r))
    (hmsg : ∀ p ∈ w, (p.msgs.map fun m => (m.dest, m.tag)).Nodup)
    (hr : ∀ p ∈ w, (p.rcvs.map fun rq => (rq.source, rq.tag)).Nodup)
    (hok : ∀ p ∈ w, RecvsOk p.buf.length p.rcvs) :
    p2pSched a c w = p2pExchange w :=
  p2pSched_eq_p2pExchange w a c ha hc hmsg hr hok

/-- the scheduled native all-to-all the driver `repro` runs IS `Refine.Model.Comm.alltoallvNative` (the function of
    C17's `alltoallv_native_spec`), for every seed -/
theorem alltoallvNativeSched_eq_alltoallvNative (seed : Nat) (ty : RefType) (maxTag n : Int) (w : World (A2A α))
    (hn : 0 ≤ n) (hw : ∀ a ∈ w, (∀ s ∈ a.recvSize, 0 ≤ s) ∧ n * a.recvSize.sum ≤ (a.recv.length : Int)) :
    alltoallvNativeSched seed ty maxTag n w = alltoallvNative ty maxTag n w := by
  rw [alltoallvNative_is_exchange_of_nativeWorld]
  unfold alltoallvNativeSched
  show p2pSched _ _ (nativeWorld ty maxTag n w) = _
  have hmem : ∀ p ∈ nativeWorld ty maxTag n w, ∃ (i : Nat) (hi : i < w.length),
      p = nativePost ty (w.length : Int) maxTag (i : Int) n w[i] := by
    intro p hp
    unfold nativeWorld at hp
    rw [List.mem_mapIdx] at hp
    obtain ⟨i, hi, rfl⟩ := hp
    exact ⟨i, hi, rfl⟩
  apply p2pSched_eq_p2pExchange
  · exact shuffled_perm _ _
  · intro r
    rw [canonOrder_eq_getD]
    exact permOf_perm _ _
  · intro p hp
    obtain ⟨i, hi, rfl⟩ := hmem p hp
    exact nativePost_msgs_nodup ty _ maxTag _ n _
  · intro p hp
    obtain ⟨i, hi, rfl⟩ := hmem p hp
    exact nativePost_rcvs_nodup ty _ maxTag _ n _
  · intro p hp
    obtain ⟨i, hi, rfl⟩ := hmem p hp
    obtain ⟨hs, hl⟩ := hw w[i] (List.getElem_mem hi)
    exact nativePost_recvsOk ty _ maxTag _ n hn _ hs hl

/-- the scheduled rank-0 gather loop IS `Refine.Model.Comm.gather` (C17's `gather_spec`), for every seed -/
theorem gatherSched_eq_gather [Inhabited α] (seed : Nat) (ty : RefType) (maxTag : Int) (w : World (List α)) :
    gatherSched seed ty maxTag w = gather ty maxTag w := by
  rw [gather_is_exchange_of_gatherPosted]
  unfold gatherSched
  have hc : (fun r => List.range (((gatherPosted ty maxTag w).getD r ⟨Refine.Model.Comm.Status.ok, [], [], []⟩).rcvs.length))
      = canonOrder (gatherPosted ty maxTag w) := by
    funext r; rw [canonOrder_eq_getD]
  show p2pSched _ (fun r => List.range (((gatherPosted ty maxTag w).getD r ⟨Refine.Model.Comm.Status.ok, [], [], []⟩).rcvs.length))
    (gatherPosted ty maxTag w) = _
  rw [hc]
  exact p2pSched_eq_p2pExchange_blocking _ _ (shuffled_perm _ _) (gatherPosted_msgs_nodup ty maxTag w)
    (gatherPosted_rcvs_nodup ty maxTag w)

/-- the scheduled rank-0 scatter loop IS `Refine.Model.Comm.scatter` (C17's `scatter_spec`), for every seed -/
theorem scatterSched_eq_scatter [Inhabited α] (seed : Nat) (ty : RefType) (maxTag : Int) (chunks : List (List α)) :
    scatterSched seed ty maxTag chunks = scatter ty maxTag chunks := by
  rw [scatter_is_exchange_of_scatterPosted]
  unfold scatterSched
  have hc : (fun r => List.range (((scatterPosted ty maxTag chunks).getD r ⟨Refine.Model.Comm.Status.ok, [], [], []⟩).rcvs.length))
      = canonOrder (scatterPosted ty maxTag chunks) := by
    funext r; rw [canonOrder_eq_getD]
  show p2pSched _ (fun r => List.range (((scatterPosted ty maxTag chunks).getD r ⟨Refine.Model.Comm.Status.ok, [], [], []⟩).rcvs.length))
    (scatterPosted ty maxTag chunks) = _
  rw [hc]
  exact p2pSched_eq_p2pExchange_blocking _ _ (shuffled_perm _ _) (scatterPosted_msgs_nodup ty maxTag chunks)
    (scatterPosted_rcvs_nodup ty maxTag chunks)

/-! ### non-vacuity: a 3-rank exchange; two seeds give different schedules and the answer is C17's -/

def exA2A : World (A2A Int) :=
  [⟨[10, 11, 12, 13], [1, 2, 1], [0, 0, 0], [1, 1, 1]⟩,
   ⟨[20, 21], [1, 0, 1], [0, 0, 0], [2, 0, 1]⟩,
   ⟨[30, 31, 32], [1, 1, 1], [0, 0, 0], [1, 1, 1]⟩]

example : (shuffled 5 (allMsgs (nativeWorld .int 1000 1 exA2A))).map key3
    ≠ (shuffled 6 (allMsgs (nativeWorld .int 1000 1 exA2A))).map key3 := by decide
example : alltoallvNativeSched 5 .int 1000 1 exA2A = alltoallvNative .int 1000 1 exA2A := by decide
example : alltoallvNativeSched 6 .int 1000 1 exA2A
    = some [(.ok, [10, 20, 30]), (.ok, [11, 12, 31]), (.ok, [13, 21, 32])] := by decide
example : gatherSched 3 .int 1000 [[1], [2, 3], [], [4]] = gather .int 1000 [[1], [2, 3], [], [4]] := by decide
example : scatterSched 9 .int 1000 [[1], [2, 3], [], [4]] = scatter .int 1000 [[1], [2, 3], [], [4]] := by decide
/-- overlapping receive regions DO make the result depend on the completion order (the hypothesis is needed) -/
example : complete [(⟨0, 0, 0, 2⟩, ⟨0, 0, 0, [1, 1]⟩), (⟨1, 1, 1, 2⟩, ⟨1, 0, 1, [2, 2]⟩)] [0, 1] [0, 0, 0]
    ≠ complete [(⟨0, 0, 0, 2⟩, (⟨0, 0, 0, [1, 1]⟩ : Env Int)), (⟨1, 1, 1, 2⟩, ⟨1, 0, 1, [2, 2]⟩)] [1, 0] [0, 0, 0] := by
  decide

end Sched

/-! ## (c) generated side conditions -/

/-- no call seeds a libc random stream anywhere in the sources (`srand`, `srandom`, `srand48`, `seed48`,
    `initstate`, `setstate`, `lcong48`): `rand()` therefore yields the same sequence in every run of the same
    binary (the libc fact itself is an ASSUMPTION) -/
theorem rand_stream_never_seeded :
    Refine.Gen.ReproConds.seedCalls = 0 ∧ 50 < Refine.Gen.ReproConds.filesScanned := by decide

/-- the only consumers of the `rand()` stream are `ref_sort.c` (shuffle / rand_in_range: the search-tree insertion
    order, proved irrelevant for the wall distance in `Props/C18`), `ref_migrate.c` (RCB rotation on rank 0) and
    `ref_interp.c` (two tie-breaking picks of the donor walk); a new consumer breaks this obligation -/
theorem rand_consumers_are_known :
    Refine.Gen.ReproConds.randFiles = ["ref_interp.c", "ref_migrate.c", "ref_sort.c"] := by decide

/-- no pointer value is used as an integer (`uintptr_t` / `intptr_t`) and libc `qsort` (whose comparator is where an
    address order would enter) is not called -/
theorem no_address_as_integer :
    Refine.Gen.ReproConds.addrIntUses = 0 ∧ Refine.Gen.ReproConds.qsortCalls = 0 := by decide

end Refine.Props.C18Mech
