import Refine.Model.Unit
import Refine.Lemmas.Unit

/-!
  C03 (the part that is logic).  The property says that `ref adapt` *reaches* a quasi-unit mesh; that is an
  empirical statement about a heuristic search and has no theorem here (it is oracled: stream `cli_quasiunit`).
  What is proved, about the executable model `Refine.Model.Unit` whose `Float` instance is compared with the C:

  * the parameters `ref_adapt_parameter` derives are ordered: `post_min ≤ min(measured min, collapse_ratio)`,
    `max(measured max, previous split_ratio) = post_max`, `collapse_ratio < split_ratio`, quality floors in
    `[1e-3, 0.1]`; the two natural relations that do NOT hold for all inputs are stated with their exact
    condition and a counter-example each (`split_ratio > 1` needs `max_ratio > 2 - √2`;
    `split_ratio ≤ post_max` needs the previous `split_ratio ≥ √2`);
  * every accepted local operation is guarded by the ratio band: if the guard says yes, every edge it creates or
    changes lies in the band (split, smoothing, swap, cavity) resp. in the band widened by the extremes of the
    edges that disappear (collapse fall-back) — and the guard measures *every* edge the operation changes;
  * hence, by induction over operation histories, "all edges in the band" and "all cells above the quality floor"
    are invariants of accepted splits, collapses and vertex moves under a fixed band;
  * selection soundness: only edges longer than `split_ratio` are scheduled for splitting, only vertices with an
    incident edge shorter than `collapse_ratio` for removal, and no edge is both.
  Exact real arithmetic; rounding is modelled (Float instance, bit-compared), not verified.
-/
namespace Refine.Props.C03
open Refine Refine.Model.Geom Refine.Model.Unit Refine.ScalarReal Refine.UnitReal

/-! ## parameters -/

theorem derivePostMin_le (cr pmax mr : ℝ) : derivePostMin cr pmax mr ≤ min mr cr := by
  unfold derivePostMin
  simp only [cmin_eq, Bool.and_eq_true, lt_iff, ofInt_eq, ofDec_eq, mul_eq, div_eq]
  generalize min mr cr = p0
  norm_num
  split_ifs with h1 h2 h2
  · linarith [h1.1, h2.1.1]
  · obtain ⟨h1a, h1b⟩ := h1
    have hp : 0 < pmax := by linarith
    have : 4 / pmax * p0 ≤ 1 * p0 := by
      apply mul_le_mul_of_nonneg_right _ (by linarith)
      rw [div_le_one hp]; linarith
    linarith
  · obtain ⟨⟨h2a, h2b⟩, h2c⟩ := h2
    have hp : 0 < pmax := by linarith
    have : 7 / 5 / pmax * p0 ≤ 1 * p0 := by
      apply mul_le_mul_of_nonneg_right _ (by linarith)
      rw [div_le_one hp]; linarith
    linarith
  · exact le_refl _

theorem derivePostMin_pos (cr pmax mr : ℝ) (h : 0 < min mr cr) : 0 < derivePostMin cr pmax mr := by
  unfold derivePostMin
  simp only [cmin_eq, Bool.and_eq_true, lt_iff, ofInt_eq, ofDec_eq, mul_eq, div_eq]
  revert h
  generalize min mr cr = p0
  intro h
  norm_num
  split_ifs with h1 h2 h2
  · have hp : 0 < pmax := by linarith [h1.1]
    positivity
  · have hp : 0 < pmax := by linarith [h1.1]
    positivity
  · have hp : 0 < pmax := by linarith [h2.1.2]
    positivity
  · exact h

theorem clampTarget_range (x : ℝ) : (1 : ℝ) / 1000 ≤ clampTarget x ∧ clampTarget x ≤ 1 / 10 := by
  unfold clampTarget
  simp only [cmin_eq, cmax_eq, ofDec_eq]
  norm_num

theorem sqrt2_eq : (sqrt2 : ℝ) = Real.sqrt 2 := by
  unfold sqrt2
  simp only [sqrt_eq, ofInt_eq]
  norm_num

theorem sqrt2_bounds : (1.4 : ℝ) < Real.sqrt 2 ∧ Real.sqrt 2 < 1.5 := by
  constructor
  · rw [show (1.4 : ℝ) = Real.sqrt (1.4 ^ 2) by rw [Real.sqrt_sq (by norm_num)]]
    exact Real.sqrt_lt_sqrt (by norm_num) (by norm_num)
  · rw [show (1.5 : ℝ) = Real.sqrt (1.5 ^ 2) by rw [Real.sqrt_sq (by norm_num)]]
    exact Real.sqrt_lt_sqrt (by norm_num) (by norm_num)

/-- the value `split_ratio` takes -/
theorem deriveSplit_cases (m : Measured ℝ) :
    deriveSplit m = Real.sqrt 2 ∨ deriveSplit m = (Real.sqrt 2 + m.maxRatio) / 2 := by
  unfold deriveSplit
  rw [sqrt2_eq]
  split_ifs
  · right
    simp only [half, ofDec_eq, mul_eq, add_eq]
    norm_num
    ring
  · left; rfl

/-- **Order relations of the derived parameters, for all inputs.**  With `a' = ref_adapt_parameter(a, measured)`:
    the band contains the measured range and the selection thresholds it was built from
    (`post_min ≤ min_ratio`, `post_min ≤ collapse_ratio`, `max_ratio ≤ post_max`, previous `split_ratio ≤ post_max`),
    `collapse_ratio` is not touched, the quality floors lie in `[1e-3, 0.1]`, the new `split_ratio` lies between
    `min(√2, max_ratio)` and `max(√2, max_ratio)`, and `last_*` record the band. -/
theorem adaptParameter_band (a : Adapt ℝ) (m : Measured ℝ) :
    let a' := (adaptParameter a m).1
    a'.postMin ≤ m.minRatio ∧ a'.postMin ≤ a'.collapseRatio ∧ a'.collapseRatio = a.collapseRatio ∧
    m.maxRatio ≤ a'.postMax ∧ a.splitRatio ≤ a'.postMax ∧
    min (Real.sqrt 2) m.maxRatio ≤ a'.splitRatio ∧ a'.splitRatio ≤ max (Real.sqrt 2) m.maxRatio ∧
    (1 : ℝ) / 1000 ≤ a'.collapseQualityAbs ∧ a'.collapseQualityAbs ≤ 1 / 10 ∧
    a'.smoothMinQuality = a'.collapseQualityAbs ∧ a'.splitQualityAbs = a.splitQualityAbs ∧
    a'.lastMin = a'.postMin ∧ a'.lastMax = a'.postMax := by
  intro a'
  have hle := derivePostMin_le a.collapseRatio (Scalar.cmax m.maxRatio a.splitRatio) m.minRatio
  have hq := clampTarget_range m.minQuality
  refine ⟨hle.trans (min_le_left _ _), hle.trans (min_le_right _ _), rfl, ?_, ?_, ?_, ?_, hq.1, hq.2, rfl, rfl,
    rfl, rfl⟩
  · show m.maxRatio ≤ Scalar.cmax m.maxRatio a.splitRatio
    rw [cmax_eq]; exact le_max_left _ _
  · show a.splitRatio ≤ Scalar.cmax m.maxRatio a.splitRatio
    rw [cmax_eq]; exact le_max_right _ _
  · show min (Real.sqrt 2) m.maxRatio ≤ deriveSplit m
    rcases deriveSplit_cases m with h | h <;> rw [h]
    · exact min_le_left _ _
    · rcases le_total (Real.sqrt 2) m.maxRatio with h2 | h2
      · rw [min_eq_left h2]; linarith
      · rw [min_eq_right h2]; linarith
  · show deriveSplit m ≤ max (Real.sqrt 2) m.maxRatio
    rcases deriveSplit_cases m with h | h <;> rw [h]
    · exact le_max_left _ _
    · rcases le_total (Real.sqrt 2) m.maxRatio with h2 | h2
      · rw [max_eq_right h2]; linarith
      · rw [max_eq_left h2]; linarith

/-- the band is positive and non-empty whenever the measured range is -/
theorem adaptParameter_band_pos (a : Adapt ℝ) (m : Measured ℝ) (hc : 0 < a.collapseRatio) (hm : 0 < m.minRatio)
    (hmm : m.minRatio ≤ m.maxRatio) :
    0 < (adaptParameter a m).1.postMin ∧ (adaptParameter a m).1.postMin ≤ (adaptParameter a m).1.postMax := by
  constructor
  · exact derivePostMin_pos _ _ _ (lt_min hm hc)
  · have h := adaptParameter_band a m
    exact h.1.trans (hmm.trans h.2.2.2.1)

/-- the two selection thresholds never meet: with `collapse_ratio = 1/√2` (never changed after `ref_adapt_create`)
    and a positive measured `max_ratio`, `collapse_ratio < split_ratio` -/
theorem collapse_lt_split (a : Adapt ℝ) (m : Measured ℝ) (hc : a.collapseRatio = 1 / Real.sqrt 2)
    (hm : 0 < m.maxRatio) : (adaptParameter a m).1.collapseRatio < (adaptParameter a m).1.splitRatio := by
  show a.collapseRatio < deriveSplit m
  have hs := sqrt2_bounds
  have hpos : (0 : ℝ) < Real.sqrt 2 := by linarith [hs.1]
  have hhalf : 1 / Real.sqrt 2 = Real.sqrt 2 / 2 := by
    rw [div_eq_div_iff (ne_of_gt hpos) (by norm_num)]
    have := Real.mul_self_sqrt (show (0 : ℝ) ≤ 2 by norm_num)
    linarith
  rw [hc, hhalf]
  rcases deriveSplit_cases m with h | h <;> rw [h] <;> linarith

/-- `1 < split_ratio` exactly when the measured `max_ratio` exceeds `2 - √2 ≈ 0.586` (or the rescaling is off) -/
theorem one_lt_split (m : Measured ℝ) (hm : 2 - Real.sqrt 2 < m.maxRatio) : 1 < deriveSplit m := by
  have hs := sqrt2_bounds
  rcases deriveSplit_cases m with h | h <;> rw [h] <;> linarith [hs.1]

/-- `split_ratio ≤ post_max_ratio` holds when the *previous* `split_ratio` was at least `√2` (in particular on the
    first call); it is not an invariant, see `split_above_postMax_example` -/
theorem split_le_postMax (a : Adapt ℝ) (m : Measured ℝ) (h : Real.sqrt 2 ≤ a.splitRatio) :
    (adaptParameter a m).1.splitRatio ≤ (adaptParameter a m).1.postMax := by
  have hb := adaptParameter_band a m
  refine hb.2.2.2.2.2.2.1.trans (max_le (h.trans hb.2.2.2.2.1) hb.2.2.2.1)

/-- the measured values of a too-fine mesh (all edges short, more than 3 vertices per unit complexity) -/
noncomputable def fineMeasured (mx : ℝ) : Measured ℝ :=
  { minRatio := mx / 2, maxRatio := mx, minQuality := 1 / 2, minNormdev := 2, nodesPerComplexity := 10,
    mixed := false, maxAge := 0 }

theorem deriveSplit_fine (mx : ℝ) : deriveSplit (fineMeasured mx) = (Real.sqrt 2 + mx) / 2 := by
  unfold deriveSplit fineMeasured
  simp only [Bool.not_false, Bool.true_and, lt_iff, ofInt_eq, sqrt2_eq, half, ofDec_eq, mul_eq, add_eq]
  norm_num
  ring

/-- **input where `1 < split_ratio` fails**: measured `max_ratio = 1/2` with `nnode/complexity > 3` gives
    `split_ratio = (√2 + 1/2)/2 < 1`: edges *shorter* than the unit length become split candidates (as soon as a
    collapse of the same pass lengthens one beyond 0.957) -/
theorem split_below_one_example :
    (adaptParameter (adaptCreate : Adapt ℝ) (fineMeasured (1 / 2))).1.splitRatio < 1 := by
  show deriveSplit (fineMeasured (1 / 2)) < 1
  rw [deriveSplit_fine]
  linarith [sqrt2_bounds.2]

/-- **input where `split_ratio ≤ post_max_ratio` fails**: two successive calls on a too-fine mesh whose longest
    edge grew from 0.5 to 1.0: the band ends at `post_max = max(1.0, 0.957) = 1`, the split threshold is 1.207 -/
theorem split_above_postMax_example :
    let a1 := (adaptParameter (adaptCreate : Adapt ℝ) (fineMeasured (1 / 2))).1
    let a2 := (adaptParameter a1 (fineMeasured 1)).1
    a2.postMax < a2.splitRatio := by
  intro a1 a2
  show Scalar.cmax (fineMeasured 1).maxRatio (deriveSplit (fineMeasured (1 / 2))) < deriveSplit (fineMeasured 1)
  rw [cmax_eq, deriveSplit_fine, deriveSplit_fine]
  have hs := sqrt2_bounds
  show max (1 : ℝ) _ < _
  rw [max_lt_iff]
  constructor <;> linarith

/-! ## the guards keep what they accept inside the band -/

/-- `ref_split_edge_ratio` says yes ⇒ every measured edge (all edges at the new vertex, `splitTested_complete`)
    has its length in `[post_min_ratio, post_max_ratio]` -/
theorem split_accept_band (a : Adapt ℝ) (rat : Nat → Nat → ℝ) (cells : List Cell) (n0 n1 nw : Nat)
    (h : splitEdgeRatio a rat cells n0 n1 nw = true) :
    ∀ e ∈ splitTested cells n0 n1 nw, a.postMin ≤ rat e.1 e.2 ∧ rat e.1 e.2 ≤ a.postMax := by
  intro e he
  unfold splitEdgeRatio at h
  exact (inBand_iff a _).mp (List.all_eq_true.mp h e he)

/-- the converse: the guard refuses as soon as one measured edge is outside (the decision is exactly the band test) -/
theorem split_reject_iff (a : Adapt ℝ) (rat : Nat → Nat → ℝ) (cells : List Cell) (n0 n1 nw : Nat) :
    splitEdgeRatio a rat cells n0 n1 nw = true ↔
      ∀ e ∈ splitTested cells n0 n1 nw, a.postMin ≤ rat e.1 e.2 ∧ rat e.1 e.2 ≤ a.postMax := by
  unfold splitEdgeRatio
  rw [List.all_eq_true]
  exact forall₂_congr fun e _ => inBand_iff a _

/-- "the split changes only the edges it measures": in the cells after the split, a pair of distinct vertices
    either contains the new vertex — then it is a measured edge — or is a pair of an old cell -/
theorem splitTested_complete (cells : List Cell) (n0 n1 nw : Nat) (hfresh : ∀ c ∈ cells, nw ∉ c)
    {c' : Cell} (hc' : c' ∈ splitCells cells n0 n1 nw) {x y : Nat} (hx : x ∈ c') (hy : y ∈ c') (hxy : x ≠ y) :
    (x = nw ∧ (nw, y) ∈ splitTested cells n0 n1 nw) ∨ (y = nw ∧ (nw, x) ∈ splitTested cells n0 n1 nw) ∨
    (x ≠ nw ∧ y ≠ nw ∧ ∃ c ∈ cells, x ∈ c ∧ y ∈ c) := by
  unfold splitCells at hc'
  rw [List.mem_flatMap] at hc'
  obtain ⟨c, hc, hin⟩ := hc'
  by_cases hon : onEdge n0 n1 c = true
  · rw [if_pos hon] at hin
    obtain ⟨h0, h1⟩ := onEdge_iff.mp hon
    have key : ∀ o, (o = n0 ∨ o = n1) → c' = subst o nw c →
        (x = nw ∧ (nw, y) ∈ splitTested cells n0 n1 nw) ∨ (y = nw ∧ (nw, x) ∈ splitTested cells n0 n1 nw) ∨
        (x ≠ nw ∧ y ≠ nw ∧ ∃ c ∈ cells, x ∈ c ∧ y ∈ c) := by
      intro o ho hceq
      subst hceq
      have tested : ∀ z, z ∈ subst o nw c → z ≠ nw → (nw, z) ∈ splitTested cells n0 n1 nw := by
        intro z hz hne
        refine mem_splitTested.mpr ⟨c, hc, h0, h1, ?_⟩
        rcases ho with rfl | rfl
        · left; exact mem_edgesAt.mpr ⟨rfl, hz, hne⟩
        · right; exact mem_edgesAt.mpr ⟨rfl, hz, hne⟩
      by_cases hxn : x = nw
      · left; exact ⟨hxn, tested y hy (fun h => hxy (hxn.trans h.symm))⟩
      · by_cases hyn : y = nw
        · right; left; exact ⟨hyn, tested x hx hxn⟩
        · right; right
          refine ⟨hxn, hyn, c, hc, ?_, ?_⟩
          · rcases mem_subst.mp hx with ⟨h, _⟩ | ⟨h, _⟩
            · exact absurd h hxn
            · exact h
          · rcases mem_subst.mp hy with ⟨h, _⟩ | ⟨h, _⟩
            · exact absurd h hyn
            · exact h
    simp only [List.mem_cons, List.not_mem_nil, or_false] at hin
    rcases hin with h | h
    · exact key n0 (Or.inl rfl) h
    · exact key n1 (Or.inr rfl) h
  · rw [if_neg hon] at hin
    simp only [List.mem_cons, List.not_mem_nil, or_false] at hin
    subst hin
    right; right
    exact ⟨fun h => hfresh _ hc (h ▸ hx), fun h => hfresh _ hc (h ▸ hy), _, hc, hx, hy⟩

/-- `ref_collapse_edge_ratio` says yes ⇒ every edge `node0–x` it measures (all new edges, see
    `collapseNew_complete`) lies in the band **widened by the extremes of the edges at the removed vertex**:
    the second clause of the guard ("not worse than before") can accept an edge outside `[post_min, post_max]` -/
theorem collapse_accept_band (a : Adapt ℝ) (rat : Nat → Nat → ℝ) (cells : List Cell) (n0 n1 : Nat)
    (h : collapseEdgeRatio a rat cells n0 n1 = true) :
    ∀ e ∈ collapseNew cells n0 n1,
      min a.postMin (foldMin dblMax ((collapseOld cells n1).map fun e => rat e.1 e.2)) ≤ rat e.1 e.2 ∧
      rat e.1 e.2 ≤ max a.postMax (foldMax (-. lit1) ((collapseOld cells n1).map fun e => rat e.1 e.2)) := by
  intro e he
  unfold collapseEdgeRatio at h
  simp only [Bool.or_eq_true, Bool.and_eq_true, le_iff] at h
  have hmem : rat e.1 e.2 ∈ (collapseNew cells n0 n1).map fun e => rat e.1 e.2 := List.mem_map.mpr ⟨e, he, rfl⟩
  have hlo : foldMin dblMax ((collapseNew cells n0 n1).map fun e => rat e.1 e.2) ≤ rat e.1 e.2 := by
    rw [foldMin_eq]; exact foldl_min_le_mem _ _ hmem
  have hhi : rat e.1 e.2 ≤ foldMax (-. lit1) ((collapseNew cells n0 n1).map fun e => rat e.1 e.2) := by
    rw [foldMax_eq]; exact mem_le_foldl_max _ _ hmem
  rcases h with ⟨h1, h2⟩ | ⟨h1, h2⟩
  · exact ⟨(min_le_left _ _).trans (h1.trans hlo), (hhi.trans h2).trans (le_max_left _ _)⟩
  · exact ⟨(min_le_right _ _).trans (h1.trans hlo), (hhi.trans h2).trans (le_max_right _ _)⟩

/-- sanity of the band limits used with the `REF_DBL_MAX` / `-1.0` initial values of the collapse guard -/
def SaneBand (a : Adapt ℝ) : Prop := a.postMin ≤ (dblMax : ℝ) ∧ (-. lit1 : ℝ) ≤ a.postMax

/-- if the edges at the removed vertex were inside the band, an accepted collapse creates only edges inside it -/
theorem collapse_accept_band_inv (a : Adapt ℝ) (hs : SaneBand a) (rat : Nat → Nat → ℝ) (cells : List Cell)
    (n0 n1 : Nat) (h : collapseEdgeRatio a rat cells n0 n1 = true)
    (hold : ∀ e ∈ collapseOld cells n1, a.postMin ≤ rat e.1 e.2 ∧ rat e.1 e.2 ≤ a.postMax) :
    ∀ e ∈ collapseNew cells n0 n1, a.postMin ≤ rat e.1 e.2 ∧ rat e.1 e.2 ≤ a.postMax := by
  intro e he
  obtain ⟨h1, h2⟩ := collapse_accept_band a rat cells n0 n1 h e he
  have hmin : a.postMin ≤ foldMin dblMax ((collapseOld cells n1).map fun e => rat e.1 e.2) := by
    rw [foldMin_eq]
    rcases foldl_min_mem_or dblMax ((collapseOld cells n1).map fun e => rat e.1 e.2) with hh | hh
    · rw [hh]; exact hs.1
    · obtain ⟨e', he', hr⟩ := List.mem_map.mp hh
      rw [← hr]; exact (hold e' he').1
  have hmax : foldMax (-. lit1) ((collapseOld cells n1).map fun e => rat e.1 e.2) ≤ a.postMax := by
    rw [foldMax_eq]
    rcases foldl_max_mem_or (-. lit1) ((collapseOld cells n1).map fun e => rat e.1 e.2) with hh | hh
    · rw [hh]; exact hs.2
    · obtain ⟨e', he', hr⟩ := List.mem_map.mp hh
      rw [← hr]; exact (hold e' he').2
  rw [min_eq_left hmin] at h1
  rw [max_eq_left hmax] at h2
  exact ⟨h1, h2⟩

/-- "the collapse changes only the edges it measures": a pair of distinct vertices of a cell after the collapse
    is either `node0–x` with `(node0, x)` measured, or a pair of an old cell -/
theorem collapseNew_complete (cells : List Cell) (n0 n1 : Nat) {c' : Cell} (hc' : c' ∈ collapseCells cells n0 n1)
    {x y : Nat} (hx : x ∈ c') (hy : y ∈ c') (hxy : x ≠ y) :
    (x = n0 ∧ (n0, y) ∈ collapseNew cells n0 n1) ∨ (y = n0 ∧ (n0, x) ∈ collapseNew cells n0 n1) ∨
    (∃ c ∈ cells, x ∈ c ∧ y ∈ c) := by
  unfold collapseCells at hc'
  rw [List.mem_map] at hc'
  obtain ⟨c, hcf, rfl⟩ := hc'
  rw [List.mem_filter] at hcf
  obtain ⟨hc, hoff⟩ := hcf
  have hoff' : ¬(n0 ∈ c ∧ n1 ∈ c) := by
    intro hh
    rw [onEdge_iff.mpr hh] at hoff
    cases hoff
  rcases mem_subst.mp hx with ⟨hx0, h1c⟩ | ⟨hxc, hx1⟩
  · rcases mem_subst.mp hy with ⟨hy0, _⟩ | ⟨hyc, hy1⟩
    · exact absurd (hx0.trans hy0.symm) hxy
    · left
      refine ⟨hx0, mem_collapseNew.mpr ⟨c, hc, h1c, fun h0c => hoff' ⟨h0c, h1c⟩, rfl, hyc, hy1⟩⟩
  · rcases mem_subst.mp hy with ⟨hy0, h1c⟩ | ⟨hyc, hy1⟩
    · right; left
      refine ⟨hy0, mem_collapseNew.mpr ⟨c, hc, h1c, fun h0c => hoff' ⟨h0c, h1c⟩, rfl, hxc, hx1⟩⟩
    · right; right; exact ⟨c, hc, hxc, hyc⟩

/-- the smoothers' ratio test says yes ⇒ every edge at the moved vertex is inside the band (the C measures all of
    them: every other vertex of every cell at the vertex) -/
theorem smooth_accept_band (a : Adapt ℝ) (rat : Nat → Nat → ℝ) (cells : List Cell) (n : Nat)
    (h : smoothRatioOk a rat cells n = true) :
    ∀ e ∈ aroundEdges cells n, a.postMin ≤ rat e.1 e.2 ∧ rat e.1 e.2 ≤ a.postMax := by
  intro e he
  unfold smoothRatioOk ratioAround at h
  split at h
  · cases h
  · rename_i mn mx heq
    obtain ⟨h1, h2⟩ := (bandOk_iff a mn mx).mp h
    obtain ⟨b1, b2⟩ := minMax_bounds heq (List.mem_map.mpr ⟨e, he, rfl⟩)
    exact ⟨h1.trans b1, b2.trans h2⟩

/-- `ref_swap_ratio`: the one new edge is *strictly* inside the band -/
theorem swap_accept_band (a : Adapt ℝ) (r : ℝ) (h : swapRatio a r = true) : a.postMin < r ∧ r < a.postMax := by
  unfold swapRatio at h
  simpa only [Bool.and_eq_true, lt_iff] using h

/-- `ref_cavity_ratio`: every edge from the cavity vertex to a face vertex is inside the band -/
theorem cavity_accept_band (a : Adapt ℝ) (rs : List ℝ) (h : cavityRatio a rs = true) :
    ∀ r ∈ rs, a.postMin ≤ r ∧ r ≤ a.postMax := by
  intro r hr
  unfold cavityRatio at h
  exact (inBand_iff a r).mp (List.all_eq_true.mp h r hr)

/-! ## histories -/

/-- every mesh edge — every pair of distinct vertices of a common cell, in both orientations — has its length
    (`ref_node_ratio` with the per-vertex metrics) in the band -/
def AllEdgesInBand (a : Adapt ℝ) (M : Mesh ℝ) : Prop :=
  ∀ c ∈ M.cells, ∀ x ∈ c, ∀ y ∈ c, x ≠ y →
    a.postMin ≤ nodeRatio M.verts x y ∧ nodeRatio M.verts x y ≤ a.postMax

/-- the ratio guard of the operation, evaluated on the state it is applied to -/
def AcceptedRatio (a : Adapt ℝ) (M : Mesh ℝ) : Op ℝ → Prop
  | .split n0 n1 nw v =>
      (∀ c ∈ M.cells, nw ∉ c) ∧ splitEdgeRatio a (nodeRatio (setVert M.verts nw v)) M.cells n0 n1 nw = true
  | .collapse n0 n1 => collapseEdgeRatio a (nodeRatio M.verts) M.cells n0 n1 = true
  | .smooth n v _ _ => smoothRatioOk a (nodeRatio (setVert M.verts n v)) M.cells n = true

/-- each operation of the history is accepted in the state it meets -/
def AcceptedAll (acc : Mesh ℝ → Op ℝ → Prop) : Mesh ℝ → List (Op ℝ) → Prop
  | _, [] => True
  | M, op :: rest => acc M op ∧ AcceptedAll acc (step M op) rest

theorem step_band (a : Adapt ℝ) (hs : SaneBand a) (M : Mesh ℝ) (op : Op ℝ) (hM : AllEdgesInBand a M)
    (hop : AcceptedRatio a M op) : AllEdgesInBand a (step M op) := by
  cases op with
  | split n0 n1 nw v =>
    obtain ⟨hfresh, hg⟩ := hop
    have hb := split_accept_band a _ _ _ _ _ hg
    intro c' hc' x hx y hy hxy
    show a.postMin ≤ nodeRatio (setVert M.verts nw v) x y ∧ nodeRatio (setVert M.verts nw v) x y ≤ a.postMax
    rcases splitTested_complete M.cells n0 n1 nw hfresh hc' hx hy hxy with ⟨rfl, ht⟩ | ⟨rfl, ht⟩ | ⟨hxn, hyn, c, hc, hxc, hyc⟩
    · have h' := hb _ ht
      exact h'
    · rw [nodeRatio_symm]
      have h' := hb _ ht
      exact h'
    · rw [nodeRatio_local (setVert_ne hxn) (setVert_ne hyn)]
      exact hM c hc x hxc y hyc hxy
  | collapse n0 n1 =>
    have hold : ∀ e ∈ collapseOld M.cells n1,
        a.postMin ≤ nodeRatio M.verts e.1 e.2 ∧ nodeRatio M.verts e.1 e.2 ≤ a.postMax := by
      intro e he
      obtain ⟨c, hc, h1c, hin⟩ := mem_collapseOld.mp he
      obtain ⟨p, q⟩ := e
      obtain ⟨rfl, hq, hne⟩ := mem_edgesAt.mp hin
      exact hM c hc _ h1c q hq (Ne.symm hne)
    have hb := collapse_accept_band_inv a hs _ _ _ _ hop hold
    intro c' hc' x hx y hy hxy
    show a.postMin ≤ nodeRatio M.verts x y ∧ nodeRatio M.verts x y ≤ a.postMax
    rcases collapseNew_complete M.cells n0 n1 hc' hx hy hxy with ⟨rfl, ht⟩ | ⟨rfl, ht⟩ | ⟨c, hc, hxc, hyc⟩
    · have h' := hb _ ht
      exact h'
    · rw [nodeRatio_symm]
      have h' := hb _ ht
      exact h'
    · exact hM c hc x hxc y hyc hxy
  | smooth n v mode q0 =>
    have hb := smooth_accept_band a _ _ _ hop
    intro c hc x hx y hy hxy
    show a.postMin ≤ nodeRatio (setVert M.verts n v) x y ∧ nodeRatio (setVert M.verts n v) x y ≤ a.postMax
    by_cases hxn : x = n
    · subst hxn
      have h' := hb (x, y) (mem_aroundEdges.mpr ⟨c, hc, hx, mem_edgesAt.mpr ⟨rfl, hy, Ne.symm hxy⟩⟩)
      exact h'
    · by_cases hyn : y = n
      · subst hyn
        rw [nodeRatio_symm]
        have h' := hb (y, x) (mem_aroundEdges.mpr ⟨c, hc, hy, mem_edgesAt.mpr ⟨rfl, hx, hxy⟩⟩)
        exact h'
      · rw [nodeRatio_local (setVert_ne hxn) (setVert_ne hyn)]
        exact hM c hc x hx y hy hxy

/-- **Band invariant over histories** ("adapting again keeps it inside the band", for a fixed band): if every edge
    is inside `[post_min_ratio, post_max_ratio]` and every split / collapse / vertex move of the history passed the
    modelled ratio guard in the state it met, every edge is still inside after the whole history.
    (Swap and cavity operations are not part of `Op`; their guards are `swap_accept_band`, `cavity_accept_band`.
    `ref_adapt_pass` also *narrows* `post_max_ratio` to `√2` around two collapse passes: an invariant for the wide
    band says nothing about the narrow one, and the theorem does not claim it.) -/
theorem ops_preserve_band (a : Adapt ℝ) (hs : SaneBand a) (ops : List (Op ℝ)) :
    ∀ M : Mesh ℝ, AllEdgesInBand a M → AcceptedAll (AcceptedRatio a) M ops → AllEdgesInBand a (ops.foldl step M) := by
  induction ops with
  | nil => intro M hM _; exact hM
  | cons op rest ih =>
    intro M hM hacc
    exact ih (step M op) (step_band a hs M op hM hacc.1) hacc.2

/-- widening the band keeps the invariant (the two rescaling branches of `ref_adapt_parameter` only lower
    `post_min_ratio`; `post_max_ratio = max(measured, previous split_ratio)` only contains more) -/
theorem band_mono (a b : Adapt ℝ) (M : Mesh ℝ) (h1 : b.postMin ≤ a.postMin) (h2 : a.postMax ≤ b.postMax)
    (hM : AllEdgesInBand a M) : AllEdgesInBand b M := by
  intro c hc x hx y hy hxy
  obtain ⟨l, u⟩ := hM c hc x hx y hy hxy
  exact ⟨h1.trans l, u.trans h2⟩

/-! ## quality floor -/

/-- a cell quality that depends on the cell's own vertices only (as `ref_node_tet_quality` / `_tri_quality` do) -/
def QLocal (q : (Nat → Vert ℝ) → Cell → ℝ) : Prop :=
  ∀ vs vs' c, (∀ x ∈ c, vs x = vs' x) → q vs c = q vs' c

def AllCellsAbove (q : (Nat → Vert ℝ) → Cell → ℝ) (floor : ℝ) (M : Mesh ℝ) : Prop :=
  ∀ c ∈ M.cells, floor ≤ q M.verts c

/-- the quality guard of the operation on the state it is applied to: `ref_split_edge_tet/tri_quality` on both
    halves of every cell on the edge, `ref_collapse_edge_tet/tri_quality` on every re-connected cell, the
    smoother's rule (`SmoothMode`) on every cell at the moved vertex, `q0` being `1.0` or the quality of a cell
    at the vertex before the move -/
def AcceptedQuality (a : Adapt ℝ) (q : (Nat → Vert ℝ) → Cell → ℝ) (M : Mesh ℝ) : Op ℝ → Prop
  | .split n0 n1 nw v =>
      (∀ c ∈ M.cells, nw ∉ c) ∧ ∀ c ∈ M.cells, onEdge n0 n1 c = true → ∃ me v0 v1 mv,
        splitQualityOk a me (q (setVert M.verts nw v) (subst n0 nw c)) (q (setVert M.verts nw v) (subst n1 nw c))
          v0 v1 mv = true
  | .collapse n0 n1 =>
      ∀ c ∈ M.cells, n1 ∈ c → onEdge n0 n1 c = false → collapseQualityOk a (q M.verts (subst n1 n0 c)) = true
  | .smooth n v mode q0 =>
      (q0 = 1 ∨ ∃ c ∈ M.cells, n ∈ c ∧ q0 = q M.verts c) ∧
      ∀ c ∈ M.cells, n ∈ c → smoothQualityOk a mode q0 (q (setVert M.verts n v) c) = true

/-- the thresholds of all three guards are at least `floor` -/
def FloorBelow (a : Adapt ℝ) (floor : ℝ) : Prop :=
  floor ≤ a.splitQualityAbs ∧ floor ≤ a.collapseQualityAbs ∧ floor ≤ a.smoothMinQuality ∧ floor ≤ 2 / 5

theorem split_quality_accept (a : Adapt ℝ) (me q0 q1 v0 v1 mv : ℝ) (h : splitQualityOk a me q0 q1 v0 v1 mv = true) :
    a.splitQualityAbs ≤ q0 ∧ a.splitQualityAbs ≤ q1 ∧ a.splitQualityRel * me ≤ q0 ∧ a.splitQualityRel * me ≤ q1 ∧
    mv ≤ v0 ∧ mv ≤ v1 := by
  unfold splitQualityOk at h
  simp only [Bool.not_eq_true', Bool.or_eq_false_iff, lt_false_iff, mul_eq] at h
  obtain ⟨⟨⟨⟨⟨h1, h2⟩, h3⟩, h4⟩, h5⟩, h6⟩ := h
  exact ⟨h1, h2, h3, h4, h5, h6⟩

theorem subst_of_not_mem {o n : Nat} {c : Cell} (h : o ∉ c) : subst o n c = c := by
  unfold subst
  conv_rhs => rw [← List.map_id c]
  apply List.map_congr_left
  intro x hx
  have : x ≠ o := fun hh => h (hh ▸ hx)
  simp [this]

theorem step_quality (a : Adapt ℝ) (q : (Nat → Vert ℝ) → Cell → ℝ) (hq : QLocal q) (floor : ℝ)
    (hf : FloorBelow a floor) (M : Mesh ℝ) (op : Op ℝ) (hM : AllCellsAbove q floor M)
    (hop : AcceptedQuality a q M op) : AllCellsAbove q floor (step M op) := by
  obtain ⟨fs, fc, fm, f4⟩ := hf
  cases op with
  | split n0 n1 nw v =>
    obtain ⟨hfresh, hg⟩ := hop
    intro c' hc'
    show floor ≤ q (setVert M.verts nw v) c'
    unfold step splitCells at hc'
    simp only [List.mem_flatMap] at hc'
    obtain ⟨c, hc, hin⟩ := hc'
    by_cases hon : onEdge n0 n1 c = true
    · rw [if_pos hon] at hin
      obtain ⟨me, v0, v1, mv, hok⟩ := hg c hc hon
      obtain ⟨h1, h2, _⟩ := split_quality_accept a _ _ _ _ _ _ hok
      simp only [List.mem_cons, List.not_mem_nil, or_false] at hin
      rcases hin with rfl | rfl
      · exact fs.trans h1
      · exact fs.trans h2
    · rw [if_neg hon] at hin
      simp only [List.mem_cons, List.not_mem_nil, or_false] at hin
      subst hin
      rw [hq (setVert M.verts nw v) M.verts c' (fun x hx => setVert_ne (fun h => hfresh _ hc (h ▸ hx)))]
      exact hM _ hc
  | collapse n0 n1 =>
    intro c' hc'
    show floor ≤ q M.verts c'
    unfold step collapseCells at hc'
    simp only [List.mem_map, List.mem_filter, Bool.not_eq_true'] at hc'
    obtain ⟨c, ⟨hc, hoff⟩, rfl⟩ := hc'
    by_cases h1 : n1 ∈ c
    · have := hop c hc h1 hoff
      unfold collapseQualityOk at this
      simp only [Bool.not_eq_true', lt_false_iff] at this
      exact fc.trans this
    · rw [subst_of_not_mem h1]; exact hM _ hc
  | smooth n v mode q0 =>
    obtain ⟨hq0, hg⟩ := hop
    have hq0f : floor ≤ q0 := by
      rcases hq0 with rfl | ⟨c, hc, _, rfl⟩
      · linarith
      · exact hM _ hc
    intro c hc
    show floor ≤ q (setVert M.verts n v) c
    by_cases hn : n ∈ c
    · have := hg c hc hn
      unfold smoothQualityOk at this
      cases mode with
      | floor =>
        simp only [lt_iff] at this
        linarith
      | improve p =>
        cases p with
        | true =>
          simp only [Bool.and_eq_true, lt_iff, ofDec_eq, mul_eq] at this
          norm_num at this
          linarith [this.2]
        | false =>
          simp only [lt_iff] at this
          linarith
    · rw [hq (setVert M.verts n v) M.verts c (fun x hx => setVert_ne (fun h => hn (h ▸ hx)))]
      exact hM _ hc

/-- **Quality-floor invariant over histories**: with `floor` below the thresholds of the three quality guards
    (after `ref_adapt_parameter`: `floor = 1e-3` works, `adaptParameter_band`), accepted splits, collapses and
    vertex moves never produce a cell below `floor` -/
theorem quality_floor_preserved (a : Adapt ℝ) (q : (Nat → Vert ℝ) → Cell → ℝ) (hq : QLocal q) (floor : ℝ)
    (hf : FloorBelow a floor) (ops : List (Op ℝ)) :
    ∀ M : Mesh ℝ, AllCellsAbove q floor M → AcceptedAll (AcceptedQuality a q) M ops →
      AllCellsAbove q floor (ops.foldl step M) := by
  induction ops with
  | nil => intro M hM _; exact hM
  | cons op rest ih =>
    intro M hM hacc
    exact ih (step M op) (step_quality a q hq floor hf M op hM hacc.1) hacc.2

/-- the floor `1e-3` is below every quality threshold after `ref_adapt_create` + `ref_adapt_parameter` -/
theorem floor_after_parameter (m : Measured ℝ) :
    FloorBelow (adaptParameter (adaptCreate : Adapt ℝ) m).1 (1 / 1000) := by
  have h := adaptParameter_band (adaptCreate : Adapt ℝ) m
  refine ⟨?_, h.2.2.2.2.2.2.2.1, ?_, by norm_num⟩
  · show (1 : ℝ) / 1000 ≤ (adaptCreate : Adapt ℝ).splitQualityAbs
    simp only [adaptCreate, ofDec_eq]; norm_num
  · rw [h.2.2.2.2.2.2.2.2.2.1]; exact h.2.2.2.2.2.2.2.1

/-! ## selection -/

/-- an edge is on the work list of `ref_split_pass` only if it is longer than `split_ratio`; a vertex is a target of
    `ref_collapse_pass` only if one of its edges is shorter than `collapse_ratio` (the pass then tries *all* edges
    of that vertex, shortest first — the edge finally collapsed need not be the short one) -/
theorem selection_sound (a : Adapt ℝ) (rat : Nat → Nat → ℝ) (edges : List (Nat × Nat)) (hc : 0 ≤ a.collapseRatio) :
    (∀ e ∈ splitCandidates a rat edges, e ∈ edges ∧ a.splitRatio < rat e.1 e.2) ∧
    (∀ nodes n, n ∈ collapseCandidates a rat edges nodes →
      ∃ e ∈ edges, (e.1 = n ∨ e.2 = n) ∧ rat e.1 e.2 < a.collapseRatio) := by
  constructor
  · intro e he
    unfold splitCandidates splitSelected at he
    rw [List.mem_filter, lt_iff] at he
    exact he
  · intro nodes n hn
    unfold collapseCandidates collapseSelected nodeMinRatio at hn
    rw [List.mem_filter, lt_iff, foldMin_eq] at hn
    obtain ⟨_, hlt⟩ := hn
    rcases foldl_min_mem_or (lit2 *. a.collapseRatio)
        ((edges.filter fun e => e.1 = n || e.2 = n).map fun e => rat e.1 e.2) with hh | hh
    · rw [hh] at hlt
      simp only [lit2, mul_eq, ofInt_eq] at hlt
      norm_num at hlt
      linarith
    · obtain ⟨e, he, hr⟩ := List.mem_map.mp hh
      rw [List.mem_filter] at he
      refine ⟨e, he.1, by simpa using he.2, ?_⟩
      rw [hr]; exact hlt

/-- completeness of the split work list: every edge longer than `split_ratio` is on it -/
theorem selection_complete (a : Adapt ℝ) (rat : Nat → Nat → ℝ) (edges : List (Nat × Nat)) (e : Nat × Nat)
    (he : e ∈ edges) (h : a.splitRatio < rat e.1 e.2) : e ∈ splitCandidates a rat edges := by
  unfold splitCandidates splitSelected
  rw [List.mem_filter, lt_iff]
  exact ⟨he, h⟩

/-- with `collapse_ratio < split_ratio` (`collapse_lt_split`) no edge is both too long and too short -/
theorem selection_disjoint (a : Adapt ℝ) (h : a.collapseRatio < a.splitRatio) (r : ℝ) :
    ¬(splitSelected a r = true ∧ collapseSelected a r = true) := by
  unfold splitSelected collapseSelected
  simp only [lt_iff]
  intro ⟨h1, h2⟩
  linarith

/-! ## non-vacuity -/

theorem dblMax_ge : (4 : ℝ) ≤ (dblMax : ℝ) := by
  unfold dblMax
  simp only [ofDec_eq]
  have h : (1 : ℝ) ≤ (10 : ℝ) ^ (292 : ℤ) := one_le_zpow₀ (by norm_num) (by norm_num)
  calc (4 : ℝ) ≤ ((17976931348623157 : ℤ) : ℝ) * 1 := by norm_num
    _ ≤ _ := mul_le_mul_of_nonneg_left h (by norm_num)

/-- a band, and two unit-metric vertices one unit apart: length 1 is inside `[0.5, 2]` -/
noncomputable def exBand : Adapt ℝ := { (adaptCreate : Adapt ℝ) with postMin := 1 / 2, postMax := 2 }

example : inBand exBand 1 = true := by
  rw [inBand_iff]; simp only [exBand]; norm_num

theorem exBand_sane : SaneBand exBand := by
  unfold SaneBand exBand
  simp only [lit1, neg_eq, ofInt_eq]
  constructor
  · linarith [dblMax_ge]
  · norm_num

/-- `split_accept_band` / `split_reject_iff` are not vacuous: on the triangle pair `(0,1,2),(1,0,3)` with the new
    vertex 4 and a ratio function that is 1 on every pair, the guard accepts and measures 6 edges -/
example : splitEdgeRatio exBand (fun _ _ => 1) [[0, 1, 2], [1, 0, 3]] 0 1 4 = true ∧
    (splitTested [[0, 1, 2], [1, 0, 3]] 0 1 4).length = 8 := by
  constructor
  · rw [split_reject_iff]
    intro e _
    simp only [exBand]; norm_num
  · decide

/-- the collapse guard accepts through its fall-back although the band refuses: new edge 3 > post_max = 2, old 4 -/
example : collapseEdgeRatio exBand (fun p q => if p = 1 then (if q = 2 then 2 else 4) else 3) [[1, 2, 3]] 0 1 = true ∧
    ¬ (∀ e ∈ collapseNew [[1, 2, 3]] 0 1,
        (fun p q => if p = 1 then (if q = 2 then (2 : ℝ) else 4) else 3) e.1 e.2 ≤ exBand.postMax) := by
  constructor
  · unfold collapseEdgeRatio
    simp only [Bool.or_eq_true, Bool.and_eq_true, le_iff]
    right
    have hd := dblMax_ge
    have e1 : collapseOld [[1, 2, 3]] 1 = [(1, 2), (1, 3)] := by decide
    have e2 : collapseNew [[1, 2, 3]] 0 1 = [(0, 2), (0, 3)] := by decide
    rw [e1, e2, foldMin_eq, foldMin_eq, foldMax_eq, foldMax_eq]
    simp only [List.map_cons, List.map_nil, List.foldl_cons, List.foldl_nil, lit1, neg_eq, ofInt_eq]
    norm_num
  · intro h
    have := h (0, 2) (by decide)
    simp only [exBand] at this
    norm_num at this

/-- `adaptParameter_band`'s hypotheses-free statement has content: the default parameters on a converged mesh -/
example : (adaptParameter (adaptCreate : Adapt ℝ) (fineMeasured 1)).1.postMin ≤ 1 / 2 :=
  (adaptParameter_band (adaptCreate : Adapt ℝ) (fineMeasured 1)).1

/-- a history that is accepted: the empty mesh stays in band; and `AcceptedAll` of a one-op history unfolds -/
example (M : Mesh ℝ) (hM : AllEdgesInBand exBand M) (n : Nat) (v : Vert ℝ)
    (h : smoothRatioOk exBand (nodeRatio (setVert M.verts n v)) M.cells n = true) :
    AllEdgesInBand exBand (step M (.smooth n v .floor 1)) :=
  ops_preserve_band exBand exBand_sane [.smooth n v .floor 1] M hM ⟨h, trivial⟩

end Refine.Props.C03
