import Refine.Lemmas.ContainersSort
import Refine.Lemmas.ContainersHeap
import Refine.Lemmas.ContainersAdj
import Refine.Lemmas.ContainersAdjSeq
import Refine.Lemmas.ContainersSortDbl
import Refine.Lemmas.ContainersListDict
import Refine.Lemmas.ContainersAdjCheck
import Refine.Lemmas.ContainersCheck
import Mathlib.Data.Int.Order.Basic

/-!
  C14, part A: the integer list, dictionary, adjacency and sort/search helpers of refine behave like
  their abstract models — for all inputs, no size bound.

  The models (`Refine/Model/Containers*.lean`) mirror `ref_sort.c`, `ref_list.c`, `ref_dict.c`,
  `ref_adj.c` loop by loop and are tied to the compiled C by the `containers` correspondence
  streams.  Every `theorem` below is an obligation audited on each run.
-/
namespace Refine.Props.C14
open Refine.Model Refine.Model.Sort

/-! ## ref_sort.c -/

/-- `ref_sort_insertion_int`: the output is the sorted permutation of the input -/
theorem sortInsertion_spec (a : List Int) :
    (sortInsertion a).Perm a ∧ (sortInsertion a).Pairwise (· ≤ ·) :=
  ⟨sortInsertion_perm a, sortInsertion_sorted a⟩

/-- the literal single `for (;;)` loop of `ref_sort_heap_*` (what the driver executes and the correspondence
    stream compares) computes exactly its two phases (heapify, then extraction) -/
theorem sortHeapLoop_is_two_phase {α : Type} [Inhabited α] (lt : α → α → Bool) (a : List α) :
    sortHeapLoop lt a = sortHeap lt a := sortHeapLoop_eq lt a

/-- `ref_sort_heap_*` (literal loop, `n < 2` early return), generic statement: for ANY Boolean
    comparison — in particular `<` on `REF_DBL` with NaNs — `sorted_index` is a permutation of `0..n-1` -/
theorem sortHeap_perm_any {α : Type} [Inhabited α] (lt : α → α → Bool) (a : List α) :
    (sortHeapLoop lt a).Perm (List.range a.length) ∧ (applyIdx a (sortHeapLoop lt a)).Perm a := by
  rw [sortHeapLoop_eq]
  exact ⟨sortHeap_perm lt a, applyIdx_perm a _ (sortHeap_perm lt a)⟩

/-- `ref_sort_heap_*` over any linear order: `original[sorted_index[·]]` is non-decreasing -/
theorem sortHeap_sorted_linear {α : Type} [Inhabited α] [LinearOrder α] (a : List α) :
    (applyIdx a (sortHeapLoop (fun x y => decide (x < y)) a)).Pairwise (· ≤ ·) := by
  rw [sortHeapLoop_eq]
  exact sortHeap_sorted a

/-- `ref_sort_heap_int`: a permutation of `0..n-1` under which the keys are non-decreasing -/
theorem sortHeapInt_spec (a : List Int) :
    (sortHeapInt a).Perm (List.range a.length) ∧ (applyIdx a (sortHeapInt a)).Perm a ∧
      (applyIdx a (sortHeapInt a)).Pairwise (· ≤ ·) := by
  unfold sortHeapInt
  rw [sortHeapLoop_eq]
  refine ⟨sortHeap_perm _ a, applyIdx_perm a _ (sortHeap_perm _ a), ?_⟩
  rw [ltInt_eq]; exact sortHeap_sorted a

/-- `ref_sort_heap_glob` (same text with `REF_GLOB` keys) -/
theorem sortHeapGlob_spec (a : List Int) :
    (sortHeapGlob a).Perm (List.range a.length) ∧ (applyIdx a (sortHeapGlob a)).Perm a ∧
      (applyIdx a (sortHeapGlob a)).Pairwise (· ≤ ·) := sortHeapInt_spec a

/-- `ref_sort_heap_dbl` on IEEE doubles, NaNs included: always a permutation of `0..n-1`
    (the ordering statement for NaN-free keys is `sortHeap_sorted_linear`) -/
theorem sortHeapDbl_perm (a : List Float) :
    (sortHeapDbl a).Perm (List.range a.length) ∧ (applyIdx a (sortHeapDbl a)).Perm a :=
  sortHeap_perm_any ltFloat a

/-- `ref_sort_in_place_glob`: the array is replaced by its sorted permutation (`n < 2`: unchanged) -/
theorem sortInPlaceGlob_spec (a : List Int) :
    (sortInPlaceGlob a).Perm a ∧ (sortInPlaceGlob a).Pairwise (· ≤ ·) := by
  unfold sortInPlaceGlob
  split_ifs with h
  · refine ⟨List.Perm.refl _, ?_⟩
    match a, h with
    | [], _ => exact List.Pairwise.nil
    | [x], _ => exact List.pairwise_singleton _ _
    | _ :: _ :: _, h => simp at h; omega
  · exact ⟨(sortHeapGlob_spec a).2.1, (sortHeapGlob_spec a).2.2⟩

/-- `ref_sort_unique_int`, every `n` (0 included since the repair of the empty-list count): `nunique` counts the
    strictly increasing list of the distinct inputs -/
theorem uniqueInt_sorted_dedup (a : List Int) :
    (uniqueInt a).1 = (uniqueList a).length ∧ (uniqueList a).Pairwise (· < ·) ∧
      ∀ x, x ∈ uniqueList a ↔ x ∈ a := uniqueInt_spec a

/-- `ref_sort_unique_int`, `n = 0`: no unique entry (before the repair in /repo the C reported `nunique = 1`, and
    `ref_sort_same(0, ..)` compared `unique[0]` of two zero-length allocations) -/
theorem uniqueInt_empty : uniqueInt [] = (0, []) := uniqueInt_nil

/-- `ref_sort_same` decides equality of the element sets, for every `n` -/
theorem sortSame_iff_same_set (l0 l1 : List Int) :
    sortSame l0 l1 = true ↔ ∀ x, x ∈ l0 ↔ x ∈ l1 := sortSame_spec l0 l1

/-- `ref_sort_search_int` on a non-decreasing list (literal `mid = n>>1` start and `lower<mid<upper` loop):
    `ok` with a position holding the target if it is present, else `not_found` and `REF_EMPTY` -/
theorem searchInt_correct (a : List Int) (hsorted : a.Pairwise (· ≤ ·)) (t : Int) :
    (t ∈ a → ∃ p : Nat, searchInt a t = (Status.ok, (p : Int)) ∧ p < a.length ∧ a.getD p 0 = t) ∧
    (t ∉ a → searchInt a t = (Status.not_found, EMPTY)) := by
  rcases searchInt_spec a hsorted t with ⟨p, hr, hp, hx⟩ | ⟨hr, hx⟩
  · exact ⟨fun _ => ⟨p, hr, hp, hx⟩, fun hn => absurd ((mem_iff_getD a t).2 ⟨p, hp, hx⟩) hn⟩
  · exact ⟨fun hm => absurd hm hx, fun _ => hr⟩

/-- the status alone: found iff present -/
theorem searchInt_ok_iff_mem (a : List Int) (hsorted : a.Pairwise (· ≤ ·)) (t : Int) :
    (searchInt a t).1 = Status.ok ↔ t ∈ a := searchInt_found_iff a hsorted t

/-- `ref_sort_search_glob` is the same text on `REF_GLOB` -/
theorem searchGlob_correct (a : List Int) (hsorted : a.Pairwise (· ≤ ·)) (t : Int) :
    (t ∈ a → ∃ p : Nat, searchGlob a t = (Status.ok, (p : Int)) ∧ p < a.length ∧ a.getD p 0 = t) ∧
    (t ∉ a → searchGlob a t = (Status.not_found, EMPTY)) := searchInt_correct a hsorted t

/-- on ANY list (sorted or not) a reported position holds the target, every other outcome is
    `not_found`/`REF_EMPTY` -/
theorem searchInt_sound_any (a : List Int) (t : Int) :
    (∃ p : Nat, searchInt a t = (Status.ok, (p : Int)) ∧ p < a.length ∧ a.getD p 0 = t) ∨
      searchInt a t = (Status.not_found, EMPTY) := searchInt_sound a t


/-- the `while ((lower < mid) && (mid < upper))` loop ends within `upper - lower` iterations on ANY list:
    the model's fuel `n` is never exhausted, more fuel changes nothing -/
theorem searchInt_loop_terminates (a : List Int) (t : Int) (extra : Nat) :
    searchLoop a t (a.length + extra) 0 (a.length - 1) (a.length >>> 1) =
      searchLoop a t a.length 0 (a.length - 1) (a.length >>> 1) := searchInt_fuel_enough a t extra

/-- `ref_sort_search_dbl` over any linear order (no NaN), for ANY list: the documented clamps, otherwise an
    interval `[a[p], a[p+1])` that contains the target.  In particular the loop terminates (the model's
    `none`) and `REF_FAILURE` is never returned. -/
theorem searchDbl_correct {α : Type} [LinearOrder α] [Inhabited α] (a : List α) (t : α) :
    (a.length = 0 → searchDbl (fun x y : α => decide (x ≤ y)) (fun x y : α => decide (x < y)) a t
        = some (Status.not_found, EMPTY)) ∧
    (a.length = 1 → searchDbl (fun x y : α => decide (x ≤ y)) (fun x y : α => decide (x < y)) a t
        = some (Status.ok, 0)) ∧
    (2 ≤ a.length → t ≤ a.getD 0 default →
        searchDbl (fun x y : α => decide (x ≤ y)) (fun x y : α => decide (x < y)) a t
        = some (Status.ok, 0)) ∧
    (2 ≤ a.length → ¬ t ≤ a.getD 0 default → a.getD (a.length - 1) default ≤ t →
        searchDbl (fun x y : α => decide (x ≤ y)) (fun x y : α => decide (x < y)) a t
        = some (Status.ok, ((a.length - 2 : Nat) : Int))) ∧
    (2 ≤ a.length → a.getD 0 default < t → t < a.getD (a.length - 1) default →
        ∃ p : Nat, searchDbl (fun x y : α => decide (x ≤ y)) (fun x y : α => decide (x < y)) a t
          = some (Status.ok, (p : Int)) ∧ p + 1 < a.length ∧
          a.getD p default ≤ t ∧ t < a.getD (p + 1) default) :=
  searchDbl_spec_any a t

/-- on a non-decreasing list the bracketing interval is unique, so the result is THE interval -/
theorem searchDbl_unique {α : Type} [LinearOrder α] [Inhabited α] (a : List α) (hs : a.Pairwise (· ≤ ·))
    (t : α) (p : Nat) (hp : p + 1 < a.length) (hp1 : a.getD p default ≤ t) (hp2 : t < a.getD (p + 1) default)
    (h0 : a.getD 0 default < t) :
    searchDbl (fun x y : α => decide (x ≤ y)) (fun x y : α => decide (x < y)) a t = some (Status.ok, (p : Int)) :=
  searchDbl_eq_of_bracket a hs t p hp hp1 hp2 h0

/-- `ref_sort_shuffle`: a permutation of `0..n-1` for every `rand()` stream -/
theorem shuffle_is_perm (n : Nat) (rands : List Nat) : (shuffle n rands).Perm (List.range n) :=
  shuffle_perm n rands

/-- `ref_sort_rand_in_range(min, max)` lies in `[min, max]` for every `rand()` value -/
theorem randInRange_in_range (min max : Int) (r : Nat) (h : min ≤ max) :
    min ≤ randInRange min max r ∧ randInRange min max r ≤ max := randInRange_bounds min max r h

-- non-vacuity: concrete runs of the literal loops
example : sortInsertion [3, 1, 2, 1] = [1, 1, 2, 3] := by decide
example : sortHeapInt [3, 1, 2, 1, 5, 0] = [5, 1, 3, 2, 0, 4] := by decide
example : applyIdx [3, 1, 2, 1, 5, 0] (sortHeapInt [3, 1, 2, 1, 5, 0]) = [0, 1, 1, 2, 3, 5] := by decide
example : uniqueInt [3, 1, 2, 1] = (3, [1, 2, 3, 3]) := by decide
example : sortSame [1, 2, 2] [2, 1, 1] = true ∧ sortSame [1, 2, 2] [2, 1, 3] = false := by decide
example : ([1, 3, 5, 7] : List Int).Pairwise (· ≤ ·) ∧ searchInt [1, 3, 5, 7] 5 = (Status.ok, 2) ∧
    searchInt [1, 3, 5, 7] 4 = (Status.not_found, EMPTY) := by decide

example : shuffle 5 [3, 7, 100, 2] = [3, 4, 0, 2, 1] := by decide
example : searchDbl (fun x y : Int => decide (x ≤ y)) (fun x y : Int => decide (x < y)) [0, 10, 20] 15 =
    some (Status.ok, 1) := by decide

/-! ## ref_list.c -/

/-- `ref_list_delete` (literal two-index compaction loop) removes EVERY occurrence of a present item -/
theorem list_delete_present (l : RList) (item : Int) (h : item ∈ l.value) :
    l.delete item = ({ l with value := l.value.filter (· ≠ item) }, Status.ok) :=
  RList.delete_present l item h

/-- … and reports `REF_NOT_FOUND`, leaving the list unchanged, iff there is none -/
theorem list_delete_absent (l : RList) (item : Int) (h : item ∉ l.value) :
    l.delete item = (l, Status.not_found) := RList.delete_absent l item h

/-- `ref_list_contains` is membership -/
theorem list_contains_iff_mem (l : RList) (item : Int) :
    l.contains item = (Status.ok, decide (item ∈ l.value)) := RList.contains_spec l item

/-- `ref_list_shift` (literal copy loop) pops the front; `ref_list_pop` the back; both fail with
    `REF_EMPTY` on an empty list -/
theorem list_shift_pop (l : RList) :
    (l.value = [] → l.shift = (l, Status.failure, EMPTY) ∧ l.pop = (l, Status.failure, EMPTY)) ∧
    (∀ x xs, l.value = x :: xs → l.shift = ({ l with value := xs }, Status.ok, x)) ∧
    (∀ xs x, l.value = xs ++ [x] → l.pop = ({ l with value := xs }, Status.ok, x)) :=
  ⟨fun h => ⟨RList.shift_nil l h, RList.pop_nil l h⟩, fun x xs h => RList.shift_spec l x xs h,
   fun xs x h => RList.pop_spec l xs x h⟩

/-- `RList ⊑ List Int`: for EVERY sequence of push / pop / shift / delete / erase / contains / deep-copy
    starting from `ref_list_create`, the stored values, every returned status and every output value agree
    with the abstract list (so `n` is exact), and `n ≤ max`, `max ∈ 10 + 1000·ℕ` -/
theorem list_refines_List (ops : List RList.Op) :
    (RList.run ops RList.create).1.value = (RList.specRun ops []).1 ∧
    (RList.run ops RList.create).2 = (RList.specRun ops []).2 ∧
    RList.Inv (RList.run ops RList.create).1 := RList.run_refines ops

example : (RList.run [.push 5, .push 7, .push 5, .contains 7, .delete 5, .shift, .pop, .push 3] RList.create)
    = ({ max := 10, value := [3] },
       [(.ok, 0), (.ok, 0), (.ok, 0), (.ok, 1), (.ok, 0), (.ok, 7), (.failure, -1), (.ok, 0)]) := by decide

/-! ## ref_dict.c -/

/-- `ref_dict_create` satisfies the invariant: keys strictly increasing, values aligned, `n ≤ max` -/
theorem dict_inv_create : RDict.Inv RDict.create := RDict.inv_create

/-- `ref_dict_store` (downward scan + shift) keeps the invariant, overwrites or inserts, counts exactly -/
theorem dict_store_spec (d : RDict) (h : RDict.Inv d) (k v : Int) :
    (d.store k v).2 = Status.ok ∧ RDict.Inv (d.store k v).1 ∧
    (∀ k', RDict.lookup (d.store k v).1 k' = if k' = k then some v else RDict.lookup d k') ∧
    (d.store k v).1.n = if k ∈ d.key then d.n else d.n + 1 := RDict.store_spec h k v

/-- `ref_dict_location` is total and correct on both branches (linear scan for `n ≤ 10`, else
    `ref_sort_search_int`): the index of the key, or `REF_NOT_FOUND` with `REF_EMPTY` -/
theorem dict_location_spec (d : RDict) (h : RDict.Inv d) (k : Int) :
    (k ∈ d.key → ∃ p : Nat, d.location k = (Status.ok, (p : Int)) ∧ p < d.n ∧ d.key.getD p 0 = k) ∧
    (k ∉ d.key → d.location k = (Status.not_found, EMPTY)) := RDict.location_spec h k

/-- `ref_dict_value` returns the mapped value, or `REF_NOT_FOUND` leaving `*value` untouched -/
theorem dict_value_spec (d : RDict) (h : RDict.Inv d) (k : Int) :
    d.valueOf k = match RDict.lookup d k with
      | some v => (Status.ok, some v)
      | none => (Status.not_found, none) := RDict.valueOf_spec h k

/-- `ref_dict_remove` of a present key: invariant kept, exactly that key unmapped, `n` decremented -/
theorem dict_remove_present (d : RDict) (h : RDict.Inv d) (k : Int) (hk : k ∈ d.key) :
    (d.remove k).2 = Status.ok ∧ RDict.Inv (d.remove k).1 ∧
    (∀ k', RDict.lookup (d.remove k).1 k' = if k' = k then none else RDict.lookup d k') ∧
    (d.remove k).1.n + 1 = d.n := RDict.remove_present h k hk

/-- `ref_dict_remove` of an absent key: `REF_NOT_FOUND`, state unchanged -/
theorem dict_remove_absent (d : RDict) (h : RDict.Inv d) (k : Int) (hk : k ∉ d.key) :
    d.remove k = (d, Status.not_found) := RDict.remove_absent h k hk

/-- the key array is the domain of the map; `ref_dict_has_key` / `ref_dict_has_value` are membership -/
theorem dict_keys_are_domain (d : RDict) (h : RDict.Inv d) (k v : Int) :
    (k ∈ d.key ↔ (RDict.lookup d k).isSome) ∧ d.hasKey k = decide (k ∈ d.key) ∧
      d.hasValue v = decide (v ∈ d.value) :=
  ⟨RDict.mem_key_iff_lookup h k, RDict.hasKey_spec d k, RDict.hasValue_spec d v⟩

/-- `RDict ⊑ (Int → Option Int)`: for EVERY sequence of store / remove / deep-copy from `ref_dict_create`
    the invariant holds, the represented map is the abstract one, and every status agrees
    (remove is `REF_NOT_FOUND` exactly when the abstract map has no entry) -/
theorem dict_refines_map (ops : List RDict.Op) :
    RDict.Inv (RDict.run ops RDict.create) ∧
    (∀ k, RDict.lookup (RDict.run ops RDict.create) k = RDict.specRun ops (fun _ => none) k) ∧
    RDict.runStatus ops RDict.create = RDict.specRunStatus ops (fun _ => none) := RDict.run_refines ops

example : RDict.run [.store 5 50, .store 2 20, .store 9 90, .store 5 55, .remove 2, .remove 7] RDict.create
    = { max := 10, key := [5, 9], value := [55, 90] } := by decide
-- the binary-search branch (`n > 10`)
example : (RDict.run ((List.range 12).map fun i => RDict.Op.store (2 * i) i) RDict.create).location 14 =
    (Status.ok, 7) := by decide

/-! ## ref_adj.c -/

/-- the state made by `ref_adj_create` satisfies the invariant: free list and per-node chains are
    duplicate-free, pairwise disjoint, cover all items; free items carry `REF_EMPTY` -/
theorem adj_inv_create : RAdj.Inv RAdj.create := RAdj.inv_create

/-- `ref_adj_add` with `node < 0`: `REF_INVALID`, state unchanged -/
theorem adj_add_negative (s : RAdj) (node reference : Int) (hn : node < 0) :
    s.add node reference = (s, Status.invalid) := RAdj.add_negative node reference hn

/-- `ref_adj_add` (both growth paths included) keeps the invariant; it succeeds unless all `REF_INT_MAX`
    items are in use; on success the reference is consed onto the node's list and no other list changes -/
theorem adj_add_spec (s : RAdj) (h : RAdj.Inv s) (node reference : Int) (hn : 0 ≤ node)
    (hlt : node < (INT_MAX : Int)) :
    RAdj.Inv (s.add node reference).1 ∧
    ((s.add node reference).2 = Status.ok ∨
      ((s.add node reference).2 = Status.failure ∧ s.blank = EMPTY ∧ s.nitem = INT_MAX)) ∧
    ((s.add node reference).2 = Status.ok →
      (s.add node reference).1.refsOf node = reference :: s.refsOf node ∧
      ∀ m : Int, m ≠ node → (s.add node reference).1.refsOf m = s.refsOf m) :=
  RAdj.add_spec h node reference hn hlt

/-- `ref_adj_remove` of a present reference: `REF_SUCCESS`, invariant kept, the first occurrence (in
    iteration order) is erased from the node's list, no other list changes -/
theorem adj_remove_present (s : RAdj) (h : RAdj.Inv s) (node reference : Int)
    (hm : reference ∈ s.refsOf node) :
    (s.remove node reference).2 = Status.ok ∧ RAdj.Inv (s.remove node reference).1 ∧
    (s.remove node reference).1.refsOf node = (s.refsOf node).erase reference ∧
    ∀ m : Int, m ≠ node → (s.remove node reference).1.refsOf m = s.refsOf m :=
  RAdj.remove_spec_present h node reference hm

/-- `ref_adj_remove` of an absent reference (or of an invalid / empty node): `REF_INVALID`, state unchanged;
    the `parent empty` failure exit is unreachable under the invariant -/
theorem adj_remove_absent (s : RAdj) (h : RAdj.Inv s) (node reference : Int)
    (hm : reference ∉ s.refsOf node) : s.remove node reference = (s, Status.invalid) :=
  RAdj.remove_spec_absent h node reference hm

/-- `ref_adj_add_uniquely` -/
theorem adj_addUniquely_spec (s : RAdj) (h : RAdj.Inv s) (node reference : Int) :
    s.addUniquely node reference =
      if reference ∈ s.refsOf node then (s, Status.ok) else s.add node reference :=
  RAdj.addUniquely_spec h node reference

/-- `ref_adj_degree` counts the node's list; `ref_adj_empty` tests it for emptiness -/
theorem adj_degree_spec (s : RAdj) (h : RAdj.Inv s) (node : Int) :
    s.degree node = (Status.ok, (s.refsOf node).length) ∧
      (s.isEmpty node = true ↔ s.refsOf node = []) :=
  ⟨RAdj.degree_spec s node, RAdj.isEmpty_spec h node⟩

/-- chain walks terminate: with `fuel = nitem` the walk of any node list and of the free list has
    reached `REF_EMPTY` — more fuel does not lengthen it -/
theorem adj_walks_terminate (s : RAdj) (h : RAdj.Inv s) (node : Int) (extra : Nat) :
    RAdj.walk s.next (s.nitem + extra) (s.firstOf node) = RAdj.walk s.next s.nitem (s.firstOf node) ∧
    RAdj.walk s.next (s.nitem + extra) s.blank = RAdj.walk s.next s.nitem s.blank :=
  ⟨RAdj.walk_fuel_irrelevant h node extra, RAdj.walk_blank_fuel_irrelevant h extra⟩

/-- counts are exact: every item is free (and then carries `REF_EMPTY`) or in exactly one node list -/
theorem adj_counts_exact (s : RAdj) (h : RAdj.Inv s) :
    (∀ k ∈ s.blankItems, s.refOf k = EMPTY) ∧
    s.blankItems.length + ((List.range s.nnode).map (fun v : Nat => (s.refsOf (v : Int)).length)).sum =
      s.nitem :=
  ⟨RAdj.blank_spec h, RAdj.count_spec h⟩

/-- `ref_adj_min_degree_node`: `(REF_EMPTY, REF_EMPTY)` when every node list is empty, else the FIRST node
    whose list has the minimal positive length, together with that length -/
theorem adj_minDegreeNode_spec (s : RAdj) :
    (s.minDegreeNode).1 = Status.ok ∧
    RAdj.MinSpec (fun v => (((s.refsOf (v : Int)).length : Nat) : Int)) s.nnode
      ((s.minDegreeNode).2.1, (s.minDegreeNode).2.2) := RAdj.minDegreeNode_spec s

/-- every operation sequence from `ref_adj_create` (nodes below `REF_INT_MAX`, no `REF_FAILURE` from a full
    `REF_INT_MAX`-item table): the invariant holds at the end, every node's list and every returned status agree
    with the abstract map `node ↦ List ref` (add = cons, remove = erase first occurrence, invalid when absent) -/
theorem adj_refines_map (ops : List RAdj.Op) (hnode : ∀ op ∈ ops, op.node < (INT_MAX : Int))
    (hnf : Status.failure ∉ (RAdj.run ops RAdj.create).2) :
    RAdj.Inv (RAdj.run ops RAdj.create).1 ∧
    (∀ n, (RAdj.run ops RAdj.create).1.refsOf n = (RAdj.specRun ops (fun _ => [])).1 n) ∧
    (RAdj.run ops RAdj.create).2 = (RAdj.specRun ops (fun _ => [])).2 :=
  RAdj.run_refines ops hnode hnf

-- non-vacuity: a growth-crossing concrete run satisfies the hypotheses and the walk is the abstract list
example : ((RAdj.create.add 3 7).1.add 3 8).1.refsOf 3 = [8, 7] := by decide
example : (RAdj.run [.add 3 7, .add 3 8, .add 12 1, .remove 3 7, .addUniquely 3 8, .remove 4 1] RAdj.create).2 =
    [.ok, .ok, .ok, .ok, .ok, .invalid] := by decide
example : Status.failure ∉ (RAdj.run [.add 3 7, .add 3 8, .add 12 1, .remove 3 7] RAdj.create).2 := by decide

/-! ## the invariants are evaluated on real implementation states

The `cont_state_invariants` stream feeds full state dumps of the C containers to the driver, which runs these
executable checkers; they decide exactly the invariants the theorems above are about. -/

theorem adj_invCheck_iff_Inv (s : RAdj) : s.invCheck = true ↔ RAdj.Inv s := RAdj.invCheck_iff s

theorem dict_invCheck_iff_Inv (d : RDict) : d.invCheck = true ↔ RDict.Inv d := RDict.invCheck_iff d

theorem list_invCheck_iff_Inv (l : RList) : l.invCheck = true ↔ RList.Inv l := RList.invCheck_iff l

example : (((RAdj.create.add 3 7).1.add 3 8).1.remove 3 7).1.invCheck = true := by decide
example : ({ RAdj.create with first := (0 : Int) :: RAdj.create.first.tail } : RAdj).invCheck = false := by decide

end Refine.Props.C14
