import Refine.Model.Containers
import Refine.Model.ContainersAdj

namespace Refine.Props.C14
open Refine.Model

theorem stub : RList.create.n = 0 := rfl

end Refine.Props.C14
