import Refine.Props.C06Shufflin
import Refine.Lemmas.ShufflinInv

/-!
  C06 — the layout returned by `ref_migrate_shufflin` satisfies the distributed-mesh invariant.

  `shufflin_spec` (`Refine/Props/C06Shufflin.lean`) says the model of `ref_migrate_shufflin` returns THE layout
  `IsLayout w w'` of the mesh of `w` for the new partition.  Here: every world `w'` with `IsLayout w w'` (for a `w`
  satisfying `ShufHyp`) satisfies the executable invariant `distInv` of `Refine/Model/Dist.lean`, clause by clause.
  Vocabulary as in `C06Shufflin.lean` (`Vw`, `partW`, `payW`, `AllC`, `ShufHyp`, `IsLayout`).
-/
namespace Refine.Props.C06ShufflinInv
open Refine.Model.Dist Refine.Model.Shufflin Refine.Lemmas.Shufflin Refine.Lemmas.ShufflinWorld
open Refine.Lemmas.ShufflinSpec Refine.Lemmas.ShufflinInv Refine.Props.C06Shufflin
open Refine.Model.Comm (World)

/-- **layout_clauses**: clauses (o)–(v) of `distInv` hold of the layout.  (o) globals and cells distinct per rank,
    globals non-negative, parts in `[0, np)` (`ShufHyp.range` through `vw_facts`); (i) the rank named by `part` stores
    the canonical copy; (ii) a stored cell has all its vertices stored, touches a vertex of the rank, and is stored by
    the rank of each of its vertices; (iii) a stored vertex is owned or a vertex of a stored cell; (iv) every copy
    carries `payW`, so a ghost equals its owner's copy; (v) `ref_cell_part` reads the same `(global, part)` list on
    every rank that stores the cell, its value is the part of a vertex of the cell, and that rank stores the cell.
    No side conditions beyond `ShufHyp` (needed for: all copies agree, parts in range, cell vertices are vertices). -/
theorem layout_clauses (ldim N : Nat) (w w' : World RankState) (H : ShufHyp ldim N w) (hL : IsLayout w w') :
    clauseLocal w' = true ∧ clauseOwner w' = true ∧ clauseCells w' = true ∧ clauseVerts w' = true ∧
    clauseGhost w' = true ∧ clauseCellOwner w' = true :=
  ⟨lay_clauseLocal H hL, lay_clauseOwner H hL, lay_clauseCells H hL, lay_clauseVerts hL, lay_clauseGhost H hL,
   lay_clauseCellOwner H hL⟩

/-- the part of the counting clause that needs no side condition: in the layout the owned globals of the ranks are
    pairwise distinct (a global is owned only on rank `partW w g`), the cells attributed to the ranks by
    `ref_cell_part` are pairwise distinct and as many as there are distinct stored cells (each is owned exactly on
    the rank of its smallest-global vertex, which stores it) -/
theorem layout_counts_distinct (ldim N : Nat) (w w' : World RankState) (H : ShufHyp ldim N w) (hL : IsLayout w w') :
    (ownedGlobals w').Nodup ∧ (ownedCellsAll w').Nodup ∧ (ownedCellsAll w').length = (allCells w').length :=
  ⟨lay_owned_nodup hL, lay_ownedCells_nodup H hL, lay_cells_length H hL⟩

/-- **layout_counts**: the counting clause.  Side conditions (both about the INPUT world, neither follows from
    `ShufHyp`, which only bounds the ids by `N` and says nothing about `n_global`):
    * `hids`: the vertices of the mesh are exactly the ids `0 … N-1` (`ShufHyp.range` gives `⊆` only; a mesh with a
      hole in its id range is a legal `ShufHyp` world and fails the "owned globals are `0 … n-1`" part of the clause);
    * `hN`: every rank enters with `n_global = N` (the layout leaves the counters untouched, and the clause compares
      them with the number of owned vertices once `synced`, which `ShufHyp.synced` makes true). -/
theorem layout_counts (ldim N : Nat) (w w' : World RankState) (H : ShufHyp ldim N w) (hL : IsLayout w w')
    (hids : ∀ g : Int, Vw w g ↔ 0 ≤ g ∧ g < (N : Int)) (hN : ∀ s ∈ w, s.newN = (N : Int)) :
    clauseCounts w' = true :=
  lay_clauseCounts H hL hids hN

/-- **layout_distInv**: the layout of a mesh whose ids are `0 … N-1`, with `n_global = N` on every rank, satisfies the
    executable distributed-mesh invariant (side conditions as in `layout_counts`) -/
theorem layout_distInv (ldim N : Nat) (w w' : World RankState) (H : ShufHyp ldim N w) (hL : IsLayout w w')
    (hids : ∀ g : Int, Vw w g ↔ 0 ≤ g ∧ g < (N : Int)) (hN : ∀ s ∈ w, s.newN = (N : Int)) :
    distInv w' = true := by
  obtain ⟨h1, h2, h3, h4, h5, h6⟩ := layout_clauses ldim N w w' H hL
  unfold distInv
  rw [h1, h2, h3, h4, h5, h6, layout_counts ldim N w w' H hL hids hN]
  rfl

/-- **shufflin_distInv**: on at least two ranks the model of `ref_migrate_shufflin` completes, returns the layout of
    the mesh for the new partition, and that world satisfies `distInv` — from `ShufHyp` on the input, which does NOT
    ask the input to satisfy `distInv` (cells may sit on any ranks as long as their vertices sit with them). -/
theorem shufflin_distInv (ldim N : Nat) (w : World RankState) (H : ShufHyp ldim N w) (hnp : 2 ≤ w.length)
    (hids : ∀ g : Int, Vw w g ↔ 0 ≤ g ∧ g < (N : Int)) (hN : ∀ s ∈ w, s.newN = (N : Int)) :
    ∃ w', shufflin ldim w = some w' ∧ IsLayout w w' ∧ distInv w' = true := by
  obtain ⟨w', h1, h2⟩ := shufflin_spec ldim N w H hnp
  exact ⟨w', h1, h2, layout_distInv ldim N w w' H h2 hids hN⟩

/-! ## non-vacuity: the 2-rank world `exW` of `C06Shufflin.lean` (two tets and a triangle, every vertex moving to the
    other rank; `N = 5`, `ldim = 1`) meets every hypothesis; note that `exW` itself violates `distInv` (its `part`
    fields already hold the new partition while the cells still sit in the old layout) -/

example : ∃ w', shufflin 1 exW = some w' ∧ IsLayout exW w' ∧ distInv w' = true := by
  refine shufflin_distInv 1 5 exW exW_hyp (by decide) ?_ ?_
  · intro g
    have h : (allNodes exW).map (·.glob) = [0, 1, 2, 3, 4, 2, 3, 4, 0, 1] := by decide
    unfold Vw
    rw [h]
    simp only [List.mem_cons, List.not_mem_nil, or_false]
    omega
  · intro s hs
    simp only [exW, List.mem_cons, List.not_mem_nil, or_false] at hs
    rcases hs with rfl | rfl <;> rfl

example : distInv exW = false := by decide +kernel

end Refine.Props.C06ShufflinInv
