import Refine.Props.C06Shufflin
import Refine.Lemmas.ShufflinInv

/-!
  C06 — the layout returned by `ref_migrate_shufflin` satisfies the distributed-mesh invariant.

  `shufflin_spec` (`Refine/Props/C06Shufflin.lean`) says the model of `ref_migrate_shufflin` returns THE layout
  `IsLayout w w'` of the mesh of `w` for the new partition.  Here: every world `w'` with `IsLayout w w'` (for a `w`
  satisfying `ShufHyp`) satisfies the executable invariant `distInv` of `Refine/Model/Dist.lean`, clause by clause.
  Vocabulary as in `C06Shufflin.lean` (`Vw`, `partW`, `payW`, `AllC`, `ShufHyp`, `IsLayout`).
-/
namespace Refine.Props.C06ShufflinInv
open Refine.Model.Dist Refine.Model.Shufflin Refine.Lemmas.Shufflin Refine.Lemmas.ShufflinWorld
open Refine.Lemmas.ShufflinSpec Refine.Lemmas.ShufflinInv Refine.Props.C06Shufflin
open Refine.Model.Comm (World)

/-- **layout_clauses**: clauses (o)–(v) of `distInv` hold of the layout.  (o) globals and cells distinct per rank,
    globals non-negative, parts in `[0, np)` (`ShufHyp.range` through `vw_facts`); (i) the rank named by `part` stores
    the canonical copy; (ii) a stored cell has all its vertices stored, touches a vertex of the rank, and is stored by
    the rank of each of its vertices; (iii) a stored vertex is owned or a vertex of a stored cell; (iv) every copy
    carries `payW`, so a ghost equals its owner's copy; (v) `ref_cell_part` reads the same `(global, part)` list on
    every rank that stores the cell, its value is the part of a vertex of the cell, and that rank stores the cell.
    No side conditions beyond `ShufHyp` (needed for: all copies agree, parts in range, cell vertices are vertices). -/
theorem layout_clauses (ldim N : Nat) (w w' : World RankState) (H : ShufHyp ldim N w) (hL : IsLayout w w') :
    clauseLocal w' = true ∧ clauseOwner w' = true ∧ clauseCells w' = true ∧ clauseVerts w' = true ∧
    clauseGhost w' = true ∧ clauseCellOwner w' = true :=
  ⟨lay_clauseLocal H hL, lay_clauseOwner H hL, lay_clauseCells H hL, lay_clauseVerts hL, lay_clauseGhost H hL,
   lay_clauseCellOwner H hL⟩

end Refine.Props.C06ShufflinInv
