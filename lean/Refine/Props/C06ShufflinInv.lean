import Refine.Props.C06Shufflin
import Refine.Lemmas.ShufflinInv

/-!
  C06 — the layout returned by `ref_migrate_shufflin` satisfies the distributed-mesh invariant.

  `shufflin_spec` (`Refine/Props/C06Shufflin.lean`) says the model of `ref_migrate_shufflin` returns THE layout
  `IsLayout w w'` of the mesh of `w` for the new partition.  Here: every world `w'` with `IsLayout w w'` (for a `w`
  satisfying `ShufHyp`) satisfies the executable invariant `distInv` of `Refine/Model/Dist.lean`, clause by clause.
  Vocabulary as in `C06Shufflin.lean` (`Vw`, `partW`, `payW`, `AllC`, `ShufHyp`, `IsLayout`).
-/
namespace Refine.Props.C06ShufflinInv
open Refine.Model.Dist Refine.Model.Shufflin Refine.Lemmas.Shufflin Refine.Lemmas.ShufflinWorld
open Refine.Lemmas.ShufflinSpec Refine.Lemmas.ShufflinInv Refine.Props.C06Shufflin Refine.Lemmas.ShufflinPre
open Refine.Model.Comm (World INT_MAX)

/-- **layout_clauses**: clauses (o)–(v) of `distInv` hold of the layout.  (o) globals and cells distinct per rank,
    globals non-negative, parts in `[0, np)` (`ShufHyp.range` through `vw_facts`); (i) the rank named by `part` stores
    the canonical copy; (ii) a stored cell has all its vertices stored, touches a vertex of the rank, and is stored by
    the rank of each of its vertices; (iii) a stored vertex is owned or a vertex of a stored cell; (iv) every copy
    carries `payW`, so a ghost equals its owner's copy; (v) `ref_cell_part` reads the same `(global, part)` list on
    every rank that stores the cell, its value is the part of a vertex of the cell, and that rank stores the cell.
    No side conditions beyond `ShufHyp` (needed for: all copies agree, parts in range, cell vertices are vertices). -/
theorem layout_clauses (ldim N : Nat) (w w' : World RankState) (H : ShufHyp ldim N w) (hL : IsLayout w w') :
    clauseLocal w' = true ∧ clauseOwner w' = true ∧ clauseCells w' = true ∧ clauseVerts w' = true ∧
    clauseGhost w' = true ∧ clauseCellOwner w' = true :=
  ⟨lay_clauseLocal H hL, lay_clauseOwner H hL, lay_clauseCells H hL, lay_clauseVerts hL, lay_clauseGhost H hL,
   lay_clauseCellOwner H hL⟩

/-- the part of the counting clause that needs no side condition: in the layout the owned globals of the ranks are
    pairwise distinct (a global is owned only on rank `partW w g`), the cells attributed to the ranks by
    `ref_cell_part` are pairwise distinct and as many as there are distinct stored cells (each is owned exactly on
    the rank of its smallest-global vertex, which stores it) -/
theorem layout_counts_distinct (ldim N : Nat) (w w' : World RankState) (H : ShufHyp ldim N w) (hL : IsLayout w w') :
    (ownedGlobals w').Nodup ∧ (ownedCellsAll w').Nodup ∧ (ownedCellsAll w').length = (allCells w').length :=
  ⟨lay_owned_nodup hL, lay_ownedCells_nodup H hL, lay_cells_length H hL⟩

/-- **layout_counts**: the counting clause.  Side conditions (both about the INPUT world, neither follows from
    `ShufHyp`, which only bounds the ids by `N` and says nothing about `n_global`):
    * `hids`: the vertices of the mesh are exactly the ids `0 … N-1` (`ShufHyp.range` gives `⊆` only; a mesh with a
      hole in its id range is a legal `ShufHyp` world and fails the "owned globals are `0 … n-1`" part of the clause);
    * `hN`: every rank enters with `n_global = N` (the layout leaves the counters untouched, and the clause compares
      them with the number of owned vertices once `synced`, which `ShufHyp.synced` makes true). -/
theorem layout_counts (ldim N : Nat) (w w' : World RankState) (H : ShufHyp ldim N w) (hL : IsLayout w w')
    (hids : ∀ g : Int, Vw w g ↔ 0 ≤ g ∧ g < (N : Int)) (hN : ∀ s ∈ w, s.newN = (N : Int)) :
    clauseCounts w' = true :=
  lay_clauseCounts H hL hids hN

/-- **layout_distInv**: the layout of a mesh whose ids are `0 … N-1`, with `n_global = N` on every rank, satisfies the
    executable distributed-mesh invariant (side conditions as in `layout_counts`) -/
theorem layout_distInv (ldim N : Nat) (w w' : World RankState) (H : ShufHyp ldim N w) (hL : IsLayout w w')
    (hids : ∀ g : Int, Vw w g ↔ 0 ≤ g ∧ g < (N : Int)) (hN : ∀ s ∈ w, s.newN = (N : Int)) :
    distInv w' = true := by
  obtain ⟨h1, h2, h3, h4, h5, h6⟩ := layout_clauses ldim N w w' H hL
  unfold distInv
  rw [h1, h2, h3, h4, h5, h6, layout_counts ldim N w w' H hL hids hN]
  rfl

/-- **shufflin_distInv**: on at least two ranks the model of `ref_migrate_shufflin` completes, returns the layout of
    the mesh for the new partition, and that world satisfies `distInv` — from `ShufHyp` on the input, which does NOT
    ask the input to satisfy `distInv` (cells may sit on any ranks as long as their vertices sit with them). -/
theorem shufflin_distInv (ldim N : Nat) (w : World RankState) (H : ShufHyp ldim N w) (hnp : 2 ≤ w.length)
    (hids : ∀ g : Int, Vw w g ↔ 0 ≤ g ∧ g < (N : Int)) (hN : ∀ s ∈ w, s.newN = (N : Int)) :
    ∃ w', shufflin ldim w = some w' ∧ IsLayout w w' ∧ distInv w' = true := by
  obtain ⟨w', h1, h2⟩ := shufflin_spec ldim N w H hnp
  exact ⟨w', h1, h2, layout_distInv ldim N w w' H h2 hids hN⟩

/-! ## non-vacuity: the 2-rank world `exW` of `C06Shufflin.lean` (two tets and a triangle, every vertex moving to the
    other rank; `N = 5`, `ldim = 1`) meets every hypothesis; note that `exW` itself violates `distInv` (its `part`
    fields already hold the new partition while the cells still sit in the old layout) -/

example : ∃ w', shufflin 1 exW = some w' ∧ IsLayout exW w' ∧ distInv w' = true := by
  refine shufflin_distInv 1 5 exW exW_hyp (by decide) ?_ ?_
  · intro g
    have h : (allNodes exW).map (·.glob) = [0, 1, 2, 3, 4, 2, 3, 4, 0, 1] := by decide
    unfold Vw
    rw [h]
    simp only [List.mem_cons, List.not_mem_nil, or_false]
    omega
  · intro s hs
    simp only [exW, List.mem_cons, List.not_mem_nil, or_false] at hs
    rcases hs with rfl | rfl <;> rfl

example : distInv exW = false := by decide +kernel

/-- **migration re-establishes the invariant** (the C06 sentence for the sync point "after `ref_migrate_shufflin`"):
    from any world satisfying `distInv` for the old partition (ids synchronised, exactly `0..N-1`, `n_global = N`) and
    any new partition `f` into `[0, np)` written on every stored copy, `ref_migrate_shufflin` completes and the result
    satisfies `distInv` again.  Side hypotheses as in `shufflin_spec_distInv` (`hN'`, `hgrp`, `hU`, `hsize`). -/
theorem shufflin_reestablishes_distInv (ldim N : Nat) (w0 : World RankState) (f : Int → Int)
    (h0 : distInv w0 = true) (hs : synced w0 = true) (hnp : 2 ≤ w0.length)
    (hf : ∀ s ∈ w0, ∀ nd ∈ s.nodes, 0 ≤ f nd.glob ∧ f nd.glob < (w0.length : Int))
    (hN' : ∀ s ∈ w0, ∀ nd ∈ s.nodes, nd.glob < (N : Int) ∧ nd.payload.length = ldim)
    (hgrp : ∀ s ∈ w0, ∀ c ∈ s.cells, c.group < NGROUP)
    (hU : ∀ s ∈ w0, ∀ t ∈ w0, ∀ c ∈ s.cells, ∀ c' ∈ t.cells, c.group = c'.group → sameVerts c c' = true → c = c')
    (hsize : ((max 1 ldim : Nat) : Int) * ((w0.length : Int) * (N : Int)) ≤ INT_MAX)
    (hids : ∀ g : Int, (∃ s ∈ w0, g ∈ s.nodes.map (·.glob)) ↔ 0 ≤ g ∧ g < (N : Int))
    (hn : ∀ s ∈ w0, s.newN = (N : Int)) :
    ∃ w', shufflin ldim (setParts f w0) = some w' ∧ IsLayout (setParts f w0) w' ∧ distInv w' = true := by
  have H := shufHyp_of_distInv ldim N w0 f h0 hs hf hN' hgrp hU hsize
  have hlen : (setParts f w0).length = w0.length := by unfold setParts; simp
  have hV : ∀ g : Int, Vw (setParts f w0) g ↔ ∃ s ∈ w0, g ∈ s.nodes.map (·.glob) := by
    intro g
    constructor
    · intro hg
      obtain ⟨nd', hnd', rfl⟩ := List.mem_map.mp hg
      obtain ⟨s', hs', hn'⟩ := (mem_allNodes _ _).mp hnd'
      obtain ⟨s, hs0, rfl⟩ := mem_setParts f w0 s' hs'
      obtain ⟨nd, hnd, rfl⟩ := List.mem_map.mp hn'
      exact ⟨s, hs0, List.mem_map.mpr ⟨nd, hnd, rfl⟩⟩
    · rintro ⟨s, hs0, hg⟩
      obtain ⟨nd, hnd, rfl⟩ := List.mem_map.mp hg
      have hmem : ({ s with nodes := s.nodes.map fun nd => ({ nd with part := f nd.glob } : DNode) } : RankState)
          ∈ setParts f w0 := List.mem_map.mpr ⟨s, hs0, rfl⟩
      exact List.mem_map.mpr ⟨({ nd with part := f nd.glob } : DNode),
        (mem_allNodes _ _).mpr ⟨_, hmem, List.mem_map.mpr ⟨nd, hnd, rfl⟩⟩, rfl⟩
  exact shufflin_distInv ldim N (setParts f w0) H (by rw [hlen]; exact hnp)
    (fun g => by rw [hV g]; exact hids g)
    (fun s' hs' => by
      obtain ⟨s, hs0, rfl⟩ := mem_setParts f w0 s' hs'
      exact hn s hs0)

/-- non-vacuity: the hypotheses are met by the 2-rank world `exDist` of `Props/C06.lean` (which satisfies `distInv`)
    and the partition that moves every vertex to the other rank -/
example : ∃ w', shufflin 1 (setParts (fun g => if g ≤ 1 then 1 else 0) Refine.Props.C06.exDist) = some w' ∧
    IsLayout (setParts (fun g => if g ≤ 1 then 1 else 0) Refine.Props.C06.exDist) w' ∧ distInv w' = true := by
  have hmem : ∀ s ∈ Refine.Props.C06.exDist, s = Refine.Props.C06.exDist[0]'(by decide) ∨
      s = Refine.Props.C06.exDist[1]'(by decide) := by
    intro s hs
    simp only [Refine.Props.C06.exDist, List.mem_cons, List.not_mem_nil, or_false] at hs
    rcases hs with rfl | rfl
    · left; rfl
    · right; rfl
  refine shufflin_reestablishes_distInv 1 5 Refine.Props.C06.exDist _ (by decide +kernel) (by decide) (by decide)
    ?_ ?_ ?_ ?_ (by decide) ?_ ?_
  · intro s hs; rcases hmem s hs with rfl | rfl <;> decide
  · intro s hs; rcases hmem s hs with rfl | rfl <;> decide
  · intro s hs; rcases hmem s hs with rfl | rfl <;> decide
  · intro s hs t ht; rcases hmem s hs with rfl | rfl <;> rcases hmem t ht with rfl | rfl <;> decide
  · intro g
    have h : ∀ x : Int, (∃ s ∈ Refine.Props.C06.exDist, x ∈ s.nodes.map (·.glob)) ↔
        x ∈ [(0 : Int), 1, 2, 3, 4, 2, 3, 4, 0, 1] := by
      intro x
      simp only [Refine.Props.C06.exDist, List.mem_cons, List.not_mem_nil, or_false, exists_eq_or_imp, exists_eq_left,
        List.map_cons, List.map_nil]
      tauto
    rw [h]
    simp only [List.mem_cons, List.not_mem_nil, or_false]
    omega
  · intro s hs; rcases hmem s hs with rfl | rfl <;> rfl

end Refine.Props.C06ShufflinInv
