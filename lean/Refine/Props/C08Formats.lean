import Refine.Lemmas.FormatsRoundtrip

/-!
  C08 — mesh files round-trip: the TEXT formats that refine both writes and reads (ASCII `.ugrid`, `.tri`, `.fgrid`,
  `.su2`, `.msh`), at token level (`Refine.Model.Formats`): a number is carried as the bit pattern `strtod` returns for
  the `%.16e` text, an integer as its value.

  Tie (streams formats_write, formats_read): the tokens of the file ref_export_by_extension writes == `encodeX m`;
  ref_import_by_extension / the static reader on a file from an independent writer == `decodeX`; the independent
  parsers of checks/streams_formats.py (written from the format descriptions) read what refine wrote.
-/
namespace Refine.Props.C08Formats
open Refine.Model.Formats Refine.Lemmas.Formats
open Refine.Model.Meshb (Status Vertex)

/-! ### round trips, every mesh the format holds -/

/-- **roundtrip_ugrid_txt**: ref_import_ugrid of what ref_export_ugrid writes is the mesh with its boundary faces in the
    writer's order (stable by id: the `faceid = min..max` sweep), for every mesh of triangles / quads with ids and tets /
    pyramids / prisms / hexes whose vertices exist (`UgridOk`; at most 2^28 - 200 vertices) — vertices bit for bit,
    cells with orientation and ids -/
theorem roundtrip_ugrid_txt (m : TMesh) (h : UgridOk m) :
    decodeUgridTxt (encodeUgridTxt m) = .ok (normalizeUgrid m) := decodeUgridTxt_encodeUgridTxt m h

/-- **roundtrip_tri**: `.tri` (reader as in /repo and with the proposed repairs alike) -/
theorem roundtrip_tri (fx : Fix) (m : TMesh) (h : TriOk m) : decodeTri fx (encodeTri m) = .ok (normalizeTri m) :=
  decodeTri_encodeTri fx m h

/-- **roundtrip_fgrid**: `.fgrid` (coordinates stored column by column) -/
theorem roundtrip_fgrid (fx : Fix) (m : TMesh) (h : FgridOk m) :
    decodeFgrid fx (encodeFgrid m) = .ok (normalizeFgrid m) := decodeFgrid_encodeFgrid fx m h

/-- the normal form only reorders boundary faces: same triangles, same quads -/
theorem normalizeUgrid_perm (m : TMesh) :
    (normalizeUgrid m).tri.Perm m.tri ∧ (normalizeUgrid m).qua.Perm m.qua ∧ (normalizeUgrid m).tet = m.tet ∧
    (normalizeUgrid m).pyr = m.pyr ∧ (normalizeUgrid m).pri = m.pri ∧ (normalizeUgrid m).hex = m.hex ∧
    (normalizeUgrid m).nodes = m.nodes :=
  ⟨List.mergeSort_perm _ _, List.mergeSort_perm _ _, rfl, rfl, rfl, rfl, rfl⟩

/-! ### node orders -/

/-- SU2 / VTK pyramid: what ref_export_su2 writes (VTK_PYRAMID_ORDER) is undone by ref_import_su2
    (VTK_PYRAMID_TO_UGRID) -/
theorem su2_pyramid_order_inverse (a b c d e : Int) :
    permute su2PyrIn (permute su2PyrOut [a, b, c, d, e]) = [a, b, c, d, e] := rfl

/-- SU2 / VTK wedge: VTK_WEDGE_ORDER is undone by VTK_WEDGE_TO_UGRID -/
theorem su2_prism_order_inverse (a b c d e f : Int) :
    permute su2PriIn (permute su2PriOut [a, b, c, d, e, f]) = [a, b, c, d, e, f] := rfl

/-- Gmsh pyramid: the same shuffle on both sides, and it is an involution -/
theorem msh_pyramid_order_involution (a b c d e : Int) :
    permute mshPyr (permute mshPyr [a, b, c, d, e]) = [a, b, c, d, e] := rfl

/-- the VTK pyramid is the UGRID pyramid with base (1, 0, 3, 4) and apex 2: base first, apex last, as the VTK file
    format document orders it -/
theorem su2_pyramid_is_base_then_apex (a b c d e : Int) : permute su2PyrOut [a, b, c, d, e] = [b, a, d, e, c] := rfl

/-! ### the round-trip findings on concrete meshes -/

def z : UInt64 := 0
def o : UInt64 := 0x3ff0000000000000
def verts4 : List Vertex := [⟨z, z, z⟩, ⟨o, z, z⟩, ⟨z, o, z⟩, ⟨z, z, o⟩]

/-- four vertices left after slot 1 of five was removed, one tet that still carries the stored numbers 0 2 3 4 -/
def holeMesh : TMesh := { TMesh.empty with nodes := verts4, tet := [[0, 2, 3, 4]] }

/-- finding msh-export-skips-renumbering: ref_export_msh writes the stored vertex numbers of a cell next to a
    compacted vertex block; read back, the tet names vertex 4 of 0..3 -/
theorem msh_export_renumber_counterexample :
    ∃ m, decodeMsh Fix.none (encodeMsh holeMesh) = .ok m ∧ m.tet = [[0, 2, 3, 4]] ∧ m.nodes.length = 4 ∧
      indicesInRange m = false := by
  have h : (match decodeMsh Fix.none (encodeMsh holeMesh) with
      | .ok m => m.tet == [[0, 2, 3, 4]] && m.nodes.length == 4 && !indicesInRange m | .error _ => false) = true := by
    decide +kernel
  cases hd : decodeMsh Fix.none (encodeMsh holeMesh) with
  | error e => simp [hd] at h
  | ok m => exact ⟨m, rfl, by simpa [hd, and_assoc] using h⟩

/-- a surface mesh: one triangle and one quad with ids, no volume cell -/
def surfMesh : TMesh := { TMesh.empty with nodes := verts4, tri := [[0, 1, 2, 7]], qua := [[0, 1, 2, 3, 9]] }

/-- finding msh-roundtrip-reverses-faces: write + read of a `.msh` returns every triangle and quad reversed; with the
    proposed reversal in the reader the mesh comes back -/
theorem msh_faces_counterexample :
    decodeMsh Fix.none (encodeMsh surfMesh) = .ok { surfMesh with tri := [[2, 1, 0, 7]], qua := [[3, 2, 1, 0, 9]] } ∧
    decodeMsh Fix.all (encodeMsh surfMesh) = .ok surfMesh := by
  decide +kernel

/-- boundary ids 3 and 5 -/
def taggedMesh : TMesh :=
  { TMesh.empty with nodes := verts4, tri := [[0, 1, 2, 5], [1, 2, 3, 3]], tet := [[0, 1, 2, 3]] }

/-- finding su2-marker-tag-ignored: ids 3 and 5 come back as 1 and 3 (markers numbered by position); with the tag
    read as the id they are kept (the triangles in marker order) -/
theorem su2_tags_counterexample :
    decodeSu2 Fix.none (encodeSu2 taggedMesh) = .ok { taggedMesh with tri := [[1, 2, 3, 1], [0, 1, 2, 3]] } ∧
    decodeSu2 Fix.all (encodeSu2 taggedMesh) = .ok { taggedMesh with tri := [[1, 2, 3, 3], [0, 1, 2, 5]] } := by
  decide +kernel

/-- non-vacuity of the writers / readers on a mesh every format keeps: ids from 1, no removed slot, boundary faces and
    volume cells together -/
def sampleMesh : TMesh :=
  { TMesh.empty with nodes := verts4, tri := [[0, 1, 2, 2], [1, 2, 3, 1]], tet := [[0, 1, 2, 3]] }

/-- non-vacuity of `roundtrip_ugrid_txt` / `roundtrip_tri` / `roundtrip_fgrid`: the sample mesh meets their hypotheses -/
example : UgridOk sampleMesh ∧ TriOk sampleMesh ∧ FgridOk sampleMesh := by
  have hmem : ∀ c ∈ sampleMesh.tri, c = [0, 1, 2, 2] ∨ c = [1, 2, 3, 1] := by
    intro c hc; simpa [sampleMesh] using hc
  have htet : ∀ c ∈ sampleMesh.tet, c = [0, 1, 2, 3] := by
    intro c hc; simpa [sampleMesh] using hc
  have htri : ∀ c ∈ sampleMesh.tri, c.length = 4 ∧ (∀ x ∈ c.take 3, 0 ≤ x ∧ x < (sampleMesh.nodes.length : Int)) ∧
      Refine.Model.Meshb.int32 (c.getD 3 0) := by
    intro c hc
    rcases hmem c hc with rfl | rfl <;> decide
  have htets : ∀ c ∈ sampleMesh.tet, c.length = 4 ∧ (∀ x ∈ c.take 4, 0 ≤ x ∧ x < (sampleMesh.nodes.length : Int)) := by
    intro c hc
    rw [htet c hc]; decide
  refine ⟨⟨by decide, htri, ?_, htets, ?_, ?_, ?_, by decide⟩, ⟨by decide, htri, by decide⟩,
    ⟨by decide, htri, htets, by decide, by decide⟩⟩ <;> (intro c hc; simp [sampleMesh, TMesh.empty] at hc)

theorem sample_roundtrips :
    decodeTri Fix.none (encodeTri sampleMesh) = .ok (normalizeTri sampleMesh) ∧
    decodeFgrid Fix.none (encodeFgrid sampleMesh) = .ok (normalizeFgrid sampleMesh) ∧
    decodeSu2 Fix.none (encodeSu2 sampleMesh) = .ok (normalizeSu2 sampleMesh) ∧
    decodeMsh Fix.none (encodeMsh sampleMesh) = .ok (normalizeMsh sampleMesh) := by
  decide +kernel

end Refine.Props.C08Formats
