import Refine.Lemmas.UgridC20
import Refine.Lemmas.UgridOwner

/-!
  C20 — malformed input is rejected cleanly: the binary UGRID readers.

  `decodeUgrid` (= `decodeUgridWith ugridCfg`) models `ref_import_bin_ugrid`, `partRead` (= `partReadWith ugridCfg`)
  models `ref_part_bin_ugrid`, as they are in /repo today, i.e. since commit 6682479 "reject UGRID cells whose vertex
  index is outside 1..nnode" (tied by the `c20_ugrid_mut` stream: C status and grid dump = model status and dump on
  every mutant):
    * every `fread` is checked → `REF_FAILURE` on a short file; the serial reader's buffers are bounded by 64 MB;
    * a section with a count ≤ 0 is skipped; a negative `nnode` is `REF_FAILURE` (`ref_malloc` of a negative size);
    * serial: `c2n < 1 || nnode < c2n` on the 1-based value, before the decrement → `REF_INVALID`;
    * parallel: after `pack_cell`, every node entry of every row of the chunk `< 0 || nnode <= value` → `REF_INVALID`,
      before `ref_part_implicit` is evaluated (so a file with cells and `nnode = 0` is refused too).
  `accepted_indices_in_range` / `part_accepted_indices_in_range` hold at full strength for these readers.
  HISTORY: before 6682479 (`ugridCfgLegacy`) no UGRID reader compared an index with `nnode`; the `legacy_*` theorems keep
  the Lean proofs that the obligation was FALSE of those readers on concrete 44..140-byte files (finding
  ugrid-vertex-index-unchecked, now `fixed`); the same bytes are regression ops of stream `c20_ugrid_index`.
  STILL OPEN (known findings): `part_count_overflow_counterexample` — declared counts enter `int` / `long` arithmetic in
  the parallel reader before anything is checked (ugrid-part-count-overflow).
-/
namespace Refine.Props.C20Ugrid
open Refine.Gen Refine.Model.Ugrid Refine.Lemmas.Ugrid
open Refine.Model.Meshb (Bytes Status Vertex Cfg)


/-! ### witness files (all `.lb8.ugrid`) -/

/-- 4 vertices, one tet (1,2,3,6): vertex 6 of 4 (140 bytes) -/
def indexFile : Bytes := ofHex
  "04000000000000000000000001000000000000000000000000000000000000000000000000000000000000000000000000000000000000000000f03f000000000000000000000000000000000000000000000000000000000000f03f000000000000000000000000000000000000000000000000000000000000f03f01000000020000000300000006000000"

/-- the replay file: the same with vertex 50 000 001 -/
def indexCrashFile : Bytes := ofHex
  "04000000000000000000000001000000000000000000000000000000000000000000000000000000000000000000000000000000000000000000f03f000000000000000000000000000000000000000000000000000000000000f03f000000000000000000000000000000000000000000000000000000000000f03f01000000020000000300000081f0fa02"

/-- 4 vertices, one tet (5,1,2,3): the FIRST vertex is 5 of 4 -/
def partIndexFile : Bytes := ofHex
  "04000000000000000000000001000000000000000000000000000000000000000000000000000000000000000000000000000000000000000000f03f000000000000000000000000000000000000000000000000000000000000f03f000000000000000000000000000000000000000000000000000000000000f03f05000000010000000200000003000000"

/-- no vertex, one triangle (1,1,1) tag 1 (44 bytes) -/
def partDiv0File : Bytes := ofHex
  "0000000001000000000000000000000000000000000000000000000001000000010000000100000001000000"

/-- 4 vertices, one tet present, 2^31-1 tets declared -/
def countIntFile : Bytes := ofHex
  "040000000000000000000000ffffff7f000000000000000000000000000000000000000000000000000000000000000000000000000000000000f03f000000000000000000000000000000000000000000000000000000000000f03f000000000000000000000000000000000000000000000000000000000000f03f01000000020000000300000004000000"

/-- `.lb8l.ugrid` declaring 2^63-1 vertices (184 bytes) -/
def countLongFile : Bytes := ofHex
  "ffffffffffffff7f000000000000000000000000000000000100000000000000000000000000000000000000000000000000000000000000000000000000000000000000000000000000000000000000000000000000f03f000000000000000000000000000000000000000000000000000000000000f03f000000000000000000000000000000000000000000000000000000000000f03f0100000000000000020000000000000003000000000000000400000000000000"

def lb8 : Flavor := ⟨false, false⟩
def lb8l : Flavor := ⟨false, true⟩

/-! ### totality -/

/-- the reader models are total functions: every byte string is accepted or mapped to a status -/
theorem decode_total (cfg : Cfg) (fl : Flavor) (bs : Bytes) :
    (∃ m, decodeUgridWith cfg fl bs = .ok m) ∨ (∃ e, decodeUgridWith cfg fl bs = .error e) := by
  cases h : decodeUgridWith cfg fl bs with
  | ok m => exact .inl ⟨m, rfl⟩
  | error e => exact .inr ⟨e, rfl⟩

/-! ### declared counts -/

/-- serial reader, every variant and flavour: an accepted file contains every record it declares — header,
    `nnode` coordinate triples, and per kind `count × node_per` (+ `count` tags) integers of the flavour's width fit in
    the bytes present (all `fread`s of ref_import_bin_ugrid are checked; nothing is sized by a count alone beyond the
    64 MB chunk buffers) -/
theorem accepted_counts_fit (cfg : Cfg) (fl : Flavor) (bs : Bytes) (m : UMesh) (h : decodeUgridWith cfg fl bs = .ok m) :
    7 * fl.ibytes + m.nodes.length * 24 +
      (3 * m.tri.length + 4 * m.qua.length + m.tri.length + m.qua.length + 4 * m.tet.length + 5 * m.pyr.length +
        6 * m.pri.length + 8 * m.hex.length) * fl.ibytes ≤ bs.length :=
  (decode_ok (by decide) h).1

/-! ### node indices -/

/-- **accepted_indices_in_range**, serial reader (as in /repo since 6682479), every flavour: every node index of every
    accepted cell is in `[0, nnode)`, i.e. `1..nnode` in the file -/
theorem accepted_indices_in_range (fl : Flavor) (bs : Bytes) (m : UMesh)
    (h : decodeUgrid fl bs = .ok m) : indicesInRange m = true := by
  rw [indicesInRange_iff]
  obtain ⟨_, h1, h2⟩ := decode_ok (by decide) h
  exact fun k c hc x hx => ⟨h1 k c hc x hx, h2 rfl k c hc x hx⟩

/-- **part_accepted_indices_in_range**, parallel reader (as in /repo since 6682479), every flavour, rank count and chunk
    size: an accepted read holds six cell lists, exactly `nnode` vertices, and every node entry of every stored cell is
    in `[0, nnode)` -/
theorem part_accepted_indices_in_range (fl : Flavor) (np : Nat) (chunk : Option Nat) (bs : Bytes) (pm : PartMesh)
    (h : partRead fl np chunk bs = .ok pm) :
    pm.cells.length = 6 ∧ pm.nodes.length = pm.nnode.toNat ∧
    ∀ p ∈ Kind.all.zip pm.cells, ∀ c ∈ p.2, ∀ x ∈ c.take p.1.nodePer, 0 ≤ x ∧ x < pm.nnode :=
  partRead_ok h

/-- … and it is the reader's own test that guarantees it: with the index check, the chunk loop of
    ref_part_bin_ugrid_cell only ever returns rows whose node entries are in `[0, nnode)`, so `ref_part_implicit` is
    never evaluated on anything else (the model's `Status.undefined` fall-through is not reached through an index) -/
theorem part_rows_checked_before_routing (fl : Flavor) (bs : Bytes) (k : Kind) (nnode co fo : Int)
    (chunk fuel ncell r : Nat) (cs : List (List Int))
    (h : partCellLoop ugridCfg fl bs k nnode co fo chunk fuel ncell r = .ok cs) :
    cs.all (partIndexOk k nnode) = true :=
  partCellLoop_checked rfl h

/-- the four files of the finding are refused with `REF_INVALID` by both readers now -/
theorem index_witnesses_refused :
    decodeUgrid lb8 indexFile = .error .invalid ∧ decodeUgrid lb8 indexCrashFile = .error .invalid ∧
    partRead lb8 1 none indexFile = .error .invalid ∧ partRead lb8 1 none indexCrashFile = .error .invalid ∧
    partRead lb8 1 none partIndexFile = .error .invalid ∧ decodeUgrid lb8 partIndexFile = .error .invalid ∧
    partRead lb8 1 none partDiv0File = .error .invalid ∧ decodeUgrid lb8 partDiv0File = .error .invalid := by
  decide +kernel

/-- the check costs nothing: every well-formed mesh a writer laid out is still returned (C08) -/
theorem checked_reader_roundtrip (fl : Flavor) (m : UMesh) (hw : WellFormed m = true) :
    decodeUgrid fl (encodeUgrid fl m) = .ok (normalize m) :=
  decode_encodeRaw ugridCfg rfl _ (by decide) fl (normalize m) (wf_normalize hw)

/-! ### history: the readers before 6682479 -/

/-- LEGACY serial reader: every node index of an accepted cell is ≥ 0 (≥ 1 in the file) — all `ref_adj_add`
    checked; holds for every reader variant -/
theorem legacy_accepted_indices_nonneg (cfg : Cfg) (fl : Flavor) (bs : Bytes) (m : UMesh)
    (h : decodeUgridWith cfg fl bs = .ok m) : ∀ k : Kind, ∀ c ∈ m.get k, ∀ x ∈ c.take k.nodePer, 0 ≤ x :=
  (decode_ok (by decide) h).2.1

/-- LEGACY serial reader: a file was accepted although a tet refers to vertex 6 (or 50 000 001) of 4 -/
theorem legacy_accepted_indices_in_range_counterexample :
    (∃ m, decodeUgridWith ugridCfgLegacy lb8 indexFile = .ok m ∧ indicesInRange m = false) ∧
    (∃ m, decodeUgridWith ugridCfgLegacy lb8 indexCrashFile = .ok m ∧ indicesInRange m = false) := by
  have h1 : (match decodeUgridWith ugridCfgLegacy lb8 indexFile with
      | .ok m => !indicesInRange m | .error _ => false) = true := by decide +kernel
  have h2 : (match decodeUgridWith ugridCfgLegacy lb8 indexCrashFile with
      | .ok m => !indicesInRange m | .error _ => false) = true := by decide +kernel
  constructor
  · cases hd : decodeUgridWith ugridCfgLegacy lb8 indexFile with
    | error e => simp [hd] at h1
    | ok m => exact ⟨m, rfl, by simpa [hd] using h1⟩
  · cases hd : decodeUgridWith ugridCfgLegacy lb8 indexCrashFile with
    | error e => simp [hd] at h2
    | ok m => exact ⟨m, rfl, by simpa [hd] using h2⟩

/-- LEGACY parallel reader: nothing stood between a first vertex outside `1..nnode` and
    `elements_to_send[ref_part_implicit(..)]++` — `ref_part_implicit(4, 1, 4) = 1` is not a rank of a 1-rank run; with
    `nnode = 0` the macro divides by the part size 0.  The legacy model has no status for these files. -/
theorem legacy_part_index_unchecked_counterexample :
    PartMacros.ref_part_implicit 4 1 4 = 1 ∧ partReadWith ugridCfgLegacy lb8 1 none partIndexFile = .error .undefined ∧
    PartMacros.ref_part_large_part_size 0 1 = 0 ∧
    partReadWith ugridCfgLegacy lb8 1 none partDiv0File = .error .undefined := by
  decide +kernel

/-! ### declared counts in the parallel reader (open) -/

/-- parallel reader (today): the declared counts enter `int` / `long` arithmetic before any byte of the sections is
    looked at — `size_per * chunk` with `chunk = MAX(1000000, ncell / nproc)` overflows `int` for 2^31-1 declared tets;
    `ref_part_first(nnode, nproc, 1)` forms `nnode + nproc` in `long` for 2^63-1 declared vertices.  The serial reader
    returns `REF_FAILURE` on the first of these files (short read) -/
theorem part_count_overflow_counterexample :
    partRead lb8 1 none countIntFile = .error .undefined ∧ partRead lb8l 1 none countLongFile = .error .undefined ∧
    decodeUgrid lb8 countIntFile = .error .failure := by
  decide +kernel

/-- 4 vertices, one tet (1,2,3,4): a valid 140-byte file -/
def okFile : Bytes := ofHex
  "04000000000000000000000001000000000000000000000000000000000000000000000000000000000000000000000000000000000000000000f03f000000000000000000000000000000000000000000000000000000000000f03f000000000000000000000000000000000000000000000000000000000000f03f01000000020000000300000004000000"

/-- non-vacuity of `accepted_counts_fit` / `accepted_indices_in_range` / `part_accepted_indices_in_range`: both readers
    accept `okFile` (140 bytes = 7·4 + 4·24 + 4·4) -/
example : (∃ m, decodeUgrid lb8 okFile = .ok m ∧ m.tet = [[0, 1, 2, 3]] ∧ m.nodes.length = 4 ∧ okFile.length = 140) ∧
    (∃ pm, partRead lb8 3 (some 1) okFile = .ok pm ∧ pm.cells.getD 2 [] = [[0, 1, 2, 3]] ∧ pm.nnode = 4) := by
  have h : (match decodeUgrid lb8 okFile with
      | .ok m => m.tet == [[0, 1, 2, 3]] && m.nodes.length == 4 && okFile.length == 140 | .error _ => false) = true := by
    decide +kernel
  have h' : (match partRead lb8 3 (some 1) okFile with
      | .ok pm => pm.cells.getD 2 [] == [[0, 1, 2, 3]] && pm.nnode == 4 | .error _ => false) = true := by
    decide +kernel
  constructor
  · cases hd : decodeUgrid lb8 okFile with
    | error e => simp [hd] at h
    | ok m => exact ⟨m, rfl, by simpa [hd, and_assoc] using h⟩
  · cases hd : partRead lb8 3 (some 1) okFile with
    | error e => simp [hd] at h'
    | ok pm => exact ⟨pm, rfl, by simpa [hd] using h'⟩

end Refine.Props.C20Ugrid
