import Refine.Lemmas.UgridC20
import Refine.Lemmas.UgridOwner

/-!
  C20 — malformed input is rejected cleanly: the binary UGRID readers.

  `decodeUgrid` (= `decodeUgridWith ugridCfg`) models `ref_import_bin_ugrid`, `partRead` (= `partReadWith ugridCfg`)
  models `ref_part_bin_ugrid`, as they are in /repo today, i.e. since commit 6682479 "reject UGRID cells whose vertex
  index is outside 1..nnode" (tied by the `c20_ugrid_mut` stream: C status and grid dump = model status and dump on
  every mutant):
    * every `fread` is checked → `REF_FAILURE` on a short file; the serial reader's buffers are bounded by 64 MB;
    * a section with a count ≤ 0 is skipped; a negative `nnode` is `REF_FAILURE` (`ref_malloc` of a negative size);
    * serial: `c2n < 1 || nnode < c2n` on the 1-based value, before the decrement → `REF_INVALID`;
    * parallel: after `pack_cell`, every node entry of every row of the chunk `< 0 || nnode <= value` → `REF_INVALID`,
      before `ref_part_implicit` is evaluated (so a file with cells and `nnode = 0` is refused too).
  `accepted_indices_in_range` / `part_accepted_indices_in_range` hold at full strength for these readers.
  HISTORY: before 6682479 (`ugridCfgLegacy`) no UGRID reader compared an index with `nnode`; the `legacy_*` theorems keep
  the Lean proofs that the obligation was FALSE of those readers on concrete 44..140-byte files (finding
  ugrid-vertex-index-unchecked, now `fixed`); the same bytes are regression ops of stream `c20_ugrid_index`.
  Since 10247dc the parallel reader also tests its seven counts against the file size right after the header
  (`UgridOffsets.counts_fit`, regenerated): `part_accepted_counts_fit`, `part_counts_no_overflow_partial`,
  `count_witnesses_refused`; `legacy_part_count_overflow_counterexample` keeps the history (finding
  ugrid-part-count-overflow, now `fixed`).
-/
namespace Refine.Props.C20Ugrid
open Refine.Gen Refine.Model.Ugrid Refine.Lemmas.Ugrid
open Refine.Model.Meshb (Bytes Status Vertex Cfg wrap32)


/-! ### witness files (all `.lb8.ugrid`) -/

/-- 4 vertices, one tet (1,2,3,6): vertex 6 of 4 (140 bytes) -/
def indexFile : Bytes := ofHex
  "04000000000000000000000001000000000000000000000000000000000000000000000000000000000000000000000000000000000000000000f03f000000000000000000000000000000000000000000000000000000000000f03f000000000000000000000000000000000000000000000000000000000000f03f01000000020000000300000006000000"

/-- the replay file: the same with vertex 50 000 001 -/
def indexCrashFile : Bytes := ofHex
  "04000000000000000000000001000000000000000000000000000000000000000000000000000000000000000000000000000000000000000000f03f000000000000000000000000000000000000000000000000000000000000f03f000000000000000000000000000000000000000000000000000000000000f03f01000000020000000300000081f0fa02"

/-- 4 vertices, one tet (5,1,2,3): the FIRST vertex is 5 of 4 -/
def partIndexFile : Bytes := ofHex
  "04000000000000000000000001000000000000000000000000000000000000000000000000000000000000000000000000000000000000000000f03f000000000000000000000000000000000000000000000000000000000000f03f000000000000000000000000000000000000000000000000000000000000f03f05000000010000000200000003000000"

/-- no vertex, one triangle (1,1,1) tag 1 (44 bytes) -/
def partDiv0File : Bytes := ofHex
  "0000000001000000000000000000000000000000000000000000000001000000010000000100000001000000"

/-- 4 vertices, one tet present, 2^31-1 tets declared -/
def countIntFile : Bytes := ofHex
  "040000000000000000000000ffffff7f000000000000000000000000000000000000000000000000000000000000000000000000000000000000f03f000000000000000000000000000000000000000000000000000000000000f03f000000000000000000000000000000000000000000000000000000000000f03f01000000020000000300000004000000"

/-- `.lb8l.ugrid` declaring 2^63-1 vertices (184 bytes) -/
def countLongFile : Bytes := ofHex
  "ffffffffffffff7f000000000000000000000000000000000100000000000000000000000000000000000000000000000000000000000000000000000000000000000000000000000000000000000000000000000000f03f000000000000000000000000000000000000000000000000000000000000f03f000000000000000000000000000000000000000000000000000000000000f03f0100000000000000020000000000000003000000000000000400000000000000"

def lb8 : Flavor := ⟨false, false⟩
def lb8l : Flavor := ⟨false, true⟩

/-! ### totality -/

/-- the reader models are total functions: every byte string is accepted or mapped to a status -/
theorem decode_total (cfg : Cfg) (fl : Flavor) (bs : Bytes) :
    (∃ m, decodeUgridWith cfg fl bs = .ok m) ∨ (∃ e, decodeUgridWith cfg fl bs = .error e) := by
  cases h : decodeUgridWith cfg fl bs with
  | ok m => exact .inl ⟨m, rfl⟩
  | error e => exact .inr ⟨e, rfl⟩

/-! ### declared counts -/

/-- serial reader, every variant and flavour: an accepted file contains every record it declares — header,
    `nnode` coordinate triples, and per kind `count × node_per` (+ `count` tags) integers of the flavour's width fit in
    the bytes present (all `fread`s of ref_import_bin_ugrid are checked; nothing is sized by a count alone beyond the
    64 MB chunk buffers) -/
theorem accepted_counts_fit (cfg : Cfg) (fl : Flavor) (bs : Bytes) (m : UMesh) (h : decodeUgridWith cfg fl bs = .ok m) :
    7 * fl.ibytes + m.nodes.length * 24 +
      (3 * m.tri.length + 4 * m.qua.length + m.tri.length + m.qua.length + 4 * m.tet.length + 5 * m.pyr.length +
        6 * m.pri.length + 8 * m.hex.length) * fl.ibytes ≤ bs.length :=
  (decode_ok (by decide) h).1

/-! ### node indices -/

/-- **accepted_indices_in_range**, serial reader (as in /repo since 6682479), every flavour: every node index of every
    accepted cell is in `[0, nnode)`, i.e. `1..nnode` in the file -/
theorem accepted_indices_in_range (fl : Flavor) (bs : Bytes) (m : UMesh)
    (h : decodeUgrid fl bs = .ok m) : indicesInRange m = true := by
  rw [indicesInRange_iff]
  obtain ⟨_, h1, h2⟩ := decode_ok (by decide) h
  exact fun k c hc x hx => ⟨h1 k c hc x hx, h2 rfl k c hc x hx⟩

/-- **part_accepted_indices_in_range**, parallel reader (as in /repo since 6682479), every flavour, rank count and chunk
    size: an accepted read holds six cell lists, exactly `nnode` vertices, and every node entry of every stored cell is
    in `[0, nnode)` -/
theorem part_accepted_indices_in_range (fl : Flavor) (np : Nat) (chunk : Option Nat) (bs : Bytes) (pm : PartMesh)
    (h : partRead fl np chunk bs = .ok pm) :
    pm.cells.length = 6 ∧ pm.nodes.length = pm.nnode.toNat ∧
    ∀ p ∈ Kind.all.zip pm.cells, ∀ c ∈ p.2, ∀ x ∈ c.take p.1.nodePer, 0 ≤ x ∧ x < pm.nnode :=
  partRead_ok h

/-- … and it is the reader's own test that guarantees it: with the index check, the chunk loop of
    ref_part_bin_ugrid_cell only ever returns rows whose node entries are in `[0, nnode)`, so `ref_part_implicit` is
    never evaluated on anything else (the model's `Status.undefined` fall-through is not reached through an index) -/
theorem part_rows_checked_before_routing (fl : Flavor) (bs : Bytes) (k : Kind) (nnode co fo : Int)
    (chunk fuel ncell r : Nat) (cs : List (List Int))
    (h : partCellLoop ugridCfg fl bs k nnode co fo chunk fuel ncell r = .ok cs) :
    cs.all (partIndexOk k nnode) = true :=
  partCellLoop_checked rfl h

/-- the four files of the finding are refused with `REF_INVALID` by both readers now -/
theorem index_witnesses_refused :
    decodeUgrid lb8 indexFile = .error .invalid ∧ decodeUgrid lb8 indexCrashFile = .error .invalid ∧
    partRead lb8 1 none indexFile = .error .invalid ∧ partRead lb8 1 none indexCrashFile = .error .invalid ∧
    partRead lb8 1 none partIndexFile = .error .invalid ∧ decodeUgrid lb8 partIndexFile = .error .invalid ∧
    partRead lb8 1 none partDiv0File = .error .invalid ∧ decodeUgrid lb8 partDiv0File = .error .invalid := by
  decide +kernel

/-- the check costs nothing: every well-formed mesh a writer laid out is still returned (C08) -/
theorem checked_reader_roundtrip (fl : Flavor) (m : UMesh) (hw : WellFormed m = true) :
    decodeUgrid fl (encodeUgrid fl m) = .ok (normalize m) :=
  decode_encodeRaw ugridCfg rfl _ (by decide) fl (normalize m) (wf_normalize hw)

/-! ### history: the readers before 6682479 -/

/-- LEGACY serial reader: every node index of an accepted cell is ≥ 0 (≥ 1 in the file) — all `ref_adj_add`
    checked; holds for every reader variant -/
theorem legacy_accepted_indices_nonneg (cfg : Cfg) (fl : Flavor) (bs : Bytes) (m : UMesh)
    (h : decodeUgridWith cfg fl bs = .ok m) : ∀ k : Kind, ∀ c ∈ m.get k, ∀ x ∈ c.take k.nodePer, 0 ≤ x :=
  (decode_ok (by decide) h).2.1

/-- LEGACY serial reader: a file was accepted although a tet refers to vertex 6 (or 50 000 001) of 4 -/
theorem legacy_accepted_indices_in_range_counterexample :
    (∃ m, decodeUgridWith ugridCfgLegacy lb8 indexFile = .ok m ∧ indicesInRange m = false) ∧
    (∃ m, decodeUgridWith ugridCfgLegacy lb8 indexCrashFile = .ok m ∧ indicesInRange m = false) := by
  have h1 : (match decodeUgridWith ugridCfgLegacy lb8 indexFile with
      | .ok m => !indicesInRange m | .error _ => false) = true := by decide +kernel
  have h2 : (match decodeUgridWith ugridCfgLegacy lb8 indexCrashFile with
      | .ok m => !indicesInRange m | .error _ => false) = true := by decide +kernel
  constructor
  · cases hd : decodeUgridWith ugridCfgLegacy lb8 indexFile with
    | error e => simp [hd] at h1
    | ok m => exact ⟨m, rfl, by simpa [hd] using h1⟩
  · cases hd : decodeUgridWith ugridCfgLegacy lb8 indexCrashFile with
    | error e => simp [hd] at h2
    | ok m => exact ⟨m, rfl, by simpa [hd] using h2⟩

/-- LEGACY parallel reader: nothing stood between a first vertex outside `1..nnode` and
    `elements_to_send[ref_part_implicit(..)]++` — `ref_part_implicit(4, 1, 4) = 1` is not a rank of a 1-rank run; with
    `nnode = 0` the macro divides by the part size 0.  The legacy model has no status for these files. -/
theorem legacy_part_index_unchecked_counterexample :
    PartMacros.ref_part_implicit 4 1 4 = 1 ∧ partReadWith ugridCfgLegacy lb8 1 none partIndexFile = .error .undefined ∧
    PartMacros.ref_part_large_part_size 0 1 = 0 ∧
    partReadWith ugridCfgLegacy lb8 1 none partDiv0File = .error .undefined := by
  decide +kernel

/-! ### declared counts in the parallel reader -/

/-- **part_accepted_counts_fit**, parallel reader (as in /repo since 10247dc), every flavour, rank count and chunk size:
    an accepted read has passed the regenerated header test — every one of the seven counts is ≥ 0 and its section fits in
    the bytes present (`count ≤ file_size / record_bytes`, C integer division) -/
theorem part_accepted_counts_fit (fl : Flavor) (np : Nat) (chunk : Option Nat) (bs : Bytes) (pm : PartMesh)
    (h : partRead fl np chunk bs = .ok pm) :
    ∃ hdr rest, rdHeaderPart fl bs = .ok (hdr, rest) ∧ pm.nnode = hdr.getD 0 0 ∧
      UgridOffsets.counts_fit (bs.length : Int) (UgridOffsets.ibyte fl.fat) (hdr.getD 0 0) (hdr.getD 1 0)
        (hdr.getD 2 0) (hdr.getD 3 0) (hdr.getD 4 0) (hdr.getD 5 0) (hdr.getD 6 0) :=
  partRead_counts rfl (by decide) h

/-- the chunk of ref_part_bin_ugrid_cell never exceeds `MAX(1000000, ncell)` for a count an `int` holds -/
theorem part_chunk_le (ncell : Int) (np : Nat) (h0 : 0 ≤ ncell) (h1 : ncell < 2 ^ 31) (hnp : 1 ≤ np) :
    UgridOffsets.part_chunk wrap32 ncell np ≤ max 1000000 ncell := by
  unfold UgridOffsets.part_chunk
  have hq0 : 0 ≤ Int.tdiv ncell (np : Int) := Int.tdiv_nonneg h0 (by omega)
  have hq1 : Int.tdiv ncell (np : Int) ≤ ncell := by
    rw [Int.tdiv_eq_ediv_of_nonneg h0]
    exact Int.ediv_le_self _ h0
  have hw : wrap32 (Int.tdiv ncell (np : Int)) = Int.tdiv ncell (np : Int) :=
    Refine.Lemmas.Codec.wrap32_of_int32 (by unfold Refine.Model.Meshb.int32; constructor <;> omega)
  rw [hw]
  omega

/-- **what the count test buys** (`_partial`: for files below 2^33 bytes): when the seven counts pass `counts_fit` against
    a file of fewer than 2^33 bytes, none of the count-driven computations of the parallel reader overflows —
    `nnode + nproc` and the section offsets in `long`, `size_per * chunk` in `int` (`partCountHazard = false`), for every
    rank count an `int` holds.  RESIDUAL (not a malformed-input matter): a VALID file of 2^33 bytes or more can hold more
    than 2^31 / size_per cells per rank, and `size_per * chunk` then still overflows `int`; full statement without the size
    bound needs `chunk = MIN(chunk, REF_INT_MAX / size_per)` in ref_part_bin_ugrid_cell. -/
theorem part_counts_no_overflow_partial (fl : Flavor) (len : Nat) (hlen : len < 2 ^ 33) (np : Nat) (hnp : 1 ≤ np)
    (hnp2 : np < 2 ^ 31) (n0 n1 n2 n3 n4 n5 n6 : Int)
    (hfit : UgridOffsets.counts_fit (len : Int) (UgridOffsets.ibyte fl.fat) n0 n1 n2 n3 n4 n5 n6) :
    partCountHazard np [n0, n1, n2, n3, n4, n5, n6] = false := by
  unfold UgridOffsets.counts_fit at hfit
  rw [ibyte_eq] at hfit
  have tdiv : ∀ (a b : Int), 0 ≤ a → Int.tdiv a b = a / b := fun a b h => Int.tdiv_eq_ediv_of_nonneg h
  have hb : n0 ≤ (len : Int) / 24 ∧ 0 ≤ n0 ∧ 0 ≤ n1 ∧ 0 ≤ n2 ∧ 0 ≤ n3 ∧ 0 ≤ n4 ∧ 0 ≤ n5 ∧ 0 ≤ n6 ∧
      4 * n1 ≤ (len : Int) / 4 ∧ 5 * n2 ≤ (len : Int) / 4 ∧ 4 * n3 ≤ (len : Int) / 4 ∧ 5 * n4 ≤ (len : Int) / 4 ∧
      6 * n5 ≤ (len : Int) / 4 ∧ 8 * n6 ≤ (len : Int) / 4 := by
    rcases ibytes_cases fl with h | h <;> rw [h] at hfit <;> push_cast at hfit <;>
      (repeat rw [tdiv _ _ (by positivity)] at hfit) <;> omega
  obtain ⟨b0, p0, p1, p2, p3, p4, p5, p6, q1, q2, q3, q4, q5, q6⟩ := hb
  have c1 := part_chunk_le n1 np p1 (by omega) hnp
  have c2 := part_chunk_le n2 np p2 (by omega) hnp
  have c3 := part_chunk_le n3 np p3 (by omega) hnp
  have c4 := part_chunk_le n4 np p4 (by omega) hnp
  have c5 := part_chunk_le n5 np p5 (by omega) hnp
  have c6 := part_chunk_le n6 np p6 (by omega) hnp
  unfold partCountHazard partHeaderHazard
  simp only [List.getD_cons_zero, List.getD_cons_succ, Kind.all, List.any_cons, List.any_nil, Kind.hdrIndex, Bool.or_false,
    Bool.or_eq_false_iff, decide_eq_false_iff_not]
  have s1 : Kind.sizePer .tri = 4 := by decide
  have s2 : Kind.sizePer .qua = 5 := by decide
  have s3 : Kind.sizePer .tet = 4 := by decide
  have s4 : Kind.sizePer .pyr = 5 := by decide
  have s5 : Kind.sizePer .pri = 6 := by decide
  have s6 : Kind.sizePer .hex = 8 := by decide
  rw [s1, s2, s3, s4, s5, s6]
  push_cast
  refine ⟨⟨by omega, ⟨by omega, by omega, by omega, by omega, by omega, by omega, by omega⟩⟩,
    by omega, by omega, by omega, by omega, by omega, by omega⟩

/-- the two files of finding ugrid-part-count-overflow are refused with `REF_FAILURE` now (both readers) -/
theorem count_witnesses_refused :
    partRead lb8 1 none countIntFile = .error .failure ∧ partRead lb8l 1 none countLongFile = .error .failure ∧
    decodeUgrid lb8 countIntFile = .error .failure := by
  decide +kernel

/-- HISTORY, parallel reader before 10247dc (`ugridCfgNoCount`): the declared counts entered `int` / `long` arithmetic
    before any byte of the sections was looked at — `size_per * chunk` with `chunk = MAX(1000000, ncell / nproc)`
    overflowed `int` for 2^31-1 declared tets; `ref_part_first(nnode, nproc, 1)` formed `nnode + nproc` in `long` for 2^63-1
    declared vertices -/
theorem legacy_part_count_overflow_counterexample :
    partReadWith ugridCfgNoCount lb8 1 none countIntFile = .error .undefined ∧
    partReadWith ugridCfgNoCount lb8l 1 none countLongFile = .error .undefined := by
  decide +kernel

/-- 4 vertices, one tet (1,2,3,4): a valid 140-byte file -/
def okFile : Bytes := ofHex
  "04000000000000000000000001000000000000000000000000000000000000000000000000000000000000000000000000000000000000000000f03f000000000000000000000000000000000000000000000000000000000000f03f000000000000000000000000000000000000000000000000000000000000f03f01000000020000000300000004000000"

/-- non-vacuity of `accepted_counts_fit` / `accepted_indices_in_range` / `part_accepted_indices_in_range`: both readers
    accept `okFile` (140 bytes = 7·4 + 4·24 + 4·4) -/
example : (∃ m, decodeUgrid lb8 okFile = .ok m ∧ m.tet = [[0, 1, 2, 3]] ∧ m.nodes.length = 4 ∧ okFile.length = 140) ∧
    (∃ pm, partRead lb8 3 (some 1) okFile = .ok pm ∧ pm.cells.getD 2 [] = [[0, 1, 2, 3]] ∧ pm.nnode = 4) := by
  have h : (match decodeUgrid lb8 okFile with
      | .ok m => m.tet == [[0, 1, 2, 3]] && m.nodes.length == 4 && okFile.length == 140 | .error _ => false) = true := by
    decide +kernel
  have h' : (match partRead lb8 3 (some 1) okFile with
      | .ok pm => pm.cells.getD 2 [] == [[0, 1, 2, 3]] && pm.nnode == 4 | .error _ => false) = true := by
    decide +kernel
  constructor
  · cases hd : decodeUgrid lb8 okFile with
    | error e => simp [hd] at h
    | ok m => exact ⟨m, rfl, by simpa [hd, and_assoc] using h⟩
  · cases hd : partRead lb8 3 (some 1) okFile with
    | error e => simp [hd] at h'
    | ok pm => exact ⟨pm, rfl, by simpa [hd] using h'⟩

end Refine.Props.C20Ugrid
