import Refine.Lemmas.UgridC20
import Refine.Lemmas.UgridPartRead

/-!
  C20 — malformed input is rejected cleanly: the binary UGRID readers.

  `decodeUgrid` (= `decodeUgridWith ugridCfg`) is the *faithful* model of `ref_import_bin_ugrid` as it is in /repo
  today (tied by the `c20_ugrid_mut` stream: C status and grid dump = model status and dump on every mutant):
    * every `fread` is checked → `REF_FAILURE` on a short file; the buffers it allocates are bounded by 64 MB;
    * a section with a count ≤ 0 is skipped; a negative `nnode` is `REF_FAILURE` (`ref_malloc` of a negative size);
    * node index ≤ 0 → `REF_INVALID` (`ref_adj_add`); **no comparison of a node index with `nnode`**.
  `partRead` is the faithful model of `ref_part_bin_ugrid`: same `fread` checks, but **no index check at all** — the
  first node of every cell goes through `ref_part_implicit` and indexes `elements_to_send[]`; outside `1..nnode` (or
  with `nnode = 0`, a division by zero) the model has no status (`Status.undefined`).
  Where the C lacks the check the obligation is false of the faithful model: the `*_counterexample` theorems prove the
  negation on a concrete 44..140-byte file; the same bytes are replayed against the real readers by `./check C20`
  (stream `c20_ugrid_index`; findings/ugrid-vertex-index-unchecked).  The positive statement is proved for the reader
  variant `ugridCfgFixed` (the maintainer-style repair: `1 ≤ index ≤ nnode` per connectivity entry, as commit 92cf05c
  did for meshb), which still round-trips every well-formed mesh.
-/
namespace Refine.Props.C20Ugrid
open Refine.Gen Refine.Model.Ugrid Refine.Lemmas.Ugrid
open Refine.Model.Meshb (Bytes Status Vertex Cfg)

/-! ### witness files (all `.lb8.ugrid`) -/

/-- 4 vertices, one tet (1,2,3,6): vertex 6 of 4 (140 bytes) -/
def indexFile : Bytes := ofHex
  "04000000000000000000000001000000000000000000000000000000000000000000000000000000000000000000000000000000000000000000f03f000000000000000000000000000000000000000000000000000000000000f03f000000000000000000000000000000000000000000000000000000000000f03f01000000020000000300000006000000"

/-- the replay file: the same with vertex 50 000 001 -/
def indexCrashFile : Bytes := ofHex
  "04000000000000000000000001000000000000000000000000000000000000000000000000000000000000000000000000000000000000000000f03f000000000000000000000000000000000000000000000000000000000000f03f000000000000000000000000000000000000000000000000000000000000f03f01000000020000000300000081f0fa02"

/-- 4 vertices, one tet (5,1,2,3): the FIRST vertex is 5 of 4 -/
def partIndexFile : Bytes := ofHex
  "04000000000000000000000001000000000000000000000000000000000000000000000000000000000000000000000000000000000000000000f03f000000000000000000000000000000000000000000000000000000000000f03f000000000000000000000000000000000000000000000000000000000000f03f05000000010000000200000003000000"

/-- no vertex, one triangle (1,1,1) tag 1 (44 bytes) -/
def partDiv0File : Bytes := ofHex
  "0000000001000000000000000000000000000000000000000000000001000000010000000100000001000000"

/-- 4 vertices, one tet present, 2^31-1 tets declared -/
def countIntFile : Bytes := ofHex
  "040000000000000000000000ffffff7f000000000000000000000000000000000000000000000000000000000000000000000000000000000000f03f000000000000000000000000000000000000000000000000000000000000f03f000000000000000000000000000000000000000000000000000000000000f03f01000000020000000300000004000000"

/-- `.lb8l.ugrid` declaring 2^63-1 vertices (184 bytes) -/
def countLongFile : Bytes := ofHex
  "ffffffffffffff7f000000000000000000000000000000000100000000000000000000000000000000000000000000000000000000000000000000000000000000000000000000000000000000000000000000000000f03f000000000000000000000000000000000000000000000000000000000000f03f000000000000000000000000000000000000000000000000000000000000f03f0100000000000000020000000000000003000000000000000400000000000000"

def lb8 : Flavor := ⟨false, false⟩
def lb8l : Flavor := ⟨false, true⟩

/-! ### totality -/

/-- the reader models are total functions: every byte string is accepted or mapped to a status -/
theorem decode_total (cfg : Cfg) (fl : Flavor) (bs : Bytes) :
    (∃ m, decodeUgridWith cfg fl bs = .ok m) ∨ (∃ e, decodeUgridWith cfg fl bs = .error e) := by
  cases h : decodeUgridWith cfg fl bs with
  | ok m => exact .inl ⟨m, rfl⟩
  | error e => exact .inr ⟨e, rfl⟩

/-! ### declared counts -/

/-- FAITHFUL and FIXED serial reader, every flavour: an accepted file contains every record it declares — header,
    `nnode` coordinate triples, and per kind `count × node_per` (+ `count` tags) integers of the flavour's width fit in
    the bytes present (all `fread`s of ref_import_bin_ugrid are checked; nothing is sized by a count alone beyond the
    64 MB chunk buffers) -/
theorem accepted_counts_fit (cfg : Cfg) (fl : Flavor) (bs : Bytes) (m : UMesh) (h : decodeUgridWith cfg fl bs = .ok m) :
    7 * fl.ibytes + m.nodes.length * 24 +
      (3 * m.tri.length + 4 * m.qua.length + m.tri.length + m.qua.length + 4 * m.tet.length + 5 * m.pyr.length +
        6 * m.pri.length + 8 * m.hex.length) * fl.ibytes ≤ bs.length :=
  (decode_ok (by decide) h).1

/-! ### node indices -/

/-- FAITHFUL serial reader (partial form of `accepted_indices_in_range`): every node index of an accepted cell is
    ≥ 0, i.e. ≥ 1 in the file — the only thing `ref_adj_add` checks.  The upper bound is NOT checked, see below. -/
theorem accepted_indices_in_range_partial (cfg : Cfg) (fl : Flavor) (bs : Bytes) (m : UMesh)
    (h : decodeUgridWith cfg fl bs = .ok m) : ∀ k : Kind, ∀ c ∈ m.get k, ∀ x ∈ c.take k.nodePer, 0 ≤ x :=
  (decode_ok (by decide) h).2.1

/-- FAITHFUL serial reader: a file is accepted although a tet refers to vertex 6 of 4 -/
theorem accepted_indices_in_range_counterexample :
    ∃ m, decodeUgrid lb8 indexFile = .ok m ∧ indicesInRange m = false := by
  have h : (match decodeUgrid lb8 indexFile with | .ok m => !indicesInRange m | .error _ => false) = true := by
    decide +kernel
  cases hd : decodeUgrid lb8 indexFile with
  | error e => simp [hd] at h
  | ok m => exact ⟨m, rfl, by simpa [hd] using h⟩

/-- … with any size of index: the replay file (vertex 50 000 001 of 4) is accepted too -/
theorem accepted_indices_in_range_counterexample_replay :
    ∃ m, decodeUgrid lb8 indexCrashFile = .ok m ∧ indicesInRange m = false := by
  have h : (match decodeUgrid lb8 indexCrashFile with | .ok m => !indicesInRange m | .error _ => false) = true := by
    decide +kernel
  cases hd : decodeUgrid lb8 indexCrashFile with
  | error e => simp [hd] at h
  | ok m => exact ⟨m, rfl, by simpa [hd] using h⟩

/-- FAITHFUL parallel reader: nothing stands between a first vertex outside `1..nnode` and
    `elements_to_send[ref_part_implicit(..)]++` — `ref_part_implicit(4, 1, 4) = 1` is not a rank of a 1-rank run;
    with `nnode = 0` the macro divides by the part size 0.  The model has no status for these files. -/
theorem part_index_unchecked_counterexample :
    PartMacros.ref_part_implicit 4 1 4 = 1 ∧ partRead lb8 1 none partIndexFile = .error .undefined ∧
    PartMacros.ref_part_large_part_size 0 1 = 0 ∧ partRead lb8 1 none partDiv0File = .error .undefined := by
  decide +kernel

/-- FAITHFUL parallel reader: the declared counts enter `int` / `long` arithmetic before any byte of the sections is
    looked at — `size_per * chunk` with `chunk = MAX(1000000, ncell / nproc)` overflows `int` for 2^31-1 declared tets;
    `ref_part_first(nnode, nproc, 1)` forms `nnode + nproc` in `long` for 2^63-1 declared vertices.  The serial reader
    returns `REF_FAILURE` on the first of these files (short read) -/
theorem part_count_overflow_counterexample :
    partRead lb8 1 none countIntFile = .error .undefined ∧ partRead lb8l 1 none countLongFile = .error .undefined ∧
    decodeUgrid lb8 countIntFile = .error .failure := by
  decide +kernel

/-- FIXED serial reader (`1 ≤ index ≤ nnode` per connectivity entry): every node index of every accepted cell is in
    `[0, nnode)` -/
theorem accepted_indices_in_range (fl : Flavor) (bs : Bytes) (m : UMesh)
    (h : decodeUgridWith ugridCfgFixed fl bs = .ok m) : indicesInRange m = true := by
  rw [indicesInRange_iff]
  obtain ⟨_, h1, h2⟩ := decode_ok (by decide) h
  exact fun k c hc x hx => ⟨h1 k c hc x hx, h2 rfl k c hc x hx⟩

example : decodeUgridWith ugridCfgFixed lb8 indexFile = .error .invalid ∧
    decodeUgridWith ugridCfgFixed lb8 indexCrashFile = .error .invalid := by decide +kernel

/-- the repair costs nothing: the FIXED reader still returns every well-formed mesh a writer laid out -/
theorem fixed_reader_roundtrip (fl : Flavor) (m : UMesh) (hw : WellFormed m = true) :
    decodeUgridWith ugridCfgFixed fl (encodeUgrid fl m) = .ok (normalize m) :=
  decode_encodeRaw ugridCfgFixed rfl _ (by decide) fl (normalize m) (wf_normalize hw)

/-- non-vacuity of `accepted_counts_fit` / `accepted_indices_in_range_partial`: the faithful reader accepts
    `indexFile` (140 bytes = 7·4 + 4·24 + 4·4) -/
example : ∃ m, decodeUgrid lb8 indexFile = .ok m ∧ m.tet.length = 1 ∧ m.nodes.length = 4 ∧ indexFile.length = 140 := by
  have h : (match decodeUgrid lb8 indexFile with
      | .ok m => m.tet.length == 1 && m.nodes.length == 4 && indexFile.length == 140 | .error _ => false) = true := by
    decide +kernel
  cases hd : decodeUgrid lb8 indexFile with
  | error e => simp [hd] at h
  | ok m => exact ⟨m, rfl, by simpa [hd, and_assoc] using h⟩

end Refine.Props.C20Ugrid
