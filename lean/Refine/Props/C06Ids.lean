import Refine.Model.DistIds
import Refine.Lemmas.DistIds
import Refine.Props.C06
import Refine.Props.C14NodeCell

/-!
  C06, id part — the vertex global ids are exactly `0..N-1`, identical on all ranks, after EVERY
  `ref_node_synchronize_globals` of every history.

  `Refine.Props.C06.sync_bijection` proves this for ONE call under the precondition `SyncInv`.  This file closes the
  gap: the local id invariant `IdInvL` (the Lean form of `id_invariant` in `checks/streams_dist.py`) implies
  `SyncInv`, is preserved by the four things the adaptation passes do to `ref_node` between two synchronisations
  (`Refine.Model.DistIds.LocalOp`, literal `nextGlobal / add / remove / removeWithoutGlobal`) on any rank in any
  interleaving, and is re-established by `syncGlobals` itself.

  Vocabulary (`Refine/Lemmas/DistIds.lean`):
  * `IdInvL A` on the abstraction `A = absWorld old w` (per rank: fresh-id count `k_r = new_n_global - old`, live
    ids = `sorted_global`, unused ids): per rank the live and the unused ids are duplicate-free, disjoint, inside
    `[0, old + k_r)` and cover `[old, old + k_r)`; every shared id in `[0, old)` is live on at least one rank or in
    exactly one rank's unused list, never both.
  * `WorldInv w := ∃ old, (∀ s ∈ w, s.oldN = old ∧ old ≤ s.newN ∧ NodeInv s) ∧ IdInvL (absWorld old w)`.
  * `enabled w e` (`Refine/Model/DistIds.lean`): the C04 ownership guards.  They are HYPOTHESES here: `remove` only
    of a vertex no other rank stores, `removeWithoutGlobal` only of a ghost copy of a shared vertex.
-/
namespace Refine.Props.C06Ids
open Refine.Model.Dist Refine.Model.NodeIds Refine.Model.NodeIds.NodeIds Refine.Model.DistIds
open Refine.Lemmas.Dist Refine.Lemmas.DistSync Refine.Lemmas.DistIds
open Refine.Model.Comm (World)

/-- the local (unshifted) id invariant implies the shifted invariant `IdInv` that `sync_bijection` assumes: the
    shifted fresh intervals `[old + off r, old + off r + k_r)` are pairwise disjoint and cover `[old, M)` -/
theorem idInvL_idInv (A : IdWorld) (h : IdInvL A) : IdInv A := h.toIdInv

/-- **IdInv_step**: every enabled event — any of the four local ops on any rank, or the synchronisation —
    preserves the invariant. -/
theorem IdInv_step (w : World NodeIds) (e : Event) : WorldInv w → enabled w e = true → WorldInv (stepWorld w e) :=
  fun h hen => step_inv e h hen

/-- the same, rank by rank and with `old_n_global` exposed: a local op does not change `old_n_global` -/
theorem IdInv_step_local (old : Int) (w : World NodeIds) (r : Nat) (o : LocalOp) :
    WorldInvAt old w → enabled w (.op r o) = true → WorldInvAt old (stepWorld w (.op r o)) :=
  fun h hen => op_step h r o hen

/-- **reachable_IdInv**: the invariant holds after every enabled history (any interleaving of local ops of the
    ranks, any number of synchronisations) from a world that satisfies it. -/
theorem reachable_IdInv (w₀ : World NodeIds) (h : List Event) :
    WorldInv w₀ → enabledAll h w₀ = true → WorldInv (run h w₀) :=
  fun hw hen => run_inv h w₀ hw hen

/-- the invariant gives the precondition of `Refine.Props.C06.sync_bijection`: that theorem applies at every
    synchronisation of every reachable history -/
theorem worldInv_syncInv (w : World NodeIds) : WorldInv w → ∃ old, SyncInv old w :=
  fun ⟨old, h⟩ => ⟨old, worldInvAt_syncInv h⟩

/-- `ref_node_synchronize_globals` re-establishes the invariant with `old_n_global = new_n_global = N` on every
    rank (`N = old + Σ fresh − #unused`, the `IdWorld.N` of `sync_bijection`) -/
theorem sync_reestablishes (old : Int) (w : World NodeIds) :
    WorldInvAt old w → WorldInvAt (absWorld old w).N (syncGlobals w) :=
  fun h => sync_core h

/-- **ids_contiguous_after_sync** (the C06 sentence for the ids).  On a world satisfying the invariant,
    `ref_node_synchronize_globals` ends with a common `N ≥ 0` such that: every rank has
    `old_n_global = new_n_global = N`, an empty unused list and a consistent `ref_node` (`NodeInv`:
    `sorted_global` strictly increasing and exactly the ids of the valid slots of `global[]`); every live id is in
    `[0, N)`; every id of `[0, N)` is live on some rank; and two stored vertices — slot `l` of rank `r` holding old
    id `g`, slot `l'` of rank `q` holding old id `g'` — read the SAME new id from `global[]` iff they are the same
    vertex (the same shared id `g = g' < old_n_global`, or the same fresh id on the same rank).
    Proof: `sync_bijection` (closed form of the loop-by-loop model, `newId` monotone bijection onto `[0,N)`) applied
    through `worldInv_syncInv`. -/
theorem ids_contiguous_after_sync (w : World NodeIds) (h : WorldInv w) :
    ∃ (old N : Int), 0 ≤ N ∧ (∀ s ∈ w, s.oldN = old) ∧ (syncGlobals w).length = w.length ∧
    (∀ s ∈ syncGlobals w, s.oldN = N ∧ s.newN = N ∧ s.unusedStk = [] ∧ NodeInv s ∧
      ∀ g ∈ s.keys, 0 ≤ g ∧ g < N) ∧
    (∀ g, 0 ≤ g → g < N → ∃ s ∈ syncGlobals w, g ∈ s.keys) ∧
    (∀ (r q : Nat) (s t s' t' : NodeIds) (g g' : Int) (l l' : Nat), w[r]? = some s → w[q]? = some t →
      (syncGlobals w)[r]? = some s' → (syncGlobals w)[q]? = some t' → (g, l) ∈ s.sorted → (g', l') ∈ t.sorted →
      (s'.global.getD l (-1) = t'.global.getD l' (-1) ↔ g = g' ∧ (g < old ∨ r = q))) := by
  obtain ⟨old, h⟩ := h
  obtain ⟨h1, h2, h3, h4, h5⟩ := sync_post h
  exact ⟨old, (absWorld old w).N, h1, fun s hs => (h.1 s hs).1, h2, h3, h4, h5⟩

/-- the same after the last `sync` of any enabled history from a world satisfying the invariant: with
    `w = run pre w₀` the state just before that `sync`, `run (pre ++ [sync]) w₀ = syncGlobals w` and the conclusion
    of `ids_contiguous_after_sync` holds for `w`. -/
theorem ids_contiguous_reachable (w₀ : World NodeIds) (pre : List Event) (h₀ : WorldInv w₀)
    (hen : enabledAll pre w₀ = true) :
    run (pre ++ [Event.sync]) w₀ = syncGlobals (run pre w₀) ∧
    ∃ (old N : Int), 0 ≤ N ∧ (∀ s ∈ run pre w₀, s.oldN = old) ∧
    (syncGlobals (run pre w₀)).length = (run pre w₀).length ∧
    (∀ s ∈ syncGlobals (run pre w₀), s.oldN = N ∧ s.newN = N ∧ s.unusedStk = [] ∧ NodeInv s ∧
      ∀ g ∈ s.keys, 0 ≤ g ∧ g < N) ∧
    (∀ g, 0 ≤ g → g < N → ∃ s ∈ syncGlobals (run pre w₀), g ∈ s.keys) ∧
    (∀ (r q : Nat) (s t s' t' : NodeIds) (g g' : Int) (l l' : Nat),
      (run pre w₀)[r]? = some s → (run pre w₀)[q]? = some t →
      (syncGlobals (run pre w₀))[r]? = some s' → (syncGlobals (run pre w₀))[q]? = some t' →
      (g, l) ∈ s.sorted → (g', l') ∈ t.sorted →
      (s'.global.getD l (-1) = t'.global.getD l' (-1) ↔ g = g' ∧ (g < old ∨ r = q))) :=
  ⟨by rw [run_append]; rfl, ids_contiguous_after_sync _ (reachable_IdInv w₀ pre h₀ hen)⟩

/-! ## non-vacuity

  A 2-rank world built with the model functions from `ref_node_create`: rank 0 stores the vertices 0,1,2, rank 1
  the vertices 1,2,3 (1 and 2 are shared), `ref_node_initialize_n_global(4)` on both. -/

def exRank0 : NodeIds := ((((create.add 0).2.2.add 1).2.2.add 2).2.2).initNGlobal 4
def exRank1 : NodeIds := ((((create.add 1).2.2.add 2).2.2.add 3).2.2).initNGlobal 4
def exW0 : World NodeIds := [exRank0, exRank1]

/-- the start world satisfies the invariant (with `old_n_global = 4`) -/
theorem exW0_inv : WorldInv exW0 := by
  refine ⟨4, ?_, ?_⟩
  · intro s hs
    simp only [exW0, List.mem_cons, List.not_mem_nil, or_false] at hs
    rcases hs with rfl | rfl
    · exact ⟨by decide, by decide,
        Refine.Props.C14NodeCell.node_inv_all_sequences [.add 0, .add 1, .add 2, .initNGlobal 4]⟩
    · exact ⟨by decide, by decide,
        Refine.Props.C14NodeCell.node_inv_all_sequences [.add 1, .add 2, .add 3, .initNGlobal 4]⟩
  · have hL : (absWorld 4 exW0).live = [[0, 1, 2], [1, 2, 3]] := by decide +kernel
    have hU : (absWorld 4 exW0).unused = [[], []] := by decide +kernel
    have hK : (absWorld 4 exW0).k = [0, 0] := by decide +kernel
    have hl : ∀ r, (absWorld 4 exW0).liveOf r = [[0, 1, 2], [1, 2, 3]].getD r [] := fun r => by
      unfold IdWorld.liveOf; rw [hL]
    have hu : ∀ r, (absWorld 4 exW0).unusedOf r = [] := fun r => by
      unfold IdWorld.unusedOf; rw [hU]
      match r with
      | 0 => rfl
      | 1 => rfl
      | n + 2 => rfl
    have hk : ∀ r, (absWorld 4 exW0).kOf r = 0 := fun r => by
      unfold IdWorld.kOf; rw [hK]
      match r with
      | 0 => rfl
      | 1 => rfl
      | n + 2 => rfl
    have hold : (absWorld 4 exW0).old = 4 := rfl
    refine ⟨by decide, by rw [hL, hK]; rfl, by rw [hU, hK]; rfl, ?_, ?_, ?_, ?_, ?_, ?_, ?_, ?_, ?_⟩
    · intro r
      rw [hl]
      match r with
      | 0 => decide
      | 1 => decide
      | n + 2 => simp
    · intro r; rw [hu]; exact List.nodup_nil
    · intro r g _; rw [hu]; simp
    · intro r g hg
      rw [hl] at hg
      rw [hk, hold]
      match r with
      | 0 => simp at hg; omega
      | 1 => simp at hg; omega
      | n + 2 => simp at hg
    · intro r g hg; rw [hu] at hg; simp at hg
    · intro r g h1 h2
      rw [hk, hold] at h2
      rw [hold] at h1
      simp at h2
      omega
    · intro g h0 h4
      rw [hold] at h4
      have : g = 0 ∨ g = 1 ∨ g = 2 ∨ g = 3 := by omega
      rcases this with rfl | rfl | rfl | rfl
      · exact Or.inl ⟨0, by rw [hl]; decide⟩
      · exact Or.inl ⟨0, by rw [hl]; decide⟩
      · exact Or.inl ⟨0, by rw [hl]; decide⟩
      · exact Or.inl ⟨1, by rw [hl]; decide⟩
    · intro g p q _ hg; rw [hu] at hg; simp at hg
    · intro g p q _ hg; rw [hu] at hg; simp at hg

/-- a history with each of the four local ops and two synchronisations: rank 0 creates a fresh vertex (id 4) and
    collapses its local vertex 0 (slot 0); rank 1 creates a fresh vertex (the same number 4), rejects a trial vertex
    (fresh id 5, returned to its unused list) and drops its ghost copy of vertex 1 (slot 0); sync; rank 0 creates a
    fresh vertex, collapses a local vertex (slot 1), rejects a trial vertex (which re-uses the id just freed) and
    drops its ghost copy of the shared vertex 1 (slot 2); rank 1 rejects a trial vertex; sync -/
def exHist : List Event :=
  [.op 0 .addFresh, .op 0 (.remove 0), .op 1 .addFresh, .op 1 .trial, .op 1 (.removeWithoutGlobal 0), .sync,
   .op 0 .addFresh, .op 0 (.remove 1), .op 0 .trial, .op 0 (.removeWithoutGlobal 2), .op 1 .trial, .sync]

/-- every event of the history is enabled -/
example : enabledAll exHist exW0 = true := by decide +kernel

/-- so the hypotheses of `reachable_IdInv` / `ids_contiguous_reachable` are met -/
example : WorldInv (run exHist exW0) := reachable_IdInv exW0 exHist exW0_inv (by decide +kernel)

/-- what the literal model computes along the history (`sorted_global`, unused list, `old_n_global`,
    `new_n_global` per rank): just before the first `sync` rank 0 holds the ids 1,2 and its fresh 4 with 0 unused,
    rank 1 holds 2,3 and its own fresh 4 with the rejected fresh 5 unused; after it the ids are `0..4` (the shared
    vertex has id 1 on both ranks); after the second `sync` they are `0..4` again -/
example : (run (exHist.take 5) exW0).map (fun s => (s.keys, s.unusedStk, s.oldN, s.newN))
      = [([1, 2, 4], [0], 4, 5), ([2, 3, 4], [5], 4, 6)] ∧
    (run (exHist.take 6) exW0).map (fun s => (s.keys, s.unusedStk, s.oldN, s.newN))
      = [([0, 1, 3], [], 5, 5), ([1, 2, 4], [], 5, 5)] ∧
    (run (exHist.take 11) exW0).map (fun s => (s.keys, s.unusedStk, s.oldN, s.newN))
      = [([3, 5], [0], 5, 6), ([1, 2, 4], [5], 5, 6)] ∧
    (run exHist exW0).map (fun s => (s.keys, s.unusedStk, s.oldN, s.newN))
      = [([2, 4], [], 5, 5), ([0, 1, 3], [], 5, 5)] := by decide +kernel

/-! ## a side condition that cannot be dropped

  `ref_node_remove_without_global` of a vertex whose id was handed out by `ref_node_next_global` since the last
  synchronisation (`g ≥ old_n_global`) breaks the invariant, even when another rank has the same NUMBER live (for a
  fresh vertex of its own): the id is then neither live nor unused on its rank, and the next synchronisation leaves
  a hole.  Hence the guard `g < old_n_global` in `enabled`. -/

/-- both ranks created a fresh vertex numbered 4 -/
def exW1 : World NodeIds := run [.op 0 .addFresh, .op 1 .addFresh] exW0

/-- slot 3 of rank 0 is valid and holds id 4, which is also live on rank 1 — but `removeWithoutGlobal 3` on rank 0 is
    not enabled (4 is not a shared id), and performing it anyway gives a world that violates the invariant; the
    following `ref_node_synchronize_globals` ends with `n_global = 6` while id 4 is live nowhere -/
theorem removeWithoutGlobal_fresh_breaks :
    exRank0.validSlot 0 = true ∧ (exW1.map fun s => s.validSlot 3) = [true, true] ∧
    (exW1.map fun s => s.globalOf 3) = [4, 4] ∧ liveElsewhere exW1 0 4 = true ∧
    enabled exW1 (.op 0 (.removeWithoutGlobal 3)) = false ∧
    WorldInv exW1 ∧ ¬ WorldInv (stepWorld exW1 (.op 0 (.removeWithoutGlobal 3))) ∧
    (syncGlobals (stepWorld exW1 (.op 0 (.removeWithoutGlobal 3)))).map (fun s => (s.keys, s.oldN, s.newN))
      = [([0, 1, 2], 6, 6), ([1, 2, 3, 5], 6, 6)] := by
  refine ⟨by decide +kernel, by decide +kernel, by decide +kernel, by decide +kernel, by decide +kernel,
    reachable_IdInv exW0 _ exW0_inv (by decide +kernel), ?_, by decide +kernel⟩
  rintro ⟨old, h1, h2⟩
  have hw : (stepWorld exW1 (.op 0 (.removeWithoutGlobal 3))).map (fun s => (s.keys, s.unusedStk, s.oldN, s.newN))
      = [([0, 1, 2], [], 4, 5), ([1, 2, 3, 4], [], 4, 5)] := by decide +kernel
  generalize stepWorld exW1 (.op 0 (.removeWithoutGlobal 3)) = w at *
  match w, hw with
  | [], hw => simp at hw
  | [_], hw => simp at hw
  | _ :: _ :: _ :: _, hw => simp at hw
  | [s0, s1], hw =>
    simp only [List.map_cons, List.map_nil, List.cons.injEq, Prod.mk.injEq, and_true] at hw
    obtain ⟨⟨hk0, hu0, ho0, hn0⟩, _⟩ := hw
    have hold : old = 4 := by rw [← (h1 s0 (by simp)).1, ho0]
    subst hold
    have h0 : ([s0, s1] : World NodeIds)[0]? = some s0 := rfl
    have := h2.fresh_cov 0 4 (le_refl _) (by
      rw [kOf_abs_some h0]
      show (4 : Int) < 4 + _
      simp only [newNodes, hn0, ho0]
      decide)
    rw [liveOf_abs_some h0, unusedOf_abs_some h0, hk0, mem_unusedArr, hu0] at this
    simp at this

end Refine.Props.C06Ids
