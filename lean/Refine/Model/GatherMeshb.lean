import Refine.Model.Meshb
import Refine.Model.Par
import Refine.Gen.GatherMeshb

/-!
  The PARALLEL libMeshb writer `ref_gather_meshb` (src/ref_gather.c) as an SPMD function: the world is the list of
  per-rank states, the result is the byte string rank 0 writes.

    ref_gather_meshb        header, version choice, per keyword `next_position` arithmetic, `End`
    ref_gather_node         vertex records: the chunked `ref_mpi_sum` loop          = `Par.gatherNode` (reused)
    ref_cell_ncell          owned cells per group, all ranks                        = `Par.ncell`      (reused)
    ref_gather_cell         rank 0 writes the cells it owns, then what every worker sends, in rank order; the owner
                            filter is `ref_cell_part` (`Par.emitted`, reused).  The pyramid re-ordering exists TWICE in the
                            C (own cells / received cells): `cellRecordOwn` uses the generated table `PyrPerm.gatherCell0`,
                            `cellRecordRecv` uses `PyrPerm.gatherCell1`.
    ref_gather_ngeom        owned geometry records of one type, all ranks
    ref_gather_geom         keywords 40/41/42; the record writer exists TWICE as well: `encGeomOwn` (rank 0's own records,
                            read from ref_geom) and `encGeomRecv ∘ packGeom` (the `node_id[3]`/`param[2]` message of a worker)
    CAD bytes               keyword 126, rank 0's `ref_geom_cad_data`

  Field widths, `Sec`, `layout` (true file offsets), `encVertex`, `encInt`, `encPos`, `encF64`, `i2d`, `secDim`, `secCad`
  are those of `Refine.Model.Meshb` (the serial writer's model); only what ref_gather.c codes separately is written here.

  Core-only imports: linked into `refdrv` (driver `gathermeshb`).
-/
namespace Refine.Model.GatherMeshb
open Refine.Model.Meshb Refine.Model.Par Refine.Gen

/-! ## the distributed mesh -/

/-- a geometry association stored on a rank (`ref_geom` index order); `node` is the GLOBAL id of `ref_geom_node` -/
structure LGeom where
  type : Nat
  node : Nat
  id : Int
  gref : Int
  p0 : UInt64
  p1 : UInt64
  deriving DecidableEq, Repr, Inhabited

/-- what one rank holds: its vertices (owned and ghost) with global id, `ref_node_part` and xyz bit patterns; the cells of
    the 16 groups of `each_ref_grid_all_ref_cell` in local order (vertices as global ids, id column); its geometry records;
    its copy of the CAD blob -/
structure Rank where
  nodes : List (Node Vertex)
  cells : List (List GCell)
  geoms : List LGeom
  cad : Bytes

structure Dist where
  twod : Bool
  /-- `ref_node_n_global` -/
  nglobal : Nat
  ranks : List Rank

/-- the rank as `ref_gather_node` sees it -/
def nodeView (rk : Rank) : RankView Vertex := ⟨rk.nodes, []⟩

/-- the rank as `ref_cell_ncell` / `ref_gather_cell` see it for group `k` -/
def cellView (k : Nat) (rk : Rank) : RankView Vertex := ⟨rk.nodes, rk.cells.getD k []⟩

/-! ## version (ref_gather_meshb) -/

/-- `version = 2; if (1 < meshb_version) version = meshb_version; else { > VERTEX_3 → 3; > VERTEX_4 → 4 }` -/
def versionOf (mv : Int) (N : Nat) : Nat :=
  if 1 < mv then mv.toNat
  else if GatherMeshb.vertex4 < N then 4 else if GatherMeshb.vertex3 < N then 3 else 2

/-! ## vertices: `ref_gather_node` -/

/-- `MPI_SUM` of the (x, y, z) slots; `add` is the addition of doubles on bit patterns -/
def vadd (add : UInt64 → UInt64 → UInt64) (a b : Vertex) : Vertex := ⟨add a.x b.x, add a.y b.y, add a.z b.z⟩

/-- the `0.0` padding of `local_xyzm` -/
def vzero : Vertex := ⟨0, 0, 0⟩

/-- keyword 4 as ref_gather_meshb lays it out: `next_position` from `ref_node_n_global`, the count, then what
    ref_gather_node wrote -/
def secVertsG (v : Nat) (twod : Bool) (N : Nat) (written : List Vertex) : Sec :=
  { kw := 4, declLen := headerSize v + N * ((if twod then 2 else 3) * 8 + intSize v),
    body := encInt v N ++ written.flatMap (encVertex v twod) }

/-! ## cells: `ref_gather_cell` -/

/-- `globals[]` for a cell rank 0 owns: `ref_node_global + 1`, `REF_EXPORT_MESHB_3D_ID` or the id column, then the
    FIRST copy of the pyramid re-ordering -/
def cellRecordOwn (ci : CellInfo) (c : GCell) : List Int :=
  let nodes := c.nodes.map fun (g : Nat) => (g : Int) + 1
  let nodes := if GatherMeshb.alwaysId && ci.isPyr then permute PyrPerm.gatherCell0 nodes else nodes
  nodes ++ [if ci.lastId then c.id else CodecConsts.volumeId]

/-- the `c2n` row a worker sends: `size_per` entries, globals (0-based) then the id column as `REF_GLOB` -/
def packCell (ci : CellInfo) (c : GCell) : List Int :=
  c.nodes.map (fun (g : Nat) => (g : Int)) ++ (if ci.lastId then [c.id] else [])

/-- `globals[]` for a received row: `c2n[node] + 1`, `3D_ID` or `c2n[node_per]`, then the SECOND copy of the pyramid
    re-ordering -/
def cellRecordRecv (ci : CellInfo) (row : List Int) : List Int :=
  let nodes := (row.take ci.nodePer).map (· + 1)
  let nodes := if GatherMeshb.alwaysId && ci.isPyr then permute PyrPerm.gatherCell1 nodes else nodes
  nodes ++ [if ci.lastId then row.getD ci.nodePer 0 else CodecConsts.volumeId]

/-- the `node_per` vertices and the id as `int` (version < 4) or `long` (`sixty_four_bit`) -/
def encRecord (v : Nat) (rec : List Int) : Bytes := rec.flatMap (encInt v)

/-- what rank 0 writes for group `k`, ranks `r, r+1, …`: its own owned cells (`r = 0`), then each worker's -/
def cellBytesFrom (v : Nat) (ci : CellInfo) (k : Nat) : Nat → List Rank → Bytes
  | _, [] => []
  | r, rk :: rest =>
    (if r = 0 then (emitted r (cellView k rk)).flatMap fun c => encRecord v (cellRecordOwn ci c)
     else ((emitted r (cellView k rk)).map (packCell ci)).flatMap fun row => encRecord v (cellRecordRecv ci row))
    ++ cellBytesFrom v ci k (r + 1) rest

/-- keyword of group `k`: `next_position` from `ref_cell_ncell`, the count, the records -/
def secCellsG (v : Nat) (ci : CellInfo) (k : Nat) (ranks : List Rank) : Sec :=
  let n := ncell (ranks.map (cellView k))
  { kw := ci.kw, declLen := headerSize v + n * (intSize v * (ci.nodePer + 1)),
    body := encInt v n ++ cellBytesFrom v ci k 0 ranks }

/-! ## geometry associations: `ref_gather_ngeom`, `ref_gather_geom` -/

/-- `ref_mpi_rank == ref_node_part(ref_node, ref_geom_node(ref_geom, geom))` -/
def geomOwned (r : Nat) (rk : Rank) (g : LGeom) : Bool :=
  match localOf (nodeView rk) g.node with
  | some nd => nd.part == r
  | none => false

/-- `each_ref_geom_of(ref_geom, type, geom)` with the owner filter: the records of type `t` rank `r` contributes -/
def geomsOwnedOf (t r : Nat) (rk : Rank) : List LGeom :=
  rk.geoms.filter fun g => g.type == t && geomOwned r rk g

def ngeomFrom (t : Nat) : Nat → List Rank → Nat
  | _, [] => 0
  | r, rk :: rest => (geomsOwnedOf t r rk).length + ngeomFrom t (r + 1) rest

/-- FIRST record writer (rank 0's own records): vertex `global + 1` (`ref_gather_meshb_glob`), id, `type` parameters
    from `ref_geom_param`, then for edges and faces `(double)ref_geom_gref` -/
def encGeomOwn (v t : Nat) (g : LGeom) : Bytes :=
  encInt v ((g.node : Int) + 1) ++ encInt v g.id ++
  (if 0 < t then encF64 g.p0 else []) ++ (if 1 < t then encF64 g.p1 else []) ++
  (if 0 < t then encF64 (i2d g.gref) else [])

/-- what a worker sends for one record: `node_id[0..3)` as `REF_GLOB`, `param[0..2)` (zero beyond `type`) -/
structure GeomMsg where
  nodeId : List Int
  q0 : UInt64
  q1 : UInt64
  deriving DecidableEq, Repr

/-- the packing loop of a worker; the column each value goes to is regenerated from the C -/
def packGeom (t : Nat) (g : LGeom) : GeomMsg :=
  ⟨(((List.replicate 3 (0 : Int)).set GatherMeshb.packNodeCol (g.node : Int)).set GatherMeshb.packIdCol g.id).set
      GatherMeshb.packGrefCol g.gref,
    if 0 < t then g.p0 else 0, if 1 < t then g.p1 else 0⟩

/-- SECOND record writer (received records): vertex `node_id[0] + 1`, id `(REF_INT)node_id[1]`, parameters from the
    message, `(double)node_id[2]` — the columns read are regenerated from the C -/
def encGeomRecv (v t : Nat) (m : GeomMsg) : Bytes :=
  encInt v (m.nodeId.getD GatherMeshb.recvNodeCol 0 + 1) ++ encInt v (wrap32 (m.nodeId.getD GatherMeshb.recvIdCol 0)) ++
  (if 0 < t then encF64 m.q0 else []) ++ (if 1 < t then encF64 m.q1 else []) ++
  (if 0 < t then encF64 (i2d (m.nodeId.getD GatherMeshb.recvGrefCol 0)) else [])

def geomBytesFrom (v t : Nat) : Nat → List Rank → Bytes
  | _, [] => []
  | r, rk :: rest =>
    (if r = 0 then (geomsOwnedOf t r rk).flatMap (encGeomOwn v t)
     else ((geomsOwnedOf t r rk).map (packGeom t)).flatMap (encGeomRecv v t))
    ++ geomBytesFrom v t (r + 1) rest

/-- keyword `40 + t`; `next_position = header_size + ngeom * (int_size * 2 + 8 * type) + (0 < type ? 8 * ngeom : 0)` -/
def secGeomG (v t : Nat) (ranks : List Rank) : Sec :=
  let n := ngeomFrom t 0 ranks
  { kw := 40 + t, declLen := headerSize v + n * (intSize v * 2 + 8 * t) + (if 0 < t then 8 * n else 0),
    body := encInt v n ++ geomBytesFrom v t 0 ranks }

/-! ## the file -/

/-- rank 0's `ref_geom_cad_data` -/
def cadOf (ranks : List Rank) : Bytes :=
  match ranks with
  | rk :: _ => rk.cad
  | [] => []

/-- the dimension keyword needs only `twod` -/
def dimMesh (twod : Bool) : MeshFile := { twod := twod, nodes := [], cells := [], geoms := [], cad := [] }

/-- every keyword ref_gather_meshb knows, in writing order, with "is it written": the vertex keyword always, a cell group
    when `ref_cell_ncell > 0`, a geometry type when `ref_gather_ngeom > 0`, the CAD blob when its size is positive -/
def masterG (v : Nat) (d : Dist) (written : List Vertex) : List (Bool × Sec) :=
  [(true, secDim v (dimMesh d.twod)), (true, secVertsG v d.twod d.nglobal written)] ++
  (cellInfos.zipIdx).map (fun p => (decide (0 < ncell (d.ranks.map (cellView p.2))), secCellsG v p.1 p.2 d.ranks)) ++
  [0, 1, 2].map (fun t => (decide (0 < ngeomFrom t 0 d.ranks), secGeomG v t d.ranks)) ++
  [(!(cadOf d.ranks).isEmpty, secCad v (cadOf d.ranks))]

def sectionsG (v : Nat) (d : Dist) (written : List Vertex) : List Sec :=
  ((masterG v d written).filter (·.1)).map (·.2)

/-- the bytes of the file given what ref_gather_node wrote -/
def fileBytes (v : Nat) (d : Dist) (written : List Vertex) : Bytes :=
  le32 1 ++ le32 v ++ layout v 8 (sectionsG v d written)

/-- outcome of `ref_gather_by_extension(ref_grid, "….meshb")` on rank 0 -/
inductive Out
  /-- `chunk = 0`: ref_gather_node never leaves its loop -/
  | hang
  /-- ref_gather_node reported "node used more or less than once": `RSS` returns before anything else is written -/
  | fail (st : Refine.Model.Comm.Status)
  | ok (bytes : Bytes)

/-- `ref_gather_meshb`: `add` = addition of doubles (bit patterns), `rbl` = `ref_mpi_reduce_byte_limit`,
    `mv` = `ref_grid_meshb_version` -/
def gatherMeshb (add : UInt64 → UInt64 → UInt64) (rbl : Int) (mv : Int) (d : Dist) : Out :=
  let v := versionOf mv d.nglobal
  match gatherNode (vadd add) vzero rbl d.nglobal (d.ranks.map nodeView) with
  | .hang => .hang
  | .done st written =>
    if st = Refine.Model.Comm.Status.ok then .ok (fileBytes v d written) else .fail st

end Refine.Model.GatherMeshb
