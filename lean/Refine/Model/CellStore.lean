import Refine.Gen.CellTables
import Refine.Model.NodeIds

/-!
  L1 Containers / `CellStore`: the cell store of `src/ref_cell.c`
  (`ref_cell_create/add/remove/replace_whole/replace_node/compact/pack/nodes/with/has_side/
   degree_with2/list_with2/node_list_around/id_list_around`).

  Concrete layer:
  * `c2n`   = the rows `c2n[size_per*cell .. size_per*(cell+1))`.  A row with `row[0] = REF_EMPTY` is
    invalid; the free list is threaded through `row[1]` (plain next index, `REF_EMPTY` terminates),
    `blank` is its head.  Entries `row[2..]` of a free row are stale / uninitialised in the C and are
    never read; dumps print `row[0], row[1]` only for such rows.
  * `adj`   = the embedded `ref_adj`, modelled as node ↦ list of cell ids in exactly the order the C
    iterates the chain (`ref_adj_add` pushes at the front, `ref_adj_remove` unlinks the first match).
    The item array / item free list of `ref_adj.c` is the sibling package's subject (C14 part A).
  * `n` is an `Int`: `ref_cell_remove` decrements it before the adjacency is updated and `ref_cell_add`
    increments it after, so the error paths (negative node ids) can leave it off by one, as in the C.

  Everything is executable and core-only.  Theorems: `Refine/Props/C14NodeCell.lean`.
-/
namespace Refine.Model.CellStore
open Refine.Model.NodeIds (Status)

/-! ### minimal `ref_adj` (iteration-order exact) -/

structure Adj where
  lists : List (List Int)
  deriving Repr, DecidableEq

namespace Adj

/-- `ref_adj_create`: `nnode = 10` -/
def create : Adj := ⟨List.replicate 10 []⟩

def nnode (a : Adj) : Nat := a.lists.length

/-- the refs reached by `each_ref_adj_node_item_with_ref(ref_adj,node,item,ref)`, in order -/
def first (a : Adj) (node : Int) : List Int :=
  if node < 0 then [] else a.lists.getD node.toNat []

def INT_MAX : Nat := 2147483647

/-- `ref_adj_add` -/
def add (a : Adj) (node ref : Int) : Status × Adj :=
  if node < 0 then (.invalid, a) else
  let v := node.toNat
  let lists :=
    if v ≥ a.lists.length then
      let orig := a.lists.length
      -- `chunk = MAX(100 + MAX(0,node-orig), (REF_INT)(0.5*orig))`; the `MIN(chunk, REF_INT_MAX-orig)` clamp
      -- only matters for node ids within 100 of `REF_INT_MAX` (32-bit wrap-around is not modelled)
      let chunk := Nat.max (100 + (v - orig)) (orig / 2)
      a.lists ++ List.replicate chunk []
    else a.lists
  (.ok, ⟨lists.set v (ref :: lists.getD v [])⟩)

/-- `ref_adj_remove`: unlink the first item of `node` whose ref is `reference` -/
def remove (a : Adj) (node ref : Int) : Status × Adj :=
  let l := a.first node
  if l.isEmpty then (.invalid, a)
  else if !l.contains ref then (.invalid, a)
  else (.ok, ⟨a.lists.set node.toNat (l.erase ref)⟩)

end Adj

/-! ### the store -/

structure CellStore where
  nodePer : Nat
  sizePer : Nat
  e2n : List (Nat × Nat)
  n : Int
  blank : Int
  c2n : List (List Int)
  adj : Adj
  deriving Repr, DecidableEq

namespace CellStore

def max (s : CellStore) : Nat := s.c2n.length

/-- a free row `cell` : `c2n[0] = REF_EMPTY; c2n[1] = cell+1` (last: `REF_EMPTY`) -/
def freeRow (sizePer : Nat) (next : Int) : List Int :=
  [-1, next] ++ List.replicate (sizePer - 2) 0

def freeRows (sizePer orig newMax : Nat) : List (List Int) :=
  (List.range (newMax - orig)).map fun k =>
    freeRow sizePer (if orig + k + 1 = newMax then (-1 : Int) else ((orig + k + 1 : Nat) : Int))

/-- `ref_cell_create` for a cell type of the generated tables -/
def create (t : Refine.Gen.CellTables.CellType) : CellStore :=
  let sizePer := t.nodePer + (if t.lastNodeIsId then 1 else 0)
  { nodePer := t.nodePer, sizePer := sizePer,
    e2n := t.e2n.filterMap fun e => match e with | [a, b] => some (a, b) | _ => none,
    n := 0, blank := 0, c2n := freeRows sizePer 0 100, adj := Adj.create }

def row (s : CellStore) (c : Nat) : List Int := s.c2n.getD c []

/-- `ref_cell_c2n(ref_cell,node,cell)` -/
def c2nAt (s : CellStore) (k : Nat) (c : Nat) : Int := (s.row c).getD k (-1)

/-- `ref_cell_valid(ref_cell,cell)` -/
def validCell (s : CellStore) (cell : Int) : Bool :=
  decide (cell ≥ 0) && decide (cell < (s.max : Int)) && decide (s.c2nAt 0 cell.toNat ≠ -1)

/-- `ref_cell_nodes` -/
def nodes (s : CellStore) (cell : Int) : Status × List Int :=
  if s.validCell cell then (.ok, s.row cell.toNat) else (.invalid, [])

def MAX_LIMIT : Nat := 2147483647 / 4

/-- the growth branch of `ref_cell_add` (`REF_EMPTY == blank`); `none` = the `RAS` failure at the limit -/
def grow (s : CellStore) : Option CellStore :=
  if s.blank = -1 then
    if s.max = MAX_LIMIT then none
    else if ¬ (MAX_LIMIT - s.max > 0) then none
    else
      let orig := s.max
      let chunk := Nat.min (Nat.max 5000 (orig + orig / 2)) (MAX_LIMIT - orig)
      some { s with c2n := s.c2n ++ freeRows s.sizePer orig (orig + chunk), blank := (orig : Int) }
  else some s

/-- `ref_adj_add(adj, nodes[k], cell)` for `k < node_per`, stopping at the first error -/
def adjAddAll : Adj → List Int → Int → Status × Adj
  | a, [], _ => (.ok, a)
  | a, v :: rest, cell =>
    let r := a.add v cell
    if r.1 = .ok then adjAddAll r.2 rest cell else r

/-- `ref_adj_remove(adj, nodes[k], cell)` for `k < node_per`, stopping at the first error -/
def adjRemoveAll : Adj → List Int → Int → Status × Adj
  | a, [], _ => (.ok, a)
  | a, v :: rest, cell =>
    let r := a.remove v cell
    if r.1 = .ok then adjRemoveAll r.2 rest cell else r

/-- `ref_cell_add` (`nodes` has `size_per` entries).  Returns `(status, new_cell, state)`;
    `new_cell = REF_EMPTY` unless `REF_SUCCESS`. -/
def add (s : CellStore) (nodes : List Int) : Status × Int × CellStore :=
  match s.grow with
  | none => (.failure, -1, s)
  | some s =>
    let cell := s.blank
    let c := cell.toNat
    let s1 := { s with blank := s.c2nAt 1 c, c2n := s.c2n.set c nodes }
    let r := adjAddAll s1.adj (nodes.take s.nodePer) cell
    if r.1 = .ok then (.ok, cell, { s1 with adj := r.2, n := s1.n + 1 })
    else (r.1, -1, { s1 with adj := r.2 })

/-- `ref_cell_remove` -/
def remove (s : CellStore) (cell : Int) : Status × CellStore :=
  if !s.validCell cell then (.invalid, s) else
  let c := cell.toNat
  let s1 := { s with n := s.n - 1 }
  let r := adjRemoveAll s1.adj ((s1.row c).take s1.nodePer) cell
  if r.1 ≠ .ok then (r.1, { s1 with adj := r.2 }) else
  (.ok, { s1 with adj := r.2, c2n := s1.c2n.set c (((s1.row c).set 0 (-1)).set 1 s1.blank), blank := cell })

/-- the per-node loop of `ref_cell_replace_whole`, `k = node .. node_per-1` -/
def replaceWholeLoop (s : CellStore) (cell : Int) (nodes : List Int) : Nat → Nat → Status × CellStore
  | 0, _ => (.ok, s)
  | todo + 1, k =>
    let c := cell.toNat
    let r := s.adj.remove (s.c2nAt k c) cell
    if r.1 ≠ .ok then (r.1, { s with adj := r.2 }) else
    let v := nodes.getD k (-1)
    let s1 := { s with adj := r.2, c2n := s.c2n.set c ((s.row c).set k v) }
    let r2 := s1.adj.add v cell
    if r2.1 ≠ .ok then (r2.1, { s1 with adj := r2.2 }) else
    replaceWholeLoop { s1 with adj := r2.2 } cell nodes todo (k + 1)

/-- `ref_cell_replace_whole` (invalid cell ↦ `REF_FAILURE`) -/
def replaceWhole (s : CellStore) (cell : Int) (nodes : List Int) : Status × CellStore :=
  if !s.validCell cell then (.failure, s) else
  let r := replaceWholeLoop s cell nodes s.nodePer 0
  if r.1 ≠ .ok then r else
  if s.sizePer > s.nodePer then
    let c := cell.toNat
    let k := s.sizePer - 1
    (.ok, { r.2 with c2n := r.2.c2n.set c ((r.2.row c).set k (nodes.getD k (-1))) })
  else r

/-- inner `for (node < node_per) if (old_node == c2n(node,cell)) { remove; set; add }` of `replace_node` -/
def replaceInCell (s : CellStore) (cell : Int) (old new : Int) : Nat → Nat → Status × CellStore
  | 0, _ => (.ok, s)
  | todo + 1, k =>
    let c := cell.toNat
    if old = s.c2nAt k c then
      let r := s.adj.remove old cell
      if r.1 ≠ .ok then (r.1, { s with adj := r.2 }) else
      let s1 := { s with adj := r.2, c2n := s.c2n.set c ((s.row c).set k new) }
      let r2 := s1.adj.add new cell
      if r2.1 ≠ .ok then (r2.1, { s1 with adj := r2.2 }) else
      replaceInCell { s1 with adj := r2.2 } cell old new todo (k + 1)
    else replaceInCell s cell old new todo (k + 1)

/-- the `while (ref_adj_valid(item))` loop of `ref_cell_replace_node`.  The C has no bound; it terminates
    because every iteration unlinks at least one item of `old`'s chain (proved under the store invariant:
    `replaceNode_terminates`).  Fuel exhausted (`none`) would be a hang of the C. -/
def replaceNodeLoop (old new : Int) : Nat → CellStore → Option (Status × CellStore)
  | 0, s => if (s.adj.first old).isEmpty then some (.ok, s) else none
  | fuel + 1, s =>
    match s.adj.first old with
    | [] => some (.ok, s)
    | cell :: _ =>
      let r := replaceInCell s cell old new s.nodePer 0
      if r.1 ≠ .ok then some r else replaceNodeLoop old new fuel r.2

/-- `ref_cell_replace_node` -/
def replaceNode (s : CellStore) (old new : Int) : Option (Status × CellStore) :=
  if old = new then some (.ok, s)
  else replaceNodeLoop old new (s.adj.first old).length s

/-! ### queries -/

/-- insert into a strictly increasing list, keeping it strictly increasing -/
def insertU (x : Int) : List Int → List Int
  | [] => [x]
  | y :: ys => if x < y then x :: y :: ys else if x = y then y :: ys else y :: insertU x ys

/-- `ref_sort_unique_int`: the sorted list of distinct values -/
def uniq (l : List Int) : List Int := l.foldr insertU []

def withLoop (s : CellStore) (target : List Int) : List Int → Status × Int
  | [] => (.not_found, -1)
  | ref :: rest =>
    if !s.validCell ref then (.invalid, -1)
    else if uniq ((s.row ref.toNat).take s.nodePer) = target then (.ok, ref)
    else withLoop s target rest

/-- `ref_cell_with` -/
def withNodes (s : CellStore) (nodes : List Int) : Status × Int :=
  withLoop s (uniq (nodes.take s.nodePer)) (s.adj.first (nodes.getD 0 (-1)))

/-- `ref_cell_has_side` -/
def hasSide (s : CellStore) (n0 n1 : Int) : Bool :=
  (s.adj.first n0).any fun cell =>
    s.e2n.any fun (a, b) =>
      let x := s.c2nAt a cell.toNat
      let y := s.c2nAt b cell.toNat
      (n0 == x && n1 == y) || (n0 == y && n1 == x)

/-- the cells produced by `each_ref_cell_having_node2(ref_cell,node0,node1,item,cell_node,cell)`, in order
    (one entry per matching `cell_node`) -/
def having2 (s : CellStore) (n0 n1 : Int) : List Int :=
  (s.adj.first n0).flatMap fun cell =>
    ((List.range s.nodePer).filter fun k => n1 == s.c2nAt k cell.toNat).map fun _ => cell

/-- `ref_cell_degree_with2` -/
def degreeWith2 (s : CellStore) (n0 n1 : Int) : Nat := (s.having2 n0 n1).length

/-- `ref_cell_list_with2` -/
def listWith2 (s : CellStore) (n0 n1 : Int) (maxCell : Int) : Status × List Int :=
  let l := s.having2 n0 n1
  if (l.length : Int) > maxCell then (.increase_limit, []) else (.ok, l)

def nodeListGo (node : Int) (maxNode : Int) : List Int → List Int → Status × List Int
  | [], acc => (.ok, acc)
  | x :: rest, acc =>
    if node = x then nodeListGo node maxNode rest acc
    else if acc.contains x then nodeListGo node maxNode rest acc
    else if (acc.length : Int) ≥ maxNode then (.increase_limit, [])
    else nodeListGo node maxNode rest (acc ++ [x])

/-- `ref_cell_node_list_around` -/
def nodeListAround (s : CellStore) (node : Int) (maxNode : Int) : Status × List Int :=
  nodeListGo node maxNode
    ((s.adj.first node).flatMap fun cell => (s.row cell.toNat).take s.nodePer) []

def idListGo (s : CellStore) (maxIds : Int) : List Int → List Int → Status × List Int
  | [], acc => (.ok, acc)
  | cell :: rest, acc =>
    if !s.validCell cell then (.invalid, [])
    else
      let x := s.c2nAt s.nodePer cell.toNat
      if acc.contains x then idListGo s maxIds rest acc
      else if (acc.length : Int) ≥ maxIds then (.increase_limit, [])
      else idListGo s maxIds rest (acc ++ [x])

/-- `ref_cell_id_list_around` (cell types with `last_node_is_an_id`) -/
def idListAround (s : CellStore) (node : Int) (maxIds : Int) : Status × List Int :=
  idListGo s maxIds (s.adj.first node) []

/-- `o2n` of `ref_cell_compact`: valid rows numbered consecutively, `REF_EMPTY` elsewhere -/
def numberRows : List (List Int) → Nat → List Int
  | [], _ => []
  | r :: rest, k => if r.getD 0 (-1) != -1 then (k : Int) :: numberRows rest (k + 1) else -1 :: numberRows rest k

/-- `ref_cell_compact` : `(o2n[0..max), n2o[0..n))` -/
def compact (s : CellStore) : Status × List Int × List Int :=
  let n2o := (s.c2n.zipIdx.filter fun rc => rc.1.getD 0 (-1) != -1).map (·.2)
  if (n2o.length : Int) ≠ s.n then (.failure, [], []) else
  (.ok, numberRows s.c2n 0, n2o.map fun (c : Nat) => (c : Int))

/-- `ref_cell_pack(ref_cell, o2n)` with the node map `o2n`: valid cells are moved to the front in slot
    order with renumbered nodes, re-ordered by the literal `ref_sort_heap_int` on the smallest node of each
    cell, the adjacency is rebuilt from scratch.  If the count is off (`REIS(compact, n)`, reachable after an
    error status) the C returns `REF_FAILURE` having overwritten the leading rows only; so does the model. -/
def pack (s : CellStore) (o2n : List Int) : Status × CellStore :=
  let live := s.c2n.filter fun r => r.getD 0 (-1) != -1
  let rows := live.map fun r =>
    ((r.take s.nodePer).map fun v => o2n.getD v.toNat (-1)) ++ r.drop s.nodePer
  if (live.length : Int) ≠ s.n then (.failure, { s with c2n := rows ++ s.c2n.drop rows.length }) else
  let key := rows.map fun r => ((r.take s.nodePer).foldl (fun m v => if v < m then v else m) (r.getD 0 0))
  let order := Refine.Model.NodeIds.NodeIds.heapSortIdx key
  let rows := order.map fun i => rows.getD i []
  let n := rows.length
  let c2n := rows ++ (if n < s.max then freeRows s.sizePer n s.max else [])
  let blank : Int := if n < s.max then (n : Int) else -1
  let s1 := { s with c2n := c2n, blank := blank, adj := Adj.create }
  -- re-register
  let reg := (List.range n).foldl (fun (acc : Status × Adj) c =>
      if acc.1 ≠ .ok then acc else adjAddAll acc.2 ((rows.getD c []).take s.nodePer) (c : Int)) (.ok, Adj.create)
  (reg.1, { s1 with adj := reg.2 })

end CellStore
end Refine.Model.CellStore
