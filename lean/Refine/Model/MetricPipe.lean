import Refine.Model.Gradation
import Refine.Gen.MultiscaleOpts

/-!
  MetricPipe: the *pipeline* of `ref multiscale` (property C10) — the drivers of `ref_metric.c` that call the
  stage functions in a fixed order with fixed arguments, the `--buffer` post-processing, and the option scan of the
  `multiscale` subcommand of `ref_subcommand.c`.  The stage functions themselves are the existing models
  (`Model/Metric.lean`, `Model/Gradation.lean`); nothing is re-modelled here, only composed.  Core-only imports.

  `C name` → model:
  * `ref_metric_lp` after `ref_recon_hessian` (the reconstruction is C19's; the Hessian is an input) → `metricLp`
    (`ref_recon_roundoff_limit`, `ref_metric_local_scale(p_norm)`, `ref_metric_limit_aspect_ratio(aspect_ratio)`,
    `ref_metric_gradation_at_complexity(gradation, target_complexity)`, each `RSS` returning the callee's status)
  * `hessian_multiscale` after `ref_part_metric` / `ref_metric_from_node` (the `--hessian` path) → `hessianMultiscale`
    (`ref_recon_abs_value_hessian`, `ref_recon_roundoff_limit`, `ref_metric_local_scale(p)`,
    `ref_metric_gradation_at_complexity(gradation, complexity)`; NO aspect-ratio limiter on this path)
  * `ref_metric_buffer` → `bufferExtents`, `bufferHmin`, `bufferNode`, `buffer`
  * `ref_metric_buffer_at_complexity` → `bufRelax`, `bufLoop`, `bufferAtComplexity` (10 relaxations of
    buffer / embedding / complexity / divisible guard / rescale+embedding; the last two are `Metric.setComplexity`);
    the text before /repo cef0178 (exponent 2/3 on every grid, no embedding) is kept as `bufferAtComplexityLegacy`
  * `ref_args_find` → `argsFind`; `atoi` / `atof` on plain decimal words → `atoiDec`, `atofDec`
  * the argument scan of `multiscale` → `multiscaleOptions` (flag names, positions and defaults come from
    `Gen/MultiscaleOpts.lean`, regenerated from the C text on every run)
  * the metric part of `multiscale` (no `--fixed-point`, no `--uniform`) → `multiscaleMetric`, and the
    `actual complexity` it reports → `multiscaleReport`
-/
namespace Refine.Model.MetricPipe
open Refine Refine.Scalar Refine.Model.Matrix Refine.Model.Metric Refine.Model.Gradation
open Refine.Model.Recon (Cell CellKind xyzAt)
open Refine.Model.Geom (V3)
open Refine.Gen

variable {α : Type} [Scalar α]

/-! ### `ref_metric_lp` and `hessian_multiscale` -/

/-- the stages of `ref_metric_lp` after the reconstruction, in the coded order with the coded arguments -/
def metricLp (twod : Bool) (owned : Nat → Bool) (xyz : List (V3 α)) (cells : List Cell) (pNorm : Int)
    (gradation aspectRatio targetComplexity : α) (hessian : List (M6 α)) : Except Err (List (M6 α)) :=
  match roundoffLimit xyz cells hessian with
  | .error e => .error e
  | .ok floored =>
    let scaled := localScale twod pNorm floored
    match limitAspectRatio twod aspectRatio scaled with
    | .error e => .error e
    | .ok limited => gradationAtComplexity twod owned xyz cells gradation targetComplexity limited

/-- `hessian_multiscale` after the Hessian was read: abs value, round-off floor, Lp scale, gradation at complexity -/
def hessianMultiscale (twod : Bool) (owned : Nat → Bool) (xyz : List (V3 α)) (cells : List Cell) (p : Int)
    (gradation complexity : α) (hessian : List (M6 α)) : Except Err (List (M6 α)) :=
  match absHessian owned hessian with
  | .error e => .error e
  | .ok absd =>
    match roundoffLimit xyz cells absd with
    | .error e => .error e
    | .ok floored => gradationAtComplexity twod owned xyz cells gradation complexity (localScale twod p floored)

/-! ### `ref_metric_buffer` -/

@[inline] def dec (d : Int × Int) : α := Scalar.ofDec d.1 d.2

/-- `r = sqrt(x*x + y*y + z*z)` -/
def radius (p : V3 α) : α := Scalar.sqrt (p.x *. p.x +. p.y *. p.y +. p.z *. p.z)

/-- first loop: `rmax = MAX(rmax, r); xmax = MAX(xmax, x)` from `rmax = 0.0`, `xmax = -1.0e-100`
    (`ref_mpi_max` is the identity on one rank); returns `(rmax, xmax)` -/
def bufferExtents (xyz : List (V3 α)) : α × α :=
  xyz.foldl (fun (acc : α × α) p => (cmax acc.1 (radius p), cmax acc.2 p.x))
    (dec MultiscaleOpts.bufRmax0, dec MultiscaleOpts.bufXmax0)

/-- the spacing cap at a vertex: `s = MIN(1, r/xmax)`; the exponent profile in `s`; `hmin = rmax * pow(10, exponent)` -/
def bufferHmin (rmax xmax : α) (p : V3 α) : α :=
  let smin : α := dec MultiscaleOpts.bufSmin
  let smax : α := dec MultiscaleOpts.bufSmax
  let emin : α := dec MultiscaleOpts.bufEmin
  let emax : α := dec MultiscaleOpts.bufEmax
  let r := radius p
  let s := cmin one (r /. xmax)
  let t := cmin (s /. smin) one
  let exponent := dec MultiscaleOpts.bufInner *. (one -. t) +. emin *. t
  let exponent :=
    if Scalar.lt smin s && Scalar.lt s smax then
      let t := (s -. smin) /. (smax -. smin)
      emin *. (one -. t) +. emax *. t
    else exponent
  let exponent := if Scalar.le smax s then emax else exponent
  rmax *. Scalar.pow (dec MultiscaleOpts.bufBase) exponent

/-- node body: `diag_m; if (divisible(1, hmin²)) eig_i = MIN(eig_i, 1/hmin²); form_m` -/
def bufferNode (rmax xmax : α) (p : V3 α) (m : M6 α) : Except Err (M6 α) :=
  match diagM m with
  | .error e => .error e
  | .ok d =>
    let hmin := bufferHmin rmax xmax p
    let h2 := hmin *. hmin
    if divisible one h2 then
      let eig := one /. h2
      .ok (formM (mapEig (fun l => cmin l eig) d))
    else .ok (formM d)

/-- second loop over the vertices, first failing `ref_matrix_diag_m` returned -/
def bufferGo (rmax xmax : α) : List (V3 α) → List (M6 α) → Except Err (List (M6 α))
  | p :: ps, m :: ms =>
    match bufferNode rmax xmax p m with
    | .error e => .error e
    | .ok x =>
      match bufferGo rmax xmax ps ms with
      | .error e => .error e
      | .ok xs => .ok (x :: xs)
  | _, _ => .ok []

/-- `ref_metric_buffer` on one rank -/
def buffer (xyz : List (V3 α)) (metric : List (M6 α)) : Except Err (List (M6 α)) :=
  let ext := bufferExtents xyz
  bufferGo ext.1 ext.2 xyz metric

/-! ### `ref_metric_buffer_at_complexity` -/

/-- one relaxation: `ref_metric_buffer`; the embedding block (2-D); then complexity, the divisible guard, the six
    multiplications and the embedding block per vertex — that second half is statement for statement
    `ref_metric_set_complexity` -/
def bufRelax (twod : Bool) (owned : Nat → Bool) (xyz : List (V3 α)) (cells : List Cell) (target : α)
    (metric : List (M6 α)) : Except Err (List (M6 α)) :=
  match buffer xyz metric with
  | .error e => .error e
  | .ok buffered => setComplexity twod owned xyz (reEmbed twod buffered) cells target

/-- `for (relaxations = 0; relaxations < n; relaxations++)` -/
def bufLoop (twod : Bool) (owned : Nat → Bool) (xyz : List (V3 α)) (cells : List Cell) (target : α) :
    Nat → List (M6 α) → Except Err (List (M6 α))
  | 0, metric => .ok metric
  | n + 1, metric =>
    match bufRelax twod owned xyz cells target metric with
    | .error e => .error e
    | .ok metric1 => bufLoop twod owned xyz cells target n metric1

/-- `ref_metric_buffer_at_complexity` on one rank -/
def bufferAtComplexity (twod : Bool) (owned : Nat → Bool) (xyz : List (V3 α)) (cells : List Cell) (target : α)
    (metric : List (M6 α)) : Except Err (List (M6 α)) :=
  bufLoop twod owned xyz cells target MultiscaleOpts.bufRelaxations metric

/-- history: the loop body before /repo cef0178 — exponent 2/3 on every grid and no embedding block, i.e. the 3-D
    rescale applied to 2-D grids as well -/
def bufRelaxLegacy (owned : Nat → Bool) (xyz : List (V3 α)) (cells : List Cell) (target : α)
    (metric : List (M6 α)) : Except Err (List (M6 α)) :=
  match buffer xyz metric with
  | .error e => .error e
  | .ok buffered => setComplexity false owned xyz buffered cells target

def bufLoopLegacy (owned : Nat → Bool) (xyz : List (V3 α)) (cells : List Cell) (target : α) :
    Nat → List (M6 α) → Except Err (List (M6 α))
  | 0, metric => .ok metric
  | n + 1, metric =>
    match bufRelaxLegacy owned xyz cells target metric with
    | .error e => .error e
    | .ok metric1 => bufLoopLegacy owned xyz cells target n metric1

/-! ### the argument scan of `multiscale` -/

/-- `ref_args_find`: index of the first word equal to `target` -/
def argsFind (args : List String) (target : String) : Option Nat :=
  let rec go : List String → Nat → Option Nat
    | [], _ => none
    | a :: rest, i => if a == target then some i else go rest (i + 1)
  go args 0

def isDigit (c : Char) : Bool := '0' ≤ c && c ≤ '9'
def digitVal (c : Char) : Nat := c.toNat - '0'.toNat
def isSpaceC (c : Char) : Bool := c == ' ' || c == '\t' || c == '\n' || c == '\x0b' || c == '\x0c' || c == '\r'

def takeDigits : List Char → Nat → Nat → Nat × Nat × List Char
  | c :: rest, acc, n => if isDigit c then takeDigits rest (acc * 10 + digitVal c) (n + 1) else (acc, n, c :: rest)
  | [], acc, n => (acc, n, [])

/-- optional sign: `(negative, rest)` -/
def takeSign : List Char → Bool × List Char
  | '-' :: rest => (true, rest)
  | '+' :: rest => (false, rest)
  | cs => (false, cs)

/-- `atoi` on a decimal word: white space, sign, digits; no digits → 0 (values that fit an `int`) -/
def atoiDec (s : String) : Int :=
  let cs := s.toList.dropWhile isSpaceC
  let (neg, cs) := takeSign cs
  let (v, _, _) := takeDigits cs 0 0
  if neg then -(v : Int) else (v : Int)

/-- `atof` on a plain decimal word (`[ws][sign]digits[.digits][e[sign]digits]`, longest valid prefix; no digits →
    0.0) as an exact decimal `(mantissa, exp10)`; `strtod` rounds that decimal correctly, as `Scalar.ofDec` does.
    `inf`, `nan` and hexadecimal floats are NOT modelled (the tie does not generate them). -/
def atofDec (s : String) : Int × Int :=
  let cs := s.toList.dropWhile isSpaceC
  let (neg, cs) := takeSign cs
  let (ip, nI, cs) := takeDigits cs 0 0
  let (mant, nF, cs) :=
    match cs with
    | '.' :: rest =>
      let (m, nF, rest) := takeDigits rest ip 0
      (m, nF, rest)
    | _ => (ip, 0, cs)
  if nI + nF == 0 then (0, 0) else
  let ex : Int :=
    match cs with
    | c :: rest =>
      if c == 'e' || c == 'E' then
        let (eneg, rest) := takeSign rest
        let (ev, nE, _) := takeDigits rest 0 0
        if nE == 0 then 0 else (if eneg then -(ev : Int) else (ev : Int))
      else 0
    | [] => 0
  ((if neg then -(mant : Int) else (mant : Int)), ex - (nF : Int))

/-- what the scan of `multiscale` leaves in its local variables -/
structure Options where
  inMesh : String
  inScalar : String
  complexity : Int × Int
  outMetric : String
  p : Int
  gradation : Int × Int
  aspectRatio : Int × Int
  hessian : Bool
  fixedPoint : Bool
  buffer : Bool
  uniform : Bool
  pcd : Option String
  deriving DecidableEq, Repr

/-- a flag whose value is mandatory: absent → the default; last word → the usage exit (`none`);
    else the converted next word -/
def strictValue {β : Type} (argv : List String) (flag : String) (default : β) (conv : String → β) : Option β :=
  match argsFind argv flag with
  | none => some default
  | some pos => if pos ≥ argv.length - 1 then none else some (conv (argv.getD (pos + 1) ""))

/-- a flag whose value is optional to the scan: `REF_EMPTY != pos && pos + 1 < argc` -/
def lenientValue (argv : List String) (flag : String) : Option String :=
  match argsFind argv flag with
  | none => none
  | some pos => if pos + 1 < argv.length then some (argv.getD (pos + 1) "") else none

/-- the argument scan of `multiscale(ref_mpi, argc, argv)` (`argv[0]` the program, `argv[1]` the subcommand);
    `none` = `goto shutdown` (usage text, `REF_FAILURE`) -/
def multiscaleOptions (argv : List String) : Option Options :=
  if argv.length < MultiscaleOpts.minArgc then none else
  match strictValue argv "--norm-power" MultiscaleOpts.defaultP atoiDec,
        strictValue argv "--gradation" MultiscaleOpts.defaultGradation atofDec,
        strictValue argv "--aspect-ratio" MultiscaleOpts.defaultAspectRatio atofDec with
  | some p, some gradation, some aspectRatio =>
    some { inMesh := argv.getD MultiscaleOpts.posMesh ""
           inScalar := argv.getD MultiscaleOpts.posScalar ""
           complexity := atofDec (argv.getD MultiscaleOpts.posComplexity "")
           outMetric := argv.getD MultiscaleOpts.posOut ""
           p := p
           gradation := gradation
           aspectRatio := aspectRatio
           hessian := (argsFind argv "--hessian").isSome
           fixedPoint := (argsFind argv "--fixed-point").isSome
           buffer := (argsFind argv "--buffer").isSome
           uniform := (argsFind argv "--uniform").isSome
           pcd := lenientValue argv "--pcd" }
  | _, _, _ => none

/-! ### the metric part of the subcommand -/

/-- `multiscale` between the mesh read and `ref_metric_complexity` for the report, without `--fixed-point` and
    without `--uniform` (their branches are not modelled; the theorems take `fixedPoint = false`, `uniform = false`):
    `RAS(complexity > 1.0e-20)`; `hessian_multiscale` when `--hessian` was given, else `ref_metric_lp`
    (`field` is the Hessian file content resp. the reconstructed Hessian); then
    `ref_metric_buffer_at_complexity(metric, ref_grid, complexity)` when `--buffer` was given -/
def multiscaleMetric (o : Options) (twod : Bool) (owned : Nat → Bool) (xyz : List (V3 α)) (cells : List Cell)
    (field : List (M6 α)) : Except Err (List (M6 α)) :=
  let complexity : α := dec o.complexity
  if !(Scalar.lt (dec MultiscaleOpts.complexityFloor) complexity) then .error .failure else
  let base :=
    if o.hessian then hessianMultiscale twod owned xyz cells o.p (dec o.gradation) complexity field
    else metricLp twod owned xyz cells o.p (dec o.gradation) (dec o.aspectRatio) complexity field
  match base with
  | .error e => .error e
  | .ok metric => if o.buffer then bufferAtComplexity twod owned xyz cells complexity metric else .ok metric

/-- `ref_metric_complexity(metric, ref_grid, &current_complexity)`: the `actual complexity` line -/
def multiscaleReport (owned : Nat → Bool) (xyz : List (V3 α)) (cells : List Cell) (metric : List (M6 α)) : α :=
  complexity owned xyz metric cells

end Refine.Model.MetricPipe
