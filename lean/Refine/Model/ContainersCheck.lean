import Refine.Model.Containers

/-!
  Executable checkers of the `REF_LIST` / `REF_DICT` invariants (core-only), evaluated by the driver on
  state dumps of the real C code.  `Lemmas/ContainersCheck.lean` proves them equivalent to the `Inv`
  predicates the theorems are about.
-/
namespace Refine.Model

/-- strictly increasing (adjacent comparison) -/
def sortedLt : List Int → Bool
  | [] => true
  | [_] => true
  | x :: y :: r => decide (x < y) && sortedLt (y :: r)

def RDict.invCheck (d : RDict) : Bool :=
  sortedLt d.key && d.value.length == d.key.length && decide (d.n ≤ d.max) && d.max % 1000 == 10

def RList.invCheck (l : RList) : Bool := decide (l.n ≤ l.max) && l.max % 1000 == 10

end Refine.Model
